/-
Struct-level round trip, part 7: the whole member list, the object read back, and the header
(a prefix of the members, as the factory of an abstract type reads it).
-/
import SymbolVerif.Proofs.Codec.StructProg
namespace SymbolVerif.Codec
open SymbolVerif.Bytes

def FK.isFill : FK → Prop
  | .array _ .fill _ _ _ => True
  | _ => False

section
variable {S : Schema} {T : String → Bytes → Bytes} {r : Rec} {g : String → Val → Bool}
variable {d : StructDef} {vs : List (String × Val)}

theorem wfFieldAt_fill {pre : List Field} {f : Field} {isLast : Bool} (h : wfFieldAt S d pre f isLast = true)
    (hf : ∃ e a p k, f.kind = .array e .fill a p k) : isLast = true ∧ firstIsSizeF d = true := by
  obtain ⟨e, a, p, k, hk⟩ := hf
  unfold wfFieldAt at h
  simp only [hk, Bool.and_eq_true] at h
  exact h.2

theorem wfFieldAt_sizeF {pre : List Field} {f : Field} {isLast : Bool} (h : wfFieldAt S d pre f isLast = true)
    {w : Nat} (hk : f.kind = .sizeF w) : pre = [] ∧ f.cond = none := by
  unfold wfFieldAt at h
  simp only [hk, Bool.and_eq_true, List.isEmpty_iff, Option.isNone_iff_eq_none] at h
  exact h

/-- members after the first are not size members -/
theorem not_sizeF_of_wf (fs : List Field) : ∀ (pre : List Field), pre ≠ [] → wfFieldsFrom S d pre fs = true →
    ∀ f ∈ fs, ∀ w, f.kind ≠ .sizeF w := by
  induction fs with
  | nil => intro _ _ _ f hf; cases hf
  | cons f0 rest ih =>
    intro pre hpre h f hf w hk
    simp only [wfFieldsFrom, Bool.and_eq_true] at h
    rcases List.mem_cons.mp hf with rfl | hf'
    · exact hpre (wfFieldAt_sizeF h.1 hk).1
    · exact ih (pre ++ [f0]) (by simp) h.2 f hf' w hk

/-- a fill array is the last member -/
theorem fill_last (xs : List Field) : ∀ (pre ys : List Field), wfFieldsFrom S d pre (xs ++ ys) = true →
    (∃ f ∈ xs, ∃ e a p k, f.kind = .array e .fill a p k) → ys = [] ∧ firstIsSizeF d = true := by
  induction xs with
  | nil => intro _ _ _ h; obtain ⟨f, hf, _⟩ := h; cases hf
  | cons x xs ih =>
    intro pre ys h hf
    simp only [List.cons_append, wfFieldsFrom, Bool.and_eq_true] at h
    obtain ⟨f, hfm, hfk⟩ := hf
    rcases List.mem_cons.mp hfm with rfl | hfm'
    · obtain ⟨h1, h2⟩ := wfFieldAt_fill h.1 hfk
      simp only [List.isEmpty_iff, List.append_eq_nil_iff] at h1
      exact ⟨h1.2, h2⟩
    · exact ih (pre ++ [x]) ys h.2 ⟨f, hfm', hfk⟩

theorem encFrom_nil_ok {b : Bytes} (h : encFrom S T r d vs [] = .ok b) : b = [] := by
  simp only [encFrom, Except.ok.injEq] at h
  exact h.symm

theorem encFrom_cons_ok {f : Field} {rest : List Field} {b : Bytes} (h : encFrom S T r d vs (f :: rest) = .ok b) :
    ∃ p bf t, condOnObject r d.fields vs f = .ok p ∧ (if p then encField S T r d vs f else .ok []) = .ok bf ∧
      encFrom S T r d vs rest = .ok t ∧ b = bf ++ t := by
  unfold encFrom at h
  obtain ⟨p, hp, h⟩ := bind_eq_ok.mp h
  obtain ⟨bf, hbf, h⟩ := bind_eq_ok.mp h
  obtain ⟨t, ht, h⟩ := bind_eq_ok.mp h
  simp only [Except.ok.injEq] at h
  exact ⟨p, bf, t, hp, hbf, ht, h.symm⟩

theorem encFrom_append_ok (xs ys : List Field) {b : Bytes} (h : encFrom S T r d vs (xs ++ ys) = .ok b) :
    ∃ b1 b2, encFrom S T r d vs xs = .ok b1 ∧ encFrom S T r d vs ys = .ok b2 ∧ b = b1 ++ b2 := by
  induction xs generalizing b with
  | nil => exact ⟨[], b, rfl, h, rfl⟩
  | cons x xs ih =>
    obtain ⟨p, bf, t, hp, hbf, ht, rfl⟩ := encFrom_cons_ok h
    obtain ⟨b1, b2, h1, h2, rfl⟩ := ih ht
    refine ⟨bf ++ b1, b2, ?_, h2, by simp⟩
    unfold encFrom
    simp [hp, hbf, h1, bind, Except.bind]

theorem wfFieldsFrom_append (xs : List Field) : ∀ (pre ys : List Field),
    wfFieldsFrom S d pre (xs ++ ys) = true → wfFieldsFrom S d (pre ++ xs) ys = true := by
  induction xs with
  | nil => intro pre ys h; simpa using h
  | cons x xs ih =>
    intro pre ys h
    simp only [List.cons_append, wfFieldsFrom, Bool.and_eq_true] at h
    have := ih (pre ++ [x]) ys h.2
    simpa using this

theorem coveredFrom_append (xs : List Field) : ∀ (pre ys : List Field),
    coveredFrom S pre (xs ++ ys) = true → coveredFrom S (pre ++ xs) ys = true := by
  induction xs with
  | nil => intro pre ys h; simpa using h
  | cons x xs ih =>
    intro pre ys h
    simp only [List.cons_append, coveredFrom, Bool.and_eq_true] at h
    have := ih (pre ++ [x]) ys h.2
    simpa using this

theorem admUnionsFrom_split (xs : List Field) : ∀ (p0 : List Field) (f : Field) (ys : List Field),
    admUnionsFrom r d vs p0 (xs ++ f :: ys) = true → admUnion r d vs (p0 ++ xs) f ys = true := by
  induction xs with
  | nil =>
    intro p0 f ys h
    simp only [List.nil_append, admUnionsFrom, Bool.and_eq_true] at h
    simpa using h.1
  | cons x xs ih =>
    intro p0 f ys h
    simp only [List.cons_append, admUnionsFrom, Bool.and_eq_true] at h
    have := ih (p0 ++ [x]) f ys h.2
    simpa using this

theorem decFrom_append (d' : StructDef) (xs : List Field) : ∀ (ys : List Field) (idx : Nat) (st : DecState),
    decFrom S T r d' (xs ++ ys) idx st =
      (decFrom S T r d' xs idx st >>= fun st' => decFrom S T r d' ys (idx + xs.length) st') := by
  induction xs with
  | nil => intro ys idx st; simp [decFrom, bind, Except.bind]
  | cons x xs ih =>
    intro ys idx st
    simp only [List.cons_append, decFrom, List.length_cons]
    cases decFieldStep S T r d' st idx x with
    | error e => rfl
    | ok st1 =>
      simp only [bind, Except.bind]
      have := ih ys (idx + 1) st1
      simp only [bind, Except.bind] at this
      rw [this]
      have harith : idx + 1 + xs.length = idx + (xs.length + 1) := by omega
      rw [harith]

/-- the discriminant of a late union, from the coverage check of one of its members -/
theorem late_disc (hnd : allDistinct (d.fields.map (·.name)) = true) {pre rest : List Field} {m : Field}
    (hsplit : d.fields = pre ++ m :: rest) {c : Cond}
    (h : refOk rest c.field (discKindOk c) = true) :
    (∃ dnf ∈ d.fields, dnf.name = c.field) ∧
    ∀ dnf ∈ d.fields, dnf.name = c.field → dnf.cond = none ∧ discKindOk c dnf.kind = true := by
  unfold refOk at h
  cases hl : lookupField rest c.field with
  | none => simp [hl] at h
  | some d0 =>
    simp only [hl, Bool.and_eq_true, Option.isNone_iff_eq_none] at h
    obtain ⟨hm0, hn0⟩ := lookupField_some hl
    have hd0 : d0 ∈ d.fields := by rw [hsplit]; simp [hm0]
    refine ⟨⟨d0, hd0, hn0⟩, ?_⟩
    intro dnf hdnf hn
    have : dnf = d0 := eq_of_name_eq hnd hdnf hd0 (by rw [hn, hn0])
    subst this
    exact h

/-- the members queued behind the first member of a union are union members of the same width -/
theorem followers_umember (hnd : allDistinct (d.fields.map (·.name)) = true) (dn : String) (w : Nat)
    (ms : List Field) : ∀ (pre1 ys : List Field) (last : Field),
    d.fields = pre1 ++ ms ++ ys → pre1.getLast? = some last → UMember S d dn w last →
    (∀ x ∈ pre1, x.name = dn → x.cond ≠ none) →
    (∀ m ∈ ms, condOn dn m = true) → coveredFrom S pre1 (ms ++ ys) = true →
    ∀ m ∈ ms, UMember S d dn w m := by
  induction ms with
  | nil => intro _ _ _ _ _ _ _ _ _ m hm; cases hm
  | cons m ms ih =>
    intro pre1 ys last hsplit hlast hul hnod hall hcov
    simp only [List.cons_append, coveredFrom, Bool.and_eq_true] at hcov
    have hsplit' : d.fields = pre1 ++ m :: (ms ++ ys) := by rw [hsplit]; simp
    have hmd : m ∈ d.fields := by rw [hsplit']; simp
    have hcm := hall m (by simp)
    unfold condOn at hcm
    cases hc : m.cond with
    | none => simp [hc] at hcm
    | some c =>
      simp only [hc, beq_iff_eq] at hcm
      have hcc := hcov.1
      unfold condCovered at hcc
      simp only [hc] at hcc
      have hum : UMember S d dn w m := by
        by_cases hearly : (lookupField pre1 c.field).isSome = true
        · simp only [hearly, if_true] at hcc
          unfold refOk at hcc
          cases hl : lookupField pre1 c.field with
          | none => simp [hl] at hearly
          | some gk =>
            simp only [hl, Bool.and_eq_true, Option.isNone_iff_eq_none] at hcc
            obtain ⟨hgm, hgn⟩ := lookupField_some hl
            exact absurd hcc.1 (hnod gk hgm (by rw [hgn, hcm]))
        · simp only [hearly, Bool.false_eq_true, if_false, Bool.and_eq_true] at hcc
          obtain ⟨hdisc, hbranch⟩ := hcc
          have hlastc : condOn c.field last = true := by
            obtain ⟨cl, hcl, hclf, -⟩ := hul.cond
            unfold condOn
            simp [hcl, hclf, hcm]
          simp only [hlast, hlastc, if_true, Bool.and_eq_true, beq_iff_eq] at hbranch
          obtain ⟨tl, hkl, hwl⟩ := hul.kind
          have hrl : refWidth S last = some w := by unfold refWidth; simp [hkl, hwl]
          have hrm : refWidth S m = some w := by rw [← hbranch.2, hrl]
          have hkm : ∃ t, m.kind = .ref t none ∧ scalarWidth S t = some w := by
            unfold refWidth at hrm
            cases hk : m.kind with
            | ref t l =>
              cases l with
              | none => simp only [hk] at hrm; exact ⟨t, rfl, hrm⟩
              | some _ => simp [hk] at hrm
            | _ => simp [hk] at hrm
          obtain ⟨hd1, hd2⟩ := late_disc hnd hsplit' hdisc
          exact ⟨hmd, ⟨c, hc, hcm, by rw [← hcm]; exact hd2⟩, hkm⟩
      intro x hx
      rcases List.mem_cons.mp hx with rfl | hx'
      · exact hum
      · refine ih (pre1 ++ [m]) ys m (by rw [hsplit]; simp) (by simp) hum ?_
          (fun y hy => hall y (by simp [hy])) (by simpa using hcov.2) x hx'
        intro y hy hyn
        rcases List.mem_append.mp hy with hy | hy
        · exact hnod y hy hyn
        · simp only [List.mem_singleton] at hy
          subst hy
          rw [hc]
          exact fun h => by cases h

/-- `deserialize` over a segment of the members (not containing the size member) -/
theorem decFrom_of_enc (hr : RecOk S g r) (hnd : allDistinct (d.fields.map (·.name)) = true)
    (hadm : ∀ f ∈ d.fields, admCond r d vs f = true ∧ admMember g vs f = true)
    (hun : admUnionsFrom r d vs [] d.fields = true) (d' : StructDef) (n : Nat) :
    ∀ (fs pre post : List Field) (st : DecState) (pend : Pend) (b rest : Bytes) (idx : Nat),
    fs.length ≤ n →
    d.fields = pre ++ fs ++ post →
    (post = [] ∨ ∀ f ∈ fs, f.cond = none) →
    wfFieldsFrom S d pre (fs ++ post) = true →
    coveredFrom S pre (fs ++ post) = true →
    (∀ f ∈ fs, ∀ w, f.kind ≠ .sizeF w) →
    Prog S T r d vs pre st pend →
    (∀ dn w G, pend = some (dn, w, G) → ∀ x, pre.getLast? = some x → x ∈ G → ∀ f ∈ fs.head?, condOn dn f = false) →
    encFrom S T r d vs fs = .ok b →
    st.buf = b ++ rest →
    ((∃ f ∈ fs, ∃ e a p k, f.kind = .array e .fill a p k) → rest = []) →
    ∃ st' pend', decFrom S T r d' fs idx st = .ok st' ∧ st'.buf = rest ∧ Prog S T r d vs (pre ++ fs) st' pend' := by
  induction n with
  | zero =>
    intro fs pre post st pend b rest idx hlen _ _ _ _ _ hprog _ he hbuf _
    have : fs = [] := List.eq_nil_of_length_eq_zero (Nat.le_zero.mp hlen)
    subst this
    have := encFrom_nil_ok he
    subst this
    exact ⟨st, pend, rfl, by simpa using hbuf, by simpa using hprog⟩
  | succ n ih =>
    intro fs pre post st pend b rest idx hlen hsplit hcut hwf hcov hnsz hprog hnext he hbuf hrest
    cases fs with
    | nil =>
      have := encFrom_nil_ok he
      subst this
      exact ⟨st, pend, rfl, by simpa using hbuf, by simpa using hprog⟩
    | cons f fs' =>
      obtain ⟨p, bf, t, hp, hbf, ht, rfl⟩ := encFrom_cons_ok he
      have hwf0 := hwf
      have hcov0 := hcov
      simp only [List.cons_append, wfFieldsFrom, coveredFrom, Bool.and_eq_true] at hwf hcov
      have hsplit' : d.fields = pre ++ f :: (fs' ++ post) := by rw [hsplit]; simp
      have hfd : f ∈ d.fields := by rw [hsplit']; simp
      have hne := name_ne_of_split hnd hsplit'
      have hlen' : fs'.length ≤ n := by simp only [List.length_cons] at hlen; omega
      have hrest_f : (∃ e a p k, f.kind = .array e .fill a p k) → t ++ rest = [] := by
        intro hf
        obtain ⟨h1, -⟩ := wfFieldAt_fill hwf.1 hf
        simp only [List.isEmpty_iff, List.append_eq_nil_iff] at h1
        have h2 := hrest ⟨f, by simp, hf⟩
        have h3 : t = [] := by
          have := ht; rw [h1.1] at this; exact encFrom_nil_ok this
        simp [h2, h3]
      have hbuf' : st.buf = bf ++ (t ++ rest) := by rw [hbuf]; simp
      -- continuation after an ordinary step
      have hcont : ∀ (st1 : DecState) (pend1 : Pend), decFieldStep S T r d' st idx f = .ok st1 → st1.buf = t ++ rest →
          Prog S T r d vs (pre ++ [f]) st1 pend1 →
          (∀ dn w G, pend1 = some (dn, w, G) → f ∉ G) →
          ∃ st' pend', decFrom S T r d' (f :: fs') idx st = .ok st' ∧ st'.buf = rest ∧
            Prog S T r d vs (pre ++ f :: fs') st' pend' := by
        intro st1 pend1 hstep hb1 hprog1 hfG
        obtain ⟨st2, pend2, hfrom, hb2, hprog2⟩ := ih fs' (pre ++ [f]) post st1 pend1 t rest (idx + 1) hlen'
          (by rw [hsplit]; simp)
          (by rcases hcut with h | h
              · exact .inl h
              · exact .inr (fun x hx => h x (by simp [hx])))
          hwf.2 hcov.2 (fun x hx => hnsz x (by simp [hx])) hprog1
          (by intro dn w G hp x hx hxG
              rw [List.getLast?_concat] at hx
              simp only [Option.some.injEq] at hx
              subst hx
              exact absurd hxG (hfG dn w G hp))
          ht hb1 (fun ⟨x, hx, hk⟩ => hrest ⟨x, by simp [hx], hk⟩)
        refine ⟨st2, pend2, ?_, hb2, by simpa using hprog2⟩
        unfold decFrom
        simp only [hstep, bind, Except.bind]
        exact hfrom
      cases hc : f.cond with
      | none =>
        -- an unconditional member
        obtain ⟨v, hentry, hstep⟩ := decStep_std hr hnd hsplit' hwf.1 (fun c hc' => by rw [hc] at hc'; cases hc')
          (hnsz f (by simp)) hprog.envOk (hadm f hfd).1 (hadm f hfd).2 hp hbf hbuf' hprog.size hrest_f d' idx
        simp only [hc] at hstep
        by_cases hflush : ∃ w G, pend = some (f.name, w, G)
        · -- it is the discriminant of the parked union: the union is read back
          obtain ⟨w, G, hpend⟩ := hflush
          subst hpend
          obtain ⟨⟨temp, hq, htemp⟩, hu, hGpre, hpredn, hGd, hGne, hdnf, hdnone⟩ := hprog.qsome f.name w G rfl
          have hnone : Val.get st.env f.name = none := hprog.get_none (fun y hy _ => hne y hy)
          have hgetv : Val.get (st.env ++ [(f.name, v)]) f.name = some v := by
            rw [get_append_none hnone]; simp [Val.get]
          obtain ⟨ents, hfold, hrel⟩ := flush_fold hr hnd hadm hfd rfl hentry G (st.env ++ [(f.name, v)]) temp
            hu htemp hgetv
          have hstep' : decFieldStep S T r d' st idx f =
              .ok { st with buf := t ++ rest, env := st.env ++ [(f.name, v)] ++ ents, queued := [] } := by
            rw [hstep]
            unfold flushQueued
            simp [hq, hfold, bind, Except.bind]
          exact hcont _ none hstep' rfl (Prog.flush hnd hsplit' hprog rfl hc hentry hrel (t ++ rest))
            (fun _ _ _ h => by cases h)
        · have hnq : ({ st with buf := t ++ rest, env := st.env ++ [(f.name, v)] } : DecState).queued.find?
              (·.1 == f.name) = none := by
            cases hpe : pend with
            | none => simp [hprog.qnone hpe]
            | some q =>
              obtain ⟨dn, w, G⟩ := q
              obtain ⟨⟨temp, hq, -⟩, -⟩ := hprog.qsome dn w G hpe
              have : dn ≠ f.name := fun h => hflush ⟨w, G, by rw [hpe, h]⟩
              simp [hq, this]
          rw [flushQueued_none _ _ _ _ _ hnq] at hstep
          have hdn : ∀ dn w G, pend = some (dn, w, G) → f.name ≠ dn :=
            fun dn w G hpe h => hflush ⟨w, G, by rw [hpe, h]⟩
          exact hcont _ pend hstep rfl
            (Prog.std hnd hsplit' hprog hentry (t ++ rest) (fun c hc' => by rw [hc] at hc'; cases hc') hdn)
            (fun dn w G hpe hfG => hne f ((hprog.qsome dn w G hpe).2.2.1 f hfG) rfl)
      | some c =>
        have hcc := hcov.1
        unfold condCovered at hcc
        simp only [hc] at hcc
        by_cases hearly : (lookupField pre c.field).isSome = true
        · -- the discriminant has been read
          simp only [hearly, if_true] at hcc
          obtain ⟨v, hentry, hstep⟩ := decStep_std hr hnd hsplit' hwf.1
            (fun c' hc' => by rw [hc] at hc'; cases hc'; exact hcc)
            (hnsz f (by simp)) hprog.envOk (hadm f hfd).1 (hadm f hfd).2 hp hbf hbuf' hprog.size hrest_f d' idx
          simp only [hc] at hstep
          have hdn : ∀ dn w G, pend = some (dn, w, G) → f.name ≠ dn := by
            intro dn w G hpe hfn
            have := (hprog.qsome dn w G hpe).2.2.2.2.2.2.2 f hfd hfn
            rw [hc] at this
            cases this
          exact hcont _ pend hstep rfl
            (Prog.std hnd hsplit' hprog hentry (t ++ rest)
              (fun c' hc' => by rw [hc] at hc'; cases hc'; exact hearly) hdn)
            (fun dn w G hpe hfG => hne f ((hprog.qsome dn w G hpe).2.2.1 f hfG) rfl)
        · -- the discriminant comes later: `f` starts a union
          simp only [hearly, Bool.false_eq_true, if_false, Bool.and_eq_true] at hcc
          obtain ⟨hdisc, hbranch⟩ := hcc
          have hlnone : lookupField pre c.field = none := by
            cases hl : lookupField pre c.field with
            | none => rfl
            | some _ => simp [hl] at hearly
          -- the member before `f` is not a member of the same union
          have hlast : ∀ gl, pre.getLast? = some gl → condOn c.field gl = false := by
            intro gl hgl
            cases hcg : condOn c.field gl with
            | false => rfl
            | true =>
              exfalso
              have hglpre : gl ∈ pre := List.mem_of_getLast? hgl
              unfold condOn at hcg
              cases hcgl : gl.cond with
              | none => simp [hcgl] at hcg
              | some cg =>
                simp only [hcgl, beq_iff_eq] at hcg
                have hres : NotParked pend gl → False := by
                  intro hnp
                  have := hprog.resolved gl hglpre hnp cg hcgl
                  rw [hcg, hlnone] at this
                  cases this
                cases hpe : pend with
                | none => exact hres (by rw [hpe]; exact NotParked.none gl)
                | some q =>
                  obtain ⟨dn, w, G⟩ := q
                  by_cases hglG : gl ∈ G
                  · obtain ⟨-, hu, -⟩ := hprog.qsome dn w G hpe
                    obtain ⟨cg', hcg', hcgf, -⟩ := (hu gl hglG).cond
                    rw [hcgl] at hcg'
                    simp only [Option.some.injEq] at hcg'
                    subst hcg'
                    have := hnext dn w G hpe gl hgl hglG f (by simp)
                    unfold condOn at this
                    simp [hc, ← hcg, hcgf] at this
                  · exact hres (fun dn' w' G' hp' => by
                      rw [hpe] at hp'
                      simp only [Option.some.injEq, Prod.mk.injEq] at hp'
                      obtain ⟨-, -, rfl⟩ := hp'
                      exact hglG)
          have hbranch' : headTypeOk S f = true ∧ allResolved pre = true := by
            cases hgl : pre.getLast? with
            | none => simpa [hgl] using hbranch
            | some gl => simpa [hgl, hlast gl hgl] using hbranch
          -- nothing is parked
          have hpend : pend = none := by
            cases hpe : pend with
            | none => rfl
            | some q =>
              exfalso
              obtain ⟨dn, w, G⟩ := q
              obtain ⟨-, hu, hGpre, hpredn, -, hGne, -, -⟩ := hprog.qsome dn w G hpe
              have hall := hbranch'.2
              unfold allResolved at hall
              simp only [List.all_eq_true] at hall
              cases G with
              | nil => exact hGne rfl
              | cons m ms =>
                obtain ⟨cm, hcm, hcmf, -⟩ := (hu m (by simp)).cond
                have := hall m (hGpre m (by simp))
                simp only [hcm, hcmf] at this
                cases hl : lookupField pre dn with
                | none => simp [hl] at this
                | some x =>
                  obtain ⟨hxm, hxn⟩ := lookupField_some hl
                  exact hpredn x hxm hxn
          subst hpend
          clear hbranch
          have hbranch := hbranch'
          have hpost : post = [] := by
            rcases hcut with h | h
            · exact h
            · have := h f (by simp); rw [hc] at this; cases this
          subst hpost
          simp only [List.append_nil] at hsplit hsplit' hwf hcov hdisc
          -- the union and what follows it
          have hsplitG : fs' = fs'.takeWhile (condOn c.field) ++ fs'.dropWhile (condOn c.field) :=
            List.takeWhile_append_dropWhile.symm
          generalize hms : fs'.takeWhile (condOn c.field) = ms at hsplitG
          generalize hfs'' : fs'.dropWhile (condOn c.field) = fs'' at hsplitG
          have hmsall : ∀ m ∈ ms, condOn c.field m = true := by
            intro m hm; rw [← hms] at hm; exact mem_takeWhile_imp' hm
          obtain ⟨hd1, hd2⟩ := late_disc hnd hsplit' hdisc
          -- the width
          have hhead := hbranch.1
          obtain ⟨w, hkf⟩ : ∃ w, ∃ t, f.kind = .ref t none ∧ scalarWidth S t = some w := by
            unfold headTypeOk at hhead
            cases hk : f.kind with
            | ref t l =>
              cases l with
              | none =>
                simp only [hk] at hhead
                unfold scalarWidth
                cases hf : S.find t with
                | none => simp [hf] at hhead
                | some td => cases td <;> simp [hf] at hhead ⊢ <;> exact ⟨_, _, rfl, rfl⟩
              | some _ => simp [hk] at hhead
            | _ => simp [hk] at hhead
          have huf : UMember S d c.field w f := ⟨hfd, ⟨c, hc, rfl, hd2⟩, hkf⟩
          have hnod : ∀ x ∈ pre ++ [f], x.name = c.field → x.cond ≠ none := by
            intro x hx hxn
            rcases List.mem_append.mp hx with hx | hx
            · exact absurd hxn (lookupField_none hlnone x hx)
            · simp only [List.mem_singleton] at hx
              subst hx
              rw [hc]; exact fun h => by cases h
          have hums : ∀ m ∈ ms, UMember S d c.field w m :=
            followers_umember hnd c.field w ms (pre ++ [f]) fs'' f (by rw [hsplit, hsplitG]; simp) (by simp)
              huf hnod hmsall (by rw [← hsplitG]; simpa using hcov.2)
          have huG : ∀ m ∈ f :: ms, UMember S d c.field w m := by
            intro m hm
            rcases List.mem_cons.mp hm with rfl | hm
            · exact huf
            · exact hums m hm
          -- exactly one member is present
          have hone : (f :: ms).countP (isPresent r d vs) = 1 := by
            have := admUnionsFrom_split pre [] f fs' (by rw [← hsplit']; exact hun)
            simp only [List.nil_append] at this
            have huh : unionHead pre f = some c.field := by
              unfold unionHead
              simp only [hc, hearly, Bool.false_eq_true, if_false]
              cases hgl : pre.getLast? with
              | none => simp
              | some gl => simp [hlast gl hgl]
            unfold admUnion at this
            simp only [huh, hms, beq_iff_eq] at this
            exact this
          -- the encodings
          have hefs : encFrom S T r d vs (f :: fs') = .ok (bf ++ t) := he
          rw [hsplitG] at hefs
          obtain ⟨bG, b2, heG, he2, hbb⟩ := encFrom_append_ok (f :: ms) fs'' (by simpa using hefs)
          have hgetdn : Val.get st.env c.field = none :=
            hprog.get_none (fun y hy _ => lookupField_none hlnone y hy)
          have hgroup := decFrom_group hr huG (fun m hm => (hadm m (huG m hm).mem).2) hhead hone hmsall heG
            (st := st) (rest := b2 ++ rest) (by rw [hbuf, hbb]; simp) hgetdn (hprog.qnone rfl) hprog.size d' idx
          have hprogG : Prog S T r d vs (pre ++ (f :: ms)) { st with buf := b2 ++ rest, queued := [(c.field, bG, f :: ms)] }
              (some (c.field, w, f :: ms)) :=
            Prog.group hnd (post := fs'') (by rw [hsplit, hsplitG]; simp) hprog huG (by simp) heG
              (lookupField_none hlnone) hd1 (b2 ++ rest)
          have hlen'' : fs''.length ≤ n := by
            have : fs'.length = ms.length + fs''.length := by rw [hsplitG]; simp
            omega
          obtain ⟨st2, pend2, hfrom, hb2, hprog2⟩ := ih fs'' (pre ++ (f :: ms)) [] _ _ b2 rest (idx + (f :: ms).length)
            hlen'' (by rw [hsplit, hsplitG]; simp) (.inl rfl)
            (by have := wfFieldsFrom_append (f :: ms) pre fs'' (by rw [hsplitG] at hwf0; simpa using hwf0)
                simpa using this)
            (by have := coveredFrom_append (f :: ms) pre fs'' (by rw [hsplitG] at hcov0; simpa using hcov0)
                simpa using this)
            (fun x hx => hnsz x (by rw [hsplitG]; simp [hx])) hprogG
            (by intro dn' w' G' hp' x _ _ f2 hf2
                simp only [Option.some.injEq, Prod.mk.injEq] at hp'
                obtain ⟨rfl, -, -⟩ := hp'
                have := List.head?_dropWhile_not (condOn c.field) fs'
                rw [hfs''] at this
                rw [Option.mem_def] at hf2
                rw [hf2] at this
                exact this)
            he2 rfl (fun ⟨x, hx, hk⟩ => hrest ⟨x, by rw [hsplitG]; simp [hx], hk⟩)
          refine ⟨st2, pend2, ?_, hb2, ?_⟩
          · have : f :: fs' = (f :: ms) ++ fs'' := by rw [hsplitG]; simp
            rw [this, decFrom_append, hgroup]
            simp only [bind, Except.bind]
            exact hfrom
          · have : pre ++ f :: fs' = pre ++ (f :: ms) ++ fs'' := by rw [hsplitG]; simp
            rw [this]
            simpa using hprog2

/-- at the end of the member list nothing is parked -/
theorem Prog.final {st : DecState} {pend : Pend} (h : Prog S T r d vs d.fields st pend) : pend = none := by
  cases hpe : pend with
  | none => rfl
  | some q =>
    obtain ⟨dn, w, G⟩ := q
    obtain ⟨-, -, -, hne, -, -, ⟨dnf, hd, hn⟩, -⟩ := h.qsome dn w G hpe
    exact absurd hn (hne dnf hd)

theorem Prog.init (buf : Bytes) : Prog S T r d vs [] { buf := buf, origLen := buf.length } none :=
  ⟨(fun _ h => by cases h), (fun _ h => by cases h), (fun _ h => by cases h), (fun _ h => by cases h), (fun _ => rfl),
    (fun _ _ _ h => by cases h)⟩

/-- `deserialize` over a prefix `fs` of the members, from the start of the buffer -/
theorem decFields_of_enc (hr : RecOk S g r) (hnd : allDistinct (d.fields.map (·.name)) = true)
    (hwf : wfFieldsFrom S d [] d.fields = true) (hcov : coveredFrom S [] d.fields = true)
    (hadm : ∀ f ∈ d.fields, admCond r d vs f = true ∧ admMember g vs f = true)
    (hun : admUnionsFrom r d vs [] d.fields = true)
    {b : Bytes} (he : encFrom S T r d vs d.fields = .ok b)
    (fs post : List Field) (hsplit : d.fields = fs ++ post) (hcut : post = [] ∨ ∀ f ∈ fs, f.cond = none)
    (d' : StructDef) (tail : Bytes) :
    ∃ st' pend', decFields S T r d' fs (b ++ tail) = .ok st' ∧ Prog S T r d vs fs st' pend' := by
  have hsize := sizeFrom_of_enc hr.law d.fields b (fun f hf => (hadm f hf).2) he
  cases fs with
  | nil => exact ⟨_, none, rfl, Prog.init _⟩
  | cons f0 fs1 =>
    have hsplit0 : d.fields = [] ++ (f0 :: fs1) ++ post := by simpa using hsplit
    obtain ⟨b1, b2, he1, he2, hb⟩ := encFrom_append_ok (f0 :: fs1) post (by rw [← hsplit]; exact he)
    have hst0 : StSz { buf := b ++ tail, origLen := (b ++ tail).length } := fun sz h => by cases h
    have hprog0 : Prog S T r d vs [] { buf := b ++ tail, origLen := (b ++ tail).length } none := Prog.init _
    by_cases hk : ∃ w, f0.kind = .sizeF w
    · obtain ⟨w, hk⟩ := hk
      -- the struct's size member: the window becomes exactly the rest of the encoding
      obtain ⟨p, bf, t, hp, hbf, ht, hb1⟩ := encFrom_cons_ok he1
      have hwf' := hwf
      rw [hsplit] at hwf'
      simp only [List.cons_append, wfFieldsFrom, Bool.and_eq_true] at hwf'
      have hcov' := hcov
      rw [hsplit] at hcov'
      simp only [List.cons_append, coveredFrom, Bool.and_eq_true] at hcov'
      have hcond := (wfFieldAt_sizeF hwf'.1 hk).2
      have hp' := condOnObject_of_none r d.fields vs f0 hcond
      rw [hp'] at hp
      simp only [Except.ok.injEq] at hp
      subst hp
      simp only [if_true] at hbf
      have hsplit' : d.fields = [] ++ f0 :: (fs1 ++ post) := by simpa using hsplit
      have hm0 := (hadm f0 (by rw [hsplit]; simp)).2
      obtain ⟨v, hdec, hfull⟩ := decPayload_of_enc hr hnd hsplit' hwf'.1 (env := []) (fun _ h => by cases h) hm0 hbf
        (t ++ b2 ++ tail) (by intro ⟨e, a, p, k, h⟩; rw [hk] at h; cases h)
      -- the value read is the length of the whole encoding
      have hv : v = .int (b.length : Int) := by
        unfold FullVal at hfull
        simp only [hk, FK.carries, Bool.false_eq_true, if_false, derivedValue] at hfull
        obtain ⟨i, hi, rfl⟩ := hfull
        unfold structSize at hi
        rw [hsize] at hi
        simp only [bind, Except.bind, Except.ok.injEq] at hi
        rw [hi]
      subst hv
      have hbdecomp : b ++ tail = bf ++ (t ++ b2 ++ tail) := by rw [hb, hb1]; simp
      let st1 : DecState := DecState.mk (t ++ b2) [(f0.name, .int (b.length : Int))] [] (b ++ tail).length (some b.length)
      have hstep : decFieldStep S T r d' { buf := b ++ tail, origLen := (b ++ tail).length } 0 f0 = .ok st1 := by
        unfold decFieldStep
        simp only [rebase_of_ok d' _ 0 hst0, hcond]
        unfold decPlainField
        simp only []
        rw [hbdecomp, hdec]
        simp only [bind, Except.bind]
        unfold afterPlain
        simp only [hk, Int.toNat_natCast]
        rw [flushQueued_none _ _ _ _ _ rfl]
        have : (bf ++ (t ++ b2 ++ tail)).take b.length = bf ++ (t ++ b2) := by
          have hl : b.length = (bf ++ (t ++ b2)).length := by rw [hb, hb1]; simp
          have he : bf ++ (t ++ b2 ++ tail) = (bf ++ (t ++ b2)) ++ tail := by simp
          rw [hl, he]
          exact take_append_length _ _
        simp only [this, st1, List.drop_left, List.nil_append, hbdecomp]
      have hsz1 : StSz st1 := fun sz h => by
        have h' : some b.length = some sz := h
        cases h'
        show b.length ≤ (b ++ tail).length
        simp
      have hprog1 : Prog S T r d vs ([] ++ [f0]) st1 none := by
        have h1 := Prog.std hnd hsplit' hprog0 (EntryOk.of_full hp' hfull) (t ++ b2)
          (fun c hc => by rw [hcond] at hc; cases hc) (fun _ _ _ h => by cases h)
        exact ⟨h1.names, h1.got, h1.resolved, hsz1, h1.qnone, h1.qsome⟩
      have hpost : (∃ f ∈ fs1, ∃ e a p k, f.kind = .array e .fill a p k) → b2 = [] := by
        intro hf
        have hwf2 : wfFieldsFrom S d [f0] (fs1 ++ post) = true := by simpa using hwf'.2
        obtain ⟨hpost, -⟩ := fill_last fs1 [f0] post hwf2 hf
        rw [hpost] at he2
        exact encFrom_nil_ok he2
      obtain ⟨st2, pend2, hfrom, -, hprog2⟩ := decFrom_of_enc hr hnd hadm hun d' fs1.length fs1 [f0] post st1 none t b2 1
        (Nat.le_refl _) (by simpa using hsplit)
        (by rcases hcut with h | h
            · exact .inl h
            · exact .inr (fun x hx => h x (by simp [hx])))
        (by simpa using hwf'.2) (by simpa using hcov'.2)
        (fun f hf => not_sizeF_of_wf (fs1 ++ post) [f0] (by simp) (by simpa using hwf'.2) f (List.mem_append_left _ hf))
        (by simpa using hprog1) (fun _ _ _ h => by cases h) ht rfl hpost
      refine ⟨st2, pend2, ?_, by simpa using hprog2⟩
      unfold decFields decFrom
      simp only [hstep, bind, Except.bind]
      exact hfrom
    · -- no size member: the segment is read as a prefix of the buffer
      have hnsz : ∀ f ∈ f0 :: fs1, ∀ w, f.kind ≠ .sizeF w := by
        intro f hf w hkf
        rcases List.mem_cons.mp hf with rfl | hf'
        · exact hk ⟨w, hkf⟩
        · have hwf' := hwf
          rw [hsplit] at hwf'
          simp only [List.cons_append, wfFieldsFrom, Bool.and_eq_true] at hwf'
          exact not_sizeF_of_wf (fs1 ++ post) [f0] (by simp) (by simpa using hwf'.2) f (by simp [hf']) w hkf
      have hfill : (∃ f ∈ f0 :: fs1, ∃ e a p k, f.kind = .array e .fill a p k) → b2 ++ tail = [] := by
        intro hf
        have hwf' := hwf
        rw [hsplit] at hwf'
        obtain ⟨-, hfirst⟩ := fill_last (f0 :: fs1) [] post hwf' hf
        unfold firstIsSizeF at hfirst
        rw [hsplit] at hfirst
        simp only [List.cons_append] at hfirst
        cases hk0 : f0.kind <;> simp [hk0] at hfirst
        exact absurd ⟨_, hk0⟩ hk
      obtain ⟨st2, pend2, hfrom, -, hprog2⟩ := decFrom_of_enc hr hnd hadm hun d' (f0 :: fs1).length (f0 :: fs1) [] post
        { buf := b ++ tail, origLen := (b ++ tail).length } none b1 (b2 ++ tail) 0
        (Nat.le_refl _) hsplit0 hcut (by rw [← hsplit]; exact hwf) (by rw [← hsplit]; exact hcov) hnsz
        hprog0 (fun _ _ _ h => by cases h) he1 (by simp [hb]) hfill
      exact ⟨st2, pend2, hfrom, by simpa using hprog2⟩

/-! ### the object read back -/

theorem allDistinct_filter_names (p : Field → Bool) (fs : List Field) (h : allDistinct (fs.map (·.name)) = true) :
    allDistinct ((fs.filter p).map (·.name)) = true := by
  induction fs with
  | nil => rfl
  | cons f fs ih =>
    rw [List.map_cons] at h
    obtain ⟨h1, h2⟩ := allDistinct_cons h
    rw [List.filter_cons]
    split
    · rw [List.map_cons]
      simp only [allDistinct, Bool.and_eq_true, Bool.not_eq_true', List.contains_eq_mem, decide_eq_false_iff_not]
      refine ⟨fun hm => h1 ?_, ih h2⟩
      obtain ⟨x, hx, hxn⟩ := List.mem_map.mp hm
      exact List.mem_map.mpr ⟨x, (List.mem_filter.mp hx).1, hxn⟩
    · exact ih h2

theorem mapM_lookup (env : List (String × Val)) (fs : List Field) : ∀ (vs : List (String × Val)),
    vs.map (·.1) = fs.map (·.name) → allDistinct (fs.map (·.name)) = true →
    (∀ f ∈ fs, ∃ v, Val.get env f.name = some v ∧ Val.get vs f.name = some v) →
    fs.mapM (fun f => match Val.get env f.name with
      | some v => (.ok (f.name, v) : R (String × Val))
      | none => .error .missing) = .ok vs := by
  induction fs with
  | nil =>
    intro vs hn _ _
    cases vs with
    | nil => rfl
    | cons a as => simp at hn
  | cons f fs ih =>
    intro vs hn hd hget
    cases vs with
    | nil => simp at hn
    | cons a as =>
      obtain ⟨n, v⟩ := a
      simp only [List.map_cons, List.cons.injEq] at hn
      obtain ⟨hn1, hn2⟩ := hn
      subst hn1
      rw [List.map_cons] at hd
      obtain ⟨hd1, hd2⟩ := allDistinct_cons hd
      obtain ⟨v', hv1, hv2⟩ := hget f (by simp)
      have : v' = v := by
        simp only [Val.get, List.find?_cons, beq_self_eq_true, Option.map_some, Option.some.injEq] at hv2
        exact hv2.symm
      subst this
      have hrest := ih as hn2 hd2 (fun f' hf' => by
        obtain ⟨w, hw1, hw2⟩ := hget f' (by simp [hf'])
        refine ⟨w, hw1, ?_⟩
        have hne : (f.name == f'.name) = false := by
          have : f.name ≠ f'.name := fun h => hd1 (h ▸ List.mem_map_of_mem (f := (·.name)) hf')
          simp [this]
        simpa only [Val.get, List.find?_cons, hne] using hw2)
      rw [List.mapM_cons]
      simp only [hv1, hrest, bind, Except.bind, pure, Except.pure]

theorem objectOf_of_env (hnd : allDistinct (d.fields.map (·.name)) = true) (hshape : shapeOk d vs = true)
    {st : DecState} {pend : Pend} (hprog : Prog S T r d vs d.fields st pend) : objectOf d st.env = .ok vs := by
  have hpn := hprog.final
  subst hpn
  unfold objectOf
  unfold shapeOk at hshape
  apply mapM_lookup st.env _ vs (by simpa using hshape) (allDistinct_filter_names _ _ hnd)
  intro f hf
  obtain ⟨hf1, hf2⟩ := List.mem_filter.mp hf
  obtain ⟨v, hv, hp⟩ := hprog.got f hf1 (NotParked.none f)
  unfold EntryOk at hp
  simp only [hf2, if_true] at hp
  exact ⟨v, hv, hp⟩

end
end SymbolVerif.Codec

/-
Decode-encode direction, part 11: count members and constant members of a decoded object.
-/
import SymbolVerif.Proofs.Codec.DedDerived
namespace SymbolVerif.Codec
open SymbolVerif.Bytes

section
variable {S : Schema} {T : String → Bytes → Bytes} {g fa : String → Val → Bool} {r : Rec}
variable {name : String} {d : StructDef} {E vs : List (String × Val)}

/-- the length of what a count member describes, when that member was read with count `n` -/
theorem DedStruct.counted (h : DedStruct S T g fa r name d E vs) {tf : Field} (htf : tf ∈ d.fields) {cn : String}
    (hkind : (match tf.kind with
      | .array _ (.count cf) _ _ _ => cf == cn
      | .barray sf => sf == cn
      | _ => false) = true)
    {n : Int} (hn : envInt E cn = .ok n) {v : Val} (hv : Val.get E tf.name = some v) (hps : PaySpec S T r E tf v) :
    (∃ l, Val.get vs tf.name = some (.arr l) ∧ l.length = n.toNat) ∨
    (∃ b, Val.get vs tf.name = some (.bytes b) ∧ b.length = n.toNat) := by
  unfold PaySpec at hps
  cases hk : tf.kind with
  | array elem mode al pl key =>
    cases mode with
    | count cf =>
      simp only [hk, beq_iff_eq] at hkind hps
      subst hkind
      obtain ⟨l, hvl, -, -, hc, -⟩ := hps
      obtain ⟨n', hn', hlen, -⟩ := hc cf rfl
      rw [hn] at hn'
      simp only [Except.ok.injEq] at hn'
      subst hn'
      left
      exact ⟨l, by rw [h.carried htf (by simp [hk, FK.carries]), hv, hvl], hlen⟩
    | _ => simp [hk] at hkind
  | barray sf =>
    simp only [hk, beq_iff_eq] at hkind hps
    subst hkind
    obtain ⟨n', b, hn', hvb, hlen⟩ := hps
    rw [hn] at hn'
    simp only [Except.ok.injEq] at hn'
    subst hn'
    right
    exact ⟨b, by rw [h.carried htf (by simp [hk, FK.carries]), hv, hvb], hlen⟩
  | _ => simp [hk] at hkind

/-- a count member is written again as the count that was read -/
theorem DedStruct.count_ok (h : DedStruct S T g fa r name d E vs) {f : Field} (hf : f ∈ d.fields)
    {w : Nat} {s : Bool} {t : String} {ab : Option Int} (hk : f.kind = .count w s t ab) {v : Val}
    (hv : Val.get E f.name = some v) (hps : PaySpec S T r E f v) :
    ∃ i, derivedValue r d vs f.kind = .ok i ∧ inRange w s i = true := by
  obtain ⟨hw, hwk, -⟩ := h.wfdAt hf
  have hw0 : 0 < w := by simpa [hk, widthOk] using hw
  unfold PaySpec at hps
  simp only [hk] at hps
  obtain ⟨view, hview⟩ := hps
  subst hview
  have hn := envInt_of_get hv
  have hrange := decInt_inRange hw0 s view
  unfold wfdKind at hwk
  simp only [hk] at hwk
  cases hl : lookupField d.fields t with
  | none => simp [hl] at hwk
  | some tf =>
    simp only [hl, Bool.and_eq_true] at hwk
    obtain ⟨hkind, hcond⟩ := hwk
    obtain ⟨htf, htn⟩ := lookupField_some hl
    obtain ⟨vt, hvt, hst⟩ := h.spec tf htf
    have hcarT : tf.kind.carries = true := by
      cases hkt : tf.kind <;> simp [hkt, FK.carries] at hkind ⊢
    have fin : ∀ (hps : PaySpec S T r E tf vt), ∃ i, derivedValue r d vs (.count w s t ab) = .ok i ∧ inRange w s i = true := by
      intro hps
      rcases h.counted htf hkind hn hvt hps with ⟨l, hvl, hlen⟩ | ⟨b, hvb, hlen⟩
      · rw [htn] at hvl
        exact ⟨l.length, by simp [derivedValue, hvl], by rw [hlen]; exact inRange_toNat hw0 hrange⟩
      · rw [htn] at hvb
        exact ⟨b.length, by simp [derivedValue, hvb], by rw [hlen]; exact inRange_toNat hw0 hrange⟩
    rw [hk]
    cases hct : tf.cond with
    | none =>
      simp only [hct] at hst
      exact fin hst
    | some c =>
      simp only [hct] at hst hcond
      cases ab with
      | none => simp at hcond
      | some av =>
        simp only [Bool.and_eq_true, beq_iff_eq] at hcond
        obtain ⟨⟨hcf, hop⟩, hval⟩ := hcond
        obtain ⟨a, pd, ha, hpd, hbody⟩ := hst
        rw [hcf, hn] at ha
        simp only [Except.ok.injEq] at ha
        subst ha
        cases pd with
        | true => exact fin (by simpa using hbody)
        | false =>
          simp only [Bool.false_eq_true, if_false] at hbody
          subst hbody
          have hvn : Val.get vs t = some .none := by
            rw [← htn, h.carried htf hcarT, hvt]
          unfold condHolds at hpd
          simp only [hop, Except.ok.injEq, bne_eq_false_iff_eq] at hpd
          refine ⟨av, by simp [derivedValue, hvn], ?_⟩
          rw [← hval, hpd]
          exact hrange

/-- a constant member was checked by `deserialize`, so it can be written -/
theorem DedStruct.reserved_ok (h : DedStruct S T g fa r name d E vs) {f : Field} (hf : f ∈ d.fields)
    {w : Nat} {s : Bool} {value : Int} (hk : f.kind = .reserved w s value) {v : Val}
    (hps : PaySpec S T r E f v) : inRange w s value = true := by
  obtain ⟨hw, -, -⟩ := h.wfdAt hf
  have hw0 : 0 < w := by simpa [hk, widthOk] using hw
  unfold PaySpec at hps
  simp only [hk] at hps
  obtain ⟨-, view, hview⟩ := hps
  rw [← hview]
  exact decInt_inRange hw0 s view

end
end SymbolVerif.Codec

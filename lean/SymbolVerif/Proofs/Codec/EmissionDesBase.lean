/-
Emitted `deserialize`, semantics part 4: what the run over the members of a base class leaves behind -- the window
`(size_ - len(buffer), size_)` that `_deserialize` returns is the interpreter's buffer after `rebase`.
-/
import SymbolVerif.Proofs.Codec.EmissionDesRun
import SymbolVerif.Proofs.Codec.StructObject
import SymbolVerif.Proofs.Codec.DedFactory
import SymbolVerif.Proofs.Codec.DedMono
namespace SymbolVerif.Codec
open SymbolVerif.Bytes

/-- `payload[e - len(rest):e]` for a `rest` that is the end of `payload[:e]` -/
theorem window_slice (b : Bytes) (e : Nat) (rest : Bytes) (h : rest <:+ b.take e) :
    pySlice b ((e : Int) - (rest.length : Int)) (e : Int) = rest.drop (e - b.length) := by
  have hlen := h.length_le
  rw [List.length_take] at hlen
  have heq := List.suffix_iff_eq_drop.mp h
  rw [List.length_take] at heq
  have hlo : (0 : Int) ≤ (e : Int) - (rest.length : Int) := by omega
  have hlo' : ((e : Int) - (rest.length : Int)).toNat = e - rest.length := by omega
  unfold pySlice pyIndex
  simp only [hlo, Int.natCast_nonneg, if_true, Int.toNat_natCast, hlo']
  have htake : b.take (min e b.length) = b.take e := by
    by_cases hle : e ≤ b.length
    · rw [Nat.min_eq_left hle]
    · rw [Nat.min_eq_right (by omega), List.take_of_length_le (Nat.le_refl _), List.take_of_length_le (by omega)]
  rw [htake]
  conv => rhs; rw [heq, List.drop_drop]
  by_cases hle : e ≤ b.length
  · have h1 : min e b.length = e := Nat.min_eq_left hle
    have h2 : min (e - rest.length) b.length = e - rest.length := Nat.min_eq_left (by omega)
    have h3 : e - b.length = 0 := by omega
    rw [h1, h2, h3, Nat.add_zero]
  · have h1 : min e b.length = b.length := Nat.min_eq_right (by omega)
    rw [h1]
    by_cases hle2 : e - rest.length ≤ b.length
    · have h2 : min (e - rest.length) b.length = e - rest.length := Nat.min_eq_left hle2
      rw [h2]
      congr 1
      omega
    · have h2 : min (e - rest.length) b.length = b.length := Nat.min_eq_right (by omega)
      rw [h2, List.drop_eq_nil_of_le (by rw [List.length_take]; omega),
        List.drop_eq_nil_of_le (by rw [List.length_take]; omega)]

section
variable {S : Schema} {T : String → Bytes → Bytes} {r : Rec}

/-- members after the first are not the struct's size member -/
theorem no_sizeF_later {d : StructDef} (fs : List Field) : ∀ (pre : List Field), pre ≠ [] →
    wfFieldsFrom S d pre fs = true → ∀ f ∈ fs, ∀ w, f.kind ≠ .sizeF w := by
  induction fs with
  | nil => intro _ _ _ f hf; cases hf
  | cons x xs ih =>
    intro pre hpre hwf f hf w hk
    simp only [wfFieldsFrom, Bool.and_eq_true] at hwf
    rcases List.mem_cons.mp hf with rfl | hf
    · have := hwf.1
      unfold wfFieldAt at this
      simp only [hk, Bool.and_eq_true, List.isEmpty_iff] at this
      exact hpre this.1
    · exact ih (pre ++ [x]) (by simp) hwf.2 f hf w hk

/-- unconditional members other than the size member only consume from the front of the buffer -/
theorem decFrom_suffix (d' : StructDef) (hreb : ∀ st i, rebase d' st i = st) (fs : List Field) :
    ∀ (idx : Nat) (st st' : DecState), (∀ f ∈ fs, f.cond = none) → (∀ f ∈ fs, ∀ w, f.kind ≠ .sizeF w) →
    st.queued = [] → decFrom S T r d' fs idx st = .ok st' →
    st'.buf <:+ st.buf ∧ st'.sizeVal = st.sizeVal ∧ st'.origLen = st.origLen ∧ st'.queued = [] := by
  induction fs with
  | nil =>
    intro idx st st' _ _ hq h
    simp only [decFrom, Except.ok.injEq] at h
    subst h
    exact ⟨List.suffix_refl _, rfl, rfl, hq⟩
  | cons f fs ih =>
    intro idx st st' hc hns hq h
    unfold decFrom at h
    obtain ⟨st1, h1, h⟩ := bind_eq_ok.mp h
    unfold decFieldStep at h1
    simp only [hreb, hc f (by simp)] at h1
    unfold decPlainField at h1
    obtain ⟨⟨v, adv⟩, -, h1⟩ := bind_eq_ok.mp h1
    simp only at h1
    rw [flushQueued_none _ _ _ _ _ (by rw [afterPlain_queued, hq]; rfl)] at h1
    simp only [Except.ok.injEq] at h1
    rw [afterPlain_plain _ _ _ _ (hns f (by simp))] at h1
    have hb : st1.buf = st.buf.drop adv := by rw [← h1]
    have hsv : st1.sizeVal = st.sizeVal := by rw [← h1]
    have hol : st1.origLen = st.origLen := by rw [← h1]
    have hq1 : st1.queued = [] := by rw [← h1]; exact hq
    obtain ⟨h2, h3, h4, h5⟩ := ih (idx + 1) st1 st' (fun g hg => hc g (List.mem_cons_of_mem _ hg))
      (fun g hg => hns g (List.mem_cons_of_mem _ hg)) hq1 h
    rw [hb] at h2
    exact ⟨h2.trans (List.drop_suffix _ _), by rw [h3, hsv], by rw [h4, hol], h5⟩

/-- the run over the members of a base class (unconditional, the size member first if there is one): the rest of
    the buffer is the end of the window the size member opens, or of the whole buffer -/
theorem base_run_window {d' : StructDef} (hreb : ∀ st i, rebase d' st i = st) {fs : List Field}
    (hwf : wfFieldsFrom S d' [] fs = true) (hc : ∀ f ∈ fs, f.cond = none) {payload : Bytes} {st : DecState}
    (h : decFrom S T r d' fs 0 { buf := payload, origLen := payload.length } = .ok st) :
    st.origLen = payload.length ∧ st.queued = [] ∧
    ((∃ f0 w rest, fs = f0 :: rest ∧ f0.kind = .sizeF w ∧
        st.sizeVal = some (decInt w false payload).toNat ∧ st.buf <:+ payload.take (decInt w false payload).toNat ∧
        Val.get st.env f0.name = some (.int (decInt w false payload))) ∨
     ((∀ f ∈ fs, ∀ w, f.kind ≠ .sizeF w) ∧ st.sizeVal = none ∧ st.buf <:+ payload)) := by
  cases fs with
  | nil =>
    simp only [decFrom, Except.ok.injEq] at h
    subst h
    exact ⟨rfl, rfl, Or.inr ⟨(fun _ hf => by cases hf), rfl, List.suffix_refl _⟩⟩
  | cons f0 rest =>
    by_cases hk : ∃ w, f0.kind = .sizeF w
    · obtain ⟨w, hk⟩ := hk
      unfold decFrom at h
      obtain ⟨st1, h1, h⟩ := bind_eq_ok.mp h
      unfold decFieldStep at h1
      simp only [hreb, hc f0 (by simp)] at h1
      unfold decPlainField at h1
      obtain ⟨⟨v, adv⟩, hpay, h1⟩ := bind_eq_ok.mp h1
      simp only at h1
      rw [flushQueued_none _ _ _ _ _ (by rw [afterPlain_queued]; rfl)] at h1
      simp only [Except.ok.injEq] at h1
      unfold decPayload at hpay
      simp only [hk, Except.ok.injEq, Prod.mk.injEq] at hpay
      obtain ⟨rfl, rfl⟩ := hpay
      simp only [wfFieldsFrom, Bool.and_eq_true] at hwf
      have hns := no_sizeF_later rest ([] ++ [f0]) (by simp) hwf.2
      have hq1 : st1.queued = [] := by rw [← h1, afterPlain_queued]
      obtain ⟨h2, h3, h4, h5⟩ := decFrom_suffix d' hreb rest 1 st1 st (fun g hg => hc g (List.mem_cons_of_mem _ hg)) hns hq1 h
      have hst1 : st1.buf = (payload.take (decInt w false payload).toNat).drop w ∧
          st1.sizeVal = some (decInt w false payload).toNat ∧ st1.origLen = payload.length := by
        rw [← h1]; unfold afterPlain; simp [hk]
      refine ⟨by rw [h4, hst1.2.2], h5, Or.inl ⟨f0, w, rest, rfl, hk, by rw [h3, hst1.2.1], ?_, ?_⟩⟩
      · rw [hst1.1] at h2
        exact h2.trans (List.drop_suffix _ _)
      · obtain ⟨ext, hext⟩ := decFrom_env d' rest 1 st1 st h
        have he1 : st1.env = [(f0.name, .int (decInt w false payload))] := by rw [← h1, afterPlain_env]; rfl
        rw [hext, he1]
        apply get_append_some
        simp [Val.get]
    · have hns : ∀ f ∈ f0 :: rest, ∀ w, f.kind ≠ .sizeF w := by
        intro f hf w hkf
        rcases List.mem_cons.mp hf with rfl | hf
        · exact hk ⟨w, hkf⟩
        · simp only [wfFieldsFrom, Bool.and_eq_true] at hwf
          exact no_sizeF_later rest ([] ++ [f0]) (by simp) hwf.2 f hf w hkf
      obtain ⟨h2, h3, h4, h5⟩ := decFrom_suffix d' hreb (f0 :: rest) 0 _ st hc hns rfl h
      exact ⟨h4, h5, Or.inr ⟨hns, h3, h2⟩⟩

/-- conditions on own members only: the members of the base class do not matter for `earlyFrom` -/
theorem earlyFrom_hid (hid : List Field) (fs : List Field) : ∀ (pre : List Field),
    (∀ f ∈ fs, ∀ n ∈ refsOf f, ∀ x ∈ hid, x.name ≠ n) →
    earlyFrom (hid ++ pre) fs = true → earlyFrom pre fs = true := by
  induction fs with
  | nil => intro _ _ _; rfl
  | cons f fs ih =>
    intro pre hvis h
    simp only [earlyFrom, Bool.and_eq_true] at h ⊢
    refine ⟨?_, ih (pre ++ [f]) (fun g hg => hvis g (List.mem_cons_of_mem _ hg)) (by simpa using h.2)⟩
    cases hc : f.cond with
    | none => rfl
    | some c =>
      have := h.1
      simp only [hc] at this ⊢
      rwa [lookupField_hid (hvis f (by simp) c.field (by simp [refsOf, hc]))] at this

theorem earlyFrom_uncond (fs : List Field) : ∀ (pre : List Field), (∀ f ∈ fs, f.cond = none) → earlyFrom pre fs = true := by
  induction fs with
  | nil => intro _ _; rfl
  | cons f fs ih =>
    intro pre h
    simp only [earlyFrom, Bool.and_eq_true, h f (by simp)]
    exact ⟨trivial, ih _ (fun g hg => h g (List.mem_cons_of_mem _ hg))⟩

end
end SymbolVerif.Codec

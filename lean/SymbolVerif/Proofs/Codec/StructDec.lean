/-
Struct-level round trip, part 3: the decode side, one member at a time.
`deserialize` keeps a local for every member it has read (`env`); `EntryOk` says what that local
holds in terms of the object that was serialized. `decPayload_of_enc` is the per-member lemma.
-/
import SymbolVerif.Proofs.Codec.StructEnc
namespace SymbolVerif.Codec
open SymbolVerif.Bytes

/-- the local that `deserialize` holds for a member that is present -/
def FullVal (r : Rec) (d : StructDef) (vs : List (String × Val)) (f : Field) (v : Val) : Prop :=
  if f.kind.carries then Val.get vs f.name = some v
  else ∃ i, derivedValue r d vs f.kind = .ok i ∧ v = .int i

/-- the local that `deserialize` holds for a member -/
def EntryOk (r : Rec) (d : StructDef) (vs : List (String × Val)) (f : Field) (v : Val) : Prop :=
  if f.kind.carries then Val.get vs f.name = some v
  else (condOnObject r d.fields vs f = .ok true ∧ ∃ i, derivedValue r d vs f.kind = .ok i ∧ v = .int i)
    ∨ (condOnObject r d.fields vs f = .ok false ∧ v = .none)

theorem EntryOk.of_full {r : Rec} {d : StructDef} {vs : List (String × Val)} {f : Field} {v : Val}
    (hp : condOnObject r d.fields vs f = .ok true) (h : FullVal r d vs f v) : EntryOk r d vs f v := by
  unfold EntryOk
  unfold FullVal at h
  by_cases hc : f.kind.carries = true
  · simpa [hc] using h
  · simp only [hc, Bool.false_eq_true, if_false] at h ⊢
    exact .inl ⟨hp, h⟩

theorem condOnObject_of_none (r : Rec) (fs : List Field) (vs : List (String × Val)) (f : Field) (h : f.cond = none) :
    condOnObject r fs vs f = .ok true := by
  unfold condOnObject; simp [h]

/-- the locals read so far: every unconditional member before the current one (`pre`) has its local -/
def EnvOk (r : Rec) (d : StructDef) (vs : List (String × Val)) (pre : List Field)
    (env : List (String × Val)) : Prop :=
  ∀ g ∈ pre, g.cond = none → ∃ v, Val.get env g.name = some v ∧ EntryOk r d vs g v

theorem envInt_of_get {env : List (String × Val)} {n : String} {i : Int} (h : Val.get env n = some (.int i)) :
    envInt env n = .ok i := by
  unfold envInt; simp [h]

section
variable {S : Schema} {T : String → Bytes → Bytes} {r : Rec} {g : String → Val → Bool}
variable {d : StructDef} {vs : List (String × Val)}

/-- an unconditional derived member holds its derived value -/
theorem entry_derived {gk : Field} {v : Val} (hc : gk.kind.carries = false) (hn : gk.cond = none)
    (h : EntryOk r d vs gk v) : ∃ i, derivedValue r d vs gk.kind = .ok i ∧ v = .int i := by
  unfold EntryOk at h
  simp only [hc, Bool.false_eq_true, if_false] at h
  rcases h with ⟨-, h⟩ | ⟨h, -⟩
  · exact h
  · rw [condOnObject_of_none r d.fields vs gk hn] at h
    cases h

/-- an earlier unconditional member referenced by name, and its local -/
theorem env_ref {pre : List Field} {env : List (String × Val)} {n : String} {p : FK → Bool}
    (henv : EnvOk r d vs pre env) (h : refOk pre n p = true) :
    ∃ gk v, lookupField pre n = some gk ∧ gk.cond = none ∧ p gk.kind = true ∧
      Val.get env n = some v ∧ EntryOk r d vs gk v := by
  unfold refOk at h
  cases hl : lookupField pre n with
  | none => simp [hl] at h
  | some gk =>
    simp only [hl, Bool.and_eq_true, Option.isNone_iff_eq_none] at h
    obtain ⟨hm, hname⟩ := lookupField_some hl
    obtain ⟨v, hv, hp⟩ := henv gk hm h.1
    rw [hname] at hv
    exact ⟨gk, v, rfl, h.1, h.2, hv, hp⟩

theorem isCount_of {k : FK} {n : String}
    (h : (match k with | .count _ _ t _ => t == n | _ => false) = true) : ∃ w s a, k = .count w s n a := by
  cases k <;> simp at h
  subst h
  exact ⟨_, _, _, rfl⟩

theorem isByteSize_of {k : FK} {n : String}
    (h : (match k with | .byteSize _ _ t => t == n | _ => false) = true) : ∃ w s, k = .byteSize w s n := by
  cases k <;> simp at h
  subst h
  exact ⟨_, _, rfl⟩

theorem isSizeOf_of {k : FK} {n : String}
    (h : (match k with | .sizeOf _ _ t => t == n | _ => false) = true) : ∃ w s, k = .sizeOf w s n := by
  cases k <;> simp at h
  subst h
  exact ⟨_, _, rfl⟩

/-- the count member of a counted array / byte array, as `deserialize` has read it -/
theorem env_count {pre : List Field} {env : List (String × Val)} {cf : String} {f : Field}
    (henv : EnvOk r d vs pre env)
    (h : refOk pre cf (fun k => match k with | .count _ _ t _ => t == f.name | _ => false) = true) :
    ∃ w s a i, derivedValue r d vs (.count w s f.name a) = .ok i ∧ envInt env cf = .ok i := by
  obtain ⟨gk, v, -, hn, hp, hv, he⟩ := env_ref henv h
  obtain ⟨w, s, a, hk⟩ := isCount_of hp
  obtain ⟨i, hi, rfl⟩ := entry_derived (by simp [hk, FK.carries]) hn he
  rw [hk] at hi
  exact ⟨w, s, a, i, hi, envInt_of_get hv⟩

/-- the size member of a sized array or size-limited member, as `deserialize` has read it:
    the byte size of the target -/
theorem env_size {pre post : List Field} {env : List (String × Val)} {sf : String} {f : Field}
    (hnd : allDistinct (d.fields.map (·.name)) = true) (hsplit : d.fields = pre ++ f :: post)
    (henv : EnvOk r d vs pre env)
    {p : FK → Bool} (hp : ∀ k, p k = true → ∃ w s, k = .byteSize w s f.name ∨ k = .sizeOf w s f.name)
    (h : refOk pre sf p = true) :
    ∃ n : Nat, fieldSize r f (Val.get vs f.name) = .ok n ∧ envInt env sf = .ok (n : Int) := by
  obtain ⟨gk, v, -, hn, hpk, hv, he⟩ := env_ref henv h
  obtain ⟨w, s, hk⟩ := hp _ hpk
  have hcar : gk.kind.carries = false := by rcases hk with hk | hk <;> simp [hk, FK.carries]
  obtain ⟨i, hi, rfl⟩ := entry_derived hcar hn he
  have hf : lookupField d.fields f.name = some f := lookupField_of_mem hnd (by simp [hsplit])
  have : ∃ n : Nat, fieldSize r f (Val.get vs f.name) = .ok n ∧ i = (n : Int) := by
    rcases hk with hk | hk <;>
    · rw [hk] at hi
      simp only [derivedValue, hf] at hi
      obtain ⟨n, hn1, hn2⟩ := bind_eq_ok.mp hi
      simp only [Except.ok.injEq] at hn2
      exact ⟨n, hn1, hn2.symm⟩
  obtain ⟨n, hn1, rfl⟩ := this
  exact ⟨n, hn1, envInt_of_get hv⟩

theorem take_append_length (a b : Bytes) : (a ++ b).take a.length = a := by simp

/-- what was written for a member is read back, whatever follows it
    (for a fill array: when nothing follows it) -/
theorem decPayload_of_enc (hr : RecOk S g r)
    (hnd : allDistinct (d.fields.map (·.name)) = true)
    {pre post : List Field} {f : Field} (hsplit : d.fields = pre ++ f :: post)
    (hwf : wfFieldAt S d pre f post.isEmpty = true)
    {env : List (String × Val)} (henv : EnvOk r d vs pre env)
    (hm : admMember g vs f = true)
    {bf : Bytes} (he : encField S T r d vs f = .ok bf)
    (rest : Bytes) (hrest : (∃ e a p k, f.kind = .array e .fill a p k) → rest = []) :
    ∃ v, decPayload S T r env f (bf ++ rest) = .ok (v, bf.length) ∧ FullVal r d vs f v := by
  by_cases hc : f.kind.carries = false
  · -- derived members
    have he' := he
    rw [encField_derived S T r d vs f hc] at he'
    obtain ⟨i, hi, hei⟩ := bind_eq_ok.mp he'
    have hlen := encInt_length hei
    have hdec := decInt_encInt hei rest
    refine ⟨.int i, ?_, ?_⟩
    · unfold decPayload
      cases hk : f.kind with
      | int w s => simp [hk, FK.carries] at hc
      | ref ty l => simp [hk, FK.carries] at hc
      | barray sf => simp [hk, FK.carries] at hc
      | array e m a p k => simp [hk, FK.carries] at hc
      | reserved w s value =>
        simp only [hk, FK.width, FK.signed] at hdec hlen hi
        simp only [derivedValue, Except.ok.injEq] at hi
        subst hi
        simp [hdec, hlen]
      | sizeF w => simp only [hk, FK.width, FK.signed] at hdec hlen; simp [hdec, hlen]
      | count w s t a => simp only [hk, FK.width, FK.signed] at hdec hlen; simp [hdec, hlen]
      | byteSize w s t => simp only [hk, FK.width, FK.signed] at hdec hlen; simp [hdec, hlen]
      | sizeOf w s t => simp only [hk, FK.width, FK.signed] at hdec hlen; simp [hdec, hlen]
      | sizeRef w s t dl => simp only [hk, FK.width, FK.signed] at hdec hlen; simp [hdec, hlen]
    · unfold FullVal
      simp only [hc, Bool.false_eq_true, if_false]
      exact ⟨i, hi, rfl⟩
  · have hc' : f.kind.carries = true := by simpa using hc
    have hsize := fieldSize_of_enc hr.law hm he
    unfold FullVal
    simp only [hc', if_true]
    unfold encField at he
    unfold decPayload
    unfold admMember at hm
    unfold wfFieldAt at hwf
    cases hk : f.kind with
    | reserved w s value => simp [hk, FK.carries] at hc
    | sizeF w => simp [hk, FK.carries] at hc
    | count w s t a => simp [hk, FK.carries] at hc
    | byteSize w s t => simp [hk, FK.carries] at hc
    | sizeOf w s t => simp [hk, FK.carries] at hc
    | sizeRef w s t dl => simp [hk, FK.carries] at hc
    | int w s =>
      simp only [hk] at he ⊢
      cases hv : Val.get vs f.name with
      | none => simp [hv] at he
      | some v =>
        cases v with
        | int i =>
          simp only [hv] at he
          exact ⟨.int i, by simp [decInt_encInt he rest, encInt_length he], rfl⟩
        | _ => simp [hv] at he
    | barray sf =>
      simp only [hk] at he hwf ⊢
      cases hv : Val.get vs f.name with
      | none => simp [hv] at he
      | some v =>
        cases v with
        | bytes b =>
          simp only [hv, Except.ok.injEq] at he
          subst he
          obtain ⟨w, s, a, i, hi, hei⟩ := env_count henv hwf
          simp only [derivedValue, hv, Except.ok.injEq] at hi
          subst hi
          refine ⟨.bytes b, ?_, rfl⟩
          simp [hei, bind, Except.bind]
        | _ => simp [hv] at he
    | ref ty l =>
      simp only [hk] at he hm hwf ⊢
      cases hv : Val.get vs f.name with
      | none => simp [hv] at he
      | some v =>
        simp only [hv] at he hm hsize
        have hnn : v.isNone = false := by
          cases v <;> first | rfl | cases he
        have hgv : g ty v = true := by simpa [hnn] using hm
        have he' : r.enc ty v = .ok bf := by
          cases v <;> first | exact he | cases he
        obtain ⟨hsz, hdec⟩ := hr.law.apply hgv he'
        refine ⟨v, ?_, rfl⟩
        cases l with
        | none => simp [hdec rest, hsz, bind, Except.bind, pure, Except.pure]
        | some lim =>
          simp only at hwf
          obtain ⟨n, hn1, hn2⟩ := env_size hnd hsplit henv (p := fun k => match k with | .sizeOf _ _ t => t == f.name | _ => false)
            (fun k hk' => by obtain ⟨w, s, h⟩ := isSizeOf_of hk'; exact ⟨w, s, .inr h⟩) hwf
          rw [hv, hsize] at hn1
          simp only [Except.ok.injEq] at hn1
          subst hn1
          have hd0 := hdec []
          simp only [List.append_nil] at hd0
          simp [hn2, hd0, hsz, bind, Except.bind, pure, Except.pure]
    | array elem mode align padLast key =>
      simp only [hk] at he hm hwf ⊢
      cases hv : Val.get vs f.name with
      | none => simp [hv] at he
      | some v =>
        cases v with
        | arr l =>
          simp only [hv] at he hm hsize
          refine ⟨.arr l, ?_, rfl⟩
          have hg : ∀ v ∈ l, g elem v = true := by simpa [List.all_eq_true] using hm
          simp only [Bool.and_eq_true] at hwf
          have hne := hr.ne elem hwf.1
          by_cases hmax : l.length > maxCount
          · simp [hmax] at he
          · simp only [hmax, if_false] at he
            by_cases hal : align = 0
            · subst hal
              simp only [bne_self_eq_false, Bool.false_eq_true, if_false] at he
              have hplain : encArrayPlain r elem l = .ok bf := by
                cases key with
                | none => exact he
                | some k =>
                  simp only at he
                  obtain ⟨keys, -, hk2⟩ := bind_eq_ok.mp he
                  split at hk2
                  · exact hk2
                  · cases hk2
              obtain ⟨ss, hss, hsum⟩ := plain_sizes hr.law hg hplain
              cases mode with
              | count cf =>
                simp only [Bool.and_eq_true] at hwf
                obtain ⟨w, s, a, i, hi, hei⟩ := env_count henv hwf.2.2
                simp only [derivedValue, hv, Except.ok.injEq] at hi
                subst hi
                have hdecA : decArrayCount S T r elem key l.length (bf ++ rest) none [] = .ok l := by
                  cases key with
                  | none => exact count_dec_nokey hr.law hne hg hplain rest
                  | some k =>
                    simp only at he
                    obtain ⟨keys, hkeys, hk2⟩ := bind_eq_ok.mp he
                    split at hk2
                    · rename_i hasc
                      exact count_dec_key hr.law hne hkeys hasc hg hplain rest
                    · cases hk2
                simp [hei, bind, Except.bind, hmax, hdecA, hss, arraySize, hsum]
              | sized sf =>
                simp at hwf
              | fill =>
                have hrest' : rest = [] := hrest ⟨_, _, _, _, hk⟩
                subst hrest'
                have := fill_dec hr.law hne hg hplain
                cases key with
                | none => simp [this, hss, bind, Except.bind, arraySize, hsum, hmax]
                | some k =>
                  simp only at he
                  obtain ⟨keys, hkeys, hk2⟩ := bind_eq_ok.mp he
                  split at hk2
                  · rename_i hasc
                    simp [this, hss, bind, Except.bind, arraySize, hsum, hmax, hkeys, hasc]
                  · cases hk2
            · have hal' : (align != 0) = true := by simp [hal]
              have hapos : 0 < align := Nat.pos_of_ne_zero hal
              simp only [hal', if_true] at he
              obtain ⟨ss, hss, hsum⟩ := aligned_sizes hr.law hapos hg he
              cases mode with
              | count cf =>
                simp [hal] at hwf
              | sized sf =>
                simp only [Bool.and_eq_true] at hwf
                obtain ⟨n, hn1, hn2⟩ := env_size hnd hsplit henv (p := fun k => match k with | .byteSize _ _ t => t == f.name | _ => false)
                  (fun k hk' => by obtain ⟨w, s, h⟩ := isByteSize_of hk'; exact ⟨w, s, .inl h⟩) hwf.2.2
                rw [hv, hsize] at hn1
                simp only [Except.ok.injEq] at hn1
                subst hn1
                have := aligned_dec hr.law hne hapos hg he
                simp [hn2, bind, Except.bind, this, hmax]
              | fill =>
                have hrest' : rest = [] := hrest ⟨_, _, _, _, hk⟩
                subst hrest'
                have := aligned_dec hr.law hne hapos hg he
                simp [hal', this, hss, bind, Except.bind, hsum, hmax]
        | _ => simp [hv] at he

end
end SymbolVerif.Codec

/-
Round-trip laws of the array readers/writers (ArrayHelpers.py), generic in the element codec:
whatever satisfies `Rec.Law` for the element type can be put in counted, fill and aligned arrays.
-/
import SymbolVerif.Proofs.Codec.Ints
namespace SymbolVerif.Codec
open SymbolVerif.Bytes

/-- the law a set of recursive calls has to satisfy: an encoding reports its size and decodes back
    to the value, whatever bytes follow it -/
def Rec.Law (r : Rec) : Prop :=
  ∀ ty v b, r.enc ty v = .ok b → r.size ty v = .ok b.length ∧ ∀ tail, r.dec ty (b ++ tail) = .ok v

/-- every encoding of an element of type `elem` is non-empty -/
def Rec.NonEmpty (r : Rec) (elem : String) : Prop := ∀ v b, r.enc elem v = .ok b → b ≠ []

/-- unfolding of `write_array` one element at a time -/
theorem encArrayPlain_cons (r : Rec) (elem : String) (v : Val) (vs : List Val) :
    encArrayPlain r elem (v :: vs) =
      (do let b ← r.enc elem v; let t ← encArrayPlain r elem vs; (.ok (b ++ t) : R Bytes)) := rfl

theorem encArrayPlain_nil (r : Rec) (elem : String) : encArrayPlain r elem [] = .ok [] := rfl

/-- sizes of the elements of an encodable array, and their sum -/
theorem elemSizes_of_enc (r : Rec) (hr : r.Law) (elem : String) (l : List Val) (b : Bytes)
    (h : encArrayPlain r elem l = .ok b) :
    ∃ ss, elemSizes r elem l = .ok ss ∧ ss.sum = b.length := by
  induction l generalizing b with
  | nil =>
    simp [encArrayPlain_nil] at h; subst h
    exact ⟨[], rfl, rfl⟩
  | cons v vs ih =>
    rw [encArrayPlain_cons] at h
    cases hv : r.enc elem v with
    | error e => simp [hv, bind, Except.bind] at h
    | ok bv =>
      cases ht : encArrayPlain r elem vs with
      | error e => simp [hv, ht, bind, Except.bind] at h
      | ok t =>
        simp only [hv, ht, bind, Except.bind, Except.ok.injEq] at h
        subst h
        obtain ⟨ss, hss, hsum⟩ := ih t ht
        refine ⟨bv.length :: ss, ?_, by simp [hsum]⟩
        simp only [elemSizes, (hr elem v bv hv).1, hss, bind, Except.bind]

/-- `read_array_count ∘ write_array` without a sort key -/
theorem decArrayCount_enc_nokey (S : Schema) (T : String → Bytes → Bytes) (r : Rec) (hr : r.Law) (elem : String)
    (hne : r.NonEmpty elem) (l : List Val) (b tail : Bytes) (acc : List Val)
    (h : encArrayPlain r elem l = .ok b) :
    decArrayCount S T r elem none l.length (b ++ tail) none acc = .ok (acc.reverse ++ l) := by
  induction l generalizing b acc with
  | nil =>
    simp [encArrayPlain_nil] at h; subst h
    simp [decArrayCount]
  | cons v vs ih =>
    rw [encArrayPlain_cons] at h
    cases hv : r.enc elem v with
    | error e => simp [hv, bind, Except.bind] at h
    | ok bv =>
      cases ht : encArrayPlain r elem vs with
      | error e => simp [hv, ht, bind, Except.bind] at h
      | ok t =>
        simp only [hv, ht, bind, Except.bind, Except.ok.injEq] at h
        subst h
        obtain ⟨hsz, hdec⟩ := hr elem v bv hv
        have hpos : (bv.length == 0) = false := by
          have := hne v bv hv
          cases bv with
          | nil => exact absurd rfl this
          | cons _ _ => simp
        simp only [List.length_cons, decArrayCount, List.append_assoc, hdec, hsz, hpos, Bool.false_eq_true, if_false]
        rw [List.drop_left]
        rw [ih t (v :: acc) ht]
        simp

end SymbolVerif.Codec

/-
The emitted `<Base>Factory.deserialize` against the interpreter's decode at an abstract type.
-/
import SymbolVerif.Model.Codec.EmissionFactory
import SymbolVerif.Proofs.Codec.EmissionDesConvClass
import SymbolVerif.Proofs.Codec.DedObj
namespace SymbolVerif.Codec
open SymbolVerif.Bytes

/-- the text of `factoryClass` is the rendering of the abstract factory -/
theorem render_emitFactory (S : Schema) (a : String) : (emitFactory S a).render = factoryClass S a := by
  unfold FactoryAst.render emitFactory factoryClass keyConstNames commaJoined
  simp only [List.map_map]
  rfl

theorem mapM_congr {α β : Type} {g h : α → R β} (l : List α) (hgh : ∀ a ∈ l, g a = h a) : l.mapM g = l.mapM h := by
  induction l with
  | nil => rfl
  | cons a l ih =>
    simp only [List.mapM_cons, hgh a (by simp), ih (fun x hx => hgh x (List.mem_cons_of_mem _ hx))]

theorem mapM_map_ok {α β γ : Type} (g : α → γ) (h : γ → R β) (k : α → β) (l : List α) (hk : ∀ a ∈ l, h (g a) = .ok (k a)) :
    (l.map g).mapM h = .ok (l.map k) := by
  induction l with
  | nil => rfl
  | cons a l ih =>
    simp only [List.map_cons, List.mapM_cons, hk a (by simp), ih (fun x hx => hk x (List.mem_cons_of_mem _ hx)),
      bind, Except.bind, pure, Except.pure]

theorem abstractNames_mem {S : Schema} {a : String} {da : StructDef} (hfa : S.find a = some (.struct da))
    (hab : da.abstract = true) : a ∈ abstractNames S := by
  unfold abstractNames
  simp only [List.mem_filterMap]
  exact ⟨(a, .struct da), Schema.find_mem hfa, by simp [hab]⟩

section
variable {S : Schema} {T : String → Bytes → Bytes} {r : Rec}

/-- the part of the emitted factory before the dictionary lookup, given the decoder's run over the abstract class -/
theorem factory_common (hwf : WF S = true) (hwgd : WFGD S = true) (hwff : WFF S = true) {a : String} {da : StructDef}
    (hfa : S.find a = some (.struct da)) (hab : da.abstract = true)
    (hnn : ∀ ty b v, r.dec ty b = .ok v → v ≠ .none) {payload : Bytes} {st : DecState}
    (hst : decFields S T r da da.fields payload = .ok st) :
    ∃ vsA w1 w2, emittedBaseDeserialize S T r da payload = .ok (vsA, w1, w2) ∧
      (∀ n ∈ da.disc, Val.get vsA n = Val.get st.env n) ∧
      (emitFactory S a).keyed.mapM (FactoryAst.entryOf S) = .ok ((S.children a).map fun c => (c.2.discValues, c.1)) := by
  have hwa := wfStruct_iff (WF_struct hwf hfa)
  obtain ⟨hbn, huncond, hdisc, -⟩ := hwa.abs hab
  have hgsa := WFGD_struct hwgd hfa
  have hgda := desFieldsOk_of hgsa
  have hownA : ownFields da = da.fields := by unfold ownFields; simp [hbn]
  unfold decFields at hst
  obtain ⟨σ1, e, hex1, hS1, hsz, -, -, -, -⟩ := base_run hwa hbn huncond hgda hownA hnn hst
  obtain ⟨vsA, hvsA⟩ := objectOf_ok (d := da) (env := st.env) (fun x hx => by
    obtain ⟨v, hv, -⟩ := drunq_fields hwa.names hwa.covered da (show decFields S T r da da.fields payload = .ok st from hst) x hx
    exact ⟨v, hv⟩)
  have hsets : setsOf da σ1 = .ok vsA := by
    unfold setsOf
    rw [storedOk_of hgsa, hownA]
    unfold objectOf at hvsA
    exact setsOf_eq (fun f hf => (hgda f hf).2.2.1) _ (fun f hf => (List.mem_filter.mp hf).1)
      (fun f hf => by simpa using (List.mem_filter.mp hf).2)
      (fun x hx v hv => hS1.loc x (List.mem_filter.mp hx).1 v hv) vsA hvsA
  refine ⟨vsA, (e : Int) - (σ1.buffer.length : Int), (e : Int), ?_, ?_, ?_⟩
  · unfold emittedBaseDeserialize
    simp only [hex1, hsets, hsz, bind, Except.bind]
  · intro n hn
    obtain ⟨gk, hl, hcar⟩ := hdisc n hn
    obtain ⟨hgm, hgn⟩ := lookupField_some hl
    have := (objectOf_spec hwa.names hvsA).2.1 gk hgm hcar
    rw [hgn] at this
    exact this
  · have hw : wffAt S a = true := by
      unfold WFF at hwff
      simp only [List.all_eq_true] at hwff
      exact hwff a (abstractNames_mem hfa hab)
    unfold wffAt at hw
    simp only [List.all_eq_true, beq_iff_eq] at hw
    unfold emitFactory
    simp only
    apply mapM_map_ok
    intro c hc
    simp only [FactoryAst.entryOf, hw c hc]

/-- the dictionary lookup of the emitted factory finds the child the interpreter dispatches to -/
theorem mapping_lookup (children : List (String × StructDef)) (disc : List Int) :
    ((children.map fun c => (c.2.discValues, c.1)).filter (·.1 == disc)).getLast? =
      ((children.filter fun c => c.2.discValues == disc).getLast?).map fun c => (c.2.discValues, c.1) := by
  rw [List.filter_map, List.getLast?_map]
  rfl

/-- the emitted factory after the decoder's run over the abstract class: the dispatch of the interpreter -/
theorem emittedFactory_eq (hwf : WF S = true) (hwgd : WFGD S = true) (hwff : WFF S = true) {a : String} {da : StructDef}
    (hfa : S.find a = some (.struct da)) (hab : da.abstract = true)
    (hnn : ∀ ty b v, r.dec ty b = .ok v → v ≠ .none) {payload : Bytes} {st : DecState}
    (hst : decFields S T r da da.fields payload = .ok st) {disc : List Int}
    (hdisc : da.disc.mapM (envInt st.env) = .ok disc) :
    emittedFactoryDeserialize S T r a payload =
      (match ((S.children a).filter (fun c => c.2.discValues == disc)).getLast? with
        | some (cls, _) =>
          (match S.find cls with
            | some (.struct dc) => emittedDeserialize S T r cls dc payload
            | _ => .error .unknownType)
        | none => .error .factory) := by
  obtain ⟨vsA, w1, w2, hbase, hget, hmap⟩ := factory_common hwf hwgd hwff hfa hab hnn hst
  unfold emittedFactoryDeserialize
  simp only [hfa, hbase, bind, Except.bind]
  rw [hmap]
  simp only []
  cases hch : S.children a with
  | nil => simp [emitFactory, hch, pure, Except.pure]
  | cons c0 cs =>
    have hd : (emitFactory S a).disc = da.disc := by simp [emitFactory, hfa, hch]
    have hdm : (emitFactory S a).disc.mapM (parentMember vsA) = .ok disc := by
      rw [hd, ← hdisc]
      apply mapM_congr
      intro n hn
      unfold parentMember envInt
      rw [hget n hn]
      cases Val.get st.env n with
      | none => rfl
      | some v => cases v <;> rfl
    simp only [hdm]
    rw [← hch, mapping_lookup]
    cases ((S.children a).filter fun c => c.2.discValues == disc).getLast? with
    | none => rfl
    | some c => rfl

/-- the child the interpreter dispatches to is a concrete class of the schema -/
theorem dispatch_child (hwf : WF S = true) {a : String} {da : StructDef} (hfa : S.find a = some (.struct da))
    {disc : List Int} {cls : String} {dcx : StructDef}
    (h : ((S.children a).filter (fun c => c.2.discValues == disc)).getLast? = some (cls, dcx)) :
    ∃ dc, S.find cls = some (.struct dc) ∧ dc.abstract = false := by
  have hm : (cls, dcx) ∈ S.children a := (List.mem_filter.mp (List.mem_of_getLast? h)).1
  have hany : (S.children a).any (·.1 == cls) = true := by
    simp only [List.any_eq_true, beq_iff_eq]
    exact ⟨(cls, dcx), hm, rfl⟩
  obtain ⟨dc, -, hfc, hna, -, -, -⟩ := child_facts hwf hfa hany
  exact ⟨dc, hfc, hna⟩

/-- `<Base>Factory.deserialize` returns what the interpreter decodes at the abstract type -/
theorem emittedFactory_of_dec (hwf : WF S = true) (hwgd : WFGD S = true) (hwff : WFF S = true) {a : String} {da : StructDef}
    (hfa : S.find a = some (.struct da)) (hab : da.abstract = true)
    (hnn : ∀ ty b v, r.dec ty b = .ok v → v ≠ .none) {payload : Bytes} {v : Val}
    (hdec : decTypeStep S T r a payload = .ok v) : emittedFactoryDeserialize S T r a payload = .ok v := by
  unfold decTypeStep at hdec
  simp only [hfa, hab, if_true] at hdec
  obtain ⟨st, hst, hdec⟩ := bind_eq_ok.mp hdec
  obtain ⟨disc, hdisc, hdec⟩ := bind_eq_ok.mp hdec
  rw [emittedFactory_eq hwf hwgd hwff hfa hab hnn hst hdisc]
  cases hl : ((S.children a).filter (fun c => c.2.discValues == disc)).getLast? with
  | none => simp [hl] at hdec
  | some c =>
    obtain ⟨cls, dcx⟩ := c
    obtain ⟨dc, hfc, hna⟩ := dispatch_child hwf hfa hl
    simp only [hl, hfc, hna, Bool.false_eq_true, if_false] at hdec ⊢
    exact emittedDeserialize_of_dec hwf hwgd hfc hnn hdec

/-- a discriminator tuple no child has: the interpreter's `Err.factory` is the emitted `KeyError` -/
theorem emittedFactory_keyError (hwf : WF S = true) (hwgd : WFGD S = true) (hwff : WFF S = true) {a : String}
    {da : StructDef} (hfa : S.find a = some (.struct da)) (hab : da.abstract = true)
    (hnn : ∀ ty b v, r.dec ty b = .ok v → v ≠ .none) {payload : Bytes} {st : DecState}
    (hst : decFields S T r da da.fields payload = .ok st) {disc : List Int}
    (hdisc : da.disc.mapM (envInt st.env) = .ok disc)
    (hnone : ((S.children a).filter (fun c => c.2.discValues == disc)).getLast? = none) :
    decTypeStep S T r a payload = .error .factory ∧ emittedFactoryDeserialize S T r a payload = .error .factory := by
  refine ⟨?_, ?_⟩
  · unfold decTypeStep
    simp [hfa, hab, hst, hdisc, hnone, bind, Except.bind]
  · rw [emittedFactory_eq hwf hwgd hwff hfa hab hnn hst hdisc, hnone]

/-- `Base._deserialize` runs through: the decoder's run over the abstract class succeeds (or is outside the domain) -/
theorem base_progress (hwf : WF S = true) (hwgd : WFGD S = true) {a : String} {da : StructDef}
    (hfa : S.find a = some (.struct da)) (hab : da.abstract = true)
    (hnn : ∀ ty b v, r.dec ty b = .ok v → v ≠ .none) {payload : Bytes} {res : List (String × Val) × Int × Int}
    (hbres : emittedBaseDeserialize S T r da payload = .ok res) : OkOrU (decFields S T r da da.fields payload) := by
  have hwa := wfStruct_iff (WF_struct hwf hfa)
  obtain ⟨hbn, huncond, -, -⟩ := hwa.abs hab
  have hgda := desFieldsOk_of (WFGD_struct hwgd hfa)
  have hownA : ownFields da = da.fields := by unfold ownFields; simp [hbn]
  unfold emittedBaseDeserialize at hbres
  simp only [] at hbres
  obtain ⟨σ1x, hex1x, -⟩ := bind_eq_ok.mp hbres
  have hitemsA : emitDeserialize S da = newItems S da (sizeMemberOf da) da.fields {} := by
    unfold emitDeserialize
    rw [hownA, emitDesLoop_newItems]
    rfl
  have hS0 : Sim (if (ownSizeMember da).isSome then ({ buffer := payload } : PyState)
      else ({ buffer := payload } : PyState).set "size_" (.int (payload.length : Int)))
      { buf := payload, origLen := payload.length } [] [] :=
    ⟨by split <;> rfl, (fun _ h => by cases h), (fun _ h => by cases h), (fun _ h => by cases h), (fun _ h => by cases h)⟩
  have hQ0 : SimQ S da (sizeMemberOf da) _ { buf := payload, origLen := payload.length } {} [] [] [] none :=
    ⟨hS0, (fun x => by simp [pendList]), (fun _ h => by cases h), (fun _ h => by cases h), (fun _ h => by cases h),
      (fun _ h => by cases h), (fun _ h => by cases h), (fun _ h => by cases h), rfl, (fun _ => rfl),
      (fun _ _ h => by cases h)⟩
  rw [hitemsA] at hex1x
  unfold decFields
  exact decFrom_progressQ (S := S) (T := T) (r := r) hnn hwa.names hgda (sizeMember_iff hwa hgda) da
    (fun st i => rebase_no_base da hbn st i) [] da.fields [] [] _ σ1x _ 0 {} [] none (by simp)
    (by simpa using hwa.fields) (by simpa using hwa.covered) (fun _ _ _ _ x hx => by cases hx) hQ0 hex1x

/-- what `<Base>Factory.deserialize` returns, the interpreter decodes at the abstract type (or refuses as outside its
    modelled domain) -/
theorem emittedFactory_sound (hwf : WF S = true) (hwgd : WFGD S = true) (hwff : WFF S = true) {a : String} {da : StructDef}
    (hfa : S.find a = some (.struct da)) (hab : da.abstract = true)
    (hnn : ∀ ty b v, r.dec ty b = .ok v → v ≠ .none) {payload : Bytes} {v : Val}
    (hem : emittedFactoryDeserialize S T r a payload = .ok v) :
    decTypeStep S T r a payload = .ok v ∨ decTypeStep S T r a payload = .error .unsupported := by
  have hem0 := hem
  unfold emittedFactoryDeserialize at hem
  simp only [hfa] at hem
  obtain ⟨parent, hparent, hem⟩ := bind_eq_ok.mp hem
  obtain ⟨mapping, hmapping, hem⟩ := bind_eq_ok.mp hem
  obtain ⟨dtuple, hdtuple, hem⟩ := bind_eq_ok.mp hem
  rcases base_progress hwf hwgd hfa hab hnn hparent with ⟨st, hst⟩ | hst
  · obtain ⟨vsA, w1, w2, hbase, hget, hmap⟩ := factory_common hwf hwgd hwff hfa hab hnn hst
    rw [hparent] at hbase
    simp only [Except.ok.injEq] at hbase
    subst hbase
    simp only at hdtuple
    cases hch : S.children a with
    | nil =>
      rw [hmap, hch] at hmapping
      simp only [List.map_nil, Except.ok.injEq] at hmapping
      subst hmapping
      simp only [List.filter_nil, List.getLast?_nil, hdtuple, bind, Except.bind] at hem
      cases hem
    | cons c0 cs =>
      have hd : (emitFactory S a).disc = da.disc := by simp [emitFactory, hfa, hch]
      have hdisc : da.disc.mapM (envInt st.env) = .ok dtuple := by
        rw [← hdtuple, hd]
        apply mapM_congr
        intro n hn
        unfold parentMember envInt
        rw [hget n hn]
        cases Val.get st.env n with
        | none => rfl
        | some v => cases v <;> rfl
      rw [emittedFactory_eq hwf hwgd hwff hfa hab hnn hst hdisc] at hem0
      unfold decTypeStep
      simp only [hfa, hab, if_true, hst, hdisc, bind, Except.bind]
      cases hl : ((S.children a).filter (fun c => c.2.discValues == dtuple)).getLast? with
      | none => simp [hl] at hem0
      | some c =>
        obtain ⟨cls, dcx⟩ := c
        obtain ⟨dc, hfc, hna⟩ := dispatch_child hwf hfa hl
        simp only [hl, hfc] at hem0
        simp only [hfc, hna, Bool.false_eq_true, if_false]
        exact emittedDeserialize_sound hwf hwgd hfc hnn hem0
  · right
    unfold decTypeStep
    simp [hfa, hab, hst, bind, Except.bind]

end
end SymbolVerif.Codec

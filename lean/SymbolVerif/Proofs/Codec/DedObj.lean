/-
Decode-encode direction, part 5: the object that `deserialize` builds from its locals.
-/
import SymbolVerif.Proofs.Codec.DedRun
import SymbolVerif.Proofs.Codec.StructObject
namespace SymbolVerif.Codec
open SymbolVerif.Bytes

theorem mapM_get (env : List (String × Val)) (fs : List Field) : ∀ (vs : List (String × Val)),
    fs.mapM (fun f => match Val.get env f.name with
      | some v => (.ok (f.name, v) : R (String × Val))
      | none => .error .missing) = .ok vs →
    vs.map (·.1) = fs.map (·.name) ∧
    (allDistinct (fs.map (·.name)) = true → ∀ f ∈ fs, Val.get vs f.name = Val.get env f.name) := by
  induction fs with
  | nil =>
    intro vs h
    simp only [List.mapM_nil, pure, Except.pure, Except.ok.injEq] at h
    subst h
    exact ⟨rfl, fun _ f hf => by cases hf⟩
  | cons f fs ih =>
    intro vs h
    rw [List.mapM_cons] at h
    obtain ⟨nv, hnv, h⟩ := bind_eq_ok.mp h
    obtain ⟨rest, hrest, h⟩ := bind_eq_ok.mp h
    simp only [pure, Except.pure, Except.ok.injEq] at h
    subst h
    obtain ⟨ih1, ih2⟩ := ih rest hrest
    cases hv : Val.get env f.name with
    | none => simp [hv] at hnv
    | some v =>
      simp only [hv, Except.ok.injEq] at hnv
      subst hnv
      refine ⟨by simp [ih1], ?_⟩
      intro hd x hx
      rw [List.map_cons] at hd
      obtain ⟨hd1, hd2⟩ := allDistinct_cons hd
      rcases List.mem_cons.mp hx with rfl | hx
      · rw [hv]; simp [Val.get]
      · have hne : (f.name == x.name) = false := by
          have : f.name ≠ x.name := fun h => hd1 (h ▸ List.mem_map_of_mem (f := (·.name)) hx)
          simp [this]
        have := ih2 hd2 x hx
        simpa only [Val.get, List.find?_cons, hne] using this

/-- the object holds, for every value-carrying member, the local -/
theorem objectOf_spec {d : StructDef} {env vs : List (String × Val)}
    (hnd : allDistinct (d.fields.map (·.name)) = true) (h : objectOf d env = .ok vs) :
    shapeOk d vs = true ∧
    (∀ f ∈ d.fields, f.kind.carries = true → Val.get vs f.name = Val.get env f.name) ∧
    (∀ f ∈ d.fields, f.kind.carries = false → Val.get vs f.name = none) := by
  unfold objectOf at h
  obtain ⟨h1, h2⟩ := mapM_get env _ vs h
  have hdf := allDistinct_filter_names (·.kind.carries) d.fields hnd
  refine ⟨by unfold shapeOk; simp [h1], ?_, ?_⟩
  · intro f hf hc
    exact h2 hdf f (List.mem_filter.mpr ⟨hf, hc⟩)
  · intro f hf hc
    apply get_none_of_names
    intro nv hnv hn
    have : nv.1 ∈ vs.map (·.1) := List.mem_map_of_mem (f := (·.1)) hnv
    rw [h1] at this
    obtain ⟨x, hx, hxn⟩ := List.mem_map.mp this
    obtain ⟨hx1, hx2⟩ := List.mem_filter.mp hx
    have : x = f := eq_of_name_eq hnd hx1 hf (by rw [hxn, hn])
    subst this
    rw [hc] at hx2
    cases hx2

end SymbolVerif.Codec

/-
Struct-level round trip, part 8: one interpretation step preserves the law, and the induction on fuel.
-/
import SymbolVerif.Proofs.Codec.StructObject
namespace SymbolVerif.Codec
open SymbolVerif.Bytes

/-! ### schema lookups -/

theorem Schema.find_mem {S : Schema} {n : String} {t : TypeDef} (h : S.find n = some t) : (n, t) ∈ S := by
  unfold Schema.find at h
  cases hf : S.find? (·.1 == n) with
  | none => simp [hf] at h
  | some x =>
    simp only [hf, Option.map_some, Option.some.injEq] at h
    have h1 := List.mem_of_find?_eq_some hf
    have h2 := List.find?_some hf
    simp only [beq_iff_eq] at h2
    obtain ⟨a, b⟩ := x
    simp only at h h2
    subst h h2
    exact h1

theorem Schema.find_of_mem {S : Schema} {n : String} {t : TypeDef} (hd : allDistinct (S.map (·.1)) = true)
    (hm : (n, t) ∈ S) : S.find n = some t := by
  induction S with
  | nil => cases hm
  | cons x xs ih =>
    rw [List.map_cons] at hd
    obtain ⟨h1, h2⟩ := allDistinct_cons hd
    unfold Schema.find
    rw [List.find?_cons]
    by_cases hx : x.1 = n
    · have : x = (n, t) := by
        rcases List.mem_cons.mp hm with h | h
        · exact h.symm
        · exact absurd (hx ▸ List.mem_map_of_mem (f := (·.1)) h) h1
      subst this
      simp
    · have hne : (x.1 == n) = false := by simp [hx]
      simp only [hne]
      have hm' : (n, t) ∈ xs := by
        rcases List.mem_cons.mp hm with h | h
        · exact absurd (by rw [← h]) hx
        · exact h
      exact ih h2 hm'

theorem Schema.children_mem {S : Schema} {a c : String} {dc : StructDef} :
    (c, dc) ∈ S.children a ↔ (c, TypeDef.struct dc) ∈ S ∧ dc.base = some a := by
  unfold Schema.children
  simp only [List.mem_filterMap]
  constructor
  · rintro ⟨⟨n, t⟩, hm, h⟩
    cases t with
    | struct d =>
      simp only at h
      split at h
      · rename_i hb
        simp only [Option.some.injEq, Prod.mk.injEq] at h
        obtain ⟨rfl, rfl⟩ := h
        exact ⟨hm, by simpa using hb⟩
      · cases h
    | _ => simp at h
  · rintro ⟨hm, hb⟩
    exact ⟨(c, .struct dc), hm, by simp [hb]⟩

theorem WF_distinct {S : Schema} (h : WF S = true) : allDistinct (S.map (·.1)) = true := by
  unfold WF at h
  simp only [Bool.and_eq_true] at h
  exact h.1

theorem WF_struct {S : Schema} (h : WF S = true) {n : String} {d : StructDef} (hf : S.find n = some (.struct d)) :
    wfStruct S n d = true := by
  have hm := Schema.find_mem hf
  unfold WF at h
  simp only [Bool.and_eq_true, List.all_eq_true] at h
  have := h.2 _ hm
  simpa using this

structure WfStruct (S : Schema) (n : String) (d : StructDef) : Prop where
  names : allDistinct (d.fields.map (·.name)) = true
  fields : wfFieldsFrom S d [] d.fields = true
  covered : coveredFrom S [] d.fields = true
  base : ∀ a, d.base = some a → d.abstract = false ∧ ∃ da, S.find a = some (.struct da) ∧ da.abstract = true ∧
    d.fields.take d.inherited = da.fields
  abs : d.abstract = true → d.base = none ∧ (∀ f ∈ d.fields, f.cond = none) ∧
    (∀ m ∈ d.disc, ∃ gk, lookupField d.fields m = some gk ∧ gk.kind.carries = true) ∧
    distinctDisc (S.children n) = true

theorem wfStruct_iff {S : Schema} {n : String} {d : StructDef} (h : wfStruct S n d = true) : WfStruct S n d := by
  unfold wfStruct at h
  simp only [Bool.and_eq_true] at h
  obtain ⟨⟨⟨⟨h1, h2⟩, hc⟩, h3⟩, h4⟩ := h
  refine ⟨h1, h2, hc, ?_, ?_⟩
  · intro a ha
    simp only [ha, Bool.and_eq_true, Bool.not_eq_true'] at h3
    refine ⟨h3.1, ?_⟩
    cases hf : S.find a with
    | none => simp [hf] at h3
    | some t =>
      cases t with
      | struct da =>
        simp only [hf, Bool.and_eq_true, beq_iff_eq] at h3
        exact ⟨da, rfl, h3.2.1, h3.2.2⟩
      | _ => simp [hf] at h3
  · intro ha
    simp only [ha, Bool.not_true, Bool.false_or, Bool.and_eq_true, Option.isNone_iff_eq_none, List.all_eq_true] at h4
    refine ⟨h4.1.1.1, h4.1.1.2, ?_, h4.2⟩
    intro m hm
    have := h4.1.2 m hm
    cases hl : lookupField d.fields m with
    | none => simp [hl] at this
    | some gk => exact ⟨gk, rfl, by simpa [hl] using this⟩

/-! ### one concrete struct -/

section
variable {S : Schema} {T : String → Bytes → Bytes} {r : Rec} {g : String → Val → Bool}
variable {d : StructDef} {vs : List (String × Val)}

theorem okStruct_fields (h : okStruct S r g d vs = true) :
    (∀ f ∈ d.fields, admCond r d vs f = true ∧ admMember g vs f = true) ∧
    admUnionsFrom r d vs [] d.fields = true := by
  unfold okStruct at h
  simp only [Bool.and_eq_true, List.all_eq_true] at h
  exact h

/-- a concrete struct class: size law and round trip -/
theorem concrete_law (hr : RecOk S g r) {name : String} (hwfd : WfStruct S name d)
    (hshape : shapeOk d vs = true)
    (hadm : ∀ f ∈ d.fields, admCond r d vs f = true ∧ admMember g vs f = true)
    (hun : admUnionsFrom r d vs [] d.fields = true)
    {b : Bytes} (he : encStruct S T r d vs = .ok b) (ty : String) :
    structSize r d vs = .ok b.length ∧ ∀ tail, decConcrete S T r ty d (b ++ tail) = .ok (.struct ty vs) := by
  refine ⟨structSize_of_enc hr.law b (fun f hf => (hadm f hf).2) he, ?_⟩
  intro tail
  obtain ⟨st, pend, hdec, hprog⟩ := decFields_of_enc hr hwfd.names hwfd.fields hwfd.covered hadm hun he d.fields []
    (by simp) (.inl rfl) d tail
  unfold decConcrete
  simp only [hdec, bind, Except.bind, objectOf_of_env hwfd.names hshape hprog]

end

/-! ### non-empty encodings -/

section
variable {S : Schema} {T : String → Bytes → Bytes} {r : Rec}

theorem encInt_ne_nil {w : Nat} {s : Bool} {i : Int} {b : Bytes} (hw : 0 < w) (h : encInt w s i = .ok b) : b ≠ [] := by
  intro hb
  have := encInt_length h
  rw [hb] at this
  simp at this
  omega

theorem encField_pos (hne : ∀ ty, posSize S ty = true → r.NonEmpty ty) {d : StructDef} {vs : List (String × Val)}
    {f : Field} (hp : posField S f = true) {bf : Bytes} (he : encField S T r d vs f = .ok bf) : bf ≠ [] := by
  unfold posField at hp
  simp only [Bool.and_eq_true] at hp
  by_cases hc : f.kind.carries = false
  · rw [encField_derived S T r d vs f hc] at he
    obtain ⟨i, -, hi⟩ := bind_eq_ok.mp he
    have hw : 0 < f.kind.width := by
      have := hp.2
      cases hk : f.kind <;> simp [hk, FK.carries] at hc <;> simpa [hk] using this
    exact encInt_ne_nil hw hi
  · unfold encField at he
    have hp2 := hp.2
    cases hk : f.kind with
    | reserved w s value => simp [hk, FK.carries] at hc
    | sizeF w => simp [hk, FK.carries] at hc
    | count w s t a => simp [hk, FK.carries] at hc
    | byteSize w s t => simp [hk, FK.carries] at hc
    | sizeOf w s t => simp [hk, FK.carries] at hc
    | sizeRef w s t dl => simp [hk, FK.carries] at hc
    | barray sf => simp [hk] at hp2
    | array e m a p k => simp [hk] at hp2
    | int w s =>
      have hw : 0 < w := by
        have h := hp2
        simp only [hk, FK.width] at h
        exact of_decide_eq_true h
      simp only [hk] at he
      cases hv : Val.get vs f.name with
      | none => simp [hv] at he
      | some v =>
        cases v <;> simp only [hv] at he <;> first | exact encInt_ne_nil hw he | cases he
    | ref ty l =>
      simp only [hk] at hp2 he
      have hps : posSize S ty = true := by
        unfold scalarWidth at hp2
        unfold posSize
        cases hf : S.find ty with
        | none => simp [hf] at hp2
        | some t => cases t <;> simp [hf] at hp2 ⊢ <;> exact hp2
      cases hv : Val.get vs f.name with
      | none => simp [hv] at he
      | some v =>
        have he' : r.enc ty v = .ok bf := by
          cases v <;> simp only [hv] at he <;> first | exact he | cases he
        exact hne ty hps v bf he'

theorem encFrom_pos (hne : ∀ ty, posSize S ty = true → r.NonEmpty ty) {d : StructDef} {vs : List (String × Val)}
    (fs : List Field) (hp : fs.any (posField S) = true) {b : Bytes} (he : encFrom S T r d vs fs = .ok b) : b ≠ [] := by
  induction fs generalizing b with
  | nil => simp at hp
  | cons f rest ih =>
    obtain ⟨p, bf, t, hpo, hbf, ht, rfl⟩ := encFrom_cons_ok he
    simp only [List.any_cons, Bool.or_eq_true] at hp
    rcases hp with hp | hp
    · have hcn : f.cond = none := by
        unfold posField at hp
        simp only [Bool.and_eq_true, Option.isNone_iff_eq_none] at hp
        exact hp.1
      rw [condOnObject_of_none r d.fields vs f hcn] at hpo
      simp only [Except.ok.injEq] at hpo
      subst hpo
      simp only [if_true] at hbf
      have := encField_pos hne hp hbf
      simp [this]
    · have := ih hp ht
      simp [this]

end

/-! ### the step -/

/-- one interpretation step over the recursive calls `r` -/
def stepRec (S : Schema) (T : String → Bytes → Bytes) (r : Rec) : Rec :=
  { enc := encTypeStep S T r, dec := decTypeStep S T r, size := typeSizeStep S r }

theorem recN_succ (S : Schema) (T : String → Bytes → Bytes) (n : Nat) :
    recN S T (n + 1) = stepRec S T (recN S T n) := rfl

theorem discMatch_mapM {vs env : List (String × Val)} (names : List String) : ∀ (vals : List Int),
    discMatch vs names vals = true →
    (∀ m ∈ names, ∃ v, Val.get env m = some v ∧ Val.get vs m = some v) →
    names.mapM (envInt env) = .ok vals := by
  induction names with
  | nil =>
    intro vals h _
    cases vals with
    | nil => rfl
    | cons _ _ => simp [discMatch] at h
  | cons m ms ih =>
    intro vals h hget
    cases vals with
    | nil => simp [discMatch] at h
    | cons i is =>
      simp only [discMatch, Bool.and_eq_true] at h
      obtain ⟨v, hv1, hv2⟩ := hget m (by simp)
      have hvi : v = .int i := by
        have h1 := h.1
        unfold valIsInt at h1
        rw [hv2] at h1
        cases v <;> simp at h1
        rw [h1]
      subst hvi
      have hrest := ih is h.2 (fun m' hm' => hget m' (by simp [hm']))
      rw [List.mapM_cons]
      simp only [envInt_of_get hv1, hrest, bind, Except.bind, pure, Except.pure]

theorem filter_distinctDisc (cs : List (String × StructDef)) (c : String × StructDef)
    (hd : distinctDisc cs = true) (hm : c ∈ cs) :
    cs.filter (fun c' => c'.2.discValues == c.2.discValues) = [c] := by
  induction cs with
  | nil => cases hm
  | cons x xs ih =>
    simp only [distinctDisc, Bool.and_eq_true, List.all_eq_true, bne_iff_ne, ne_eq] at hd
    rcases List.mem_cons.mp hm with rfl | hm'
    · rw [List.filter_cons]
      simp only [beq_self_eq_true, if_true, List.cons.injEq, true_and]
      rw [List.filter_eq_nil_iff]
      intro y hy
      simpa using hd.1 y hy
    · rw [List.filter_cons]
      have : (x.2.discValues == c.2.discValues) = false := by
        have := hd.1 c hm'
        simp only [beq_eq_false_iff_ne, ne_eq]
        exact fun h => this h.symm
      simp only [this, Bool.false_eq_true, if_false]
      exact ih hd.2 hm'

section
variable {S : Schema} {T : String → Bytes → Bytes} {r : Rec} {g : String → Val → Bool}

/-- facts about a child of an abstract type in a well-formed schema -/
theorem child_facts (hwf : WF S = true) {ty vty : String} {d : StructDef} (hf : S.find ty = some (.struct d))
    (hany : (S.children ty).any (·.1 == vty) = true) :
    ∃ dc, (vty, dc) ∈ S.children ty ∧ S.find vty = some (.struct dc) ∧ dc.abstract = false ∧
      WfStruct S vty dc ∧ dc.base = some ty ∧ dc.fields.take dc.inherited = d.fields := by
  simp only [List.any_eq_true, beq_iff_eq] at hany
  obtain ⟨⟨c, dc⟩, hm, hc⟩ := hany
  simp only at hc
  subst hc
  obtain ⟨hmS, hb⟩ := Schema.children_mem.mp hm
  have hfc := Schema.find_of_mem (WF_distinct hwf) hmS
  have hw := wfStruct_iff (WF_struct hwf hfc)
  obtain ⟨hna, da, hfa, -, htake⟩ := hw.base ty hb
  rw [hf] at hfa
  simp only [Option.some.injEq, TypeDef.struct.injEq] at hfa
  subst hfa
  exact ⟨dc, hm, hfc, hna, hw, hb, htake⟩

theorem step_law (hwf : WF S = true) (hr : RecOk S g r) : (stepRec S T r).LawOn (okStep S r g) := by
  apply Rec.lawOn_intro
  intro ty v b hok he
  show typeSizeStep S r ty v = .ok b.length ∧ ∀ tail, decTypeStep S T r ty (b ++ tail) = .ok v
  replace he : encTypeStep S T r ty v = .ok b := he
  unfold encTypeStep at he
  unfold typeSizeStep decTypeStep
  unfold okStep at hok
  cases hf : S.find ty with
  | none => simp [hf] at he
  | some t =>
    cases t with
    | int w s =>
      simp only [hf] at he ⊢
      cases v with
      | int i =>
        simp only at he
        exact ⟨by rw [encInt_length he], fun tail => by rw [decInt_encInt he tail]⟩
      | _ => simp at he
    | bytes n =>
      simp only [hf] at he ⊢
      cases v with
      | bytes bb =>
        simp only at he
        split at he
        · rename_i hl
          simp only [Except.ok.injEq] at he
          subst he
          simp only [beq_iff_eq] at hl
          subst hl
          refine ⟨by simp, fun tail => ?_⟩
          have : ¬ bb.length > (bb ++ tail).length := by simp
          simp only [this, if_false, take_append_length]
        · cases he
      | _ => simp at he
    | enum w s bw ms =>
      simp only [hf] at he ⊢
      cases v with
      | int i =>
        simp only at he
        split at he
        · rename_i hadm
          refine ⟨by rw [encInt_length he], fun tail => ?_⟩
          simp only [decInt_encInt he tail, hadm, if_true]
        · cases he
      | _ => simp at he
    | struct d =>
      simp only [hf] at he hok ⊢
      cases v with
      | struct vty vs =>
        simp only at he hok ⊢
        have hwd := wfStruct_iff (WF_struct hwf hf)
        by_cases hab : d.abstract = true
        · simp only [hab, if_true] at he hok ⊢
          by_cases hany : (S.children ty).any (·.1 == vty) = true
          · simp only [hany, if_true] at he
            obtain ⟨dc, hmem, hfc, hna, hwc, hbase, htake⟩ := child_facts hwf hf hany
            simp only [hfc, hna, Bool.false_eq_true, if_false] at he hok ⊢
            by_cases hshape : shapeOk dc vs = true
            · simp only [hshape, if_true] at he
              simp only [Bool.and_eq_true] at hok
              obtain ⟨hok, hdisc⟩ := hok
              obtain ⟨hadm, hun⟩ := okStruct_fields hok
              have hcl := concrete_law hr hwc hshape hadm hun he vty
              have hne : (vty == ty) = false := by
                simp only [beq_eq_false_iff_ne, ne_eq]
                intro h
                subst h
                rw [hf] at hfc
                simp only [Option.some.injEq, TypeDef.struct.injEq] at hfc
                subst hfc
                rw [hab] at hna
                cases hna
              simp only [hne, Bool.false_eq_true, if_false]
              refine ⟨hcl.1, fun tail => ?_⟩
              -- the factory: read the header with the abstract struct's members, then dispatch
              have hsplit : dc.fields = d.fields ++ dc.fields.drop dc.inherited := by
                rw [← htake]; exact (List.take_append_drop _ _).symm
              obtain ⟨-, hduncond, hdisc_mem, hdd⟩ := hwd.abs hab
              obtain ⟨st, pend, hdec, hprog⟩ := decFields_of_enc hr hwc.names hwc.fields hwc.covered hadm hun he
                d.fields (dc.fields.drop dc.inherited) hsplit (.inr hduncond) d tail
              have hdiscv : d.disc.mapM (envInt st.env) = .ok dc.discValues := by
                apply discMatch_mapM
                · unfold admDisc at hdisc
                  simpa [hbase, hf] using hdisc
                · intro m hm
                  obtain ⟨gk, hl, hcar⟩ := hdisc_mem m hm
                  obtain ⟨hgm, hgn⟩ := lookupField_some hl
                  obtain ⟨v, hv, hp⟩ := hprog.envOk gk hgm (hduncond gk hgm)
                  unfold EntryOk at hp
                  simp only [hcar, if_true] at hp
                  rw [hgn] at hv hp
                  exact ⟨v, hv, hp⟩
              have hfilter := filter_distinctDisc (S.children ty) (vty, dc) hdd hmem
              simp only at hfilter
              simp only [hdec, hdiscv, bind, Except.bind, hfilter, List.getLast?_singleton, hfc, hna,
                Bool.false_eq_true, if_false]
              exact hcl.2 tail
            · simp [hshape] at he
          · simp [hany] at he
        · have hab' : d.abstract = false := by simpa using hab
          simp only [hab', Bool.false_eq_true, if_false] at he hok ⊢
          split at he
          · rename_i hc
            simp only [Bool.and_eq_true, beq_iff_eq] at hc
            obtain ⟨rfl, hshape⟩ := hc
            obtain ⟨hadm, hun⟩ := okStruct_fields hok
            have hcl := concrete_law hr hwd hshape hadm hun he vty
            simp only [beq_self_eq_true, if_true]
            exact hcl
          · cases he
      | _ => simp at he

theorem step_ne (hwf : WF S = true) (hne : ∀ ty, posSize S ty = true → r.NonEmpty ty) :
    ∀ ty, posSize S ty = true → (stepRec S T r).NonEmpty ty := by
  intro ty hp v b he
  replace he : encTypeStep S T r ty v = .ok b := he
  unfold encTypeStep at he
  unfold posSize at hp
  cases hf : S.find ty with
  | none => simp [hf] at he
  | some t =>
    cases t with
    | int w s =>
      simp only [hf, decide_eq_true_eq] at he hp
      cases v with
      | int i => exact encInt_ne_nil hp he
      | _ => simp at he
    | bytes n =>
      simp only [hf, decide_eq_true_eq] at he hp
      cases v with
      | bytes bb =>
        simp only at he
        split at he
        · rename_i hl
          simp only [Except.ok.injEq] at he
          subst he
          simp only [beq_iff_eq] at hl
          intro hb
          subst hb
          simp at hl
          omega
        · cases he
      | _ => simp at he
    | enum w s bw ms =>
      simp only [hf, decide_eq_true_eq] at he hp
      cases v with
      | int i =>
        simp only at he
        split at he
        · exact encInt_ne_nil hp he
        · cases he
      | _ => simp at he
    | struct d =>
      simp only [hf] at he hp
      cases v with
      | struct vty vs =>
        simp only at he
        by_cases hab : d.abstract = true
        · simp only [hab, if_true] at he
          by_cases hany : (S.children ty).any (·.1 == vty) = true
          · simp only [hany, if_true] at he
            obtain ⟨dc, -, hfc, hna, -, -, htake⟩ := child_facts hwf hf hany
            simp only [hfc, hna, Bool.false_eq_true, if_false] at he
            split at he
            · have hpc : dc.fields.any (posField S) = true := by
                simp only [List.any_eq_true] at hp ⊢
                obtain ⟨f, hfm, hfp⟩ := hp
                rw [← htake] at hfm
                exact ⟨f, List.mem_of_mem_take hfm, hfp⟩
              exact encFrom_pos hne dc.fields hpc he
            · cases he
          · simp [hany] at he
        · have hab' : d.abstract = false := by simpa using hab
          simp only [hab', Bool.false_eq_true, if_false] at he
          split at he
          · exact encFrom_pos hne d.fields hp he
          · cases he
      | _ => simp at he

theorem step_scalar (S : Schema) (T : String → Bytes → Bytes) (r : Rec) : ScalarOk S (stepRec S T r) := by
  refine ⟨?_, ?_, ?_, ?_, ?_⟩
  · intro ty w hw v n hn
    replace hn : typeSizeStep S r ty v = .ok n := hn
    unfold typeSizeStep at hn
    unfold scalarWidth at hw
    cases hf : S.find ty with
    | none => simp [hf] at hw
    | some t =>
      cases t with
      | int w' s =>
        simp only [hf, Option.some.injEq] at hw hn
        cases v <;> simp at hn
        omega
      | bytes n' =>
        simp only [hf, Option.some.injEq] at hw hn
        cases v with
        | bytes b =>
          simp only at hn
          split at hn
          · simp only [Except.ok.injEq] at hn; omega
          · cases hn
        | _ => simp at hn
      | enum w' s bw ms =>
        simp only [hf, Option.some.injEq] at hw hn
        cases v <;> simp at hn
        omega
      | struct d => simp [hf] at hw
  · intro ty w s hf i
    show typeSizeStep S r ty (.int i) = .ok w
    unfold typeSizeStep
    simp [hf]
  · intro ty n hf b hb
    show typeSizeStep S r ty (.bytes b) = .ok n
    unfold typeSizeStep
    simp [hf, hb]
  · intro ty w s hf buf
    show decTypeStep S T r ty buf = _
    unfold decTypeStep
    simp [hf]
  · intro ty n hf buf hle
    show decTypeStep S T r ty buf = _
    unfold decTypeStep
    have : ¬ n > buf.length := by omega
    simp [hf, this]

theorem step_ok (hwf : WF S = true) (hr : RecOk S g r) : RecOk S (okStep S r g) (stepRec S T r) :=
  ⟨step_law hwf hr, step_ne hwf hr.ne, fun _ _ _ _ => step_scalar S T r⟩

end

/-- every fuel level satisfies the law on the admissible values -/
theorem recN_ok {S : Schema} (T : String → Bytes → Bytes) (hwf : WF S = true) :
    ∀ n, RecOk S (admN S T n) (recN S T n) := by
  intro n
  induction n with
  | zero =>
    refine ⟨?_, ?_, ?_⟩
    · apply Rec.lawOn_intro
      intro ty v b _ he
      cases he
    · intro ty _ v b he
      cases he
    · intro ty v b he
      cases he
  | succ n ih =>
    rw [recN_succ]
    exact step_ok hwf ih

end SymbolVerif.Codec

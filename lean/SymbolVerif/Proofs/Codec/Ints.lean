/- Round-trip lemmas for the integer, byte-array and enum primitives of the codec interpreter. -/
import SymbolVerif.Model.Codec.Interp
import SymbolVerif.Proofs.BytesLemmas
namespace SymbolVerif.Codec
open SymbolVerif.Bytes

theorem pow256_pos (w : Nat) : 0 < 256 ^ w := Nat.pow_pos (by decide)

theorem pow256_even {w : Nat} (h : 0 < w) : 256 ^ w = 2 * (256 ^ w / 2) := by
  cases w with
  | zero => omega
  | succ w => rw [Nat.pow_succ]; omega

/-! pure arithmetic, with the modulus abstract -/

theorem unsigned_arith (P : Nat) (i : Int) (h0 : 0 ≤ i) (h1 : i < (P : Int)) :
    ((i % (P : Int)).toNat : Int) = i ∧ (i % (P : Int)).toNat < P := by
  have e : i % (P : Int) = i := Int.emod_eq_of_lt h0 h1
  rw [e]
  refine ⟨Int.toNat_of_nonneg h0, ?_⟩
  have : ((i.toNat : Nat) : Int) < (P : Int) := by rw [Int.toNat_of_nonneg h0]; exact h1
  exact_mod_cast this

theorem signed_arith (P Hf : Nat) (hP : P = 2 * Hf) (hpos : 0 < P) (i : Int)
    (h0 : -(Hf : Int) ≤ i) (h1 : i < (Hf : Int)) :
    toSigned P (i % (P : Int)).toNat = i ∧ (i % (P : Int)).toNat < P := by
  have hPi : (P : Int) = 2 * (Hf : Int) := by exact_mod_cast hP
  by_cases hi : 0 ≤ i
  · have e : i % (P : Int) = i := Int.emod_eq_of_lt hi (by omega)
    rw [e]
    have hlt : i.toNat < P := by
      have : ((i.toNat : Nat) : Int) < (P : Int) := by rw [Int.toNat_of_nonneg hi]; omega
      exact_mod_cast this
    refine ⟨?_, hlt⟩
    unfold toSigned
    have : 2 * i.toNat < P := by
      have : ((2 * i.toNat : Nat) : Int) < (P : Int) := by
        push_cast; rw [Int.toNat_of_nonneg hi]; omega
      exact_mod_cast this
    simp only [this, if_true]
    exact Int.toNat_of_nonneg hi
  · have hnn : 0 ≤ i + (P : Int) := by omega
    have e : i % (P : Int) = i + (P : Int) := by
      have h2 : (i + (P : Int)) % (P : Int) = i + (P : Int) := Int.emod_eq_of_lt hnn (by omega)
      rw [← h2]; simp
    rw [e]
    have hlt : (i + (P : Int)).toNat < P := by
      have : (((i + (P : Int)).toNat : Nat) : Int) < (P : Int) := by rw [Int.toNat_of_nonneg hnn]; omega
      exact_mod_cast this
    refine ⟨?_, hlt⟩
    unfold toSigned
    have : ¬ 2 * (i + (P : Int)).toNat < P := by
      intro h
      have : ((2 * (i + (P : Int)).toNat : Nat) : Int) < (P : Int) := by exact_mod_cast h
      push_cast at this
      rw [Int.toNat_of_nonneg hnn] at this
      omega
    simp only [this, if_false]
    rw [Int.toNat_of_nonneg hnn]
    omega

theorem encInt_ok {w : Nat} {s : Bool} {i : Int} {b : Bytes} (h : encInt w s i = .ok b) :
    inRange w s i = true ∧ b = leBytes w (i % ((256 ^ w : Nat) : Int)).toNat := by
  unfold encInt at h
  split at h
  · exact ⟨‹_›, by cases h; rfl⟩
  · cases h

theorem encInt_length {w : Nat} {s : Bool} {i : Int} {b : Bytes} (h : encInt w s i = .ok b) : b.length = w := by
  rw [(encInt_ok h).2]; exact leBytes_length _ _

/-- what is written is read back, whatever follows it (unsigned and signed, every width) -/
theorem decInt_encInt {w : Nat} {s : Bool} {i : Int} {b : Bytes} (h : encInt w s i = .ok b) (tail : Bytes) :
    decInt w s (b ++ tail) = i := by
  obtain ⟨hr, rfl⟩ := encInt_ok h
  have hp := pow256_pos w
  generalize hP : (256 ^ w : Nat) = P at *
  have htake : ∀ n, (leBytes w n ++ tail).take w = leBytes w n := by
    intro n
    rw [List.take_append_of_le_length (by rw [leBytes_length]; exact Nat.le_refl _),
      List.take_of_length_le (by rw [leBytes_length]; exact Nat.le_refl _)]
  unfold decInt
  simp only [htake, leBytes_length]
  unfold inRange at hr
  simp only [hP] at hr
  cases s with
  | false =>
    simp only [Bool.false_eq_true, if_false, decide_eq_true_eq] at hr ⊢
    obtain ⟨e1, e2⟩ := unsigned_arith P i hr.1 hr.2
    rw [leNat_leBytes_of_lt (by rw [hP]; exact e2)]
    exact e1
  | true =>
    simp only [if_true, decide_eq_true_eq] at hr ⊢
    by_cases hw : w = 0
    · subst hw
      have : P = 1 := by rw [← hP, Nat.pow_zero]
      subst this
      simp at hr
      try omega
    · have hev := pow256_even (Nat.pos_of_ne_zero hw)
      rw [hP] at hev
      obtain ⟨e1, e2⟩ := signed_arith P (P / 2) hev hp i hr.1 hr.2
      rw [leNat_leBytes_of_lt (by rw [hP]; exact e2), hP]
      exact e1

/-- lenient unsigned reads stay in range: whatever is read could have been written -/
theorem decInt_inRange_unsigned (w : Nat) (bs : Bytes) : inRange w false (decInt w false bs) = true := by
  unfold inRange decInt
  simp only [Bool.false_eq_true, if_false, decide_eq_true_eq]
  have h := leNat_lt (bs.take w)
  have hl : (bs.take w).length ≤ w := by rw [List.length_take]; exact Nat.min_le_left _ _
  have : leNat (bs.take w) < 256 ^ w := Nat.lt_of_lt_of_le h (Nat.pow_le_pow_right (by decide) hl)
  constructor
  · exact Int.natCast_nonneg _
  · exact_mod_cast this

end SymbolVerif.Codec

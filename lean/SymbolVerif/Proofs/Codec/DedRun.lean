/-
Decode-encode direction, part 4: a successful run of `deserialize` over the members (no member laid
out before its discriminant): every member has a local, and the local is what `decPayload` returned
(or `none` when the condition read from the locals does not hold).
-/
import SymbolVerif.Proofs.Codec.DedSpec
import SymbolVerif.Proofs.Codec.StructProg
namespace SymbolVerif.Codec
open SymbolVerif.Bytes

/-- what `deserialize` holds for member `x` -/
def FieldSpec (S : Schema) (T : String → Bytes → Bytes) (r : Rec) (env : List (String × Val)) (x : Field) : Prop :=
  ∃ v, Val.get env x.name = some v ∧
    match x.cond with
    | none => PaySpec S T r env x v
    | some c => ∃ a pd, envInt env c.field = .ok a ∧ condHolds c.op c.value a = .ok pd ∧
        (if pd then PaySpec S T r env x v else v = .none)

theorem FieldSpec.mono {S : Schema} {T : String → Bytes → Bytes} {r : Rec} {env ext : List (String × Val)} {x : Field}
    (h : FieldSpec S T r env x) : FieldSpec S T r (env ++ ext) x := by
  obtain ⟨v, hv, hs⟩ := h
  refine ⟨v, get_append_some hv, ?_⟩
  cases hc : x.cond with
  | none => simp only [hc] at hs ⊢; exact hs.mono
  | some c =>
    simp only [hc] at hs ⊢
    obtain ⟨a, pd, h1, h2, h3⟩ := hs
    refine ⟨a, pd, envInt_mono h1, h2, ?_⟩
    cases pd with
    | true => simp only [if_true] at h3 ⊢; exact h3.mono
    | false => simpa using h3

/-- the state of a run of `deserialize` after the members `pre` -/
structure DRun (S : Schema) (T : String → Bytes → Bytes) (r : Rec) (pre : List Field) (st : DecState) : Prop where
  names : ∀ nv ∈ st.env, ∃ x ∈ pre, x.name = nv.1
  spec : ∀ x ∈ pre, FieldSpec S T r st.env x
  queued : st.queued = []

theorem rebase_env (d' : StructDef) (st : DecState) (idx : Nat) : (rebase d' st idx).env = st.env := by
  unfold rebase
  split
  · cases st.sizeVal <;> rfl
  · rfl

theorem rebase_queued (d' : StructDef) (st : DecState) (idx : Nat) : (rebase d' st idx).queued = st.queued := by
  unfold rebase
  split
  · cases st.sizeVal <;> rfl
  · rfl

theorem afterPlain_env (st : DecState) (f : Field) (v : Val) (adv : Nat) :
    (afterPlain st f v adv).env = st.env ++ [(f.name, v)] := by
  unfold afterPlain
  cases f.kind <;> rfl

theorem afterPlain_queued (st : DecState) (f : Field) (v : Val) (adv : Nat) :
    (afterPlain st f v adv).queued = st.queued := by
  unfold afterPlain
  cases f.kind <;> rfl

section
variable {S : Schema} {T : String → Bytes → Bytes} {r : Rec}

/-- after one more local -/
theorem DRun.snoc {fields pre post : List Field} {f : Field} (hnd : allDistinct (fields.map (·.name)) = true)
    (hsplit : fields = pre ++ f :: post) {st st' : DecState} (h : DRun S T r pre st) {v : Val}
    (henv : st'.env = st.env ++ [(f.name, v)]) (hq : st'.queued = [])
    (hspec : ∀ v', Val.get st'.env f.name = some v' → v' = v → FieldSpec S T r st'.env f) :
    DRun S T r (pre ++ [f]) st' := by
  have hne := name_ne_of_split hnd hsplit
  have hnone : Val.get st.env f.name = none := by
    apply get_none_of_names
    intro nv hnv
    obtain ⟨x, hx, hxn⟩ := h.names nv hnv
    rw [← hxn]
    exact hne x hx
  have hget : Val.get st'.env f.name = some v := by
    rw [henv, get_append_none hnone]; simp [Val.get]
  refine ⟨?_, ?_, hq⟩
  · intro nv hnv
    rw [henv] at hnv
    rcases List.mem_append.mp hnv with hnv | hnv
    · obtain ⟨x, hx, hxn⟩ := h.names nv hnv
      exact ⟨x, List.mem_append_left _ hx, hxn⟩
    · simp only [List.mem_singleton] at hnv
      subst hnv
      exact ⟨f, by simp, rfl⟩
  · intro x hx
    rcases List.mem_append.mp hx with hx | hx
    · rw [henv]; exact (h.spec x hx).mono
    · simp only [List.mem_singleton] at hx
      subst hx
      exact hspec v hget rfl

/-- one member whose condition (if any) is on an earlier member -/
theorem drun_step {fields pre post : List Field} {f : Field} (hnd : allDistinct (fields.map (·.name)) = true)
    (hsplit : fields = pre ++ f :: post)
    (hearly : ∀ c, f.cond = some c → (lookupField pre c.field).isSome = true)
    {st st' : DecState} (h : DRun S T r pre st) (d' : StructDef) (idx : Nat)
    (hstep : decFieldStep S T r d' st idx f = .ok st') :
    DRun S T r (pre ++ [f]) st' ∧ ∃ v, st'.env = st.env ++ [(f.name, v)] := by
  unfold decFieldStep at hstep
  simp only [] at hstep
  have he0 := rebase_env d' st idx
  have hq0 : (rebase d' st idx).queued = [] := by rw [rebase_queued]; exact h.queued
  generalize rebase d' st idx = st0 at hstep he0 hq0
  cases hc : f.cond with
  | none =>
    simp only [hc] at hstep
    unfold decPlainField at hstep
    obtain ⟨⟨v, adv⟩, hpay, hstep⟩ := bind_eq_ok.mp hstep
    simp only at hstep
    rw [flushQueued_none _ _ _ _ _ (by rw [afterPlain_queued, hq0]; rfl)] at hstep
    simp only [Except.ok.injEq] at hstep
    subst hstep
    refine ⟨h.snoc hnd hsplit (v := v) (by rw [afterPlain_env, he0]) (by rw [afterPlain_queued, hq0]) ?_,
      v, by rw [afterPlain_env, he0]⟩
    intro v' hv' hvv
    subst hvv
    refine ⟨v', hv', ?_⟩
    simp only [hc]
    rw [afterPlain_env]
    rw [he0] at hpay
    rw [he0]
    exact (decPayload_spec hpay).mono
  | some c =>
    simp only [hc] at hstep
    unfold decCondField at hstep
    -- the discriminant has a local
    have hsome := hearly c hc
    obtain ⟨gk, hgk⟩ := Option.isSome_iff_exists.mp hsome
    obtain ⟨hgm, hgn⟩ := lookupField_some hgk
    obtain ⟨v0, hv0, -⟩ := h.spec gk hgm
    rw [hgn, ← he0] at hv0
    simp only [hv0, Option.isSome_some, if_true] at hstep
    obtain ⟨pd, hpd, hstep⟩ := bind_eq_ok.mp hstep
    unfold condOnEnv at hpd
    obtain ⟨a, ha, hpd⟩ := bind_eq_ok.mp hpd
    rw [he0] at ha
    cases pd with
    | true =>
      simp only [if_true] at hstep
      obtain ⟨⟨v, adv⟩, hpay, hstep⟩ := bind_eq_ok.mp hstep
      simp only [pure, Except.pure, Except.ok.injEq] at hstep
      subst hstep
      refine ⟨h.snoc hnd hsplit (v := v) (by simp [he0]) (by simpa using hq0) ?_, v, by simp [he0]⟩
      intro v' hv' hvv
      subst hvv
      refine ⟨v', hv', ?_⟩
      simp only [hc]
      refine ⟨a, true, by simpa [he0] using envInt_mono ha, hpd, ?_⟩
      simp only [if_true]
      rw [he0] at hpay
      simpa [he0] using (decPayload_spec hpay).mono
    | false =>
      simp only [Bool.false_eq_true, if_false, pure, Except.pure, Except.ok.injEq] at hstep
      subst hstep
      refine ⟨h.snoc hnd hsplit (v := .none) (by simp [he0]) (by simpa using hq0) ?_, .none, by simp [he0]⟩
      intro v' hv' hvv
      subst hvv
      refine ⟨.none, hv', ?_⟩
      simp only [hc]
      exact ⟨a, false, by simpa [he0] using envInt_mono ha, hpd, by simp⟩

/-- the run over a list of members -/
theorem drun_from {fields : List Field} (hnd : allDistinct (fields.map (·.name)) = true) (d' : StructDef)
    (fs : List Field) : ∀ (pre post : List Field) (st st' : DecState) (idx : Nat),
    fields = pre ++ fs ++ post → earlyFrom pre (fs ++ post) = true → DRun S T r pre st →
    decFrom S T r d' fs idx st = .ok st' → DRun S T r (pre ++ fs) st' ∧ ∃ ext, st'.env = st.env ++ ext := by
  induction fs with
  | nil =>
    intro pre post st st' idx _ _ h hdec
    simp only [decFrom, Except.ok.injEq] at hdec
    subst hdec
    exact ⟨by simpa using h, [], by simp⟩
  | cons f fs ih =>
    intro pre post st st' idx hsplit hearly h hdec
    unfold decFrom at hdec
    obtain ⟨st1, hstep, hdec⟩ := bind_eq_ok.mp hdec
    simp only [List.cons_append, earlyFrom, Bool.and_eq_true] at hearly
    obtain ⟨h1, v, hv⟩ := drun_step hnd (post := fs ++ post) (by rw [hsplit]; simp)
      (fun c hc => by simpa [hc] using hearly.1) h d' idx hstep
    obtain ⟨h2, ext, hext⟩ := ih (pre ++ [f]) post st1 st' (idx + 1) (by rw [hsplit]; simp) hearly.2 h1 hdec
    exact ⟨by simpa using h2, (f.name, v) :: ext, by rw [hext, hv]; simp⟩

theorem DRun.init (S : Schema) (T : String → Bytes → Bytes) (r : Rec) (buf : Bytes) :
    DRun S T r [] { buf := buf, origLen := buf.length } :=
  ⟨(fun _ h => by cases h), (fun _ h => by cases h), rfl⟩

theorem drun_fields {fields : List Field} (hnd : allDistinct (fields.map (·.name)) = true) (d' : StructDef)
    (hearly : earlyFrom [] fields = true) {buf : Bytes} {st' : DecState}
    (hdec : decFields S T r d' fields buf = .ok st') : DRun S T r fields st' := by
  unfold decFields at hdec
  have := (drun_from (S := S) (T := T) (r := r) hnd d' fields [] [] _ st' 0 (by simp) (by simpa using hearly)
    (DRun.init S T r buf) hdec).1
  simpa using this

end
end SymbolVerif.Codec

/-
Emitted `deserialize`, semantics part 1: the relation between a state of the emitted program and a state of
the layout interpreter's decoder, and the statements of one member read at once.
-/
import SymbolVerif.Proofs.Codec.EmissionDesRender
import SymbolVerif.Proofs.Codec.EmissionAttr
import SymbolVerif.Proofs.Codec.EmissionEval
import SymbolVerif.Proofs.Codec.DedCtx
namespace SymbolVerif.Codec
open SymbolVerif.Bytes

/-- the local variable that holds member `f` -/
def localName (f : Field) : String := fixSizeName (printerName f.name)

theorem fixSizeName_of_ne {n : String} (h : n ≠ "size") : fixSizeName n = n := by
  unfold fixSizeName; simp [h]

theorem localNameOk_iff {n : String} : localNameOk n = true ↔ n ≠ "type" ∧ n ≠ "property" ∧ n ≠ "size" := by
  unfold localNameOk rawNameOk
  simp [and_assoc]

/-- a name the generator writes unmangled is the local of the member of that name -/
theorem localName_raw {g : Field} (h : localNameOk g.name = true) : localName g = g.name := by
  obtain ⟨h1, h2, h3⟩ := localNameOk_iff.mp h
  unfold localName
  rw [printerName_of_plain h1 h2, fixSizeName_of_ne h3]

theorem printerName_ne_size (n : String) (h : n ≠ "size") : printerName n ≠ "size" := by
  unfold printerName
  split
  · rename_i hc
    simp only [Bool.or_eq_true, beq_iff_eq] at hc
    rcases hc with rfl | rfl <;> decide
  · exact h

theorem localName_attr {f : Field} (h : f.name ≠ "size") : localName f = printerName f.name := by
  unfold localName
  exact fixSizeName_of_ne (printerName_ne_size _ h)

/-- members with different names have different locals -/
theorem localName_inj {a b : Field} (ha : mangledFree a.name = true) (hb : mangledFree b.name = true)
    (ha' : a.name ≠ "size_") (hb' : b.name ≠ "size_") (h : localName a = localName b) : a.name = b.name := by
  unfold localName fixSizeName at h
  have hpa : printerName a.name ≠ "size_" := by
    unfold printerName
    split
    · rename_i hc
      simp only [Bool.or_eq_true, beq_iff_eq] at hc
      rcases hc with hc | hc <;> rw [hc] <;> decide
    · exact ha'
  have hpb : printerName b.name ≠ "size_" := by
    unfold printerName
    split
    · rename_i hc
      simp only [Bool.or_eq_true, beq_iff_eq] at hc
      rcases hc with hc | hc <;> rw [hc] <;> decide
    · exact hb'
  by_cases h1 : printerName a.name = "size" <;> by_cases h2 : printerName b.name = "size"
  · exact printerName_inj ha hb (by rw [h1, h2])
  · simp only [h1, beq_self_eq_true, if_true, h2, beq_iff_eq, if_false] at h
    exact absurd h.symm hpb
  · simp only [h1, beq_iff_eq, if_false, h2, beq_self_eq_true, if_true] at h
    exact absurd h hpa
  · simp only [h1, h2, beq_iff_eq, if_false] at h
    exact printerName_inj ha hb h

theorem PyState.get_set (σ : PyState) (l n : String) (v : Val) :
    (σ.set l v).get n = if l == n then some v else σ.get n := by
  unfold PyState.get PyState.set
  simp only [List.find?_cons]
  cases h : (l == n) <;> simp

theorem PyState.getBuf_buffer (σ : PyState) : σ.getBuf "buffer" = .ok σ.buffer := by
  unfold PyState.getBuf; simp

theorem pyTake_nonneg (b : Bytes) {i : Int} (h : 0 ≤ i) : pyTake b i = b.take i.toNat := by
  unfold pyTake; simp [h]

theorem take_min_length {α : Type} (l : List α) (n : Nat) : l.take (min n l.length) = l.take n := by
  by_cases h : n ≤ l.length
  · rw [Nat.min_eq_left h]
  · have h' : l.length ≤ n := by omega
    rw [Nat.min_eq_right h', List.take_of_length_le h', List.take_of_length_le (Nat.le_refl _)]

theorem pySlice_nonneg (b : Bytes) {lo hi : Int} (h1 : 0 ≤ lo) (h2 : 0 ≤ hi) :
    pySlice b lo hi = (b.take hi.toNat).drop lo.toNat := by
  unfold pySlice pyIndex
  simp only [h1, h2, if_true]
  rw [take_min_length]
  by_cases hl : lo.toNat ≤ b.length
  · rw [Nat.min_eq_left hl]
  · have hl' : b.length ≤ lo.toNat := by omega
    rw [Nat.min_eq_right hl']
    rw [List.drop_eq_nil_of_le (by rw [List.length_take]; omega)]
    rw [List.drop_eq_nil_of_le (by rw [List.length_take]; omega)]

theorem pyDrop_nonneg (b : Bytes) {i : Int} (h : 0 ≤ i) : pyDrop b i = b.drop i.toNat := by
  unfold pyDrop; simp [h]

/-- the emitted program's state `σ` mirrors the decoder state `st` after the members `hid ++ pre`: `pre` are the
    members read in the current scope (they have locals), `hid` the members read by the base class's
    `_deserialize` (in the decoder's environment, but not in scope) -/
structure Sim (σ : PyState) (st : DecState) (hid pre : List Field) : Prop where
  buf : σ.buffer = st.buf
  loc : ∀ x ∈ pre, ∀ v, Val.get st.env x.name = some v → σ.get (localName x) = some v
  nonneg : ∀ x ∈ pre, x.kind.isBoundSize = true → ∀ i, Val.get st.env x.name = some (.int i) → 0 ≤ i
  names : ∀ nv ∈ st.env, ∃ x ∈ hid ++ pre, x.name = nv.1
  has : ∀ x ∈ pre, (Val.get st.env x.name).isSome = true

theorem lookupField_eq_none {fs : List Field} {n : String} (h : ∀ x ∈ fs, x.name ≠ n) : lookupField fs n = none := by
  cases hl : lookupField fs n with
  | none => rfl
  | some g => obtain ⟨hm, hn⟩ := lookupField_some hl; exact absurd hn (h g hm)

/-- a name that is not a hidden member's resolves among the members in scope -/
theorem lookupField_hid {hid pre : List Field} {n : String} (hvis : ∀ x ∈ hid, x.name ≠ n) :
    lookupField (hid ++ pre) n = lookupField pre n :=
  lookupField_append_right (lookupField_eq_none hvis)

/-- a member referenced by name: its integer local -/
theorem Sim.int {σ : PyState} {st : DecState} {full hid pre : List Field} (h : Sim σ st hid pre) {n : String} {p : FK → Bool}
    (hlk : lookupField full n = lookupField pre n)
    (href : refOk full n p = true) {i : Int} (hi : envInt st.env n = .ok i) :
    ∃ gk, gk ∈ pre ∧ gk.name = n ∧ p gk.kind = true ∧ σ.getInt (localName gk) = .ok i := by
  unfold refOk at href
  rw [hlk] at href
  cases hl : lookupField pre n with
  | none => simp [hl] at href
  | some gk =>
    simp only [hl, Bool.and_eq_true] at href
    obtain ⟨hm, hn⟩ := lookupField_some hl
    have := h.loc gk hm (.int i) (by rw [hn]; exact envInt_ok hi)
    exact ⟨gk, hm, hn, href.2, by unfold PyState.getInt; rw [this]⟩

theorem arraySize_zero (ss : List Nat) (pl : Bool) : arraySize ss 0 pl = ss.sum := by
  unfold arraySize; simp

theorem isBound_count {w : Nat} {s : Bool} {t : String} {a : Option Int} : (FK.count w s t a).isBoundSize = true := rfl
theorem isBound_byteSize {w : Nat} {s : Bool} {t : String} : (FK.byteSize w s t).isBoundSize = true := rfl
theorem isBound_sizeOf {w : Nat} {s : Bool} {t : String} : (FK.sizeOf w s t).isBoundSize = true := rfl

section
variable {S : Schema} {T : String → Bytes → Bytes} {r : Rec} {d : StructDef}

/-- what `decPayload` reads for a member, the emitted load expression reads too, and the emitted slice bound
    is the advance -/
theorem payload_sim {σ : PyState} {st : DecState} {full hid pre : List Field} (hS : Sim σ st hid pre)
    (hnn : ∀ ty b v, r.dec ty b = .ok v → v ≠ .none)
    {f : Field} (hfresh : ∀ x ∈ pre, localName x ≠ localName f)
    (hlk : ∀ n ∈ refsOf f, lookupField full n = lookupField pre n)
    {isLast : Bool} (hwf : wfFieldAt S d full f isLast = true) (hg : wfgdKind f = true)
    {src : BufSrc} (hsrc1 : ∀ ty l, f.kind = .ref ty (some l) → src = .limited l)
    (hsrc2 : ∀ ty, f.kind = .ref ty none → src = .var "buffer")
    {v : Val} {adv : Nat} (hpay : decPayload S T r st.env f st.buf = .ok (v, adv)) :
    (loadAst S f src).eval S T r σ = .ok v ∧
      (advAst f).eval r (σ.set (localName f) v) = .ok (adv : Int) := by
  unfold decPayload at hpay
  unfold loadAst advAst wfFieldAt wfgdKind at *
  have hbuf := hS.buf
  cases hk : f.kind with
  | int w s =>
    simp only [hk, Except.ok.injEq, Prod.mk.injEq] at hpay
    simp [LoadExpr.eval, AdvExpr.eval, hbuf, hpay.1, ← hpay.2]
  | reserved w s value =>
    simp only [hk] at hpay
    split at hpay
    · simp only [Except.ok.injEq, Prod.mk.injEq] at hpay
      simp [LoadExpr.eval, AdvExpr.eval, hbuf, hpay.1, ← hpay.2]
    · cases hpay
  | sizeF w =>
    simp only [hk, Except.ok.injEq, Prod.mk.injEq] at hpay
    simp [LoadExpr.eval, AdvExpr.eval, hbuf, hpay.1, ← hpay.2]
  | count w s t a =>
    simp only [hk, Except.ok.injEq, Prod.mk.injEq] at hpay
    simp [LoadExpr.eval, AdvExpr.eval, hbuf, hpay.1, ← hpay.2]
  | byteSize w s t =>
    simp only [hk, Except.ok.injEq, Prod.mk.injEq] at hpay
    simp [LoadExpr.eval, AdvExpr.eval, hbuf, hpay.1, ← hpay.2]
  | sizeOf w s t =>
    simp only [hk, Except.ok.injEq, Prod.mk.injEq] at hpay
    simp [LoadExpr.eval, AdvExpr.eval, hbuf, hpay.1, ← hpay.2]
  | sizeRef w s t dl =>
    simp only [hk, Except.ok.injEq, Prod.mk.injEq] at hpay
    simp [LoadExpr.eval, AdvExpr.eval, hbuf, hpay.1, ← hpay.2]
  | ref ty lim =>
    simp only [hk, Bool.and_eq_true, bne_iff_ne, ne_eq] at hpay hg hwf
    have hattr : localName f = printerName f.name := localName_attr hg.1.1
    have core : ∀ window, (r.dec ty window >>= fun v' => r.size ty v' >>= fun s => (.ok (v', s) : R (Val × Nat))) = .ok (v, adv) →
        r.dec ty window = .ok v ∧
        AdvExpr.eval r (σ.set (localName f) v) (AdvExpr.objSize (printerName f.name) ty) = .ok (adv : Int) := by
      intro window h
      obtain ⟨v', hd, h⟩ := bind_eq_ok.mp h
      obtain ⟨sz, hsz, h⟩ := bind_eq_ok.mp h
      simp only [Except.ok.injEq, Prod.mk.injEq] at h
      obtain ⟨rfl, rfl⟩ := h
      have hvn := hnn ty window v' hd
      refine ⟨hd, ?_⟩
      simp only [AdvExpr.eval, PyState.get_set, hattr, beq_self_eq_true, if_true]
      cases v' with
      | none => exact absurd rfl hvn
      | _ => simp [hsz, bind, Except.bind]
    cases lim with
    | none =>
      obtain ⟨hd, hadv⟩ := core st.buf hpay
      refine ⟨?_, hadv⟩
      simp [LoadExpr.eval, hsrc2 ty hk, BufSrc.eval, PyState.getBuf_buffer, hbuf, hd, bind, Except.bind]
    | some l =>
      simp only at hpay hg hwf
      obtain ⟨n, hn, hpay⟩ := bind_eq_ok.mp hpay
      obtain ⟨hd, hadv⟩ := core _ hpay
      refine ⟨?_, hadv⟩
      obtain ⟨gk, hgm, hgn, hgk, hgi⟩ := hS.int (hlk _ (by simp [refsOf, hk])) hwf hn
      obtain ⟨w', s', hkk⟩ := isSizeOf_of hgk
      have h0 : 0 ≤ n := hS.nonneg gk hgm (by rw [hkk]; rfl) n (by rw [hgn]; exact envInt_ok hn)
      have hloc : localName gk = l := by rw [← hgn]; exact localName_raw (by rw [hgn]; exact hg.2)
      rw [hloc] at hgi
      simp [LoadExpr.eval, hsrc1 ty l hk, BufSrc.eval, hgi, pyTake_nonneg _ h0, hbuf, hd, bind, Except.bind]
  | barray sf =>
    simp only [hk, Bool.and_eq_true] at hpay hg hwf
    obtain ⟨n, hn, hpay⟩ := bind_eq_ok.mp hpay
    split at hpay
    · cases hpay
    · rename_i hle
      simp only [Except.ok.injEq, Prod.mk.injEq] at hpay
      obtain ⟨rfl, rfl⟩ := hpay
      obtain ⟨gk, hgm, hgn, hgk, hgi⟩ := hS.int (hlk _ (by simp [refsOf, hk])) hwf hn
      obtain ⟨w', s', a', hkk⟩ := isCount_of hgk
      have h0 : 0 ≤ n := hS.nonneg gk hgm (by rw [hkk]; rfl) n (by rw [hgn]; exact envInt_ok hn)
      have hraw := rawNameOk_iff.mp hg.2
      have hloc : localName gk = fixSizeName sf := by
        unfold localName; rw [hgn, printerName_of_plain hraw.1 hraw.2]
      have hne : (localName f == fixSizeName sf) = false := by
        simp only [beq_eq_false_iff_ne, ne_eq]
        intro heq
        exact hfresh gk hgm (by rw [hloc, heq])
      rw [hloc] at hgi
      have hle' : ¬ n > ((st.buf.length : Nat) : Int) := by omega
      refine ⟨?_, ?_⟩
      · simp [LoadExpr.eval, hgi, hbuf, hle', pyTake_nonneg _ h0, bind, Except.bind]
      · have hgi' := hgi
        unfold PyState.getInt at hgi'
        simp only [AdvExpr.eval, PyState.getInt, PyState.get_set, hne, Bool.false_eq_true, if_false]
        cases hgv : σ.get (fixSizeName sf) with
        | none => simp [hgv] at hgi'
        | some gv =>
          cases gv <;> simp [hgv] at hgi' ⊢
          omega
  | array elem mode al pl key =>
    have hattr : localName f = printerName f.name := by
      apply localName_attr
      have := hg
      simp only [hk, Bool.and_eq_true, bne_iff_ne, ne_eq] at this
      exact this.1.1
    have hgetself : ∀ l : List Val, (σ.set (localName f) (.arr l)).get (printerName f.name) = some (.arr l) := by
      intro l; rw [PyState.get_set, hattr]; simp
    cases mode with
    | count cf =>
      simp only [hk, Bool.and_eq_true, bne_iff_ne, ne_eq, beq_iff_eq] at hpay hg hwf
      obtain ⟨-, hal, href⟩ := hwf
      subst hal
      obtain ⟨n, hn, hpay⟩ := bind_eq_ok.mp hpay
      split at hpay
      · simp [bind, Except.bind, throw, throwThe, MonadExceptOf.throw] at hpay
      · obtain ⟨l, hl, hpay⟩ := bind_eq_ok.mp hpay
        obtain ⟨ss, hss, hpay⟩ := bind_eq_ok.mp hpay
        simp only [Except.ok.injEq, Prod.mk.injEq] at hpay
        obtain ⟨rfl, rfl⟩ := hpay
        obtain ⟨gk, hgm, hgn, -, hgi⟩ := hS.int (hlk _ (by simp [refsOf, hk])) href hn
        have hloc : localName gk = cf := by rw [← hgn]; exact localName_raw (by rw [hgn]; exact hg.2)
        rw [hloc] at hgi
        refine ⟨?_, ?_⟩
        · simp [LoadExpr.eval, hgi, hbuf, hl, bind, Except.bind]
        · simp [AdvExpr.eval, hgetself, hss, bind, Except.bind, arraySize_zero]
    | sized sf =>
      simp only [hk, Bool.and_eq_true, bne_iff_ne, ne_eq, decide_eq_true_eq] at hpay hg hwf
      obtain ⟨-, hal, href⟩ := hwf
      have hal' : al ≠ 0 := by omega
      obtain ⟨n, hn, hpay⟩ := bind_eq_ok.mp hpay
      obtain ⟨l, hl, hpay⟩ := bind_eq_ok.mp hpay
      split at hpay
      · simp [bind, Except.bind, throw, throwThe, MonadExceptOf.throw] at hpay
      · simp only [Except.ok.injEq, Prod.mk.injEq] at hpay
        obtain ⟨rfl, rfl⟩ := hpay
        obtain ⟨gk, hgm, hgn, hgk, hgi⟩ := hS.int (hlk _ (by simp [refsOf, hk])) href hn
        obtain ⟨w', s', hkk⟩ := isByteSize_of hgk
        have h0 : 0 ≤ n := hS.nonneg gk hgm (by rw [hkk]; rfl) n (by rw [hgn]; exact envInt_ok hn)
        have hloc : localName gk = sf := by rw [← hgn]; exact localName_raw (by rw [hgn]; exact hg.2)
        have hne : (localName f == sf) = false := by
          simp only [beq_eq_false_iff_ne, ne_eq]
          intro heq
          exact hfresh gk hgm (by rw [hloc, heq])
        rw [hloc] at hgi
        refine ⟨?_, ?_⟩
        · rw [List.length_take] at hl
          simp [hal', LoadExpr.eval, hgi, hbuf, pyTake_nonneg _ h0, hl, bind, Except.bind]
        · have hgi' := hgi
          unfold PyState.getInt at hgi'
          simp only [AdvExpr.eval, PyState.getInt, PyState.get_set, hne, Bool.false_eq_true, if_false]
          cases hgv : σ.get sf with
          | none => simp [hgv] at hgi'
          | some gv =>
            cases gv <;> simp [hgv] at hgi' ⊢
            omega
    | fill =>
      simp only [hk, Bool.and_eq_true, bne_iff_ne, ne_eq] at hpay hg hwf
      by_cases hal : al = 0
      · subst hal
        simp only [not_true_eq_false, if_false] at hpay
        obtain ⟨l, hl, hpay⟩ := bind_eq_ok.mp hpay
        split at hpay
        · simp [bind, Except.bind, throw, throwThe, MonadExceptOf.throw] at hpay
        · obtain ⟨sorted, hsorted, hpay⟩ := bind_eq_ok.mp hpay
          cases sorted with
          | false => simp [bind, Except.bind, throw, throwThe, MonadExceptOf.throw] at hpay
          | true =>
            simp only [Bool.not_true, Bool.false_eq_true, if_false] at hpay
            obtain ⟨ss, hss, hpay⟩ := bind_eq_ok.mp hpay
            simp only [Except.ok.injEq, Prod.mk.injEq] at hpay
            obtain ⟨rfl, rfl⟩ := hpay
            refine ⟨?_, ?_⟩
            · simp only [show ((0 : Nat) != 0) = false from rfl, Bool.false_eq_true, if_false, LoadExpr.eval, hbuf, hl,
                bind, Except.bind]
              cases key with
              | none => rfl
              | some k =>
                obtain ⟨keys, hkeys, hasc⟩ := bind_eq_ok.mp hsorted
                simp only [Except.ok.injEq] at hasc
                simp only [hkeys, hasc]
                rfl
            · simp [AdvExpr.eval, hgetself, hss, bind, Except.bind, arraySize_zero]
      · simp only [hal, not_false_eq_true, if_true] at hpay
        obtain ⟨l, hl, hpay⟩ := bind_eq_ok.mp hpay
        split at hpay
        · simp [bind, Except.bind, throw, throwThe, MonadExceptOf.throw] at hpay
        · obtain ⟨ss, hss, hpay⟩ := bind_eq_ok.mp hpay
          simp only [Except.ok.injEq, Prod.mk.injEq] at hpay
          obtain ⟨rfl, rfl⟩ := hpay
          refine ⟨?_, ?_⟩
          · simp [hal, LoadExpr.eval, hbuf, hl, bind, Except.bind]
          · simp [hal, AdvExpr.eval, hgetself, hss, bind, Except.bind]

end

/-- the value written on the left of an emitted condition is the condition's value -/
theorem condValue_eval {S : Schema} {d : StructDef} {f : Field} {c : Cond} (hc : f.cond = some c)
    (hw : wfgdCond S d f = true) : (condValueAst S d c).eval S = .ok c.value := by
  unfold wfgdCond at hw
  simp only [hc] at hw
  unfold condValueAst
  cases hfind : d.fields.find? (fun g => g.name == c.field) with
  | none => simp [hfind] at hw
  | some cf =>
    simp only [hfind] at hw ⊢
    obtain ⟨n, k, cc⟩ := cf
    cases k with
    | ref ty lim =>
      simp only at hw ⊢
      cases hS : S.find ty with
      | none => rfl
      | some td =>
        cases td with
        | enum w s bw ms =>
          simp only [hS, Bool.and_eq_true, List.any_eq_true, beq_iff_eq] at hw
          obtain ⟨⟨m, hm, hmv⟩, hdist⟩ := hw
          have hfv : ∃ m', ms.find? (fun m => m.2 == c.value) = some m' ∧ m' ∈ ms ∧ m'.2 = c.value := by
            cases hfv : ms.find? (fun m => m.2 == c.value) with
            | none =>
              rw [List.find?_eq_none] at hfv
              exact absurd (by simpa using hmv) (hfv m hm)
            | some m' => exact ⟨m', rfl, List.mem_of_find?_eq_some hfv, by simpa using List.find?_some hfv⟩
          obtain ⟨m', hfm, hm'mem, hm'v⟩ := hfv
          simp only [hfm, CondValue.eval, hS, enum_find_name hdist hm'mem, hm'v]
        | _ => rfl
    | _ => rfl

theorem PyState.get_setBuf (σ : PyState) (b : String) (x : Bytes) (n : String) : (σ.setBuf b x).get n = σ.get n := by
  unfold PyState.setBuf PyState.get
  split <;> rfl

/-- assigning a local that no processed member uses keeps the relation -/
theorem Sim.set_fresh {σ : PyState} {st : DecState} {hid pre : List Field} (h : Sim σ st hid pre) {l : String} (v : Val)
    (hl : ∀ x ∈ pre, localName x ≠ l) : Sim (σ.set l v) st hid pre := by
  refine ⟨h.buf, ?_, h.nonneg, h.names, h.has⟩
  intro x hx v' hv'
  rw [PyState.get_set]
  have : (l == localName x) = false := by
    simp only [beq_eq_false_iff_ne, ne_eq]
    exact fun hh => hl x hx hh.symm
  simp only [this, Bool.false_eq_true, if_false]
  exact h.loc x hx v' hv'

end SymbolVerif.Codec

/-
Emitted-program semantics, part 3: running the emitted `size` / `serialize` statements of a class equals
the layout interpreter's `structSize` / `encStruct`.
-/
import SymbolVerif.Proofs.Codec.EmissionEval
import SymbolVerif.Proofs.Codec.StructStep
namespace SymbolVerif.Codec
open SymbolVerif.Bytes

/-- two lists related element by element -/
inductive Rel2 {α β : Type} (R : α → β → Prop) : List α → List β → Prop
  | nil : Rel2 R [] []
  | cons {a : α} {b : β} {as : List α} {bs : List β} : R a b → Rel2 R as bs → Rel2 R (a :: as) (b :: bs)

theorem forall2_append {α β : Type} {R : α → β → Prop} {a c : List α} {b e : List β}
    (h1 : Rel2 R a b) (h2 : Rel2 R c e) : Rel2 R (a ++ c) (b ++ e) := by
  induction h1 with
  | nil => exact h2
  | cons h _ ih => exact .cons h ih

theorem forall2_map_left {α β : Type} {R : α → β → Prop} (g : β → α) (fs : List β) (h : ∀ f ∈ fs, R (g f) f) :
    Rel2 R (fs.map g) fs := by
  induction fs with
  | nil => exact .nil
  | cons f fs ih => exact .cons (h f (by simp)) (ih (fun x hx => h x (by simp [hx])))

section
variable {S : Schema} {T : String → Bytes → Bytes} {r : Rec} {d : StructDef} {vs : List (String × Val)}

/-- statement by statement -/
theorem evalSize_eq (c : PyCtx) (hr : c.calls = r) (hv : c.vs = vs) (stmts : List SizeStmt) (fs : List Field)
    (h : Rel2 (fun s f => evalGuard c s.cond = condOnObject r d.fields vs f ∧
      (condOnObject r d.fields vs f = .ok true → s.expr.eval c = fieldSize r f (Val.get vs f.name))) stmts fs) :
    evalSize c stmts = sizeFrom r d vs fs := by
  induction h with
  | nil => rfl
  | @cons s f stmts fs hsf _ ih =>
    unfold evalSize sizeFrom
    rw [hsf.1, ih]
    cases hp : condOnObject r d.fields vs f with
    | error e => rfl
    | ok p =>
      cases p with
      | false => rfl
      | true =>
        simp only [bind, Except.bind, if_true]
        rw [hsf.2 hp]

theorem evalSer_eq (c : PyCtx) (stmts : List SerStmt) (fs : List Field)
    (h : Rel2 (fun s f => evalGuard c s.cond = condOnObject r d.fields vs f ∧
      (condOnObject r d.fields vs f = .ok true → s.expr.eval c = encField S T r d vs f)) stmts fs) :
    evalSer c stmts = encFrom S T r d vs fs := by
  induction h with
  | nil => rfl
  | @cons s f stmts fs hsf _ ih =>
    unfold evalSer encFrom
    rw [hsf.1, ih]
    cases hp : condOnObject r d.fields vs f with
    | error e => rfl
    | ok p =>
      cases p with
      | false => rfl
      | true =>
        simp only [bind, Except.bind, if_true]
        rw [hsf.2 hp]

end

/-- the members of the class: those of the base class, then its own -/
theorem fields_split {S : Schema} {name : String} {d : StructDef} (hw : WfStruct S name d) :
    d.fields = (match d.base with
      | some a => (match S.find a with | some (.struct da) => da.fields | _ => [])
      | none => []) ++ ownFields d := by
  unfold ownFields
  cases hb : d.base with
  | none => simp
  | some a =>
    obtain ⟨-, da, hfa, -, htake⟩ := hw.base a hb
    simp only [hfa, Option.isSome_some, if_true]
    rw [← htake]
    exact (List.take_append_drop _ _).symm

end SymbolVerif.Codec

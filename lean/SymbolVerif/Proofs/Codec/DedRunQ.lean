/-
Decode-encode direction: a successful run of `deserialize` over all members of a well-formed struct,
unions before their discriminant included: at the end every member has a local described by `FieldSpec`.
-/
import SymbolVerif.Proofs.Codec.DedFlush
import SymbolVerif.Proofs.Codec.DedCtx
namespace SymbolVerif.Codec
open SymbolVerif.Bytes

section
variable {S : Schema} {T : String → Bytes → Bytes} {r : Rec} {d : StructDef}

/-- an unconditional member -/
theorem drunq_plain (hnd : allDistinct (d.fields.map (·.name)) = true) {pre post : List Field} {f : Field}
    (hsplit : d.fields = pre ++ f :: post) (hc : f.cond = none)
    {st st' : DecState} {pend : Pend} (h : DRunQ S T r d pre st pend) (d' : StructDef) (idx : Nat)
    (hstep : decFieldStep S T r d' st idx f = .ok st') : ∃ pend', DRunQ S T r d (pre ++ [f]) st' pend' := by
  have hne := name_ne_of_split hnd hsplit
  unfold decFieldStep at hstep
  simp only [hc] at hstep
  have he0 := rebase_env d' st idx
  have hq0 := rebase_queued d' st idx
  generalize rebase d' st idx = st0 at hstep he0 hq0
  unfold decPlainField at hstep
  obtain ⟨⟨v, adv⟩, hpay, hstep⟩ := bind_eq_ok.mp hstep
  simp only at hstep
  have hps : PaySpec S T r st.env f v := by rw [← he0]; exact decPayload_spec hpay
  have hfspec : ∀ env', (∃ ext, env' = st.env ++ [(f.name, v)] ++ ext) → Val.get env' f.name = some v →
      FieldSpec S T r env' f := by
    intro env' ⟨ext, hext⟩ hget
    refine ⟨v, hget, ?_⟩
    simp only [hc]
    rw [hext, List.append_assoc]
    exact hps.mono
  by_cases hflush : ∃ w G, pend = some (f.name, w, G)
  · -- the discriminant of the parked union: its members are read back
    obtain ⟨w, G, hpend⟩ := hflush
    subst hpend
    obtain ⟨⟨temp, hq⟩, hG, hpredn, hGd, hGne, hdnf⟩ := h.qsome f.name w G rfl
    unfold flushQueued at hstep
    simp only [afterPlain_queued, hq0, hq, List.find?_cons, beq_self_eq_true] at hstep
    obtain ⟨acc, hfold, hstep⟩ := bind_eq_ok.mp hstep
    simp only [Except.ok.injEq] at hstep
    have hpred : ∀ x ∈ pre, x ∈ d.fields := fun x hx => by rw [hsplit]; exact List.mem_append_left _ hx
    have hnoneG : ∀ m ∈ G, Val.get (afterPlain st0 f v adv).env m.name = none := by
      intro m hm
      rw [afterPlain_env, he0]
      have h1 : Val.get st.env m.name = none := by
        apply h.get_none
        intro y hy hnp hyn
        have : y = m := eq_of_name_eq hnd (hpred y hy) (hpred m (hG m hm).1) hyn
        subst this
        exact hnp f.name w G rfl hm
      rw [get_append_none h1]
      apply get_none_of_names
      intro nv hnv
      simp only [List.mem_singleton] at hnv
      subst hnv
      exact fun hh => hne m (hG m hm).1 hh.symm
    obtain ⟨⟨ext, hext, hnames⟩, hspecs⟩ := flushFold_spec G _ acc hfold hGd hnoneG
    rw [afterPlain_env, he0] at hext
    have henv' : st'.env = st.env ++ [(f.name, v)] ++ ext := by rw [← hstep]; exact hext
    have hnonef : Val.get st.env f.name = none := h.get_none (fun y hy _ => hne y hy)
    refine ⟨none, ?_, ?_, ?_, ?_, fun _ _ _ hp => by cases hp⟩
    · intro nv hnv
      rw [henv'] at hnv
      rcases List.mem_append.mp hnv with hnv | hnv
      · rcases List.mem_append.mp hnv with hnv | hnv
        · obtain ⟨x, hx, hxn, -⟩ := h.names nv hnv
          exact ⟨x, List.mem_append_left _ hx, hxn, NotParked.none x⟩
        · simp only [List.mem_singleton] at hnv
          subst hnv
          exact ⟨f, by simp, rfl, NotParked.none f⟩
      · have : nv.1 ∈ ext.map (·.1) := List.mem_map_of_mem (f := (·.1)) hnv
        rw [hnames] at this
        obtain ⟨m, hm, hmn⟩ := List.mem_map.mp this
        exact ⟨m, List.mem_append_left _ (hG m hm).1, hmn, NotParked.none m⟩
    · intro x hx _
      rcases List.mem_append.mp hx with hx | hx
      · by_cases hxG : x ∈ G
        · have := hspecs x hxG
          rw [← hstep]
          exact this
        · have := h.spec x hx (fun _ _ _ hp => by
            simp only [Option.some.injEq, Prod.mk.injEq] at hp
            obtain ⟨-, -, rfl⟩ := hp
            exact hxG)
          rw [henv', List.append_assoc]
          exact this.mono
      · simp only [List.mem_singleton] at hx
        subst hx
        apply hfspec _ ⟨ext, henv'⟩
        rw [henv']
        apply get_append_some
        rw [get_append_none hnonef]
        simp [Val.get]
    · intro x hx _ c hcx
      rcases List.mem_append.mp hx with hx | hx
      · by_cases hxG : x ∈ G
        · have hcon := (hG x hxG).2
          unfold condOn at hcon
          simp only [hcx, beq_iff_eq] at hcon
          rw [hcon]
          exact lookupField_isSome_of_mem (by simp)
        · exact lookupField_isSome_append (h.resolved x hx (fun _ _ _ hp => by
            simp only [Option.some.injEq, Prod.mk.injEq] at hp
            obtain ⟨-, -, rfl⟩ := hp
            exact hxG) c hcx)
      · simp only [List.mem_singleton] at hx
        subst hx
        rw [hc] at hcx; cases hcx
    · intro _
      rw [← hstep]
      simp [hq]
  · -- nothing to read back
    have hnq : (afterPlain st0 f v adv).queued.find? (·.1 == f.name) = none := by
      rw [afterPlain_queued, hq0]
      cases hpe : pend with
      | none => simp [h.qnone hpe]
      | some q =>
        obtain ⟨dn, w, G⟩ := q
        obtain ⟨⟨temp, hq⟩, -⟩ := h.qsome dn w G hpe
        have : dn ≠ f.name := fun hh => hflush ⟨w, G, by rw [hpe, hh]⟩
        simp [hq, this]
    rw [flushQueued_none _ _ _ _ _ hnq] at hstep
    simp only [Except.ok.injEq] at hstep
    subst hstep
    refine ⟨pend, DRunQ.std hnd hsplit h (v := v) (by rw [afterPlain_env, he0]) (by rw [afterPlain_queued, hq0]) ?_
      (fun c hc' => by rw [hc] at hc'; cases hc') (fun dn w G hpe hh => hflush ⟨w, G, by rw [hpe, hh]⟩)⟩
    intro hget
    exact hfspec _ ⟨[], by rw [afterPlain_env, he0]; simp⟩ hget

/-- a conditional member: read at once when its discriminant is known, parked otherwise -/
theorem drunq_cond (hnd : allDistinct (d.fields.map (·.name)) = true) {pre post : List Field} {f : Field}
    (hsplit : d.fields = pre ++ f :: post) {c : Cond} (hc : f.cond = some c)
    (hcov : condCovered S pre f post = true)
    {st st' : DecState} {pend : Pend} (h : DRunQ S T r d pre st pend) (d' : StructDef) (idx : Nat)
    (hstep : decFieldStep S T r d' st idx f = .ok st') : ∃ pend', DRunQ S T r d (pre ++ [f]) st' pend' := by
  have hne := name_ne_of_split hnd hsplit
  have hfd : f ∈ d.fields := by rw [hsplit]; simp
  unfold decFieldStep at hstep
  simp only [hc] at hstep
  have he0 := rebase_env d' st idx
  have hq0 := rebase_queued d' st idx
  generalize rebase d' st idx = st0 at hstep he0 hq0
  unfold decCondField at hstep
  unfold condCovered at hcov
  simp only [hc] at hcov
  -- a parked member is conditional
  have hparkedcond : ∀ x, ¬ NotParked pend x → x.cond ≠ none := by
    intro x hx hxc
    apply hx
    intro dn w G hp hxG
    have := ((h.qsome dn w G hp).2.1 x hxG).2
    unfold condOn at this
    simp [hxc] at this
  by_cases hearly : (lookupField pre c.field).isSome = true
  · -- the discriminant has a local
    simp only [hearly, if_true] at hcov
    obtain ⟨gk, -, hgm, hgn, hgc, -⟩ := refOk_field (f := f) (post := post) hcov
    have hgnp : NotParked pend gk := by
      apply Classical.byContradiction
      intro hx
      exact hparkedcond gk hx hgc
    obtain ⟨v0, hv0, -⟩ := h.spec gk hgm hgnp
    rw [hgn, ← he0] at hv0
    simp only [hv0, Option.isSome_some, if_true] at hstep
    obtain ⟨pd, hpd, hstep⟩ := bind_eq_ok.mp hstep
    unfold condOnEnv at hpd
    obtain ⟨a, ha, hpd⟩ := bind_eq_ok.mp hpd
    rw [he0] at ha
    have hdn : ∀ dn w G, pend = some (dn, w, G) → f.name ≠ dn := by
      intro dn w G hpe hfn
      obtain ⟨dnf, hdm, hdn', hdc⟩ := (h.qsome dn w G hpe).2.2.2.2.2
      have : f = dnf := eq_of_name_eq hnd hfd hdm (by rw [hfn, hdn'])
      rw [this, hdc] at hc
      cases hc
    cases pd with
    | true =>
      simp only [if_true] at hstep
      obtain ⟨⟨v, adv⟩, hpay, hstep⟩ := bind_eq_ok.mp hstep
      simp only [pure, Except.pure, Except.ok.injEq] at hstep
      subst hstep
      refine ⟨pend, DRunQ.std hnd hsplit h (v := v) (by simp [he0]) (by simp [hq0]) ?_
        (fun c' hc' => by rw [hc] at hc'; cases hc'; exact hearly) hdn⟩
      intro hget
      refine ⟨v, hget, ?_⟩
      simp only [hc]
      refine ⟨a, true, by simpa [he0] using envInt_mono ha, hpd, ?_⟩
      simp only [if_true]
      rw [he0] at hpay
      simpa [he0] using (decPayload_spec hpay).mono
    | false =>
      simp only [Bool.false_eq_true, if_false, pure, Except.pure, Except.ok.injEq] at hstep
      subst hstep
      refine ⟨pend, DRunQ.std hnd hsplit h (v := .none) (by simp [he0]) (by simp [hq0]) ?_
        (fun c' hc' => by rw [hc] at hc'; cases hc'; exact hearly) hdn⟩
      intro hget
      refine ⟨.none, hget, ?_⟩
      simp only [hc]
      exact ⟨a, false, by simpa [he0] using envInt_mono ha, hpd, by simp⟩
  · -- the discriminant comes later
    simp only [hearly, Bool.false_eq_true, if_false, Bool.and_eq_true] at hcov
    obtain ⟨hdisc, hbranch⟩ := hcov
    have hlnone : lookupField pre c.field = none := by
      cases hl : lookupField pre c.field with
      | none => rfl
      | some _ => simp [hl] at hearly
    have hgetnone : Val.get st0.env c.field = none := by
      rw [he0]
      exact h.get_none (fun y hy _ => lookupField_none hlnone y hy)
    simp only [hgetnone, Option.isSome_none, Bool.false_eq_true, if_false] at hstep
    -- the discriminant member
    obtain ⟨dnf, -, hdnfm, hdnfn, hdnfc, -⟩ := refOk_field (pre := post) (f := f) (post := []) hdisc
    have hdnfd : dnf ∈ d.fields := by rw [hsplit]; simp [hdnfm]
    have hfn : f.name ≠ c.field := by
      intro hh
      have : f = dnf := eq_of_name_eq hnd hfd hdnfd (by rw [hh, hdnfn])
      rw [this, hdnfc] at hc
      cases hc
    have hcon : condOn c.field f = true := by unfold condOn; simp [hc]
    cases hpe : pend with
    | none =>
      simp only [hq0, h.qnone hpe, List.find?_nil] at hstep
      obtain ⟨⟨v, adv⟩, -, hstep⟩ := bind_eq_ok.mp hstep
      simp only [pure, Except.pure, Except.ok.injEq] at hstep
      subst hstep
      refine ⟨_, DRunQ.park hnd hsplit h (by simp [he0]) hcon hfn (lookupField_none hlnone)
        ⟨dnf, hdnfd, hdnfn, hdnfc⟩ (G0 := []) (by simp [hq0, h.qnone hpe]; rfl) (.inl ⟨hpe, rfl⟩)⟩
    | some q =>
      obtain ⟨dn, w, G⟩ := q
      obtain ⟨⟨temp, hq⟩, hG, hpredn, hGd, hGne, hdnf'⟩ := h.qsome dn w G hpe
      by_cases hcd : c.field = dn
      · simp only [hq0, hq, List.find?_cons, hcd, beq_self_eq_true, pure, Except.pure, Except.ok.injEq] at hstep
        subst hstep
        refine ⟨_, DRunQ.park hnd hsplit h (by simp [he0]) (hcd ▸ hcon) (hcd ▸ hfn) hpredn hdnf'
          (G0 := G) (temp := temp) (by simp [hcd]) (.inr ⟨w, hpe⟩)⟩
      · -- a second union while one is parked: excluded by well-formedness
        exfalso
        have hmG : ∃ m, m ∈ G := by
          cases G with
          | nil => exact absurd rfl hGne
          | cons m ms => exact ⟨m, by simp⟩
        obtain ⟨m, hm⟩ := hmG
        have hnotres : allResolved pre = true → False := by
          intro hall
          unfold allResolved at hall
          simp only [List.all_eq_true] at hall
          have hcm := (hG m hm).2
          unfold condOn at hcm
          cases hcmc : m.cond with
          | none => simp [hcmc] at hcm
          | some cm =>
            simp only [hcmc, beq_iff_eq] at hcm
            have := hall m (hG m hm).1
            simp only [hcmc, hcm] at this
            cases hl : lookupField pre dn with
            | none => simp [hl] at this
            | some x =>
              obtain ⟨hxm, hxn⟩ := lookupField_some hl
              exact hpredn x hxm hxn
        cases hgl : pre.getLast? with
        | none =>
          simp only [hgl, Bool.false_eq_true, if_false, Bool.and_eq_true] at hbranch
          exact hnotres hbranch.2
        | some gl =>
          simp only [hgl] at hbranch
          cases hcg : condOn c.field gl with
          | false =>
            simp only [hcg, Bool.false_eq_true, if_false, Bool.and_eq_true] at hbranch
            exact hnotres hbranch.2
          | true =>
            have hglpre : gl ∈ pre := List.mem_of_getLast? hgl
            unfold condOn at hcg
            cases hcgl : gl.cond with
            | none => simp [hcgl] at hcg
            | some cg =>
              simp only [hcgl, beq_iff_eq] at hcg
              by_cases hglG : gl ∈ G
              · have := (hG gl hglG).2
                unfold condOn at this
                simp only [hcgl, beq_iff_eq] at this
                exact hcd (by rw [← hcg, this])
              · have := h.resolved gl hglpre (fun dn' w' G' hp' => by
                  rw [hpe] at hp'
                  simp only [Option.some.injEq, Prod.mk.injEq] at hp'
                  obtain ⟨-, -, rfl⟩ := hp'
                  exact hglG) cg hcgl
                rw [hcg, hlnone] at this
                cases this

/-- the run over a stretch of members -/
theorem drunq_from (hnd : allDistinct (d.fields.map (·.name)) = true) (d' : StructDef) (fs : List Field) :
    ∀ (pre post : List Field) (st st' : DecState) (pend : Pend) (idx : Nat),
    d.fields = pre ++ fs ++ post → coveredFrom S pre (fs ++ post) = true → DRunQ S T r d pre st pend →
    decFrom S T r d' fs idx st = .ok st' → ∃ pend', DRunQ S T r d (pre ++ fs) st' pend' := by
  induction fs with
  | nil =>
    intro pre post st st' pend idx _ _ h hdec
    simp only [decFrom, Except.ok.injEq] at hdec
    subst hdec
    exact ⟨pend, by simpa using h⟩
  | cons f fs ih =>
    intro pre post st st' pend idx hsplit hcov h hdec
    unfold decFrom at hdec
    obtain ⟨st1, hstep, hdec⟩ := bind_eq_ok.mp hdec
    simp only [List.cons_append, coveredFrom, Bool.and_eq_true] at hcov
    have hsplit' : d.fields = pre ++ f :: (fs ++ post) := by rw [hsplit]; simp
    have h1 : ∃ pend1, DRunQ S T r d (pre ++ [f]) st1 pend1 := by
      cases hc : f.cond with
      | none => exact drunq_plain hnd hsplit' hc h d' idx hstep
      | some c => exact drunq_cond hnd hsplit' hc hcov.1 h d' idx hstep
    obtain ⟨pend1, h1⟩ := h1
    obtain ⟨pend2, h2⟩ := ih (pre ++ [f]) post st1 st' pend1 (idx + 1) (by rw [hsplit]; simp) hcov.2 h1 hdec
    exact ⟨pend2, by simpa using h2⟩

/-- after all members: every member has its local -/
theorem drunq_fields (hnd : allDistinct (d.fields.map (·.name)) = true) (hcov : coveredFrom S [] d.fields = true)
    (d' : StructDef) {buf : Bytes} {st' : DecState} (hdec : decFields S T r d' d.fields buf = .ok st') :
    ∀ x ∈ d.fields, FieldSpec S T r st'.env x := by
  unfold decFields at hdec
  have hinit : DRunQ S T r d [] { buf := buf, origLen := buf.length } none :=
    ⟨(fun _ h => by cases h), (fun _ h => by cases h), (fun _ h => by cases h), (fun _ => rfl),
      (fun _ _ _ h => by cases h)⟩
  obtain ⟨pend, h⟩ := drunq_from (S := S) (T := T) (r := r) hnd d' d.fields [] [] _ st' none 0 (by simp)
    (by simpa using hcov) hinit hdec
  simp only [List.nil_append] at h
  have hpn : pend = none := by
    cases hpe : pend with
    | none => rfl
    | some q =>
      obtain ⟨dn, w, G⟩ := q
      obtain ⟨-, -, hne, -, -, dnf, hd, hn, -⟩ := h.qsome dn w G hpe
      exact absurd hn (hne dnf hd)
  subst hpn
  exact fun x hx => h.spec x hx (NotParked.none x)

end
end SymbolVerif.Codec

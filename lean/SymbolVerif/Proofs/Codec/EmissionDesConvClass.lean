/-
Emitted `deserialize`, the converse direction, part 3: a whole class. If the emitted `deserialize` returns a value, the
layout interpreter decodes the same value from the same bytes, or refuses the bytes as outside its modelled domain.
-/
import SymbolVerif.Proofs.Codec.EmissionDesConvRun
import SymbolVerif.Proofs.Codec.EmissionDesClass
import SymbolVerif.Proofs.Codec.DedRunQ
namespace SymbolVerif.Codec
open SymbolVerif.Bytes

theorem mapM_ok_of_forall {α β : Type} (g : α → R β) (l : List α) (h : ∀ a ∈ l, ∃ b, g a = .ok b) :
    ∃ bs, l.mapM g = .ok bs := by
  induction l with
  | nil => exact ⟨[], rfl⟩
  | cons a l ih =>
    obtain ⟨b, hb⟩ := h a (by simp)
    obtain ⟨bs, hbs⟩ := ih (fun x hx => h x (List.mem_cons_of_mem _ hx))
    exact ⟨b :: bs, by simp [List.mapM_cons, hb, hbs, bind, Except.bind, pure, Except.pure]⟩

theorem objectOf_ok {d : StructDef} {env : List (String × Val)} (h : ∀ x ∈ d.fields, ∃ v, Val.get env x.name = some v) :
    ∃ vs, objectOf d env = .ok vs := by
  unfold objectOf
  apply mapM_ok_of_forall
  intro f hf
  obtain ⟨v, hv⟩ := h f (List.mem_filter.mp hf).1
  exact ⟨(f.name, v), by simp [hv]⟩

section
variable {S : Schema} {T : String → Bytes → Bytes} {r : Rec}

/-- the emitted `deserialize` of a class without base class runs through: the decoder's run over the members succeeds
    (or is refused as outside the domain) -/
theorem emitted_progress_nobase (hwf : WF S = true) (hwgd : WFGD S = true) {name : String} {d : StructDef}
    (hfind : S.find name = some (.struct d)) (hbase : d.base = none)
    (hnn : ∀ ty b v, r.dec ty b = .ok v → v ≠ .none) {ty : String} {payload : Bytes} {v : Val}
    (hem : emittedDeserialize S T r ty d payload = .ok v) : OkOrU (decFields S T r d d.fields payload) := by
  have hw := wfStruct_iff (WF_struct hwf hfind)
  have hgd := desFieldsOk_of (WFGD_struct hwgd hfind)
  have hown : ownFields d = d.fields := by unfold ownFields; simp [hbase]
  have hitems : emitDeserialize S d = newItems S d (sizeMemberOf d) d.fields {} := by
    unfold emitDeserialize
    rw [hown, emitDesLoop_newItems]
    rfl
  unfold emittedDeserialize at hem
  simp only [hbase, hitems] at hem
  obtain ⟨σ, hex, -⟩ := bind_eq_ok.mp hem
  have hS0 : Sim ({ buffer := payload } : PyState) { buf := payload, origLen := payload.length } [] [] :=
    ⟨rfl, (fun _ h => by cases h), (fun _ h => by cases h), (fun _ h => by cases h), (fun _ h => by cases h)⟩
  have hQ0 : SimQ S d (sizeMemberOf d) ({ buffer := payload } : PyState) { buf := payload, origLen := payload.length } {}
      [] [] [] none :=
    ⟨hS0, (fun x => by simp [pendList]), (fun _ h => by cases h), (fun _ h => by cases h), (fun _ h => by cases h),
      (fun _ h => by cases h), (fun _ h => by cases h), (fun _ h => by cases h), rfl, (fun _ => rfl),
      (fun _ _ h => by cases h)⟩
  unfold decFields
  exact decFrom_progressQ (S := S) (T := T) (r := r) hnn hw.names hgd (sizeMember_iff hw hgd) d
    (fun st i => rebase_no_base d hbase st i) [] d.fields [] [] _ σ _ 0 {} [] none (by simp)
    (by simpa using hw.fields) (by simpa using hw.covered) (fun _ _ _ _ x hx => by cases hx) hQ0 hex

/-- the same for a class with a base class -/
theorem emitted_progress_base (hwf : WF S = true) (hwgd : WFGD S = true) {name : String} {d : StructDef}
    (hfind : S.find name = some (.struct d)) {a : String} (hbase : d.base = some a)
    (hnn : ∀ ty b v, r.dec ty b = .ok v → v ≠ .none) {ty : String} {payload : Bytes} {v : Val}
    (hem : emittedDeserialize S T r ty d payload = .ok v) : OkOrU (decFields S T r d d.fields payload) := by
  have hw := wfStruct_iff (WF_struct hwf hfind)
  have hgs := WFGD_struct hwgd hfind
  have hgd := desFieldsOk_of hgs
  obtain ⟨da, hctx⟩ := baseCtx_of hwf hwgd hfind hbase
  obtain ⟨hfa, hwa, hbn, huncond, hgda, hsplit, hownA, hlen, htake, hvis⟩ := hctx
  have hctx : BaseCtx S d a da := ⟨hfa, hwa, hbn, huncond, hgda, hsplit, hownA, hlen, htake, hvis⟩
  have hrebA : ∀ st i, rebase da st i = st := fun st i => rebase_no_base da hbn st i
  -- what the emitted program did
  unfold emittedDeserialize at hem
  simp only [hbase, hfa] at hem
  obtain ⟨bres, hbres, hem⟩ := bind_eq_ok.mp hem
  obtain ⟨σ2, hex2, -⟩ := bind_eq_ok.mp hem
  unfold emittedBaseDeserialize at hbres
  simp only [] at hbres
  obtain ⟨σ1x, hex1x, hbres⟩ := bind_eq_ok.mp hbres
  obtain ⟨setsA, -, hbres⟩ := bind_eq_ok.mp hbres
  obtain ⟨szx, hszx, hbres⟩ := bind_eq_ok.mp hbres
  simp only [Except.ok.injEq] at hbres
  subst hbres
  simp only at hex2
  -- the decoder over the base class's members
  have hitemsA : emitDeserialize S da = newItems S da (sizeMemberOf da) da.fields {} := by
    unfold emitDeserialize
    rw [hownA, emitDesLoop_newItems]
    rfl
  have hS0 : Sim (if (ownSizeMember da).isSome then ({ buffer := payload } : PyState)
      else ({ buffer := payload } : PyState).set "size_" (.int (payload.length : Int)))
      { buf := payload, origLen := payload.length } [] [] :=
    ⟨by split <;> rfl, (fun _ h => by cases h), (fun _ h => by cases h), (fun _ h => by cases h), (fun _ h => by cases h)⟩
  have hQ0 : SimQ S da (sizeMemberOf da) _ { buf := payload, origLen := payload.length } {} [] [] [] none :=
    ⟨hS0, (fun x => by simp [pendList]), (fun _ h => by cases h), (fun _ h => by cases h), (fun _ h => by cases h),
      (fun _ h => by cases h), (fun _ h => by cases h), (fun _ h => by cases h), rfl, (fun _ => rfl),
      (fun _ _ h => by cases h)⟩
  rw [hitemsA] at hex1x
  have hprogA := decFrom_progressQ (S := S) (T := T) (r := r) hnn hwa.names hgda (sizeMember_iff hwa hgda) da hrebA []
    da.fields [] [] _ σ1x _ 0 {} [] none (by simp) (by simpa using hwa.fields) (by simpa using hwa.covered)
    (fun _ _ _ _ x hx => by cases hx) hQ0 hex1x
  rw [← hitemsA] at hex1x
  unfold decFields
  have hfields : decFrom S T r d d.fields 0 { buf := payload, origLen := payload.length } =
      (decFrom S T r da da.fields 0 { buf := payload, origLen := payload.length } >>= fun st' =>
        decFrom S T r d (ownFields d) da.fields.length st') := by
    conv => lhs; rw [hsplit]
    rw [decFrom_append, decFrom_congr d da da.fields 0 _ (fun i st' _ hi => by
      rw [rebase_before d st' (by omega), rebase_no_base da hbn])]
    simp
  rw [hfields]
  apply hprogA.bind
  intro st1 hst1'
  obtain ⟨σ1, e, hex1, hS1, hsz, hwindow, hq1⟩ := base_part hctx hwgd hbase hnn hst1'
  rw [hex1x] at hex1
  simp only [Except.ok.injEq] at hex1
  subst hex1
  rw [hszx] at hsz
  simp only [Except.ok.injEq] at hsz
  subst hsz
  rw [hwindow] at hex2
  -- the own members
  cases hownl : ownFields d with
  | nil => exact OkOrU.ok _
  | cons f rest =>
    have hinh : d.inherited = da.fields.length := by
      have h1 : da.fields.length = min d.inherited d.fields.length := by rw [← htake, List.length_take]
      have h2 : d.fields.length = da.fields.length + (ownFields d).length := by rw [hsplit]; simp
      rw [hownl] at h2
      simp only [List.length_cons] at h2
      omega
    let d0 : StructDef := { d with base := none }
    have hreb0 : ∀ st i, rebase d0 st i = st := fun st i => rebase_no_base d0 rfl st i
    have heq : decFrom S T r d (f :: rest) da.fields.length st1 =
        decFrom S T r d0 (f :: rest) d.inherited (rebase d st1 d.inherited) := by
      rw [← hinh]
      unfold decFrom
      have hstep : decFieldStep S T r d0 (rebase d st1 d.inherited) d.inherited f =
          decFieldStep S T r d st1 d.inherited f := by
        unfold decFieldStep
        rw [hreb0]
      rw [hstep]
      cases decFieldStep S T r d st1 d.inherited f with
      | error e => rfl
      | ok stm =>
        simp only [bind, Except.bind]
        exact decFrom_congr d d0 rest (d.inherited + 1) stm (fun i st' h1 _ => by
          rw [hreb0]
          unfold rebase
          have : (i == d.inherited) = false := by simp only [beq_eq_false_iff_ne, ne_eq]; omega
          simp [this])
    rw [heq, ← hownl]
    have hwf' : wfFieldsFrom S d [] (da.fields ++ ownFields d) = true := by rw [← hsplit]; exact hw.fields
    have hcov' : coveredFrom S [] (da.fields ++ ownFields d) = true := by rw [← hsplit]; exact hw.covered
    have hSc : Sim ({ buffer := (rebase d st1 d.inherited).buf } : PyState) (rebase d st1 d.inherited) da.fields [] := by
      refine ⟨rfl, (fun _ h => by cases h), (fun _ h => by cases h), ?_, (fun _ h => by cases h)⟩
      intro nv hnv
      rw [rebase_env] at hnv
      obtain ⟨x, hx, hxn⟩ := hS1.names nv hnv
      exact ⟨x, by simpa using hx, hxn⟩
    have hQc : SimQ S d (sizeMemberOf d) ({ buffer := (rebase d st1 d.inherited).buf } : PyState)
        (rebase d st1 d.inherited) {} da.fields da.fields [] none :=
      ⟨hSc, (fun x => by simp [pendList]), (fun _ h => by cases h), (fun _ h => by cases h), (fun _ h => by cases h),
        huncond, (fun _ h => by cases h), (fun _ h => by cases h), rfl, (fun _ => by rw [rebase_queued]; exact hq1),
        (fun _ _ h => by cases h)⟩
    have hitems : emitDeserialize S d = newItems S d (sizeMemberOf d) (ownFields d) {} := by
      unfold emitDeserialize
      rw [emitDesLoop_newItems]
      rfl
    rw [hitems] at hex2
    exact decFrom_progressQ (S := S) (T := T) (r := r) hnn hw.names hgd (sizeMember_iff hw hgd) d0 hreb0 da.fields
      (ownFields d) da.fields [] _ σ2 _ d.inherited {} [] none (by simpa using hsplit)
      (by simpa using wfFieldsFrom_append da.fields [] (ownFields d) hwf')
      (by simpa using coveredFrom_append da.fields [] (ownFields d) hcov') hvis hQc hex2

/-- soundness of the emitted `deserialize`: what it returns, the interpreter decodes from the same bytes -- unless the
    bytes are outside the interpreter's modelled domain (an array of more than `maxCount` elements) -/
theorem emittedDeserialize_sound (hwf : WF S = true) (hwgd : WFGD S = true) {name : String} {d : StructDef}
    (hfind : S.find name = some (.struct d))
    (hnn : ∀ ty b v, r.dec ty b = .ok v → v ≠ .none) {ty : String} {payload : Bytes} {v : Val}
    (hem : emittedDeserialize S T r ty d payload = .ok v) :
    decConcrete S T r ty d payload = .ok v ∨ decConcrete S T r ty d payload = .error .unsupported := by
  have hw := wfStruct_iff (WF_struct hwf hfind)
  have hprog : OkOrU (decFields S T r d d.fields payload) := by
    cases hb : d.base with
    | none => exact emitted_progress_nobase hwf hwgd hfind hb hnn hem
    | some a => exact emitted_progress_base hwf hwgd hfind hb hnn hem
  rcases hprog with ⟨st, hst⟩ | hst
  · left
    obtain ⟨vs, hvs⟩ := objectOf_ok (d := d) (env := st.env) (fun x hx => by
      obtain ⟨v, hv, -⟩ := drunq_fields hw.names hw.covered d hst x hx
      exact ⟨v, hv⟩)
    have hdec : decConcrete S T r ty d payload = .ok (.struct ty vs) := by
      unfold decConcrete
      simp [hst, hvs, bind, Except.bind]
    have := emittedDeserialize_of_dec hwf hwgd hfind hnn hdec
    rw [hem] at this
    simp only [Except.ok.injEq] at this
    rw [this]; exact hdec
  · right
    unfold decConcrete
    simp [hst, bind, Except.bind]

end
end SymbolVerif.Codec

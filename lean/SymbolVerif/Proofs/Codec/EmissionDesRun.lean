/-
Emitted `deserialize`, semantics part 3: the member statements of a class without forward conditions
simulate the layout interpreter's `decFrom`.
-/
import SymbolVerif.Proofs.Codec.EmissionDesStep
import SymbolVerif.Proofs.Codec.DedFactory
namespace SymbolVerif.Codec
open SymbolVerif.Bytes

theorem contains_names_iff (pre : List Field) (n : String) :
    (pre.map (·.name)).contains n = (lookupField pre n).isSome := by
  unfold lookupField
  induction pre with
  | nil => rfl
  | cons g gs ih =>
    simp only [List.map_cons, List.contains_cons, List.find?_cons]
    by_cases h : g.name = n
    · simp [h]
    · have h1 : (n == g.name) = false := by simp [Ne.symm h]
      have h2 : (g.name == n) = false := by simp [h]
      simp only [h1, Bool.false_or, h2]
      exact ih

/-- without forward conditions the generator emits one statement group per member, in order -/
theorem emitDesLoop_early (S : Schema) (d : StructDef) (sm : Option String) (fs : List Field) :
    ∀ (pre : List Field) (st : DesAstState), st.processed = pre.map (·.name) → st.queued = [] →
    earlyFrom pre fs = true →
    (emitDesLoop S d sm fs st).items = st.items ++ fs.map (fun f => DesItem.field (desFieldAst S d sm f none)) := by
  induction fs with
  | nil => intro pre st _ _ _; simp [emitDesLoop]
  | cons f rest ih =>
    intro pre st hp hq he
    simp only [earlyFrom, Bool.and_eq_true] at he
    unfold emitDesLoop
    have hrec := ih (pre ++ [f])
      (DesAstState.mk (st.items ++ [DesItem.field (desFieldAst S d sm f none)]) (st.processed ++ [f.name]) [])
      (by simp [hp]) rfl he.2
    cases hc : f.cond with
    | none =>
      simp only [hq, List.find?_nil, Option.map_none, Option.getD_none, List.map_nil, List.append_nil]
      rw [hrec]; simp
    | some c =>
      have hcon : st.processed.contains c.field = true := by
        have := he.1
        simp only [hc] at this
        rw [hp, contains_names_iff]; exact this
      simp only [hcon, if_true, hq, List.find?_nil, Option.map_none, Option.getD_none, List.map_nil, List.append_nil]
      rw [hrec]; simp

section
variable {S : Schema} {T : String → Bytes → Bytes} {r : Rec} {d : StructDef}

/-- what the simulation needs of every member of the class -/
def DesFieldsOk (S : Schema) (d : StructDef) : Prop :=
  ∀ f ∈ d.fields, mangledFree f.name = true ∧ f.name ≠ "size_" ∧ wfgdKind f = true ∧ wfgdCond S d f = true

theorem desFieldsOk_of {S : Schema} {d : StructDef} (h : wfgdStruct S d = true) : DesFieldsOk S d := by
  intro f hf
  unfold wfgdStruct at h
  simp only [List.all_eq_true, Bool.and_eq_true, bne_iff_ne, ne_eq] at h
  have := h.2 f hf
  exact ⟨this.1.1.1, this.1.1.2, this.1.2, this.2⟩

/-- the member statements of a class (no forward conditions) simulate `decFrom`; `hid` are the members read by the
    base class (in the decoder's environment, not in the scope of the statements) -/
theorem decFrom_sim (hnn : ∀ ty b v, r.dec ty b = .ok v → v ≠ .none)
    (hnd : allDistinct (d.fields.map (·.name)) = true) (hgd : DesFieldsOk S d) (sm : Option String)
    (hsm : ∀ f ∈ d.fields, (sm == some (printerName f.name)) = true ↔ ∃ w, f.kind = .sizeF w)
    (d' : StructDef) (hreb : ∀ st i, rebase d' st i = st) (hid : List Field) (fs : List Field) :
    ∀ (pre post : List Field) (σ : PyState) (st st' : DecState) (idx : Nat),
    d.fields = hid ++ pre ++ fs ++ post → wfFieldsFrom S d (hid ++ pre) (fs ++ post) = true →
    coveredFrom S (hid ++ pre) (fs ++ post) = true → earlyFrom (hid ++ pre) (fs ++ post) = true →
    (∀ f ∈ fs, ∀ n ∈ refsOf f, ∀ x ∈ hid, x.name ≠ n) →
    Sim σ st hid pre → st.queued = [] → decFrom S T r d' fs idx st = .ok st' →
    ∃ σ', execItems S T r (fs.map (fun f => DesItem.field (desFieldAst S d sm f none))) σ = .ok σ' ∧
      Sim σ' st' hid (pre ++ fs) ∧ st'.queued = [] ∧ σ'.bufs = σ.bufs ∧
      (∀ n, (∀ x ∈ fs, localName x ≠ n) → σ'.get n = σ.get n) := by
  induction fs with
  | nil =>
    intro pre post σ st st' idx _ _ _ _ _ hS hq hdec
    simp only [decFrom, Except.ok.injEq] at hdec
    subst hdec
    exact ⟨σ, rfl, by simpa using hS, hq, rfl, fun _ _ => rfl⟩
  | cons f rest ih =>
    intro pre post σ st st' idx hsplit hwf hcov hearly hvis hS hq hdec
    unfold decFrom at hdec
    obtain ⟨st1, hstep, hdec⟩ := bind_eq_ok.mp hdec
    simp only [List.cons_append, wfFieldsFrom, coveredFrom, earlyFrom, Bool.and_eq_true] at hwf hcov hearly
    have hsplit' : d.fields = (hid ++ pre) ++ f :: (rest ++ post) := by rw [hsplit]; simp
    have hfd : f ∈ d.fields := by rw [hsplit']; simp
    have hpred : ∀ x ∈ hid ++ pre, x ∈ d.fields := fun x hx => by rw [hsplit']; exact List.mem_append_left _ hx
    have hne := name_ne_of_split hnd hsplit'
    obtain ⟨hmf, hns, hgk, hgc⟩ := hgd f hfd
    have hfresh : ∀ x ∈ pre, localName x ≠ localName f := by
      intro x hx heq
      have hx' : x ∈ hid ++ pre := List.mem_append_right _ hx
      obtain ⟨hmx, hnx, -, -⟩ := hgd x (hpred x hx')
      exact hne x hx' (localName_inj hmx hmf hnx hns heq)
    have hvf := hvis f (by simp)
    have h1 : ∃ σ1, (desFieldAst S d sm f none).exec S T r σ = .ok σ1 ∧ Sim σ1 st1 hid (pre ++ [f]) ∧ st1.queued = [] ∧
        σ1.bufs = σ.bufs ∧ (∀ n, n ≠ localName f → σ1.get n = σ.get n) := by
      cases hc : f.cond with
      | none =>
        obtain ⟨σ1, h1, h2, h3, h4, h5⟩ := plain_sim hS hnn (by rw [hq]; rfl) hc hfresh hne (fun n hn => lookupField_hid (hvf n hn))
          hwf.1 hgk (hsm f hfd) (hreb st idx) hstep
        exact ⟨σ1, h1, h2, by rw [h3]; exact hq, h4, h5⟩
      | some c =>
        have hsome : (lookupField (hid ++ pre) c.field).isSome = true := by simpa [hc] using hearly.1
        have hcc := hcov.1
        unfold condCovered at hcc
        simp only [hc, hsome, if_true] at hcc
        obtain ⟨σ1, h1, h2, h3, h4, h5⟩ := cond_sim hS hnn hc hfresh hne (fun n hn => lookupField_hid (hvf n hn)) hwf.1 hgk hgc hcc (hsm f hfd) (hreb st idx) hstep
        exact ⟨σ1, h1, h2, by rw [h3]; exact hq, h4, h5⟩
    obtain ⟨σ1, hex1, hS1, hq1, hb1, hf1⟩ := h1
    obtain ⟨σ2, hex2, hS2, hq2, hb2, hf2⟩ := ih (pre ++ [f]) post σ1 st1 st' (idx + 1) (by rw [hsplit]; simp)
      (by simpa using hwf.2) (by simpa using hcov.2) (by simpa using hearly.2)
      (fun g hg => hvis g (List.mem_cons_of_mem _ hg)) hS1 hq1 hdec
    refine ⟨σ2, ?_, by simpa using hS2, hq2, by rw [hb2, hb1], ?_⟩
    · simp only [List.map_cons, execItems, DesItem.exec, hex1, bind, Except.bind]
      exact hex2
    · intro n hn
      rw [hf2 n (fun x hx => hn x (List.mem_cons_of_mem _ hx)), hf1 n (fun hh => hn f (by simp) hh.symm)]

end

end SymbolVerif.Codec

/-
Decode-encode direction, part 12: `serialize` succeeds on a decoded object, and the object is admissible.
-/
import SymbolVerif.Proofs.Codec.DedCount
namespace SymbolVerif.Codec
open SymbolVerif.Bytes

section
variable {S : Schema} {T : String → Bytes → Bytes} {g fa : String → Val → Bool} {r : Rec}
variable {name : String} {d : StructDef} {E vs : List (String × Val)}

/-- a member that `serialize` writes can be written -/
theorem DedStruct.encField_ok (h : DedStruct S T g fa r name d E vs) {f : Field} (hf : f ∈ d.fields) {v : Val}
    (hv : Val.get E f.name = some v) (hps : PaySpec S T r E f v) : ∃ bf, encField S T r d vs f = .ok bf := by
  obtain ⟨hw, hwk, -⟩ := h.wfdAt hf
  by_cases hcar : f.kind.carries = false
  · -- derived members
    rw [encField_derived S T r d vs f hcar]
    have key : ∃ i, derivedValue r d vs f.kind = .ok i ∧ inRange f.kind.width f.kind.signed i = true := by
      cases hk : f.kind with
      | int w s => simp [hk, FK.carries] at hcar
      | ref ty l => simp [hk, FK.carries] at hcar
      | barray sf => simp [hk, FK.carries] at hcar
      | array e m a p k => simp [hk, FK.carries] at hcar
      | reserved w s value =>
        exact ⟨value, rfl, by simpa [FK.width, FK.signed] using h.reserved_ok hf hk hps⟩
      | count w s t ab =>
        obtain ⟨i, hi, hr⟩ := h.count_ok hf hk hv hps
        rw [hk] at hi
        exact ⟨i, hi, by simpa [FK.width, FK.signed] using hr⟩
      | sizeF w =>
        obtain ⟨i, hi⟩ := h.sizeLike_ok hf (by simp [hk, FK.isSizeLike])
        have := h.fit_range hf (by simp [hk, FK.isSizeLike]) hi
        rw [hk] at hi this
        exact ⟨i, hi, this⟩
      | byteSize w s t =>
        obtain ⟨i, hi⟩ := h.sizeLike_ok hf (by simp [hk, FK.isSizeLike])
        have := h.fit_range hf (by simp [hk, FK.isSizeLike]) hi
        rw [hk] at hi this
        exact ⟨i, hi, this⟩
      | sizeOf w s t =>
        obtain ⟨i, hi⟩ := h.sizeLike_ok hf (by simp [hk, FK.isSizeLike])
        have := h.fit_range hf (by simp [hk, FK.isSizeLike]) hi
        rw [hk] at hi this
        exact ⟨i, hi, this⟩
      | sizeRef w s t dl =>
        obtain ⟨i, hi⟩ := h.sizeLike_ok hf (by simp [hk, FK.isSizeLike])
        have := h.fit_range hf (by simp [hk, FK.isSizeLike]) hi
        rw [hk] at hi this
        exact ⟨i, hi, this⟩
    obtain ⟨i, hi, hr⟩ := key
    obtain ⟨b, hb⟩ := encInt_of_inRange hr
    exact ⟨b, by simp [hi, hb, bind, Except.bind]⟩
  · have hcar' : f.kind.carries = true := by simpa using hcar
    have hvsv : Val.get vs f.name = some v := by rw [h.carried hf hcar', hv]
    unfold encField
    unfold PaySpec at hps
    cases hk : f.kind with
    | reserved w s value => simp [hk, FK.carries] at hcar'
    | sizeF w => simp [hk, FK.carries] at hcar'
    | count w s t a => simp [hk, FK.carries] at hcar'
    | byteSize w s t => simp [hk, FK.carries] at hcar'
    | sizeOf w s t => simp [hk, FK.carries] at hcar'
    | sizeRef w s t dl => simp [hk, FK.carries] at hcar'
    | int w s =>
      simp only [hk] at hps
      obtain ⟨view, hview⟩ := hps
      subst hview
      have hw0 : 0 < w := by simpa [hk, widthOk] using hw
      obtain ⟨b, hb⟩ := encInt_decInt_ok hw0 s view
      exact ⟨b, by simp [hvsv, hb]⟩
    | ref ty lim =>
      simp only [hk] at hps
      obtain ⟨hnn, -, b, hb, -⟩ := h.memberRef hf hk hvsv hps
      refine ⟨b, ?_⟩
      simp only [hvsv]
      cases v <;> first | exact hb | simp [Val.isNone] at hnn
    | barray sf =>
      simp only [hk] at hps
      obtain ⟨n, b, -, hvb, -⟩ := hps
      subst hvb
      exact ⟨b, by simp [hvsv]⟩
    | array elem mode al pl key =>
      simp only [hk] at hps
      obtain ⟨l, hvl, hmax, hfrom, hcnt⟩ := hps
      subst hvl
      have hm := h.memberArr hf hk hvsv hfrom
      have hmax' : ¬ l.length > maxCount := by omega
      simp only [hvsv, hmax', if_false]
      by_cases hal : al = 0
      · subst hal
        simp only [bne_self_eq_false, Bool.false_eq_true, if_false]
        obtain ⟨b, hb⟩ := encArrayPlain_ok r elem l (fun e he => by
          obtain ⟨-, b, hb, -⟩ := hm e he
          exact ⟨b, hb⟩)
        cases key with
        | none => exact ⟨b, hb⟩
        | some k =>
          -- a keyed array is a counted or a fill array: `deserialize` checked the order of the keys
          unfold wfdKind at hwk
          simp only [hk, Option.isNone_some, Bool.false_or] at hwk
          cases mode with
          | count cf =>
            obtain ⟨n, -, -, hkeys⟩ := hcnt.1 cf rfl
            obtain ⟨keys, hks, hasc⟩ := hkeys k rfl
            exact ⟨b, by simp [hks, hasc, hb, bind, Except.bind]⟩
          | fill =>
            obtain ⟨keys, hks, hasc⟩ := hcnt.2 rfl rfl k rfl
            exact ⟨b, by simp [hks, hasc, hb, bind, Except.bind]⟩
          | sized sf => simp at hwk
      · have hal' : (al != 0) = true := by simp [hal]
        simp only [hal', if_true]
        exact encArrayAligned_ok r elem al pl l (fun e he => by
          obtain ⟨-, b, hb, hs⟩ := hm e he
          exact ⟨⟨b, hb⟩, ⟨b.length, hs⟩⟩)

theorem DedStruct.encFrom_ok (h : DedStruct S T g fa r name d E vs) (fs : List Field) (hfs : ∀ f ∈ fs, f ∈ d.fields) :
    ∃ b, encFrom S T r d vs fs = .ok b := by
  induction fs with
  | nil => exact ⟨[], rfl⟩
  | cons f rest ih =>
    obtain ⟨t, ht⟩ := ih (fun x hx => hfs x (by simp [hx]))
    obtain ⟨v, p, hv, hp, -, hps⟩ := h.cond_ok (hfs f (by simp))
    unfold encFrom
    cases p with
    | false => exact ⟨[] ++ t, by simp [hp, ht, bind, Except.bind]⟩
    | true =>
      obtain ⟨bf, hbf⟩ := h.encField_ok (hfs f (by simp)) hv (hps rfl)
      exact ⟨bf ++ t, by simp [hp, hbf, ht, bind, Except.bind]⟩

end
end SymbolVerif.Codec

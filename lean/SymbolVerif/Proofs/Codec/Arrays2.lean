/-
More round-trip laws of the array readers/writers (ArrayHelpers.py): keyed (sorted) counted arrays,
fill arrays, aligned variable-size arrays, and the facts about `alignUp` / padding used by C02.
-/
import SymbolVerif.Proofs.Codec.Arrays
namespace SymbolVerif.Codec
open SymbolVerif.Bytes

/-! ### alignUp -/

theorem alignUp_spec {s a : Nat} (ha : 0 < a) :
    s ≤ alignUp s a ∧ alignUp s a < s + a ∧ alignUp s a % a = 0 := by
  unfold alignUp
  have h1 := Nat.div_add_mod (s + a - 1) a
  have h2 := Nat.mod_lt (s + a - 1) ha
  have h3 : (s + a - 1) / a * a = a * ((s + a - 1) / a) := Nat.mul_comm _ _
  refine ⟨?_, ?_, ?_⟩
  · rw [h3]; generalize a * ((s + a - 1) / a) = q at *; omega
  · rw [h3]; generalize a * ((s + a - 1) / a) = q at *; omega
  · exact Nat.mul_mod_left _ _

theorem le_alignUp {s a : Nat} (ha : 0 < a) : s ≤ alignUp s a := (alignUp_spec ha).1
theorem alignUp_lt {s a : Nat} (ha : 0 < a) : alignUp s a < s + a := (alignUp_spec ha).2.1
theorem alignUp_mod {s a : Nat} (ha : 0 < a) : alignUp s a % a = 0 := (alignUp_spec ha).2.2

theorem alignUp_of_mod {s a : Nat} (ha : 0 < a) (h : s % a = 0) : alignUp s a = s := by
  unfold alignUp
  obtain ⟨k, rfl⟩ := Nat.dvd_of_mod_eq_zero h
  have : a * k + a - 1 = a * k + (a - 1) := by omega
  rw [this, Nat.mul_add_div ha, Nat.div_eq_of_lt (by omega), Nat.add_zero, Nat.mul_comm]

theorem alignUp_idem {s a : Nat} (ha : 0 < a) : alignUp (alignUp s a) a = alignUp s a :=
  alignUp_of_mod ha (alignUp_mod ha)

theorem alignUp_zero_right (s : Nat) : alignUp s 0 = 0 := by simp [alignUp]


/-! ### keyed counted arrays -/

theorem encArrayPlain_cons_ok {r : Rec} {elem : String} {v : Val} {vs : List Val} {b : Bytes}
    (h : encArrayPlain r elem (v :: vs) = .ok b) :
    ∃ bv t, r.enc elem v = .ok bv ∧ encArrayPlain r elem vs = .ok t ∧ b = bv ++ t := by
  rw [encArrayPlain_cons] at h
  cases hv : r.enc elem v with
  | error e => simp [hv, bind, Except.bind] at h
  | ok bv =>
    cases ht : encArrayPlain r elem vs with
    | error e => simp [hv, ht, bind, Except.bind] at h
    | ok t =>
      simp only [hv, ht, bind, Except.bind, Except.ok.injEq] at h
      exact ⟨bv, t, rfl, rfl, h.symm⟩

theorem mapM_cons_ok {α β : Type} {f : α → R β} {v : α} {vs : List α} {ks : List β}
    (h : (v :: vs).mapM f = .ok ks) :
    ∃ k ks', f v = .ok k ∧ vs.mapM f = .ok ks' ∧ ks = k :: ks' := by
  rw [List.mapM_cons] at h
  cases hv : f v with
  | error e => simp [hv, bind, Except.bind] at h
  | ok k =>
    cases ht : vs.mapM f with
    | error e => simp [hv, ht, bind, Except.bind] at h
    | ok t =>
      simp only [hv, ht, bind, Except.bind, pure, Except.pure, Except.ok.injEq] at h
      exact ⟨k, t, rfl, rfl, h.symm⟩

theorem mapM_nil_ok {α β : Type} {f : α → R β} {ks : List β}
    (h : ([] : List α).mapM f = .ok ks) : ks = [] := by
  simp only [List.mapM_nil, pure, Except.pure, Except.ok.injEq] at h
  exact h.symm

theorem size_ne_zero_of_nonEmpty {r : Rec} {elem : String} (hne : r.NonEmpty elem) {v : Val} {bv : Bytes}
    (hv : r.enc elem v = .ok bv) : (bv.length == 0) = false := by
  have := hne v bv hv
  cases bv with
  | nil => exact absurd rfl this
  | cons _ _ => simp

/-- generalisation of `decArrayCount_enc_key` over the previous key and the accumulator -/
theorem decArrayCount_enc_key_aux (S : Schema) (T : String → Bytes → Bytes) (r : Rec) (hr : r.Law) (elem : String)
    (hne : r.NonEmpty elem) (k : String) (l : List Val) (keys : List (List KeyPart)) (b tail : Bytes)
    (prev : Option (List KeyPart)) (acc : List Val)
    (hk : l.mapM (sortKeyOf S T elem k) = .ok keys)
    (hs : strictlyAscending (prev.toList ++ keys) = true)
    (h : encArrayPlain r elem l = .ok b) :
    decArrayCount S T r elem (some k) l.length (b ++ tail) prev acc = .ok (acc.reverse ++ l) := by
  induction l generalizing b keys prev acc with
  | nil =>
    simp [decArrayCount]
  | cons v vs ih =>
    obtain ⟨bv, t, hv, ht, rfl⟩ := encArrayPlain_cons_ok h
    obtain ⟨k0, ks, hk0, hks, rfl⟩ := mapM_cons_ok hk
    obtain ⟨hsz, hdec⟩ := hr elem v bv hv
    have hpos := size_ne_zero_of_nonEmpty hne hv
    simp only [List.length_cons, decArrayCount, List.append_assoc, hdec, hsz, hpos, Bool.false_eq_true, if_false, hk0]
    rw [List.drop_left]
    cases prev with
    | none =>
      simp only
      rw [ih ks t (some k0) (v :: acc) hks (by simpa using hs) ht]
      simp
    | some p =>
      simp only [Option.toList_some, List.singleton_append, strictlyAscending, Bool.and_eq_true] at hs
      simp only [hs.1, if_true]
      rw [ih ks t (some k0) (v :: acc) hks (by simpa using hs.2) ht]
      simp

/-- `read_array_count ∘ write_array` with a sort key: an array whose keys are strictly ascending is read back -/
theorem decArrayCount_enc_key (S : Schema) (T : String → Bytes → Bytes) (r : Rec) (hr : r.Law) (elem : String)
    (hne : r.NonEmpty elem) (k : String) (l : List Val) (keys : List (List KeyPart)) (b tail : Bytes) (acc : List Val)
    (hk : l.mapM (sortKeyOf S T elem k) = .ok keys)
    (hs : strictlyAscending keys = true)
    (h : encArrayPlain r elem l = .ok b) :
    decArrayCount S T r elem (some k) l.length (b ++ tail) none acc = .ok (acc.reverse ++ l) :=
  decArrayCount_enc_key_aux S T r hr elem hne k l keys b tail none acc hk (by simpa using hs) h

theorem decArrayCount_unsorted_aux (S : Schema) (T : String → Bytes → Bytes) (r : Rec) (hr : r.Law) (elem : String)
    (hne : r.NonEmpty elem) (k : String) (l : List Val) (keys : List (List KeyPart)) (b tail : Bytes)
    (prev : Option (List KeyPart)) (acc : List Val)
    (hk : l.mapM (sortKeyOf S T elem k) = .ok keys)
    (hs : strictlyAscending (prev.toList ++ keys) = false)
    (h : encArrayPlain r elem l = .ok b) :
    decArrayCount S T r elem (some k) l.length (b ++ tail) prev acc = .error .unsorted := by
  induction l generalizing b keys prev acc with
  | nil =>
    have := mapM_nil_ok hk
    subst this
    cases prev <;> simp [strictlyAscending] at hs
  | cons v vs ih =>
    obtain ⟨bv, t, hv, ht, rfl⟩ := encArrayPlain_cons_ok h
    obtain ⟨k0, ks, hk0, hks, rfl⟩ := mapM_cons_ok hk
    obtain ⟨hsz, hdec⟩ := hr elem v bv hv
    have hpos := size_ne_zero_of_nonEmpty hne hv
    simp only [List.length_cons, decArrayCount, List.append_assoc, hdec, hsz, hpos, Bool.false_eq_true, if_false, hk0]
    rw [List.drop_left]
    cases prev with
    | none =>
      simp only
      exact ih ks t (some k0) (v :: acc) hks (by simpa using hs) ht
    | some p =>
      simp only [Option.toList_some, List.singleton_append, strictlyAscending, Bool.and_eq_false_iff] at hs
      by_cases hlt : keyLt p k0 = true
      · simp only []
        rw [if_pos hlt]
        rcases hs with hs | hs
        · rw [hlt] at hs; cases hs
        · exact ih ks t (some k0) (v :: acc) hks (by simpa using hs) ht
      · simp only []
        rw [if_neg hlt]

/-- bytes of a keyed array whose keys are out of order (or contain two equal keys) are rejected -/
theorem decArrayCount_unsorted (S : Schema) (T : String → Bytes → Bytes) (r : Rec) (hr : r.Law) (elem : String)
    (hne : r.NonEmpty elem) (k : String) (l : List Val) (keys : List (List KeyPart)) (b tail : Bytes) (acc : List Val)
    (hk : l.mapM (sortKeyOf S T elem k) = .ok keys)
    (hs : strictlyAscending keys = false)
    (h : encArrayPlain r elem l = .ok b) :
    decArrayCount S T r elem (some k) l.length (b ++ tail) none acc = .error .unsorted :=
  decArrayCount_unsorted_aux S T r hr elem hne k l keys b tail none acc hk (by simpa using hs) h

/-! ### fill arrays -/

theorem decArrayFill_nil (r : Rec) (elem : String) (fuel : Nat) : decArrayFill r elem fuel [] = .ok [] := by
  cases fuel <;> simp [decArrayFill]

/-- `read_array ∘ write_array` on the exact window -/
theorem decArrayFill_enc (r : Rec) (hr : r.Law) (elem : String) (hne : r.NonEmpty elem)
    (l : List Val) (b : Bytes) (h : encArrayPlain r elem l = .ok b) :
    ∀ fuel, b.length + 1 ≤ fuel → decArrayFill r elem fuel b = .ok l := by
  induction l generalizing b with
  | nil =>
    simp [encArrayPlain_nil] at h; subst h
    intro fuel _
    exact decArrayFill_nil r elem fuel
  | cons v vs ih =>
    obtain ⟨bv, t, hv, ht, rfl⟩ := encArrayPlain_cons_ok h
    obtain ⟨hsz, hdec⟩ := hr elem v bv hv
    have hpos := size_ne_zero_of_nonEmpty hne hv
    have hbv : bv ≠ [] := hne v bv hv
    intro fuel hf
    cases fuel with
    | zero => omega
    | succ f =>
      have hnemp : (bv ++ t).isEmpty = false := by
        cases bv with
        | nil => exact absurd rfl hbv
        | cons _ _ => rfl
      have hlen : 0 < bv.length := List.length_pos_iff.mpr hbv
      have hf' : t.length + 1 ≤ f := by simp only [List.length_append] at hf; omega
      simp only [decArrayFill, hnemp, Bool.false_eq_true, if_false, hdec, hsz, hpos, bind, Except.bind,
        List.drop_left, ih t ht f hf']

/-! ### aligned variable-size arrays -/

theorem zeros_length (n : Nat) : (zeros n).length = n := by simp [zeros]

/-- the pad written after an element of size `s` when `rest` follows -/
def padAfter (align : Nat) (padLast : Bool) (s : Nat) (rest : List Val) : Nat :=
  if !padLast && rest.isEmpty then 0 else alignUp s align - s

theorem encArrayAligned_cons_ok {r : Rec} {elem : String} {align : Nat} {padLast : Bool} {v : Val} {rest : List Val}
    {b : Bytes} (h : encArrayAligned r elem align padLast (v :: rest) = .ok b) :
    ∃ bv s t, r.enc elem v = .ok bv ∧ r.size elem v = .ok s ∧ encArrayAligned r elem align padLast rest = .ok t ∧
      b = bv ++ zeros (padAfter align padLast s rest) ++ t := by
  unfold encArrayAligned at h
  cases hv : r.enc elem v with
  | error e => simp [hv, bind, Except.bind] at h
  | ok bv =>
    cases hs : r.size elem v with
    | error e => simp [hv, hs, bind, Except.bind] at h
    | ok s =>
      cases ht : encArrayAligned r elem align padLast rest with
      | error e => simp [hv, hs, ht, bind, Except.bind] at h
      | ok t =>
        simp only [hv, hs, ht, bind, Except.bind, Except.ok.injEq] at h
        exact ⟨bv, s, t, rfl, rfl, rfl, h.symm⟩

theorem arraySize_nil (align : Nat) (pl : Bool) : arraySize [] align pl = 0 := by
  unfold arraySize; cases pl <;> simp

theorem arraySize_singleton {align : Nat} (ha : 0 < align) (pl : Bool) (s : Nat) :
    arraySize [s] align pl = if pl then alignUp s align else s := by
  have : (align == 0) = false := by simp; omega
  unfold arraySize; cases pl <;> simp [this]

theorem arraySize_cons_cons {align : Nat} (ha : 0 < align) (pl : Bool) (s s' : Nat) (ss : List Nat) :
    arraySize (s :: s' :: ss) align pl = alignUp s align + arraySize (s' :: ss) align pl := by
  have : (align == 0) = false := by simp; omega
  unfold arraySize; cases pl <;> simp [this, Nat.add_assoc]

theorem elemSizes_length {r : Rec} {elem : String} {l : List Val} {ss : List Nat}
    (h : elemSizes r elem l = .ok ss) : ss.length = l.length := by
  induction l generalizing ss with
  | nil => simp [elemSizes] at h; subst h; rfl
  | cons v vs ih =>
    unfold elemSizes at h
    cases hs : r.size elem v with
    | error e => simp [hs, bind, Except.bind] at h
    | ok s =>
      cases ht : elemSizes r elem vs with
      | error e => simp [hs, ht, bind, Except.bind] at h
      | ok t =>
        simp only [hs, ht, bind, Except.bind, Except.ok.injEq] at h
        subst h
        simp [ih ht]

/-- the size reported for an aligned array (`ArrayHelpers.size`) is the number of bytes written -/
theorem encArrayAligned_size (r : Rec) (hr : r.Law) (elem : String) (align : Nat) (ha : 0 < align) (padLast : Bool)
    (l : List Val) (b : Bytes) (h : encArrayAligned r elem align padLast l = .ok b) :
    ∃ ss, elemSizes r elem l = .ok ss ∧ arraySize ss align padLast = b.length := by
  induction l generalizing b with
  | nil =>
    simp [encArrayAligned] at h; subst h
    exact ⟨[], rfl, arraySize_nil _ _⟩
  | cons v vs ih =>
    obtain ⟨bv, s, t, hv, hs, ht, rfl⟩ := encArrayAligned_cons_ok h
    obtain ⟨hsz, -⟩ := hr elem v bv hv
    rw [hs] at hsz; cases hsz
    obtain ⟨ss, hss, hsum⟩ := ih t ht
    have hlen := elemSizes_length hss
    refine ⟨bv.length :: ss, by simp only [elemSizes, hs, hss, bind, Except.bind], ?_⟩
    have hle := le_alignUp (s := bv.length) ha
    cases vs with
    | nil =>
      simp [encArrayAligned] at ht; subst ht
      have : ss = [] := List.eq_nil_of_length_eq_zero (by simpa using hlen)
      subst this
      rw [arraySize_singleton ha]
      cases padLast <;> simp [padAfter, zeros_length] <;> omega
    | cons v' vs' =>
      cases ss with
      | nil => simp at hlen
      | cons s' ss' =>
        rw [arraySize_cons_cons ha, hsum]
        simp [padAfter, zeros_length]; omega

theorem decArrayAligned_nil (r : Rec) (elem : String) (align : Nat) (padLast : Bool) (fuel : Nat) :
    decArrayAligned r elem align padLast fuel [] = .ok [] := by
  cases fuel <;> simp [decArrayAligned]

theorem encArrayAligned_ne_nil {r : Rec} {elem : String} (hne : r.NonEmpty elem) {align : Nat} {padLast : Bool}
    {v : Val} {rest : List Val} {b : Bytes} (h : encArrayAligned r elem align padLast (v :: rest) = .ok b) :
    0 < b.length := by
  obtain ⟨bv, s, t, hv, -, -, rfl⟩ := encArrayAligned_cons_ok h
  have := List.length_pos_iff.mpr (hne v bv hv)
  simp only [List.length_append]; omega

/-- `read_variable_size_elements ∘ write_variable_size_elements` on the exact window: the padding after every
    element is skipped, and with `padLast = false` the last element is taken without padding -/
theorem decArrayAligned_enc (r : Rec) (hr : r.Law) (elem : String) (hne : r.NonEmpty elem)
    (align : Nat) (ha : 0 < align) (padLast : Bool)
    (l : List Val) (b : Bytes) (h : encArrayAligned r elem align padLast l = .ok b) :
    ∀ fuel, b.length + 1 ≤ fuel → decArrayAligned r elem align padLast fuel b = .ok l := by
  induction l generalizing b with
  | nil =>
    simp [encArrayAligned] at h; subst h
    intro fuel _
    exact decArrayAligned_nil r elem align padLast fuel
  | cons v vs ih =>
    have hbpos := encArrayAligned_ne_nil hne h
    obtain ⟨bv, s, t, hv, hs, ht, rfl⟩ := encArrayAligned_cons_ok h
    obtain ⟨hsz, hdec⟩ := hr elem v bv hv
    rw [hs] at hsz; cases hsz
    have hpos := size_ne_zero_of_nonEmpty hne hv
    have hlen : 0 < bv.length := List.length_pos_iff.mpr (hne v bv hv)
    have hle := le_alignUp (s := bv.length) ha
    intro fuel hf
    cases fuel with
    | zero => omega
    | succ f =>
      have hnemp : (bv ++ zeros (padAfter align padLast bv.length vs) ++ t).isEmpty = false := by
        cases hb : bv ++ zeros (padAfter align padLast bv.length vs) ++ t with
        | nil => rw [hb] at hbpos; simp at hbpos
        | cons _ _ => rfl
      have hf' : t.length + 1 ≤ f := by simp only [List.length_append] at hf; omega
      -- the number of bytes the reader advances by is exactly element + pad
      have hadv : (if (!padLast && decide (bv.length ≥ (bv ++ zeros (padAfter align padLast bv.length vs) ++ t).length)) = true
            then bv.length else alignUp bv.length align) = bv.length + padAfter align padLast bv.length vs := by
        cases vs with
        | nil =>
          simp [encArrayAligned] at ht; subst ht
          cases padLast <;> simp [padAfter, zeros_length] <;> omega
        | cons v' vs' =>
          have htpos := encArrayAligned_ne_nil hne ht
          have : ¬ (bv.length ≥ (bv ++ zeros (padAfter align padLast bv.length (v' :: vs')) ++ t).length) := by
            simp only [List.length_append]; omega
          rw [decide_eq_false this]
          simp [padAfter]; omega
      have hdrop : (bv ++ zeros (padAfter align padLast bv.length vs) ++ t).drop
          (bv.length + padAfter align padLast bv.length vs) = t := by
        have : bv.length + padAfter align padLast bv.length vs
            = (bv ++ zeros (padAfter align padLast bv.length vs)).length := by simp [zeros_length]
        rw [this, List.drop_left]
      have hfit : ¬ (bv.length + padAfter align padLast bv.length vs
          > (bv ++ zeros (padAfter align padLast bv.length vs) ++ t).length) := by
        simp only [List.length_append, zeros_length]; omega
      unfold decArrayAligned
      simp only [List.append_assoc] at hadv hdrop hfit hnemp
      simp only [hnemp, Bool.false_eq_true, if_false, List.append_assoc, hdec, hs, hpos, bind, Except.bind]
      simp only [hadv, hfit, if_false, hdrop, ih t ht f hf']

/-! ### alignment of the written bytes (C02) -/

theorem padAfter_lt {align : Nat} (ha : 0 < align) (padLast : Bool) (s : Nat) (rest : List Val) :
    padAfter align padLast s rest < align := by
  have := alignUp_lt (s := s) ha
  unfold padAfter; split <;> omega

/-- unless it is the unpadded last element, element + pad ends on a multiple of the alignment -/
theorem padAfter_aligned {align : Nat} (ha : 0 < align) (padLast : Bool) (s : Nat) (rest : List Val)
    (h : padLast = true ∨ rest ≠ []) : (s + padAfter align padLast s rest) % align = 0 := by
  have h1 := le_alignUp (s := s) ha
  have h2 := alignUp_mod (s := s) ha
  have : padAfter align padLast s rest = alignUp s align - s := by
    unfold padAfter
    rcases h with h | h
    · simp [h]
    · cases rest with
      | nil => exact absurd rfl h
      | cons _ _ => simp
  rw [this, show s + (alignUp s align - s) = alignUp s align by omega]; exact h2

/-- with `padLast`, the whole array is a multiple of the alignment long -/
theorem encArrayAligned_padding_zero (r : Rec) (hr : r.Law) (elem : String) (align : Nat) (ha : 0 < align)
    (l : List Val) (b : Bytes) (h : encArrayAligned r elem align true l = .ok b) : b.length % align = 0 := by
  induction l generalizing b with
  | nil => simp [encArrayAligned] at h; subst h; simp
  | cons v vs ih =>
    obtain ⟨bv, s, t, hv, hs, ht, rfl⟩ := encArrayAligned_cons_ok h
    obtain ⟨hsz, -⟩ := hr elem v bv hv
    rw [hs] at hsz; cases hsz
    have h1 := padAfter_aligned ha true bv.length vs (Or.inl rfl)
    have h2 := ih t ht
    simp only [List.length_append, zeros_length]
    rw [Nat.add_mod, h1, h2]; simp

/-- Anatomy of an aligned array around any one element `v`: what precedes it is the padded encoding of the
    preceding elements and has a length that is a multiple of the alignment (so `v` starts at an aligned offset);
    `v`'s encoding is followed by `padAfter … < align` zero bytes, then by the encoding of the elements after it. -/
theorem encArrayAligned_split (r : Rec) (hr : r.Law) (elem : String) (align : Nat) (ha : 0 < align) (padLast : Bool)
    (l1 : List Val) (v : Val) (l2 : List Val) (b : Bytes)
    (h : encArrayAligned r elem align padLast (l1 ++ v :: l2) = .ok b) :
    ∃ pre bv post, encArrayAligned r elem align true l1 = .ok pre ∧ r.enc elem v = .ok bv ∧
      encArrayAligned r elem align padLast l2 = .ok post ∧
      b = pre ++ bv ++ zeros (padAfter align padLast bv.length l2) ++ post ∧
      pre.length % align = 0 := by
  induction l1 generalizing b with
  | nil =>
    obtain ⟨bv, s, t, hv, hs, ht, rfl⟩ := encArrayAligned_cons_ok h
    obtain ⟨hsz, -⟩ := hr elem v bv hv
    rw [hs] at hsz; cases hsz
    exact ⟨[], bv, t, rfl, hv, ht, rfl, by simp⟩
  | cons u l1 ih =>
    rw [List.cons_append] at h
    obtain ⟨bu, s, t, hu, hs, ht, rfl⟩ := encArrayAligned_cons_ok h
    obtain ⟨hsz, -⟩ := hr elem u bu hu
    rw [hs] at hsz; cases hsz
    obtain ⟨pre, bv, post, hpre, hv, hpost, rfl, hmod⟩ := ih t ht
    have hpad : padAfter align padLast bu.length (l1 ++ v :: l2) = padAfter align true bu.length l1 := by
      cases l1 <;> simp [padAfter]
    have henc : encArrayAligned r elem align true (u :: l1)
        = .ok (bu ++ zeros (padAfter align true bu.length l1) ++ pre) := by
      simp only [encArrayAligned, hu, hs, hpre, bind, Except.bind, padAfter]
    refine ⟨_, bv, post, henc, hv, hpost, ?_, ?_⟩
    · rw [hpad]; simp only [List.append_assoc]
    · have h1 := padAfter_aligned ha true bu.length l1 (Or.inl rfl)
      simp only [List.length_append, zeros_length]
      rw [Nat.add_mod, h1, hmod]; simp

/-- every element of an aligned array starts at an offset that is a multiple of the alignment -/
theorem element_offsets_aligned (r : Rec) (hr : r.Law) (elem : String) (align : Nat) (ha : 0 < align) (padLast : Bool)
    (l : List Val) (b : Bytes) (h : encArrayAligned r elem align padLast l = .ok b) (i : Nat) (hi : i < l.length) :
    ∃ pre bv post, r.enc elem l[i] = .ok bv ∧ b = pre ++ bv ++ post ∧ pre.length % align = 0 := by
  have hl : l = l.take i ++ l[i] :: l.drop (i + 1) := by
    rw [← List.drop_eq_getElem_cons hi, List.take_append_drop]
  rw [hl] at h
  obtain ⟨pre, bv, post, -, hv, -, hb, hmod⟩ := encArrayAligned_split r hr elem align ha padLast _ _ _ b h
  exact ⟨pre, bv, zeros (padAfter align padLast bv.length (l.drop (i + 1))) ++ post, hv,
    by rw [hb]; simp only [List.append_assoc], hmod⟩

/-- the bytes between the end of an element and the start of the next one are zeros, fewer than `align`, and
    they end on a multiple of the alignment -/
theorem padding_is_zeros (r : Rec) (hr : r.Law) (elem : String) (align : Nat) (ha : 0 < align) (padLast : Bool)
    (l : List Val) (b : Bytes) (h : encArrayAligned r elem align padLast l = .ok b) (i : Nat) (hi : i < l.length) :
    ∃ pre bv pad post, r.enc elem l[i] = .ok bv ∧ b = pre ++ bv ++ zeros pad ++ post ∧ pre.length % align = 0 ∧
      pad < align ∧ (padLast = true ∨ i + 1 < l.length → (pre ++ bv ++ zeros pad).length % align = 0) ∧
      (padLast = false → i + 1 = l.length → pad = 0 ∧ post = []) := by
  have hl : l = l.take i ++ l[i] :: l.drop (i + 1) := by
    rw [← List.drop_eq_getElem_cons hi, List.take_append_drop]
  rw [hl] at h
  obtain ⟨pre, bv, post, -, hv, hpost, hb, hmod⟩ := encArrayAligned_split r hr elem align ha padLast _ _ _ b h
  refine ⟨pre, bv, _, post, hv, hb, hmod, padAfter_lt ha _ _ _, ?_, ?_⟩
  · intro hc
    have hc' : padLast = true ∨ l.drop (i + 1) ≠ [] := by
      rcases hc with hc | hc
      · exact Or.inl hc
      · refine Or.inr (fun hn => ?_)
        have := congrArg List.length hn
        simp at this; omega
    have := padAfter_aligned ha padLast bv.length _ hc'
    simp only [List.length_append, zeros_length]
    rw [Nat.add_assoc, Nat.add_mod, hmod, this]; simp
  · intro hp hlast
    have hd : l.drop (i + 1) = [] := List.drop_of_length_le (by omega)
    rw [hd] at hpost ⊢
    simp [encArrayAligned] at hpost
    exact ⟨by simp [padAfter, hp], hpost⟩

end SymbolVerif.Codec

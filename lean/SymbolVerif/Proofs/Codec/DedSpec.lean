/-
Decode-encode direction, part 3: what `deserialize` has read for a member, stated with lookups in the
locals that stay true when more locals are added.
-/
import SymbolVerif.Proofs.Codec.DedArrays
import SymbolVerif.Proofs.Codec.StructFields
namespace SymbolVerif.Codec
open SymbolVerif.Bytes

/-- what `decPayload` returned for member `f` -/
def PaySpec (S : Schema) (T : String → Bytes → Bytes) (r : Rec) (env : List (String × Val)) (f : Field) (v : Val) : Prop :=
  match f.kind with
  | .int w s => ∃ view, v = .int (decInt w s view)
  | .count w s _ _ => ∃ view, v = .int (decInt w s view)
  | .byteSize w s _ => ∃ view, v = .int (decInt w s view)
  | .sizeOf w s _ => ∃ view, v = .int (decInt w s view)
  | .sizeRef w s _ _ => ∃ view, v = .int (decInt w s view)
  | .sizeF w => ∃ view, v = .int (decInt w false view)
  | .reserved w s value => v = .int value ∧ ∃ view, decInt w s view = value
  | .ref ty _ => FromDec r ty v
  | .barray sf => ∃ n b, envInt env sf = .ok n ∧ v = .bytes b ∧ b.length = n.toNat
  | .array elem mode align _ key =>
    ∃ l, v = .arr l ∧ l.length ≤ maxCount ∧ (∀ e ∈ l, FromDec r elem e) ∧
      (∀ cf, mode = .count cf → ∃ n, envInt env cf = .ok n ∧ l.length = n.toNat ∧
        (∀ k, key = some k → ∃ keys, l.mapM (sortKeyOf S T elem k) = .ok keys ∧ strictlyAscending keys = true)) ∧
      (mode = .fill → align = 0 → ∀ k, key = some k →
        ∃ keys, l.mapM (sortKeyOf S T elem k) = .ok keys ∧ strictlyAscending keys = true)

theorem envInt_ok {env : List (String × Val)} {n : String} {i : Int} (h : envInt env n = .ok i) :
    Val.get env n = some (.int i) := by
  unfold envInt at h
  cases hv : Val.get env n with
  | none => simp [hv] at h
  | some v =>
    cases v <;> simp [hv] at h
    rw [h]

theorem envInt_mono {env ext : List (String × Val)} {n : String} {i : Int} (h : envInt env n = .ok i) :
    envInt (env ++ ext) n = .ok i :=
  envInt_of_get (get_append_some (envInt_ok h))

theorem PaySpec.mono {S : Schema} {T : String → Bytes → Bytes} {r : Rec} {env ext : List (String × Val)} {f : Field} {v : Val}
    (h : PaySpec S T r env f v) : PaySpec S T r (env ++ ext) f v := by
  unfold PaySpec at *
  cases hk : f.kind with
  | barray sf =>
    simp only [hk] at h ⊢
    obtain ⟨n, b, h1, h2, h3⟩ := h
    exact ⟨n, b, envInt_mono h1, h2, h3⟩
  | array elem mode al pl key =>
    simp only [hk] at h ⊢
    obtain ⟨l, h1, h2, h3, h4, h5⟩ := h
    refine ⟨l, h1, h2, h3, ?_, h5⟩
    intro cf hcf
    obtain ⟨n, hn1, hn2, hn3⟩ := h4 cf hcf
    exact ⟨n, envInt_mono hn1, hn2, hn3⟩
  | _ => simpa [hk] using h

theorem decPayload_spec {S : Schema} {T : String → Bytes → Bytes} {r : Rec} {env : List (String × Val)} {f : Field}
    {view : Bytes} {v : Val} {adv : Nat} (h : decPayload S T r env f view = .ok (v, adv)) : PaySpec S T r env f v := by
  unfold decPayload at h
  unfold PaySpec
  cases hk : f.kind with
  | int w s => simp only [hk, Except.ok.injEq, Prod.mk.injEq] at h ⊢; exact ⟨view, h.1.symm⟩
  | count w s t a => simp only [hk, Except.ok.injEq, Prod.mk.injEq] at h ⊢; exact ⟨view, h.1.symm⟩
  | byteSize w s t => simp only [hk, Except.ok.injEq, Prod.mk.injEq] at h ⊢; exact ⟨view, h.1.symm⟩
  | sizeOf w s t => simp only [hk, Except.ok.injEq, Prod.mk.injEq] at h ⊢; exact ⟨view, h.1.symm⟩
  | sizeRef w s t dl => simp only [hk, Except.ok.injEq, Prod.mk.injEq] at h ⊢; exact ⟨view, h.1.symm⟩
  | sizeF w => simp only [hk, Except.ok.injEq, Prod.mk.injEq] at h ⊢; exact ⟨view, h.1.symm⟩
  | reserved w s value =>
    simp only [hk] at h ⊢
    split at h
    · rename_i heq
      simp only [beq_iff_eq] at heq
      simp only [Except.ok.injEq, Prod.mk.injEq] at h
      exact ⟨by rw [← h.1, heq], view, heq⟩
    · cases h
  | ref ty lim =>
    simp only [hk] at h ⊢
    have aux : ∀ window, (r.dec ty window >>= fun v' => r.size ty v' >>= fun s => (.ok (v', s) : R (Val × Nat))) = .ok (v, adv) →
        FromDec r ty v := by
      intro window h
      obtain ⟨v', hd, h⟩ := bind_eq_ok.mp h
      obtain ⟨s, -, h⟩ := bind_eq_ok.mp h
      simp only [Except.ok.injEq, Prod.mk.injEq] at h
      rw [← h.1]
      exact ⟨window, hd⟩
    cases lim with
    | none => exact aux view h
    | some l =>
      simp only at h
      obtain ⟨n, -, h⟩ := bind_eq_ok.mp h
      exact aux _ h
  | barray sf =>
    simp only [hk] at h ⊢
    obtain ⟨n, hn, h⟩ := bind_eq_ok.mp h
    split at h
    · cases h
    · rename_i hle
      simp only [Except.ok.injEq, Prod.mk.injEq] at h
      refine ⟨n, view.take n.toNat, hn, h.1.symm, ?_⟩
      rw [List.length_take]
      omega
  | array elem mode al pl key =>
    simp only [hk] at h ⊢
    cases mode with
    | count cf =>
      simp only at h
      obtain ⟨n, hn, h⟩ := bind_eq_ok.mp h
      split at h
      · simp [bind, Except.bind, throw, throwThe, MonadExceptOf.throw] at h
      · rename_i hmax
        obtain ⟨l, hl, h⟩ := bind_eq_ok.mp h
        obtain ⟨ss, -, h⟩ := bind_eq_ok.mp h
        simp only [Except.ok.injEq, Prod.mk.injEq] at h
        obtain ⟨l', hl', hlen, hfrom, hkeys⟩ := decArrayCount_ok S T r elem key n.toNat view none [] l hl
        simp only [List.reverse_nil, List.nil_append] at hl'
        subst hl'
        refine ⟨l, h.1.symm, by omega, hfrom, ?_, fun hm => by cases hm⟩
        intro cf' hcf'
        simp only [ArrMode.count.injEq] at hcf'
        subst hcf'
        exact ⟨n, hn, hlen, fun k hk' => by simpa [chainOk] using hkeys k hk'⟩
    | sized sf =>
      simp only at h
      obtain ⟨n, hn, h⟩ := bind_eq_ok.mp h
      obtain ⟨l, hl, h⟩ := bind_eq_ok.mp h
      split at h
      · simp [bind, Except.bind, throw, throwThe, MonadExceptOf.throw] at h
      · rename_i hmax
        simp only [Except.ok.injEq, Prod.mk.injEq] at h
        exact ⟨l, h.1.symm, by omega, decArrayAligned_ok r elem al pl _ _ l hl, (fun cf hcf => by cases hcf),
          (fun hm => by cases hm)⟩
    | fill =>
      simp only at h
      split at h
      · rename_i hal
        obtain ⟨l, hl, h⟩ := bind_eq_ok.mp h
        split at h
        · simp [bind, Except.bind, throw, throwThe, MonadExceptOf.throw] at h
        · rename_i hmax
          obtain ⟨ss, -, h⟩ := bind_eq_ok.mp h
          simp only [Except.ok.injEq, Prod.mk.injEq] at h
          refine ⟨l, h.1.symm, by omega, decArrayAligned_ok r elem al pl _ _ l hl, (fun cf hcf => by cases hcf), ?_⟩
          intro _ hal0
          simp [hal0] at hal
      · obtain ⟨l, hl, h⟩ := bind_eq_ok.mp h
        split at h
        · simp [bind, Except.bind, throw, throwThe, MonadExceptOf.throw] at h
        · rename_i hmax
          obtain ⟨sorted, hsorted, h⟩ := bind_eq_ok.mp h
          split at h
          · simp [bind, Except.bind, throw, throwThe, MonadExceptOf.throw] at h
          · rename_i hs
            obtain ⟨ss, -, h⟩ := bind_eq_ok.mp h
            simp only [Except.ok.injEq, Prod.mk.injEq] at h
            refine ⟨l, h.1.symm, by omega, decArrayFill_ok r elem _ _ l hl, (fun cf hcf => by cases hcf), ?_⟩
            intro _ _ k hk'
            subst hk'
            simp only at hsorted
            obtain ⟨keys, hkeys, hsorted⟩ := bind_eq_ok.mp hsorted
            simp only [Except.ok.injEq] at hsorted
            refine ⟨keys, hkeys, ?_⟩
            rw [hsorted]
            simpa using hs

end SymbolVerif.Codec

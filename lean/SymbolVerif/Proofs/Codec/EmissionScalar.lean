/-
The emitted alias and enum classes against the interpreter's scalar codecs.
-/
import SymbolVerif.Model.Codec.EmissionScalar
import SymbolVerif.Proofs.Codec.Ints
namespace SymbolVerif.Codec
open SymbolVerif.Bytes

/-- the class of an integer alias: its method bodies are the rendered bodies of the abstract class -/
theorem intAliasClass_eq (name : String) (w : Nat) (s : Bool) :
    intAliasClass name w s =
      classLines name "(BaseValue)" [["SIZE = " ++ toString (intAliasAst name w s).size]] [
        { name := "__init__", args := [printerName (underlineName name) ++ ": int = 0"],
          body := ["super().__init__(self.SIZE, " ++ printerName (underlineName name) ++ ", " ++ name ++ ")"] },
        { annotations := ["@classmethod"], name := "deserialize", args := payloadArgs, result := name,
          body := (intAliasAst name w s).deserializeBody },
        { name := "serialize", result := "bytes", body := (intAliasAst name w s).serializeBody }] := by
  unfold intAliasClass intAliasAst ScalarAst.deserializeBody ScalarAst.serializeBody ScalarArg.renderReturn ScalarOut.renderReturn
  simp only [Bool.false_eq_true, if_false]

theorem bytesAliasClass_eq (name : String) (n : Nat) :
    bytesAliasClass name n =
      classLines name "(ByteArray)" [["SIZE = " ++ toString (bytesAliasAst name n).size]] [
        { name := "__init__", args := [printerName (underlineName name) ++ ": StrBytes = bytes(" ++ toString n ++ ")"],
          body := ["super().__init__(self.SIZE, " ++ printerName (underlineName name) ++ ", " ++ name ++ ")"] },
        { annotations := ["@property"], name := "size", result := "int", body := (bytesAliasAst name n).sizeBody.getD [] },
        { annotations := ["@classmethod"], name := "deserialize", args := payloadArgs, result := name,
          body := (bytesAliasAst name n).deserializeBody },
        { name := "serialize", result := "bytes", body := (bytesAliasAst name n).serializeBody }] := by
  unfold bytesAliasClass bytesAliasAst ScalarAst.deserializeBody ScalarAst.serializeBody ScalarAst.sizeBody ScalarArg.renderReturn
    ScalarOut.renderReturn
  simp only [Bool.false_eq_true, if_false, Option.map_some, Option.getD_some]

theorem enumClass_eq (name : String) (w : Nat) (s b : Bool) (ms : List (String × Int)) :
    enumClass name w s b ms =
      classLines name (if b then "(Flag)" else "(Enum)") (ms.map fun m => [m.1 ++ " = " ++ toString m.2]) [
        { annotations := ["@property"], name := "size", result := "int", body := (enumAst name w s b ms).sizeBody.getD [] },
        { annotations := ["@classmethod"], name := "deserialize", args := payloadArgs, result := name,
          body := (enumAst name w s b ms).deserializeBody },
        { name := "serialize", result := "bytes", body := (enumAst name w s b ms).serializeBody },
        { name := "to_json", body := ["return " ++ (if w == 8 then "str(self.value)" else "self.value")] }] := by
  unfold enumClass enumAst ScalarAst.deserializeBody ScalarAst.serializeBody ScalarAst.sizeBody ScalarArg.renderReturn
    ScalarOut.render
  simp only [if_true, Option.map_some, Option.getD_some]

theorem holds_bytes {n : Nat} {b : Bytes} (h : (ScalarCtor.byteArray n).holds (.bytes b) = true) : (b.length == n) = true := by
  unfold ScalarCtor.holds ScalarCtor.build at h
  by_cases hl : (b.length == n) = true
  · exact hl
  · simp [hl] at h

theorem holds_enum {bw : Bool} {ms : List (String × Int)} {i : Int} (h : (ScalarCtor.enum bw ms).holds (.int i) = true) :
    enumAdmits bw ms i = true := by
  unfold ScalarCtor.holds ScalarCtor.build at h
  by_cases hl : enumAdmits bw ms i = true
  · exact hl
  · simp [hl] at h

section
variable {S : Schema} {T : String → Bytes → Bytes} {r : Rec}

/-- `serialize` of an alias / enum object is the interpreter's encoding -/
theorem emittedScalarSerialize_eq {ty : String} {t : TypeDef} (hfind : S.find ty = some t) {a : ScalarAst}
    (ha : emitScalar ty t = some a) {v : Val} (hv : a.ctor.holds v = true) :
    emittedScalarSerialize a v = encTypeStep S T r ty v := by
  unfold encTypeStep
  cases t with
  | int w s =>
    simp only [emitScalar, Option.some.injEq] at ha; subst ha; unfold intAliasAst
    simp only [hfind, emittedScalarSerialize]
    cases v <;> rfl
  | bytes n =>
    simp only [emitScalar, Option.some.injEq] at ha; subst ha; unfold bytesAliasAst
    simp only [hfind, emittedScalarSerialize]
    cases v with
    | bytes b =>
      have hl := holds_bytes (show (ScalarCtor.byteArray n).holds (.bytes b) = true from hv)
      simp [hl]
    | _ => rfl
  | enum w s b ms =>
    simp only [emitScalar, Option.some.injEq] at ha; subst ha; unfold enumAst
    simp only [hfind, emittedScalarSerialize]
    cases v with
    | int i =>
      have hl := holds_enum (show (ScalarCtor.enum b ms).holds (.int i) = true from hv)
      simp [hl]
    | _ => rfl
  | struct d => simp [emitScalar] at ha

/-- `size` of an alias / enum object is the interpreter's size -/
theorem emittedScalarSize_eq {ty : String} {t : TypeDef} (hfind : S.find ty = some t) {a : ScalarAst}
    (ha : emitScalar ty t = some a) {v : Val} (hv : a.ctor.holds v = true) :
    emittedScalarSize a v = typeSizeStep S r ty v := by
  unfold typeSizeStep
  cases t with
  | int w s =>
    simp only [emitScalar, Option.some.injEq] at ha; subst ha; unfold intAliasAst
    simp only [hfind, emittedScalarSize]
    cases v <;> rfl
  | bytes n =>
    simp only [emitScalar, Option.some.injEq] at ha; subst ha; unfold bytesAliasAst
    simp only [hfind, emittedScalarSize]
    cases v with
    | bytes b =>
      have hl := holds_bytes (show (ScalarCtor.byteArray n).holds (.bytes b) = true from hv)
      simp [hl]
    | _ => rfl
  | enum w s b ms =>
    simp only [emitScalar, Option.some.injEq] at ha; subst ha; unfold enumAst
    simp only [hfind, emittedScalarSize]
    cases v <;> rfl
  | struct d => simp [emitScalar] at ha

/-- `deserialize` of an alias / enum class is the interpreter's decoding; for an integer alias declared unsigned (the
    generated constructor passes no `signed` to `BaseValue`, so a negative value read for a signed alias raises) -/
theorem emittedScalarDeserialize_eq {ty : String} {t : TypeDef} (hfind : S.find ty = some t) {a : ScalarAst}
    (ha : emitScalar ty t = some a) (hsigned : ∀ w, t ≠ .int w true) (payload : Bytes) :
    emittedScalarDeserialize a payload = decTypeStep S T r ty payload := by
  unfold decTypeStep
  cases t with
  | int w s =>
    simp only [emitScalar, Option.some.injEq] at ha; subst ha; unfold intAliasAst
    cases s with
    | true => exact absurd rfl (hsigned w)
    | false =>
      simp only [hfind, emittedScalarDeserialize, ScalarArg.eval, ScalarCtor.build, bind, Except.bind]
      have h := decInt_inRange_unsigned w payload
      unfold inRange at h
      simp only [Bool.false_eq_true, if_false, decide_eq_true_eq] at h
      rw [if_pos h]
  | bytes n =>
    simp only [emitScalar, Option.some.injEq] at ha; subst ha; unfold bytesAliasAst
    simp only [hfind, emittedScalarDeserialize, ScalarArg.eval]
    by_cases hn : n > payload.length
    · simp [hn, bind, Except.bind]
    · simp only [hn, if_false, bind, Except.bind, ScalarCtor.build]
      have : (payload.take n).length = n := by rw [List.length_take]; omega
      simp [this]
  | enum w s b ms =>
    simp only [emitScalar, Option.some.injEq] at ha; subst ha; unfold enumAst
    simp only [hfind, emittedScalarDeserialize, ScalarArg.eval, ScalarCtor.build, bind, Except.bind]
  | struct d => simp [emitScalar] at ha

end
end SymbolVerif.Codec

/-
Emitted `deserialize`, the converse direction, part 2: the run over the members of a class. When the emitted member
statements run through, the decoder's run over the same members succeeds or is refused as outside the modelled domain.
-/
import SymbolVerif.Proofs.Codec.EmissionDesConv
namespace SymbolVerif.Codec
open SymbolVerif.Bytes

section
variable {S : Schema} {T : String → Bytes → Bytes} {r : Rec} {d : StructDef} {sm : Option String}

theorem execItems_cons_ok {i : DesItem} {rest : List DesItem} {σ σ' : PyState}
    (h : execItems S T r (i :: rest) σ = .ok σ') : ∃ σ1, i.exec S T r σ = .ok σ1 ∧ execItems S T r rest σ1 = .ok σ' := by
  simp only [execItems] at h
  exact bind_eq_ok.mp h

theorem execItems_append_ok (a b : List DesItem) : ∀ (σ σ' : PyState), execItems S T r (a ++ b) σ = .ok σ' →
    ∃ σ1, execItems S T r a σ = .ok σ1 ∧ execItems S T r b σ1 = .ok σ' := by
  induction a with
  | nil => intro σ σ' h; exact ⟨σ, rfl, h⟩
  | cons i a ih =>
    intro σ σ' h
    rw [List.cons_append] at h
    obtain ⟨σm, hm, h⟩ := execItems_cons_ok h
    obtain ⟨σ1, h1, h2⟩ := ih σm σ' h
    refine ⟨σ1, ?_, h2⟩
    simp only [execItems, hm, bind, Except.bind]
    exact h1

/-- all parked members read from the temporary buffer -/
theorem flush_progress {dn : String} {fdn : Field} (hfdn : fdn.name = dn)
    (hnn : ∀ ty b v, r.dec ty b = .ok v → v ≠ .none) {base : List Field} (G2 : List Field) :
    ∀ (pre : List Field) (σ σ' : PyState) (st : DecState) (temp : Bytes),
    Sim σ st base pre → fdn ∈ pre → σ.getBuf (dn ++ "_condition") = .ok temp →
    (∀ q ∈ G2, ParkedOk S d sm dn q) →
    (∀ x ∈ pre, mangledFree x.name = true ∧ x.name ≠ "size_") →
    (∀ q ∈ G2, ∀ x ∈ base ++ pre, x.name ≠ q.name) → allDistinct (G2.map (·.name)) = true →
    execItems S T r (G2.map fun q => DesItem.field (desFieldAst S d sm q (some (dn ++ "_condition")))) σ = .ok σ' →
    ∃ acc', G2.foldlM (flushStep S T r) (st.env, temp) = .ok acc' := by
  induction G2 with
  | nil => intro _ _ _ st temp _ _ _ _ _ _ _ _; exact ⟨(st.env, temp), rfl⟩
  | cons q rest ih =>
    intro pre σ σ' st temp hS hpre hbuf hok hmf hsep hgd hex
    rw [List.map_cons] at hex
    obtain ⟨σ1, hex1, hexr⟩ := execItems_cons_ok hex
    simp only [DesItem.exec] at hex1
    have hq := hok q (by simp)
    have hne : ∀ x ∈ base ++ pre, x.name ≠ q.name := hsep q (by simp)
    have hfresh : ∀ x ∈ pre, localName x ≠ localName q := by
      intro x hx heq
      exact hne x (List.mem_append_right _ hx) (localName_inj (hmf x hx).1 hq.mf (hmf x hx).2 hq.ns heq)
    obtain ⟨acc1, hstep⟩ := flush_member_progress (T := T) hfdn hS hpre hbuf hq hfresh hex1
    obtain ⟨σ1', hex1', hS1, hbuf1⟩ := flush_member (T := T) hfdn hnn hS hpre hbuf hq hfresh hne hstep
    rw [hex1] at hex1'
    simp only [Except.ok.injEq] at hex1'
    subst hex1'
    rw [List.map_cons] at hgd
    obtain ⟨hq1, hq2⟩ := allDistinct_cons hgd
    obtain ⟨acc', hfold⟩ := ih (pre ++ [q]) σ1 σ' { st with env := acc1.1 } acc1.2 hS1 (by simp [hpre]) hbuf1
      (fun x hx => hok x (List.mem_cons_of_mem _ hx))
      (by
        intro x hx
        rcases List.mem_append.mp hx with hx | hx
        · exact hmf x hx
        · simp only [List.mem_singleton] at hx; subst hx; exact ⟨hq.mf, hq.ns⟩)
      (by
        intro q' hq' x hx
        rw [← List.append_assoc] at hx
        rcases List.mem_append.mp hx with hx | hx
        · exact hsep q' (List.mem_cons_of_mem _ hq') x hx
        · simp only [List.mem_singleton] at hx
          subst hx
          intro hh
          exact hq1 (by rw [hh]; exact List.mem_map_of_mem (f := (·.name)) hq'))
      hq2 hexr
    refine ⟨acc', ?_⟩
    simp only [List.foldlM_cons, hstep, bind, Except.bind]
    exact hfold

theorem newItems_nil (ast : DesAstState) : newItems S d sm [] ast = [] := by
  simp [newItems, emitDesLoop]

/-- the items of one member, from the one-step equation of the generator's loop -/
theorem newItems_single {f : Field} {ast ast1 : DesAstState} {X : List DesItem}
    (h1 : ∀ rest', emitDesLoop S d sm (f :: rest') ast = emitDesLoop S d sm rest' ast1) (h2 : ast1.items = ast.items ++ X) :
    newItems S d sm [f] ast = X ∧ emitDesLoop S d sm [f] ast = ast1 := by
  refine ⟨?_, ?_⟩
  · rw [newItems_step (h1 []) h2, newItems_nil, List.append_nil]
  · rw [h1 []]; simp [emitDesLoop]

variable {σ : PyState} {st : DecState} {ast : DesAstState} {full base pre rest : List Field} {pend : PendQ} {f : Field}

theorem exec_plain {σ' : PyState} (hfc : f.cond = none) (hex : (desFieldAst S d sm f none).exec S T r σ = .ok σ') :
    execStmts S T r (desFieldAst S d sm f none).core σ = .ok σ' := by
  unfold DesField.exec at hex
  have : (desFieldAst S d sm f none).cond = none := by unfold desFieldAst localCondAst; simp [hfc]
  simpa [this] using hex

/-- one member: when its emitted items run through, the decoder's step succeeds or is refused as outside the domain -/
theorem step_progress (hnn : ∀ ty b v, r.dec ty b = .ok v → v ≠ .none) {d' : StructDef} (hreb : ∀ st i, rebase d' st i = st)
    (hQ : SimQ S d sm σ st ast full base pre pend) (hc : StepCtx S d sm full f rest base) {idx : Nat} {σ1 : PyState}
    (hex : execItems S T r (newItems S d sm [f] ast) σ = .ok σ1) : OkOrU (decFieldStep S T r d' st idx f) := by
  obtain ⟨hmf, hns, hgk, hgc⟩ := hc.gd f hc.fd
  unfold decFieldStep
  rw [hreb]
  cases hfc : f.cond with
  | none =>
    simp only
    have hplainItems : ∀ (hdn : ∀ dn G, pend = some (dn, G) → dn ≠ f.name),
        OkOrU (decPlainField S T r st f) := by
      intro hdn
      have hfn := hQ.find_none hc.nefull hdn
      have hX := (newItems_single (X := [DesItem.field (desFieldAst S d sm f none)])
        (fun rest' => emitDesLoop_read_plain (S := S) (d := d) (sm := sm) rest' ast hfc) (by simp [astRead, hfn])).1
      rw [hX, execItems_single] at hex
      have hcore := core_progress (T := T) hQ.sim (hQ.lk hc) hc.wf hgk (exec_plain hfc hex)
      unfold decPlainField
      apply hcore.bind
      intro ⟨v, adv⟩ _
      have hqnone : (afterPlain st f v adv).queued.find? (·.1 == f.name) = none := by
        rw [afterPlain_queued]
        cases hp : pend with
        | none => rw [hQ.qnone hp]; rfl
        | some p =>
          obtain ⟨dn, G⟩ := p
          obtain ⟨⟨temp, h1, -⟩, -⟩ := hQ.qsome dn G hp
          rw [h1]
          have : (dn == f.name) = false := by simp only [beq_eq_false_iff_ne, ne_eq]; exact hdn dn G hp
          simp [this]
      simp only
      rw [flushQueued_none _ _ _ _ _ hqnone]
      exact OkOrU.ok _
    cases hp : pend with
    | none => exact hplainItems (fun dn G h => by rw [hp] at h; cases h)
    | some p =>
      obtain ⟨dn, G⟩ := p
      by_cases hdn : f.name = dn
      · -- the discriminant of the parked union
        subst hp
        obtain ⟨⟨temp, h1, h2⟩, h3, h4, h5, h6, h7⟩ := hQ.qsome dn G rfl
        have hX := (newItems_single (X := [DesItem.field (desFieldAst S d sm f none)] ++
            G.map (fun q => DesItem.field (desFieldAst S d sm q (some (f.name ++ "_condition")))))
          (fun rest' => emitDesLoop_read_plain (S := S) (d := d) (sm := sm) rest' ast hfc) (by simp [astRead, hdn, h3])).1
        rw [hX] at hex
        obtain ⟨σa, hexa, hexf⟩ := execItems_append_ok _ _ _ _ hex
        rw [execItems_single] at hexa
        have hcore := core_progress (T := T) hQ.sim (hQ.lk hc) hc.wf hgk (exec_plain hfc hexa)
        unfold decPlainField
        apply hcore.bind
        intro ⟨v, adv⟩ hpay
        simp only
        -- the member read by a decoder that has nothing parked, to get the relation for the flush
        let st0 : DecState := { st with queued := [] }
        have hstep0 : decFieldStep S T r d' st0 idx f = .ok (afterPlain st0 f v adv) := by
          unfold decFieldStep
          simp only [hreb, hfc]
          unfold decPlainField
          have : decPayload S T r st0.env f st0.buf = .ok (v, adv) := hpay
          simp only [this, bind, Except.bind]
          exact flushQueued_none _ _ _ _ _ (by rw [afterPlain_queued]; rfl)
        have hS0 : Sim σ st0 base pre := hQ.sim.congr rfl rfl
        obtain ⟨σa', hexa', hS1, -, hb1, -⟩ := plain_sim hS0 hnn (by rfl) hfc (hQ.fresh hc) (hQ.ne hc) (hQ.lk hc) hc.wf hgk
          (hc.hsm f hc.fd) (hreb st0 idx) hstep0
        simp only [DesItem.exec] at hexa
        rw [hexa] at hexa'
        simp only [Except.ok.injEq] at hexa'
        subst hexa'
        have hmfpre : ∀ x ∈ pre ++ [f], mangledFree x.name = true ∧ x.name ≠ "size_" := by
          intro x hx
          rcases List.mem_append.mp hx with hx | hx
          · obtain ⟨a, b, -, -⟩ := hc.gd x (hc.fullIn x (hQ.subP x hx)); exact ⟨a, b⟩
          · simp only [List.mem_singleton] at hx; subst hx; exact ⟨hmf, hns⟩
        have hsep : ∀ q ∈ G, ∀ x ∈ base ++ (pre ++ [f]), x.name ≠ q.name := by
          intro q hq' x hx
          rw [← List.append_assoc] at hx
          rcases List.mem_append.mp hx with hx | hx
          · exact hQ.sep q hq' x hx
          · simp only [List.mem_singleton] at hx
            subst hx
            exact fun hh => hc.nefull q (hQ.subG q hq') hh.symm
        rw [hdn] at hexf
        obtain ⟨acc, hfold⟩ := flush_progress (T := T) (sm := sm) (fdn := f) hdn hnn G (pre ++ [f]) σa σ1
          (afterPlain st0 f v adv) temp hS1 (by simp) (by rw [getBuf_cond_of_bufs hb1]; exact h2) h5 hmfpre hsep hQ.gd hexf
        have henv0 : (afterPlain st0 f v adv).env = (afterPlain st f v adv).env := by
          rw [afterPlain_env, afterPlain_env]
        rw [henv0] at hfold
        unfold flushQueued
        have hq : (afterPlain st f v adv).queued = [(dn, temp, G)] := by rw [afterPlain_queued, h1]
        simp only [hq, List.find?_cons, hdn, beq_self_eq_true, hfold, bind, Except.bind]
        exact OkOrU.ok _
      · refine hplainItems ?_
        intro dn' G' h
        rw [hp] at h
        simp only [Option.some.injEq, Prod.mk.injEq] at h
        rw [← h.1]
        exact fun hh => hdn hh.symm
  | some c =>
    simp only
    cases hl : lookupField full c.field with
    | some gk =>
      have hearly : refOk full c.field (discKindOk c) = true := by
        have := hc.cov
        unfold condCovered at this
        simpa [hfc, hl] using this
      have hdn := hQ.cond_not_disc hc hfc
      have hproc : ast.processed.contains c.field = true := by
        obtain ⟨g, hlg, hgcn, -⟩ := refOk_some hearly
        have hlp := hQ.lk hc c.field (by simp [refsOf, hfc])
        rw [hlg] at hlp
        obtain ⟨hgm, hgn⟩ := lookupField_some hlp.symm
        have := hQ.procUn g hgm hgcn
        rw [hgn] at this
        simpa using this
      have hfn := hQ.find_none hc.nefull hdn
      have hX := (newItems_single (X := [DesItem.field (desFieldAst S d sm f none)])
        (fun rest' => emitDesLoop_read_cond (S := S) (d := d) (sm := sm) rest' ast hfc hproc) (by simp [astRead, hfn])).1
      rw [hX, execItems_single] at hex
      exact cond_progress (T := T) hQ.sim hfc (hQ.fresh hc) (hQ.lk hc) hc.wf hgk hgc hearly hex
    | none =>
      obtain ⟨hproc, henv, hpk, hfcf, hdisc, hsame⟩ := forward_facts hQ hc hfc hl
      have hcf := lookupField_none hl
      unfold decCondField
      simp only [henv, Option.isSome_none, Bool.false_eq_true, if_false]
      cases hp : pend with
      | none =>
        subst hp
        have hqn := hQ.qnone rfl
        simp only [hqn, List.find?_nil]
        have hfn : (ast.queued.find? (·.1 == c.field)).isSome = false := by
          rw [hQ.find_none hcf (fun dn G h => by cases h)]; rfl
        have hX := (newItems_single (X := [.park (printerName f.name) c.field (loadAst S f (.var "buffer"))])
          (fun rest' => emitDesLoop_park (S := S) (d := d) (sm := sm) rest' ast hfc hproc hfn) rfl).1
        rw [hX, execItems_single] at hex
        obtain ⟨t, hk⟩ := hpk.kind
        rw [decPayload_ref hk]
        unfold loadAst at hex
        simp only [hk, DesItem.exec, LoadExpr.eval, BufSrc.eval, PyState.getBuf_buffer, bind, Except.bind] at hex
        rw [← hQ.sim.buf]
        cases hd : r.dec t σ.buffer with
        | error e => simp [hd] at hex
        | ok v =>
          simp only [hd] at hex
          have hvn := hnn t _ _ hd
          cases hsz : r.size t v with
          | ok sz => simp only [hsz, bind, Except.bind, pure, Except.pure]; exact OkOrU.ok _
          | error e => cases v <;> simp [hsz] at hex
      | some p =>
        obtain ⟨dn, G⟩ := p
        subst hp
        have hdn := hsame dn G rfl
        subst hdn
        obtain ⟨⟨temp, h1, h2⟩, -⟩ := hQ.qsome c.field G rfl
        simp only [h1, List.find?_cons, beq_self_eq_true, pure, Except.pure]
        exact OkOrU.ok _

/-- the generator's loop treats one member after the other -/
theorem emitDesLoop_cons_eq (f : Field) (rest : List Field) (ast : DesAstState) :
    emitDesLoop S d sm (f :: rest) ast = emitDesLoop S d sm rest (emitDesLoop S d sm [f] ast) := by
  have key : ∀ ast1, (∀ rest', emitDesLoop S d sm (f :: rest') ast = emitDesLoop S d sm rest' ast1) →
      emitDesLoop S d sm (f :: rest) ast = emitDesLoop S d sm rest (emitDesLoop S d sm [f] ast) := by
    intro ast1 h
    rw [h rest, h []]
    simp [emitDesLoop]
  cases hfc : f.cond with
  | none => exact key _ (fun rest' => emitDesLoop_read_plain rest' ast hfc)
  | some c =>
    cases hp : ast.processed.contains c.field with
    | true => exact key _ (fun rest' => emitDesLoop_read_cond rest' ast hfc hp)
    | false =>
      cases hq : (ast.queued.find? (·.1 == c.field)).isSome with
      | true => exact key _ (fun rest' => emitDesLoop_follow rest' ast hfc hp hq)
      | false => exact key _ (fun rest' => emitDesLoop_park rest' ast hfc hp hq)

theorem newItems_cons (f : Field) (rest : List Field) (ast : DesAstState) :
    newItems S d sm (f :: rest) ast = newItems S d sm [f] ast ++ newItems S d sm rest (emitDesLoop S d sm [f] ast) :=
  newItems_step (emitDesLoop_cons_eq f rest ast) (emitDesLoop_newItems [f] ast)

/-- the run over the members of a class: when the emitted member statements run through, the decoder's run succeeds or
    is refused as outside the modelled domain -/
theorem decFrom_progressQ (hnn : ∀ ty b v, r.dec ty b = .ok v → v ≠ .none)
    (hnd : allDistinct (d.fields.map (·.name)) = true) (hgd : DesFieldsOk S d)
    (hsm : ∀ f ∈ d.fields, (sm == some (printerName f.name)) = true ↔ ∃ w, f.kind = .sizeF w)
    (d' : StructDef) (hreb : ∀ st i, rebase d' st i = st) (base : List Field) (fs : List Field) :
    ∀ (full post : List Field) (σ σ' : PyState) (st : DecState) (idx : Nat) (ast : DesAstState) (pre : List Field)
      (pend : PendQ),
    d.fields = full ++ fs ++ post → wfFieldsFrom S d full (fs ++ post) = true → coveredFrom S full (fs ++ post) = true →
    (∀ f ∈ fs, ∀ n ∈ refsOf f, ∀ x ∈ base, x.name ≠ n) →
    SimQ S d sm σ st ast full base pre pend → execItems S T r (newItems S d sm fs ast) σ = .ok σ' →
    OkOrU (decFrom S T r d' fs idx st) := by
  induction fs with
  | nil => intro _ _ _ _ st _ _ _ _ _ _ _ _ _ _; exact OkOrU.ok st
  | cons f rest ih =>
    intro full post σ σ' st idx ast pre pend hsplit hwf hcov hvis hQ hex
    simp only [List.cons_append, wfFieldsFrom, coveredFrom, Bool.and_eq_true] at hwf hcov
    have hc : StepCtx S d sm full f (rest ++ post) base :=
      ⟨hnd, hgd, hsm, by rw [hsplit]; simp, hwf.1, hcov.1, hvis f (by simp)⟩
    rw [newItems_cons] at hex
    obtain ⟨σ1, hex1, hexr⟩ := execItems_append_ok _ _ _ _ hex
    unfold decFrom
    apply (step_progress hnn hreb hQ hc hex1).bind
    intro st1 hstep
    obtain ⟨σ1', ast1, X, pre1, pend1, hemit, hitems, hexX, hQ1⟩ := stepQ hnn hreb hQ hc hstep
    obtain ⟨hX, hast⟩ := newItems_single hemit hitems
    rw [hX, hexX] at hex1
    simp only [Except.ok.injEq] at hex1
    subst hex1
    rw [hast] at hexr
    exact ih (full ++ [f]) post σ1' σ' st1 (idx + 1) ast1 pre1 pend1 (by rw [hsplit]; simp) hwf.2 hcov.2
      (fun g hg => hvis g (List.mem_cons_of_mem _ hg)) hQ1 hexr

end
end SymbolVerif.Codec

/-
Decode-encode direction: the invariant of a successful run of `deserialize` when members may be laid
out before their discriminant (`DRunQ`), and the steps that append one local.
-/
import SymbolVerif.Proofs.Codec.DedMono
namespace SymbolVerif.Codec
open SymbolVerif.Bytes

/-- the state of a run after the members `pre`; `pend`: the union parked in the temporary buffer -/
structure DRunQ (S : Schema) (T : String → Bytes → Bytes) (r : Rec) (d : StructDef) (pre : List Field)
    (st : DecState) (pend : Pend) : Prop where
  names : ∀ nv ∈ st.env, ∃ x ∈ pre, x.name = nv.1 ∧ NotParked pend x
  spec : ∀ x ∈ pre, NotParked pend x → FieldSpec S T r st.env x
  resolved : ∀ x ∈ pre, NotParked pend x → ∀ c, x.cond = some c → (lookupField pre c.field).isSome = true
  qnone : pend = none → st.queued = []
  qsome : ∀ dn w G, pend = some (dn, w, G) →
    (∃ temp, st.queued = [(dn, temp, G)]) ∧ (∀ m ∈ G, m ∈ pre ∧ condOn dn m = true) ∧
    (∀ x ∈ pre, x.name ≠ dn) ∧ allDistinct (G.map (·.name)) = true ∧ G ≠ [] ∧
    (∃ dnf ∈ d.fields, dnf.name = dn ∧ dnf.cond = none)

theorem allDistinct_snoc_names (G0 : List Field) (f : Field) (hd : allDistinct (G0.map (·.name)) = true)
    (hne : ∀ m ∈ G0, m.name ≠ f.name) : allDistinct ((G0 ++ [f]).map (·.name)) = true := by
  induction G0 with
  | nil => simp [allDistinct]
  | cons m ms ih =>
    rw [List.map_cons] at hd
    obtain ⟨h1, h2⟩ := allDistinct_cons hd
    simp only [List.cons_append, List.map_cons, allDistinct, Bool.and_eq_true, Bool.not_eq_true',
      List.contains_eq_mem, decide_eq_false_iff_not, List.map_append, List.map_nil, List.mem_append,
      List.mem_singleton, not_or]
    refine ⟨⟨h1, hne m (by simp)⟩, ?_⟩
    have := ih h2 (fun x hx => hne x (by simp [hx]))
    simpa using this

section
variable {S : Schema} {T : String → Bytes → Bytes} {r : Rec} {d : StructDef}

theorem DRunQ.get_none {pre : List Field} {st : DecState} {pend : Pend} (h : DRunQ S T r d pre st pend)
    {n : String} (hn : ∀ x ∈ pre, NotParked pend x → x.name ≠ n) : Val.get st.env n = none := by
  apply get_none_of_names
  intro nv hnv
  obtain ⟨x, hx, hxn, hnp⟩ := h.names nv hnv
  rw [← hxn]
  exact hn x hx hnp

/-- after a member that got its local right away; the queue is untouched -/
theorem DRunQ.std (hnd : allDistinct (d.fields.map (·.name)) = true) {pre post : List Field} {f : Field}
    (hsplit : d.fields = pre ++ f :: post) {st st' : DecState} {pend : Pend} (h : DRunQ S T r d pre st pend)
    {v : Val} (henv : st'.env = st.env ++ [(f.name, v)]) (hq : st'.queued = st.queued)
    (hspec : Val.get st'.env f.name = some v → FieldSpec S T r st'.env f)
    (hres : ∀ c, f.cond = some c → (lookupField pre c.field).isSome = true)
    (hdn : ∀ dn w G, pend = some (dn, w, G) → f.name ≠ dn) :
    DRunQ S T r d (pre ++ [f]) st' pend := by
  have hne := name_ne_of_split hnd hsplit
  have hfnp : NotParked pend f := by
    intro dn w G hp hfG
    exact hne f ((h.qsome dn w G hp).2.1 f hfG).1 rfl
  have hnone : Val.get st.env f.name = none := h.get_none (fun y hy _ => hne y hy)
  have hget : Val.get st'.env f.name = some v := by
    rw [henv, get_append_none hnone]; simp [Val.get]
  refine ⟨?_, ?_, ?_, ?_, ?_⟩
  · intro nv hnv
    rw [henv] at hnv
    rcases List.mem_append.mp hnv with hnv | hnv
    · obtain ⟨x, hx, hxn, hnp⟩ := h.names nv hnv
      exact ⟨x, List.mem_append_left _ hx, hxn, hnp⟩
    · simp only [List.mem_singleton] at hnv
      subst hnv
      exact ⟨f, by simp, rfl, hfnp⟩
  · intro x hx hnp
    rcases List.mem_append.mp hx with hx | hx
    · rw [henv]; exact (h.spec x hx hnp).mono
    · simp only [List.mem_singleton] at hx
      subst hx
      exact hspec hget
  · intro x hx hnp c hc
    rcases List.mem_append.mp hx with hx | hx
    · exact lookupField_isSome_append (h.resolved x hx hnp c hc)
    · simp only [List.mem_singleton] at hx
      subst hx
      exact lookupField_isSome_append (hres c hc)
  · intro hp; rw [hq]; exact h.qnone hp
  · intro dn w G hp
    obtain ⟨⟨temp, ht⟩, h2, h3, h4⟩ := h.qsome dn w G hp
    refine ⟨⟨temp, by rw [hq]; exact ht⟩, fun m hm => ⟨List.mem_append_left _ (h2 m hm).1, (h2 m hm).2⟩, ?_, h4⟩
    intro x hx
    rcases List.mem_append.mp hx with hx | hx
    · exact h3 x hx
    · simp only [List.mem_singleton] at hx
      subst hx
      exact hdn dn w G hp

/-- a member parked in the temporary buffer: no local yet -/
theorem DRunQ.park (hnd : allDistinct (d.fields.map (·.name)) = true) {pre post : List Field} {f : Field}
    (hsplit : d.fields = pre ++ f :: post) {st st' : DecState} {pend : Pend} (h : DRunQ S T r d pre st pend)
    (henv : st'.env = st.env) {dn : String} (hcon : condOn dn f = true) (hfn : f.name ≠ dn)
    (hpre : ∀ x ∈ pre, x.name ≠ dn) (hdnf : ∃ dnf ∈ d.fields, dnf.name = dn ∧ dnf.cond = none)
    {G0 : List Field} {temp : Bytes} (hq : st'.queued = [(dn, temp, G0 ++ [f])])
    (hG0 : (pend = none ∧ G0 = []) ∨ (∃ w, pend = some (dn, w, G0))) :
    DRunQ S T r d (pre ++ [f]) st' (some (dn, 0, G0 ++ [f])) := by
  have hne := name_ne_of_split hnd hsplit
  have hparked : ∀ x, NotParked (some (dn, 0, G0 ++ [f])) x → NotParked pend x ∧ x ≠ f := by
    intro x hx
    have := hx dn 0 (G0 ++ [f]) rfl
    refine ⟨?_, fun hxf => this (by simp [hxf])⟩
    intro dn' w' G' hp hxG
    rcases hG0 with ⟨hpn, -⟩ | ⟨w, hps⟩
    · rw [hpn] at hp; cases hp
    · rw [hps] at hp
      simp only [Option.some.injEq, Prod.mk.injEq] at hp
      obtain ⟨-, -, rfl⟩ := hp
      exact this (List.mem_append_left _ hxG)
  have hG0pre : ∀ m ∈ G0, m ∈ pre ∧ condOn dn m = true := by
    intro m hm
    rcases hG0 with ⟨-, hg⟩ | ⟨w, hps⟩
    · rw [hg] at hm; cases hm
    · exact (h.qsome dn w G0 hps).2.1 m hm
  have hG0d : allDistinct (G0.map (·.name)) = true := by
    rcases hG0 with ⟨-, hg⟩ | ⟨w, hps⟩
    · rw [hg]; rfl
    · exact (h.qsome dn w G0 hps).2.2.2.1
  refine ⟨?_, ?_, ?_, (fun hp => by cases hp), ?_⟩
  · intro nv hnv
    rw [henv] at hnv
    obtain ⟨x, hx, hxn, hnp⟩ := h.names nv hnv
    refine ⟨x, List.mem_append_left _ hx, hxn, ?_⟩
    intro dn' w' G' hp hxG
    simp only [Option.some.injEq, Prod.mk.injEq] at hp
    obtain ⟨-, -, rfl⟩ := hp
    rcases List.mem_append.mp hxG with hxG | hxG
    · rcases hG0 with ⟨-, hg⟩ | ⟨w, hps⟩
      · rw [hg] at hxG; cases hxG
      · exact hnp dn w G0 hps hxG
    · simp only [List.mem_singleton] at hxG
      subst hxG
      exact hne x hx rfl
  · intro x hx hnp
    obtain ⟨hnp', hxf⟩ := hparked x hnp
    rcases List.mem_append.mp hx with hx | hx
    · rw [henv]; exact h.spec x hx hnp'
    · simp only [List.mem_singleton] at hx; exact absurd hx hxf
  · intro x hx hnp c hc
    obtain ⟨hnp', hxf⟩ := hparked x hnp
    rcases List.mem_append.mp hx with hx | hx
    · exact lookupField_isSome_append (h.resolved x hx hnp' c hc)
    · simp only [List.mem_singleton] at hx; exact absurd hx hxf
  · intro dn' w' G' hp
    simp only [Option.some.injEq, Prod.mk.injEq] at hp
    obtain ⟨rfl, -, rfl⟩ := hp
    refine ⟨⟨temp, hq⟩, ?_, ?_, ?_, by simp, hdnf⟩
    · intro m hm
      rcases List.mem_append.mp hm with hm | hm
      · exact ⟨List.mem_append_left _ (hG0pre m hm).1, (hG0pre m hm).2⟩
      · simp only [List.mem_singleton] at hm
        subst hm
        exact ⟨by simp, hcon⟩
    · intro x hx
      rcases List.mem_append.mp hx with hx | hx
      · exact hpre x hx
      · simp only [List.mem_singleton] at hx
        subst hx
        exact hfn
    · exact allDistinct_snoc_names G0 f hG0d (fun m hm => hne m (hG0pre m hm).1)

end
end SymbolVerif.Codec

/-
Decode-encode direction, part 10: the derived members of a decoded object can be written.
-/
import SymbolVerif.Proofs.Codec.DedSize
namespace SymbolVerif.Codec
open SymbolVerif.Bytes

section
variable {S : Schema} {T : String → Bytes → Bytes} {g fa : String → Val → Bool} {r : Rec}
variable {name : String} {d : StructDef} {E vs : List (String × Val)}

theorem DedStruct.fit_range (h : DedStruct S T g fa r name d E vs) {f : Field} (hf : f ∈ d.fields)
    (hsl : f.kind.isSizeLike = true) {i : Int} (hi : derivedValue r d vs f.kind = .ok i) :
    inRange f.kind.width f.kind.signed i = true := by
  have := (h.fitAt hf).1
  unfold fitField at this
  simpa [hsl, hi] using this

/-- the local of an unconditional member, or of a conditional member that is present -/
theorem DedStruct.present_spec (h : DedStruct S T g fa r name d E vs) {x : Field} (hx : x ∈ d.fields) {v : Val}
    (hv : Val.get E x.name = some v) (hnn : v.isNone = false) : PaySpec S T r E x v := by
  obtain ⟨v', hv', hs⟩ := h.spec x hx
  rw [hv] at hv'
  simp only [Option.some.injEq] at hv'
  subst hv'
  cases hc : x.cond with
  | none => simpa [hc] using hs
  | some c =>
    simp only [hc] at hs
    obtain ⟨a, pd, -, -, hb⟩ := hs
    cases pd with
    | true => simpa using hb
    | false =>
      simp only [Bool.false_eq_true, if_false] at hb
      subst hb
      simp [Val.isNone] at hnn

/-- size-like derived members: struct size, byte size, size of, size ref -/
theorem DedStruct.sizeLike_ok (h : DedStruct S T g fa r name d E vs) {f : Field} (hf : f ∈ d.fields)
    (hsl : f.kind.isSizeLike = true) : ∃ i, derivedValue r d vs f.kind = .ok i := by
  obtain ⟨-, hwk, -⟩ := h.wfdAt hf
  unfold wfdKind at hwk
  cases hk : f.kind with
  | sizeF w =>
    obtain ⟨n, hn⟩ := h.structSize_ok
    exact ⟨n, by simp [derivedValue, hn, bind, Except.bind]⟩
  | byteSize w s t =>
    simp only [hk] at hwk
    obtain ⟨tf, hl, hm, hn, hcn, -⟩ := refOk_field (pre := d.fields) (f := f) (post := []) hwk
    have hl' : lookupField d.fields t = some tf := by
      have e := lookupField_of_mem h.wf.names hm
      rw [hn] at e; exact e
    obtain ⟨v, p, hv, hp, -, hps⟩ := h.cond_ok hm
    rw [condOnObject_of_none r d.fields vs tf hcn] at hp
    simp only [Except.ok.injEq] at hp
    obtain ⟨n, hfs⟩ := h.fsize_ok hm hv (hps hp.symm)
    rw [hn] at hfs
    exact ⟨n, by simp [derivedValue, hl', hfs, bind, Except.bind]⟩
  | sizeOf w s t =>
    simp only [hk] at hwk
    obtain ⟨tf, hl, hm, hn, hcn, -⟩ := refOk_field (pre := d.fields) (f := f) (post := []) hwk
    have hl' : lookupField d.fields t = some tf := by
      have e := lookupField_of_mem h.wf.names hm
      rw [hn] at e; exact e
    obtain ⟨v, p, hv, hp, -, hps⟩ := h.cond_ok hm
    rw [condOnObject_of_none r d.fields vs tf hcn] at hp
    simp only [Except.ok.injEq] at hp
    obtain ⟨n, hfs⟩ := h.fsize_ok hm hv (hps hp.symm)
    rw [hn] at hfs
    exact ⟨n, by simp [derivedValue, hl', hfs, bind, Except.bind]⟩
  | sizeRef w s t dl =>
    simp only [hk, Bool.and_eq_true] at hwk
    obtain ⟨-, hwk⟩ := hwk
    cases hl : lookupField d.fields t with
    | none => simp [hl] at hwk
    | some tf =>
      simp only [hl] at hwk
      obtain ⟨hm, hn⟩ := lookupField_some hl
      cases hkt : tf.kind with
      | ref ty lim =>
        obtain ⟨v, hv, -⟩ := h.spec tf hm
        have hvsv : Val.get vs t = some v := by
          rw [← hn, h.carried hm (by simp [hkt, FK.carries]), hv]
        simp only [derivedValue, sizeRefValue, hvsv, hl, hkt]
        by_cases ht : truthy v = true
        · have hnn : v.isNone = false := by cases v <;> simp [truthy, Val.isNone] at ht ⊢
          have hps := h.present_spec hm hv hnn
          unfold PaySpec at hps
          simp only [hkt] at hps
          obtain ⟨-, -, b, -, hsz⟩ := h.memberRef hm hkt (by rw [hn]; exact hvsv) hps
          exact ⟨(b.length : Int) + dl, by simp [ht, hsz, bind, Except.bind]⟩
        · have ht' : truthy v = false := by simpa using ht
          exact ⟨0, by simp [ht']⟩
      | _ => simp [hkt] at hwk
  | _ => simp [hk, FK.isSizeLike] at hsl

end
end SymbolVerif.Codec

/-
Struct-level round trip, part 6: the invariant of `deserialize` over the member list (`Prog`) and how
each kind of step re-establishes it.
-/
import SymbolVerif.Proofs.Codec.StructUnion
namespace SymbolVerif.Codec
open SymbolVerif.Bytes

/-! ### lists -/

theorem allDistinct_disjoint {xs ys : List String} (h : allDistinct (xs ++ ys) = true) : ∀ a ∈ xs, a ∉ ys := by
  induction xs with
  | nil => intro a ha; cases ha
  | cons x xs ih =>
    obtain ⟨h1, h2⟩ := allDistinct_cons (x := x) (xs := xs ++ ys) h
    intro a ha hay
    rcases List.mem_cons.mp ha with rfl | ha'
    · exact h1 (List.mem_append_right _ hay)
    · exact ih h2 a ha' hay

theorem allDistinct_append_right {xs ys : List String} (h : allDistinct (xs ++ ys) = true) : allDistinct ys = true := by
  induction xs with
  | nil => exact h
  | cons x xs ih => exact ih (allDistinct_cons (x := x) (xs := xs ++ ys) h).2

theorem mem_takeWhile_imp' {α : Type} {p : α → Bool} {l : List α} {x : α} (h : x ∈ l.takeWhile p) : p x = true := by
  induction l with
  | nil => cases h
  | cons a l ih =>
    rw [List.takeWhile_cons] at h
    split at h
    · rcases List.mem_cons.mp h with rfl | h'
      · assumption
      · exact ih h'
    · cases h

theorem lookupField_isSome_append {pre post : List Field} {n : String} (h : (lookupField pre n).isSome = true) :
    (lookupField (pre ++ post) n).isSome = true := by
  cases hl : lookupField pre n with
  | none => simp [hl] at h
  | some g => rw [lookupField_append hl]; rfl

/-- names of the members before `f` differ from `f`'s -/
theorem name_ne_of_split {fs pre post : List Field} {f : Field} (hnd : allDistinct (fs.map (·.name)) = true)
    (hsplit : fs = pre ++ f :: post) : ∀ x ∈ pre, x.name ≠ f.name := by
  intro x hx hn
  rw [hsplit, List.map_append] at hnd
  exact allDistinct_disjoint hnd x.name (List.mem_map_of_mem (f := (·.name)) hx)
    (by rw [hn]; simp)

/-! ### the invariant -/

/-- the union currently parked in the temporary buffer: discriminant, member width, members -/
abbrev Pend := Option (String × Nat × List Field)

def NotParked (pend : Pend) (x : Field) : Prop := ∀ dn w G, pend = some (dn, w, G) → x ∉ G

theorem NotParked.none (x : Field) : NotParked none x := by
  intro _ _ _ h; cases h

section
variable {S : Schema} {T : String → Bytes → Bytes} {r : Rec} {g : String → Val → Bool}
variable {d : StructDef} {vs : List (String × Val)}

variable (S T r d vs) in
/-- the state of `deserialize` after the members `pre` -/
structure Prog (pre : List Field) (st : DecState) (pend : Pend) : Prop where
  names : ∀ nv ∈ st.env, ∃ x ∈ pre, x.name = nv.1 ∧ NotParked pend x
  got : ∀ x ∈ pre, NotParked pend x → ∃ v, Val.get st.env x.name = some v ∧ EntryOk r d vs x v
  resolved : ∀ x ∈ pre, NotParked pend x → ∀ c, x.cond = some c → (lookupField pre c.field).isSome = true
  size : StSz st
  qnone : pend = none → st.queued = []
  qsome : ∀ dn w G, pend = some (dn, w, G) →
    (∃ temp, st.queued = [(dn, temp, G)] ∧ encFrom S T r d vs G = .ok temp) ∧
    (∀ m ∈ G, UMember S d dn w m) ∧ (∀ m ∈ G, m ∈ pre) ∧ (∀ x ∈ pre, x.name ≠ dn) ∧
    allDistinct (G.map (·.name)) = true ∧ G ≠ [] ∧
    (∃ dnf ∈ d.fields, dnf.name = dn) ∧ (∀ dnf ∈ d.fields, dnf.name = dn → dnf.cond = none)

theorem Prog.envOk {pre : List Field} {st : DecState} {pend : Pend} (h : Prog S T r d vs pre st pend) :
    EnvOk r d vs pre st.env := by
  intro x hx hc
  apply h.got x hx
  intro dn w G hp hxG
  obtain ⟨c, hc', -⟩ := ((h.qsome dn w G hp).2.1 x hxG).cond
  rw [hc] at hc'
  cases hc'

/-- no local is named like a member that is not read yet -/
theorem Prog.get_none {pre : List Field} {st : DecState} {pend : Pend} (h : Prog S T r d vs pre st pend)
    {n : String} (hn : ∀ x ∈ pre, NotParked pend x → x.name ≠ n) : Val.get st.env n = none := by
  apply get_none_of_names
  intro nv hnv
  obtain ⟨x, hx, hxn, hnp⟩ := h.names nv hnv
  rw [← hxn]
  exact hn x hx hnp

/-- after an ordinary member -/
theorem Prog.std (hnd : allDistinct (d.fields.map (·.name)) = true) {pre post : List Field} {f : Field}
    (hsplit : d.fields = pre ++ f :: post) {st : DecState} {pend : Pend} (h : Prog S T r d vs pre st pend)
    {v : Val} (hv : EntryOk r d vs f v) (rest : Bytes)
    (hres : ∀ c, f.cond = some c → (lookupField pre c.field).isSome = true)
    (hdn : ∀ dn w G, pend = some (dn, w, G) → f.name ≠ dn) :
    Prog S T r d vs (pre ++ [f]) { st with buf := rest, env := st.env ++ [(f.name, v)] } pend := by
  have hne := name_ne_of_split hnd hsplit
  have hfnp : NotParked pend f := by
    intro dn w G hp hfG
    exact hne f ((h.qsome dn w G hp).2.2.1 f hfG) rfl
  refine ⟨?_, ?_, ?_, h.size, h.qnone, ?_⟩
  · intro nv hnv
    rcases List.mem_append.mp hnv with hnv | hnv
    · obtain ⟨x, hx, hxn, hnp⟩ := h.names nv hnv
      exact ⟨x, List.mem_append_left _ hx, hxn, hnp⟩
    · simp only [List.mem_singleton] at hnv
      subst hnv
      exact ⟨f, by simp, rfl, hfnp⟩
  · intro x hx hnp
    rcases List.mem_append.mp hx with hx | hx
    · obtain ⟨w, hw, hpw⟩ := h.got x hx hnp
      exact ⟨w, get_append_some hw, hpw⟩
    · simp only [List.mem_singleton] at hx
      subst hx
      have hnone : Val.get st.env x.name = none := h.get_none (fun y hy _ => hne y hy)
      refine ⟨v, ?_, hv⟩
      show Val.get (st.env ++ [(x.name, v)]) x.name = some v
      rw [get_append_none hnone]
      simp [Val.get]
  · intro x hx hnp c hc
    rcases List.mem_append.mp hx with hx | hx
    · exact lookupField_isSome_append (h.resolved x hx hnp c hc)
    · simp only [List.mem_singleton] at hx
      subst hx
      exact lookupField_isSome_append (hres c hc)
  · intro dn w G hp
    obtain ⟨h1, h2, h3, h4, h5⟩ := h.qsome dn w G hp
    refine ⟨h1, h2, fun m hm => List.mem_append_left _ (h3 m hm), ?_, h5⟩
    intro x hx
    rcases List.mem_append.mp hx with hx | hx
    · exact h4 x hx
    · simp only [List.mem_singleton] at hx
      subst hx
      exact hdn dn w G hp

/-- after the members of a union have been parked -/
theorem Prog.group (hnd : allDistinct (d.fields.map (·.name)) = true) {pre G post : List Field}
    (hsplit : d.fields = pre ++ G ++ post) {st : DecState} (h : Prog S T r d vs pre st none)
    {dn : String} {w : Nat} (hu : ∀ m ∈ G, UMember S d dn w m) (hG : G ≠ [])
    {bG : Bytes} (he : encFrom S T r d vs G = .ok bG) (hpre : ∀ x ∈ pre, x.name ≠ dn)
    (hdnf : ∃ dnf ∈ d.fields, dnf.name = dn) (rest : Bytes) :
    Prog S T r d vs (pre ++ G) { st with buf := rest, queued := [(dn, bG, G)] } (some (dn, w, G)) := by
  have hdisj : ∀ x ∈ pre, x ∉ G := by
    intro x hx hxG
    have hnd' := hnd
    rw [hsplit, List.append_assoc, List.map_append] at hnd'
    exact allDistinct_disjoint hnd' x.name (List.mem_map_of_mem (f := (·.name)) hx)
      (by rw [List.map_append]; exact List.mem_append_left _ (List.mem_map_of_mem (f := (·.name)) hxG))
  have hGd : allDistinct (G.map (·.name)) = true := by
    have hnd' := hnd
    rw [hsplit, List.map_append, List.map_append] at hnd'
    exact allDistinct_append_right (allDistinct_append_left hnd')
  have hcondnone : ∀ dnf ∈ d.fields, dnf.name = dn → dnf.cond = none := by
    intro dnf hd hn
    cases G with
    | nil => exact absurd rfl hG
    | cons m ms =>
      obtain ⟨c, -, -, hc⟩ := (hu m (by simp)).cond
      exact (hc dnf hd hn).1
  refine ⟨?_, ?_, ?_, h.size, (fun hp => by cases hp), ?_⟩
  · intro nv hnv
    obtain ⟨x, hx, hxn, -⟩ := h.names nv hnv
    refine ⟨x, List.mem_append_left _ hx, hxn, ?_⟩
    intro dn' w' G' hp hxG
    simp only [Option.some.injEq, Prod.mk.injEq] at hp
    obtain ⟨-, -, rfl⟩ := hp
    exact hdisj x hx hxG
  · intro x hx hnp
    rcases List.mem_append.mp hx with hx | hx
    · exact h.got x hx (NotParked.none x)
    · exact absurd hx (hnp dn w G rfl)
  · intro x hx hnp c hc
    rcases List.mem_append.mp hx with hx | hx
    · exact lookupField_isSome_append (h.resolved x hx (NotParked.none x) c hc)
    · exact absurd hx (hnp dn w G rfl)
  · intro dn' w' G' hp
    simp only [Option.some.injEq, Prod.mk.injEq] at hp
    obtain ⟨rfl, rfl, rfl⟩ := hp
    refine ⟨⟨bG, rfl, he⟩, hu, fun m hm => List.mem_append_right _ hm, ?_, hGd, hG, hdnf, hcondnone⟩
    intro x hx
    rcases List.mem_append.mp hx with hx | hx
    · exact hpre x hx
    · intro hn
      obtain ⟨c, hc, -, -⟩ := (hu x hx).cond
      have := hcondnone x (hu x hx).mem hn
      rw [hc] at this
      cases this

/-- after the discriminant of the parked union has been read and the union read back -/
theorem Prog.flush (hnd : allDistinct (d.fields.map (·.name)) = true) {pre post : List Field} {f : Field}
    (hsplit : d.fields = pre ++ f :: post) {st : DecState} {dn : String} {w : Nat} {G : List Field}
    (h : Prog S T r d vs pre st (some (dn, w, G))) (hfn : f.name = dn) (hfc : f.cond = none)
    {v : Val} (hv : EntryOk r d vs f v) {ents : List (String × Val)} (hents : EnvRel (EntryOk r d vs) G ents)
    (rest : Bytes) :
    Prog S T r d vs (pre ++ [f])
      { st with buf := rest, env := st.env ++ [(f.name, v)] ++ ents, queued := [] } none := by
  have hne := name_ne_of_split hnd hsplit
  obtain ⟨-, hu, hGpre, hpredn, hGd, -, -, -⟩ := h.qsome dn w G rfl
  have hfd : f ∈ d.fields := by rw [hsplit]; simp
  have hpred : ∀ x ∈ pre, x ∈ d.fields := fun x hx => by rw [hsplit]; exact List.mem_append_left _ hx
  refine ⟨?_, ?_, ?_, h.size, fun _ => rfl, fun _ _ _ hp => by cases hp⟩
  · intro nv hnv
    simp only [List.append_assoc] at hnv
    rcases List.mem_append.mp hnv with hnv | hnv
    · obtain ⟨x, hx, hxn, -⟩ := h.names nv hnv
      exact ⟨x, List.mem_append_left _ hx, hxn, NotParked.none x⟩
    · rcases List.mem_append.mp hnv with hnv | hnv
      · simp only [List.mem_singleton] at hnv
        subst hnv
        exact ⟨f, by simp, rfl, NotParked.none f⟩
      · have : nv.1 ∈ ents.map (·.1) := List.mem_map_of_mem (f := (·.1)) hnv
        rw [hents.names] at this
        obtain ⟨m, hm, hmn⟩ := List.mem_map.mp this
        exact ⟨m, List.mem_append_left _ (hGpre m hm), hmn, NotParked.none m⟩
  · intro x hx _
    rcases List.mem_append.mp hx with hx | hx
    · by_cases hxG : x ∈ G
      · -- a parked member: its local is among the entries appended by the flush
        have hnone1 : Val.get st.env x.name = none := by
          apply h.get_none
          intro y hy hnp hyn
          have : y = x := eq_of_name_eq hnd (hpred y hy) (hpred x hx) hyn
          subst this
          exact hnp dn w G rfl hxG
        have hnone2 : Val.get (st.env ++ [(f.name, v)]) x.name = none := by
          rw [get_append_none hnone1]
          apply get_none_of_names
          intro nv hnv
          simp only [List.mem_singleton] at hnv
          subst hnv
          exact fun hh => hne x hx hh.symm
        obtain ⟨w', hw', hpw'⟩ := hents.get hGd hxG
        exact ⟨w', by show Val.get (st.env ++ [(f.name, v)] ++ ents) x.name = some w'
                      rw [get_append_none hnone2]; exact hw', hpw'⟩
      · obtain ⟨w', hw', hpw'⟩ := h.got x hx (fun _ _ _ hp => by
          simp only [Option.some.injEq, Prod.mk.injEq] at hp
          obtain ⟨-, -, rfl⟩ := hp
          exact hxG)
        exact ⟨w', by show Val.get (st.env ++ [(f.name, v)] ++ ents) x.name = some w'
                      rw [List.append_assoc]; exact get_append_some hw', hpw'⟩
    · simp only [List.mem_singleton] at hx
      subst hx
      have hnone : Val.get st.env x.name = none := h.get_none (fun y hy _ => hne y hy)
      refine ⟨v, ?_, hv⟩
      show Val.get (st.env ++ [(x.name, v)] ++ ents) x.name = some v
      apply get_append_some
      rw [get_append_none hnone]
      simp [Val.get]
  · intro x hx _ c hc
    rcases List.mem_append.mp hx with hx | hx
    · by_cases hxG : x ∈ G
      · obtain ⟨c', hc', hcf, -⟩ := (hu x hxG).cond
        rw [hc] at hc'
        simp only [Option.some.injEq] at hc'
        subst hc'
        rw [hcf, ← hfn]
        exact lookupField_isSome_of_mem (by simp)
      · exact lookupField_isSome_append (h.resolved x hx (fun _ _ _ hp => by
          simp only [Option.some.injEq, Prod.mk.injEq] at hp
          obtain ⟨-, -, rfl⟩ := hp
          exact hxG) c hc)
    · simp only [List.mem_singleton] at hx
      subst hx
      rw [hfc] at hc
      cases hc

end
end SymbolVerif.Codec

/-
Struct-level round trip, part 1: generic helpers.
  * `Except` bind decomposition;
  * `Rec.guard`: the recursive calls restricted to admissible values, so that the array laws
    (stated for an unconditional `Rec.Law`) apply to a law that holds on admissible values only;
  * lookups in field lists and decoded environments.
-/
import SymbolVerif.Model.Codec.WF
import SymbolVerif.Proofs.Codec.Arrays2
namespace SymbolVerif.Codec
open SymbolVerif.Bytes

/-! ### Except -/

theorem bind_eq_ok {α β : Type} {x : R α} {f : α → R β} {b : β} :
    (x >>= f) = .ok b ↔ ∃ a, x = .ok a ∧ f a = .ok b := by
  cases x with
  | error e => simp [bind, Except.bind]
  | ok a => simp [bind, Except.bind]

theorem ok_bind {α β : Type} (a : α) (f : α → R β) : ((.ok a : R α) >>= f) = f a := rfl

theorem pure_eq_ok {α : Type} (a : α) : (pure a : R α) = .ok a := rfl

/-! ### guarded recursive calls -/

/-- the recursive calls, with `enc` refusing the values that `g` does not admit -/
def Rec.guard (g : String → Val → Bool) (r : Rec) : Rec :=
  { enc := fun ty v => if g ty v then r.enc ty v else .error .shape, dec := r.dec, size := r.size }

/-- the round-trip law on the values admitted by `g` -/
def Rec.LawOn (g : String → Val → Bool) (r : Rec) : Prop := (r.guard g).Law

theorem Rec.LawOn.apply {g : String → Val → Bool} {r : Rec} (h : r.LawOn g) {ty : String} {v : Val} {b : Bytes}
    (hg : g ty v = true) (he : r.enc ty v = .ok b) :
    r.size ty v = .ok b.length ∧ ∀ tail, r.dec ty (b ++ tail) = .ok v := by
  have := h ty v b (by simp [Rec.guard, hg, he])
  exact this

theorem Rec.lawOn_intro {g : String → Val → Bool} {r : Rec}
    (h : ∀ ty v b, g ty v = true → r.enc ty v = .ok b → r.size ty v = .ok b.length ∧ ∀ tail, r.dec ty (b ++ tail) = .ok v) :
    r.LawOn g := by
  intro ty v b he
  simp only [Rec.guard] at he
  by_cases hg : g ty v = true
  · simp only [hg, if_true] at he
    exact h ty v b hg he
  · simp [hg] at he

theorem Rec.nonEmpty_guard {g : String → Val → Bool} {r : Rec} {elem : String} (h : r.NonEmpty elem) :
    (r.guard g).NonEmpty elem := by
  intro v b he
  simp only [Rec.guard] at he
  by_cases hg : g elem v = true
  · simp only [hg, if_true] at he
    exact h v b he
  · simp [hg] at he

theorem encArrayPlain_guard {g : String → Val → Bool} {r : Rec} {elem : String} {l : List Val} {b : Bytes}
    (hg : ∀ v ∈ l, g elem v = true) (h : encArrayPlain r elem l = .ok b) :
    encArrayPlain (r.guard g) elem l = .ok b := by
  induction l generalizing b with
  | nil => simpa [encArrayPlain] using h
  | cons v vs ih =>
    obtain ⟨bv, t, hv, ht, rfl⟩ := encArrayPlain_cons_ok h
    have h1 : (r.guard g).enc elem v = .ok bv := by simp [Rec.guard, hg v (by simp), hv]
    have h2 := ih (fun w hw => hg w (by simp [hw])) ht
    simp [encArrayPlain, h1, h2, bind, Except.bind]

theorem encArrayAligned_guard {g : String → Val → Bool} {r : Rec} {elem : String} {align : Nat} {padLast : Bool}
    {l : List Val} {b : Bytes}
    (hg : ∀ v ∈ l, g elem v = true) (h : encArrayAligned r elem align padLast l = .ok b) :
    encArrayAligned (r.guard g) elem align padLast l = .ok b := by
  induction l generalizing b with
  | nil => simpa [encArrayAligned] using h
  | cons v vs ih =>
    obtain ⟨bv, s, t, hv, hs, ht, rfl⟩ := encArrayAligned_cons_ok h
    have h1 : (r.guard g).enc elem v = .ok bv := by simp [Rec.guard, hg v (by simp), hv]
    have h1' : (r.guard g).size elem v = .ok s := hs
    have h2 := ih (fun w hw => hg w (by simp [hw])) ht
    simp [encArrayAligned, h1, h1', h2, bind, Except.bind, padAfter]

theorem elemSizes_guard (g : String → Val → Bool) (r : Rec) (elem : String) (l : List Val) :
    elemSizes (r.guard g) elem l = elemSizes r elem l := by
  induction l with
  | nil => rfl
  | cons v vs ih => simp only [elemSizes, ih]; rfl

theorem decArrayCount_guard (S : Schema) (T : String → Bytes → Bytes) (g : String → Val → Bool) (r : Rec)
    (elem : String) (k : Option String) (n : Nat) (view : Bytes) (prev : Option (List KeyPart)) (acc : List Val) :
    decArrayCount S T (r.guard g) elem k n view prev acc = decArrayCount S T r elem k n view prev acc := by
  induction n generalizing view prev acc with
  | zero => rfl
  | succ n ih =>
    unfold decArrayCount
    simp only [ih]
    rfl

theorem decArrayFill_guard (g : String → Val → Bool) (r : Rec) (elem : String) (fuel : Nat) (view : Bytes) :
    decArrayFill (r.guard g) elem fuel view = decArrayFill r elem fuel view := by
  induction fuel generalizing view with
  | zero => rfl
  | succ n ih =>
    unfold decArrayFill
    simp only [ih]
    rfl

theorem decArrayAligned_guard (g : String → Val → Bool) (r : Rec) (elem : String) (align : Nat) (padLast : Bool)
    (fuel : Nat) (view : Bytes) :
    decArrayAligned (r.guard g) elem align padLast fuel view = decArrayAligned r elem align padLast fuel view := by
  induction fuel generalizing view with
  | zero => rfl
  | succ n ih =>
    unfold decArrayAligned
    simp only [ih]
    rfl

/-! ### the array laws, for recursive calls that satisfy the law on admissible values -/

section arrays
variable {S : Schema} {T : String → Bytes → Bytes} {g : String → Val → Bool} {r : Rec}

theorem plain_sizes (hr : r.LawOn g) {elem : String} {l : List Val} {b : Bytes}
    (hg : ∀ v ∈ l, g elem v = true) (h : encArrayPlain r elem l = .ok b) :
    ∃ ss, elemSizes r elem l = .ok ss ∧ ss.sum = b.length := by
  have := elemSizes_of_enc (r.guard g) hr elem l b (encArrayPlain_guard hg h)
  rwa [elemSizes_guard] at this

theorem count_dec_nokey (hr : r.LawOn g) {elem : String} (hne : r.NonEmpty elem) {l : List Val} {b : Bytes}
    (hg : ∀ v ∈ l, g elem v = true) (h : encArrayPlain r elem l = .ok b) (tail : Bytes) :
    decArrayCount S T r elem none l.length (b ++ tail) none [] = .ok l := by
  have := decArrayCount_enc_nokey S T (r.guard g) hr elem (Rec.nonEmpty_guard hne) l b tail []
    (encArrayPlain_guard hg h)
  rw [decArrayCount_guard] at this
  simpa using this

theorem count_dec_key (hr : r.LawOn g) {elem : String} (hne : r.NonEmpty elem) {l : List Val} {b : Bytes}
    {k : String} {keys : List (List KeyPart)}
    (hk : l.mapM (sortKeyOf S T elem k) = .ok keys) (hs : strictlyAscending keys = true)
    (hg : ∀ v ∈ l, g elem v = true) (h : encArrayPlain r elem l = .ok b) (tail : Bytes) :
    decArrayCount S T r elem (some k) l.length (b ++ tail) none [] = .ok l := by
  have := decArrayCount_enc_key S T (r.guard g) hr elem (Rec.nonEmpty_guard hne) k l keys b tail [] hk hs
    (encArrayPlain_guard hg h)
  rw [decArrayCount_guard] at this
  simpa using this

theorem fill_dec (hr : r.LawOn g) {elem : String} (hne : r.NonEmpty elem) {l : List Val} {b : Bytes}
    (hg : ∀ v ∈ l, g elem v = true) (h : encArrayPlain r elem l = .ok b) :
    decArrayFill r elem (b.length + 1) b = .ok l := by
  have := decArrayFill_enc (r.guard g) hr elem (Rec.nonEmpty_guard hne) l b (encArrayPlain_guard hg h)
    (b.length + 1) (Nat.le_refl _)
  rwa [decArrayFill_guard] at this

theorem aligned_sizes (hr : r.LawOn g) {elem : String} {align : Nat} (ha : 0 < align) {padLast : Bool}
    {l : List Val} {b : Bytes}
    (hg : ∀ v ∈ l, g elem v = true) (h : encArrayAligned r elem align padLast l = .ok b) :
    ∃ ss, elemSizes r elem l = .ok ss ∧ arraySize ss align padLast = b.length := by
  have := encArrayAligned_size (r.guard g) hr elem align ha padLast l b (encArrayAligned_guard hg h)
  rwa [elemSizes_guard] at this

theorem aligned_dec (hr : r.LawOn g) {elem : String} (hne : r.NonEmpty elem) {align : Nat} (ha : 0 < align)
    {padLast : Bool} {l : List Val} {b : Bytes}
    (hg : ∀ v ∈ l, g elem v = true) (h : encArrayAligned r elem align padLast l = .ok b) :
    decArrayAligned r elem align padLast (b.length + 1) b = .ok l := by
  have := decArrayAligned_enc (r.guard g) hr elem (Rec.nonEmpty_guard hne) align ha padLast l b
    (encArrayAligned_guard hg h) (b.length + 1) (Nat.le_refl _)
  rwa [decArrayAligned_guard] at this

end arrays

/-! ### field lists -/

theorem allDistinct_cons {x : String} {xs : List String} (h : allDistinct (x :: xs) = true) :
    x ∉ xs ∧ allDistinct xs = true := by
  simp only [allDistinct, Bool.and_eq_true, Bool.not_eq_true', List.contains_eq_mem, decide_eq_false_iff_not] at h
  exact h

theorem allDistinct_append_left {xs ys : List String} (h : allDistinct (xs ++ ys) = true) : allDistinct xs = true := by
  induction xs with
  | nil => rfl
  | cons x xs ih =>
    obtain ⟨h1, h2⟩ := allDistinct_cons (x := x) (xs := xs ++ ys) h
    simp only [allDistinct, Bool.and_eq_true, Bool.not_eq_true', List.contains_eq_mem, decide_eq_false_iff_not]
    exact ⟨fun hm => h1 (List.mem_append_left _ hm), ih h2⟩

theorem lookupField_some {fs : List Field} {n : String} {g : Field} (h : lookupField fs n = some g) :
    g ∈ fs ∧ g.name = n := by
  unfold lookupField at h
  have h1 := List.mem_of_find?_eq_some h
  have h2 := List.find?_some h
  exact ⟨h1, by simpa using h2⟩

theorem lookupField_of_mem {fs : List Field} {g : Field} (hd : allDistinct (fs.map (·.name)) = true) (hm : g ∈ fs) :
    lookupField fs g.name = some g := by
  induction fs with
  | nil => cases hm
  | cons f fs ih =>
    rw [List.map_cons] at hd
    obtain ⟨h1, h2⟩ := allDistinct_cons hd
    unfold lookupField
    rw [List.find?_cons]
    by_cases hfg : f.name = g.name
    · have : g = f := by
        rcases List.mem_cons.mp hm with rfl | hm'
        · rfl
        · exact absurd (hfg ▸ List.mem_map_of_mem (f := (·.name)) hm') h1
      subst this
      simp
    · have hm' : g ∈ fs := by
        rcases List.mem_cons.mp hm with rfl | hm'
        · exact absurd rfl hfg
        · exact hm'
      have hne : (f.name == g.name) = false := by simp [hfg]
      simp only [hne]
      exact ih h2 hm'

theorem lookupField_append {pre post : List Field} {n : String} {g : Field} (h : lookupField pre n = some g) :
    lookupField (pre ++ post) n = some g := by
  unfold lookupField at *
  rw [List.find?_append, h]
  rfl

/-! ### decoded environments -/

/-- `env` lists, for the members `fs` in order, a value satisfying `P` -/
inductive EnvRel (P : Field → Val → Prop) : List Field → List (String × Val) → Prop
  | nil : EnvRel P [] []
  | cons {g : Field} {v : Val} {gs : List Field} {env : List (String × Val)} :
      P g v → EnvRel P gs env → EnvRel P (g :: gs) ((g.name, v) :: env)

theorem EnvRel.snoc {P : Field → Val → Prop} {gs : List Field} {env : List (String × Val)} {f : Field} {v : Val}
    (h : EnvRel P gs env) (hv : P f v) : EnvRel P (gs ++ [f]) (env ++ [(f.name, v)]) := by
  induction h with
  | nil => exact .cons hv .nil
  | cons hp _ ih => exact .cons hp ih

theorem EnvRel.append {P : Field → Val → Prop} {gs gs' : List Field} {env env' : List (String × Val)}
    (h : EnvRel P gs env) (h' : EnvRel P gs' env') : EnvRel P (gs ++ gs') (env ++ env') := by
  induction h with
  | nil => exact h'
  | cons hp _ ih => exact .cons hp ih

theorem EnvRel.get {P : Field → Val → Prop} {gs : List Field} {env : List (String × Val)} {g : Field}
    (h : EnvRel P gs env) (hd : allDistinct (gs.map (·.name)) = true) (hm : g ∈ gs) :
    ∃ v, Val.get env g.name = some v ∧ P g v := by
  induction h with
  | nil => cases hm
  | @cons f v gs env hp _ ih =>
    rw [List.map_cons] at hd
    obtain ⟨h1, h2⟩ := allDistinct_cons hd
    by_cases hfg : f.name = g.name
    · have : g = f := by
        rcases List.mem_cons.mp hm with rfl | hm'
        · rfl
        · exact absurd (hfg ▸ List.mem_map_of_mem (f := (·.name)) hm') h1
      subst this
      exact ⟨v, by simp [Val.get], hp⟩
    · have hm' : g ∈ gs := by
        rcases List.mem_cons.mp hm with rfl | hm'
        · exact absurd rfl hfg
        · exact hm'
      obtain ⟨w, hw, hpw⟩ := ih h2 hm'
      refine ⟨w, ?_, hpw⟩
      have hne : (f.name == g.name) = false := by simp [hfg]
      simp only [Val.get, List.find?_cons, hne] at hw ⊢
      exact hw

theorem EnvRel.mono {P Q : Field → Val → Prop} {gs : List Field} {env : List (String × Val)}
    (h : EnvRel P gs env) (hpq : ∀ g v, g ∈ gs → P g v → Q g v) : EnvRel Q gs env := by
  induction h with
  | nil => exact .nil
  | cons hp _ ih =>
    exact .cons (hpq _ _ (by simp) hp) (ih (fun g v hg => hpq g v (by simp [hg])))

end SymbolVerif.Codec

/-
Emitted `deserialize`, semantics part 4: a whole class.
-/
import SymbolVerif.Proofs.Codec.EmissionDesRun
import SymbolVerif.Proofs.Codec.EmissionDesBase
import SymbolVerif.Proofs.Codec.EmissionDesUnionStep
import SymbolVerif.Proofs.Codec.EmissionClass
namespace SymbolVerif.Codec
open SymbolVerif.Bytes

theorem WFGD_struct {S : Schema} (h : WFGD S = true) {n : String} {d : StructDef} (hf : S.find n = some (.struct d)) :
    wfgdStruct S d = true := by
  have hm := Schema.find_mem hf
  unfold WFGD at h
  simp only [List.all_eq_true] at h
  simpa using h _ hm

/-- the size member of the class, as the generator determines it, is the member of kind `sizeF` -/
theorem sizeMember_iff {S : Schema} {name : String} {d : StructDef} (hw : WfStruct S name d) (hgd : DesFieldsOk S d) :
    ∀ f ∈ d.fields, (sizeMemberOf d == some (printerName f.name)) = true ↔ ∃ w, f.kind = .sizeF w := by
  intro f hf
  unfold sizeMemberOf
  constructor
  · intro h
    cases hh : d.fields.head? with
    | none => simp [hh] at h
    | some g =>
      obtain ⟨n, k, c⟩ := g
      have hgm : (⟨n, k, c⟩ : Field) ∈ d.fields := List.mem_of_head? hh
      cases k with
      | sizeF w =>
        simp only [hh, beq_iff_eq, Option.some.injEq] at h
        have hname : f.name = n := (printerName_inj (hgd _ hgm).1 (hgd f hf).1 h).symm
        have : f = ⟨n, .sizeF w, c⟩ := eq_of_name_eq hw.names hf hgm hname
        exact ⟨w, by rw [this]⟩
      | _ => simp [hh] at h
  · intro ⟨w, hk⟩
    obtain ⟨pre, post, hsplit, hwfa, -⟩ := field_pos hw.fields hw.covered hf
    obtain ⟨hpre, -⟩ := wfFieldAt_sizeF hwfa hk
    subst hpre
    simp only [List.nil_append] at hsplit
    obtain ⟨n, k, c⟩ := f
    simp only at hk
    subst hk
    simp [hsplit]

section
variable {S : Schema} {T : String → Bytes → Bytes} {r : Rec}

/-- the members set on the instance are the members of the interpreter's object -/
theorem setsOf_eq {d : StructDef} (hgd : ∀ f ∈ d.fields, wfgdKind f = true) (fs : List Field) (hfs : ∀ f ∈ fs, f ∈ d.fields)
    (hcar : ∀ f ∈ fs, f.kind.carries = true)
    {σ : PyState} {env : List (String × Val)}
    (hloc : ∀ x ∈ fs, ∀ v, Val.get env x.name = some v → σ.get (localName x) = some v) :
    ∀ vs, fs.mapM (fun f => match Val.get env f.name with
        | some v => (.ok (f.name, v) : R (String × Val))
        | none => .error .missing) = .ok vs →
      fs.mapM (fun f => match σ.get (printerName f.name) with
        | some v => (.ok (f.name, v) : R (String × Val))
        | none => .error .missing) = .ok vs := by
  induction fs with
  | nil => intro vs h; exact h
  | cons f rest ih =>
    intro vs h
    rw [List.mapM_cons] at h ⊢
    obtain ⟨nv, hnv, h⟩ := bind_eq_ok.mp h
    obtain ⟨rest', hrest, h⟩ := bind_eq_ok.mp h
    have hname : f.name ≠ "size" := by
      have hk := hgd f (hfs f (by simp))
      have hc := hcar f (by simp)
      unfold wfgdKind at hk
      simp only [Bool.and_eq_true] at hk
      have h1 := hk.1.1
      cases hkk : f.kind <;> simp [hkk, FK.carries] at hc h1 <;> exact h1
    cases hv : Val.get env f.name with
    | none => simp [hv] at hnv
    | some v =>
      have := hloc f (by simp) v hv
      rw [localName_attr hname] at this
      simp only [hv] at hnv
      rw [this, ih (fun x hx => hfs x (by simp [hx])) (fun x hx => hcar x (by simp [hx]))
        (fun x hx => hloc x (by simp [hx])) rest' hrest]
      simp only [bind, Except.bind] at h ⊢
      simp only [Except.ok.injEq] at hnv
      rw [hnv]
      exact h

theorem storedOk_of {S : Schema} {d : StructDef} (h : wfgdStruct S d = true) :
    nonReservedOwn d = (ownFields d).filter (·.kind.carries) := by
  unfold wfgdStruct storedOk at h
  simp only [Bool.and_eq_true, beq_iff_eq] at h
  exact h.1.2

/-- when all members are read nothing is parked any more, and every member is in scope or a base-class member -/
theorem SimQ.final {sm : Option String} {d : StructDef} {σ : PyState} {st : DecState} {ast : DesAstState}
    {base pre : List Field} {pend : PendQ} (hQ : SimQ S d sm σ st ast d.fields base pre pend) :
    ∀ x ∈ d.fields, x ∈ base ∨ x ∈ pre := by
  have hp : pend = none := by
    cases hp : pend with
    | none => rfl
    | some p =>
      obtain ⟨dn, G⟩ := p
      obtain ⟨-, -, -, -, h6, g, hg, hgn, -⟩ := hQ.qsome dn G hp
      exact absurd hgn (h6 g hg)
  subst hp
  intro x hx
  rcases (hQ.mem x).mp hx with h | h | h
  · exact Or.inl h
  · exact Or.inr h
  · cases h

/-- a concrete class without base class: whatever the interpreter decodes, the emitted `deserialize` returns -/
theorem emittedDeserialize_nobase (hwf : WF S = true) (hwgd : WFGD S = true) {name : String} {d : StructDef}
    (hfind : S.find name = some (.struct d)) (hbase : d.base = none)
    (hnn : ∀ ty b v, r.dec ty b = .ok v → v ≠ .none) {ty : String} {payload : Bytes} {v : Val}
    (hdec : decConcrete S T r ty d payload = .ok v) :
    emittedDeserialize S T r ty d payload = .ok v := by
  have hw := wfStruct_iff (WF_struct hwf hfind)
  have hgd := desFieldsOk_of (WFGD_struct hwgd hfind)
  have hown : ownFields d = d.fields := by unfold ownFields; simp [hbase]
  unfold decConcrete at hdec
  obtain ⟨st, hst, hdec⟩ := bind_eq_ok.mp hdec
  obtain ⟨vs, hvs, hdec⟩ := bind_eq_ok.mp hdec
  simp only [Except.ok.injEq] at hdec
  subst hdec
  unfold decFields at hst
  have hitems : emitDeserialize S d = newItems S d (sizeMemberOf d) d.fields {} := by
    unfold emitDeserialize
    rw [hown, emitDesLoop_newItems]
    rfl
  have hS0 : Sim ({ buffer := payload } : PyState) { buf := payload, origLen := payload.length } [] [] :=
    ⟨rfl, (fun _ h => by cases h), (fun _ h => by cases h), (fun _ h => by cases h), (fun _ h => by cases h)⟩
  have hQ0 : SimQ S d (sizeMemberOf d) ({ buffer := payload } : PyState) { buf := payload, origLen := payload.length } {}
      [] [] [] none :=
    ⟨hS0, (fun x => by simp [pendList]), (fun _ h => by cases h), (fun _ h => by cases h), (fun _ h => by cases h),
      (fun _ h => by cases h), (fun _ h => by cases h), (fun _ h => by cases h), rfl, (fun _ => rfl),
      (fun _ _ h => by cases h)⟩
  obtain ⟨σ, pre, pend, hex, hQ⟩ := decFrom_simQ (S := S) (T := T) (r := r) hnn hw.names hgd
    (sizeMember_iff hw hgd) d (fun st i => rebase_no_base d hbase st i) [] d.fields [] [] _ _ st 0 {} [] none (by simp)
    (by simpa using hw.fields) (by simpa using hw.covered) (fun _ _ _ _ x hx => by cases hx) hQ0 hst
  simp only [List.nil_append] at hQ
  have hfin := hQ.final
  unfold emittedDeserialize
  simp only [hbase, hitems, hex, bind, Except.bind]
  unfold objectOf at hvs
  have hsets : setsOf d σ = .ok vs := by
    unfold setsOf
    rw [storedOk_of (WFGD_struct hwgd hfind), hown]
    refine setsOf_eq (fun f hf => (hgd f hf).2.2.1) _ (fun f hf => (List.mem_filter.mp hf).1)
      (fun f hf => by simpa using (List.mem_filter.mp hf).2) ?_ vs hvs
    intro x hx v hv
    rcases hfin x (List.mem_filter.mp hx).1 with h | h
    · cases h
    · exact hQ.sim.loc x h v hv
  rw [hsets]

/-- a class `d` with base class `da`: what well-formedness gives -/
structure BaseCtx (S : Schema) (d : StructDef) (a : String) (da : StructDef) : Prop where
  hfa : S.find a = some (.struct da)
  hwa : WfStruct S a da
  hbn : da.base = none
  huncond : ∀ f ∈ da.fields, f.cond = none
  hgda : DesFieldsOk S da
  hsplit : d.fields = da.fields ++ ownFields d
  hownA : ownFields da = da.fields
  hlen : da.fields.length ≤ d.inherited
  htake : d.fields.take d.inherited = da.fields
  hvis : ∀ f ∈ ownFields d, ∀ n ∈ refsOf f, ∀ x ∈ da.fields, x.name ≠ n

theorem baseCtx_of (hwf : WF S = true) (hwgd : WFGD S = true) {name : String} {d : StructDef}
    (hfind : S.find name = some (.struct d)) {a : String} (hbase : d.base = some a) : ∃ da, BaseCtx S d a da := by
  have hw := wfStruct_iff (WF_struct hwf hfind)
  have hgs := WFGD_struct hwgd hfind
  have hgd := desFieldsOk_of hgs
  obtain ⟨-, da, hfa, hab, htake⟩ := hw.base a hbase
  have hwa := wfStruct_iff (WF_struct hwf hfa)
  obtain ⟨hbn, huncond, -, -⟩ := hwa.abs hab
  have hgda := desFieldsOk_of (WFGD_struct hwgd hfa)
  have hown : ownFields d = d.fields.drop d.inherited := by unfold ownFields; simp [hbase]
  have hsplit : d.fields = da.fields ++ ownFields d := by
    rw [hown, ← htake]; exact (List.take_append_drop _ _).symm
  have hownA : ownFields da = da.fields := by unfold ownFields; simp [hbn]
  have hlen : da.fields.length ≤ d.inherited := by rw [← htake, List.length_take]; exact Nat.min_le_left _ _
  have hrebA : ∀ st i, rebase da st i = st := fun st i => rebase_no_base da hbn st i
  -- the own members mention own members only
  have hvis : ∀ f ∈ ownFields d, ∀ n ∈ refsOf f, ∀ x ∈ da.fields, x.name ≠ n := by
    have h1 : ownRefsOk d = true := by
      unfold wfgdStruct at hgs
      simp only [Bool.and_eq_true] at hgs
      exact hgs.1.1
    unfold ownRefsOk inheritedNames at h1
    simp only [hbase, Option.isSome_some, if_true, htake, List.all_eq_true, Bool.not_eq_true'] at h1
    intro f hf n hn x hx hxn
    have h2 := h1 f hf n hn
    have h3 : (da.fields.map (·.name)).contains n = true := by
      rw [List.contains_iff_mem]
      exact List.mem_map.mpr ⟨x, hx, hxn⟩
    rw [h2] at h3
    cases h3
  exact ⟨da, hfa, hwa, hbn, huncond, hgda, hsplit, hownA, hlen, htake, hvis⟩

/-- the run of `Base._deserialize` when the decoder reads the members of the abstract class `da`: the locals, the size
    local, and where the rest of the buffer lies -/
theorem base_run {a : String} {da : StructDef} (hwa : WfStruct S a da) (hbn : da.base = none)
    (huncond : ∀ f ∈ da.fields, f.cond = none) (hgda : DesFieldsOk S da) (hownA : ownFields da = da.fields)
    (hnn : ∀ ty b v, r.dec ty b = .ok v → v ≠ .none) {payload : Bytes} {st1 : DecState}
    (hst1' : decFrom S T r da da.fields 0 { buf := payload, origLen := payload.length } = .ok st1) :
    ∃ (σ1 : PyState) (e : Nat),
      execItems S T r (emitDeserialize S da)
        (if (ownSizeMember da).isSome then ({ buffer := payload } : PyState)
          else ({ buffer := payload } : PyState).set "size_" (.int (payload.length : Int))) = .ok σ1 ∧
      Sim σ1 st1 [] da.fields ∧ σ1.getInt (sizeLocal da) = .ok (e : Int) ∧ st1.buf <:+ payload.take e ∧
      (st1.sizeVal = some e ∨ (st1.sizeVal = none ∧ e = payload.length)) ∧ st1.origLen = payload.length ∧
      st1.queued = [] := by
  have hrebA : ∀ st i, rebase da st i = st := fun st i => rebase_no_base da hbn st i
  -- the run of `Base._deserialize`
  have hitemsA : emitDeserialize S da =
      da.fields.map (fun f => DesItem.field (desFieldAst S da (sizeMemberOf da) f none)) := by
    unfold emitDeserialize
    rw [hownA, emitDesLoop_early S da (sizeMemberOf da) da.fields [] {} rfl rfl (earlyFrom_uncond _ _ huncond)]
    rfl
  have hbaseRun : ∀ σ0 : PyState, σ0.buffer = payload →
      ∃ σ1, execItems S T r (emitDeserialize S da) σ0 = .ok σ1 ∧ Sim σ1 st1 [] da.fields ∧
        (∀ n, (∀ x ∈ da.fields, localName x ≠ n) → σ1.get n = σ0.get n) := by
    intro σ0 hb0
    have hS0 : Sim σ0 { buf := payload, origLen := payload.length } [] [] :=
      ⟨hb0, (fun _ h => by cases h), (fun _ h => by cases h), (fun _ h => by cases h), (fun _ h => by cases h)⟩
    obtain ⟨σ1, hex1, hS1, -, -, hfr1⟩ := decFrom_sim (S := S) (T := T) (r := r) hnn hwa.names hgda (sizeMemberOf da)
      (sizeMember_iff hwa hgda) da hrebA [] da.fields [] [] σ0 _ st1 0 (by simp)
      (by simpa using hwa.fields) (by simpa using hwa.covered) (by simpa using earlyFrom_uncond da.fields [] huncond)
      (fun _ _ _ _ x hx => by cases hx) hS0 rfl hst1'
    rw [hitemsA]
    exact ⟨σ1, hex1, by simpa using hS1, hfr1⟩
  obtain ⟨hol, hq1, hcase⟩ := base_run_window hrebA hwa.fields huncond hst1'
  -- the window `(size_ - len(buffer), size_)`
  have hwin : ∃ (σ1 : PyState) (e : Nat),
      execItems S T r (emitDeserialize S da)
        (if (ownSizeMember da).isSome then ({ buffer := payload } : PyState)
          else ({ buffer := payload } : PyState).set "size_" (.int (payload.length : Int))) = .ok σ1 ∧
      Sim σ1 st1 [] da.fields ∧ σ1.getInt (sizeLocal da) = .ok (e : Int) ∧ st1.buf <:+ payload.take e ∧
      (st1.sizeVal = some e ∨ (st1.sizeVal = none ∧ e = payload.length)) := by
    rcases hcase with ⟨f0, w, rest, hfs, hk0, hsv, hsuf, henv⟩ | ⟨hns, hsv, hsuf⟩
    · have hf0 : f0 ∈ da.fields := by rw [hfs]; simp
      have hown0 : ownSizeMember da = some f0 := by
        unfold ownSizeMember
        rw [hownA, hfs]
        simp [hk0]
      have hloc0 : sizeLocal da = localName f0 := by unfold sizeLocal; rw [hown0]; rfl
      obtain ⟨σ1, hex1, hS1, -⟩ := hbaseRun
        (if (ownSizeMember da).isSome then ({ buffer := payload } : PyState)
          else ({ buffer := payload } : PyState).set "size_" (.int (payload.length : Int))) (by split <;> rfl)
      have h0 := decInt_unsigned_nonneg w payload
      refine ⟨σ1, (decInt w false payload).toNat, hex1, hS1, ?_, hsuf, ?_⟩
      · have := hS1.loc f0 hf0 _ henv
        rw [hloc0]
        unfold PyState.getInt
        rw [this, Int.toNat_of_nonneg h0]
      · exact Or.inl hsv
    · have hnosize : ownSizeMember da = none := by
        unfold ownSizeMember
        rw [hownA, List.find?_eq_none]
        intro x hx
        cases hk : x.kind <;> simp
        exact hns x hx _ hk
      have hloc0 : sizeLocal da = "size_" := by unfold sizeLocal; rw [hnosize]
      obtain ⟨σ1, hex1, hS1, hfr⟩ := hbaseRun (({ buffer := payload } : PyState).set "size_" (.int (payload.length : Int))) rfl
      refine ⟨σ1, payload.length, ?_, hS1, ?_, by rw [List.take_length]; exact hsuf, ?_⟩
      · simp only [hnosize, Option.isSome_none, Bool.false_eq_true, if_false]; exact hex1
      · have hfresh : ∀ x ∈ da.fields, localName x ≠ "size_" := by
          intro x hx heq
          obtain ⟨hmx, hnx, hkx, -⟩ := hgda x hx
          have hxn : x.name = "size" :=
            localName_inj (b := ⟨"size", .int 1 false, none⟩) hmx (by decide) hnx (by decide) (by rw [heq]; decide)
          unfold wfgdKind at hkx
          cases hk : x.kind <;> simp [hk, hxn] at hkx
          exact hns x hx _ hk
        rw [hloc0]
        unfold PyState.getInt
        rw [hfr _ hfresh, PyState.get_set]
        simp
      · exact Or.inr ⟨hsv, rfl⟩
  obtain ⟨σ1, e, hex1, hS1, hsz, hsuf, hsv⟩ := hwin
  exact ⟨σ1, e, hex1, hS1, hsz, hsuf, hsv, hol, hq1⟩

/-- … and the window it returns is the decoder's buffer at the boundary between inherited and own members -/
theorem base_part {d : StructDef} {a : String} {da : StructDef} (hc : BaseCtx S d a da) (hwgd : WFGD S = true)
    (hbase : d.base = some a) (hnn : ∀ ty b v, r.dec ty b = .ok v → v ≠ .none) {payload : Bytes} {st1 : DecState}
    (hst1' : decFrom S T r da da.fields 0 { buf := payload, origLen := payload.length } = .ok st1) :
    ∃ (σ1 : PyState) (e : Nat),
      execItems S T r (emitDeserialize S da)
        (if (ownSizeMember da).isSome then ({ buffer := payload } : PyState)
          else ({ buffer := payload } : PyState).set "size_" (.int (payload.length : Int))) = .ok σ1 ∧
      Sim σ1 st1 [] da.fields ∧ σ1.getInt (sizeLocal da) = .ok (e : Int) ∧
      pySlice payload ((e : Int) - (σ1.buffer.length : Int)) (e : Int) = (rebase d st1 d.inherited).buf ∧
      st1.queued = [] := by
  obtain ⟨hfa, hwa, hbn, huncond, hgda, hsplit, hownA, hlen, htake, hvis⟩ := hc
  obtain ⟨σ1, e, hex1, hS1, hsz, hsuf, hsv, hol, hq1⟩ := base_run hwa hbn huncond hgda hownA hnn hst1'
  have hreb1 : (rebase d st1 d.inherited).buf = st1.buf.drop (e - payload.length) := by
    rcases hsv with hsv | ⟨hsv, he⟩
    · unfold rebase
      simp [hbase, hsv, hol]
    · unfold rebase
      simp [hsv, he]
  have hwindow : pySlice payload ((e : Int) - (σ1.buffer.length : Int)) (e : Int) = (rebase d st1 d.inherited).buf := by
    rw [hS1.buf, window_slice payload e st1.buf hsuf, hreb1]
  exact ⟨σ1, e, hex1, hS1, hsz, hwindow, hq1⟩

/-- a concrete class with a base class: `Base._deserialize`, the window it returns, then the class's own members in a
    fresh scope -/
theorem emittedDeserialize_base (hwf : WF S = true) (hwgd : WFGD S = true) {name : String} {d : StructDef}
    (hfind : S.find name = some (.struct d)) {a : String} (hbase : d.base = some a)
    (hnn : ∀ ty b v, r.dec ty b = .ok v → v ≠ .none) {ty : String} {payload : Bytes} {v : Val}
    (hdec : decConcrete S T r ty d payload = .ok v) :
    emittedDeserialize S T r ty d payload = .ok v := by
  have hw := wfStruct_iff (WF_struct hwf hfind)
  have hgs := WFGD_struct hwgd hfind
  have hgd := desFieldsOk_of hgs
  obtain ⟨da, hctx⟩ := baseCtx_of hwf hwgd hfind hbase
  obtain ⟨hfa, hwa, hbn, huncond, hgda, hsplit, hownA, hlen, htake, hvis⟩ := hctx
  have hctx : BaseCtx S d a da := ⟨hfa, hwa, hbn, huncond, hgda, hsplit, hownA, hlen, htake, hvis⟩
  -- the decoder: base members, then own members
  unfold decConcrete at hdec
  obtain ⟨st, hst, hdec⟩ := bind_eq_ok.mp hdec
  obtain ⟨vs, hvs, hdec⟩ := bind_eq_ok.mp hdec
  simp only [Except.ok.injEq] at hdec
  subst hdec
  unfold decFields at hst
  have hst' : decFrom S T r d (da.fields ++ ownFields d) 0 { buf := payload, origLen := payload.length } = .ok st := by
    rw [← hsplit]; exact hst
  rw [decFrom_append] at hst'
  obtain ⟨st1, hst1, hst2⟩ := bind_eq_ok.mp hst'
  simp only [Nat.zero_add] at hst2
  have hst1' : decFrom S T r da da.fields 0 { buf := payload, origLen := payload.length } = .ok st1 := by
    rw [← decFrom_congr d da da.fields 0 _ (fun i st' _ hi => by
      rw [rebase_before d st' (by omega), rebase_no_base da hbn])]
    exact hst1
  obtain ⟨σ1, e, hex1, hS1, hsz, hwindow, hq1⟩ := base_part hctx hwgd hbase hnn hst1'
  -- the members set on the instance by the base class
  unfold objectOf at hvs
  rw [hsplit, List.filter_append, List.mapM_append] at hvs
  obtain ⟨vsA, hvsA, hvs⟩ := bind_eq_ok.mp hvs
  obtain ⟨vsO, hvsO, hvs⟩ := bind_eq_ok.mp hvs
  simp only [pure, Except.pure, Except.ok.injEq] at hvs
  subst hvs
  obtain ⟨ext, hext⟩ := decFrom_env d (ownFields d) da.fields.length st1 st hst2
  have hsetsA : setsOf da σ1 = .ok vsA := by
    unfold setsOf
    rw [storedOk_of (WFGD_struct hwgd hfa), hownA]
    refine setsOf_eq (fun f hf => (hgda f hf).2.2.1) _ (fun f hf => (List.mem_filter.mp hf).1)
      (fun f hf => by simpa using (List.mem_filter.mp hf).2) (env := st.env) ?_ vsA hvsA
    intro x hx v hv
    have hxm : x ∈ da.fields := (List.mem_filter.mp hx).1
    obtain ⟨v', hv'⟩ := Option.isSome_iff_exists.mp (hS1.has x hxm)
    rw [hext, get_append_some hv'] at hv
    simp only [Option.some.injEq] at hv
    subst hv
    exact hS1.loc x hxm _ hv'
  -- the class's own members
  unfold emittedDeserialize
  simp only [hbase, hfa]
  unfold emittedBaseDeserialize
  simp only [hex1, hsetsA, hsz, bind, Except.bind, hwindow]
  cases hownl : ownFields d with
  | nil =>
    rw [hownl] at hvsO
    simp only [List.filter_nil, List.mapM_nil, pure, Except.pure, Except.ok.injEq] at hvsO
    subst hvsO
    unfold emitDeserialize setsOf
    rw [storedOk_of hgs]
    simp [hownl, emitDesLoop, execItems, pure, Except.pure]
  | cons f rest =>
    have hinh : d.inherited = da.fields.length := by
      have h1 : da.fields.length = min d.inherited d.fields.length := by rw [← htake, List.length_take]
      have h2 : d.fields.length = da.fields.length + (ownFields d).length := by rw [hsplit]; simp
      rw [hownl] at h2
      simp only [List.length_cons] at h2
      omega
    let d0 : StructDef := { d with base := none }
    have hreb0 : ∀ st i, rebase d0 st i = st := fun st i => rebase_no_base d0 rfl st i
    have hst2' : decFrom S T r d0 (ownFields d) d.inherited (rebase d st1 d.inherited) = .ok st := by
      rw [← hinh, hownl] at hst2
      rw [hownl]
      unfold decFrom at hst2 ⊢
      have hstep : decFieldStep S T r d0 (rebase d st1 d.inherited) d.inherited f =
          decFieldStep S T r d st1 d.inherited f := by
        unfold decFieldStep
        rw [hreb0]
      rw [hstep]
      obtain ⟨stm, hm, hst2⟩ := bind_eq_ok.mp hst2
      simp only [hm, bind, Except.bind]
      rw [← decFrom_congr d d0 rest (d.inherited + 1) stm (fun i st' h1 _ => by
        rw [hreb0]
        unfold rebase
        have : (i == d.inherited) = false := by simp only [beq_eq_false_iff_ne, ne_eq]; omega
        simp [this])]
      exact hst2
    have hwf' : wfFieldsFrom S d [] (da.fields ++ ownFields d) = true := by rw [← hsplit]; exact hw.fields
    have hcov' : coveredFrom S [] (da.fields ++ ownFields d) = true := by rw [← hsplit]; exact hw.covered
    have hSc : Sim ({ buffer := (rebase d st1 d.inherited).buf } : PyState) (rebase d st1 d.inherited) da.fields [] := by
      refine ⟨rfl, (fun _ h => by cases h), (fun _ h => by cases h), ?_, (fun _ h => by cases h)⟩
      intro nv hnv
      rw [rebase_env] at hnv
      obtain ⟨x, hx, hxn⟩ := hS1.names nv hnv
      exact ⟨x, by simpa using hx, hxn⟩
    have hQ0 : SimQ S d (sizeMemberOf d) ({ buffer := (rebase d st1 d.inherited).buf } : PyState)
        (rebase d st1 d.inherited) {} da.fields da.fields [] none :=
      ⟨hSc, (fun x => by simp [pendList]), (fun _ h => by cases h), (fun _ h => by cases h), (fun _ h => by cases h),
        huncond, (fun _ h => by cases h), (fun _ h => by cases h), rfl, (fun _ => by rw [rebase_queued]; exact hq1),
        (fun _ _ h => by cases h)⟩
    obtain ⟨σ2, pre2, pend2, hex2, hQ2⟩ := decFrom_simQ (S := S) (T := T) (r := r) hnn hw.names hgd
      (sizeMember_iff hw hgd) d0 hreb0 da.fields (ownFields d) da.fields [] _ _ st d.inherited {} [] none
      (by simpa using hsplit)
      (by simpa using wfFieldsFrom_append da.fields [] (ownFields d) hwf')
      (by simpa using coveredFrom_append da.fields [] (ownFields d) hcov')
      hvis hQ0 hst2'
    rw [← hsplit] at hQ2
    have hfin := hQ2.final
    have hitems : emitDeserialize S d = newItems S d (sizeMemberOf d) (ownFields d) {} := by
      unfold emitDeserialize
      rw [emitDesLoop_newItems]
      rfl
    have hsetsO : setsOf d σ2 = .ok vsO := by
      unfold setsOf
      rw [storedOk_of hgs]
      refine setsOf_eq (fun f hf => (hgd f hf).2.2.1) _
        (fun f hf => by rw [hsplit]; exact List.mem_append_right _ (List.mem_filter.mp hf).1)
        (fun f hf => by simpa using (List.mem_filter.mp hf).2) (env := st.env) ?_ vsO hvsO
      intro x hx v hv
      have hxo : x ∈ ownFields d := (List.mem_filter.mp hx).1
      rcases hfin x (by rw [hsplit]; exact List.mem_append_right _ hxo) with h | h
      · -- an own member is not a base-class member: names are distinct
        exfalso
        have hnd := hw.names
        rw [hsplit, List.map_append] at hnd
        exact allDistinct_disjoint hnd x.name (List.mem_map_of_mem (f := (·.name)) h)
          (List.mem_map_of_mem (f := (·.name)) hxo)
      · exact hQ2.sim.loc x h v hv
    rw [hitems, hex2]
    simp only [hsetsO]

/-- a concrete class, with or without base class, with or without members laid out before their discriminant -/
theorem emittedDeserialize_of_dec (hwf : WF S = true) (hwgd : WFGD S = true) {name : String} {d : StructDef}
    (hfind : S.find name = some (.struct d))
    (hnn : ∀ ty b v, r.dec ty b = .ok v → v ≠ .none) {ty : String} {payload : Bytes} {v : Val}
    (hdec : decConcrete S T r ty d payload = .ok v) :
    emittedDeserialize S T r ty d payload = .ok v := by
  cases hb : d.base with
  | none => exact emittedDeserialize_nobase hwf hwgd hfind hb hnn hdec
  | some a => exact emittedDeserialize_base hwf hwgd hfind hb hnn hdec

/-- the interpreter's decoders never return `None` -/
theorem recN_dec_ne_none (S : Schema) (T : String → Bytes → Bytes) : ∀ (n : Nat) (ty : String) (b : Bytes) (v : Val),
    (recN S T n).dec ty b = .ok v → v ≠ .none := by
  intro n
  induction n with
  | zero => intro ty b v h; cases h
  | succ n ih =>
    intro ty b v h
    have h' : decTypeStep S T (recN S T n) ty b = .ok v := h
    have hconc : ∀ ty' d', decConcrete S T (recN S T n) ty' d' b = .ok v → v ≠ .none := by
      intro ty' d' hc
      unfold decConcrete at hc
      obtain ⟨st, -, hc⟩ := bind_eq_ok.mp hc
      obtain ⟨vs, -, hc⟩ := bind_eq_ok.mp hc
      simp only [Except.ok.injEq] at hc
      rw [← hc]
      intro hh; cases hh
    unfold decTypeStep at h'
    split at h'
    · simp only [Except.ok.injEq] at h'; rw [← h']; intro hh; cases hh
    · split at h'
      · cases h'
      · simp only [Except.ok.injEq] at h'; rw [← h']; intro hh; cases hh
    · simp only at h'
      split at h'
      · simp only [Except.ok.injEq] at h'; rw [← h']; intro hh; cases hh
      · cases h'
    · split at h'
      · obtain ⟨st, -, h'⟩ := bind_eq_ok.mp h'
        obtain ⟨disc, -, h'⟩ := bind_eq_ok.mp h'
        split at h'
        · split at h'
          · split at h'
            · exact ih _ _ _ h'
            · exact hconc _ _ h'
          · exact ih _ _ _ h'
        · cases h'
      · exact hconc _ _ h'
    · cases h'

end
end SymbolVerif.Codec

/-
Emitted `deserialize`, semantics part 4: a whole class.
-/
import SymbolVerif.Proofs.Codec.EmissionDesRun
import SymbolVerif.Proofs.Codec.EmissionClass
namespace SymbolVerif.Codec
open SymbolVerif.Bytes

theorem WFGD_struct {S : Schema} (h : WFGD S = true) {n : String} {d : StructDef} (hf : S.find n = some (.struct d)) :
    wfgdStruct S d = true := by
  have hm := Schema.find_mem hf
  unfold WFGD at h
  simp only [List.all_eq_true] at h
  simpa using h _ hm

/-- the size member of the class, as the generator determines it, is the member of kind `sizeF` -/
theorem sizeMember_iff {S : Schema} {name : String} {d : StructDef} (hw : WfStruct S name d) (hgd : DesFieldsOk S d) :
    ∀ f ∈ d.fields, (sizeMemberOf d == some (printerName f.name)) = true ↔ ∃ w, f.kind = .sizeF w := by
  intro f hf
  unfold sizeMemberOf
  constructor
  · intro h
    cases hh : d.fields.head? with
    | none => simp [hh] at h
    | some g =>
      obtain ⟨n, k, c⟩ := g
      have hgm : (⟨n, k, c⟩ : Field) ∈ d.fields := List.mem_of_head? hh
      cases k with
      | sizeF w =>
        simp only [hh, beq_iff_eq, Option.some.injEq] at h
        have hname : f.name = n := (printerName_inj (hgd _ hgm).1 (hgd f hf).1 h).symm
        have : f = ⟨n, .sizeF w, c⟩ := eq_of_name_eq hw.names hf hgm hname
        exact ⟨w, by rw [this]⟩
      | _ => simp [hh] at h
  · intro ⟨w, hk⟩
    obtain ⟨pre, post, hsplit, hwfa, -⟩ := field_pos hw.fields hw.covered hf
    obtain ⟨hpre, -⟩ := wfFieldAt_sizeF hwfa hk
    subst hpre
    simp only [List.nil_append] at hsplit
    obtain ⟨n, k, c⟩ := f
    simp only at hk
    subst hk
    simp [hsplit]

section
variable {S : Schema} {T : String → Bytes → Bytes} {r : Rec}

/-- the members set on the instance are the members of the interpreter's object -/
theorem setsOf_eq {d : StructDef} (hgd : ∀ f ∈ d.fields, wfgdKind f = true) (fs : List Field) (hfs : ∀ f ∈ fs, f ∈ d.fields)
    (hcar : ∀ f ∈ fs, f.kind.carries = true)
    {σ : PyState} {env : List (String × Val)}
    (hloc : ∀ x ∈ fs, ∀ v, Val.get env x.name = some v → σ.get (localName x) = some v) :
    ∀ vs, fs.mapM (fun f => match Val.get env f.name with
        | some v => (.ok (f.name, v) : R (String × Val))
        | none => .error .missing) = .ok vs →
      fs.mapM (fun f => match σ.get (printerName f.name) with
        | some v => (.ok (f.name, v) : R (String × Val))
        | none => .error .missing) = .ok vs := by
  induction fs with
  | nil => intro vs h; exact h
  | cons f rest ih =>
    intro vs h
    rw [List.mapM_cons] at h ⊢
    obtain ⟨nv, hnv, h⟩ := bind_eq_ok.mp h
    obtain ⟨rest', hrest, h⟩ := bind_eq_ok.mp h
    have hname : f.name ≠ "size" := by
      have hk := hgd f (hfs f (by simp))
      have hc := hcar f (by simp)
      unfold wfgdKind at hk
      simp only [Bool.and_eq_true] at hk
      have h1 := hk.1.1
      cases hkk : f.kind <;> simp [hkk, FK.carries] at hc h1 <;> exact h1
    cases hv : Val.get env f.name with
    | none => simp [hv] at hnv
    | some v =>
      have := hloc f (by simp) v hv
      rw [localName_attr hname] at this
      simp only [hv] at hnv
      rw [this, ih (fun x hx => hfs x (by simp [hx])) (fun x hx => hcar x (by simp [hx]))
        (fun x hx => hloc x (by simp [hx])) rest' hrest]
      simp only [bind, Except.bind] at h ⊢
      simp only [Except.ok.injEq] at hnv
      rw [hnv]
      exact h

/-- a concrete class without base class and without forward conditions: whatever the interpreter decodes, the
    emitted `deserialize` returns -/
theorem emittedDeserialize_nobase (hwf : WF S = true) (hwgd : WFGD S = true) {name : String} {d : StructDef}
    (hfind : S.find name = some (.struct d)) (hbase : d.base = none) (hnu : d.noUnion = true)
    (hnn : ∀ ty b v, r.dec ty b = .ok v → v ≠ .none) {ty : String} {payload : Bytes} {v : Val}
    (hdec : decConcrete S T r ty d payload = .ok v) :
    emittedDeserialize S T r ty d payload = .ok v := by
  have hw := wfStruct_iff (WF_struct hwf hfind)
  have hgd := desFieldsOk_of (WFGD_struct hwgd hfind)
  have hown : ownFields d = d.fields := by unfold ownFields; simp [hbase]
  unfold decConcrete at hdec
  obtain ⟨st, hst, hdec⟩ := bind_eq_ok.mp hdec
  obtain ⟨vs, hvs, hdec⟩ := bind_eq_ok.mp hdec
  simp only [Except.ok.injEq] at hdec
  subst hdec
  unfold decFields at hst
  have hitems : emitDeserialize S d = d.fields.map (fun f => DesItem.field (desFieldAst S d (sizeMemberOf d) f none)) := by
    unfold emitDeserialize
    rw [hown, emitDesLoop_early S d (sizeMemberOf d) d.fields [] {} rfl rfl hnu]
    rfl
  have hS0 : Sim ({ buffer := payload } : PyState) { buf := payload, origLen := payload.length } [] :=
    ⟨rfl, (fun _ h => by cases h), (fun _ h => by cases h), (fun _ h => by cases h), (fun _ h => by cases h)⟩
  obtain ⟨σ, hex, hS, -, -⟩ := decFrom_sim (S := S) (T := T) (r := r) hnn hw.names hgd (sizeMemberOf d)
    (sizeMember_iff hw hgd) d (fun st i => rebase_no_base d hbase st i) d.fields [] [] _ _ st 0 (by simp)
    (by simpa using hw.fields) (by simpa using hw.covered) (by simpa [StructDef.noUnion] using hnu) hS0 rfl hst
  unfold emittedDeserialize
  simp only [hbase, hitems, hex, bind, Except.bind]
  unfold objectOf at hvs
  have hsets : setsOf d σ = .ok vs := by
    unfold setsOf
    rw [hown]
    exact setsOf_eq (fun f hf => (hgd f hf).2.2.1) _ (fun f hf => (List.mem_filter.mp hf).1)
      (fun f hf => by simpa using (List.mem_filter.mp hf).2)
      (fun x hx v hv => hS.loc x (by simpa using (List.mem_filter.mp hx).1) v hv) vs hvs
  rw [hsets]

end
end SymbolVerif.Codec

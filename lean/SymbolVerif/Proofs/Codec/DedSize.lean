/-
Decode-encode direction, part 9: the decoded object has a size.
-/
import SymbolVerif.Proofs.Codec.DedCond
namespace SymbolVerif.Codec
open SymbolVerif.Bytes

section
variable {S : Schema} {T : String → Bytes → Bytes} {g fa : String → Val → Bool} {r : Rec}
variable {name : String} {d : StructDef} {E vs : List (String × Val)}

/-- the size of a member that `serialize` writes -/
theorem DedStruct.fsize_ok (h : DedStruct S T g fa r name d E vs) {f : Field} (hf : f ∈ d.fields) {v : Val}
    (hv : Val.get E f.name = some v) (hps : PaySpec S T r E f v) :
    ∃ n, fieldSize r f (Val.get vs f.name) = .ok n := by
  by_cases hcar : f.kind.carries = false
  · exact ⟨_, fieldSize_derived r f hcar _⟩
  · have hcar' : f.kind.carries = true := by simpa using hcar
    have hvsv : Val.get vs f.name = some v := by rw [h.carried hf hcar', hv]
    unfold fieldSize
    unfold PaySpec at hps
    cases hk : f.kind with
    | int w s => exact ⟨w, rfl⟩
    | reserved w s value => exact ⟨w, rfl⟩
    | sizeF w => exact ⟨w, rfl⟩
    | count w s t a => exact ⟨w, rfl⟩
    | byteSize w s t => exact ⟨w, rfl⟩
    | sizeOf w s t => exact ⟨w, rfl⟩
    | sizeRef w s t dl => exact ⟨w, rfl⟩
    | ref ty lim =>
      simp only [hk] at hps
      obtain ⟨-, -, b, -, hsz⟩ := h.memberRef hf hk hvsv hps
      exact ⟨b.length, by simp [hvsv, hsz]⟩
    | barray sf =>
      simp only [hk] at hps
      obtain ⟨n, b, -, hvb, -⟩ := hps
      subst hvb
      exact ⟨b.length, by simp [hvsv]⟩
    | array elem mode al pl key =>
      simp only [hk] at hps
      obtain ⟨l, hvl, -, hfrom, -⟩ := hps
      subst hvl
      have hm := h.memberArr hf hk hvsv hfrom
      obtain ⟨ss, hss⟩ := elemSizes_ok r elem l (fun e he => by
        obtain ⟨-, b, -, hs⟩ := hm e he
        exact ⟨b.length, hs⟩)
      exact ⟨arraySize ss al pl, by simp [hvsv, hss, bind, Except.bind]⟩

theorem DedStruct.sizeFrom_ok (h : DedStruct S T g fa r name d E vs) (fs : List Field) (hfs : ∀ f ∈ fs, f ∈ d.fields) :
    ∃ n, sizeFrom r d vs fs = .ok n := by
  induction fs with
  | nil => exact ⟨0, rfl⟩
  | cons f rest ih =>
    obtain ⟨n, hn⟩ := ih (fun x hx => hfs x (by simp [hx]))
    obtain ⟨v, p, hv, hp, -, hps⟩ := h.cond_ok (hfs f (by simp))
    unfold sizeFrom
    cases p with
    | false => exact ⟨0 + n, by simp [hp, hn, bind, Except.bind]⟩
    | true =>
      obtain ⟨m, hm⟩ := h.fsize_ok (hfs f (by simp)) hv (hps rfl)
      exact ⟨m + n, by simp [hp, hm, hn, bind, Except.bind]⟩

theorem DedStruct.structSize_ok (h : DedStruct S T g fa r name d E vs) : ∃ n, structSize r d vs = .ok n :=
  h.sizeFrom_ok d.fields (fun _ hf => hf)

end
end SymbolVerif.Codec

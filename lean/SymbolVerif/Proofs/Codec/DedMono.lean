/-
Decode-encode direction: the locals of `deserialize` only grow (any run, any schema).
-/
import SymbolVerif.Proofs.Codec.DedRun
namespace SymbolVerif.Codec
open SymbolVerif.Bytes

section
variable {S : Schema} {T : String → Bytes → Bytes} {r : Rec}

theorem flushStep_env {acc acc' : List (String × Val) × Bytes} {f : Field}
    (h : flushStep S T r acc f = .ok acc') : ∃ v, acc'.1 = acc.1 ++ [(f.name, v)] := by
  unfold flushStep at h
  cases hc : f.cond with
  | none => simp [hc] at h
  | some c =>
    simp only [hc] at h
    obtain ⟨pd, -, h⟩ := bind_eq_ok.mp h
    cases pd with
    | true =>
      simp only [if_true] at h
      obtain ⟨⟨v, adv⟩, -, h⟩ := bind_eq_ok.mp h
      simp only [pure, Except.pure, Except.ok.injEq] at h
      exact ⟨v, by rw [← h]⟩
    | false =>
      simp only [Bool.false_eq_true, if_false, pure, Except.pure, Except.ok.injEq] at h
      exact ⟨.none, by rw [← h]⟩

theorem flushFold_env (G : List Field) : ∀ (acc acc' : List (String × Val) × Bytes),
    G.foldlM (flushStep S T r) acc = .ok acc' → ∃ ext, acc'.1 = acc.1 ++ ext := by
  induction G with
  | nil =>
    intro acc acc' h
    simp only [List.foldlM_nil, pure, Except.pure, Except.ok.injEq] at h
    exact ⟨[], by rw [← h]; simp⟩
  | cons m ms ih =>
    intro acc acc' h
    rw [List.foldlM_cons] at h
    obtain ⟨acc1, h1, h⟩ := bind_eq_ok.mp h
    obtain ⟨v, hv⟩ := flushStep_env h1
    obtain ⟨ext, hext⟩ := ih acc1 acc' h
    exact ⟨(m.name, v) :: ext, by rw [hext, hv]; simp⟩

theorem flushQueued_env {n : String} {st st' : DecState} (h : flushQueued S T r n st = .ok st') :
    ∃ ext, st'.env = st.env ++ ext := by
  unfold flushQueued at h
  split at h
  · simp only [Except.ok.injEq] at h
    exact ⟨[], by rw [← h]; simp⟩
  · obtain ⟨acc, hacc, h⟩ := bind_eq_ok.mp h
    simp only [Except.ok.injEq] at h
    obtain ⟨ext, hext⟩ := flushFold_env _ _ _ hacc
    exact ⟨ext, by rw [← h]; exact hext⟩

theorem decFieldStep_env {d' : StructDef} {st st' : DecState} {idx : Nat} {f : Field}
    (h : decFieldStep S T r d' st idx f = .ok st') : ∃ ext, st'.env = st.env ++ ext := by
  unfold decFieldStep at h
  simp only [] at h
  have he0 := rebase_env d' st idx
  generalize rebase d' st idx = st0 at h he0
  cases hc : f.cond with
  | none =>
    simp only [hc] at h
    unfold decPlainField at h
    obtain ⟨⟨v, adv⟩, -, h⟩ := bind_eq_ok.mp h
    obtain ⟨ext, hext⟩ := flushQueued_env h
    exact ⟨(f.name, v) :: ext, by rw [hext, afterPlain_env, he0]; simp⟩
  | some c =>
    simp only [hc] at h
    unfold decCondField at h
    split at h
    · obtain ⟨pd, -, h⟩ := bind_eq_ok.mp h
      cases pd with
      | true =>
        simp only [if_true] at h
        obtain ⟨⟨v, adv⟩, -, h⟩ := bind_eq_ok.mp h
        simp only [pure, Except.pure, Except.ok.injEq] at h
        exact ⟨[(f.name, v)], by rw [← h, ← he0]⟩
      | false =>
        simp only [Bool.false_eq_true, if_false, pure, Except.pure, Except.ok.injEq] at h
        exact ⟨[(f.name, .none)], by rw [← h, ← he0]⟩
    · split at h
      · simp only [pure, Except.pure, Except.ok.injEq] at h
        exact ⟨[], by rw [← h, ← he0]; simp⟩
      · obtain ⟨⟨v, adv⟩, -, h⟩ := bind_eq_ok.mp h
        simp only [pure, Except.pure, Except.ok.injEq] at h
        exact ⟨[], by rw [← h, ← he0]; simp⟩

theorem decFrom_env (d' : StructDef) (fs : List Field) : ∀ (idx : Nat) (st st' : DecState),
    decFrom S T r d' fs idx st = .ok st' → ∃ ext, st'.env = st.env ++ ext := by
  induction fs with
  | nil =>
    intro idx st st' h
    simp only [decFrom, Except.ok.injEq] at h
    exact ⟨[], by rw [← h]; simp⟩
  | cons f fs ih =>
    intro idx st st' h
    unfold decFrom at h
    obtain ⟨st1, h1, h⟩ := bind_eq_ok.mp h
    obtain ⟨e1, he1⟩ := decFieldStep_env h1
    obtain ⟨e2, he2⟩ := ih _ _ _ h
    exact ⟨e1 ++ e2, by rw [he2, he1]; simp⟩

end
end SymbolVerif.Codec

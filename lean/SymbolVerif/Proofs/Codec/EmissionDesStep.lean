/-
Emitted `deserialize`, semantics part 2: the statements the generator emits for one member (read at once)
simulate one step of the layout interpreter's decoder.
-/
import SymbolVerif.Proofs.Codec.EmissionDesSim
import SymbolVerif.Proofs.Codec.DedRun
import SymbolVerif.Proofs.Codec.DedCond
namespace SymbolVerif.Codec
open SymbolVerif.Bytes

/-- the relation after a member got its local -/
theorem Sim.snoc {σ σ' : PyState} {st st' : DecState} {hid pre : List Field} {f : Field} {v : Val} (h : Sim σ st hid pre)
    (henv : st'.env = st.env ++ [(f.name, v)]) (hbuf : σ'.buffer = st'.buf)
    (hold : ∀ x ∈ pre, σ'.get (localName x) = σ.get (localName x))
    (hnew : σ'.get (localName f) = some v) (hne' : ∀ x ∈ hid ++ pre, x.name ≠ f.name)
    (hnn : f.kind.isBoundSize = true → ∀ i, v = .int i → 0 ≤ i) : Sim σ' st' hid (pre ++ [f]) := by
  have hne : ∀ x ∈ pre, x.name ≠ f.name := fun x hx => hne' x (List.mem_append_right _ hx)
  have hnone : Val.get st.env f.name = none := by
    apply get_none_of_names
    intro nv hnv
    obtain ⟨x, hx, hxn⟩ := h.names nv hnv
    rw [← hxn]
    exact hne' x hx
  have hgetf : Val.get st'.env f.name = some v := by
    rw [henv, get_append_none hnone]; simp [Val.get]
  refine ⟨hbuf, ?_, ?_, ?_, ?_⟩
  · intro x hx v' hv'
    rcases List.mem_append.mp hx with hx | hx
    · cases hold' : Val.get st.env x.name with
      | none =>
        rw [henv, get_append_none hold'] at hv'
        have : Val.get [(f.name, v)] x.name = none := by
          apply get_none_of_names
          intro nv hnv
          simp only [List.mem_singleton] at hnv
          subst hnv
          exact fun hh => hne x hx hh.symm
        rw [this] at hv'
        cases hv'
      | some v'' =>
        rw [henv, get_append_some hold'] at hv'
        simp only [Option.some.injEq] at hv'
        subst hv'
        rw [hold x hx]
        exact h.loc x hx _ hold'
    · simp only [List.mem_singleton] at hx
      subst hx
      rw [hgetf] at hv'
      simp only [Option.some.injEq] at hv'
      subst hv'
      exact hnew
  · intro x hx hb i hi
    rcases List.mem_append.mp hx with hx | hx
    · cases hold' : Val.get st.env x.name with
      | none =>
        rw [henv, get_append_none hold'] at hi
        have : Val.get [(f.name, v)] x.name = none := by
          apply get_none_of_names
          intro nv hnv
          simp only [List.mem_singleton] at hnv
          subst hnv
          exact fun hh => hne x hx hh.symm
        rw [this] at hi
        cases hi
      | some v'' =>
        rw [henv, get_append_some hold'] at hi
        simp only [Option.some.injEq] at hi
        subst hi
        exact h.nonneg x hx hb i hold'
    · simp only [List.mem_singleton] at hx
      subst hx
      rw [hgetf] at hi
      simp only [Option.some.injEq] at hi
      exact hnn hb i hi
  · intro nv hnv
    rw [henv] at hnv
    rcases List.mem_append.mp hnv with hnv | hnv
    · obtain ⟨x, hx, hxn⟩ := h.names nv hnv
      exact ⟨x, by rw [← List.append_assoc]; exact List.mem_append_left _ hx, hxn⟩
    · simp only [List.mem_singleton] at hnv
      subst hnv
      exact ⟨f, by simp, rfl⟩
  · intro x hx
    rcases List.mem_append.mp hx with hx | hx
    · obtain ⟨w, hw⟩ := Option.isSome_iff_exists.mp (h.has x hx)
      rw [henv, get_append_some hw]; rfl
    · simp only [List.mem_singleton] at hx
      subst hx
      rw [hgetf]; rfl

section
variable {S : Schema} {T : String → Bytes → Bytes} {r : Rec} {d : StructDef}

/-- count / size members are read unsigned -/
theorem payload_bound {env : List (String × Val)} {f : Field} {view : Bytes} {v : Val} {adv : Nat}
    (hpay : decPayload S T r env f view = .ok (v, adv)) (hg : wfgdKind f = true) (hb : f.kind.isBoundSize = true) :
    ∀ i, v = .int i → 0 ≤ i := by
  unfold decPayload at hpay
  unfold wfgdKind at hg
  cases hk : f.kind with
  | count w s t a =>
    simp only [hk, Bool.and_eq_true, Bool.not_eq_true'] at hpay hg
    simp only [hg.1.2, Except.ok.injEq, Prod.mk.injEq] at hpay
    intro i hi
    rw [← hpay.1] at hi
    simp only [Val.int.injEq] at hi
    rw [← hi]; exact decInt_unsigned_nonneg w view
  | byteSize w s t =>
    simp only [hk, Bool.and_eq_true, Bool.not_eq_true'] at hpay hg
    simp only [hg.1.2, Except.ok.injEq, Prod.mk.injEq] at hpay
    intro i hi
    rw [← hpay.1] at hi
    simp only [Val.int.injEq] at hi
    rw [← hi]; exact decInt_unsigned_nonneg w view
  | sizeOf w s t =>
    simp only [hk, Bool.and_eq_true, Bool.not_eq_true'] at hpay hg
    simp only [hg.1.2, Except.ok.injEq, Prod.mk.injEq] at hpay
    intro i hi
    rw [← hpay.1] at hi
    simp only [Val.int.injEq] at hi
    rw [← hi]; exact decInt_unsigned_nonneg w view
  | _ => simp [hk, FK.isBoundSize] at hb

/-- assigning one local (and the buffer) leaves the other locals alone -/
theorem frame_set (σ : PyState) (l : String) (v : Val) (b : Bytes) (n : String) (h : n ≠ l) :
    ({ σ.set l v with buffer := b } : PyState).get n = σ.get n := by
  show (σ.set l v).get n = σ.get n
  rw [PyState.get_set]
  have : (l == n) = false := by simp only [beq_eq_false_iff_ne, ne_eq]; exact fun hh => h hh.symm
  simp [this]

theorem frame_set' (σ : PyState) (l : String) (v : Val) (n : String) (h : n ≠ l) : (σ.set l v).get n = σ.get n := by
  rw [PyState.get_set]
  have : (l == n) = false := by simp only [beq_eq_false_iff_ne, ne_eq]; exact fun hh => h hh.symm
  simp [this]

/-- an unconditional member (nothing parked): the emitted statements do what `decFieldStep` does -/
theorem plain_sim {σ : PyState} {st st' : DecState} {full hid pre : List Field} (hS : Sim σ st hid pre)
    (hnn : ∀ ty b v, r.dec ty b = .ok v → v ≠ .none)
    {f : Field} (hq : st.queued.find? (·.1 == f.name) = none) (hc : f.cond = none) (hfresh : ∀ x ∈ pre, localName x ≠ localName f) (hne : ∀ x ∈ hid ++ pre, x.name ≠ f.name)
    (hlk : ∀ n ∈ refsOf f, lookupField full n = lookupField pre n)
    {isLast : Bool} (hwf : wfFieldAt S d full f isLast = true) (hg : wfgdKind f = true)
    {sm : Option String} (hsm : (sm == some (printerName f.name)) = true ↔ ∃ w, f.kind = .sizeF w)
    {d' : StructDef} {idx : Nat} (hreb : rebase d' st idx = st)
    (hstep : decFieldStep S T r d' st idx f = .ok st') :
    ∃ σ', (desFieldAst S d sm f none).exec S T r σ = .ok σ' ∧ Sim σ' st' hid (pre ++ [f]) ∧ st'.queued = st.queued ∧
      σ'.bufs = σ.bufs ∧ (∀ n, n ≠ localName f → σ'.get n = σ.get n) := by
  unfold decFieldStep at hstep
  simp only [hreb, hc] at hstep
  unfold decPlainField at hstep
  obtain ⟨⟨v, adv⟩, hpay, hstep⟩ := bind_eq_ok.mp hstep
  simp only at hstep
  rw [flushQueued_none _ _ _ _ _ (by rw [afterPlain_queued]; exact hq)] at hstep
  simp only [Except.ok.injEq] at hstep
  subst hstep
  unfold DesField.exec desFieldAst
  simp only [localCondAst, hc, Option.getD_none]
  -- the load and the slice bound
  obtain ⟨hload, hadv⟩ := payload_sim (T := T) hS hnn hfresh hlk hwf hg (src := srcOf f "buffer")
    (by intro ty l hk; simp [srcOf, hk]) (by intro ty hk; simp [srcOf, hk]) hpay
  have hbound := fun hb => payload_bound hpay hg hb
  by_cases hsz : ∃ w, f.kind = .sizeF w
  · obtain ⟨w, hk⟩ := hsz
    have hsm' := hsm.mpr ⟨w, hk⟩
    -- the struct's size member: `buffer = buffer[w:size_]`
    have hv : v = .int (decInt w false st.buf) ∧ adv = w := by
      unfold decPayload at hpay
      simp only [hk, Except.ok.injEq, Prod.mk.injEq] at hpay
      exact ⟨hpay.1.symm, hpay.2.symm⟩
    obtain ⟨rfl, rfl⟩ := hv
    have h0 := decInt_unsigned_nonneg adv st.buf
    refine ⟨{ σ.set (localName f) (.int (decInt adv false st.buf)) with
        buffer := (st.buf.take (decInt adv false st.buf).toNat).drop adv }, ?_, ?_, ?_, rfl, fun n hn => frame_set _ _ _ _ _ hn⟩
    · simp only [localName] at hadv
      simp only [hsm', if_true, extraOf, hk, List.append_nil, execStmts, DesStmt.exec, hload, bind, Except.bind,
        PyState.getBuf_buffer, hadv]
      have hgi : (σ.set (localName f) (.int (decInt adv false st.buf))).getInt (fixSizeName (printerName f.name)) =
          .ok (decInt adv false st.buf) := by
        unfold PyState.getInt
        rw [PyState.get_set]
        simp [localName]
      simp only [localName] at hgi ⊢
      simp only [hgi]
      simp [PyState.setBuf, PyState.set, hS.buf, pySlice_nonneg _ (Int.natCast_nonneg adv) h0]
    · apply hS.snoc (v := .int (decInt adv false st.buf)) (by rw [afterPlain_env])
      · unfold afterPlain; simp [hk]
      · intro x hx
        show (σ.set (localName f) _).get (localName x) = _
        rw [PyState.get_set]
        have : (localName f == localName x) = false := by
          simp only [beq_eq_false_iff_ne, ne_eq]; exact fun hh => hfresh x hx hh.symm
        simp [this]
      · show (σ.set (localName f) _).get (localName f) = _
        rw [PyState.get_set]; simp
      · exact hne
      · intro hb; simp [hk, FK.isBoundSize] at hb
    · rw [afterPlain_queued]
  · have hsm' : (sm == some (printerName f.name)) = false := by
      cases h : (sm == some (printerName f.name)) with
      | false => rfl
      | true => exact absurd (hsm.mp h) hsz
    have hnsz : ∀ w, f.kind ≠ .sizeF w := fun w h => hsz ⟨w, h⟩
    refine ⟨{ σ.set (localName f) v with buffer := st.buf.drop adv }, ?_, ?_, ?_, rfl, fun n hn => frame_set _ _ _ _ _ hn⟩
    · simp only [hsm', Bool.false_eq_true, if_false]
      have hcore : execStmts S T r
          [DesStmt.assign (fixSizeName (printerName f.name)) (loadAst S f (srcOf f "buffer")),
            DesStmt.advance "buffer" (advAst f) none] σ =
          .ok { σ.set (localName f) v with buffer := st.buf.drop adv } := by
        simp only [execStmts, DesStmt.exec, hload, bind, Except.bind, PyState.getBuf_buffer]
        simp only [localName] at hadv ⊢
        simp only [hadv]
        simp [PyState.setBuf, PyState.set, hS.buf, pyDrop_nonneg]
      -- the extra statement of a constant / size-of member
      have happ : ∀ (a b : List DesStmt) (σ0 σ1 : PyState), execStmts S T r a σ0 = .ok σ1 →
          execStmts S T r (a ++ b) σ0 = execStmts S T r b σ1 := by
        intro a
        induction a with
        | nil => intro b σ0 σ1 h; simp only [execStmts, Except.ok.injEq] at h; subst h; rfl
        | cons s a ih =>
          intro b σ0 σ1 h
          simp only [List.cons_append, execStmts] at h ⊢
          obtain ⟨σm, hm, h⟩ := bind_eq_ok.mp h
          simp only [hm, bind, Except.bind]
          exact ih b σm σ1 h
      rw [happ _ _ _ _ hcore]
      unfold extraOf
      cases hk : f.kind with
      | reserved w s value =>
        have hpv : v = .int value := by
          unfold decPayload at hpay
          simp only [hk] at hpay
          split at hpay
          · rename_i heq
            simp only [beq_iff_eq] at heq
            simp only [Except.ok.injEq, Prod.mk.injEq] at hpay
            rw [← hpay.1, heq]
          · cases hpay
        have hname : f.name ≠ "size" := by
          unfold wfgdKind at hg
          simp only [Bool.and_eq_true] at hg
          simpa [hk] using hg.1.1
        subst hpv
        have hget : ({ σ.set (localName f) (.int value) with buffer := st.buf.drop adv } : PyState).get (printerName f.name) =
            some (.int value) := by
          show (σ.set (localName f) (.int value)).get (printerName f.name) = some (.int value)
          rw [PyState.get_set, localName_attr hname]; simp
        simp [execStmts, DesStmt.exec, hget, bind, Except.bind]
      | sizeOf w s t => simp [execStmts, DesStmt.exec, bind, Except.bind]
      | _ => simp [execStmts]
    · apply hS.snoc (v := v) (by rw [afterPlain_env])
      · rw [afterPlain_plain _ _ _ _ hnsz]
      · intro x hx
        show (σ.set (localName f) _).get (localName x) = _
        rw [PyState.get_set]
        have : (localName f == localName x) = false := by
          simp only [beq_eq_false_iff_ne, ne_eq]; exact fun hh => hfresh x hx hh.symm
        simp [this]
      · show (σ.set (localName f) _).get (localName f) = _
        rw [PyState.get_set]; simp
      · exact hne
      · exact hbound
    · rw [afterPlain_queued]

/-- a conditional member whose discriminant has been read (nothing parked) -/
theorem cond_sim {σ : PyState} {st st' : DecState} {full hid pre : List Field} (hS : Sim σ st hid pre)
    (hnn : ∀ ty b v, r.dec ty b = .ok v → v ≠ .none)
    {f : Field} {c : Cond} (hc : f.cond = some c) (hfresh : ∀ x ∈ pre, localName x ≠ localName f)
    (hne : ∀ x ∈ hid ++ pre, x.name ≠ f.name) (hlk : ∀ n ∈ refsOf f, lookupField full n = lookupField pre n)
    {isLast : Bool} (hwf : wfFieldAt S d full f isLast = true) (hg : wfgdKind f = true) (hgc : wfgdCond S d f = true)
    (hearly : refOk full c.field (discKindOk c) = true)
    {sm : Option String} (hsm : (sm == some (printerName f.name)) = true ↔ ∃ w, f.kind = .sizeF w)
    {d' : StructDef} {idx : Nat} (hreb : rebase d' st idx = st)
    (hstep : decFieldStep S T r d' st idx f = .ok st') :
    ∃ σ', (desFieldAst S d sm f none).exec S T r σ = .ok σ' ∧ Sim σ' st' hid (pre ++ [f]) ∧ st'.queued = st.queued ∧
      σ'.bufs = σ.bufs ∧ (∀ n, n ≠ localName f → σ'.get n = σ.get n) := by
  -- a conditional member is not the size member, so its local is its attribute name
  have hnsz : ∀ w, f.kind ≠ .sizeF w := by
    intro w hk
    unfold wfFieldAt at hwf
    simp [hk, hc] at hwf
  have hname : f.name ≠ "size" := by
    unfold wfgdKind at hg
    simp only [Bool.and_eq_true] at hg
    have h1 := hg.1.1
    cases hk : f.kind <;> simp [hk] at h1 <;> first | exact h1 | exact absurd hk (hnsz _)
  have hattr : localName f = printerName f.name := localName_attr hname
  have hsm' : (sm == some (printerName f.name)) = false := by
    cases h : (sm == some (printerName f.name)) with
    | false => rfl
    | true => obtain ⟨w, hk⟩ := hsm.mp h; exact absurd hk (hnsz w)
  unfold decFieldStep at hstep
  simp only [hreb, hc] at hstep
  unfold decCondField at hstep
  -- the discriminant
  unfold refOk at hearly
  rw [hlk c.field (by simp [refsOf, hc])] at hearly
  cases hl : lookupField pre c.field with
  | none => simp [hl] at hearly
  | some gk =>
    obtain ⟨hgm, hgn⟩ := lookupField_some hl
    have hlocg : localName gk = fixSizeName (printerName c.field) := by unfold localName; rw [hgn]
    cases hgv : Val.get st.env c.field with
    | none =>
      -- the discriminant is an earlier member: it has a local
      exfalso
      have := hS.has gk hgm
      rw [hgn, hgv] at this
      cases this
    | some gv =>
      simp only [hgv, Option.isSome_some, if_true] at hstep
      obtain ⟨pd, hpd, hstep⟩ := bind_eq_ok.mp hstep
      unfold condOnEnv at hpd
      obtain ⟨a, ha, hpd⟩ := bind_eq_ok.mp hpd
      have hgi : σ.getInt (fixSizeName (printerName c.field)) = .ok a := by
        have := hS.loc gk hgm (.int a) (by rw [hgn]; exact envInt_ok ha)
        rw [hlocg] at this
        unfold PyState.getInt; rw [this]
      -- `attr = None`
      have hS0 : Sim (σ.set (printerName f.name) .none) st hid pre :=
        hS.set_fresh .none (fun x hx => by rw [← hattr]; exact hfresh x hx)
      have hgi0 : (σ.set (printerName f.name) .none).getInt (fixSizeName (printerName c.field)) = .ok a := by
        unfold PyState.getInt at hgi ⊢
        rw [PyState.get_set]
        have : (printerName f.name == fixSizeName (printerName c.field)) = false := by
          simp only [beq_eq_false_iff_ne, ne_eq]
          intro hh
          exact hfresh gk hgm (by rw [hlocg, hattr, hh])
        simp only [this, Bool.false_eq_true, if_false]
        exact hgi
      have hcev : LocalCond.eval S (σ.set (printerName f.name) .none)
          { value := condValueAst S d c, op := c.op, disc := fixSizeName (printerName c.field) } = .ok pd := by
        unfold LocalCond.eval
        simp only [hgi0, condValue_eval hc hgc, bind, Except.bind]
        exact hpd
      unfold DesField.exec desFieldAst
      simp only [localCondAst, hc, Option.getD_none, hcev, bind, Except.bind]
      cases pd with
      | false =>
        simp only [Bool.false_eq_true, if_false, pure, Except.pure, Except.ok.injEq] at hstep ⊢
        subst hstep
        refine ⟨_, rfl, ?_, rfl, rfl, fun n hn => frame_set' _ _ _ _ (by rw [← hattr]; exact hn)⟩
        apply hS.snoc (v := .none) rfl
        · exact hS.buf
        · intro x hx
          rw [PyState.get_set]
          have : (printerName f.name == localName x) = false := by
            simp only [beq_eq_false_iff_ne, ne_eq]; rw [← hattr]; exact fun hh => hfresh x hx hh.symm
          simp [this]
        · rw [PyState.get_set, hattr]; simp
        · exact hne
        · intro _ i hi; cases hi
      | true =>
        simp only [if_true] at hstep ⊢
        obtain ⟨⟨v, adv⟩, hpay, hstep⟩ := bind_eq_ok.mp hstep
        simp only [pure, Except.pure, Except.ok.injEq] at hstep
        subst hstep
        obtain ⟨hload, hadv⟩ := payload_sim (T := T) hS0 hnn hfresh hlk hwf hg (src := srcOf f "buffer")
          (by intro ty l hk; simp [srcOf, hk]) (by intro ty hk; simp [srcOf, hk]) hpay
        have hbound := fun hb => payload_bound hpay hg hb
        refine ⟨{ (σ.set (printerName f.name) .none).set (localName f) v with buffer := st.buf.drop adv }, ?_, ?_, rfl, rfl,
          fun n hn => by rw [frame_set _ _ _ _ _ hn]; exact frame_set' _ _ _ _ (by rw [← hattr]; exact hn)⟩
        · simp only [hsm', Bool.false_eq_true, if_false]
          have hcore : execStmts S T r
              [DesStmt.assign (fixSizeName (printerName f.name)) (loadAst S f (srcOf f "buffer")),
                DesStmt.advance "buffer" (advAst f) none] (σ.set (printerName f.name) .none) =
              .ok { (σ.set (printerName f.name) .none).set (localName f) v with buffer := st.buf.drop adv } := by
            simp only [execStmts, DesStmt.exec, hload, bind, Except.bind, PyState.getBuf_buffer]
            simp only [localName] at hadv ⊢
            simp only [hadv]
            simp [PyState.setBuf, PyState.set, hS.buf, pyDrop_nonneg]
          have happ : ∀ (a b : List DesStmt) (σ0 σ1 : PyState), execStmts S T r a σ0 = .ok σ1 →
              execStmts S T r (a ++ b) σ0 = execStmts S T r b σ1 := by
            intro a
            induction a with
            | nil => intro b σ0 σ1 h; simp only [execStmts, Except.ok.injEq] at h; subst h; rfl
            | cons s a ih =>
              intro b σ0 σ1 h
              simp only [List.cons_append, execStmts] at h ⊢
              obtain ⟨σm, hm, h⟩ := bind_eq_ok.mp h
              simp only [hm, bind, Except.bind]
              exact ih b σm σ1 h
          rw [happ _ _ _ _ hcore]
          unfold extraOf
          cases hk : f.kind with
          | reserved w s value =>
            have hpv : v = .int value := by
              unfold decPayload at hpay
              simp only [hk] at hpay
              split at hpay
              · rename_i heq
                simp only [beq_iff_eq] at heq
                simp only [Except.ok.injEq, Prod.mk.injEq] at hpay
                rw [← hpay.1, heq]
              · cases hpay
            subst hpv
            have hget : ({ (σ.set (printerName f.name) .none).set (localName f) (.int value) with
                buffer := st.buf.drop adv } : PyState).get (printerName f.name) = some (.int value) := by
              show ((σ.set (printerName f.name) .none).set (localName f) (.int value)).get (printerName f.name) = _
              rw [PyState.get_set, hattr]; simp
            simp [execStmts, DesStmt.exec, hget, bind, Except.bind]
          | sizeOf w s t => simp [execStmts, DesStmt.exec, bind, Except.bind]
          | _ => simp [execStmts]
        · apply hS.snoc (v := v) rfl
          · rfl
          · intro x hx
            show ((σ.set (printerName f.name) .none).set (localName f) v).get (localName x) = _
            rw [PyState.get_set, PyState.get_set]
            have h1 : (localName f == localName x) = false := by
              simp only [beq_eq_false_iff_ne, ne_eq]; exact fun hh => hfresh x hx hh.symm
            have h2 : (printerName f.name == localName x) = false := by
              rw [← hattr]; exact h1
            simp [h1, h2]
          · show ((σ.set (printerName f.name) .none).set (localName f) v).get (localName f) = _
            rw [PyState.get_set]; simp
          · exact hne
          · exact hbound

end

end SymbolVerif.Codec

/-
Attribute lines for C04: the text the printer emits for an attribute (`Printer.printAttribute`) is read back by the
attribute scanner of its context with exactly the value list lark produces (`None` placeholders included).
-/
import SymbolVerif.Proofs.CatsClean
import SymbolVerif.Model.Cats.Printer
namespace SymbolVerif.Cats.Parser
open SymbolVerif.Cats SymbolVerif.Cats.Lexer
set_option linter.unusedSimpArgs false

/-- `, a, b, c` -/
def commaList (ps : List String) : Chars := ps.flatMap fun q => ',' :: ' ' :: q.toList

theorem intercalate_toList : ∀ (ps : List String) (p : String),
    (", ".intercalate (p :: ps)).toList = p.toList ++ commaList ps := by
  intro ps
  induction ps with
  | nil => intro p; simp [commaList]
  | cons q rest ih =>
    intro p
    rw [String.intercalate_cons_cons]
    simp only [String.toList_append, ih q, commaList, List.flatMap_cons]
    simp

/-! ### texts -/

theorem flag_toList (name : String) (h : name ≠ "comparer") :
    (Printer.printAttribute ⟨name, []⟩).toList = '@' :: name.toList := by
  simp [Printer.printAttribute, h, Attribute.isFlag, String.toList_append]

theorem size_toList (p : String) :
    (Printer.printAttribute ⟨"size", [.str p]⟩).toList = '@' :: 's' :: 'i' :: 'z' :: 'e' :: '(' :: (p.toList ++ [')']) := by
  simp [Printer.printAttribute, Attribute.isFlag, Printer.attributeValues, String.toList_append, Scalar.pyStr]

theorem sortKey_toList (p : String) :
    (Printer.printAttribute ⟨"sort_key", [.str p]⟩).toList =
      '@' :: 's' :: 'o' :: 'r' :: 't' :: '_' :: 'k' :: 'e' :: 'y' :: '(' :: (p.toList ++ [')']) := by
  simp [Printer.printAttribute, Attribute.isFlag, Printer.attributeValues, String.toList_append, Scalar.pyStr]

theorem sizeref_toList (p : String) :
    (Printer.printAttribute ⟨"sizeref", [.str p]⟩).toList =
      '@' :: 's' :: 'i' :: 'z' :: 'e' :: 'r' :: 'e' :: 'f' :: '(' :: (p.toList ++ [')']) := by
  simp [Printer.printAttribute, Attribute.isFlag, Printer.attributeValues, String.toList_append, Scalar.pyStr]

theorem sizerefDelta_toList (p : String) (n : Nat) :
    (Printer.printAttribute ⟨"sizeref", [.str p, .int n]⟩).toList =
      '@' :: 's' :: 'i' :: 'z' :: 'e' :: 'r' :: 'e' :: 'f' :: '(' :: (p.toList ++ ',' :: ' ' :: ((toString n).toList ++ [')'])) := by
  simp [Printer.printAttribute, Attribute.isFlag, Printer.attributeValues, String.toList_append, Scalar.pyStr, int_repr_nat,
    String.intercalate_cons_cons, toString]

theorem initializes_toList (p c : String) :
    (Printer.printAttribute ⟨"initializes", [.str p, .str c]⟩).toList =
      '@' :: 'i' :: 'n' :: 'i' :: 't' :: 'i' :: 'a' :: 'l' :: 'i' :: 'z' :: 'e' :: 's' :: '(' :: (p.toList ++ ',' :: ' ' :: (c.toList ++ [')'])) := by
  simp [Printer.printAttribute, Attribute.isFlag, Printer.attributeValues, String.toList_append, Scalar.pyStr,
    String.intercalate_cons_cons]

theorem alignment_toList (n : Nat) :
    (Printer.printAttribute ⟨"alignment", [.int n, .none, .none]⟩).toList =
      '@' :: 'a' :: 'l' :: 'i' :: 'g' :: 'n' :: 'm' :: 'e' :: 'n' :: 't' :: '(' :: ((toString n).toList ++ [')']) := by
  simp [Printer.printAttribute, Attribute.isFlag, Printer.attributeValues, String.toList_append, Scalar.pyStr, int_repr_nat,
    toString]

theorem alignmentPad_toList (n : Nat) :
    (Printer.printAttribute ⟨"alignment", [.int n, .none, .str "pad_last"]⟩).toList =
      '@' :: 'a' :: 'l' :: 'i' :: 'g' :: 'n' :: 'm' :: 'e' :: 'n' :: 't' :: '(' ::
        ((toString n).toList ++ ',' :: ' ' :: 'p' :: 'a' :: 'd' :: '_' :: 'l' :: 'a' :: 's' :: 't' :: [')']) := by
  simp [Printer.printAttribute, Attribute.isFlag, Printer.attributeValues, String.toList_append, Scalar.pyStr, int_repr_nat,
    toString, String.intercalate_cons_cons]

theorem alignmentNotPad_toList (n : Nat) :
    (Printer.printAttribute ⟨"alignment", [.int n, .str "not", .str "pad_last"]⟩).toList =
      '@' :: 'a' :: 'l' :: 'i' :: 'g' :: 'n' :: 'm' :: 'e' :: 'n' :: 't' :: '(' ::
        ((toString n).toList ++ ',' :: ' ' :: 'n' :: 'o' :: 't' :: ' ' :: 'p' :: 'a' :: 'd' :: '_' :: 'l' :: 'a' :: 's' :: 't' :: [')']) := by
  simp [Printer.printAttribute, Attribute.isFlag, Printer.attributeValues, String.toList_append, Scalar.pyStr, int_repr_nat,
    toString, String.intercalate_cons_cons]

theorem attributeValues_strs : ∀ (ps : List String), Printer.attributeValues false (ps.map Scalar.str) "" = ps := by
  intro ps
  induction ps with
  | nil => rfl
  | cons p rest ih => simp [Printer.attributeValues, ih, Scalar.pyStr]

theorem discriminator_toList (p : String) (ps : List String) :
    (Printer.printAttribute ⟨"discriminator", .str p :: ps.map .str⟩).toList =
      '@' :: 'd' :: 'i' :: 's' :: 'c' :: 'r' :: 'i' :: 'm' :: 'i' :: 'n' :: 'a' :: 't' :: 'o' :: 'r' :: '(' ::
        (p.toList ++ (commaList ps ++ [')'])) := by
  have h := attributeValues_strs (p :: ps)
  simp only [List.map_cons] at h
  have hi := intercalate_toList ps p
  simp [Printer.printAttribute, Attribute.isFlag, String.toList_append, h, hi]

/-- text of one comparer entry -/
def entryText (e : String × Bool) : String := if e.2 then e.1 ++ "!ripemd_keccak_256" else e.1

/-- how `_format_attributes` prints one `(member, transform)` pair -/
def pairText (x : Scalar × Scalar) : String := if x.2.truthy then x.1.pyStr ++ "!" ++ x.2.pyStr else x.1.pyStr

theorem comparerPairs_values : ∀ (es : List (String × Bool)),
    (Attribute.comparerPairs (comparerValues es)).map pairText = es.map entryText := by
  intro es
  induction es with
  | nil => rfl
  | cons e rest ih =>
    obtain ⟨p, b⟩ := e
    cases b
    · simp only [comparerValues, Attribute.comparerPairs, List.map_cons, ih]
      simp [pairText, entryText, Scalar.truthy, Scalar.pyStr]
    · simp only [comparerValues, Attribute.comparerPairs, List.map_cons, ih]
      simp [pairText, entryText, Scalar.truthy, Scalar.pyStr, String.append_assoc]

theorem comparer_toList (e : String × Bool) (es : List (String × Bool)) :
    (Printer.printAttribute ⟨"comparer", comparerValues (e :: es)⟩).toList =
      '@' :: 'c' :: 'o' :: 'm' :: 'p' :: 'a' :: 'r' :: 'e' :: 'r' :: '(' ::
        ((entryText e).toList ++ (commaList (es.map entryText) ++ [')'])) := by
  have h := comparerPairs_values (e :: es)
  simp only [List.map_cons] at h
  have hi := intercalate_toList (es.map entryText) (entryText e)
  have hfun : (fun (x : Scalar × Scalar) => match x with
      | (n, t) => if t.truthy then n.pyStr ++ "!" ++ t.pyStr else n.pyStr) = pairText := by
    funext x; obtain ⟨n, t⟩ := x; rfl
  simp only [Printer.printAttribute, Attribute.renderFormatted, if_true, ne_eq, not_true_eq_false, if_false, hfun, h,
    String.toList_append, hi]
  simp

/-! ### comma lists -/

theorem follows_commaList (ps : List String) (tail : Chars) : Follows isPropChar (commaList ps ++ ')' :: tail) := by
  cases ps with
  | nil => exact follows_cons _ _ _ (by decide)
  | cons q rest => exact follows_cons _ _ _ (by decide)

theorem commaList_length (ps : List String) : ps.length ≤ (commaList ps).length := by
  induction ps with
  | nil => simp [commaList]
  | cons q rest ih =>
    simp only [commaList, List.flatMap_cons, List.length_append, List.length_cons] at ih ⊢
    omega

theorem moreProperties_render : ∀ (ps : List String) (fuel : Nat) (tail : Chars), (∀ q ∈ ps, IsPropName q) → ps.length < fuel →
    moreProperties fuel (commaList ps ++ ')' :: tail) = some (ps.map Scalar.str, tail) := by
  intro ps
  induction ps with
  | nil =>
    intro fuel tail _ hf
    obtain ⟨k, rfl⟩ : ∃ k, fuel = k + 1 := ⟨fuel - 1, by omega⟩
    simp only [commaList, List.flatMap_nil, List.nil_append, moreProperties, lit_rpar, List.map_nil]
  | cons q rest ih =>
    intro fuel tail hq hf
    obtain ⟨k, rfl⟩ : ∃ k, fuel = k + 1 := ⟨fuel - 1, by omega⟩
    have hrp : ∀ r, lit ")" (',' :: r) = none := fun r => lit_none_of_head ")" ')' [] rfl ',' r (by decide) (by decide)
    have hprop := propertyName_append q.toList (commaList rest ++ ')' :: tail) (hq q List.mem_cons_self)
      (follows_commaList rest tail)
    have hrest := ih k tail (fun x hx => hq x (List.mem_cons_of_mem _ hx)) (by simp only [List.length_cons] at hf; omega)
    have htext : commaList (q :: rest) ++ ')' :: tail = ',' :: ' ' :: (q.toList ++ (commaList rest ++ ')' :: tail)) := by
      simp [commaList, List.flatMap_cons]
    rw [htext]
    simp only [moreProperties, hrp, lit_comma, propertyName_skip_blank, hprop, hrest, bind, Option.bind, List.map_cons,
      String.ofList_toList]

/-! ### comparer entries -/

theorem entryText_toList (e : String × Bool) :
    (entryText e).toList = e.1.toList ++ (if e.2 then "!ripemd_keccak_256".toList else []) := by
  obtain ⟨p, b⟩ := e
  cases b <;> simp [entryText, String.toList_append]

theorem lit_transform (r : Chars) :
    lit "ripemd_keccak_256" ("ripemd_keccak_256".toList ++ r) = some r := by
  simp [lit, skipWs, isWs, List.isPrefixOf]

theorem comparerEntry_render (e : String × Bool) (he : IsPropName e.1) (c : Char) (rest : Chars)
    (hc1 : isPropChar c = false) (hc2 : isWs c = false) (hc3 : c ≠ '!') :
    comparerEntry ((entryText e).toList ++ c :: rest) = some (comparerValues [e], c :: rest) := by
  obtain ⟨p, b⟩ := e
  rw [entryText_toList]
  cases b
  · have hprop := propertyName_append p.toList (c :: rest) he (follows_cons _ _ _ hc1)
    have hbang : lit "!" (c :: rest) = none :=
      lit_none_of_head "!" '!' [] rfl c rest hc2 (by simp only [beq_eq_false_iff_ne, ne_eq]; exact fun h => hc3 h.symm)
    simp only [Bool.false_eq_true, if_false, List.append_nil, comparerEntry, hprop, hbang, bind, Option.bind, comparerValues,
      String.ofList_toList]
  · have hprop := propertyName_append p.toList ("!ripemd_keccak_256".toList ++ c :: rest) he (follows_cons _ _ _ (by decide))
    have hb : ∀ r, lit "!" ("!ripemd_keccak_256".toList ++ r) = some ("ripemd_keccak_256".toList ++ r) := by
      intro r; simp [lit, skipWs, isWs, List.isPrefixOf]
    simp only [if_true, List.append_assoc, comparerEntry, hprop, hb, lit_transform, bind, Option.bind, comparerValues,
      String.ofList_toList]

theorem comparerValues_cons (e : String × Bool) (es : List (String × Bool)) :
    comparerValues (e :: es) = comparerValues [e] ++ comparerValues es := by
  obtain ⟨p, b⟩ := e
  cases b <;> simp [comparerValues]

theorem follows_entries (es : List (String × Bool)) (tail : Chars) :
    ∃ c r, commaList (es.map entryText) ++ ')' :: tail = c :: r ∧ isPropChar c = false ∧ isWs c = false ∧ c ≠ '!' := by
  cases es with
  | nil => exact ⟨')', tail, rfl, by decide, by decide, by decide⟩
  | cons e rest =>
    refine ⟨',', ' ' :: ((entryText e).toList ++ (commaList (rest.map entryText) ++ ')' :: tail)), ?_, by decide, by decide, by decide⟩
    simp [commaList, List.flatMap_cons]

theorem moreComparerEntries_render : ∀ (es : List (String × Bool)) (fuel : Nat) (tail : Chars),
    (∀ x ∈ es, IsPropName x.1) → es.length < fuel →
    moreComparerEntries fuel (commaList (es.map entryText) ++ ')' :: tail) = some (comparerValues es, tail) := by
  intro es
  induction es with
  | nil =>
    intro fuel tail _ hf
    obtain ⟨k, rfl⟩ : ∃ k, fuel = k + 1 := ⟨fuel - 1, by omega⟩
    simp only [List.map_nil, commaList, List.flatMap_nil, List.nil_append, moreComparerEntries, lit_rpar, comparerValues]
  | cons e rest ih =>
    intro fuel tail he hf
    obtain ⟨k, rfl⟩ : ∃ k, fuel = k + 1 := ⟨fuel - 1, by omega⟩
    have hrp : ∀ r, lit ")" (',' :: r) = none := fun r => lit_none_of_head ")" ')' [] rfl ',' r (by decide) (by decide)
    obtain ⟨c, r, hcr, hc1, hc2, hc3⟩ := follows_entries rest tail
    have hentry := comparerEntry_render e (he e List.mem_cons_self) c r hc1 hc2 hc3
    rw [← hcr] at hentry
    have hrest := ih k tail (fun x hx => he x (List.mem_cons_of_mem _ hx)) (by simp only [List.length_cons] at hf; omega)
    have htext : commaList ((e :: rest).map entryText) ++ ')' :: tail =
        ',' :: ' ' :: ((entryText e).toList ++ (commaList (rest.map entryText) ++ ')' :: tail)) := by
      simp [commaList, List.flatMap_cons]
    have hskip : ∀ cs, comparerEntry (' ' :: cs) = comparerEntry cs := by
      intro cs; simp only [comparerEntry, propertyName_skip_blank]
    rw [htext, comparerValues_cons]
    simp only [moreComparerEntries, hrp, lit_comma, hskip, hentry, hrest, bind, Option.bind]

/-! ### the attribute scanners read the printed attributes back -/

theorem follows_rpar_prop' (r : Chars) : Follows isPropChar (')' :: r) := follows_cons _ _ _ (by decide)

theorem enumAttribute_render (a : Attribute) (h : WFEnumAttr a) :
    ∃ text, (Printer.printAttribute a).toList = '@' :: text ∧ enumAttribute text = some a ∧ structAttribute text = none := by
  cases h
  exact ⟨"is_bitwise".toList, by decide, by decide, by decide⟩

theorem structAttribute_render (a : Attribute) (h : WFStructAttr a) :
    ∃ text, (Printer.printAttribute a).toList = '@' :: text ∧ structAttribute text = some a := by
  cases h with
  | aligned => exact ⟨"is_aligned".toList, by decide, by decide⟩
  | sizeImplicit => exact ⟨"is_size_implicit".toList, by decide, by decide⟩
  | size p hp =>
    refine ⟨_, size_toList p, ?_⟩
    have hc : ∀ r, skipWs ('s' :: r) = 's' :: r := fun r => skipWs_cons_of_not_ws _ _ (by decide)
    have hh : ∀ (s : String) (s0 : Char) (sr : Chars), s.toList = s0 :: sr → (s0 == 's') = false → ∀ r,
        litHere s ('s' :: r) = none := fun s s0 sr hs hne r => litHere_none_of_head s s0 sr hs 's' r hne
    have hsize : ∀ r, litHere "size" ('s' :: 'i' :: 'z' :: 'e' :: r) = some r := by intro r; simp [litHere, List.isPrefixOf]
    have hprop := propertyName_append p.toList [')'] hp (follows_rpar_prop' [])
    simp only [structAttribute, hc, hh "is_size_implicit" 'i' _ rfl (by decide), hh "is_aligned" 'i' _ rfl (by decide),
      hh "discriminator" 'd' _ rfl (by decide), hh "initializes" 'i' _ rfl (by decide), hh "comparer" 'c' _ rfl (by decide),
      hsize, lit_lpar, hprop, lit_rpar, atEol_nil, if_true, bind, Option.bind, String.ofList_toList]
  | initializes p c hp hc' =>
    refine ⟨_, initializes_toList p c, ?_⟩
    have hc : ∀ r, skipWs ('i' :: r) = 'i' :: r := fun r => skipWs_cons_of_not_ws _ _ (by decide)
    have h1 : ∀ r, litHere "is_size_implicit" ('i' :: 'n' :: r) = none := by intro r; simp [litHere, List.isPrefixOf]
    have h2 : ∀ r, litHere "is_aligned" ('i' :: 'n' :: r) = none := by intro r; simp [litHere, List.isPrefixOf]
    have h3 : ∀ r, litHere "discriminator" ('i' :: r) = none := fun r => litHere_none_of_head "discriminator" 'd' _ rfl 'i' r (by decide)
    have h4 : ∀ r, litHere "initializes" ('i' :: 'n' :: 'i' :: 't' :: 'i' :: 'a' :: 'l' :: 'i' :: 'z' :: 'e' :: 's' :: r) = some r := by
      intro r; simp [litHere, List.isPrefixOf]
    have hprop := propertyName_append p.toList (',' :: ' ' :: (c.toList ++ [')'])) hp (follows_cons _ _ _ (by decide))
    have hconst := constName_append c.toList [')'] hc' (follows_cons _ _ _ (by decide))
    simp only [structAttribute, hc, h1, h2, h3, h4, lit_lpar, hprop, lit_comma, constName_skip_blank, hconst, lit_rpar, atEol_nil,
      if_true, bind, Option.bind, String.ofList_toList]
  | discriminator p ps hp hps =>
    refine ⟨_, discriminator_toList p ps, ?_⟩
    have hc : ∀ r, skipWs ('d' :: r) = 'd' :: r := fun r => skipWs_cons_of_not_ws _ _ (by decide)
    have hh : ∀ (s : String) (s0 : Char) (sr : Chars), s.toList = s0 :: sr → (s0 == 'd') = false → ∀ r,
        litHere s ('d' :: r) = none := fun s s0 sr hs hne r => litHere_none_of_head s s0 sr hs 'd' r hne
    have hd : ∀ r, litHere "discriminator" ('d' :: 'i' :: 's' :: 'c' :: 'r' :: 'i' :: 'm' :: 'i' :: 'n' :: 'a' :: 't' :: 'o' :: 'r' :: r) = some r := by
      intro r; simp [litHere, List.isPrefixOf]
    have hprop := propertyName_append p.toList (commaList ps ++ [')']) hp (follows_commaList ps [])
    have hmore := moreProperties_render ps ((commaList ps ++ [')']).length + 1) [] hps (by
      have := commaList_length ps
      simp only [List.length_append, List.length_cons, List.length_nil]; omega)
    simp only [structAttribute, hc, hh "is_size_implicit" 'i' _ rfl (by decide), hh "is_aligned" 'i' _ rfl (by decide), hd,
      lit_lpar, hprop, hmore, atEol_nil, if_true, bind, Option.bind, String.ofList_toList]
  | comparer e es he hes =>
    refine ⟨_, comparer_toList e es, ?_⟩
    have hc : ∀ r, skipWs ('c' :: r) = 'c' :: r := fun r => skipWs_cons_of_not_ws _ _ (by decide)
    have hh : ∀ (s : String) (s0 : Char) (sr : Chars), s.toList = s0 :: sr → (s0 == 'c') = false → ∀ r,
        litHere s ('c' :: r) = none := fun s s0 sr hs hne r => litHere_none_of_head s s0 sr hs 'c' r hne
    have hcomp : ∀ r, litHere "comparer" ('c' :: 'o' :: 'm' :: 'p' :: 'a' :: 'r' :: 'e' :: 'r' :: r) = some r := by
      intro r; simp [litHere, List.isPrefixOf]
    obtain ⟨c, r, hcr, hc1, hc2, hc3⟩ := follows_entries es []
    have hentry := comparerEntry_render e he c r hc1 hc2 hc3
    rw [← hcr] at hentry
    have hmore := moreComparerEntries_render es ((commaList (es.map entryText) ++ [')']).length + 1) [] hes (by
      have := commaList_length (es.map entryText)
      simp only [List.length_append, List.length_cons, List.length_nil, List.length_map] at this ⊢; omega)
    rw [comparerValues_cons]
    simp only [structAttribute, hc, hh "is_size_implicit" 'i' _ rfl (by decide), hh "is_aligned" 'i' _ rfl (by decide),
      hh "discriminator" 'd' _ rfl (by decide), hh "initializes" 'i' _ rfl (by decide), hcomp, lit_lpar, hentry, hmore,
      atEol_nil, if_true, bind, Option.bind]

theorem fieldAttribute_render (a : Attribute) (h : WFFieldAttr a) :
    ∃ text, (Printer.printAttribute a).toList = '@' :: text ∧ fieldAttribute text = some a := by
  have hsa : ∀ r, skipWs ('a' :: r) = 'a' :: r := fun r => skipWs_cons_of_not_ws _ _ (by decide)
  have hss : ∀ r, skipWs ('s' :: r) = 's' :: r := fun r => skipWs_cons_of_not_ws _ _ (by decide)
  have hbyteA : ∀ r, litHere "is_byte_constrained" ('a' :: r) = none := fun r =>
    litHere_none_of_head "is_byte_constrained" 'i' _ rfl 'a' r (by decide)
  have hbyteS : ∀ r, litHere "is_byte_constrained" ('s' :: r) = none := fun r =>
    litHere_none_of_head "is_byte_constrained" 'i' _ rfl 's' r (by decide)
  have halignS : ∀ r, litHere "alignment" ('s' :: r) = none := fun r =>
    litHere_none_of_head "alignment" 'a' _ rfl 's' r (by decide)
  have halign : ∀ r, litHere "alignment" ('a' :: 'l' :: 'i' :: 'g' :: 'n' :: 'm' :: 'e' :: 'n' :: 't' :: r) = some r := by
    intro r; simp [litHere, List.isPrefixOf]
  have hsortKey : ∀ r, litHere "sort_key" ('s' :: 'o' :: 'r' :: 't' :: '_' :: 'k' :: 'e' :: 'y' :: r) = some r := by
    intro r; simp [litHere, List.isPrefixOf]
  have hsortNo : ∀ r, litHere "sort_key" ('s' :: 'i' :: r) = none := by intro r; simp [litHere, List.isPrefixOf]
  have hsizeref : ∀ r, litHere "sizeref" ('s' :: 'i' :: 'z' :: 'e' :: 'r' :: 'e' :: 'f' :: r) = some r := by
    intro r; simp [litHere, List.isPrefixOf]
  have hcommaR : ∀ r, lit "," (')' :: r) = none := fun r => lit_none_of_head "," ',' [] rfl ')' r (by decide) (by decide)
  cases h with
  | byteConstrained => exact ⟨"is_byte_constrained".toList, by decide, by decide⟩
  | alignment n =>
    refine ⟨_, alignment_toList n, ?_⟩
    simp only [fieldAttribute, hsa, hbyteA, halign, lit_lpar, number_repr_rpar, hcommaR, lit_rpar, atEol_nil, if_true, bind,
      Option.bind]
  | alignmentPadLast n =>
    refine ⟨_, alignmentPad_toList n, ?_⟩
    have hnum : number ((toString n).toList ++ ',' :: ' ' :: 'p' :: 'a' :: 'd' :: '_' :: 'l' :: 'a' :: 's' :: 't' :: [')']) =
        some (n, ',' :: ' ' :: 'p' :: 'a' :: 'd' :: '_' :: 'l' :: 'a' :: 's' :: 't' :: [')']) :=
      number_repr n _ (by intro c hc; cases hc; exact ⟨by decide, by decide⟩)
    have hpad : ∀ r, lit "pad_last" ('p' :: 'a' :: 'd' :: '_' :: 'l' :: 'a' :: 's' :: 't' :: r) = some r := by
      intro r; simp [lit, skipWs, isWs, List.isPrefixOf]
    simp only [fieldAttribute, hsa, hbyteA, halign, lit_lpar, hnum, lit_comma, lit_skip_blank, hpad, lit_rpar, atEol_nil, if_true,
      bind, Option.bind]
  | alignmentNotPadLast n =>
    refine ⟨_, alignmentNotPad_toList n, ?_⟩
    have hnum : number ((toString n).toList ++ ',' :: ' ' :: 'n' :: 'o' :: 't' :: ' ' :: 'p' :: 'a' :: 'd' :: '_' :: 'l' :: 'a' :: 's' :: 't' :: [')']) =
        some (n, ',' :: ' ' :: 'n' :: 'o' :: 't' :: ' ' :: 'p' :: 'a' :: 'd' :: '_' :: 'l' :: 'a' :: 's' :: 't' :: [')']) :=
      number_repr n _ (by intro c hc; cases hc; exact ⟨by decide, by decide⟩)
    have hpad : ∀ r, lit "pad_last" ('p' :: 'a' :: 'd' :: '_' :: 'l' :: 'a' :: 's' :: 't' :: r) = some r := by
      intro r; simp [lit, skipWs, isWs, List.isPrefixOf]
    have hpadNo : ∀ r, lit "pad_last" ('n' :: r) = none := fun r =>
      lit_none_of_head "pad_last" 'p' _ rfl 'n' r (by decide) (by decide)
    have hnot : ∀ r, lit "not" ('n' :: 'o' :: 't' :: r) = some r := by intro r; simp [lit, skipWs, isWs, List.isPrefixOf]
    simp only [fieldAttribute, hsa, hbyteA, halign, lit_lpar, hnum, lit_comma, lit_skip_blank, hpadNo, hnot, hpad, lit_rpar,
      atEol_nil, if_true, bind, Option.bind]
  | sortKey p hp =>
    refine ⟨_, sortKey_toList p, ?_⟩
    have hprop := propertyName_append p.toList [')'] hp (follows_rpar_prop' [])
    simp only [fieldAttribute, hss, hbyteS, halignS, hsortKey, lit_lpar, hprop, lit_rpar, atEol_nil, if_true, bind, Option.bind,
      String.ofList_toList]
  | sizeref p hp =>
    refine ⟨_, sizeref_toList p, ?_⟩
    have hprop := propertyName_append p.toList [')'] hp (follows_rpar_prop' [])
    simp only [fieldAttribute, hss, hbyteS, halignS, hsortNo, hsizeref, lit_lpar, hprop, hcommaR, lit_rpar, atEol_nil, if_true,
      bind, Option.bind, String.ofList_toList]
  | sizerefDelta p n hp =>
    refine ⟨_, sizerefDelta_toList p n, ?_⟩
    have hprop := propertyName_append p.toList (',' :: ' ' :: ((toString n).toList ++ [')'])) hp (follows_cons _ _ _ (by decide))
    simp only [fieldAttribute, hss, hbyteS, halignS, hsortNo, hsizeref, lit_lpar, hprop, lit_comma, number_skip_blank,
      number_repr_rpar, lit_rpar, atEol_nil, if_true, bind, Option.bind, String.ofList_toList]

end SymbolVerif.Cats.Parser

/-
Helper lemmas for C19 about `Model/Lint/Validators.lean` (MultiConditionChecker, SingleLineValidator).
-/
import SymbolVerif.Model.Lint.Validators
import SymbolVerif.Proofs.LineRulesLemmas
import SymbolVerif.Proofs.StripLemmas
namespace SymbolVerif.Lint.Rules

/-- the reports MultiConditionChecker makes for one line: exactly the checks that evaluate to true -/
theorem mem_mccLine (P : MccPatterns) (path : Str) (n : Nat) (raw : Str) (rep : Report) :
    rep ∈ mccLine P path n raw ↔
      ∃ k, rep = ⟨.multiCondition k, n⟩ ∧ (mccChecks P path (Strip.strip raw) raw)[k]? = some true := by
  unfold mccLine
  simp only [List.mem_map, List.mem_filter]
  constructor
  · rintro ⟨⟨b, i⟩, ⟨hm, hb⟩, rfl⟩
    simp only at hb
    subst hb
    exact ⟨i, rfl, List.mk_mem_zipIdx_iff_getElem?.mp hm⟩
  · rintro ⟨k, rfl, hk⟩
    exact ⟨(true, k), ⟨List.mk_mem_zipIdx_iff_getElem?.mpr hk, rfl⟩, rfl⟩

/-- the reports of a file are the reports of its lines -/
theorem mem_run_multiCondition (P : MccPatterns) (path : Str) (lines : List Str) (k n : Nat) :
    ⟨.multiCondition k, n⟩ ∈ run (multiCondition P path) lines ↔
      ∃ i l, n = i + 1 ∧ lines[i]? = some l ∧ (mccChecks P path (Strip.strip l) l)[k]? = some true := by
  show _ ∈ runFrom (perLine (mccLine P path)) () 1 lines ↔ _
  rw [mem_run_perLine]
  constructor
  · rintro ⟨i, l, hl, hm⟩
    obtain ⟨k', hrep, hk⟩ := (mem_mccLine P path _ l _).mp hm
    simp only [Report.mk.injEq, Rule.multiCondition.injEq] at hrep
    obtain ⟨rfl, rfl⟩ := hrep
    exact ⟨i, l, by omega, hl, hk⟩
  · rintro ⟨i, l, rfl, hl, hk⟩
    refine ⟨i, l, hl, (mem_mccLine P path _ l _).mpr ⟨k, ?_, hk⟩⟩
    simp [Nat.add_comm]

end SymbolVerif.Lint.Rules

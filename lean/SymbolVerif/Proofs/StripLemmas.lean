/-
Helper lemmas for C19 about `Model/Lint/Strip.lean`: text before the first character that can start a
comment or a literal passes through `strip_comments_and_strings` unchanged.
-/
import SymbolVerif.Model.Lint.Strip
namespace SymbolVerif.Lint.Strip

theorem cutLineComment_cons (c : Char) (cs : Str) (hc : c ≠ '/') :
    cutLineComment (c :: cs) = c :: cutLineComment cs := by
  rw [cutLineComment]
  intro t h _
  exact hc h

theorem cutLineComment_append (a b : Str) (ha : ∀ c ∈ a, c ≠ '/') :
    cutLineComment (a ++ b) = a ++ cutLineComment b := by
  induction a with
  | nil => rfl
  | cons c a ih =>
    have hc := ha c List.mem_cons_self
    have ih' := ih (fun d hd => ha d (List.mem_cons_of_mem _ hd))
    simp only [List.cons_append]
    rw [cutLineComment_cons c _ hc, ih']

theorem subGo_append (o : Char) (os close : Str) (a b : Str) (ha : ∀ c ∈ a, c ≠ o) (f : Nat) :
    subGo (o :: os) close (a.length + f) (a ++ b) = a ++ subGo (o :: os) close f b := by
  induction a with
  | nil => simp
  | cons c a ih =>
    have hc : (o == c) = false := by
      have := ha c List.mem_cons_self
      simpa using fun h => this h.symm
    have ih' := ih (fun d hd => ha d (List.mem_cons_of_mem _ hd))
    have hlen : (c :: a).length + f = (a.length + f) + 1 := by simp; omega
    simp only [List.cons_append]
    rw [hlen, subGo]
    simp only [List.isPrefixOf, hc, Bool.false_and, Bool.false_eq_true, if_false]
    rw [ih']

theorem subDelim_append (o : Char) (os close : Str) (a b : Str) (ha : ∀ c ∈ a, c ≠ o) :
    subDelim (o :: os) close (a ++ b) = a ++ subDelim (o :: os) close b := by
  unfold subDelim
  rw [List.length_append, subGo_append o os close a b ha]

/-- text that contains no `/`, `"`, `'` passes through unchanged, whatever follows it -/
theorem strip_append_plain (a b : Str) (ha : ∀ c ∈ a, plainChar c = true) : strip (a ++ b) = a ++ strip b := by
  have h1 : ∀ c ∈ a, c ≠ '/' := fun c hc => by have := ha c hc; simp [plainChar] at this; exact this.1.1
  have h2 : ∀ c ∈ a, c ≠ '"' := fun c hc => by have := ha c hc; simp [plainChar] at this; exact this.1.2
  have h3 : ∀ c ∈ a, c ≠ '\'' := fun c hc => by have := ha c hc; simp [plainChar] at this; exact this.2
  unfold strip
  rw [cutLineComment_append a b h1, subDelim_append '/' ['*'] _ a _ h1, subDelim_append '"' [] _ a _ h2,
    subDelim_append '\'' [] _ a _ h3]

theorem strip_nil : strip [] = [] := by decide

theorem strip_plain (a : Str) (ha : ∀ c ∈ a, plainChar c = true) : strip a = a := by
  have := strip_append_plain a [] ha
  simpa [strip_nil] using this

/-! ### lines on which the passes have nothing left to do -/

/-- `p` occurs in `s` -/
def occurs (p : Str) : Str → Bool
  | [] => p.isEmpty
  | c :: t => p.isPrefixOf (c :: t) || occurs p t

theorem cutLineComment_id : ∀ (s : Str), occurs ['/', '/'] s = false → cutLineComment s = s
  | [], _ => rfl
  | [c], _ => by
    by_cases hc : c = '/'
    · subst hc; rfl
    · rw [cutLineComment_cons c [] hc]; rfl
  | c :: d :: t, h => by
    simp only [occurs, Bool.or_eq_false_iff] at h
    have ih := cutLineComment_id (d :: t) (by simpa [occurs] using h.2)
    by_cases hc : c = '/'
    · subst hc
      have hd : d ≠ '/' := by
        intro hd; subst hd
        simp [List.isPrefixOf] at h
      rw [cutLineComment]
      · rw [ih]
      · intro t' _ heq
        cases heq
        exact hd rfl
    · rw [cutLineComment_cons c _ hc, ih]

theorem subGo_id (o1 o2 : Char) (close : Str) : ∀ (f : Nat) (s : Str), occurs [o1, o2] s = false → subGo [o1, o2] close f s = s
  | 0, _, _ => rfl
  | _ + 1, [], _ => rfl
  | f + 1, c :: cs, h => by
    simp only [occurs, Bool.or_eq_false_iff] at h
    rw [subGo]
    simp only [h.1, Bool.false_eq_true, if_false]
    rw [subGo_id o1 o2 close f cs h.2]

theorem subGo_nil (open_ close : Str) (f : Nat) : subGo open_ close f [] = [] := by
  cases f <;> rfl

theorem subDelim_id_single (o : Char) (close s : Str) (h : ∀ c ∈ s, c ≠ o) : subDelim [o] close s = s := by
  have := subGo_append o [] close s [] h 0
  unfold subDelim
  simpa [subGo_nil] using this

/-- a line that holds no `//`, no `/*`, no `"` and no `'` is left as it is -/
theorem strip_id (s : Str) (h1 : occurs ['/', '/'] s = false) (h2 : occurs ['/', '*'] s = false)
    (h3 : ∀ c ∈ s, c ≠ '"') (h4 : ∀ c ∈ s, c ≠ '\'') : strip s = s := by
  unfold strip
  rw [cutLineComment_id s h1]
  have : subDelim ['/', '*'] ['*', '/'] s = s := subGo_id '/' '*' _ _ s h2
  rw [this, subDelim_id_single '"' _ s h3, subDelim_id_single '\'' _ s h4]

end SymbolVerif.Lint.Strip

/-
Helper lemmas for C19 about `Model/Lint/Strip.lean`: text before the first character that can start a
comment or a literal passes through `strip_comments_and_strings` unchanged.
-/
import SymbolVerif.Model.Lint.Strip
namespace SymbolVerif.Lint.Strip

theorem cutLineComment_cons (c : Char) (cs : Str) (hc : c ≠ '/') :
    cutLineComment (c :: cs) = c :: cutLineComment cs := by
  rw [cutLineComment]
  intro t h _
  exact hc h

theorem cutLineComment_append (a b : Str) (ha : ∀ c ∈ a, c ≠ '/') :
    cutLineComment (a ++ b) = a ++ cutLineComment b := by
  induction a with
  | nil => rfl
  | cons c a ih =>
    have hc := ha c List.mem_cons_self
    have ih' := ih (fun d hd => ha d (List.mem_cons_of_mem _ hd))
    simp only [List.cons_append]
    rw [cutLineComment_cons c _ hc, ih']

theorem subGo_append (o : Char) (os close : Str) (a b : Str) (ha : ∀ c ∈ a, c ≠ o) (f : Nat) :
    subGo (o :: os) close (a.length + f) (a ++ b) = a ++ subGo (o :: os) close f b := by
  induction a with
  | nil => simp
  | cons c a ih =>
    have hc : (o == c) = false := by
      have := ha c List.mem_cons_self
      simpa using fun h => this h.symm
    have ih' := ih (fun d hd => ha d (List.mem_cons_of_mem _ hd))
    have hlen : (c :: a).length + f = (a.length + f) + 1 := by simp; omega
    simp only [List.cons_append]
    rw [hlen, subGo]
    simp only [List.isPrefixOf, hc, Bool.false_and, Bool.false_eq_true, if_false]
    rw [ih']

theorem subDelim_append (o : Char) (os close : Str) (a b : Str) (ha : ∀ c ∈ a, c ≠ o) :
    subDelim (o :: os) close (a ++ b) = a ++ subDelim (o :: os) close b := by
  unfold subDelim
  rw [List.length_append, subGo_append o os close a b ha]

/-- text that contains no `/`, `"`, `'` passes through unchanged, whatever follows it -/
theorem strip_append_plain (a b : Str) (ha : ∀ c ∈ a, plainChar c = true) : strip (a ++ b) = a ++ strip b := by
  have h1 : ∀ c ∈ a, c ≠ '/' := fun c hc => by have := ha c hc; simp [plainChar] at this; exact this.1.1
  have h2 : ∀ c ∈ a, c ≠ '"' := fun c hc => by have := ha c hc; simp [plainChar] at this; exact this.1.2
  have h3 : ∀ c ∈ a, c ≠ '\'' := fun c hc => by have := ha c hc; simp [plainChar] at this; exact this.2
  unfold strip
  rw [cutLineComment_append a b h1, subDelim_append '/' ['*'] _ a _ h1, subDelim_append '"' [] _ a _ h2,
    subDelim_append '\'' [] _ a _ h3]

theorem strip_nil : strip [] = [] := by decide

theorem strip_plain (a : Str) (ha : ∀ c ∈ a, plainChar c = true) : strip a = a := by
  have := strip_append_plain a [] ha
  simpa [strip_nil] using this

end SymbolVerif.Lint.Strip

/-
Helper lemmas for C07/C14: what it means for a record of curve operations to be an abelian group with a base point of
order dividing `L` (`Lawful`, a hypothesis of the property theorems, never an axiom), and the algebra of the Ed25519
verification equation in such a group.
-/
import SymbolVerif.Model.Sdk.Ed25519
import SymbolVerif.Proofs.BytesLemmas
import Mathlib.GroupTheory.OrderOfElement
import Mathlib.Tactic.Abel
import Mathlib.Data.ZMod.Basic
namespace SymbolVerif.Curve
open SymbolVerif SymbolVerif.Bytes SymbolVerif.Sdk.Ed25519

variable {G : Type}

/-- the operations of `C` are those of the additive commutative group on `G`, `L • B = 0`, scalars fit 32 bytes and
    points encode to 32 bytes. These are the assumptions on the third-party curve arithmetic. -/
structure Lawful [AddCommGroup G] (C : Curve G) : Prop where
  add_eq : ∀ P Q, C.add P Q = P + Q
  neg_eq : ∀ P, C.neg P = -P
  zero_eq : C.zero = 0
  smul_eq : ∀ (n : ℕ) P, C.smul n P = n • P
  order : C.L • C.B = 0
  L_pos : 0 < C.L
  L_le : C.L ≤ 256 ^ 32
  encode_length : ∀ P, (C.encode P).length = 32

section
variable [AddCommGroup G]

theorem mod_smul_of_order {B : G} {L : ℕ} (h : L • B = 0) (n : ℕ) : (n % L) • B = n • B := by
  conv_rhs => rw [← Nat.div_add_mod n L]
  rw [add_smul, mul_comm, mul_smul, h, smul_zero, zero_add]

/-- the verification equation holds for an honestly produced scalar. -/
theorem sign_equation {B : G} {L : ℕ} (hL : L • B = 0) (r h a : ℕ) :
    ((r + h * a) % L) • B + -(h • (a • B)) = r • B := by
  rw [mod_smul_of_order hL, add_smul, mul_smul]
  abel

/-- with `B` of order exactly `L`, reduced scalars are determined by their multiple of `B`. -/
theorem smul_inj_of_order {B : G} {L : ℕ} (hord : addOrderOf B = L) {s t : ℕ} (hs : s < L) (ht : t < L)
    (h : s • B = t • B) : s = t := by
  have := (nsmul_eq_nsmul_iff_modEq (x := B)).1 h
  rw [hord] at this
  unfold Nat.ModEq at this
  rw [Nat.mod_eq_of_lt hs, Nat.mod_eq_of_lt ht] at this
  exact this

/-- with `A` of order exactly `L`, equal multiples of `A` have congruent scalars. -/
theorem smul_eq_mod_of_order {A : G} {L : ℕ} (hord : addOrderOf A = L) {s t : ℕ} (h : s • A = t • A) : s % L = t % L := by
  have := (nsmul_eq_nsmul_iff_modEq (x := A)).1 h
  rw [hord] at this
  exact this

end

/-! byte-level facts about `R ‖ S` -/

theorem take_sig {R s : Bytes} (h : R.length = 32) : (R ++ s).take 32 = R := by
  rw [List.take_append_of_le_length (by omega), List.take_of_length_le (by omega)]

theorem drop_sig {R s : Bytes} (h : R.length = 32) : (R ++ s).drop 32 = s := by
  rw [← h]; exact List.drop_left

theorem leNat_eq_zero_iff (bs : Bytes) : leNat bs = 0 ↔ bs = zeros bs.length := by
  induction bs with
  | nil => simp [leNat, zeros]
  | cons b bs ih =>
    simp only [leNat, List.length_cons, zeros, List.replicate_succ, List.cons.injEq]
    constructor
    · intro h
      have h1 : b.toNat = 0 := by omega
      have h2 : leNat bs = 0 := by omega
      exact ⟨UInt8.toNat_inj.1 (by simpa using h1), by simpa [zeros] using ih.1 h2⟩
    · rintro ⟨rfl, h2⟩
      have := ih.2 (by simpa [zeros] using h2)
      simp [this]

/-- `leBytes` is injective below `256^w`. -/
theorem leBytes_inj {w a b : ℕ} (ha : a < 256 ^ w) (hb : b < 256 ^ w) (h : leBytes w a = leBytes w b) : a = b := by
  have := congrArg leNat h
  rwa [leNat_leBytes_of_lt ha, leNat_leBytes_of_lt hb] at this

/-- `leNat` is injective on byte strings of equal length. -/
theorem leNat_inj : ∀ {a b : Bytes}, a.length = b.length → leNat a = leNat b → a = b
  | [], [], _, _ => rfl
  | [], _ :: _, h, _ => by simp at h
  | _ :: _, [], h, _ => by simp at h
  | x :: xs, y :: ys, hl, h => by
    simp only [leNat] at h
    have hx := x.toNat_lt
    have hy := y.toNat_lt
    have h1 : x.toNat = y.toNat := by omega
    have h2 : leNat xs = leNat ys := by omega
    rw [UInt8.toNat_inj.1 h1, leNat_inj (by simpa using hl) h2]

/-! a toy instance showing the hypotheses are jointly satisfiable (used by the non-vacuity examples of C07 and C14) -/

/-- `Lawful`, exact order, injective encoding and the decode hypothesis are jointly satisfiable: the integers modulo 11 with
    base point 1, `L = 11`, points encoded as one byte followed by 31 zeros. -/
def toyCurve : Curve (ZMod 11) where
  add := (· + ·)
  neg := (- ·)
  zero := 0
  smul := fun n P => (n : ZMod 11) * P
  B := 1
  L := 11
  encode := fun P => UInt8.ofNat P.val :: zeros 31
  decode := fun bs => match bs with | [] => none | b :: _ => some (b.toNat : ZMod 11)

theorem toyCurve_lawful : Lawful toyCurve :=
  { add_eq := fun _ _ => rfl, neg_eq := fun _ => rfl, zero_eq := rfl, smul_eq := fun n P => (nsmul_eq_mul n P).symm,
    order := by decide, L_pos := by decide, L_le := by decide, encode_length := fun _ => by simp [toyCurve, zeros] }

end SymbolVerif.Curve

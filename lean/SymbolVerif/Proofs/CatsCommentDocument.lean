/-
The document-level round trip with documentation comments (C04): `#` lines before a declaration (before its attribute
lines), before an enum value, before a member (before its attribute lines). Builds on the lexer lemma of
`CatsCommentLines.lean` (the `#` lines become one comment line), on the kind-agnostic segment / block lemmas of
`CatsBlocks.lean`, on the loop lemmas of `CatsAttrDocument.lean` (stated for any pending comment) and on
`Comment.normalise_deco` (the text of the comment token is normalised back to the comment).
-/
import SymbolVerif.Proofs.CatsAttrDocument
import SymbolVerif.Proofs.CatsCommentLines
namespace SymbolVerif.Cats.Parser
open SymbolVerif.Cats SymbolVerif.Cats.Lexer
set_option linter.unusedSimpArgs false

/-! ### from logical lines to blocks, for any segments -/

theorem blocks_of_segs (doc : Chars) (segs : List Seg) (hlex : logicalLines doc = .ok (segs.flatMap Seg.lines, 0))
    (hok : ∀ s ∈ segs, s.Ok) :
    parseItems doc =
      (match topLoop (segs.map segBlock) {} [] with
       | .error e => .error ⟨if e.line == 0 then
            ((segs.flatMap Seg.lines).getLast?.map (·.endLineNo)).getD 1 else e.line, e.msg⟩
       | .ok items => .ok items) := by
  have hev := events_segs segs hok
  have hgr := groupBlocks_segs segs []
  simp only [List.reverse_nil, List.nil_append] at hgr
  simp only [parseItems, hlex, liftLex, bind, Except.bind, events, hev, hgr]
  rfl

/-! ### layouts with comments -/

/-- one header line at the outer level (preceded by the `#` lines `doc`) with its child lines (each preceded by its
    own `#` lines); `blankBefore` = an empty line precedes the whole -/
structure QSpec where
  blankBefore : Bool
  doc : List Chars
  head : Chars
  kids : List (List Chars × Chars)

def QSpec.plines (s : QSpec) : List QLine :=
  (if s.blankBefore then [QLine.blank] else []) ++
    QLine.code false s.doc s.head :: s.kids.map fun k => QLine.code true k.1 k.2

def qspecPLines (specs : List QSpec) : List QLine := specs.flatMap QSpec.plines

def QSpec.Clean (s : QSpec) : Prop :=
  CleanText s.head ∧ (∀ l ∈ s.doc, CommentLine l) ∧ ∀ k ∈ s.kids, CleanText k.2 ∧ ∀ l ∈ k.1, CommentLine l

/-- child lines (with their comment lines) numbered from `k` -/
def qkidLines : Nat → List (List Chars × Chars) → List LLine
  | _, [] => []
  | k, (doc, t) :: ts =>
    docLine k true doc ++ ⟨k + doc.length, k + doc.length, 4, .code, t⟩ :: qkidLines (k + doc.length + 1) ts

def QSpec.first (s : QSpec) (k : Nat) : Nat := if s.blankBefore then k + 1 else k

/-- a comment line at the outer level is a segment of its own -/
def commentSegs (ls : List LLine) : List Seg := ls.map fun l => ⟨l, []⟩

def QSpec.segs (s : QSpec) (k : Nat) : List Seg :=
  commentSegs (docLine (s.first k) false s.doc) ++
    [⟨⟨s.first k + s.doc.length, s.first k + s.doc.length, 0, .code, s.head⟩,
      qkidLines (s.first k + s.doc.length + 1) s.kids⟩]

def QSpec.size (s : QSpec) : Nat := qheight s.plines

def qspecSegs : Nat → List QSpec → List Seg
  | _, [] => []
  | k, s :: rest => s.segs k ++ qspecSegs (k + s.size) rest

theorem expQ_kids : ∀ (ts : List (List Chars × Chars)) (k : Nat),
    expQ k (ts.map fun x => QLine.code true x.1 x.2) = qkidLines k ts := by
  intro ts
  induction ts with
  | nil => intro k; rfl
  | cons t rest ih =>
    intro k
    obtain ⟨doc, t⟩ := t
    simp only [List.map_cons, expQ, qkidLines, ih, if_true]

theorem commentSegs_lines (ls : List LLine) : (commentSegs ls).flatMap Seg.lines = ls := by
  induction ls with
  | nil => rfl
  | cons l rest ih =>
    simp only [commentSegs, List.map_cons, List.flatMap_cons, Seg.lines, List.cons_append, List.nil_append] at ih ⊢
    rw [ih]

theorem expQ_spec (s : QSpec) (k : Nat) : expQ k s.plines = (s.segs k).flatMap Seg.lines := by
  obtain ⟨b, doc, head, kids⟩ := s
  cases b <;>
    simp only [QSpec.plines, Bool.false_eq_true, if_false, if_true, List.nil_append, List.cons_append, expQ, expQ_kids,
      QSpec.segs, QSpec.first, List.flatMap_append, commentSegs_lines, List.flatMap_cons, List.flatMap_nil, Seg.lines,
      List.append_nil]

theorem expQ_specs : ∀ (specs : List QSpec) (k : Nat),
    expQ k (qspecPLines specs) = (qspecSegs k specs).flatMap Seg.lines := by
  intro specs
  induction specs with
  | nil => intro k; rfl
  | cons s rest ih =>
    intro k
    simp only [qspecPLines, List.flatMap_cons, expQ_append, expQ_spec, qspecSegs, List.flatMap_append]
    rw [← qspecPLines, ih]
    rfl

theorem docLine_indent (k : Nat) (i : Bool) (doc : List Chars) : ∀ l ∈ docLine k i doc, l.indent = if i then 4 else 0 := by
  intro l hl
  cases doc with
  | nil => cases hl
  | cons x xs => simp only [docLine, List.mem_singleton] at hl; subst hl; rfl

theorem qkidLines_indent : ∀ (ts : List (List Chars × Chars)) (k : Nat), ∀ l ∈ qkidLines k ts, l.indent = 4 := by
  intro ts
  induction ts with
  | nil => intro k l hl; cases hl
  | cons t rest ih =>
    intro k l hl
    obtain ⟨doc, t⟩ := t
    simp only [qkidLines, List.mem_append, List.mem_cons] at hl
    rcases hl with hl | rfl | hl
    · exact docLine_indent k true doc l hl
    · rfl
    · exact ih _ l hl

theorem qspec_segs_ok (s : QSpec) (k : Nat) : ∀ x ∈ s.segs k, x.Ok := by
  intro x hx
  simp only [QSpec.segs, List.mem_append, List.mem_singleton, commentSegs, List.mem_map] at hx
  rcases hx with ⟨l, hl, rfl⟩ | rfl
  · exact ⟨docLine_indent _ false _ l hl, by intro y hy; cases hy⟩
  · exact ⟨rfl, qkidLines_indent _ _⟩

theorem qspecSegs_ok : ∀ (specs : List QSpec) (k : Nat), ∀ s ∈ qspecSegs k specs, s.Ok := by
  intro specs
  induction specs with
  | nil => intro k s hs; cases hs
  | cons sp rest ih =>
    intro k s hs
    simp only [qspecSegs, List.mem_append] at hs
    rcases hs with hs | hs
    · exact qspec_segs_ok sp k s hs
    · exact ih _ s hs

theorem qspecSegs_append : ∀ (a b : List QSpec) (k : Nat), ∃ k', qspecSegs k (a ++ b) = qspecSegs k a ++ qspecSegs k' b := by
  intro a
  induction a with
  | nil => intro b k; exact ⟨k, rfl⟩
  | cons s rest ih =>
    intro b k
    obtain ⟨k', h⟩ := ih b (k + s.size)
    exact ⟨k', by simp only [List.cons_append, qspecSegs, h, List.append_assoc]⟩

theorem clean_qspecPLines (specs : List QSpec) (h : ∀ s ∈ specs, s.Clean) : ∀ p ∈ qspecPLines specs, p.Clean := by
  intro p hp
  simp only [qspecPLines, List.mem_flatMap] at hp
  obtain ⟨s, hs, hp⟩ := hp
  obtain ⟨hhead, hdoc, hkids⟩ := h s hs
  simp only [QSpec.plines, List.mem_append, List.mem_cons, List.mem_map] at hp
  rcases hp with hp | rfl | ⟨t, ht, rfl⟩
  · split at hp
    · simp only [List.mem_singleton] at hp; subst hp; trivial
    · cases hp
  · exact ⟨hhead, hdoc⟩
  · exact hkids t ht

/-- The blocks of a layout with comments. -/
theorem blocks_of_layoutQ (s0 : QSpec) (rest : List QSpec) (h0 : s0.blankBefore = false)
    (hclean : ∀ s ∈ s0 :: rest, s.Clean) :
    parseItems (unlinesC ((qspecPLines (s0 :: rest)).flatMap QLine.phys)) =
      (match topLoop ((qspecSegs 1 (s0 :: rest)).map segBlock) {} [] with
       | .error e => .error ⟨if e.line == 0 then
            (((qspecSegs 1 (s0 :: rest)).flatMap Seg.lines).getLast?.map (·.endLineNo)).getD 1 else e.line, e.msg⟩
       | .ok items => .ok items) := by
  have hfirst : ∃ tl, qspecPLines (s0 :: rest) = QLine.code false s0.doc s0.head :: tl := by
    obtain ⟨b, doc, head, kids⟩ := s0
    simp only at h0
    subst h0
    exact ⟨_, rfl⟩
  obtain ⟨tl, htl⟩ := hfirst
  have hcl := clean_qspecPLines (s0 :: rest) hclean
  have hlex := logicalLines_unlinesQ false s0.doc s0.head tl (by rw [← htl]; exact hcl)
  rw [← htl, expQ_specs] at hlex
  exact blocks_of_segs _ _ hlex (qspecSegs_ok _ _)

/-! ### the comment lines of a documentation comment -/

/-- the `#` lines the printer emits for an optional comment -/
def docOf : Option Comment → List Chars
  | none => []
  | some c => Comment.clines (Comment.splitLines c.parsed.toList)

theorem ipre_strip (i : Bool) : (ipre i).all Comment.isStripChar = true ∧ '\n' ∉ ipre i := by
  cases i <;> exact ⟨by decide, by decide⟩

/-- the comment line of a comment in normal form is read back as that comment -/
theorem docLine_some (c : Comment) (hc : Comment.NormalComment c) (k : Nat) (i : Bool) :
    ∃ l, docLine k i (docOf (some c)) = [l] ∧ l.kind = .comment ∧ commentOf l = c := by
  have hnorm := Comment.normalise_deco c hc (ipre i) (ipre_strip i).1 (ipre_strip i).2
  simp only [docOf]
  cases hcl : Comment.clines (Comment.splitLines c.parsed.toList) with
  | nil => exact absurd hcl hc.2
  | cons x xs =>
    rw [hcl] at hnorm
    exact ⟨_, rfl, rfl, hnorm⟩

theorem structLoop_doc (c : Option Comment) (hc : WFComment c) (k : Nat) (rest : List LLine) (acc : List Member) :
    structLoop (docLine k true (docOf c) ++ rest) none none acc = structLoop rest c none acc := by
  cases c with
  | none => rfl
  | some x =>
    obtain ⟨l, hl, hkind, hcomment⟩ := docLine_some x (hc x rfl) k true
    simp only [hl, List.cons_append, List.nil_append, structLoop, hkind, hcomment]

theorem enumLoop_doc (c : Option Comment) (hc : WFComment c) (k : Nat) (rest : List LLine) (acc : List EnumValue) :
    enumLoop (docLine k true (docOf c) ++ rest) none acc = enumLoop rest c acc := by
  cases c with
  | none => rfl
  | some x =>
    obtain ⟨l, hl, hkind, hcomment⟩ := docLine_some x (hc x rfl) k true
    simp only [hl, List.cons_append, List.nil_append, enumLoop, hkind, hcomment]

theorem topLoop_doc (c : Option Comment) (hc : WFComment c) (k : Nat) (rest : List Block) (acc : List Item) :
    topLoop ((commentSegs (docLine k false (docOf c))).map segBlock ++ rest) {} acc = topLoop rest { pending := c } acc := by
  cases c with
  | none => rfl
  | some x =>
    obtain ⟨l, hl, hkind, hcomment⟩ := docLine_some x (hc x rfl) k false
    simp only [hl, commentSegs, List.map_cons, List.map_nil, List.cons_append, List.nil_append, segBlock, List.isEmpty_nil,
      if_true, topLoop, hkind, hcomment, flushComment]

/-! ### child lines -/

/-- the first of the lines carries the comment -/
def attach (doc : List Chars) : List Chars → List (List Chars × Chars)
  | [] => []
  | t :: ts => (doc, t) :: ts.map fun x => ([], x)

theorem qkidLines_plain_append : ∀ (ts : List Chars) (more : List (List Chars × Chars)) (k : Nat),
    qkidLines k (ts.map (fun x => (([] : List Chars), x)) ++ more) = kidLines k ts ++ qkidLines (k + ts.length) more := by
  intro ts
  induction ts with
  | nil => intro more k; simp [kidLines]
  | cons t rest ih =>
    intro more k
    simp only [List.map_cons, List.cons_append, qkidLines, docLine, List.nil_append, List.length_nil, Nat.add_zero, ih,
      kidLines, List.length_cons]
    congr 3
    omega

theorem qkidLines_attach_append (doc : List Chars) (t : Chars) (ts : List Chars) (more : List (List Chars × Chars)) (k : Nat) :
    qkidLines k (attach doc (t :: ts) ++ more) =
      docLine k true doc ++ (kidLines (k + doc.length) (t :: ts) ++ qkidLines (k + doc.length + (ts.length + 1)) more) := by
  simp only [attach, List.cons_append, qkidLines, qkidLines_plain_append, kidLines, Nat.add_assoc, Nat.add_comm 1]

theorem qkidLines_isEmpty (ts : List (List Chars × Chars)) (k : Nat) : (qkidLines k ts).isEmpty = ts.isEmpty := by
  cases ts with
  | nil => rfl
  | cons t rest =>
    obtain ⟨doc, t⟩ := t
    cases doc <;> simp [qkidLines, docLine]

/-! ### members and enum values with comments -/

def memberKidsC (m : Member) : List (List Chars × Chars) := attach (docOf (memberComment m)) (memberTextsA m)

theorem render_comment (f : StructField) (c : Option Comment) :
    StructField.render { f with comment := c, attributes := none } = StructField.render { f with attributes := none } := rfl

theorem memberTextsA_set (m : Member) (c : Option Comment) : memberTextsA (setMemberComment m c) = memberTextsA m := by
  cases m with
  | field f => simp only [setMemberComment, memberTextsA, render_comment]
  | inlinePlaceholder t c' => rfl

/-- the lines of one member (comment lines, attribute lines, the member) are read back as that member -/
theorem structLoop_memberC (m : Member) (hm : WFMemberC m) (more : List (List Chars × Chars)) (k : Nat) (acc : List Member) :
    ∃ k', structLoop (qkidLines k (memberKidsC m ++ more)) none none acc = structLoop (qkidLines k' more) none none (m :: acc) := by
  cases hm with
  | mk m0 c hm0 hc =>
    simp only [memberKidsC, memberComment_set, memberTextsA_set]
    cases htexts : memberTextsA m0 with
    | nil => exact absurd htexts (memberTextsA_ne_nil m0)
    | cons t ts =>
      refine ⟨k + (docOf c).length + (ts.length + 1), ?_⟩
      rw [qkidLines_attach_append, structLoop_doc c hc, structLoop_memberA c m0 hm0 _ _ acc (by
        rw [htexts]; exact kidLines_forall2_texts _ _)]

theorem structLoop_membersC : ∀ (ms : List Member) (k : Nat) (acc : List Member), (∀ m ∈ ms, WFMemberC m) →
    structLoop (qkidLines k (ms.flatMap memberKidsC)) none none acc = .ok (acc.reverse ++ ms) := by
  intro ms
  induction ms with
  | nil => intro k acc _; simp [qkidLines, structLoop]
  | cons m rest ih =>
    intro k acc hwf
    obtain ⟨k', hstep⟩ := structLoop_memberC m (hwf m List.mem_cons_self) (rest.flatMap memberKidsC) k acc
    rw [List.flatMap_cons, hstep, ih k' (m :: acc) (fun x hx => hwf x (List.mem_cons_of_mem _ hx))]
    simp

def enumKidC (v : EnumValue) : List Chars × Chars := (docOf v.comment, v.render.toList)

theorem enumLoop_valuesC : ∀ (vs : List EnumValue) (k : Nat) (acc : List EnumValue), (∀ v ∈ vs, WFEnumValueC v) →
    enumLoop (qkidLines k (vs.map enumKidC)) none acc = .ok (acc.reverse ++ vs) := by
  intro vs
  induction vs with
  | nil => intro k acc _; simp [qkidLines, enumLoop]
  | cons v rest ih =>
    intro k acc hwf
    cases hwf v List.mem_cons_self with
    | mk v0 c hv0 hc =>
      have hp := parseEnumLine_render v0 hv0
      have hrender : (EnumValue.render { v0 with comment := c }) = EnumValue.render v0 := rfl
      simp only [List.map_cons, enumKidC, hrender, qkidLines]
      rw [enumLoop_doc c hc]
      simp only [enumLoop, hp]
      rw [ih _ _ (fun x hx => hwf x (List.mem_cons_of_mem _ hx))]
      simp

/-! ### the layout of one declaration -/

def declKidsC : Decl → List (List Chars × Chars)
  | .alias _ => []
  | .enum e => e.values.map enumKidC
  | .struct s => s.fields.flatMap memberKidsC

def declComment : Decl → Option Comment
  | .alias a => a.comment
  | .enum e => e.comment
  | .struct s => s.comment

/-- the lines at the outer level: the attribute lines, then the header with the children; the comment lines (and
    the empty line, if any) stand before the first of them -/
def leadSpecs (blank : Bool) (doc : List Chars) (head : Chars) (kids : List (List Chars × Chars)) : List Chars → List QSpec
  | [] => [⟨blank, doc, head, kids⟩]
  | t :: ts => ⟨blank, doc, t, []⟩ :: leadSpecs false [] head kids ts

def declSpecsC (blank : Bool) (d : Decl) : List QSpec :=
  leadSpecs blank (docOf (declComment d)) (declHead d) (declKidsC d) (declAttrTexts d)

def docSpecsC : Bool → List Decl → List QSpec
  | _, [] => []
  | first, d :: rest => declSpecsC (!first) d ++ docSpecsC false rest

/-- the blocks of the lines of one declaration: comment block (if any), attribute blocks, header block -/
theorem leadSpecs_blocks : ∀ (texts : List Chars) (blank : Bool) (doc : List Chars) (head : Chars)
    (kids : List (List Chars × Chars)) (k : Nat),
    ∃ k1 k2 ab, (qspecSegs k (leadSpecs blank doc head kids texts)).map segBlock =
        (commentSegs (docLine k1 false doc)).map segBlock ++
          (ab ++ [segBlock ⟨⟨k2, k2, 0, .code, head⟩, qkidLines (k2 + 1) kids⟩]) ∧
      Forall2 IsAttrBlock ab texts := by
  intro texts
  induction texts with
  | nil =>
    intro blank doc head kids k
    refine ⟨(⟨blank, doc, head, kids⟩ : QSpec).first k, (⟨blank, doc, head, kids⟩ : QSpec).first k + doc.length, [], ?_, .nil⟩
    simp only [leadSpecs, qspecSegs, QSpec.segs, List.append_nil, List.map_append, List.map_cons, List.map_nil, List.nil_append]
  | cons t ts ih =>
    intro blank doc head kids k
    obtain ⟨k1', k2, ab', hblocks, hab⟩ := ih false [] head kids (k + (⟨blank, doc, t, []⟩ : QSpec).size)
    refine ⟨(⟨blank, doc, t, []⟩ : QSpec).first k, k2,
      ⟨⟨(⟨blank, doc, t, []⟩ : QSpec).first k + doc.length, (⟨blank, doc, t, []⟩ : QSpec).first k + doc.length, 0, .code, t⟩, none⟩ :: ab',
      ?_, .cons ⟨rfl, rfl, rfl⟩ hab⟩
    simp only [docLine, commentSegs, List.map_nil, List.nil_append] at hblocks
    simp only [leadSpecs, qspecSegs, List.map_append, hblocks, QSpec.segs, qkidLines, List.map_cons, List.map_nil, segBlock,
      List.isEmpty_nil, if_true, List.append_assoc, List.cons_append, List.nil_append]

theorem memberKidsC_ne_nil (m : Member) : memberKidsC m ≠ [] := by
  simp only [memberKidsC]
  cases h : memberTextsA m with
  | nil => exact absurd h (memberTextsA_ne_nil m)
  | cons t ts => simp [attach]

theorem kidsC_isEmpty_struct (fields : List Member) (h : fields ≠ []) : (fields.flatMap memberKidsC).isEmpty = false := by
  cases fields with
  | nil => exact absurd rfl h
  | cons m rest =>
    simp only [List.flatMap_cons]
    cases hm : memberKidsC m with
    | nil => exact absurd hm (memberKidsC_ne_nil m)
    | cons t ts => rfl

/-- The blocks of a well-formed declaration (comment, attribute lines, header, body with comments) are read back as
    that declaration. -/
theorem topLoop_declC (blank : Bool) (k : Nat) (d : Decl) (h : WFDeclC d) (rest : List Block) (acc : List Item) :
    topLoop ((qspecSegs k (declSpecsC blank d)).map segBlock ++ rest) {} acc = topLoop rest {} (.decl d :: acc) := by
  obtain ⟨k1, k2, attrBlocks, hblocks, hattrBlocks⟩ :=
    leadSpecs_blocks (declAttrTexts d) blank (docOf (declComment d)) (declHead d) (declKidsC d) k
  simp only [declSpecsC, hblocks, List.append_assoc]
  generalize hH : (⟨⟨k2, k2, 0, .code, declHead d⟩, qkidLines (k2 + 1) (declKidsC d)⟩ : Seg) = hdr
  have hkind : (segBlock hdr).head.kind = .code := by rw [← hH]; rfl
  have htext : (segBlock hdr).head.text = declHead d := by rw [← hH]; rfl
  have hkidsL : (segBlock hdr).body.getD [] = qkidLines (k2 + 1) (declKidsC d) := by
    rw [segBlock_body_getD, ← hH]
  cases h with
  | alias a ha hc =>
    simp only [declAttrTexts] at hattrBlocks
    cases hattrBlocks
    simp only [declComment]
    rw [topLoop_doc _ hc]
    obtain ⟨n, lt, c⟩ := a
    have hbody : (segBlock hdr).body = none := by rw [← hH]; rfl
    have hparse : parseTopLine .start (segBlock hdr).head.text = some (.alias n lt) := by
      rw [htext]; exact parseTopLine_alias ⟨n, lt, none⟩ ha
    simp only [List.nil_append, List.cons_append, topLoop, hkind, TopState.mode, hparse, hbody, declComment]
  | «enum» name base values attrs c hn hb hv hattrs hc =>
    simp only [declComment]
    rw [topLoop_doc _ hc]
    have hloop : enumLoop ((segBlock hdr).body.getD []) none [] = .ok values := by
      rw [hkidsL]
      have := enumLoop_valuesC values (k2 + 1) [] hv
      simpa [declKidsC] using this
    cases hattrs with
    | none =>
      simp only [declAttrTexts, attrTexts, attrList, List.map_nil] at hattrBlocks
      cases hattrBlocks
      have hparse : parseTopLine ({ attrs := none } : TopState).mode (segBlock hdr).head.text =
          some (.enumHeader name base) := by
        rw [htext]; exact parseTopLine_enumHeader name base hn hb
      rw [List.nil_append, List.singleton_append, topLoop_enum_header c _ rest acc none name base values hkind hparse hloop]
      rfl
    | some a as hall =>
      simp only [declAttrTexts, attrTexts, attrList] at hattrBlocks
      have hloopA := topLoop_enum_attrs c as a attrBlocks (segBlock hdr :: rest) none acc
        (forall2_map_right hattrBlocks) hall
      have hparse : parseTopLine ({ attrs := some (true, a :: as) } : TopState).mode (segBlock hdr).head.text =
          some (.enumHeader name base) := by
        rw [htext]; exact parseTopLine_enumHeader_after name base hn hb
      simp only [Option.map_none, Option.getD_none, List.nil_append] at hloopA
      rw [List.singleton_append, hloopA,
        topLoop_enum_header c _ rest acc (some (true, a :: as)) name base values hkind hparse hloop]
      rfl
  | struct dsp name fields attrs c hd hn hne hm hattrs hc =>
    simp only [declComment]
    rw [topLoop_doc _ hc]
    have hbody : (segBlock hdr).body = some (qkidLines (k2 + 1) (fields.flatMap memberKidsC)) := by
      rw [← hH]
      simp only [segBlock, declKidsC, qkidLines_isEmpty, kidsC_isEmpty_struct fields hne, Bool.false_eq_true, if_false]
    have hloop : structLoop (qkidLines (k2 + 1) (fields.flatMap memberKidsC)) none none [] = .ok fields := by
      have := structLoop_membersC fields (k2 + 1) [] hm
      simpa using this
    cases hattrs with
    | none =>
      simp only [declAttrTexts, attrTexts, attrList, List.map_nil] at hattrBlocks
      cases hattrBlocks
      have hparse : parseTopLine ({ attrs := none } : TopState).mode (segBlock hdr).head.text =
          some (.structHeader dsp name) := by
        rw [htext]; exact parseTopLine_structHeader dsp name hd hn
      rw [List.nil_append, List.singleton_append, topLoop_struct_header c _ rest acc none dsp name _ fields hkind hparse hbody hloop]
      rfl
    | some a as hall =>
      simp only [declAttrTexts, attrTexts, attrList] at hattrBlocks
      have hloopA := topLoop_struct_attrs c as a attrBlocks (segBlock hdr :: rest) none acc
        (forall2_map_right hattrBlocks) hall
      have hparse : parseTopLine ({ attrs := some (false, a :: as) } : TopState).mode (segBlock hdr).head.text =
          some (.structHeader dsp name) := by
        rw [htext]; exact parseTopLine_structHeader_after dsp name hd hn
      simp only [Option.map_none, Option.getD_none, List.nil_append] at hloopA
      rw [List.singleton_append, hloopA,
        topLoop_struct_header c _ rest acc (some (false, a :: as)) dsp name _ fields hkind hparse hbody hloop]
      rfl

theorem topLoop_docC : ∀ (ds : List Decl) (first : Bool) (k : Nat) (acc : List Item), WFDeclsC ds →
    topLoop ((qspecSegs k (docSpecsC first ds)).map segBlock) {} acc = .ok (acc.reverse ++ ds.map Item.decl) := by
  intro ds
  induction ds with
  | nil => intro _ _ acc _; simp [docSpecsC, qspecSegs, topLoop, flushComment]
  | cons d rest ih =>
    intro first k acc h
    obtain ⟨k', hsegs⟩ := qspecSegs_append (declSpecsC (!first) d) (docSpecsC false rest) k
    simp only [docSpecsC, hsegs, List.map_append]
    rw [topLoop_declC (!first) k d (h d List.mem_cons_self), ih false k' _ (fun x hx => h x (List.mem_cons_of_mem _ hx))]
    simp

/-! ### the printer emits this layout -/

theorem commentLines_toList (c : Option Comment) : (Printer.commentLines c).map String.toList = docOf c := by
  cases c with
  | none => rfl
  | some x => exact Comment.commentLinesOf_toList _

theorem attributeLines_texts (o : Option (List Attribute)) : (Printer.attributeLines o).map String.toList = attrTexts o := by
  simp [Printer.attributeLines, attrTexts, List.map_map, Function.comp_def]

/-- the physical lines of the children -/
def kidsPhys (kids : List (List Chars × Chars)) : List Chars := kids.flatMap fun k => k.1.map ('\t' :: ·) ++ ['\t' :: k.2]

theorem phys_kids (kids : List (List Chars × Chars)) :
    (kids.map fun k => QLine.code true k.1 k.2).flatMap QLine.phys = kidsPhys kids := by
  induction kids with
  | nil => rfl
  | cons k rest ih =>
    simp only [List.map_cons, List.flatMap_cons, ih, kidsPhys, QLine.phys, ipre, List.cons_append, List.nil_append]

theorem kidsPhys_plain (ts : List Chars) : kidsPhys (ts.map fun x => (([] : List Chars), x)) = ts.map ('\t' :: ·) := by
  induction ts with
  | nil => rfl
  | cons t rest ih =>
    simp only [kidsPhys, List.map_cons, List.flatMap_cons, List.map_nil, List.nil_append, List.cons_append] at ih ⊢
    rw [ih]

theorem kidsPhys_attach (doc : List Chars) (t : Chars) (ts : List Chars) :
    kidsPhys (attach doc (t :: ts)) = (doc ++ t :: ts).map ('\t' :: ·) := by
  have := kidsPhys_plain ts
  simp only [kidsPhys] at this
  simp only [kidsPhys, attach, List.flatMap_cons, this, List.map_append, List.map_cons, List.append_assoc, List.cons_append,
    List.nil_append]

theorem kidsPhys_append (a b : List (List Chars × Chars)) : kidsPhys (a ++ b) = kidsPhys a ++ kidsPhys b := by
  simp only [kidsPhys, List.flatMap_append]

theorem phys_leadSpecs_false : ∀ (texts : List Chars) (doc : List Chars) (head : Chars) (kids : List (List Chars × Chars)),
    (qspecPLines (leadSpecs false doc head kids texts)).flatMap QLine.phys = doc ++ texts ++ head :: kidsPhys kids := by
  intro texts
  induction texts with
  | nil =>
    intro doc head kids
    simp only [leadSpecs, qspecPLines, List.flatMap_cons, List.flatMap_nil, List.append_nil, QSpec.plines, Bool.false_eq_true,
      if_false, List.nil_append, phys_kids, QLine.phys, ipre, List.map_id', List.append_assoc, List.cons_append]
  | cons t ts ih =>
    intro doc head kids
    have := ih [] head kids
    simp only [qspecPLines, List.nil_append] at this
    simp only [leadSpecs, qspecPLines, List.flatMap_cons, this, QSpec.plines, Bool.false_eq_true, if_false, List.nil_append,
      List.map_nil, List.flatMap_nil, List.append_nil, QLine.phys, ipre, List.map_id', List.append_assoc, List.cons_append]

theorem phys_leadSpecs_true (texts : List Chars) (doc : List Chars) (head : Chars) (kids : List (List Chars × Chars)) :
    (qspecPLines (leadSpecs true doc head kids texts)).flatMap QLine.phys =
      [] :: (qspecPLines (leadSpecs false doc head kids texts)).flatMap QLine.phys := by
  cases texts <;>
    simp only [leadSpecs, qspecPLines, List.flatMap_cons, QSpec.plines, if_true, Bool.false_eq_true, if_false, List.nil_append,
      List.cons_append, QLine.phys, List.append_assoc]

theorem indent_toList (ls : List String) :
    (ls.map Printer.indentLine).map String.toList = (ls.map String.toList).map ('\t' :: ·) := by
  simp [List.map_map, Function.comp_def, Printer.indentLine, String.toList_append]

theorem enumValueLines_toListC (values : List EnumValue) :
    ((values.flatMap Printer.enumValueLines).map Printer.indentLine).map String.toList = kidsPhys (values.map enumKidC) := by
  rw [indent_toList]
  induction values with
  | nil => rfl
  | cons v rest ih =>
    simp only [List.flatMap_cons, List.map_append, ih, List.map_cons, kidsPhys, Printer.enumValueLines, commentLines_toList,
      enumKidC, List.map_nil]

theorem memberLines_set (m0 : Member) (h0 : memberComment m0 = none) (c : Option Comment) :
    Printer.memberLines (setMemberComment m0 c) = Printer.commentLines c ++ Printer.memberLines m0 := by
  cases m0 with
  | field f =>
    simp only [memberComment] at h0
    simp only [setMemberComment, Printer.memberLines, h0, Printer.commentLines, List.nil_append, render_comment,
      List.append_assoc]
  | inlinePlaceholder t c' =>
    simp only [memberComment] at h0
    subst h0
    simp only [setMemberComment, Printer.memberLines, Printer.commentLines, List.nil_append]

theorem memberLines_C (m : Member) (h : WFMemberC m) :
    (Printer.memberLines m).map String.toList = docOf (memberComment m) ++ memberTextsA m := by
  cases h with
  | mk m0 c hm0 hc =>
    rw [memberLines_set m0 (wfMemberA_comment m0 hm0), List.map_append, commentLines_toList, memberLines_A m0 hm0,
      memberComment_set, memberTextsA_set]

theorem memberLines_toListC (fields : List Member) (h : ∀ m ∈ fields, WFMemberC m) :
    ((fields.flatMap Printer.memberLines).map Printer.indentLine).map String.toList = kidsPhys (fields.flatMap memberKidsC) := by
  rw [indent_toList]
  induction fields with
  | nil => rfl
  | cons m rest ih =>
    have hm := memberLines_C m (h m List.mem_cons_self)
    have hr := ih (fun x hx => h x (List.mem_cons_of_mem _ hx))
    simp only [List.flatMap_cons, List.map_append, hr, hm, kidsPhys_append]
    congr 1
    simp only [memberKidsC]
    cases htexts : memberTextsA m with
    | nil => exact absurd htexts (memberTextsA_ne_nil m)
    | cons t ts => rw [kidsPhys_attach, List.map_append]

theorem declLines_toListC (d : Decl) (h : WFDeclC d) :
    (Printer.declLines d).map String.toList = (qspecPLines (declSpecsC false d)).flatMap QLine.phys := by
  rw [declSpecsC, phys_leadSpecs_false]
  cases h with
  | alias a ha hc =>
    simp only [Printer.declLines, List.map_append, commentLines_toList, declComment, declAttrTexts, declHead, declKidsC,
      kidsPhys, List.map_cons, List.map_nil, List.append_nil, List.flatMap_nil]
  | «enum» name base values attrs c hn hb hv hattrs hc =>
    simp only [Printer.declLines, List.map_append, commentLines_toList, attributeLines_texts, enumValueLines_toListC,
      declComment, declAttrTexts, declHead, declKidsC, List.map_cons, List.map_nil, List.append_assoc, List.cons_append,
      List.nil_append]
  | struct dsp name fields attrs c hd hn hne hm hattrs hc =>
    simp only [Printer.declLines, List.map_append, commentLines_toList, attributeLines_texts, memberLines_toListC fields hm,
      declComment, declAttrTexts, declHead, declKidsC, List.map_cons, List.map_nil, List.append_assoc, List.cons_append,
      List.nil_append, structHeaderText]
    cases dsp <;> rfl

/-- the characters of the lines of one declaration -/
def declCharsC (d : Decl) : List Chars := (qspecPLines (declSpecsC false d)).flatMap QLine.phys

theorem specCharsC_true_cons (d : Decl) (r : List Decl) :
    (qspecPLines (docSpecsC true (d :: r))).flatMap QLine.phys = declCharsC d ++ (qspecPLines (docSpecsC false r)).flatMap QLine.phys := by
  simp only [docSpecsC, Bool.not_true, qspecPLines, List.flatMap_append, declCharsC]

theorem specCharsC_false_cons (d : Decl) (r : List Decl) :
    (qspecPLines (docSpecsC false (d :: r))).flatMap QLine.phys =
      [] :: (declCharsC d ++ (qspecPLines (docSpecsC false r)).flatMap QLine.phys) := by
  have := phys_leadSpecs_true (declAttrTexts d) (docOf (declComment d)) (declHead d) (declKidsC d)
  simp only [qspecPLines] at this
  simp only [docSpecsC, Bool.not_false, qspecPLines, List.flatMap_append, declCharsC, declSpecsC, this, List.cons_append]

theorem printDecls_toListC : ∀ (ds : List Decl), WFDeclsC ds →
    (Printer.printDecls ds).map String.toList = (qspecPLines (docSpecsC true ds)).flatMap QLine.phys ∧
    (ds ≠ [] → ("" :: Printer.printDecls ds).map String.toList = (qspecPLines (docSpecsC false ds)).flatMap QLine.phys) := by
  intro ds
  induction ds with
  | nil => intro _; exact ⟨rfl, fun h => absurd rfl h⟩
  | cons d rest ih =>
    intro h
    have hd : (Printer.declLines d).map String.toList = declCharsC d := declLines_toListC d (h d List.mem_cons_self)
    obtain ⟨_, hrest⟩ := ih (fun x hx => h x (List.mem_cons_of_mem _ hx))
    have hfirst : (Printer.printDecls (d :: rest)).map String.toList = (qspecPLines (docSpecsC true (d :: rest))).flatMap QLine.phys := by
      rw [specCharsC_true_cons]
      cases rest with
      | nil => simp [Printer.printDecls, hd, docSpecsC, qspecPLines]
      | cons d' rest' =>
        have hr := hrest (by simp)
        simp only [List.map_cons] at hr
        simp only [Printer.printDecls, List.map_append, List.map_cons, hd, hr]
    refine ⟨hfirst, fun _ => ?_⟩
    rw [specCharsC_false_cons, ← specCharsC_true_cons, ← hfirst]
    rfl

theorem print_toListC (ds : List Decl) (h : WFDeclsC ds) :
    (Printer.print ds).toList = unlinesC ((qspecPLines (docSpecsC true ds)).flatMap QLine.phys) := by
  rw [Printer.print, unlines_toList, (printDecls_toListC ds h).1]

/-! ### cleanliness -/

theorem commentLine_hash : CommentLine ['#'] := ⟨by decide, ⟨[], rfl⟩, by decide⟩

theorem commentLine_of_seg (seg : List Char) (h : Comment.NormalSeg seg) : CommentLine ('#' :: ' ' :: seg) := by
  obtain ⟨hne, hnl, _, hlast⟩ := h
  refine ⟨?_, ⟨_, rfl⟩, ?_⟩
  · intro hm
    simp only [List.mem_cons] at hm
    rcases hm with hm | hm | hm
    · exact absurd hm (by decide)
    · exact absurd hm (by decide)
    · exact hnl hm
  · cases seg with
    | nil => exact absurd rfl hne
    | cons a r =>
      intro hl
      have : (a :: r).getLast? = some '\r' := by simpa using hl
      exact absurd (hlast _ this) (by decide)

theorem commentLine_clines : ∀ (segs : List (List Char)), (∀ s ∈ segs, s = [] ∨ Comment.NormalSeg s) →
    ∀ l ∈ Comment.clines segs, CommentLine l := by
  intro segs
  induction segs with
  | nil => intro _ l hl; cases hl
  | cons seg rest ih =>
    intro h l hl
    have hseg := h seg List.mem_cons_self
    have hline : ∀ x, x ∈ (if seg.isEmpty then [] else [('#' :: ' ' :: seg)]) → CommentLine x := by
      intro x hx
      split at hx
      · cases hx
      · simp only [List.mem_singleton] at hx
        subst hx
        rcases hseg with rfl | hn
        · rename_i hne; exact absurd rfl hne
        · exact commentLine_of_seg seg hn
    cases rest with
    | nil => exact hline l (by simpa [Comment.clines] using hl)
    | cons s2 r2 =>
      simp only [Comment.clines, List.mem_append, List.mem_cons] at hl
      rcases hl with hl | rfl | hl
      · exact hline l hl
      · exact commentLine_hash
      · exact ih (fun x hx => h x (List.mem_cons_of_mem _ hx)) l hl

theorem commentLine_docOf (c : Option Comment) (hc : WFComment c) : ∀ l ∈ docOf c, CommentLine l := by
  cases c with
  | none => intro l hl; cases hl
  | some x => exact commentLine_clines _ (hc x rfl).1

theorem clean_attach (doc : List Chars) (texts : List Chars) (hdoc : ∀ l ∈ doc, CommentLine l) (ht : ∀ t ∈ texts, CleanText t) :
    ∀ k ∈ attach doc texts, CleanText k.2 ∧ ∀ l ∈ k.1, CommentLine l := by
  intro k hk
  cases texts with
  | nil => cases hk
  | cons t ts =>
    simp only [attach, List.mem_cons, List.mem_map] at hk
    rcases hk with rfl | ⟨x, hx, rfl⟩
    · exact ⟨ht t List.mem_cons_self, hdoc⟩
    · exact ⟨ht x (List.mem_cons_of_mem _ hx), by intro l hl; cases hl⟩

theorem clean_leadSpecs : ∀ (texts : List Chars) (blank : Bool) (doc : List Chars) (head : Chars)
    (kids : List (List Chars × Chars)), (∀ l ∈ doc, CommentLine l) → CleanText head →
    (∀ k ∈ kids, CleanText k.2 ∧ ∀ l ∈ k.1, CommentLine l) → (∀ t ∈ texts, CleanText t) →
    ∀ s ∈ leadSpecs blank doc head kids texts, s.Clean := by
  intro texts
  induction texts with
  | nil =>
    intro blank doc head kids hdoc hhead hkids _ s hs
    simp only [leadSpecs, List.mem_singleton] at hs
    subst hs
    exact ⟨hhead, hdoc, hkids⟩
  | cons t ts ih =>
    intro blank doc head kids hdoc hhead hkids htexts s hs
    simp only [leadSpecs, List.mem_cons] at hs
    rcases hs with rfl | hs
    · exact ⟨htexts t List.mem_cons_self, hdoc, by intro k hk; cases hk⟩
    · exact ih false [] head kids (by intro l hl; cases hl) hhead hkids (fun x hx => htexts x (List.mem_cons_of_mem _ hx)) s hs

theorem clean_memberKidsC (m : Member) (h : WFMemberC m) : ∀ k ∈ memberKidsC m, CleanText k.2 ∧ ∀ l ∈ k.1, CommentLine l := by
  cases h with
  | mk m0 c hm0 hc =>
    simp only [memberKidsC, memberComment_set, memberTextsA_set]
    exact clean_attach _ _ (commentLine_docOf c hc) (clean_memberTextsA m0 hm0)

theorem clean_declSpecsC (blank : Bool) (d : Decl) (h : WFDeclC d) : ∀ s ∈ declSpecsC blank d, s.Clean := by
  unfold declSpecsC
  cases h with
  | alias a ha hc =>
    apply clean_leadSpecs
    · exact commentLine_docOf _ hc
    · exact clean_head (.alias { a with comment := none }) (.alias _ ha rfl)
    · intro k hk; cases hk
    · intro t ht; cases ht
  | «enum» name base values attrs c hn hb hv hattrs hc =>
    apply clean_leadSpecs
    · exact commentLine_docOf _ hc
    · exact clean_head (.enum { name := name, base := base, values := [] })
        (.enum _ (.mk name base [] hn hb (by intro v hv'; cases hv')))
    · intro k hk
      simp only [declKidsC, List.mem_map] at hk
      obtain ⟨v, hv', rfl⟩ := hk
      cases hv v hv' with
      | mk v0 c0 hv0 hc0 => exact ⟨clean_enumValue v0 hv0, commentLine_docOf c0 hc0⟩
    · exact clean_attrTexts clean_enumAttr attrs hattrs
  | struct dsp name fields attrs c hd hn hne hm hattrs hc =>
    apply clean_leadSpecs
    · exact commentLine_docOf _ hc
    · exact clean_head_printable (.struct { disposition := dsp, name := name, fields := [] }) (.emptyStruct dsp name hd hn)
    · intro k hk
      simp only [declKidsC, List.mem_flatMap] at hk
      obtain ⟨m, hm', hk⟩ := hk
      exact clean_memberKidsC m (hm m hm') k hk
    · exact clean_attrTexts clean_structAttr attrs hattrs

theorem clean_docSpecsC : ∀ (ds : List Decl) (first : Bool), WFDeclsC ds → ∀ s ∈ docSpecsC first ds, s.Clean := by
  intro ds
  induction ds with
  | nil => intro _ _ s hs; cases hs
  | cons d rest ih =>
    intro first h s hs
    simp only [docSpecsC, List.mem_append] at hs
    rcases hs with hs | hs
    · exact clean_declSpecsC _ d (h d List.mem_cons_self) s hs
    · exact ih false (fun x hx => h x (List.mem_cons_of_mem _ hx)) s hs

theorem leadSpecs_head (blank : Bool) (doc : List Chars) (head : Chars) (kids : List (List Chars × Chars)) (texts : List Chars) :
    ∃ s0 tl, leadSpecs blank doc head kids texts = s0 :: tl ∧ s0.blankBefore = blank := by
  cases texts with
  | nil => exact ⟨_, [], rfl, rfl⟩
  | cons t ts => exact ⟨_, _, rfl, rfl⟩

/-- **The document-level round trip with attributes and documentation comments.** -/
theorem parse_printC (ds : List Decl) (h : WFDeclsC ds) (hne : ds ≠ []) : parse (Printer.print ds).toList = .ok ds := by
  rw [print_toListC ds h]
  obtain ⟨d, rest, rfl⟩ : ∃ d rest, ds = d :: rest := by
    cases ds with
    | nil => exact absurd rfl hne
    | cons d rest => exact ⟨d, rest, rfl⟩
  obtain ⟨s0, tl, hs0, h0⟩ := leadSpecs_head false (docOf (declComment d)) (declHead d) (declKidsC d) (declAttrTexts d)
  have hspecs : docSpecsC true (d :: rest) = s0 :: (tl ++ docSpecsC false rest) := by
    simp only [docSpecsC, Bool.not_true, declSpecsC, hs0, List.cons_append]
  have hclean := clean_docSpecsC (d :: rest) true h
  rw [hspecs] at hclean ⊢
  have hblocks := blocks_of_layoutQ s0 (tl ++ docSpecsC false rest) h0 hclean
  have htop := topLoop_docC (d :: rest) true 1 [] h
  rw [hspecs] at htop
  simp only [List.reverse_nil, List.nil_append] at htop
  simp only [parse, hblocks, htop, Except.map, declsOf_map_decl]

/-! ### with or without the empty line between declarations -/

/-- the layout of declarations (with comments), each with its own choice of an empty line before it -/
def docSpecsWithC (bds : List (Bool × Decl)) : List QSpec := bds.flatMap fun bd => declSpecsC bd.1 bd.2

theorem topLoop_docWithC : ∀ (bds : List (Bool × Decl)) (k : Nat) (acc : List Item), (∀ bd ∈ bds, WFDeclC bd.2) →
    topLoop ((qspecSegs k (docSpecsWithC bds)).map segBlock) {} acc = .ok (acc.reverse ++ bds.map fun bd => Item.decl bd.2) := by
  intro bds
  induction bds with
  | nil => intro _ acc _; simp [docSpecsWithC, qspecSegs, topLoop, flushComment]
  | cons bd rest ih =>
    intro k acc h
    obtain ⟨k', hsegs⟩ := qspecSegs_append (declSpecsC bd.1 bd.2) (docSpecsWithC rest) k
    have hunfold : docSpecsWithC (bd :: rest) = declSpecsC bd.1 bd.2 ++ docSpecsWithC rest := by simp [docSpecsWithC]
    simp only [hunfold, hsegs, List.map_append]
    rw [topLoop_declC bd.1 k bd.2 (h bd List.mem_cons_self), ih k' _ (fun x hx => h x (List.mem_cons_of_mem _ hx))]
    simp

/-- Blank lines between declarations are trivia, comments included: whether or not an empty line precedes each
    declaration (before its comment lines), the text parses to the same declarations. -/
theorem parse_layout_with_blanksC (d : Decl) (rest : List (Bool × Decl)) (hd : WFDeclC d) (hrest : ∀ bd ∈ rest, WFDeclC bd.2) :
    parse (unlinesC ((qspecPLines (docSpecsWithC ((false, d) :: rest))).flatMap QLine.phys)) = .ok (d :: rest.map (·.2)) := by
  have hall : ∀ bd ∈ (false, d) :: rest, WFDeclC bd.2 := by
    intro bd hbd
    simp only [List.mem_cons] at hbd
    rcases hbd with rfl | hbd
    · exact hd
    · exact hrest bd hbd
  obtain ⟨s0, tl, hs0, h0⟩ := leadSpecs_head false (docOf (declComment d)) (declHead d) (declKidsC d) (declAttrTexts d)
  have hspecs : docSpecsWithC ((false, d) :: rest) = s0 :: (tl ++ docSpecsWithC rest) := by
    simp only [docSpecsWithC, List.flatMap_cons, declSpecsC, hs0, List.cons_append]
  have hclean : ∀ s ∈ docSpecsWithC ((false, d) :: rest), s.Clean := by
    intro s hs
    simp only [docSpecsWithC, List.mem_flatMap] at hs
    obtain ⟨bd, hbd, hs⟩ := hs
    exact clean_declSpecsC bd.1 bd.2 (hall bd hbd) s hs
  have htop := topLoop_docWithC ((false, d) :: rest) 1 [] hall
  rw [hspecs] at hclean htop ⊢
  have hblocks := blocks_of_layoutQ s0 (tl ++ docSpecsWithC rest) h0 hclean
  simp only [List.reverse_nil, List.nil_append, List.map_cons] at htop
  have hdecls : declsOf (Item.decl d :: rest.map fun bd => Item.decl bd.2) = d :: rest.map (·.2) := by
    have := declsOf_map_decl (d :: rest.map (·.2))
    simpa [List.map_map, Function.comp_def] using this
  simp only [parse, hblocks, htop, Except.map, hdecls]

end SymbolVerif.Cats.Parser

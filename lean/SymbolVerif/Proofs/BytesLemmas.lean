/- Helper lemmas about little-endian integers (core Lean only). -/
import SymbolVerif.Model.Bytes
namespace SymbolVerif.Bytes

@[simp] theorem leBytes_length (w n : Nat) : (leBytes w n).length = w := by
  induction w generalizing n with
  | zero => rfl
  | succ w ih => simp [leBytes, ih]

theorem leNat_lt (bs : Bytes) : leNat bs < 256 ^ bs.length := by
  induction bs with
  | nil => simp [leNat]
  | cons b bs ih =>
    have hb : b.toNat < 256 := b.toNat_lt
    simp only [leNat, List.length_cons, Nat.pow_succ]
    omega

theorem leNat_leBytes (w n : Nat) : leNat (leBytes w n) = n % 256 ^ w := by
  induction w generalizing n with
  | zero => simp [leBytes, leNat, Nat.mod_one]
  | succ w ih =>
    simp only [leBytes, leNat, ih, Nat.pow_succ]
    have h1 : (UInt8.ofNat (n % 256)).toNat = n % 256 := by
      simp
    rw [h1]
    have : n % (256 ^ w * 256) = n % 256 + 256 * (n / 256 % 256 ^ w) := by
      rw [Nat.mul_comm, Nat.mod_mul]
    omega

theorem leNat_leBytes_of_lt {w n : Nat} (h : n < 256 ^ w) : leNat (leBytes w n) = n := by
  rw [leNat_leBytes, Nat.mod_eq_of_lt h]

theorem leNat_append (a b : Bytes) : leNat (a ++ b) = leNat a + 256 ^ a.length * leNat b := by
  induction a with
  | nil => simp [leNat]
  | cons x xs ih =>
    simp only [List.cons_append, leNat, ih, List.length_cons, Nat.pow_succ]
    rw [Nat.mul_add, ← Nat.mul_assoc, Nat.mul_comm 256 (256 ^ xs.length)]
    omega

theorem leNat_zeros (n : Nat) : leNat (zeros n) = 0 := by
  induction n with
  | zero => rfl
  | succ n ih => simp [zeros, List.replicate_succ, leNat] at *; omega

/-- lenient read after a write: `decU w (leBytes w n ++ tail) = n`. -/
theorem decU_leBytes_append {w n : Nat} (h : n < 256 ^ w) (tail : Bytes) :
    decU w (leBytes w n ++ tail) = n := by
  unfold decU
  rw [List.take_append_of_le_length (by simp), List.take_of_length_le (by simp)]
  exact leNat_leBytes_of_lt h

theorem encU_some {w n : Nat} {bs : Bytes} (h : encU w n = some bs) : n < 256 ^ w ∧ bs = leBytes w n := by
  unfold encU at h
  split at h
  · exact ⟨‹_›, by cases h; rfl⟩
  · cases h

theorem encU_isSome_iff (w n : Nat) : (encU w n).isSome ↔ n < 256 ^ w := by
  unfold encU; split <;> simp [*]

end SymbolVerif.Bytes

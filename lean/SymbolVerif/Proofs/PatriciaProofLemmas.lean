/- Helper lemmas for C09 (Patricia part): the verifier's loop on proofs cut from a tree. Core Lean only. -/
import SymbolVerif.Proofs.PatriciaLemmas
namespace SymbolVerif.Sdk.Patricia
open SymbolVerif SymbolVerif.Bytes

/-! ### `list.index` -/

theorem idxOf_of_first {α} [BEq α] [LawfulBEq α] (l : List α) (a : α) :
    ∀ n, l[n]? = some a → (∀ j, j < n → l[j]? ≠ some a) → l.idxOf a = n := by
  induction l with
  | nil => intro n h; simp at h
  | cons x xs ih =>
    intro n h hfirst
    cases n with
    | zero =>
      have : x = a := by simpa using h
      subst this
      exact List.idxOf_cons_self
    | succ n =>
      have hx : x ≠ a := by
        intro hxa
        exact hfirst 0 (Nat.succ_pos n) (by simp [hxa])
      have hb : (x == a) = false := by simp [hx]
      rw [List.idxOf_cons, hb]
      simp only [cond_false]
      congr 1
      apply ih n (by simpa using h)
      intro j hj
      have := hfirst (j + 1) (by omega)
      simpa using this

theorem hexDigitsOf_lt (n : Nat) (h : n < 16) : hexDigitsOf n = [n] := by
  rw [hexDigitsOf]; simp [h]

/-! ### node hashes of tree nodes -/

theorem stepKey_some {p key : List Nat} {n : Nat} {rest : List Nat} (h : stepKey p key = some (n, rest)) :
    key = p ++ n :: rest := by
  unfold stepKey at h
  split at h
  · rename_i hp
    have hpre : p <+: key := List.isPrefixOf_iff_prefix.1 hp
    obtain ⟨t, rfl⟩ := hpre
    simp only [List.drop_left] at h
    cases t with
    | nil => simp at h
    | cons a t => simp only [Option.some.injEq, Prod.mk.injEq] at h; rw [h.1, h.2]
  · cases h

theorem link_getD (H : Bytes → Bytes) (t : PTree) : (t.link H).getD Merkle.zeroHash = t.hash H := by
  cases t <;> simp [PTree.link, PTree.isEmpty, PTree.hash]

theorem nodeHash_leaf (H : Bytes → Bytes) (p : List Nat) (v : Bytes) (hp : ∀ n ∈ p, n < 16) :
    nodeHash H (.leaf (toPath p) v) = some ((PTree.leaf p v).hash H) := by
  simp [nodeHash, encodePath_toPath p hp, PTree.hash]

theorem nodeHash_branch (H : Bytes → Bytes) (p : List Nat) (ch : Fin 16 → PTree) (hp : ∀ n ∈ p, n < 16) :
    nodeHash H (branchNode H p ch) = some ((PTree.branch p ch).hash H) := by
  have : ((fun l : Option Bytes => l.getD Merkle.zeroHash) ∘ fun i => PTree.link H (ch i)) = fun i => PTree.hash H (ch i) := by
    funext i; exact link_getD H (ch i)
  simp only [nodeHash, branchNode, encodePath_toPath p hp, PTree.hash, Option.map_some, List.map_ofFn, this]

/-- the node a tree contributes to a proof -/
def PTree.node (H : Bytes → Bytes) : PTree → Option Node
  | .empty => none
  | .leaf p v => some (.leaf (toPath p) v)
  | .branch p ch => some (branchNode H p ch)

theorem proof_head (H : Bytes → Bytes) (t : PTree) (key : List Nat) : (t.proof H key).head? = t.node H := by
  cases t <;> simp [PTree.proof, PTree.node]

theorem node_hash (H : Bytes → Bytes) (t : PTree) (hwf : t.WF) (node : Node) (h : t.node H = some node) :
    nodeHash H node = some (t.hash H) := by
  cases t with
  | empty => simp [PTree.node] at h
  | leaf p v => simp only [PTree.node, Option.some.injEq] at h; subst h; exact nodeHash_leaf H p v hwf
  | branch p ch => simp only [PTree.node, Option.some.injEq] at h; subst h; exact nodeHash_branch H p ch hwf.1

theorem proof_nil_iff (H : Bytes → Bytes) (t : PTree) (key : List Nat) : t.proof H key = [] ↔ t.isEmpty = true := by
  cases t <;> simp [PTree.proof, PTree.isEmpty]

theorem links_get (H : Bytes → Bytes) (ch : Fin 16 → PTree) (j : Nat) :
    (List.ofFn fun i => (ch i).link H)[j]? = if h : j < 16 then some ((ch ⟨j, h⟩).link H) else none := by
  simp only [List.getElem?_ofFn]

/-! ### the loop on a proof cut from a tree -/

/-- under `IndexOK`, the loop runs through the honest proof without `UNLINKED_NODE`, ends with the tree's hash and
    has assembled `trace`: each branch's own path, then the nibble of the link taken -/
theorem walk_proof (H : Bytes → Bytes) (t : PTree) :
    ∀ key, t.WF → t.isEmpty = false → t.IndexOK H key →
      walk H (t.proof H key) = .ok (t.hash H) (t.trace key) := by
  induction t with
  | empty => intro key _ h; simp [PTree.isEmpty] at h
  | leaf p v =>
    intro key hwf _ _
    simp only [PTree.proof, walk, nodeHash_leaf H p v hwf, Node.path, hexPath_toPath p hwf, PTree.trace]
  | branch p ch ih =>
    intro key hwf _ hidx
    have hp := hwf.1
    have hsingle : walk H [branchNode H p ch] = .ok ((PTree.branch p ch).hash H) p := by
      simp only [walk, nodeHash_branch H p ch hp]
      simp [branchNode, Node.path, hexPath_toPath p hp]
    simp only [PTree.proof, PTree.trace, PTree.IndexOK] at hidx ⊢
    cases hs : stepKey p key with
    | none => simpa [hs] using hsingle
    | some x =>
      obtain ⟨n, rest⟩ := x
      simp only [hs] at hidx ⊢
      by_cases hn : n < 16
      · simp only [hn, dif_pos] at hidx ⊢
        cases he : (ch ⟨n, hn⟩).isEmpty with
        | true =>
          have : (ch ⟨n, hn⟩).proof H rest = [] := (proof_nil_iff H _ rest).2 he
          rw [this]
          simpa using hsingle
        | false =>
          obtain ⟨hfirst, hsub⟩ := hidx he
          have hw := ih ⟨n, hn⟩ rest (hwf.2 ⟨n, hn⟩) he hsub
          simp only [Bool.false_eq_true, if_false]
          rw [walk, hw]
          simp only [nodeHash_branch H p ch hp]
          have hlink : (ch ⟨n, hn⟩).link H = some ((ch ⟨n, hn⟩).hash H) := by simp [PTree.link, he]
          have hget : (List.ofFn fun i => (ch i).link H)[n]? = some (some ((ch ⟨n, hn⟩).hash H)) := by
            rw [links_get]; simp [hn, hlink]
          have hmem : (List.ofFn fun i => (ch i).link H).contains (some ((ch ⟨n, hn⟩).hash H)) = true := by
            rw [List.contains_iff_mem]
            exact List.mem_of_getElem? hget
          have hidx' : (List.ofFn fun i => (ch i).link H).idxOf (some ((ch ⟨n, hn⟩).hash H)) = n := by
            apply idxOf_of_first _ _ n hget
            intro j hj hc
            rw [links_get] at hc
            have hj16 : j < 16 := by omega
            simp only [hj16, dif_pos, Option.some.injEq] at hc
            exact hfirst ⟨j, hj16⟩ hj hc
          simp only [branchNode, hmem, if_true, hidx', hexDigitsOf_lt n hn, hexPath_toPath p hp]
          simp
      · simp only [hn, dif_neg, not_false_eq_true]
        simpa using hsingle

/-! ### where the honest proof ends -/

theorem getLast?_cons_of_ne_nil {α} (a : α) (l : List α) (h : l ≠ []) : (a :: l).getLast? = l.getLast? := by
  cases l with
  | nil => exact absurd rfl h
  | cons b l => simp [List.getLast?_cons_cons]

/-- a successful lookup: the proof ends in the leaf holding the value, and the visited nodes spell the key -/
theorem lookup_some (H : Bytes → Bytes) (t : PTree) :
    ∀ key v, t.lookup key = some v →
      (∃ p, (t.proof H key).getLast? = some (.leaf (toPath p) v)) ∧ t.trace key = key := by
  induction t with
  | empty => intro key v h; simp [PTree.lookup] at h
  | leaf p v' =>
    intro key v h
    simp only [PTree.lookup] at h
    split at h
    · rename_i hp
      cases h
      exact ⟨⟨p, by simp [PTree.proof]⟩, by simp [PTree.trace, hp]⟩
    · cases h
  | branch p ch ih =>
    intro key v h
    simp only [PTree.lookup] at h
    cases hs : stepKey p key with
    | none => simp [hs] at h
    | some x =>
      obtain ⟨n, rest⟩ := x
      simp only [hs] at h
      by_cases hn : n < 16
      · simp only [hn, dif_pos] at h
        obtain ⟨⟨q, hlast⟩, htr⟩ := ih ⟨n, hn⟩ rest v h
        have hne : (ch ⟨n, hn⟩).proof H rest ≠ [] := by
          intro hc; rw [hc] at hlast; simp at hlast
        have hnotempty : (ch ⟨n, hn⟩).isEmpty = false := by
          cases he : (ch ⟨n, hn⟩).isEmpty with
          | false => rfl
          | true => exact absurd ((proof_nil_iff H _ rest).2 he) hne
        refine ⟨⟨q, ?_⟩, ?_⟩
        · simp only [PTree.proof, hs, hn, dif_pos]
          rw [getLast?_cons_of_ne_nil _ _ hne, hlast]
        · simp only [PTree.trace, hs, hn, dif_pos, hnotempty, Bool.false_eq_true, if_false, htr]
          exact (stepKey_some hs).symm
      · simp [hn] at h

/-- a dead end: the proof ends in a branch whose path is matched and whose slot for the next key nibble is empty -/
theorem deadEnd_spec (H : Bytes → Bytes) (t : PTree) :
    ∀ key, t.deadEnd key = true →
      ∃ p ch n rest, (t.proof H key).getLast? = some (branchNode H p ch) ∧ key = t.trace key ++ n :: rest ∧
        ∃ hn : n < 16, (ch ⟨n, hn⟩).isEmpty = true := by
  induction t with
  | empty => intro key h; simp [PTree.deadEnd] at h
  | leaf p v => intro key h; simp [PTree.deadEnd] at h
  | branch p ch ih =>
    intro key h
    simp only [PTree.deadEnd] at h
    cases hs : stepKey p key with
    | none => simp [hs] at h
    | some x =>
      obtain ⟨n, rest⟩ := x
      simp only [hs] at h
      by_cases hn : n < 16
      · simp only [hn, dif_pos, Bool.or_eq_true] at h
        cases he : (ch ⟨n, hn⟩).isEmpty with
        | true =>
          refine ⟨p, ch, n, rest, ?_, ?_, hn, he⟩
          · simp [PTree.proof, hs, hn, (proof_nil_iff H _ rest).2 he]
          · simp only [PTree.trace, hs, hn, dif_pos, he, if_true, List.append_nil]
            exact stepKey_some hs
        | false =>
          have hd : (ch ⟨n, hn⟩).deadEnd rest = true := by
            rcases h with h | h
            · rw [he] at h; cases h
            · exact h
          obtain ⟨p', ch', n', rest', hlast, hkey, hn', he'⟩ := ih ⟨n, hn⟩ rest hd
          have hne : (ch ⟨n, hn⟩).proof H rest ≠ [] := by
            intro hc; rw [hc] at hlast; simp at hlast
          refine ⟨p', ch', n', rest', ?_, ?_, hn', he'⟩
          · simp only [PTree.proof, hs, hn, dif_pos]
            rw [getLast?_cons_of_ne_nil _ _ hne, hlast]
          · simp only [PTree.trace, hs, hn, dif_pos, he, Bool.false_eq_true, if_false]
            rw [stepKey_some hs]
            simp only [List.append_assoc, List.cons_append]
            congr 2
      · simp [hn] at h

/-! ### unfolding `prove_patricia_merkle` -/

theorem provePatricia_stateHash (H : Bytes → Bytes) (key value : Bytes) (path : List Node) (stateHash : Bytes)
    (roots : List Bytes) (h : stateHash ≠ H roots.flatten) :
    provePatricia H key value path stateHash roots = some .stateHashDoesNotMatchRoots := by
  unfold provePatricia checkStateHash
  simp [h]

/-- past the first two checks -/
theorem provePatricia_anchored (H : Bytes → Bytes) (key value : Bytes) (path : List Node) (roots : List Bytes)
    (first last : Node) (h0 : Bytes) (hf : path.head? = some first) (hl : path.getLast? = some last)
    (hh : nodeHash H first = some h0) (hr : h0 ∈ roots) :
    provePatricia H key value path (H roots.flatten) roots =
      match last with
      | .leaf _ leafValue =>
        if value != leafValue then some .leafValueMismatch else
        match walk H path with
        | .ok _ actual => some (if actual != nibbles key then .pathMismatch else .validPositive)
        | .unlinked => some .unlinkedNode
        | _ => none
      | .branch _ links =>
        match walk H path with
        | .ok _ actual =>
          if !(actual.isPrefixOf (nibbles key)) then some .pathMismatch else
          match (nibbles key)[actual.length]? with
          | none => none
          | some nextNibble =>
            match links[nextNibble]? with
            | none => none
            | some none => some .validNegative
            | some (some _) => some .inconclusive
        | .unlinked => some .unlinkedNode
        | _ => none := by
  unfold provePatricia checkStateHash
  have : roots.contains h0 = true := by rw [List.contains_iff_mem]; exact hr
  simp only [beq_self_eq_true, Bool.not_true, Bool.false_eq_true, if_false, hf, hl, hh, this]
  cases last <;> rfl

/-! ### generic facts about the loop -/

theorem walk_start_iff (H : Bytes → Bytes) (l : List Node) : walk H l = .start ↔ l = [] := by
  cases l with
  | nil => simp [walk]
  | cons n rest =>
    simp only [walk, reduceCtorEq, iff_false]
    split
    · simp
    · simp
    · split <;> simp
    · split
      · simp
      · split
        · simp
        · split <;> simp

/-- `UNLINKED_NODE` found low in the path is what the whole path returns -/
theorem walk_unlinked_prefix (H : Bytes → Bytes) (pre l : List Node) (h : walk H l = .unlinked) :
    walk H (pre ++ l) = .unlinked := by
  induction pre with
  | nil => simpa using h
  | cons n pre ih => simp [walk, ih]

/-- a branch that does not link the hash of the node below it -/
theorem walk_unlinked_at (H : Bytes → Bytes) (p : Path) (links : List (Option Bytes)) (post : List Node)
    (child : Bytes) (apost : List Nat) (h : Bytes) (hpost : walk H post = .ok child apost)
    (hh : nodeHash H (.branch p links) = some h) (hnot : some child ∉ links) :
    walk H (.branch p links :: post) = .unlinked := by
  simp [walk, hpost, hh, hnot]

/-- what the loop has assembled for a path and for a proper prefix of it: the prefix's string, the nibble of the link
    from the prefix's last node (a branch) to the next node, then the remainder's string -/
theorem walk_prefix (H : Bytes → Bytes) (post : List Node) (hpost : post ≠ []) :
    ∀ (pre : List Node) (h : Bytes) (a : List Nat), pre ≠ [] → walk H (pre ++ post) = .ok h a →
      ∃ a0 p links child apost,
        pre.getLast? = some (.branch p links) ∧ walk H post = .ok child apost ∧ some child ∈ links ∧
        walk H pre = .ok h a0 ∧
        a = a0 ++ (hexDigitsOf (links.idxOf (some child)) ++ apost) := by
  intro pre
  induction pre with
  | nil => intro h a hne; exact absurd rfl hne
  | cons n pre ih =>
    intro h a _ hw
    by_cases hpre : pre = []
    · subst hpre
      simp only [List.nil_append, List.cons_append, walk] at hw
      cases hwp : walk H post with
      | start => exact absurd ((walk_start_iff H post).1 hwp) hpost
      | unlinked => simp [hwp] at hw
      | error => simp [hwp] at hw
      | ok child apost =>
        simp only [hwp] at hw
        cases hn : nodeHash H n with
        | none => simp [hn] at hw
        | some hh =>
          simp only [hn] at hw
          cases n with
          | leaf p v => simp at hw
          | branch p links =>
            simp only at hw
            split at hw
            · rename_i hc
              simp only [Walk.ok.injEq] at hw
              refine ⟨hexPath p, p, links, child, apost, by simp, rfl, List.contains_iff_mem.1 hc, ?_, ?_⟩
              · simp [walk, hn, Node.path, hw.1]
              · simp [← hw.2]
            · cases hw
    · simp only [List.cons_append, walk] at hw
      cases hwp : walk H (pre ++ post) with
      | start =>
        have := (walk_start_iff H (pre ++ post)).1 hwp
        simp [hpre] at this
      | unlinked => simp [hwp] at hw
      | error => simp [hwp] at hw
      | ok c a1 =>
        obtain ⟨a0, p, links, child, apost, hlast, hwpost, hmem, hwpre, ha1⟩ := ih c a1 hpre hwp
        simp only [hwp] at hw
        cases hn : nodeHash H n with
        | none => simp [hn] at hw
        | some hh =>
          simp only [hn] at hw
          cases n with
          | leaf q v => simp at hw
          | branch q links' =>
            simp only at hw
            split at hw
            · rename_i hc
              simp only [Walk.ok.injEq] at hw
              refine ⟨hexPath q ++ (hexDigitsOf (links'.idxOf (some c)) ++ a0), p, links, child, apost, ?_, hwpost, hmem, ?_, ?_⟩
              · rw [getLast?_cons_of_ne_nil _ _ hpre]; exact hlast
              · simp [walk, hwpre, hn, List.contains_iff_mem.1 hc, hw.1]
              · rw [← hw.2, ha1]; simp
            · cases hw

theorem idxOf_getElem? {α} [BEq α] [LawfulBEq α] (l : List α) (a : α) (h : a ∈ l) : l[l.idxOf a]? = some a := by
  have hlt := List.idxOf_lt_length_of_mem h
  rw [List.getElem?_eq_getElem hlt]
  simp

/-- every node of the honest proof that is followed by another node is a branch node of the tree (16 link slots) -/
theorem proof_nonlast_branch (H : Bytes → Bytes) (t : PTree) :
    ∀ key i, i + 1 < (t.proof H key).length → ∃ p ch, (t.proof H key)[i]? = some (branchNode H p ch) := by
  induction t with
  | empty => intro key i h; simp [PTree.proof] at h
  | leaf p v => intro key i h; simp [PTree.proof] at h
  | branch p ch ih =>
    intro key i hlen
    simp only [PTree.proof] at hlen ⊢
    cases i with
    | zero => exact ⟨p, ch, by simp⟩
    | succ j =>
      cases hs : stepKey p key with
      | none => simp [hs] at hlen
      | some x =>
        obtain ⟨n, rest⟩ := x
        simp only [hs] at hlen ⊢
        by_cases hn : n < 16
        · simp only [hn, dif_pos, List.length_cons] at hlen ⊢
          obtain ⟨p', ch', hch'⟩ := ih ⟨n, hn⟩ rest j (by omega)
          exact ⟨p', ch', by simpa using hch'⟩
        · simp [hn] at hlen

/-- a concatenation of equal-length, non-empty chunks determines the chunks: their number, order and multiplicity -/
theorem flatten_inj_of_length (n : Nat) (hn : 0 < n) :
    ∀ (rs rs' : List Bytes), (∀ r ∈ rs, r.length = n) → (∀ r ∈ rs', r.length = n) → rs.flatten = rs'.flatten → rs = rs' := by
  intro rs
  induction rs with
  | nil =>
    intro rs' _ h' he
    cases rs' with
    | nil => rfl
    | cons r t =>
      have := congrArg List.length he
      have hr := h' r (by simp)
      simp only [List.flatten_cons, List.flatten_nil, List.length_append, List.length_nil] at this
      omega
  | cons a t ih =>
    intro rs' h h' he
    cases rs' with
    | nil =>
      have := congrArg List.length he
      have ha := h a (by simp)
      simp only [List.flatten_cons, List.flatten_nil, List.length_append, List.length_nil] at this
      omega
    | cons b t' =>
      simp only [List.flatten_cons] at he
      obtain ⟨hab, htt⟩ := List.append_inj he (by rw [h a (by simp), h' b (by simp)])
      rw [hab, ih t' (fun r hr => h r (by simp [hr])) (fun r hr => h' r (by simp [hr])) htt]

end SymbolVerif.Sdk.Patricia

/-
More line-local rejection lemmas for the corruption operators of C11 (the per-site gaps of the first round): enum and
struct header lines, `abstract` / `inline` followed by something that is not `struct`, later entries of `@comparer`,
`make_const` lines, missing `=` / operand on member, constant and enum value lines, bad widths inside `array(…)`,
`sizeof(…)`, `make_reserved(…)`, `make_const(…)`, `binary_fixed` without its brackets, further attribute arities.
-/
import SymbolVerif.Proofs.CatsRejectLines
import SymbolVerif.Proofs.CatsAttrLines
namespace SymbolVerif.Cats.Parser
open SymbolVerif.Cats SymbolVerif.Cats.Lexer
set_option linter.unusedSimpArgs false

/-! ### `enum` header lines -/

/-- `enum ` followed by `r` -/
def enumLine (r : Chars) : Chars := 'e' :: 'n' :: 'u' :: 'm' :: ' ' :: r

theorem propertyName_enum (r : Chars) : propertyName (enumLine r) = some ("enum", ' ' :: r) := by
  simp [enumLine, propertyName, skipWs, isWs, isLower, isDigit, List.takeWhile, List.dropWhile]

/-- A line that starts with `enum ` is accepted only through the enum header rule. -/
theorem enum_line_rejected (r : Chars) (h1 : enumHeaderRest (' ' :: r) = none) (h2 : lit "=" (' ' :: r) = none) :
    LineRejected (enumLine r) := by
  have he : isWs 'e' = false := by decide
  have hen : lit "enum" (enumLine r) = some (' ' :: r) := lit_enum _
  refine ⟨fun m => ?_, ?_, fun afterAttrs => ?_⟩
  · cases m
    · have e1 : structModifier (enumLine r) = none := structModifier_none_of_head _ _ he (by decide) (by decide)
      have e2 : lit "import" (enumLine r) = none := lit_none_of_head "import" 'i' _ rfl _ _ he (by decide)
      have e3 : lit "struct" (enumLine r) = none := lit_none_of_head "struct" 's' _ rfl _ _ he (by decide)
      have e4 : lit "using" (enumLine r) = none := lit_none_of_head "using" 'u' _ rfl _ _ he (by decide)
      simp only [parseTopLine, e1, e2, e3, e4, hen, h1]
    · simp only [parseTopLine, hen, h1]
    · have e1 : structModifier (enumLine r) = none := structModifier_none_of_head _ _ he (by decide) (by decide)
      have e2 : lit "struct" (enumLine r) = none := lit_none_of_head "struct" 's' _ rfl _ _ he (by decide)
      have e3 : lit "@" (enumLine r) = none := lit_none_of_head "@" '@' _ rfl _ _ he (by decide)
      simp only [parseTopLine, e1, e2, e3, bind, Option.bind]
  · have e1 : constName (enumLine r) = none := constName_none_of_head _ _ he (by decide)
    simp only [parseEnumLine, e1, bind, Option.bind]
  · have e1 : constName (enumLine r) = none := constName_none_of_head _ _ he (by decide)
    have e2 := propertyName_enum r
    have hne : ("enum" = "inline") = False := by decide
    cases afterAttrs <;>
      simp only [parseStructLine, plainMemberRest, e1, e2, h2, hne, bind, Option.bind, Bool.false_eq_true, ↓reduceIte]

/-- operators `one-char-name` / `wrong-case` on an enum name: `enum F : …`, `enum FOo : …` -/
theorem enum_name_rejected (a b : Char) (ha : isUpper a = true) (hb : isLower b = false) (tail : Chars) :
    LineRejected (enumLine (a :: b :: tail)) := by
  apply enum_line_rejected
  · have : userTypeName (' ' :: a :: b :: tail) = none := by
      rw [userTypeName_skip_blank]; exact userTypeName_none_of_second a b tail (not_ws_of_upper ha) hb
    simp only [enumHeaderRest, this, bind, Option.bind]
  · exact lit_eq_none_of_upper a _ ha

theorem follows_blank_type' (t : Chars) (c : Char) (h : (' ' :: t).head? = some c) : isTypeChar c = false := by
  simp at h; subst h; decide

/-- a well-formed enum name followed by `: ` and a text that is not an integer type: operators `bad-width`
    (`enum Name : uint24`) and `missing-operand` (`enum Name : `) -/
theorem enum_base_rejected (name : Chars) (hn : IsUserTypeName name) (ty : Chars) (h : fixedSizeInteger (' ' :: ty) = none) :
    LineRejected (enumLine (name ++ ' ' :: ':' :: ' ' :: ty)) := by
  have hscan := userTypeName_with_blank name (' ' :: ':' :: ' ' :: ty) hn (follows_blank_type' _)
  obtain ⟨a, b, rest, rfl, ha, hb, hrest⟩ := hn
  apply enum_line_rejected
  · simp only [enumHeaderRest, hscan, bind, Option.bind, lit_skip_blank, lit_colon, h]
  · exact lit_eq_none_of_upper a _ ha

theorem fixedSizeInteger_uint24 (rest : Chars) : fixedSizeInteger ('u' :: 'i' :: 'n' :: 't' :: '2' :: '4' :: rest) = none := by
  simp [fixedSizeInteger, skipWs, isWs, litHere, List.isPrefixOf]

theorem fixedSizeInteger_int24 (rest : Chars) : fixedSizeInteger ('i' :: 'n' :: 't' :: '2' :: '4' :: rest) = none := by
  simp [fixedSizeInteger, skipWs, isWs, litHere, List.isPrefixOf]

/-- operator `bad-width` on the base type of an enum -/
theorem bad_width_enum_base (name : Chars) (hn : IsUserTypeName name) (rest : Chars) :
    LineRejected (enumLine (name ++ ' ' :: ':' :: ' ' :: 'u' :: 'i' :: 'n' :: 't' :: '2' :: '4' :: rest)) ∧
    LineRejected (enumLine (name ++ ' ' :: ':' :: ' ' :: 'i' :: 'n' :: 't' :: '2' :: '4' :: rest)) :=
  ⟨enum_base_rejected name hn _ (by rw [fixedSizeInteger_skip_blank]; exact fixedSizeInteger_uint24 rest),
   enum_base_rejected name hn _ (by rw [fixedSizeInteger_skip_blank]; exact fixedSizeInteger_int24 rest)⟩

/-- operator `missing-operand` on an enum header: `enum Name : ` -/
theorem missing_operand_enum_base (name : Chars) (hn : IsUserTypeName name) :
    LineRejected (enumLine (name ++ ' ' :: ':' :: ' ' :: [])) :=
  enum_base_rejected name hn [] (by decide)

/-! ### `struct` header lines and struct modifiers -/

def structLine (r : Chars) : Chars := 's' :: 't' :: 'r' :: 'u' :: 'c' :: 't' :: ' ' :: r

theorem propertyName_struct (r : Chars) : propertyName (structLine r) = some ("struct", ' ' :: r) := by
  simp [structLine, propertyName, skipWs, isWs, isLower, isDigit, List.takeWhile, List.dropWhile]

/-- A line that starts with `struct ` is accepted only through the struct header rule. -/
theorem struct_line_rejected (r : Chars) (h1 : userTypeName (' ' :: r) = none) (h2 : lit "=" (' ' :: r) = none) :
    LineRejected (structLine r) := by
  have hs : isWs 's' = false := by decide
  have hst : lit "struct" (structLine r) = some (' ' :: r) := lit_struct _
  have hrest : ∀ d, structHeaderRest d (structLine r) = none := by
    intro d; simp only [structHeaderRest, hst, h1, bind, Option.bind]
  have e1 : structModifier (structLine r) = none := structModifier_none_of_head _ _ hs (by decide) (by decide)
  refine ⟨fun m => ?_, ?_, fun afterAttrs => ?_⟩
  · cases m
    · have e2 : lit "import" (structLine r) = none := lit_none_of_head "import" 'i' _ rfl _ _ hs (by decide)
      simp only [parseTopLine, e1, e2, hst, hrest]
    · have e2 : lit "enum" (structLine r) = none := lit_none_of_head "enum" 'e' _ rfl _ _ hs (by decide)
      have e3 : lit "@" (structLine r) = none := lit_none_of_head "@" '@' _ rfl _ _ hs (by decide)
      simp only [parseTopLine, e2, e3, bind, Option.bind]
    · simp only [parseTopLine, e1, hst, hrest]
  · have c1 : constName (structLine r) = none := constName_none_of_head _ _ hs (by decide)
    simp only [parseEnumLine, c1, bind, Option.bind]
  · have c1 : constName (structLine r) = none := constName_none_of_head _ _ hs (by decide)
    have c2 := propertyName_struct r
    have hne : ("struct" = "inline") = False := by decide
    cases afterAttrs <;>
      simp only [parseStructLine, plainMemberRest, c1, c2, h2, hne, bind, Option.bind, Bool.false_eq_true, ↓reduceIte]

/-- operators `one-char-name` / `wrong-case` on a struct name: `struct F`, `struct FOo` -/
theorem struct_name_rejected (a b : Char) (ha : isUpper a = true) (hb : isLower b = false) (tail : Chars) :
    LineRejected (structLine (a :: b :: tail)) := by
  apply struct_line_rejected
  · rw [userTypeName_skip_blank]; exact userTypeName_none_of_second a b tail (not_ws_of_upper ha) hb
  · exact lit_eq_none_of_upper a _ ha

/-- operator `unknown-keyword` on the `struct` that follows a modifier: `abstract xstruct Foo`, `inline xstruct Foo` -/
theorem unknown_struct_after_modifier (rest : Chars) :
    LineRejected ('a' :: 'b' :: 's' :: 't' :: 'r' :: 'a' :: 'c' :: 't' :: ' ' :: 'x' :: rest) ∧
    LineRejected ('i' :: 'n' :: 'l' :: 'i' :: 'n' :: 'e' :: ' ' :: 'x' :: rest) := by
  have hx : isWs 'x' = false := by decide
  have hstruct : lit "struct" (' ' :: 'x' :: rest) = none := by
    rw [lit_skip_blank]; exact lit_none_of_head "struct" 's' _ rfl 'x' rest hx (by decide)
  have heq : lit "=" (' ' :: 'x' :: rest) = none := lit_eq_none_of_head 'x' rest hx (by decide)
  have hrest : ∀ d, structHeaderRest d (' ' :: 'x' :: rest) = none := by
    intro d; simp only [structHeaderRest, hstruct, bind, Option.bind]
  constructor
  · have ha : isWs 'a' = false := by decide
    have m1 : structModifier ('a' :: 'b' :: 's' :: 't' :: 'r' :: 'a' :: 'c' :: 't' :: ' ' :: 'x' :: rest) =
        some ("abstract", ' ' :: 'x' :: rest) := by simp [structModifier, skipWs, isWs, litHere, List.isPrefixOf]
    have p1 : propertyName ('a' :: 'b' :: 's' :: 't' :: 'r' :: 'a' :: 'c' :: 't' :: ' ' :: 'x' :: rest) =
        some ("abstract", ' ' :: 'x' :: rest) := by
      simp [propertyName, skipWs, isWs, isLower, isDigit, List.takeWhile, List.dropWhile]
    have hne : ("abstract" = "inline") = False := by decide
    refine ⟨fun m => ?_, ?_, fun afterAttrs => ?_⟩
    · cases m
      · simp only [parseTopLine, m1, hrest]
      · have e2 : ∀ r, lit "enum" ('a' :: r) = none := fun r => lit_none_of_head "enum" 'e' _ rfl _ _ ha (by decide)
        have e3 : ∀ r, lit "@" ('a' :: r) = none := fun r => lit_none_of_head "@" '@' _ rfl _ _ ha (by decide)
        simp only [parseTopLine, e2, e3, bind, Option.bind]
      · simp only [parseTopLine, m1, hrest]
    · have c1 : ∀ r, constName ('a' :: r) = none := fun r => constName_none_of_head _ _ ha (by decide)
      simp only [parseEnumLine, c1, bind, Option.bind]
    · have c1 : ∀ r, constName ('a' :: r) = none := fun r => constName_none_of_head _ _ ha (by decide)
      cases afterAttrs <;>
        simp only [parseStructLine, plainMemberRest, c1, p1, heq, hne, bind, Option.bind, Bool.false_eq_true, ↓reduceIte]
  · have hi : isWs 'i' = false := by decide
    have m1 : structModifier ('i' :: 'n' :: 'l' :: 'i' :: 'n' :: 'e' :: ' ' :: 'x' :: rest) =
        some ("inline", ' ' :: 'x' :: rest) := by simp [structModifier, skipWs, isWs, litHere, List.isPrefixOf]
    have p1 : propertyName ('i' :: 'n' :: 'l' :: 'i' :: 'n' :: 'e' :: ' ' :: 'x' :: rest) =
        some ("inline", ' ' :: 'x' :: rest) := by
      simp [propertyName, skipWs, isWs, isLower, isDigit, List.takeWhile, List.dropWhile]
    have hu : userTypeName (' ' :: 'x' :: rest) = none := by
      rw [userTypeName_skip_blank]; exact userTypeName_none_of_head 'x' rest hx (by decide)
    refine ⟨fun m => ?_, ?_, fun afterAttrs => ?_⟩
    · cases m
      · simp only [parseTopLine, m1, hrest]
      · have e2 : ∀ r, lit "enum" ('i' :: r) = none := fun r => lit_none_of_head "enum" 'e' _ rfl _ _ hi (by decide)
        have e3 : ∀ r, lit "@" ('i' :: r) = none := fun r => lit_none_of_head "@" '@' _ rfl _ _ hi (by decide)
        simp only [parseTopLine, e2, e3, bind, Option.bind]
      · simp only [parseTopLine, m1, hrest]
    · have c1 : ∀ r, constName ('i' :: r) = none := fun r => constName_none_of_head _ _ hi (by decide)
      simp only [parseEnumLine, c1, bind, Option.bind]
    · have c1 : ∀ r, constName ('i' :: r) = none := fun r => constName_none_of_head _ _ hi (by decide)
      cases afterAttrs
      · simp only [parseStructLine, c1, p1, unnamedInlineRest, hu, bind, Option.bind, Bool.false_eq_true, ↓reduceIte]
      · simp only [parseStructLine, plainMemberRest, c1, p1, heq, bind, Option.bind, ↓reduceIte]

/-! ### later entries of `@comparer` -/

theorem commaList_cons_append (p : String) (ps : List String) (tail : Chars) :
    commaList (p :: ps) ++ tail = ',' :: ' ' :: (p.toList ++ (commaList ps ++ tail)) := by
  simp [commaList, List.flatMap_cons]

/-- the entries after the first fail as soon as one of them carries an unknown transform -/
theorem moreComparerEntries_unknown : ∀ (es : List (String × Bool)) (q : String) (rest : Chars) (fuel : Nat),
    (∀ x ∈ es, IsPropName x.1) → IsPropName q →
    moreComparerEntries fuel (commaList (es.map entryText) ++ ',' :: ' ' :: (q.toList ++ '!' :: 'x' :: rest)) = none := by
  intro es
  induction es with
  | nil =>
    intro q rest fuel _ hq
    cases fuel with
    | zero => rfl
    | succ k =>
      have hrp : lit ")" (',' :: ' ' :: (q.toList ++ '!' :: 'x' :: rest)) = none :=
        lit_none_of_head ")" ')' [] rfl ',' _ (by decide) (by decide)
      have hprop := propertyName_append q.toList ('!' :: 'x' :: rest) hq (follows_bang_prop _)
      have hx : lit "ripemd_keccak_256" ('x' :: rest) = none :=
        lit_none_of_head "ripemd_keccak_256" 'r' _ rfl 'x' rest (by decide) (by decide)
      simp only [List.map_nil, commaList, List.flatMap_nil, List.nil_append, moreComparerEntries, hrp, lit_comma, comparerEntry,
        propertyName_skip_blank, hprop, lit_bang, hx, bind, Option.bind]
  | cons e rest' ih =>
    intro q rest fuel hes hq
    cases fuel with
    | zero => rfl
    | succ k =>
      have hunfold : commaList ((e :: rest').map entryText) ++ ',' :: ' ' :: (q.toList ++ '!' :: 'x' :: rest) =
          ',' :: ' ' :: ((entryText e).toList ++ (commaList (rest'.map entryText) ++ ',' :: ' ' :: (q.toList ++ '!' :: 'x' :: rest))) := by
        exact commaList_cons_append _ _ _
      have hfollow : ∃ c r, commaList (rest'.map entryText) ++ ',' :: ' ' :: (q.toList ++ '!' :: 'x' :: rest) = c :: r ∧ c = ',' := by
        cases rest' with
        | nil => exact ⟨',', _, rfl, rfl⟩
        | cons e2 r2 => exact ⟨',', _, commaList_cons_append _ _ _, rfl⟩
      obtain ⟨c, r, hcr, hc⟩ := hfollow
      subst hc
      have hentry := comparerEntry_render e (hes e List.mem_cons_self) ',' r (by decide) (by decide) (by decide)
      have hrp : ∀ t, lit ")" (',' :: t) = none := fun t => lit_none_of_head ")" ')' [] rfl ',' t (by decide) (by decide)
      have hih := ih q rest k (fun x hx => hes x (List.mem_cons_of_mem _ hx)) hq
      rw [hcr] at hih
      have hskip : ∀ t, comparerEntry (' ' :: t) = comparerEntry t := by
        intro t; simp only [comparerEntry, propertyName_skip_blank]
      rw [hunfold, hcr]
      simp only [moreComparerEntries, hrp, lit_comma, hskip, hentry, hih, bind, Option.bind]

/-- Operator `unknown-transform` on any entry after the first: `@comparer(e1, …, ek, member!xtransform…` for every
    list of well-formed entries before it. -/
theorem unknown_transform_later (e : String × Bool) (es : List (String × Bool)) (he : IsPropName e.1)
    (hes : ∀ x ∈ es, IsPropName x.1) (q : String) (hq : IsPropName q) (rest : Chars) :
    LineRejected ('@' :: 'c' :: 'o' :: 'm' :: 'p' :: 'a' :: 'r' :: 'e' :: 'r' :: '(' ::
      ((entryText e).toList ++ (commaList (es.map entryText) ++ ',' :: ' ' :: (q.toList ++ '!' :: 'x' :: rest)))) := by
  generalize htail : commaList (es.map entryText) ++ ',' :: ' ' :: (q.toList ++ '!' :: 'x' :: rest) = tail
  have hmore : ∀ fuel, moreComparerEntries fuel tail = none := by
    intro fuel; rw [← htail]; exact moreComparerEntries_unknown es q rest fuel hes hq
  have htl : ∃ r, tail = ',' :: r := by
    rw [← htail]
    cases es with
    | nil => exact ⟨_, rfl⟩
    | cons e2 r2 => exact ⟨_, commaList_cons_append _ _ _⟩
  obtain ⟨r, hr⟩ := htl
  have hentry : comparerEntry ((entryText e).toList ++ tail) = some (comparerValues [e], tail) := by
    rw [hr]; exact comparerEntry_render e he ',' r (by decide) (by decide) (by decide)
  have hc : ∀ t, skipWs ('c' :: t) = 'c' :: t := fun t => skipWs_cons_of_not_ws _ _ (by decide)
  have hh : ∀ (s : String) (s0 : Char) (sr : Chars), s.toList = s0 :: sr → (s0 == 'c') = false → ∀ r,
      litHere s ('c' :: r) = none := fun s s0 sr hs hne r => litHere_none_of_head s s0 sr hs 'c' r hne
  have hcomp : ∀ r, litHere "comparer" ('c' :: 'o' :: 'm' :: 'p' :: 'a' :: 'r' :: 'e' :: 'r' :: r) = some r := by
    intro r; simp [litHere, List.isPrefixOf]
  apply attribute_line_rejected
  · simp only [structAttribute, hc, hh "is_size_implicit" 'i' _ rfl (by decide), hh "is_aligned" 'i' _ rfl (by decide),
      hh "discriminator" 'd' _ rfl (by decide), hh "initializes" 'i' _ rfl (by decide), hcomp, lit_lpar, hentry, hmore,
      bind, Option.bind]
  · have : ∀ t, lit "is_bitwise" ('c' :: t) = none := fun t => lit_none_of_head "is_bitwise" 'i' _ rfl 'c' _ (by decide) (by decide)
    simp only [enumAttribute, this, bind, Option.bind]
  · simp only [fieldAttribute, hc, hh "is_byte_constrained" 'i' _ rfl (by decide), hh "alignment" 'a' _ rfl (by decide),
      hh "sort_key" 's' _ rfl (by decide), hh "sizeref" 's' _ rfl (by decide)]

/-! ### constant lines `NAME = …` (enum values and `make_const` members) -/

/-- a line `NAME = body` with a constant name is rejected everywhere as soon as `body` is no number (enum value) and
    the `make_const` reading fails -/
theorem const_line_rejected (name : String) (hn : IsConstantName name) (body : Chars)
    (hnum : number (' ' :: body) = none) (hconst : constMemberRest name (' ' :: '=' :: ' ' :: body) = none) :
    LineRejected (name.toList ++ ' ' :: '=' :: ' ' :: body) := by
  obtain ⟨a, b, rs, heq, hup, hb, hrs⟩ := id hn
  have hc := constName_append name.toList (' ' :: '=' :: ' ' :: body) hn (follows_blank_const _)
  refine ⟨fun m => ?_, ?_, fun afterAttrs => ?_⟩
  · rw [heq]
    exact parseTopLine_none_of_head m a _ (not_ws_of_upper hup) (beq_false_of_upper _ (by decide) a hup)
      (beq_false_of_upper _ (by decide) a hup) (beq_false_of_upper _ (by decide) a hup) (beq_false_of_upper _ (by decide) a hup)
      (beq_false_of_upper _ (by decide) a hup) (beq_false_of_upper _ (by decide) a hup)
  · simp only [parseEnumLine, hc, bind, Option.bind, lit_skip_blank, lit_eq, hnum]
  · cases afterAttrs
    · simp only [parseStructLine, Bool.false_eq_true, if_false, hc, String.ofList_toList, hconst]
    · have e1 : propertyName (name.toList ++ ' ' :: '=' :: ' ' :: body) = none := propertyName_none_of_const _ _ hn
      have e2 : lit "__value__" (name.toList ++ ' ' :: '=' :: ' ' :: body) = none := by
        rw [heq]; exact lit_none_of_upper "__value__" '_' _ rfl (by decide) a _ hup
      have e3 : lit "@" (name.toList ++ ' ' :: '=' :: ' ' :: body) = none := by
        rw [heq]; exact lit_none_of_upper "@" '@' _ rfl (by decide) a _ hup
      simp only [parseStructLine, if_true, e1, e2, e3, bind, Option.bind]

theorem number_m (r : Chars) : number (' ' :: 'm' :: r) = none := by
  simp [number, hexNumber, decNumber, skipWs, isWs, isDigit, List.dropWhile, List.takeWhile]

/-- operator `missing-bracket` on `make_const(`: something else than `(` after the keyword -/
theorem missing_open_bracket_const (name : String) (hn : IsConstantName name) (c : Char) (rest : Chars) (hws : isWs c = false)
    (hc : c ≠ '(') :
    LineRejected (name.toList ++ ' ' :: '=' :: ' ' :: 'm' :: 'a' :: 'k' :: 'e' :: '_' :: 'c' :: 'o' :: 'n' :: 's' :: 't' :: c :: rest) := by
  have hlp : lit "(" (c :: rest) = none :=
    lit_none_of_head "(" '(' [] rfl c rest hws (by simp only [beq_eq_false_iff_ne, ne_eq]; exact fun h => hc h.symm)
  apply const_line_rejected name hn _ (number_m _)
  simp only [constMemberRest, lit_skip_blank, lit_eq, lit_make_const, hlp, bind, Option.bind]

/-- operator `missing-bracket` on the closing parenthesis of `make_const(T, v)`: the printed argument list cut before
    its `)` (integer and enum constants) -/
theorem missing_close_bracket_const (name : String) (hn : IsConstantName name) (t : FieldType) (v : Scalar) (h : WFConstArg t v) :
    LineRejected (name.toList ++ ' ' :: '=' :: ' ' :: 'm' :: 'a' :: 'k' :: 'e' :: '_' :: 'c' :: 'o' :: 'n' :: 's' :: 't' :: '(' ::
      (t.render.toList ++ ',' :: ' ' :: v.pyStr.toList)) := by
  apply const_line_rejected name hn _ (number_m _)
  have hrp : lit ")" [] = none := by decide
  have harg : ∃ res, integerOrEnumConst (t.render.toList ++ ',' :: ' ' :: v.pyStr.toList) = res ∧
      (res = none ∨ res = some ((t, v), [])) := by
    cases h with
    | int it n hit =>
      obtain ⟨u, sz, sr⟩ := it
      obtain ⟨hsz, hsr⟩ := hit
      simp only at hsz hsr
      subst hsr
      have h1 := fixedSizeInteger_shortName u sz hsz (',' :: ' ' :: (toString n).toList)
      refine ⟨_, rfl, Or.inr ?_⟩
      simp only [integerOrEnumConst, FieldType.render, IntType.render, pyStr_nat, h1, bind, Option.bind, lit_comma,
        number_skip_blank, number_repr_nil, mkInt]
    | «enum» ty c hty hc =>
      obtain ⟨a, b, rs, heq, ha, hb, hrest⟩ := id hty
      have h1 : fixedSizeInteger (ty.toList ++ ',' :: ' ' :: c.toList) = none := by
        rw [heq]; exact fixedSizeInteger_none_of_upper a _ ha
      have h2 := userTypeName_append ty.toList (',' :: ' ' :: c.toList) hty (follows_comma_type _)
      have h3 := constName_append c.toList [] hc (follows_nil _)
      rw [List.append_nil] at h3
      refine ⟨_, rfl, Or.inr ?_⟩
      simp only [integerOrEnumConst, FieldType.render, Scalar.pyStr, h1, h2, bind, Option.bind, lit_comma, constName_skip_blank,
        h3, String.ofList_toList]
  obtain ⟨res, hres, hcases⟩ := harg
  rcases hcases with hnone | hsome
  · subst hnone
    simp only [constMemberRest, lit_skip_blank, lit_eq, lit_make_const, lit_lpar, hres, bind, Option.bind]
  · subst hsome
    simp only [constMemberRest, lit_skip_blank, lit_eq, lit_make_const, lit_lpar, hres, hrp, bind, Option.bind]

theorem integerOrEnumConst_bad_width (rest : Chars) :
    integerOrEnumConst ('u' :: 'i' :: 'n' :: 't' :: '2' :: '4' :: rest) = none ∧
    integerOrEnumConst ('i' :: 'n' :: 't' :: '2' :: '4' :: rest) = none := by
  have u1 : ∀ r, userTypeName ('u' :: r) = none := fun r => userTypeName_none_of_head 'u' r (by decide) (by decide)
  have u2 : ∀ r, userTypeName ('i' :: r) = none := fun r => userTypeName_none_of_head 'i' r (by decide) (by decide)
  constructor
  · simp only [integerOrEnumConst, fixedSizeInteger_uint24, u1, bind, Option.bind]
  · simp only [integerOrEnumConst, fixedSizeInteger_int24, u2, bind, Option.bind]

/-- operator `bad-width` inside `make_const(…)` -/
theorem bad_width_const_arg (name : String) (hn : IsConstantName name) (rest : Chars) :
    LineRejected (name.toList ++ ' ' :: '=' :: ' ' :: 'm' :: 'a' :: 'k' :: 'e' :: '_' :: 'c' :: 'o' :: 'n' :: 's' :: 't' :: '(' ::
      'u' :: 'i' :: 'n' :: 't' :: '2' :: '4' :: rest) ∧
    LineRejected (name.toList ++ ' ' :: '=' :: ' ' :: 'm' :: 'a' :: 'k' :: 'e' :: '_' :: 'c' :: 'o' :: 'n' :: 's' :: 't' :: '(' ::
      'i' :: 'n' :: 't' :: '2' :: '4' :: rest) := by
  constructor
  · apply const_line_rejected name hn _ (number_m _)
    simp only [constMemberRest, lit_skip_blank, lit_eq, lit_make_const, lit_lpar, (integerOrEnumConst_bad_width rest).1, bind,
      Option.bind]
  · apply const_line_rejected name hn _ (number_m _)
    simp only [constMemberRest, lit_skip_blank, lit_eq, lit_make_const, lit_lpar, (integerOrEnumConst_bad_width rest).2, bind,
      Option.bind]

/-- operator `missing-operand` on an enum value or constant line: `NAME = ` -/
theorem missing_operand_const (name : String) (hn : IsConstantName name) :
    LineRejected (name.toList ++ ' ' :: '=' :: ' ' :: []) := by
  apply const_line_rejected name hn [] (by decide)
  have : lit "make_const" [' '] = none := by decide
  simp only [constMemberRest, lit_skip_blank, lit_eq, this, bind, Option.bind]

/-- operator `missing-equals` on an enum value or constant line: `NAME 5`, `NAME make_const(…)` -/
theorem missing_equals_const (name : String) (hn : IsConstantName name) (c : Char) (rest : Chars) (hws : isWs c = false)
    (hc : c ≠ '=') : LineRejected (name.toList ++ ' ' :: c :: rest) := by
  obtain ⟨a, b, rs, heq, hup, hb, hrs⟩ := id hn
  have hcn := constName_append name.toList (' ' :: c :: rest) hn (follows_blank_const _)
  have heq' : lit "=" (' ' :: c :: rest) = none := lit_eq_none_of_head c rest hws hc
  refine ⟨fun m => ?_, ?_, fun afterAttrs => ?_⟩
  · rw [heq]
    exact parseTopLine_none_of_head m a _ (not_ws_of_upper hup) (beq_false_of_upper _ (by decide) a hup)
      (beq_false_of_upper _ (by decide) a hup) (beq_false_of_upper _ (by decide) a hup) (beq_false_of_upper _ (by decide) a hup)
      (beq_false_of_upper _ (by decide) a hup) (beq_false_of_upper _ (by decide) a hup)
  · simp only [parseEnumLine, hcn, bind, Option.bind, heq']
  · cases afterAttrs
    · simp only [parseStructLine, Bool.false_eq_true, if_false, hcn, constMemberRest, heq', bind, Option.bind]
    · have e1 : propertyName (name.toList ++ ' ' :: c :: rest) = none := propertyName_none_of_const _ _ hn
      have e2 : lit "__value__" (name.toList ++ ' ' :: c :: rest) = none := by
        rw [heq]; exact lit_none_of_upper "__value__" '_' _ rfl (by decide) a _ hup
      have e3 : lit "@" (name.toList ++ ' ' :: c :: rest) = none := by
        rw [heq]; exact lit_none_of_upper "@" '@' _ rfl (by decide) a _ hup
      simp only [parseStructLine, if_true, e1, e2, e3, bind, Option.bind]

/-! ### member lines `name = …` -/

/-- operator `missing-operand` on a member line: `name = ` -/
theorem missing_operand_member (name : String) (hn : IsMemberName name) :
    LineRejected (name.toList ++ ' ' :: '=' :: ' ' :: []) := by
  have f1 : fixedSizeInteger [' '] = none := by decide
  have f2 : userTypeName [' '] = none := by decide
  have f3 : lit "array" [' '] = none := by decide
  have hplain : plainFieldRest name [' '] = none := by
    simp only [plainFieldRest, plainFieldType, f1, f2, f3, bind, Option.bind]
  apply member_line_rejected name hn [] _ hplain
  have e1 : lit "make_reserved" [' '] = none := by decide
  have e2 : lit "sizeof" [' '] = none := by decide
  have e3 : lit "inline" [' '] = none := by decide
  simp only [memberAfterEquals, e1, e2, e3, hplain, Option.map]

/-- operator `missing-equals` on a member line: `name uint8`. The first letter of the name must not be that of a
    top-level keyword (`abstract`, `inline`, `import`, `struct`, `using`, `enum`): `enum Foo : uint8` IS a line of the
    grammar. -/
theorem missing_equals_member (name : String) (hn : IsMemberName name) (a : Char) (w : Chars) (hname : name.toList = a :: w)
    (ha : ('a' == a) = false) (hi : ('i' == a) = false) (hs : ('s' == a) = false) (hu : ('u' == a) = false)
    (he : ('e' == a) = false) (c : Char) (rest : Chars) (hws : isWs c = false) (hc : c ≠ '=') :
    LineRejected (name.toList ++ ' ' :: c :: rest) := by
  obtain ⟨a', w', heq, hlow, hall⟩ := propChars_of_propName _ hn.1
  have haa : a' = a := by rw [hname] at heq; exact (List.cons.inj heq).1.symm
  subst haa
  have hp := propertyName_append name.toList (' ' :: c :: rest) hn.1 (follows_blank_prop _)
  have heq' : lit "=" (' ' :: c :: rest) = none := lit_eq_none_of_head c rest hws hc
  have hne : (name = "inline") = False := by simp only [eq_iff_iff, iff_false]; exact hn.2
  have hat : ('@' == a') = false := by
    simp only [beq_eq_false_iff_ne, ne_eq]; intro h; subst h; revert hlow; decide
  refine ⟨fun m => ?_, ?_, fun afterAttrs => ?_⟩
  · rw [heq]; exact parseTopLine_none_of_head m a' _ (not_ws_of_lower hlow) ha hi hs hu he hat
  · have : constName (name.toList ++ ' ' :: c :: rest) = none := constName_none_of_property _ _ hn.1
    simp only [parseEnumLine, this, bind, Option.bind]
  · have c1 : constName (name.toList ++ ' ' :: c :: rest) = none := constName_none_of_property _ _ hn.1
    cases afterAttrs <;>
      simp only [parseStructLine, plainMemberRest, c1, hp, String.ofList_toList, hne, heq', bind, Option.bind,
        Bool.false_eq_true, ↓reduceIte]

/-- a member line whose text after `=` starts with `array` and whose argument list fails -/
theorem array_args_rejected (name : String) (hn : IsMemberName name) (args : Chars) (hargs : arrayArguments args = none) :
    LineRejected (name.toList ++ ' ' :: '=' :: ' ' :: 'a' :: 'r' :: 'r' :: 'a' :: 'y' :: args) := by
  have h1 : ∀ r, fixedSizeInteger ('a' :: r) = none := fun r =>
    fixedSizeInteger_none_of_head 'a' r (by decide) (by decide) (by decide)
  have h2 : ∀ r, userTypeName ('a' :: r) = none := fun r => userTypeName_none_of_head 'a' r (by decide) (by decide)
  have hA : isWs 'a' = false := by decide
  have e1 : ∀ r, lit "make_reserved" ('a' :: r) = none := fun r => lit_none_of_head "make_reserved" 'm' _ rfl 'a' r hA (by decide)
  have e2 : ∀ r, lit "sizeof" ('a' :: r) = none := fun r => lit_none_of_head "sizeof" 's' _ rfl 'a' r hA (by decide)
  have e3 : ∀ r, lit "inline" ('a' :: r) = none := fun r => lit_none_of_head "inline" 'i' _ rfl 'a' r hA (by decide)
  have hplain : plainFieldRest name (' ' :: 'a' :: 'r' :: 'r' :: 'a' :: 'y' :: args) = none := by
    simp only [plainFieldRest, plainFieldType, fixedSizeInteger_skip_blank, h1, userTypeName_skip_blank, h2, lit_skip_blank,
      lit_array, hargs, bind, Option.bind]
  apply member_line_rejected name hn _ _ hplain
  simp only [memberAfterEquals, lit_skip_blank, e1, e2, e3, hplain, Option.map]

/-- operator `bad-width` on the element type of an array: `name = array(uint24, …` -/
theorem bad_width_array_elem (name : String) (hn : IsMemberName name) (rest : Chars) :
    LineRejected (name.toList ++ ' ' :: '=' :: ' ' :: 'a' :: 'r' :: 'r' :: 'a' :: 'y' :: '(' :: 'u' :: 'i' :: 'n' :: 't' :: '2' :: '4' :: rest) ∧
    LineRejected (name.toList ++ ' ' :: '=' :: ' ' :: 'a' :: 'r' :: 'r' :: 'a' :: 'y' :: '(' :: 'i' :: 'n' :: 't' :: '2' :: '4' :: rest) := by
  have u1 : ∀ r, userTypeName ('u' :: r) = none := fun r => userTypeName_none_of_head 'u' r (by decide) (by decide)
  have u2 : ∀ r, userTypeName ('i' :: r) = none := fun r => userTypeName_none_of_head 'i' r (by decide) (by decide)
  constructor
  · apply array_args_rejected name hn
    simp only [arrayArguments, lit_lpar, scanElem, fixedSizeInteger_uint24, u1, Option.map, bind, Option.bind]
  · apply array_args_rejected name hn
    simp only [arrayArguments, lit_lpar, scanElem, fixedSizeInteger_int24, u2, Option.map, bind, Option.bind]

/-- operator `bad-width` on the type of `sizeof(…)` -/
theorem bad_width_sizeof (name : String) (hn : IsMemberName name) (rest : Chars) :
    LineRejected (name.toList ++ ' ' :: '=' :: ' ' :: 's' :: 'i' :: 'z' :: 'e' :: 'o' :: 'f' :: '(' :: 'u' :: 'i' :: 'n' :: 't' :: '2' :: '4' :: rest) ∧
    LineRejected (name.toList ++ ' ' :: '=' :: ' ' :: 's' :: 'i' :: 'z' :: 'e' :: 'o' :: 'f' :: '(' :: 'i' :: 'n' :: 't' :: '2' :: '4' :: rest) := by
  have e1 : ∀ r, lit "make_reserved" ('s' :: r) = none := fun r =>
    lit_none_of_head "make_reserved" 'm' _ rfl 's' r (by decide) (by decide)
  constructor
  · have hplain := plainFieldRest_none_of_head name 's' ('i' :: 'z' :: 'e' :: 'o' :: 'f' :: '(' :: 'u' :: 'i' :: 'n' :: 't' :: '2' :: '4' :: rest)
      (by decide) (by decide) (by decide) (by decide) (by decide)
    apply member_line_rejected name hn _ _ hplain
    simp only [memberAfterEquals, lit_skip_blank, e1, lit_sizeof, lit_lpar, fixedSizeInteger_uint24, bind, Option.bind]
  · have hplain := plainFieldRest_none_of_head name 's' ('i' :: 'z' :: 'e' :: 'o' :: 'f' :: '(' :: 'i' :: 'n' :: 't' :: '2' :: '4' :: rest)
      (by decide) (by decide) (by decide) (by decide) (by decide)
    apply member_line_rejected name hn _ _ hplain
    simp only [memberAfterEquals, lit_skip_blank, e1, lit_sizeof, lit_lpar, fixedSizeInteger_int24, bind, Option.bind]

/-- operator `bad-width` inside `make_reserved(…)` -/
theorem bad_width_reserved (name : String) (hn : IsMemberName name) (rest : Chars) :
    LineRejected (name.toList ++ ' ' :: '=' :: ' ' :: 'm' :: 'a' :: 'k' :: 'e' :: '_' :: 'r' :: 'e' :: 's' :: 'e' :: 'r' :: 'v' :: 'e' :: 'd' :: '(' ::
      'u' :: 'i' :: 'n' :: 't' :: '2' :: '4' :: rest) ∧
    LineRejected (name.toList ++ ' ' :: '=' :: ' ' :: 'm' :: 'a' :: 'k' :: 'e' :: '_' :: 'r' :: 'e' :: 's' :: 'e' :: 'r' :: 'v' :: 'e' :: 'd' :: '(' ::
      'i' :: 'n' :: 't' :: '2' :: '4' :: rest) := by
  constructor
  · have hplain := plainFieldRest_none_of_head name 'm'
      ('a' :: 'k' :: 'e' :: '_' :: 'r' :: 'e' :: 's' :: 'e' :: 'r' :: 'v' :: 'e' :: 'd' :: '(' :: 'u' :: 'i' :: 'n' :: 't' :: '2' :: '4' :: rest)
      (by decide) (by decide) (by decide) (by decide) (by decide)
    apply member_line_rejected name hn _ _ hplain
    simp only [memberAfterEquals, lit_skip_blank, lit_make_reserved, lit_lpar, (integerOrEnumConst_bad_width rest).1, bind,
      Option.bind]
  · have hplain := plainFieldRest_none_of_head name 'm'
      ('a' :: 'k' :: 'e' :: '_' :: 'r' :: 'e' :: 's' :: 'e' :: 'r' :: 'v' :: 'e' :: 'd' :: '(' :: 'i' :: 'n' :: 't' :: '2' :: '4' :: rest)
      (by decide) (by decide) (by decide) (by decide) (by decide)
    apply member_line_rejected name hn _ _ hplain
    simp only [memberAfterEquals, lit_skip_blank, lit_make_reserved, lit_lpar, (integerOrEnumConst_bad_width rest).2, bind,
      Option.bind]

/-! ### attribute arities and parentheses -/

/-- `@size(member` followed by anything that is not `)`: a second argument (`wrong-arity`) or the end of the line
    (`missing-bracket`) -/
theorem size_tail_rejected (p : String) (hp : IsPropName p) (tail : Chars) (hf : Follows isPropChar tail)
    (hrp : lit ")" tail = none) : LineRejected ('@' :: 's' :: 'i' :: 'z' :: 'e' :: '(' :: (p.toList ++ tail)) := by
  have hc : skipWs ('s' :: 'i' :: 'z' :: 'e' :: '(' :: (p.toList ++ tail)) =
      's' :: 'i' :: 'z' :: 'e' :: '(' :: (p.toList ++ tail) := skipWs_cons_of_not_ws _ _ (by decide)
  have hh : ∀ (s : String) (s0 : Char) (sr : Chars), s.toList = s0 :: sr → (s0 == 's') = false → ∀ r,
      litHere s ('s' :: r) = none := fun s s0 sr hs hne r => litHere_none_of_head s s0 sr hs 's' r hne
  have hsize : ∀ r, litHere "size" ('s' :: 'i' :: 'z' :: 'e' :: r) = some r := by
    intro r; simp [litHere, List.isPrefixOf]
  have hsort : ∀ r, litHere "sort_key" ('s' :: 'i' :: r) = none := by intro r; simp [litHere, List.isPrefixOf]
  have hsizeref : ∀ r, litHere "sizeref" ('s' :: 'i' :: 'z' :: 'e' :: '(' :: r) = none := by
    intro r; simp [litHere, List.isPrefixOf]
  have hprop := propertyName_append p.toList tail hp hf
  apply attribute_line_rejected
  · simp only [structAttribute, hc, hh "is_size_implicit" 'i' _ rfl (by decide), hh "is_aligned" 'i' _ rfl (by decide),
      hh "discriminator" 'd' _ rfl (by decide), hh "initializes" 'i' _ rfl (by decide), hh "comparer" 'c' _ rfl (by decide),
      hsize, lit_lpar, hprop, hrp, bind, Option.bind]
  · have : lit "is_bitwise" ('s' :: 'i' :: 'z' :: 'e' :: '(' :: (p.toList ++ tail)) = none :=
      lit_none_of_head "is_bitwise" 'i' _ rfl 's' _ (by decide) (by decide)
    simp only [enumAttribute, this, bind, Option.bind]
  · simp only [fieldAttribute, hc, hh "is_byte_constrained" 'i' _ rfl (by decide), hh "alignment" 'a' _ rfl (by decide),
      hsort, hsizeref]

/-- operator `missing-bracket` on the closing parenthesis of `@size(member)` -/
theorem missing_close_bracket_size (p : String) (hp : IsPropName p) :
    LineRejected ('@' :: 's' :: 'i' :: 'z' :: 'e' :: '(' :: p.toList) := by
  have := size_tail_rejected p hp [] (follows_nil _) (by decide)
  rwa [List.append_nil] at this

/-- operator `wrong-arity` on the attributes with a fixed number of arguments (instances): too few and too many -/
theorem wrong_arity_fixed :
    LineRejected "@initializes(ab)".toList ∧ LineRejected "@initializes(ab, CD, ef)".toList ∧
    LineRejected "@sort_key(ab, cd)".toList ∧ LineRejected "@sort_key()".toList ∧
    LineRejected "@alignment()".toList ∧ LineRejected "@alignment(8, pad_last, 4)".toList ∧
    LineRejected "@sizeref()".toList ∧ LineRejected "@sizeref(ab, 1, 2)".toList ∧ LineRejected "@size()".toList := by
  refine ⟨⟨fun m => ?_, ?_, fun b => ?_⟩, ⟨fun m => ?_, ?_, fun b => ?_⟩, ⟨fun m => ?_, ?_, fun b => ?_⟩,
    ⟨fun m => ?_, ?_, fun b => ?_⟩, ⟨fun m => ?_, ?_, fun b => ?_⟩, ⟨fun m => ?_, ?_, fun b => ?_⟩,
    ⟨fun m => ?_, ?_, fun b => ?_⟩, ⟨fun m => ?_, ?_, fun b => ?_⟩, ⟨fun m => ?_, ?_, fun b => ?_⟩⟩ <;>
    first | (cases m <;> decide) | (cases b <;> decide) | decide

/-- operator `missing-bracket` on the parentheses of an attribute (instances): the opening one replaced by a blank,
    the closing one dropped -/
theorem missing_bracket_attribute :
    LineRejected "@size ab)".toList ∧ LineRejected "@initializes(ab, CD".toList ∧
    LineRejected "@discriminator(ab, cd".toList ∧ LineRejected "@comparer(ab!ripemd_keccak_256".toList ∧
    LineRejected "@alignment(8".toList ∧ LineRejected "@alignment 8)".toList ∧ LineRejected "@sort_key(ab".toList ∧
    LineRejected "@sizeref(ab, 1".toList := by
  refine ⟨⟨fun m => ?_, ?_, fun b => ?_⟩, ⟨fun m => ?_, ?_, fun b => ?_⟩, ⟨fun m => ?_, ?_, fun b => ?_⟩,
    ⟨fun m => ?_, ?_, fun b => ?_⟩, ⟨fun m => ?_, ?_, fun b => ?_⟩, ⟨fun m => ?_, ?_, fun b => ?_⟩,
    ⟨fun m => ?_, ?_, fun b => ?_⟩, ⟨fun m => ?_, ?_, fun b => ?_⟩⟩ <;>
    first | (cases m <;> decide) | (cases b <;> decide) | decide

/-! ### closing parentheses of `make_reserved(…)` and `sizeof(…)` -/

/-- the printed argument text of `make_const` / `make_reserved` without the closing parenthesis is read up to its end -/
theorem constArg_cut (t : FieldType) (v : Scalar) (h : WFConstArg t v) :
    integerOrEnumConst (t.render.toList ++ ',' :: ' ' :: v.pyStr.toList) = some ((t, v), []) := by
  cases h with
  | int it n hit =>
    obtain ⟨u, sz, sr⟩ := it
    obtain ⟨hsz, hsr⟩ := hit
    simp only at hsz hsr
    subst hsr
    have h1 := fixedSizeInteger_shortName u sz hsz (',' :: ' ' :: (toString n).toList)
    simp only [integerOrEnumConst, FieldType.render, IntType.render, pyStr_nat, h1, bind, Option.bind, lit_comma,
      number_skip_blank, number_repr_nil, mkInt]
  | «enum» ty c hty hc =>
    obtain ⟨a, b, rs, heq, ha, hb, hrest⟩ := id hty
    have h1 : fixedSizeInteger (ty.toList ++ ',' :: ' ' :: c.toList) = none := by
      rw [heq]; exact fixedSizeInteger_none_of_upper a _ ha
    have h2 := userTypeName_append ty.toList (',' :: ' ' :: c.toList) hty (follows_comma_type _)
    have h3 := constName_append c.toList [] hc (follows_nil _)
    rw [List.append_nil] at h3
    simp only [integerOrEnumConst, FieldType.render, Scalar.pyStr, h1, h2, bind, Option.bind, lit_comma, constName_skip_blank,
      h3, String.ofList_toList]

/-- operator `missing-bracket` on the closing parenthesis of `make_reserved(T, v)` -/
theorem missing_close_bracket_reserved (name : String) (hn : IsMemberName name) (t : FieldType) (v : Scalar) (h : WFConstArg t v) :
    LineRejected (name.toList ++ ' ' :: '=' :: ' ' :: 'm' :: 'a' :: 'k' :: 'e' :: '_' :: 'r' :: 'e' :: 's' :: 'e' :: 'r' :: 'v' :: 'e' :: 'd' :: '(' ::
      (t.render.toList ++ ',' :: ' ' :: v.pyStr.toList)) := by
  have hplain := plainFieldRest_none_of_head name 'm'
    ('a' :: 'k' :: 'e' :: '_' :: 'r' :: 'e' :: 's' :: 'e' :: 'r' :: 'v' :: 'e' :: 'd' :: '(' :: (t.render.toList ++ ',' :: ' ' :: v.pyStr.toList))
    (by decide) (by decide) (by decide) (by decide) (by decide)
  have hrp : lit ")" [] = none := by decide
  apply member_line_rejected name hn _ _ hplain
  simp only [memberAfterEquals, lit_skip_blank, lit_make_reserved, lit_lpar, constArg_cut t v h, hrp, bind, Option.bind]

/-- operator `missing-bracket` on the closing parenthesis of `sizeof(T, member)` -/
theorem missing_close_bracket_sizeof (name : String) (hn : IsMemberName name) (u : Bool) (sz : Nat)
    (hsz : sz = 1 ∨ sz = 2 ∨ sz = 4 ∨ sz = 8) (p : String) (hp : IsPropName p) :
    LineRejected (name.toList ++ ' ' :: '=' :: ' ' :: 's' :: 'i' :: 'z' :: 'e' :: 'o' :: 'f' :: '(' ::
      ((IntType.shortName ⟨u, sz, none⟩).toList ++ ',' :: ' ' :: p.toList)) := by
  have hplain := plainFieldRest_none_of_head name 's'
    ('i' :: 'z' :: 'e' :: 'o' :: 'f' :: '(' :: ((IntType.shortName ⟨u, sz, none⟩).toList ++ ',' :: ' ' :: p.toList))
    (by decide) (by decide) (by decide) (by decide) (by decide)
  have e1 : ∀ r, lit "make_reserved" ('s' :: r) = none := fun r =>
    lit_none_of_head "make_reserved" 'm' _ rfl 's' r (by decide) (by decide)
  have h1 := fixedSizeInteger_shortName u sz hsz (',' :: ' ' :: p.toList)
  have h2 := propertyName_append p.toList [] hp (follows_nil _)
  rw [List.append_nil] at h2
  have hrp : lit ")" [] = none := by decide
  apply member_line_rejected name hn _ _ hplain
  simp only [memberAfterEquals, lit_skip_blank, e1, lit_sizeof, lit_lpar, h1, lit_comma, propertyName_skip_blank, h2, hrp, bind,
    Option.bind]

/-! ### a comment on the same line as code (operators `join-lines` / `join-lines-flush` on a code line followed by a comment line) -/

/-- what follows the code when the line end before a comment line is lost: blanks or tabs (the indentation of the
    comment line, if it was kept), then `#` and the rest of the comment -/
def CommentTail (tail : Chars) : Prop := ∃ ws r, tail = ws ++ '#' :: r ∧ ws.all isWs = true

theorem skipWs_ws_append : ∀ (ws : Chars) (c : Char) (r : Chars), ws.all isWs = true → isWs c = false →
    skipWs (ws ++ c :: r) = c :: r := by
  intro ws
  induction ws with
  | nil => intro c r _ hc; exact skipWs_cons_of_not_ws c r hc
  | cons a rest ih =>
    intro c r hall hc
    simp only [List.all_cons, Bool.and_eq_true] at hall
    have := ih c r hall.2 hc
    simp only [skipWs] at this ⊢
    simp only [List.cons_append, List.dropWhile, hall.1, this]

theorem commentTail_skip (tail : Chars) (h : CommentTail tail) : ∃ r, skipWs tail = '#' :: r := by
  obtain ⟨ws, r, rfl, hws⟩ := h
  exact ⟨r, skipWs_ws_append ws '#' r hws (by decide)⟩

theorem atEol_commentTail (tail : Chars) (h : CommentTail tail) : atEol tail = false := by
  obtain ⟨r, hr⟩ := commentTail_skip tail h
  simp [atEol, hr]

theorem lit_commentTail (s : String) (s0 : Char) (srest : Chars) (hs : s.toList = s0 :: srest) (hne : (s0 == '#') = false)
    (tail : Chars) (h : CommentTail tail) : lit s tail = none := by
  obtain ⟨r, hr⟩ := commentTail_skip tail h
  have := lit_none_of_head s s0 srest hs '#' r (by decide) hne
  simp only [lit, hr] at this ⊢
  simpa [skipWs, List.dropWhile, isWs] using this

theorem follows_commentTail (P : Char → Bool) (h1 : P '#' = false) (h2 : P ' ' = false) (h3 : P '\t' = false) (tail : Chars)
    (h : CommentTail tail) : Follows P tail := by
  obtain ⟨ws, r, rfl, hws⟩ := h
  intro c hc
  cases ws with
  | nil => simp at hc; subst hc; exact h1
  | cons a rest =>
    simp at hc
    subst hc
    simp only [List.all_cons, Bool.and_eq_true, isWs, Bool.or_eq_true, beq_iff_eq] at hws
    rcases hws.1 with rfl | rfl
    · exact h2
    · exact h3

theorem follows_type_commentTail (tail : Chars) (h : CommentTail tail) : Follows isTypeChar tail :=
  follows_commentTail _ (by decide) (by decide) (by decide) tail h
theorem follows_const_commentTail (tail : Chars) (h : CommentTail tail) : Follows isConstChar tail :=
  follows_commentTail _ (by decide) (by decide) (by decide) tail h

/-- a plain member (any well-formed type, arrays included) with a comment on the same line -/
theorem member_comment_rejected (name : String) (hn : IsMemberName name) (t : FieldType) (ht : WFType t) (tail : Chars)
    (h : CommentTail tail) : LineRejected (name.toList ++ ' ' :: '=' :: ' ' :: (t.render.toList ++ tail)) := by
  apply plain_member_tail_rejected name hn t ht tail (follows_type_commentTail tail h)
  simp only [optConditionalEol, atEol_commentTail tail h, conditionalExpression,
    lit_commentTail "if" 'i' _ rfl (by decide) tail h, bind, Option.bind, Bool.false_eq_true, if_false]

/-- an enum header with a comment on the same line -/
theorem enum_header_comment_rejected (name : Chars) (hn : IsUserTypeName name) (u : Bool) (sz : Nat)
    (hsz : sz = 1 ∨ sz = 2 ∨ sz = 4 ∨ sz = 8) (tail : Chars) (h : CommentTail tail) :
    LineRejected (enumLine (name ++ ' ' :: ':' :: ' ' :: ((IntType.shortName ⟨u, sz, none⟩).toList ++ tail))) := by
  have hscan := userTypeName_with_blank name (' ' :: ':' :: ' ' :: ((IntType.shortName ⟨u, sz, none⟩).toList ++ tail)) hn
    (follows_blank_type' _)
  have hint := fixedSizeInteger_shortName u sz hsz tail
  obtain ⟨a, b, rest, rfl, ha, hb, hrest⟩ := hn
  apply enum_line_rejected
  · simp only [enumHeaderRest, hscan, bind, Option.bind, lit_skip_blank, lit_colon, fixedSizeInteger_skip_blank, hint,
      atEol_commentTail tail h, Bool.false_eq_true, if_false]
  · exact lit_eq_none_of_upper a _ ha

/-- a struct header (plain) with a comment on the same line -/
theorem struct_header_comment_rejected (name : Chars) (hn : IsUserTypeName name) (tail : Chars) (h : CommentTail tail) :
    LineRejected (structLine (name ++ tail)) := by
  have hs : isWs 's' = false := by decide
  have hst : lit "struct" (structLine (name ++ tail)) = some (' ' :: (name ++ tail)) := lit_struct _
  have hscan := userTypeName_with_blank name tail hn (follows_type_commentTail tail h)
  have hrest : ∀ d, structHeaderRest d (structLine (name ++ tail)) = none := by
    intro d
    simp only [structHeaderRest, hst, hscan, bind, Option.bind, atEol_commentTail tail h, Bool.false_eq_true, if_false]
  obtain ⟨a, b, rest, hname, ha, hb, hr⟩ := id hn
  have h2 : lit "=" (' ' :: (name ++ tail)) = none := by rw [hname]; exact lit_eq_none_of_upper a _ ha
  have e1 : structModifier (structLine (name ++ tail)) = none := structModifier_none_of_head _ _ hs (by decide) (by decide)
  refine ⟨fun m => ?_, ?_, fun afterAttrs => ?_⟩
  · cases m
    · have e2 : lit "import" (structLine (name ++ tail)) = none := lit_none_of_head "import" 'i' _ rfl _ _ hs (by decide)
      simp only [parseTopLine, e1, e2, hst, hrest]
    · have e2 : lit "enum" (structLine (name ++ tail)) = none := lit_none_of_head "enum" 'e' _ rfl _ _ hs (by decide)
      have e3 : lit "@" (structLine (name ++ tail)) = none := lit_none_of_head "@" '@' _ rfl _ _ hs (by decide)
      simp only [parseTopLine, e2, e3, bind, Option.bind]
    · simp only [parseTopLine, e1, hst, hrest]
  · have c1 : constName (structLine (name ++ tail)) = none := constName_none_of_head _ _ hs (by decide)
    simp only [parseEnumLine, c1, bind, Option.bind]
  · have c1 : constName (structLine (name ++ tail)) = none := constName_none_of_head _ _ hs (by decide)
    have c2 := propertyName_struct (name ++ tail)
    have hne : ("struct" = "inline") = False := by decide
    cases afterAttrs <;>
      simp only [parseStructLine, plainMemberRest, c1, c2, h2, hne, bind, Option.bind, Bool.false_eq_true, ↓reduceIte]

/-- an enum value with a comment on the same line -/
theorem enum_value_comment_rejected (name : String) (hn : IsConstantName name) (n : Nat) (tail : Chars) (h : CommentTail tail) :
    LineRejected (name.toList ++ ' ' :: '=' :: ' ' :: ((toString n).toList ++ tail)) := by
  obtain ⟨a, b, rs, heq, hup, hb, hrs⟩ := id hn
  have hc := constName_append name.toList (' ' :: '=' :: ' ' :: ((toString n).toList ++ tail)) hn (follows_blank_const _)
  have hnum : number ((toString n).toList ++ tail) = some (n, tail) := by
    apply number_repr n tail
    have hf := follows_commentTail (fun c => isDigit c || c == 'x') (by decide) (by decide) (by decide) tail h
    intro c hc'
    have := hf c hc'
    simp only [Bool.or_eq_false_iff, beq_eq_false_iff_ne, ne_eq] at this
    exact this
  have hmk : lit "make_const" ((toString n).toList ++ tail) = none := by
    rw [toString_toList]
    obtain ⟨c, cs, hd, hdig⟩ := head_toDigits n
    rw [hd]
    apply lit_none_of_head "make_const" 'm' _ rfl c _ (not_ws_of_digit hdig)
    simp only [beq_eq_false_iff_ne, ne_eq]; intro he; subst he; revert hdig; decide
  refine ⟨fun m => ?_, ?_, fun afterAttrs => ?_⟩
  · rw [heq]
    exact parseTopLine_none_of_head m a _ (not_ws_of_upper hup) (beq_false_of_upper _ (by decide) a hup)
      (beq_false_of_upper _ (by decide) a hup) (beq_false_of_upper _ (by decide) a hup) (beq_false_of_upper _ (by decide) a hup)
      (beq_false_of_upper _ (by decide) a hup) (beq_false_of_upper _ (by decide) a hup)
  · simp only [parseEnumLine, hc, bind, Option.bind, lit_skip_blank, lit_eq, number_skip_blank, hnum, atEol_commentTail tail h,
      Bool.false_eq_true, if_false]
  · cases afterAttrs
    · simp only [parseStructLine, Bool.false_eq_true, if_false, hc, constMemberRest, lit_skip_blank, lit_eq, hmk, bind,
        Option.bind]
    · have e1 : propertyName (name.toList ++ ' ' :: '=' :: ' ' :: ((toString n).toList ++ tail)) = none := propertyName_none_of_const _ _ hn
      have e2 : lit "__value__" (name.toList ++ ' ' :: '=' :: ' ' :: ((toString n).toList ++ tail)) = none := by
        rw [heq]; exact lit_none_of_upper "__value__" '_' _ rfl (by decide) a _ hup
      have e3 : lit "@" (name.toList ++ ' ' :: '=' :: ' ' :: ((toString n).toList ++ tail)) = none := by
        rw [heq]; exact lit_none_of_upper "@" '@' _ rfl (by decide) a _ hup
      simp only [parseStructLine, if_true, e1, e2, e3, bind, Option.bind]

/-! ### near misses of the condition operators -/

/-- a condition whose operator text is none of the four spellings of `CONDITIONAL_OPERATION` (`equals`, `not equals`, `in`,
    `not in`, each one terminal with exactly one blank inside): rejected in every context -/
theorem condition_operator_text_rejected (name : String) (hn : IsMemberName name) (t : FieldType) (ht : WFType t)
    (valueText : Chars) (v : Scalar) (hv : ∀ r, conditionValue (' ' :: (valueText ++ ' ' :: r)) = some (v, ' ' :: r))
    (opText : Chars) (hop : conditionalOperation opText = none) :
    LineRejected (name.toList ++ ' ' :: '=' :: ' ' :: (t.render.toList ++ ' ' :: 'i' :: 'f' :: ' ' :: (valueText ++ ' ' :: opText))) := by
  apply plain_member_tail_rejected name hn t ht _ (follows_blank_type _)
  have h1 : atEol (' ' :: 'i' :: 'f' :: ' ' :: (valueText ++ ' ' :: opText)) = false := by
    rw [atEol_skip_blank]; exact atEol_cons _ _ (by decide)
  simp only [optConditionalEol, h1, conditionalExpression, lit_skip_blank, lit_if, hv, conditionalOperation_skip_blank, hop, bind,
    Option.bind, Bool.false_eq_true, if_false]

/-- the near misses built from the legal spellings: the blank of `not in` / `not equals` removed, doubled or turned into a tab,
    another case, a truncated or doubled word; whatever follows -/
theorem conditionalOperation_near_misses (rest : Chars) :
    conditionalOperation ("notin".toList ++ rest) = none ∧ conditionalOperation ("notequals".toList ++ rest) = none ∧
    conditionalOperation ("not  in".toList ++ rest) = none ∧ conditionalOperation ("not  equals".toList ++ rest) = none ∧
    conditionalOperation ("not\tin".toList ++ rest) = none ∧ conditionalOperation ("not\tequals".toList ++ rest) = none ∧
    conditionalOperation ("Equals".toList ++ rest) = none ∧ conditionalOperation ("EQUALS".toList ++ rest) = none ∧
    conditionalOperation ("In".toList ++ rest) = none ∧ conditionalOperation ("IN".toList ++ rest) = none ∧
    conditionalOperation ("Not in".toList ++ rest) = none ∧ conditionalOperation ("NOT IN".toList ++ rest) = none ∧
    conditionalOperation ("equal ".toList ++ rest) = none ∧ conditionalOperation ("no in".toList ++ rest) = none ∧
    conditionalOperation ("notnot in".toList ++ rest) = none := by
  refine ⟨?_, ?_, ?_, ?_, ?_, ?_, ?_, ?_, ?_, ?_, ?_, ?_, ?_, ?_, ?_⟩ <;>
    simp [conditionalOperation, skipWs, isWs, litHere, List.isPrefixOf, List.dropWhile]

end SymbolVerif.Cats.Parser

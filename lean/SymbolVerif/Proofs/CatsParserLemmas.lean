/- Helper lemmas about the CATS parser model (core Lean only): a successful parse went through every line. -/
import SymbolVerif.Model.Cats.Parser
namespace SymbolVerif.Cats.Parser
open SymbolVerif.Cats SymbolVerif.Cats.Lexer

/-- the line parsers accept the text in one of their contexts -/
def LineAccepted (t : Chars) : Prop :=
  (∃ m, (parseTopLine m t).isSome) ∨ (parseEnumLine t).isSome ∨ (∃ b, (parseStructLine b t).isSome)

/-- no context accepts the text -/
def LineRejected (t : Chars) : Prop :=
  (∀ m, parseTopLine m t = none) ∧ parseEnumLine t = none ∧ (∀ b, parseStructLine b t = none)

theorem not_accepted_of_rejected {t : Chars} (h : LineRejected t) : ¬ LineAccepted t := by
  rintro (⟨m, hm⟩ | he | ⟨b, hb⟩)
  · simp [h.1 m] at hm
  · simp [h.2.1] at he
  · simp [h.2.2 b] at hb

/-! ### enum and struct bodies -/

theorem enumLoop_accepts : ∀ (ls : List LLine) (pending : Option Comment) (acc : List EnumValue) (vs : List EnumValue),
    enumLoop ls pending acc = .ok vs → ∀ l ∈ ls, l.kind = .code → (parseEnumLine l.text).isSome := by
  intro ls
  induction ls with
  | nil => intro _ _ _ _ l hl; cases hl
  | cons a rest ih =>
    intro pending acc vs h l hl hk
    unfold enumLoop at h
    cases hkind : a.kind with
    | comment =>
      simp only [hkind] at h
      rcases List.mem_cons.1 hl with rfl | hl
      · rw [hkind] at hk; cases hk
      · exact ih _ _ _ h l hl hk
    | code =>
      simp only [hkind] at h
      cases hp : parseEnumLine a.text with
      | none => simp [hp] at h
      | some v =>
        simp only [hp] at h
        rcases List.mem_cons.1 hl with rfl | hl
        · simp [hp]
        · exact ih _ _ _ h l hl hk

theorem structLoop_accepts : ∀ (ls : List LLine) (pending : Option Comment) (attrs : Option (List Attribute))
    (acc : List Member) (ms : List Member),
    structLoop ls pending attrs acc = .ok ms → ∀ l ∈ ls, l.kind = .code → ∃ b, (parseStructLine b l.text).isSome := by
  intro ls
  induction ls with
  | nil => intro _ _ _ _ _ l hl; cases hl
  | cons a rest ih =>
    intro pending attrs acc ms h l hl hk
    unfold structLoop at h
    cases hkind : a.kind with
    | comment =>
      simp only [hkind] at h
      cases attrs with
      | some _ => simp at h
      | none =>
        simp only at h
        rcases List.mem_cons.1 hl with rfl | hl
        · rw [hkind] at hk; cases hk
        · exact ih _ _ _ _ h l hl hk
    | code =>
      simp only [hkind] at h
      cases hp : parseStructLine attrs.isSome a.text with
      | none => simp [hp] at h
      | some sl =>
        simp only [hp] at h
        have hrest : ∀ l ∈ rest, l.kind = .code → ∃ b, (parseStructLine b l.text).isSome := by
          cases sl with
          | attr a' => exact fun l hl hk => ih _ _ _ _ h l hl hk
          | member m =>
            cases m with
            | field f => exact fun l hl hk => ih _ _ _ _ h l hl hk
            | inlinePlaceholder t c => exact fun l hl hk => ih _ _ _ _ h l hl hk
        rcases List.mem_cons.1 hl with rfl | hl
        · exact ⟨attrs.isSome, by simp [hp]⟩
        · exact hrest l hl hk

/-! ### the statement level -/

/-- the lines of a block list: heads and bodies -/
def blockLines (bs : List Block) : List LLine := bs.flatMap fun b => b.head :: b.body.getD []

theorem topLoop_accepts : ∀ (bs : List Block) (st : TopState) (acc : List Item) (items : List Item),
    topLoop bs st acc = .ok items → ∀ l ∈ blockLines bs, l.kind = .code → LineAccepted l.text := by
  intro bs
  induction bs with
  | nil => intro _ _ _ _ l hl; simp [blockLines] at hl
  | cons b rest ih =>
    intro st acc items h l hl hk
    have hrestMem : ∀ {st' acc'}, topLoop rest st' acc' = .ok items → l ∈ blockLines rest → LineAccepted l.text :=
      fun h' hm => ih _ _ _ h' l hm hk
    simp only [blockLines, List.flatMap_cons, List.mem_append, List.mem_cons] at hl
    unfold topLoop at h
    simp only at h
    cases hkind : b.head.kind with
    | comment =>
      simp only [hkind] at h
      -- a comment head: no code line in this block unless it has a body, which is an error
      cases hattrs : st.attrs with
      | some _ => simp [hattrs] at h
      | none =>
        cases hbody : b.body with
        | some _ => simp [hattrs, hbody] at h
        | none =>
          simp only [hattrs, hbody] at h
          rcases hl with (rfl | hl) | hl
          · rw [hkind] at hk; cases hk
          · simp [hbody] at hl
          · exact hrestMem h (by simpa [blockLines] using hl)
    | code =>
      simp only [hkind] at h
      cases hp : parseTopLine st.mode b.head.text with
      | none => simp [hp] at h
      | some line =>
        simp only [hp] at h
        have hhead : LineAccepted b.head.text := Or.inl ⟨st.mode, by simp [hp]⟩
        cases line with
        | «import» p =>
          cases hbody : b.body with
          | some _ => simp [hbody] at h
          | none =>
            simp only [hbody] at h
            rcases hl with (rfl | hl) | hl
            · exact hhead
            · simp [hbody] at hl
            · exact hrestMem h (by simpa [blockLines] using hl)
        | alias n t =>
          cases hbody : b.body with
          | some _ => simp [hbody] at h
          | none =>
            simp only [hbody] at h
            rcases hl with (rfl | hl) | hl
            · exact hhead
            · simp [hbody] at hl
            · exact hrestMem h (by simpa [blockLines] using hl)
        | enumAttr a =>
          cases hbody : b.body with
          | some _ => simp [hbody] at h
          | none =>
            simp only [hbody] at h
            rcases hl with (rfl | hl) | hl
            · exact hhead
            · simp [hbody] at hl
            · exact hrestMem h (by simpa [blockLines] using hl)
        | structAttr a =>
          cases hbody : b.body with
          | some _ => simp [hbody] at h
          | none =>
            simp only [hbody] at h
            rcases hl with (rfl | hl) | hl
            · exact hhead
            · simp [hbody] at hl
            · exact hrestMem h (by simpa [blockLines] using hl)
        | enumHeader n base =>
          simp only at h
          cases he : enumLoop (b.body.getD []) none [] with
          | error e => simp [he] at h
          | ok values =>
            simp only [he] at h
            rcases hl with (rfl | hl) | hl
            · exact hhead
            · exact Or.inr (Or.inl (enumLoop_accepts _ _ _ _ he l hl hk))
            · exact hrestMem h (by simpa [blockLines] using hl)
        | structHeader d n =>
          cases hbody : b.body with
          | none => simp [hbody] at h
          | some body =>
            simp only [hbody] at h
            cases hs : structLoop body none none [] with
            | error e => simp [hs] at h
            | ok members =>
              simp only [hs] at h
              rcases hl with (rfl | hl) | hl
              · exact hhead
              · simp only [hbody, Option.getD_some] at hl
                exact Or.inr (Or.inr (structLoop_accepts _ _ _ _ _ hs l hl hk))
              · exact hrestMem h (by simpa [blockLines] using hl)

/-! ### blocks and events keep every line -/

/-- lines held by a grouping state -/
def stateLines : GroupState → List LLine
  | .top acc => blockLines acc
  | .inBody h ls acc => h :: (ls ++ blockLines acc)

theorem mem_blockLines_reverse {bs : List Block} {l : LLine} : l ∈ blockLines bs.reverse ↔ l ∈ blockLines bs := by
  simp [blockLines, List.mem_flatMap]

theorem groupBlocks_keeps : ∀ (evs : List Ev) (st : GroupState) (bs : List Block),
    groupBlocks evs st = .ok bs → ∀ l, (.line l ∈ evs ∨ l ∈ stateLines st) → l ∈ blockLines bs := by
  intro evs
  induction evs with
  | nil =>
    intro st bs h l hl
    cases st with
    | top acc =>
      simp only [groupBlocks] at h
      cases h
      rcases hl with hl | hl
      · cases hl
      · exact mem_blockLines_reverse.2 hl
    | inBody hd ls acc => simp [groupBlocks] at h
  | cons e rest ih =>
    intro st bs h l hl
    cases st with
    | top acc =>
      cases e with
      | line a =>
        simp only [groupBlocks] at h
        apply ih _ _ h
        rcases hl with hl | hl
        · rcases List.mem_cons.1 hl with heq | hl
          · cases heq
            exact Or.inr (by simp [stateLines, blockLines])
          · exact Or.inl hl
        · exact Or.inr (by
            simp only [stateLines, blockLines, List.flatMap_cons] at hl ⊢
            exact List.mem_append_right _ hl)
      | indent n =>
        simp only [groupBlocks] at h
        cases acc with
        | nil => simp at h
        | cons b acc' =>
          obtain ⟨bh, bb⟩ := b
          cases bb with
          | some _ => simp at h
          | none =>
            simp only at h
            apply ih _ _ h
            rcases hl with hl | hl
            · rcases List.mem_cons.1 hl with heq | hl
              · cases heq
              · exact Or.inl hl
            · exact Or.inr (by
                simp only [stateLines, blockLines, List.flatMap_cons, Option.getD_none, List.cons_append, List.nil_append] at hl ⊢
                simpa using hl)
      | dedent n => simp [groupBlocks] at h
    | inBody hd ls acc =>
      cases e with
      | line a =>
        simp only [groupBlocks] at h
        apply ih _ _ h
        rcases hl with hl | hl
        · rcases List.mem_cons.1 hl with heq | hl
          · cases heq
            refine Or.inr ?_
            show l ∈ hd :: ((l :: ls) ++ blockLines acc)
            exact List.mem_cons_of_mem _ (List.mem_append_left _ List.mem_cons_self)
          · exact Or.inl hl
        · refine Or.inr ?_
          show l ∈ hd :: ((a :: ls) ++ blockLines acc)
          have hl' : l ∈ hd :: (ls ++ blockLines acc) := hl
          rcases List.mem_cons.1 hl' with h1 | h1
          · exact h1 ▸ List.mem_cons_self
          · rcases List.mem_append.1 h1 with h2 | h2
            · exact List.mem_cons_of_mem _ (List.mem_append_left _ (List.mem_cons_of_mem _ h2))
            · exact List.mem_cons_of_mem _ (List.mem_append_right _ h2)
      | indent n => simp [groupBlocks] at h
      | dedent n =>
        simp only [groupBlocks] at h
        apply ih _ _ h
        rcases hl with hl | hl
        · rcases List.mem_cons.1 hl with heq | hl
          · cases heq
          · exact Or.inl hl
        · refine Or.inr ?_
          show l ∈ blockLines (⟨hd, some ls.reverse⟩ :: acc)
          have hl' : l ∈ hd :: (ls ++ blockLines acc) := hl
          have hunfold : blockLines (⟨hd, some ls.reverse⟩ :: acc) = (hd :: ls.reverse) ++ blockLines acc := by
            simp [blockLines]
          rw [hunfold]
          rcases List.mem_cons.1 hl' with h1 | h1
          · exact h1 ▸ List.mem_append_left _ List.mem_cons_self
          · rcases List.mem_append.1 h1 with h2 | h2
            · exact List.mem_append_left _ (List.mem_cons_of_mem _ (List.mem_reverse.2 h2))
            · exact List.mem_append_right _ h2

theorem eventsFrom_keeps (eof : Nat) : ∀ (ls : List LLine) (stack : List Nat) (evs : List Ev),
    eventsFrom eof stack ls = .ok evs → ∀ l ∈ ls, .line l ∈ evs := by
  intro ls
  induction ls with
  | nil => intro _ _ _ l hl; cases hl
  | cons a rest ih =>
    intro stack evs h l hl
    unfold eventsFrom at h
    simp only at h
    split at h
    · cases h
    · rename_i stack' evs' _
      cases hr : eventsFrom eof stack' rest with
      | error e => simp [hr] at h
      | ok more =>
        simp only [hr] at h
        cases h
        rcases List.mem_cons.1 hl with rfl | hl
        · exact List.mem_cons_self
        · exact List.mem_cons_of_mem _ (List.mem_append_right _ (ih _ _ hr l hl))

/-- a successful parse went through every code line of the document: each one was accepted by the line parser of
    its context -/
theorem parseItems_accepts (doc : Chars) (items : List Item) (h : parseItems doc = .ok items)
    (ls : List LLine) (eof : Nat) (hls : logicalLines doc = .ok (ls, eof)) :
    ∀ l ∈ ls, l.kind = .code → LineAccepted l.text := by
  unfold parseItems at h
  simp only [hls, liftLex, bind, Except.bind] at h
  cases hev : events ls eof with
  | error e => simp [hev] at h
  | ok evs =>
    simp only [hev] at h
    cases hb : groupBlocks evs (.top []) with
    | error e => simp [hb] at h
    | ok blocks =>
      simp only [hb] at h
      cases ht : topLoop blocks {} [] with
      | error e => simp [ht] at h
      | ok items' =>
        intro l hl hk
        have h1 : Ev.line l ∈ evs := eventsFrom_keeps eof ls [] evs hev l hl
        have h2 : l ∈ blockLines blocks := groupBlocks_keeps evs (.top []) blocks hb l (Or.inl h1)
        exact topLoop_accepts blocks {} [] items' ht l h2 hk

end SymbolVerif.Cats.Parser

/-! ### every code line of the text becomes a logical line -/

namespace SymbolVerif.Cats.Lexer

/-- while a comment is open the newest logical line is that comment -/
def GroupInv (st : List LLine × Bool) : Prop :=
  st.2 = true → ∃ last rest, st.1 = last :: rest ∧ last.kind = .comment

theorem groupStep_inv (st : List LLine × Bool) (e : Nat × Chars) (hI : GroupInv st) : GroupInv (groupStep st e) := by
  obtain ⟨acc, inC⟩ := st
  obtain ⟨n, p⟩ := e
  unfold groupStep
  simp only
  split
  · -- comment line
    split
    · rename_i last rest
      obtain ⟨last', rest', heq, hkind⟩ := hI rfl
      simp only at heq
      cases heq
      intro _; exact ⟨_, _, rfl, hkind⟩
    · intro _; exact ⟨_, _, rfl, rfl⟩
  · split
    · intro h; cases h
    · intro h; cases h

theorem groupStep_keeps (st : List LLine × Bool) (e : Nat × Chars) (hI : GroupInv st) :
    ∀ l ∈ st.1, l.kind = .code → l ∈ (groupStep st e).1 := by
  obtain ⟨acc, inC⟩ := st
  obtain ⟨n, p⟩ := e
  intro l hl hk
  unfold groupStep
  simp only
  split
  · split
    · rename_i last rest
      obtain ⟨last', rest', heq, hkind⟩ := hI rfl
      simp only at heq
      cases heq
      rcases List.mem_cons.1 hl with rfl | hl
      · rw [hkind] at hk; cases hk
      · exact List.mem_cons_of_mem _ hl
    · exact List.mem_cons_of_mem _ hl
  · split
    · exact hl
    · exact List.mem_cons_of_mem _ hl

theorem groupStep_adds (st : List LLine × Bool) (n : Nat) (p : Chars)
    (hb : isBlankLine p = false) (hc : isCommentLine p = false) :
    ∃ l ∈ (groupStep st (n, p)).1, l.kind = .code ∧ l.text = stripCR (p.dropWhile isWs) ∧ l.lineNo = n := by
  obtain ⟨acc, inC⟩ := st
  unfold groupStep
  simp only [hc, hb, Bool.false_eq_true, if_false]
  exact ⟨_, List.mem_cons_self, rfl, rfl, rfl⟩

theorem foldl_groupStep_inv : ∀ (es : List (Nat × Chars)) (st : List LLine × Bool), GroupInv st →
    GroupInv (es.foldl groupStep st) := by
  intro es
  induction es with
  | nil => exact fun _ h => h
  | cons e rest ih => exact fun st hI => ih _ (groupStep_inv st e hI)

theorem foldl_groupStep_keeps : ∀ (es : List (Nat × Chars)) (st : List LLine × Bool), GroupInv st →
    ∀ l ∈ st.1, l.kind = .code → l ∈ (es.foldl groupStep st).1 := by
  intro es
  induction es with
  | nil => exact fun _ _ l hl _ => hl
  | cons e rest ih =>
    intro st hI l hl hk
    exact ih _ (groupStep_inv st e hI) l (groupStep_keeps st e hI l hl hk) hk

theorem foldl_groupStep_adds : ∀ (es : List (Nat × Chars)) (st : List LLine × Bool), GroupInv st →
    ∀ n p, (n, p) ∈ es → isBlankLine p = false → isCommentLine p = false →
      ∃ l ∈ (es.foldl groupStep st).1, l.kind = .code ∧ l.text = stripCR (p.dropWhile isWs) ∧ l.lineNo = n := by
  intro es
  induction es with
  | nil => intro _ _ _ _ h; cases h
  | cons e rest ih =>
    intro st hI n p hm hb hc
    rcases List.mem_cons.1 hm with heq | hm
    · subst heq
      obtain ⟨l, hl, hk, ht, hn⟩ := groupStep_adds st n p hb hc
      exact ⟨l, foldl_groupStep_keeps rest _ (groupStep_inv st _ hI) l hl hk, hk, ht, hn⟩
    · exact ih _ (groupStep_inv st e hI) n p hm hb hc

theorem mem_enumFrom {α : Type} : ∀ (l : List α) (k : Nat) (a : α), a ∈ l → ∃ n, (n, a) ∈ enumFrom k l := by
  intro l
  induction l with
  | nil => intro _ _ h; cases h
  | cons b rest ih =>
    intro k a h
    rcases List.mem_cons.1 h with rfl | h
    · exact ⟨k, List.mem_cons_self⟩
    · obtain ⟨n, hn⟩ := ih (k + 1) a h
      exact ⟨n, List.mem_cons_of_mem _ hn⟩

/-- every physical line that ends in a line end and is neither blank nor a comment line is the text of a code
    logical line -/
theorem logicalLines_code_line (doc : Chars) (ls : List LLine) (eof : Nat) (h : logicalLines doc = .ok (ls, eof))
    (p : Chars) (hp : p ∈ (physLines doc).dropLast) (hb : isBlankLine p = false) (hc : isCommentLine p = false) :
    ∃ l ∈ ls, l.kind = .code ∧ l.text = stripCR (p.dropWhile isWs) := by
  unfold logicalLines at h
  simp only at h
  split at h
  · cases h
  · split at h
    · cases h
    · split at h
      · cases h
      · rename_i first rest hbody _ _
        cases h
        rw [hbody] at hp ⊢
        obtain ⟨n, hn⟩ := mem_enumFrom _ 1 p hp
        obtain ⟨l, hl, hk, ht, _⟩ := foldl_groupStep_adds _ ([], false) (fun h => by cases h) n p hn hb hc
        exact ⟨l, List.mem_reverse.2 hl, hk, ht⟩

end SymbolVerif.Cats.Lexer

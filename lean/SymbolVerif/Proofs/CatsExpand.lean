/-
Helper lemmas for `Properties/C05.lean`: the sequential loops of `Model/Cats/Expand.lean` characterised against the final schema.
-/
import SymbolVerif.Model.Cats.Expand
namespace SymbolVerif.Cats

/-! ## `Except` plumbing -/

theorem bind_eq_ok {ε α β : Type} {x : Except ε α} {f : α → Except ε β} {b : β} :
    (x >>= f) = .ok b ↔ ∃ a, x = .ok a ∧ f a = .ok b := by
  cases x with
  | ok a => simp [bind, Except.bind]
  | error e => simp [bind, Except.bind]

theorem map_eq_ok {ε α β : Type} {x : Except ε α} {f : α → β} {b : β} :
    (f <$> x) = .ok b ↔ ∃ a, x = .ok a ∧ f a = b := by
  cases x with
  | ok a => simp [Functor.map, Except.map]
  | error e => simp [Functor.map, Except.map]

theorem pure_eq_ok {ε α : Type} {a b : α} : (pure a : Except ε α) = .ok b ↔ a = b := by
  simp [pure, Except.pure]

/-! ## names and lookup -/

def Schema.names (S : Schema) : List String := S.map Decl.name

@[simp] theorem Schema.names_append (A B : Schema) : Schema.names (A ++ B) = Schema.names A ++ Schema.names B := by
  simp [Schema.names]

@[simp] theorem Schema.names_cons (d : Decl) (B : Schema) : Schema.names (d :: B) = d.name :: Schema.names B := rfl

@[simp] theorem Schema.names_nil : Schema.names ([] : Schema) = [] := rfl

theorem lookup_append_of_not_mem (A B : Schema) (t : String) (h : t ∉ Schema.names B) :
    Schema.lookup (A ++ B) t = Schema.lookup A t := by
  unfold Schema.lookup
  rw [List.reverse_append, List.find?_append]
  have : List.find? (fun x => decide (x.name = t)) B.reverse = none := by
    rw [List.find?_eq_none]
    intro x hx hname
    apply h
    simp only [Schema.names, List.mem_map]
    exact ⟨x, List.mem_reverse.mp hx, by simpa using hname⟩
  rw [this]; rfl

theorem lookup_name {S : Schema} {t : String} {d : Decl} (h : Schema.lookup S t = some d) : d.name = t := by
  unfold Schema.lookup at h
  have := List.find?_some h
  simpa using this

theorem lookup_mem {S : Schema} {t : String} {d : Decl} (h : Schema.lookup S t = some d) : d ∈ S := by
  unfold Schema.lookup at h
  exact List.mem_reverse.mp (List.mem_of_find?_eq_some h)

/-- with distinct names, a declaration is what `lookup` returns for its name -/
theorem lookup_of_mem {S : Schema} (hnd : (Schema.names S).Nodup) {d : Decl} (hd : d ∈ S) : Schema.lookup S d.name = some d := by
  induction S with
  | nil => cases hd
  | cons a rest ih =>
    have hnd' : (Schema.names rest).Nodup := (List.nodup_cons.mp hnd).2
    have ha : a.name ∉ Schema.names rest := (List.nodup_cons.mp hnd).1
    rcases List.mem_cons.mp hd with rfl | hin
    · have : Schema.lookup ([d] ++ rest) d.name = Schema.lookup [d] d.name := lookup_append_of_not_mem [d] rest d.name ha
      simp only [List.singleton_append] at this
      rw [this]; simp [Schema.lookup]
    · have hne : a.name ≠ d.name := by
        intro h; apply ha; rw [h]; exact List.mem_map.mpr ⟨d, hin, rfl⟩
      unfold Schema.lookup
      rw [List.reverse_cons, List.find?_append]
      have := ih hnd' hin
      unfold Schema.lookup at this
      rw [this]; rfl

/-! ## inline references and declared-before-use -/

def Member.namedRef? : Member → Option String
  | .field f => if f.isNamedInline then (match f.fieldType with | .named t => some t | _ => none) else none
  | _ => none

def Member.unnamedRef? : Member → Option String
  | .inlinePlaceholder t _ => some t
  | _ => none

/-- the inline references (named and unnamed) of a member list -/
def inlineRefs (ms : List Member) : List String :=
  ms.flatMap fun m => m.namedRef?.toList ++ m.unnamedRef?.toList

/-- the unnamed inline references of a member list -/
def unnamedRefs (ms : List Member) : List String := ms.filterMap Member.unnamedRef?

/-- every reference (as collected by `refs`) of every struct names an earlier declaration (`seen` = names declared so far) -/
def dbuFrom (refs : List Member → List String) (seen : List String) : Schema → Bool
  | [] => true
  | d :: rest =>
    (match d with
     | .struct M => (refs M.fields).all (· ∈ seen)
     | _ => true) && dbuFrom refs (seen ++ [d.name]) rest

/-- every inline reference of every struct names an earlier declaration -/
abbrev declaredBeforeUseFrom (seen : List String) (S : Schema) : Bool := dbuFrom inlineRefs seen S

/-- declarations have distinct names and every inline reference points to an earlier declaration -/
def DeclaredBeforeUse (S : Schema) : Prop := (Schema.names S).Nodup ∧ declaredBeforeUseFrom [] S = true

instance (S : Schema) : Decidable (DeclaredBeforeUse S) := by unfold DeclaredBeforeUse; exact inferInstance

/-! ## pointwise relations between schemas -/

inductive Pw (R : Decl → Decl → Prop) : Schema → Schema → Prop
  | nil : Pw R [] []
  | cons {a b : Decl} {as bs : Schema} : R a b → Pw R as bs → Pw R (a :: as) (b :: bs)

theorem Pw.length_eq {R} {S F : Schema} (h : Pw R S F) : F.length = S.length := by
  induction h with
  | nil => rfl
  | cons _ _ ih => simp [ih]

theorem Pw.get {R} {S F : Schema} (h : Pw R S F) : ∀ (i : Nat) (d : Decl), S[i]? = some d → ∃ d', F[i]? = some d' ∧ R d d' := by
  induction h with
  | nil => intro i d hd; simp at hd
  | cons hab _ ih =>
    intro i d hd
    cases i with
    | zero => simp at hd; subst hd; exact ⟨_, by simp, hab⟩
    | succ j => simp at hd; simpa using ih j d hd

theorem Pw.names_eq {R} (hR : ∀ a b, R a b → b.name = a.name) {S F : Schema} (h : Pw R S F) :
    Schema.names F = Schema.names S := by
  induction h with
  | nil => rfl
  | cons hab _ ih => simp [hR _ _ hab, ih]

theorem Pw.mono {R R' : Decl → Decl → Prop} (hRR : ∀ a b, R a b → R' a b) {S F : Schema} (h : Pw R S F) : Pw R' S F := by
  induction h with
  | nil => exact .nil
  | cons hab _ ih => exact .cons (hRR _ _ hab) ih

theorem Pw.mem_right {R} {S F : Schema} (h : Pw R S F) {b : Decl} (hb : b ∈ F) : ∃ a, a ∈ S ∧ R a b := by
  induction h with
  | nil => cases hb
  | cons hab _ ih =>
    rcases List.mem_cons.mp hb with rfl | hin
    · exact ⟨_, List.mem_cons_self, hab⟩
    · obtain ⟨a, ha, hr⟩ := ih hin
      exact ⟨a, List.mem_cons_of_mem _ ha, hr⟩

theorem Pw.mem_left {R} {S F : Schema} (h : Pw R S F) {a : Decl} (ha : a ∈ S) : ∃ b, b ∈ F ∧ R a b := by
  induction h with
  | nil => cases ha
  | cons hab _ ih =>
    rcases List.mem_cons.mp ha with rfl | hin
    · exact ⟨_, List.mem_cons_self, hab⟩
    · obtain ⟨b, hb, hr⟩ := ih hin
      exact ⟨b, List.mem_cons_of_mem _ hb, hr⟩

/-! ## the generic loop -/

/-- graph of `processStructs`: `todo'` is what `todo` becomes when processing starts with `done` already processed -/
inductive StepRel (step : Schema → Struct → Except String Struct) : Schema → Schema → Schema → Prop
  | nil (done : Schema) : StepRel step done [] []
  | struct {done rest rest' : Schema} {M M' : Struct} :
      step (done ++ .struct M :: rest) M = .ok M' → StepRel step (done ++ [.struct M']) rest rest' →
      StepRel step done (.struct M :: rest) (.struct M' :: rest')
  | other {done rest rest' : Schema} {d : Decl} :
      d.struct? = none → StepRel step (done ++ [d]) rest rest' → StepRel step done (d :: rest) (d :: rest')

theorem processStructs_rel (step : Schema → Struct → Except String Struct) :
    ∀ (todo done F : Schema), processStructs step done todo = .ok F → ∃ todo', F = done ++ todo' ∧ StepRel step done todo todo' := by
  intro todo
  induction todo with
  | nil =>
    intro done F h
    simp [processStructs, pure, Except.pure] at h
    exact ⟨[], by simp [h], .nil done⟩
  | cons d rest ih =>
    intro done F h
    cases d with
    | struct M =>
      simp only [processStructs] at h
      obtain ⟨M', hM', hrest⟩ := bind_eq_ok.mp h
      obtain ⟨rest', hF, hrel⟩ := ih _ _ hrest
      exact ⟨.struct M' :: rest', by simp [hF], .struct hM' hrel⟩
    | alias a =>
      simp only [processStructs] at h
      obtain ⟨rest', hF, hrel⟩ := ih _ _ h
      exact ⟨.alias a :: rest', by simp [hF], .other rfl hrel⟩
    | enum e =>
      simp only [processStructs] at h
      obtain ⟨rest', hF, hrel⟩ := ih _ _ h
      exact ⟨.enum e :: rest', by simp [hF], .other rfl hrel⟩

/-- names are preserved when every step keeps the struct's name -/
theorem StepRel.names_eq {step} (hname : ∀ S M M', step S M = .ok M' → M'.name = M.name) {done todo todo' : Schema}
    (h : StepRel step done todo todo') : Schema.names todo' = Schema.names todo := by
  induction h with
  | nil => rfl
  | struct hs _ ih => simp [Decl.name, hname _ _ _ hs, ih]
  | other _ _ ih => simp [ih]

/-! ## named phase -/

theorem expandNamedStruct_name {S : Schema} {M M' : Struct} (h : expandNamedStruct S M = .ok M') : M'.name = M.name := by
  unfold expandNamedStruct at h
  obtain ⟨fs, _, hfs⟩ := bind_eq_ok.mp h
  have := pure_eq_ok.mp hfs
  subst this; rfl

theorem expandNamedMember_congr {S1 S2 : Schema} {m : Member}
    (h : ∀ t, m.namedRef? = some t → Schema.lookup S1 t = Schema.lookup S2 t) : expandNamedMember S1 m = expandNamedMember S2 m := by
  cases m with
  | inlinePlaceholder t c => rfl
  | field f =>
    unfold expandNamedMember
    by_cases hin : f.isNamedInline = true
    · simp only [hin, if_true]
      cases hft : f.fieldType with
      | named t =>
        have := h t (by simp [Member.namedRef?, hin, hft])
        simp only [this]
      | int t => rfl
      | array a => rfl
    · simp [hin]

theorem mem_inlineRefs_cons_left {m : Member} {ms : List Member} {t : String}
    (h : t ∈ m.namedRef?.toList ++ m.unnamedRef?.toList) : t ∈ inlineRefs (m :: ms) := by
  unfold inlineRefs; simp only [List.flatMap_cons, List.mem_append]; exact Or.inl (by simpa using h)

theorem mem_inlineRefs_cons_right {m : Member} {ms : List Member} {t : String} (h : t ∈ inlineRefs ms) : t ∈ inlineRefs (m :: ms) := by
  unfold inlineRefs at *; simp only [List.flatMap_cons, List.mem_append]; exact Or.inr h

theorem expandNamedMembers_congr {S1 S2 : Schema} {ms : List Member}
    (h : ∀ t ∈ inlineRefs ms, Schema.lookup S1 t = Schema.lookup S2 t) : expandNamedMembers S1 ms = expandNamedMembers S2 ms := by
  induction ms with
  | nil => rfl
  | cons m rest ih =>
    unfold expandNamedMembers
    rw [expandNamedMember_congr (S1 := S1) (S2 := S2) (m := m), ih]
    · intro t ht; exact h t (mem_inlineRefs_cons_right ht)
    · intro t ht; exact h t (mem_inlineRefs_cons_left (by simp [ht]))

theorem expandNamedStruct_congr {S1 S2 : Schema} {M : Struct}
    (h : ∀ t ∈ inlineRefs M.fields, Schema.lookup S1 t = Schema.lookup S2 t) : expandNamedStruct S1 M = expandNamedStruct S2 M := by
  unfold expandNamedStruct; rw [expandNamedMembers_congr h]

/-- the relation between a declaration before and after a phase whose per-struct step is `step`, read against the final schema -/
def FinalRel (step : Schema → Struct → Except String Struct) (F : Schema) (d d' : Decl) : Prop :=
  match d with
  | .struct M => ∃ M', d' = .struct M' ∧ step F M = .ok M'
  | _ => d' = d

theorem FinalRel.name_eq {step} (hname : ∀ S M M', step S M = .ok M' → M'.name = M.name) {F : Schema} {d d' : Decl}
    (h : FinalRel step F d d') : d'.name = d.name := by
  cases d with
  | struct M => obtain ⟨M', rfl, hs⟩ := h; exact hname _ _ _ hs
  | alias a => simp [FinalRel] at h; rw [h]
  | enum e => simp [FinalRel] at h; rw [h]

theorem lookup_stable {done X Y : Schema} {t : String} (ht : t ∈ Schema.names done)
    (hX : (Schema.names (done ++ X)).Nodup) (hXY : Schema.names Y = Schema.names X) :
    Schema.lookup (done ++ X) t = Schema.lookup (done ++ Y) t := by
  have hdis := (List.nodup_append.mp (by simpa using hX)).2.2
  have hnX : t ∉ Schema.names X := fun hin => hdis t ht t hin rfl
  rw [lookup_append_of_not_mem _ _ _ hnX, lookup_append_of_not_mem _ _ _ (by rw [hXY]; exact hnX)]

theorem named_rel_final {done todo todo' : Schema} (h : StepRel expandNamedStruct done todo todo')
    (hnd : (Schema.names (done ++ todo)).Nodup) (hdbu : declaredBeforeUseFrom (Schema.names done) todo = true) :
    Pw (FinalRel expandNamedStruct (done ++ todo')) todo todo' := by
  induction h with
  | nil => exact .nil
  | @struct done rest rest' M M' hs hrel ih =>
    have hname : M'.name = M.name := expandNamedStruct_name hs
    have hnames : Schema.names rest' = Schema.names rest := StepRel.names_eq (fun _ _ _ h => expandNamedStruct_name h) hrel
    simp only [declaredBeforeUseFrom, dbuFrom, Bool.and_eq_true, List.all_eq_true, decide_eq_true_eq] at hdbu
    have hnd' : (Schema.names ((done ++ [Decl.struct M']) ++ rest)).Nodup := by
      simpa [Decl.name, hname] using hnd
    have hdbu' : declaredBeforeUseFrom (Schema.names (done ++ [Decl.struct M'])) rest = true := by
      simpa [Decl.name, hname] using hdbu.2
    have ih' := ih hnd' hdbu'
    have hfinal : (done ++ [Decl.struct M']) ++ rest' = done ++ Decl.struct M' :: rest' := by simp
    rw [hfinal] at ih'
    refine .cons ⟨M', rfl, ?_⟩ ih'
    rw [← hs]
    apply expandNamedStruct_congr
    intro t ht
    exact (lookup_stable (hdbu.1 t ht) hnd (by simp [Decl.name, hname, hnames])).symm
  | @other done rest rest' d hd hrel ih =>
    have hnames : Schema.names rest' = Schema.names rest := StepRel.names_eq (fun _ _ _ h => expandNamedStruct_name h) hrel
    simp only [declaredBeforeUseFrom, dbuFrom, Bool.and_eq_true] at hdbu
    have hnd' : (Schema.names ((done ++ [d]) ++ rest)).Nodup := by simpa using hnd
    have hdbu' : declaredBeforeUseFrom (Schema.names (done ++ [d])) rest = true := by simpa using hdbu.2
    have ih' := ih hnd' hdbu'
    have hfinal : (done ++ [d]) ++ rest' = done ++ d :: rest' := by simp
    rw [hfinal] at ih'
    refine .cons ?_ ih'
    cases d with
    | struct M => simp [Decl.struct?] at hd
    | alias a => rfl
    | enum e => rfl

/-- named phase against the final schema: every struct is `expandNamedStruct F` of its declared self -/
theorem expandNamed_final {S F : Schema} (hd : DeclaredBeforeUse S) (h : expandNamed S = .ok F) :
    Pw (FinalRel expandNamedStruct F) S F := by
  obtain ⟨todo', hF, hrel⟩ := processStructs_rel _ _ _ _ h
  have := named_rel_final hrel (by simpa using hd.1) (by simpa using hd.2)
  simp only [List.nil_append] at hF this
  rw [hF]; exact this

/-! ## unnamed phase -/

theorem mem_unnamedRefs_cons_left {m : Member} {ms : List Member} {t : String} (h : m.unnamedRef? = some t) : t ∈ unnamedRefs (m :: ms) := by
  unfold unnamedRefs; simp [List.filterMap_cons, h]

theorem mem_unnamedRefs_cons_right {m : Member} {ms : List Member} {t : String} (h : t ∈ unnamedRefs ms) : t ∈ unnamedRefs (m :: ms) := by
  unfold unnamedRefs at *
  rw [List.filterMap_cons]
  cases m.unnamedRef? with
  | none => exact h
  | some x => exact List.mem_cons_of_mem _ h

theorem refStruct_congr {S1 S2 : Schema} {t : String} (h : Schema.lookup S1 t = Schema.lookup S2 t) : refStruct S1 t = refStruct S2 t := by
  unfold refStruct; rw [h]

theorem refStruct_ok {S : Schema} {t : String} {R : Struct} (h : refStruct S t = .ok R) : Schema.lookup S t = some (.struct R) := by
  unfold refStruct at h
  split at h
  · rename_i R' heq; simp [pure, Except.pure] at h; rw [heq, h]
  · simp [throw, throwThe, MonadExceptOf.throw] at h
  · simp [throw, throwThe, MonadExceptOf.throw] at h

theorem spliceFields_congr {S1 S2 : Schema} {ms : List Member}
    (h : ∀ t ∈ unnamedRefs ms, Schema.lookup S1 t = Schema.lookup S2 t) : spliceFields S1 ms = spliceFields S2 ms := by
  induction ms with
  | nil => rfl
  | cons m rest ih =>
    have ih' := ih (fun t ht => h t (mem_unnamedRefs_cons_right ht))
    cases m with
    | field f => simp only [spliceFields, ih']
    | inlinePlaceholder t c =>
      have := h t (mem_unnamedRefs_cons_left rfl)
      simp only [spliceFields, ih', refStruct_congr this]

theorem spliceFactory_congr {S1 S2 : Schema} {ms : List Member}
    (h : ∀ t ∈ unnamedRefs ms, Schema.lookup S1 t = Schema.lookup S2 t) (cur : Option String) :
    spliceFactory S1 cur ms = spliceFactory S2 cur ms := by
  induction ms generalizing cur with
  | nil => rfl
  | cons m rest ih =>
    have ih' := fun c => ih (fun t ht => h t (mem_unnamedRefs_cons_right ht)) c
    cases m with
    | field f => simp only [spliceFactory, ih']
    | inlinePlaceholder t c =>
      have := h t (mem_unnamedRefs_cons_left rfl)
      simp only [spliceFactory, this, ih']

theorem spliceAttrs_congr {S1 S2 : Schema} {ms : List Member}
    (h : ∀ t ∈ unnamedRefs ms, Schema.lookup S1 t = Schema.lookup S2 t) (cur : Option (List Attribute)) :
    spliceAttrs S1 cur ms = spliceAttrs S2 cur ms := by
  induction ms generalizing cur with
  | nil => rfl
  | cons m rest ih =>
    have ih' := fun c => ih (fun t ht => h t (mem_unnamedRefs_cons_right ht)) c
    cases m with
    | field f => simp only [spliceAttrs, ih']
    | inlinePlaceholder t c =>
      have := h t (mem_unnamedRefs_cons_left rfl)
      simp only [spliceAttrs, this, ih']

theorem spliceOnce_congr {S1 S2 : Schema} {M : Struct}
    (h : ∀ t ∈ unnamedRefs M.fields, Schema.lookup S1 t = Schema.lookup S2 t) : spliceOnce S1 M = spliceOnce S2 M := by
  unfold spliceOnce
  rw [spliceFields_congr h, spliceFactory_congr h, spliceAttrs_congr h]

theorem spliceOnce_name {S : Schema} {M M' : Struct} (h : spliceOnce S M = .ok M') : M'.name = M.name := by
  unfold spliceOnce at h
  obtain ⟨fs, _, hfs⟩ := bind_eq_ok.mp h
  have := pure_eq_ok.mp hfs
  subst this; rfl

def noPlaceholders (ms : List Member) : Bool := !ms.any Member.isPlaceholder

theorem noPlaceholders_append (a b : List Member) : noPlaceholders (a ++ b) = (noPlaceholders a && noPlaceholders b) := by
  simp [noPlaceholders, List.any_append, Bool.not_or]

/-- splicing members whose referenced structs are all placeholder-free leaves no placeholder -/
theorem spliceFields_noPlaceholders {S : Schema} {ms fs : List Member}
    (href : ∀ t R, t ∈ unnamedRefs ms → Schema.lookup S t = some (.struct R) → noPlaceholders R.fields = true)
    (h : spliceFields S ms = .ok fs) : noPlaceholders fs = true := by
  induction ms generalizing fs with
  | nil => simp [spliceFields, pure, Except.pure] at h; subst h; rfl
  | cons m rest ih =>
    have href' : ∀ t R, t ∈ unnamedRefs rest → Schema.lookup S t = some (.struct R) → noPlaceholders R.fields = true :=
      fun t R ht => href t R (mem_unnamedRefs_cons_right ht)
    cases m with
    | field f =>
      simp only [spliceFields] at h
      obtain ⟨rest', hrest, hfs⟩ := bind_eq_ok.mp h
      have := pure_eq_ok.mp hfs
      subst this
      have := ih href' hrest
      simpa [noPlaceholders, Member.isPlaceholder] using this
    | inlinePlaceholder t c =>
      simp only [spliceFields] at h
      obtain ⟨R, hR, h2⟩ := bind_eq_ok.mp h
      obtain ⟨rest', hrest, hfs⟩ := bind_eq_ok.mp h2
      have := pure_eq_ok.mp hfs
      subst this
      rw [noPlaceholders_append, ih href' hrest,
        href t R (mem_unnamedRefs_cons_left rfl) (refStruct_ok hR)]
      rfl

/-- a member list without placeholders is left alone by one pass -/
theorem spliceFields_of_noPlaceholders {S : Schema} {ms : List Member} (h : noPlaceholders ms = true) : spliceFields S ms = .ok ms := by
  induction ms with
  | nil => rfl
  | cons m rest ih =>
    cases m with
    | field f =>
      have : noPlaceholders rest = true := by simpa [noPlaceholders, Member.isPlaceholder] using h
      simp [spliceFields, ih this, bind, Except.bind, pure, Except.pure]
    | inlinePlaceholder t c => simp [noPlaceholders, Member.isPlaceholder] at h

theorem spliceFactory_of_noPlaceholders {S : Schema} {ms : List Member} (h : noPlaceholders ms = true) (cur : Option String) :
    spliceFactory S cur ms = cur := by
  induction ms with
  | nil => rfl
  | cons m rest ih =>
    cases m with
    | field f =>
      have : noPlaceholders rest = true := by simpa [noPlaceholders, Member.isPlaceholder] using h
      simp [spliceFactory, ih this]
    | inlinePlaceholder t c => simp [noPlaceholders, Member.isPlaceholder] at h

theorem spliceAttrs_of_noPlaceholders {S : Schema} {ms : List Member} (h : noPlaceholders ms = true) (cur : Option (List Attribute)) :
    spliceAttrs S cur ms = cur := by
  induction ms with
  | nil => rfl
  | cons m rest ih =>
    cases m with
    | field f =>
      have : noPlaceholders rest = true := by simpa [noPlaceholders, Member.isPlaceholder] using h
      simp [spliceAttrs, ih this]
    | inlinePlaceholder t c => simp [noPlaceholders, Member.isPlaceholder] at h

theorem spliceOnce_of_noPlaceholders {S : Schema} {M : Struct} (h : noPlaceholders M.fields = true) : spliceOnce S M = .ok M := by
  unfold spliceOnce
  simp [spliceFields_of_noPlaceholders h, spliceFactory_of_noPlaceholders h, spliceAttrs_of_noPlaceholders h, bind, Except.bind, pure, Except.pure]

theorem hasPlaceholder_eq (M : Struct) : M.hasPlaceholder = !noPlaceholders M.fields := by
  simp [Struct.hasPlaceholder, noPlaceholders]

theorem expandUnnamedStruct_of_noPlaceholders {S : Schema} {M : Struct} (h : noPlaceholders M.fields = true) (n : Nat) :
    expandUnnamedStruct S n M = .ok M := by
  cases n <;> simp [expandUnnamedStruct, hasPlaceholder_eq, h, pure, Except.pure]

/-- when every referenced struct is already free of placeholders the `while` loop is a single pass -/
theorem expandUnnamedStruct_single_pass {S : Schema} {M M' : Struct} {n : Nat} (hn : 0 < n)
    (href : ∀ t R, t ∈ unnamedRefs M.fields → Schema.lookup S t = some (.struct R) → noPlaceholders R.fields = true)
    (h : expandUnnamedStruct S n M = .ok M') : spliceOnce S M = .ok M' ∧ noPlaceholders M'.fields = true := by
  by_cases hph : noPlaceholders M.fields = true
  · rw [expandUnnamedStruct_of_noPlaceholders hph] at h
    cases h
    exact ⟨spliceOnce_of_noPlaceholders hph, hph⟩
  · obtain ⟨k, rfl⟩ : ∃ k, n = k + 1 := ⟨n - 1, by omega⟩
    have hph' : noPlaceholders M.fields = false := by simpa using hph
    simp only [expandUnnamedStruct, hasPlaceholder_eq, hph', Bool.not_false, if_true] at h
    obtain ⟨M1, hM1, hrest⟩ := bind_eq_ok.mp h
    have hno : noPlaceholders M1.fields = true := by
      unfold spliceOnce at hM1
      obtain ⟨fs, hfs, hpure⟩ := bind_eq_ok.mp hM1
      have := pure_eq_ok.mp hpure
      subst this
      exact spliceFields_noPlaceholders href hfs
    rw [expandUnnamedStruct_of_noPlaceholders hno] at hrest
    cases hrest
    exact ⟨hM1, hno⟩

/-- per-struct step of the unnamed phase as seen against the final schema: one pass, and no placeholder is left -/
def unnamedFinalStep (F : Schema) (M : Struct) : Except String Struct :=
  match spliceOnce F M with
  | .ok M' => if noPlaceholders M'.fields then .ok M' else .error "placeholder left"
  | .error e => .error e

theorem unnamedFinalStep_ok {F : Schema} {M M' : Struct} :
    unnamedFinalStep F M = .ok M' ↔ spliceOnce F M = .ok M' ∧ noPlaceholders M'.fields = true := by
  unfold unnamedFinalStep
  cases h : spliceOnce F M with
  | error e => simp
  | ok M1 =>
    by_cases hno : noPlaceholders M1.fields = true
    · simp only [hno, if_true, Except.ok.injEq]
      constructor
      · intro h1; subst h1; exact ⟨rfl, hno⟩
      · intro h1; exact h1.1
    · simp only [hno, Except.ok.injEq]
      constructor
      · intro h1; cases h1
      · intro h1; rw [h1.1] at hno; exact absurd h1.2 hno

/-- all structs of a schema are free of placeholders -/
def allFlat (S : Schema) : Prop := ∀ M, Decl.struct M ∈ S → noPlaceholders M.fields = true

theorem unnamed_rel_final {n : Nat} (hn : 0 < n) {done todo todo' : Schema}
    (h : StepRel (fun cur M => expandUnnamedStruct cur n M) done todo todo')
    (hnd : (Schema.names (done ++ todo)).Nodup) (hdbu : dbuFrom unnamedRefs (Schema.names done) todo = true)
    (hflat : allFlat done) :
    Pw (FinalRel unnamedFinalStep (done ++ todo')) todo todo' := by
  have hstepname : ∀ (S : Schema) (M M' : Struct), expandUnnamedStruct S n M = .ok M' → M'.name = M.name := by
    intro S M M' hs
    -- the name never changes: by induction on the fuel
    have : ∀ (k : Nat) (M M' : Struct), expandUnnamedStruct S k M = .ok M' → M'.name = M.name := by
      intro k
      induction k with
      | zero =>
        intro M M' hs
        simp only [expandUnnamedStruct] at hs
        split at hs
        · simp [throw, throwThe, MonadExceptOf.throw] at hs
        · simp [pure, Except.pure] at hs; rw [hs]
      | succ k ih =>
        intro M M' hs
        simp only [expandUnnamedStruct] at hs
        split at hs
        · obtain ⟨M1, hM1, hrest⟩ := bind_eq_ok.mp hs
          rw [ih _ _ hrest, spliceOnce_name hM1]
        · simp [pure, Except.pure] at hs; rw [hs]
    exact this n M M' hs
  induction h with
  | nil => exact .nil
  | @struct done rest rest' M M' hs hrel ih =>
    have hname : M'.name = M.name := hstepname _ _ _ hs
    have hnames : Schema.names rest' = Schema.names rest := StepRel.names_eq hstepname hrel
    simp only [declaredBeforeUseFrom, dbuFrom, Bool.and_eq_true, List.all_eq_true, decide_eq_true_eq] at hdbu
    -- everything M refers to lives in `done` and is flat
    have href : ∀ t R, t ∈ unnamedRefs M.fields → Schema.lookup (done ++ Decl.struct M :: rest) t = some (.struct R) →
        noPlaceholders R.fields = true := by
      intro t R ht hl
      have hdis := (List.nodup_append.mp (by simpa using hnd)).2.2
      have hnX : t ∉ Schema.names (Decl.struct M :: rest) := fun hin => hdis t (hdbu.1 t ht) t hin rfl
      rw [lookup_append_of_not_mem _ _ _ hnX] at hl
      exact hflat R (lookup_mem hl)
    obtain ⟨hsplice, hno⟩ := expandUnnamedStruct_single_pass hn href hs
    have hnd' : (Schema.names ((done ++ [Decl.struct M']) ++ rest)).Nodup := by
      simpa [Decl.name, hname] using hnd
    have hdbu' : dbuFrom unnamedRefs (Schema.names (done ++ [Decl.struct M'])) rest = true := by
      simpa [Decl.name, hname] using hdbu.2
    have hflat' : allFlat (done ++ [Decl.struct M']) := by
      intro X hX
      rcases List.mem_append.mp hX with hX | hX
      · exact hflat X hX
      · simp at hX; subst hX; exact hno
    have ih' := ih hnd' hdbu' hflat'
    have hfinal : (done ++ [Decl.struct M']) ++ rest' = done ++ Decl.struct M' :: rest' := by simp
    rw [hfinal] at ih'
    refine .cons ⟨M', rfl, ?_⟩ ih'
    rw [unnamedFinalStep_ok]
    refine ⟨?_, hno⟩
    rw [← hsplice]
    apply spliceOnce_congr
    intro t ht
    exact (lookup_stable (hdbu.1 t ht) hnd (by simp [Decl.name, hname, hnames])).symm
  | @other done rest rest' d hd hrel ih =>
    simp only [declaredBeforeUseFrom, dbuFrom, Bool.and_eq_true] at hdbu
    have hnd' : (Schema.names ((done ++ [d]) ++ rest)).Nodup := by simpa using hnd
    have hdbu' : dbuFrom unnamedRefs (Schema.names (done ++ [d])) rest = true := by simpa using hdbu.2
    have hflat' : allFlat (done ++ [d]) := by
      intro X hX
      rcases List.mem_append.mp hX with hX | hX
      · exact hflat X hX
      · simp at hX; subst hX; simp [Decl.struct?] at hd
    have ih' := ih hnd' hdbu' hflat'
    have hfinal : (done ++ [d]) ++ rest' = done ++ d :: rest' := by simp
    rw [hfinal] at ih'
    refine .cons ?_ ih'
    cases d with
    | struct M => simp [Decl.struct?] at hd
    | alias a => rfl
    | enum e => rfl

/-- unnamed phase against the final schema: every struct is one pass of `spliceOnce F` over its (named-expanded) self
    and is left without placeholders -/
theorem expandUnnamed_final {S F : Schema} (hd : (Schema.names S).Nodup ∧ dbuFrom unnamedRefs [] S = true) (h : expandUnnamed S = .ok F) :
    Pw (FinalRel unnamedFinalStep F) S F := by
  cases S with
  | nil =>
    simp [expandUnnamed, processStructs, pure, Except.pure] at h
    subst h; exact .nil
  | cons d rest =>
    obtain ⟨todo', hF, hrel⟩ := processStructs_rel _ _ _ _ h
    have := unnamed_rel_final (n := (d :: rest).length) (by simp) hrel (by simpa using hd.1) (by simpa using hd.2)
      (by intro M hM; cases hM)
    simp only [List.nil_append] at hF this
    rw [hF]; exact this

/-! ## forgetting the intermediate state: each struct is the result of its step in *some* state -/

def SomeStateRel (step : Schema → Struct → Except String Struct) (d d' : Decl) : Prop :=
  match d with
  | .struct M => ∃ M' cur, d' = .struct M' ∧ step cur M = .ok M'
  | _ => d' = d

theorem StepRel.someState {step} {done todo todo' : Schema} (h : StepRel step done todo todo') : Pw (SomeStateRel step) todo todo' := by
  induction h with
  | nil => exact .nil
  | struct hs _ ih => exact .cons ⟨_, _, rfl, hs⟩ ih
  | @other done rest rest' d hd _ ih =>
    refine .cons ?_ ih
    cases d with
    | struct M => simp [Decl.struct?] at hd
    | alias a => rfl
    | enum e => rfl

theorem processStructs_someState {step} {S F : Schema} (h : processStructs step [] S = .ok F) : Pw (SomeStateRel step) S F := by
  obtain ⟨todo', hF, hrel⟩ := processStructs_rel _ _ _ _ h
  simp only [List.nil_append] at hF
  rw [hF]; exact hrel.someState

/-! ## what a named expansion produces -/

def noNamedInlines (ms : List Member) : Bool := ms.all fun m => m.namedRef?.isNone && (match m with | .field f => !f.isNamedInline | _ => true)

/-- the copy a site makes of one template member -/
def copyFor (site g : StructField) : StructField :=
  { g.copy site.name with
    comment := siteComment (match site.comment with | some c => buildCommentMap c | none => []) g.name }

theorem applyInlineTemplate_ok {T : Struct} {site : StructField} {ms : List Member} (h : applyInlineTemplate T site = .ok ms) :
    T.isInline = true ∧ noPlaceholders T.fields = true ∧ ms = T.structFields.map fun g => .field (copyFor site g) := by
  unfold applyInlineTemplate at h
  by_cases hin : T.isInline = true
  · by_cases hph : T.fields.any Member.isPlaceholder = true
    · simp [hin, hph, throw, throwThe, MonadExceptOf.throw] at h
    · simp only [hin, hph, Bool.not_true] at h
      have h' := pure_eq_ok.mp (by simpa using h)
      refine ⟨hin, by simp [noPlaceholders, hph], ?_⟩
      rw [← h']; rfl
  · simp [hin, throw, throwThe, MonadExceptOf.throw] at h

theorem noPlaceholders_map_field {α : Type} (l : List α) (f : α → StructField) : noPlaceholders (l.map fun g => Member.field (f g)) = true := by
  induction l with
  | nil => rfl
  | cons a rest ih => simpa [noPlaceholders, Member.isPlaceholder] using ih

theorem unnamedRefs_of_noPlaceholders {ms : List Member} (h : noPlaceholders ms = true) : unnamedRefs ms = [] := by
  induction ms with
  | nil => rfl
  | cons m rest ih =>
    cases m with
    | field f =>
      have : noPlaceholders rest = true := by simpa [noPlaceholders, Member.isPlaceholder] using h
      simp [unnamedRefs, Member.unnamedRef?] at *
      exact ih this
    | inlinePlaceholder t c => simp [noPlaceholders, Member.isPlaceholder] at h

theorem unnamedRefs_append (a b : List Member) : unnamedRefs (a ++ b) = unnamedRefs a ++ unnamedRefs b := by
  simp [unnamedRefs]

theorem expandNamedMember_unnamedRefs {S : Schema} {m : Member} {out : List Member} (h : expandNamedMember S m = .ok out) :
    unnamedRefs out = unnamedRefs [m] := by
  cases m with
  | inlinePlaceholder t c => simp [expandNamedMember, pure, Except.pure] at h; subst h; rfl
  | field f =>
    unfold expandNamedMember at h
    by_cases hin : f.isNamedInline = true
    · simp only [hin, if_true] at h
      split at h
      · split at h
        · obtain ⟨_, hno, hout⟩ := applyInlineTemplate_ok h
          rw [hout, unnamedRefs_of_noPlaceholders (noPlaceholders_map_field _ _)]
          simp [unnamedRefs, Member.unnamedRef?]
        · simp [throw, throwThe, MonadExceptOf.throw] at h
        · simp [throw, throwThe, MonadExceptOf.throw] at h
      · simp [throw, throwThe, MonadExceptOf.throw] at h
    · simp [hin, pure, Except.pure] at h; subst h; rfl

theorem expandNamedMembers_unnamedRefs {S : Schema} {ms out : List Member} (h : expandNamedMembers S ms = .ok out) :
    unnamedRefs out = unnamedRefs ms := by
  induction ms generalizing out with
  | nil => simp [expandNamedMembers, pure, Except.pure] at h; subst h; rfl
  | cons m rest ih =>
    unfold expandNamedMembers at h
    obtain ⟨a, ha, h2⟩ := bind_eq_ok.mp h
    obtain ⟨b, hb, h3⟩ := bind_eq_ok.mp h2
    have := pure_eq_ok.mp h3
    subst this
    rw [unnamedRefs_append, expandNamedMember_unnamedRefs ha, ih hb]
    simp [unnamedRefs, List.filterMap_cons]
    cases m.unnamedRef? <;> rfl

/-! ## transferring declared-before-use along a phase -/

theorem dbuFrom_transfer {refs : List Member → List String} {R : Decl → Decl → Prop}
    (hR : ∀ a b, R a b → b.name = a.name ∧ ∀ M', b = .struct M' → ∃ M, a = .struct M ∧ refs M'.fields = refs M.fields)
    {S S' : Schema} (h : Pw R S S') : ∀ seen, dbuFrom refs seen S = true → dbuFrom refs seen S' = true := by
  induction h with
  | nil => intro _ _; rfl
  | @cons a b as bs hab _ ih =>
    intro seen hd
    simp only [dbuFrom, Bool.and_eq_true] at hd ⊢
    obtain ⟨hname, hstruct⟩ := hR a b hab
    refine ⟨?_, by rw [hname]; exact ih _ hd.2⟩
    cases b with
    | struct M' =>
      obtain ⟨M, rfl, hrefs⟩ := hstruct M' rfl
      simp only [hrefs]; exact hd.1
    | alias x => rfl
    | enum x => rfl

theorem unnamedRefs_subset_inlineRefs {ms : List Member} {t : String} (h : t ∈ unnamedRefs ms) : t ∈ inlineRefs ms := by
  induction ms with
  | nil => simp [unnamedRefs] at h
  | cons m rest ih =>
    unfold unnamedRefs at h
    rw [List.filterMap_cons] at h
    cases hm : m.unnamedRef? with
    | none => rw [hm] at h; exact mem_inlineRefs_cons_right (ih h)
    | some x =>
      rw [hm] at h
      rcases List.mem_cons.mp h with rfl | h'
      · exact mem_inlineRefs_cons_left (by simp [hm])
      · exact mem_inlineRefs_cons_right (ih h')

theorem dbuFrom_unnamed_of_inline : ∀ (S : Schema) (seen : List String), dbuFrom inlineRefs seen S = true → dbuFrom unnamedRefs seen S = true := by
  intro S
  induction S with
  | nil => intro _ _; rfl
  | cons d rest ih =>
    intro seen h
    simp only [dbuFrom, Bool.and_eq_true] at h ⊢
    refine ⟨?_, ih _ h.2⟩
    cases d with
    | struct M =>
      simp only [List.all_eq_true, decide_eq_true_eq] at h ⊢
      intro t ht; exact h.1 t (unnamedRefs_subset_inlineRefs ht)
    | alias x => rfl
    | enum x => rfl

/-- after the named phase the schema is still in declared-before-use order as far as unnamed inlines go -/
theorem named_phase_keeps_order {S0 S1 : Schema} (h0 : DeclaredBeforeUse S0) (hN : expandNamed S0 = .ok S1) :
    (Schema.names S1).Nodup ∧ dbuFrom unnamedRefs [] S1 = true := by
  have hpw := expandNamed_final h0 hN
  have hnames : Schema.names S1 = Schema.names S0 := hpw.names_eq (fun a b h => FinalRel.name_eq (fun _ _ _ h => expandNamedStruct_name h) h)
  refine ⟨by rw [hnames]; exact h0.1, ?_⟩
  refine dbuFrom_transfer (R := FinalRel expandNamedStruct S1) ?_ hpw [] (dbuFrom_unnamed_of_inline _ _ h0.2)
  intro a b hab
  refine ⟨FinalRel.name_eq (fun _ _ _ h => expandNamedStruct_name h) hab, ?_⟩
  intro M' hb
  cases a with
  | struct M =>
    obtain ⟨M'', hb', hs⟩ := hab
    rw [hb] at hb'; cases hb'
    refine ⟨M, rfl, ?_⟩
    unfold expandNamedStruct at hs
    obtain ⟨fs, hfs, hpure⟩ := bind_eq_ok.mp hs
    have := pure_eq_ok.mp hpure
    subst this
    exact expandNamedMembers_unnamedRefs hfs
  | alias x => simp [FinalRel] at hab; rw [hab] at hb; cases hb
  | enum x => simp [FinalRel] at hab; rw [hab] at hb; cases hb

/-- a placeholder-free struct is not touched by the unnamed phase, so `lookup` finds the same struct afterwards -/
theorem template_survives_unnamed {S1 F : Schema} (hnd : (Schema.names S1).Nodup) (hpw : Pw (FinalRel unnamedFinalStep F) S1 F)
    {t : String} {T : Struct} (hl : Schema.lookup S1 t = some (.struct T)) (hno : noPlaceholders T.fields = true) :
    Schema.lookup F t = some (.struct T) := by
  have hnames : Schema.names F = Schema.names S1 :=
    hpw.names_eq (fun a b h => FinalRel.name_eq (fun S M M' h => spliceOnce_name (unnamedFinalStep_ok.mp h).1) h)
  obtain ⟨b, hb, hrel⟩ := hpw.mem_left (lookup_mem hl)
  obtain ⟨T', rfl, hs⟩ := hrel
  have hT' : T' = T := by
    have := (unnamedFinalStep_ok.mp hs).1
    rw [spliceOnce_of_noPlaceholders hno] at this
    cases this; rfl
  subst hT'
  have := lookup_of_mem (by rw [hnames]; exact hnd) hb
  rw [← lookup_name hl]
  exact this

theorem spliceFields_append_flat {F : Schema} {a b : List Member} (ha : noPlaceholders a = true) :
    spliceFields F (a ++ b) = (fun r => a ++ r) <$> spliceFields F b := by
  induction a with
  | nil =>
    simp only [List.nil_append]
    cases h : spliceFields F b <;> simp [Functor.map, Except.map]
  | cons m rest ih =>
    cases m with
    | field f =>
      have hr : noPlaceholders rest = true := by simpa [noPlaceholders, Member.isPlaceholder] using ha
      simp only [List.cons_append, spliceFields, ih hr]
      cases h : spliceFields F b <;> simp [Functor.map, Except.map, bind, Except.bind, pure, Except.pure]
    | inlinePlaceholder t c => simp [noPlaceholders, Member.isPlaceholder] at ha

/-! ## factory type and attributes as folds over the unnamed references -/

/-- `R` final: the factory type a struct takes from one inlined struct: `R` itself when abstract, else what `R` recorded -/
def closestFactory (F : Schema) : Option String → List String → Option String
  | cur, [] => cur
  | cur, t :: ts =>
    closestFactory F (match Schema.lookup F t with | some (.struct R) => factoryFrom R cur | _ => cur) ts

theorem spliceFactory_eq_closest (F : Schema) (ms : List Member) (cur : Option String) :
    spliceFactory F cur ms = closestFactory F cur (unnamedRefs ms) := by
  induction ms generalizing cur with
  | nil => rfl
  | cons m rest ih =>
    cases m with
    | field f => simp only [spliceFactory, ih]; rfl
    | inlinePlaceholder t c =>
      simp only [spliceFactory, unnamedRefs, List.filterMap_cons, Member.unnamedRef?, closestFactory]
      cases hl : Schema.lookup F t with
      | none => exact ih _
      | some d => cases d <;> exact ih _

/-- the attributes an inlined struct contributes (as they are in the final schema) -/
def refAttrs (F : Schema) (t : String) : List Attribute :=
  match Schema.lookup F t with
  | some (.struct R) => attrList R.attributes
  | _ => []

theorem attrList_attrsFrom (R : Struct) (cur : Option (List Attribute)) :
    attrList (attrsFrom R cur) = attrList cur ++ attrList R.attributes := by
  unfold attrsFrom
  cases h : R.attributes with
  | none => simp [attrList]
  | some l => cases l <;> simp [attrList]

theorem attrList_spliceAttrs (F : Schema) (ms : List Member) (cur : Option (List Attribute)) :
    attrList (spliceAttrs F cur ms) = attrList cur ++ (unnamedRefs ms).flatMap (refAttrs F) := by
  induction ms generalizing cur with
  | nil => simp [spliceAttrs, unnamedRefs]
  | cons m rest ih =>
    cases m with
    | field f => simp only [spliceAttrs, ih]; rfl
    | inlinePlaceholder t c =>
      simp only [spliceAttrs, unnamedRefs, List.filterMap_cons, Member.unnamedRef?, List.flatMap_cons, refAttrs]
      cases hl : Schema.lookup F t with
      | none => simpa [unnamedRefs] using ih cur
      | some d =>
        cases d with
        | struct R =>
          have := ih (attrsFrom R cur)
          rw [attrList_attrsFrom] at this
          simpa [unnamedRefs, List.append_assoc] using this
        | alias a => simpa [unnamedRefs] using ih cur
        | enum e => simpa [unnamedRefs] using ih cur

/-! ## termination measure of the `while` loop -/

/-- the unnamed inlines of a member list nest at most `n` deep in the (current) schema `S`, and all of them resolve to structs -/
def flatWithin (S : Schema) : Nat → List Member → Prop
  | 0, ms => noPlaceholders ms = true
  | n + 1, ms => ∀ t ∈ unnamedRefs ms, ∃ R, Schema.lookup S t = some (.struct R) ∧ flatWithin S n R.fields

theorem flatWithin_of_noPlaceholders {S : Schema} {ms : List Member} (h : noPlaceholders ms = true) : ∀ n, flatWithin S n ms := by
  intro n
  cases n with
  | zero => exact h
  | succ k => intro t ht; rw [unnamedRefs_of_noPlaceholders h] at ht; cases ht

theorem flatWithin_append {S : Schema} {n : Nat} {a b : List Member} (ha : flatWithin S n a) (hb : flatWithin S n b) :
    flatWithin S n (a ++ b) := by
  cases n with
  | zero => simp only [flatWithin] at *; rw [noPlaceholders_append, ha, hb]; rfl
  | succ k =>
    intro t ht
    rw [unnamedRefs_append] at ht
    rcases List.mem_append.mp ht with h | h
    · exact ha t h
    · exact hb t h

theorem flatWithin_cons_field {S : Schema} {n : Nat} {f : StructField} {ms : List Member} (h : flatWithin S n ms) :
    flatWithin S n (.field f :: ms) := by
  have : flatWithin S n [Member.field f] := flatWithin_of_noPlaceholders (by simp [noPlaceholders, Member.isPlaceholder]) n
  exact flatWithin_append this h

/-- one pass lowers the nesting depth by one (and succeeds, every reference resolving to a struct) -/
theorem spliceFields_lowers_depth {S : Schema} {n : Nat} :
    ∀ (ms : List Member), flatWithin S (n + 1) ms → ∃ fs, spliceFields S ms = .ok fs ∧ flatWithin S n fs := by
  intro ms
  induction ms with
  | nil => intro _; exact ⟨[], rfl, flatWithin_of_noPlaceholders rfl n⟩
  | cons m rest ih =>
    intro h
    have hrest : flatWithin S (n + 1) rest := fun t ht => h t (mem_unnamedRefs_cons_right ht)
    obtain ⟨fs, hfs, hflat⟩ := ih hrest
    cases m with
    | field f =>
      refine ⟨.field f :: fs, by simp [spliceFields, hfs, bind, Except.bind, pure, Except.pure], flatWithin_cons_field hflat⟩
    | inlinePlaceholder t c =>
      obtain ⟨R, hl, hR⟩ := h t (mem_unnamedRefs_cons_left rfl)
      refine ⟨R.fields ++ fs, ?_, flatWithin_append hR hflat⟩
      simp [spliceFields, refStruct, hl, hfs, bind, Except.bind, pure, Except.pure]

/-- a prefix that starts with anything but an underscore (every member name does) never produces the `__FILL__` keyword -/
theorem prefixRef_ne_fill {p : String} {c : Char} {cs : List Char} (hp : p.toList = c :: cs) (hc : c ≠ '_') (s : String) :
    prefixRef p s ≠ fillPlaceholder := by
  intro h
  have := congrArg String.toList h
  simp [prefixRef, fillPlaceholder, hp] at this
  exact hc this.1

end SymbolVerif.Cats

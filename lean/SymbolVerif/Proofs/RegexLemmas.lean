/-
Helper lemmas for C19: the backtracking matcher `Regex.m` agrees with the declarative semantics
`Regex.Matches` on expressions without group/back-reference; anchor-free expressions do not look at
their context.
-/
import SymbolVerif.Model.Lint.Regex
namespace SymbolVerif.Lint.Regex

/-- what a successful run of the matcher on `r` from `s` into `k` means -/
def Spec (r : RE) (s : St) (k : St → Bool) : Prop :=
  ∃ u v, s.rest = u ++ v ∧ Matches r s.pre u v ∧ k ⟨u.reverse ++ s.pre, v, s.cap⟩ = true

theorem rev_append_assoc (u1 u2 pre : List Char) :
    (u1 ++ u2).reverse ++ pre = u2.reverse ++ (u1.reverse ++ pre) := by
  simp [List.reverse_append, List.append_assoc]

/-! ### the `*` loop -/

theorem starLoop_complete (a : RE)
    (ha : ∀ (s : St) (k : St → Bool) (u v : List Char), s.rest = u ++ v → Matches a s.pre u v →
      k ⟨u.reverse ++ s.pre, v, s.cap⟩ = true → m a s k = true) :
    ∀ {r : RE} {pre u v : List Char}, Matches r pre u v → r = .star a →
      ∀ (f : Nat) (cap : Option (List Char)) (k : St → Bool), (u ++ v).length ≤ f →
        k ⟨u.reverse ++ pre, v, cap⟩ = true → starLoop (m a) f ⟨pre, u ++ v, cap⟩ k = true := by
  intro r pre u v h
  induction h with
  | starNil a' pre post =>
    intro _ f cap k _ hk
    have hk' : k ⟨pre, post, cap⟩ = true := by simpa using hk
    cases f with
    | zero => simpa [starLoop] using hk'
    | succ f => simp [starLoop, hk']
  | @starCons a' pre u1 u2 post h1 h2 _ ih2 =>
    intro hr f cap k hlen hk
    cases hr
    by_cases hu : u1 = []
    · subst hu
      simp only [List.nil_append] at hlen hk ⊢
      exact ih2 rfl f cap k hlen (by simpa using hk)
    · cases f with
      | zero =>
        exfalso
        cases u1 with
        | nil => exact hu rfl
        | cons c t => simp at hlen
      | succ f =>
        have hpos : 0 < u1.length := List.length_pos_iff.mpr hu
        have hlt : (u2 ++ post).length < (u1 ++ u2 ++ post).length := by
          simp only [List.length_append]; omega
        have hrec : starLoop (m a) f ⟨u1.reverse ++ pre, u2 ++ post, cap⟩ k = true := by
          apply ih2 rfl f cap k
          · have : (u1 ++ u2 ++ post).length ≤ f + 1 := hlen
            omega
          · rw [← rev_append_assoc]; exact hk
        have hstep : m a ⟨pre, u1 ++ u2 ++ post, cap⟩
            (fun s' => decide (s'.rest.length < (u1 ++ u2 ++ post).length) && starLoop (m a) f s' k) = true := by
          apply ha ⟨pre, u1 ++ u2 ++ post, cap⟩ _ u1 (u2 ++ post) (by simp [List.append_assoc]) h1
          simp [hrec, hpos]
        simp only [starLoop, Bool.or_eq_true]
        exact Or.inr hstep
  | _ => intro hr; cases hr

theorem starLoop_sound (a : RE)
    (ha : ∀ (s : St) (k : St → Bool), m a s k = true → Spec a s k) :
    ∀ (f : Nat) (s : St) (k : St → Bool), starLoop (m a) f s k = true → Spec (.star a) s k := by
  intro f
  induction f with
  | zero =>
    intro s k h
    exact ⟨[], s.rest, rfl, Matches.starNil _ _ _, by simpa [starLoop] using h⟩
  | succ f ih =>
    intro s k h
    simp only [starLoop, Bool.or_eq_true] at h
    rcases h with h | h
    · exact ⟨[], s.rest, rfl, Matches.starNil _ _ _, by simpa using h⟩
    · obtain ⟨u1, v1, hs, hm1, hk1⟩ := ha s _ h
      simp only [Bool.and_eq_true, decide_eq_true_eq] at hk1
      obtain ⟨u2, v2, hs2, hm2, hk2⟩ := ih _ k hk1.2
      simp only at hs2 hm2 hk2
      refine ⟨u1 ++ u2, v2, by rw [hs, hs2, List.append_assoc], ?_, by rw [rev_append_assoc]; exact hk2⟩
      exact Matches.starCons (by rw [← hs2]; exact hm1) hm2

/-! ### the matcher and the declarative semantics -/

theorem atEnd_rest (p p' r : List Char) (c c' : Option (List Char)) : atEnd ⟨p, r, c⟩ = atEnd ⟨p', r, c'⟩ := rfl

theorem atWordBoundary_ctx (p r : List Char) (c c' : Option (List Char)) :
    atWordBoundary ⟨p, r, c⟩ = atWordBoundary ⟨p, r, c'⟩ := rfl

theorem m_sound : ∀ (r : RE), noCapture r = true → ∀ (s : St) (k : St → Bool), m r s k = true → Spec r s k
  | .eps, _, s, k, h => ⟨[], s.rest, rfl, Matches.eps _ _, by simpa [m] using h⟩
  | .lit c, _, s, k, h => by
    simp only [m] at h
    cases hr : s.rest with
    | nil => rw [hr] at h; cases h
    | cons d t =>
      rw [hr] at h
      simp only [Bool.and_eq_true, beq_iff_eq] at h
      obtain ⟨hd, hk⟩ := h
      subst hd
      exact ⟨[d], t, by rw [hr]; rfl, Matches.lit _ _ _, by simpa [St.step] using hk⟩
  | .any, _, s, k, h => by
    simp only [m] at h
    cases hr : s.rest with
    | nil => rw [hr] at h; cases h
    | cons d t =>
      rw [hr] at h
      simp only [Bool.and_eq_true] at h
      exact ⟨[d], t, by rw [hr]; rfl, Matches.any _ _ _ h.1, by simpa [St.step] using h.2⟩
  | .cls neg items, _, s, k, h => by
    simp only [m] at h
    cases hr : s.rest with
    | nil => rw [hr] at h; cases h
    | cons d t =>
      rw [hr] at h
      simp only [Bool.and_eq_true] at h
      exact ⟨[d], t, by rw [hr]; rfl, Matches.cls _ _ _ _ _ h.1, by simpa [St.step] using h.2⟩
  | .seq a b, hn, s, k, h => by
    simp only [noCapture, Bool.and_eq_true] at hn
    simp only [m] at h
    obtain ⟨u1, v1, hs, hm1, hk1⟩ := m_sound a hn.1 s _ h
    obtain ⟨u2, v2, hs2, hm2, hk2⟩ := m_sound b hn.2 _ k hk1
    simp only at hs2 hm2 hk2
    refine ⟨u1 ++ u2, v2, by rw [hs, hs2, List.append_assoc], ?_, by rw [rev_append_assoc]; exact hk2⟩
    exact Matches.seq (by rw [← hs2]; exact hm1) hm2
  | .alt a b, hn, s, k, h => by
    simp only [noCapture, Bool.and_eq_true] at hn
    simp only [m, Bool.or_eq_true] at h
    rcases h with h | h
    · obtain ⟨u, v, hs, hm, hk⟩ := m_sound a hn.1 s k h
      exact ⟨u, v, hs, Matches.altL hm, hk⟩
    · obtain ⟨u, v, hs, hm, hk⟩ := m_sound b hn.2 s k h
      exact ⟨u, v, hs, Matches.altR hm, hk⟩
  | .star a, hn, s, k, h => by
    simp only [noCapture] at hn
    simp only [m] at h
    exact starLoop_sound a (m_sound a hn) _ s k h
  | .bol, _, s, k, h => by
    simp only [m, Bool.and_eq_true, List.isEmpty_iff] at h
    refine ⟨[], s.rest, rfl, ?_, by simpa using h.2⟩
    rw [h.1]; exact Matches.bol _
  | .eol, _, s, k, h => by
    simp only [m, Bool.and_eq_true] at h
    exact ⟨[], s.rest, rfl, Matches.eol _ _ (by rw [← h.1]; rfl), by simpa using h.2⟩
  | .wordb, _, s, k, h => by
    simp only [m, Bool.and_eq_true] at h
    exact ⟨[], s.rest, rfl, Matches.wordb _ _ (by rw [← h.1]; rfl), by simpa using h.2⟩
  | .group _, hn, _, _, _ => by simp [noCapture] at hn
  | .backref, hn, _, _, _ => by simp [noCapture] at hn

theorem matches_bol_inv {p u v : List Char} (h : Matches .bol p u v) : p = [] ∧ u = [] := by
  cases h; exact ⟨rfl, rfl⟩

theorem m_complete : ∀ (r : RE), noCapture r = true → ∀ (s : St) (k : St → Bool) (u v : List Char),
    s.rest = u ++ v → Matches r s.pre u v → k ⟨u.reverse ++ s.pre, v, s.cap⟩ = true → m r s k = true
  | .eps, _, s, k, u, v, hs, hm, hk => by
    cases hm
    simp only [m]
    have : s = ⟨s.pre, v, s.cap⟩ := by cases s; simp_all
    rw [this]; simpa using hk
  | .lit c, _, s, k, u, v, hs, hm, hk => by
    cases hm
    simp only [m, hs, List.singleton_append, beq_self_eq_true, Bool.true_and]
    simpa [St.step] using hk
  | .any, _, s, k, u, v, hs, hm, hk => by
    cases hm with
    | any c _ _ hc =>
      simp only [m, hs, List.singleton_append, hc, Bool.true_and]
      simpa [St.step] using hk
  | .cls neg items, _, s, k, u, v, hs, hm, hk => by
    cases hm with
    | cls _ _ c _ _ hc =>
      simp only [m, hs, List.singleton_append, hc, Bool.true_and]
      simpa [St.step] using hk
  | .seq a b, hn, s, k, u, v, hs, hm, hk => by
    simp only [noCapture, Bool.and_eq_true] at hn
    cases hm with
    | @seq _ _ _ u1 u2 _ h1 h2 =>
      simp only [m]
      apply m_complete a hn.1 s _ u1 (u2 ++ v) (by rw [hs, List.append_assoc]) h1
      apply m_complete b hn.2 _ k u2 v rfl h2
      rw [← rev_append_assoc]; exact hk
  | .alt a b, hn, s, k, u, v, hs, hm, hk => by
    simp only [noCapture, Bool.and_eq_true] at hn
    simp only [m, Bool.or_eq_true]
    cases hm with
    | altL h => exact Or.inl (m_complete a hn.1 s k u v hs h hk)
    | altR h => exact Or.inr (m_complete b hn.2 s k u v hs h hk)
  | .star a, hn, s, k, u, v, hs, hm, hk => by
    simp only [noCapture] at hn
    simp only [m]
    have := starLoop_complete a (m_complete a hn) hm rfl s.rest.length s.cap k (by rw [hs]; exact Nat.le_refl _) hk
    have hs' : s = ⟨s.pre, u ++ v, s.cap⟩ := by cases s; simp_all
    rw [hs']; rw [hs] at this; exact this
  | .bol, _, s, k, u, v, hs, hm, hk => by
    obtain ⟨hp, hu⟩ := matches_bol_inv hm
    subst hu
    simp only [m, Bool.and_eq_true]
    have : s = ⟨[], v, s.cap⟩ := by cases s; simp_all
    refine ⟨by simp [hp], ?_⟩
    rw [this]; simpa [hp] using hk
  | .eol, _, s, k, u, v, hs, hm, hk => by
    cases hm with
    | eol _ _ he =>
      have : s = ⟨s.pre, v, s.cap⟩ := by cases s; simp_all
      simp only [m, Bool.and_eq_true]
      refine ⟨by rw [this]; exact he, ?_⟩
      rw [this]; simpa using hk
  | .wordb, _, s, k, u, v, hs, hm, hk => by
    cases hm with
    | wordb _ _ he =>
      have : s = ⟨s.pre, v, s.cap⟩ := by cases s; simp_all
      simp only [m, Bool.and_eq_true]
      refine ⟨by rw [this]; exact he, ?_⟩
      rw [this]; simpa using hk
  | .group _, hn, _, _, _, _, _, _, _ => by simp [noCapture] at hn
  | .backref, hn, _, _, _, _, _, _, _ => by simp [noCapture] at hn

theorem m_iff (r : RE) (hn : noCapture r = true) (s : St) (k : St → Bool) : m r s k = true ↔ Spec r s k :=
  ⟨m_sound r hn s k, fun ⟨u, v, hs, hm, hk⟩ => m_complete r hn s k u v hs hm hk⟩

/-! ### search -/

theorem searchGo_iff (r : RE) (hn : noCapture r = true) : ∀ (rest pre : List Char),
    searchGo r pre rest = true ↔ ∃ x y z, rest = x ++ y ++ z ∧ Matches r (x.reverse ++ pre) y z
  | [], pre => by
    simp only [searchGo, m_iff r hn]
    constructor
    · rintro ⟨u, v, hs, hm, _⟩
      exact ⟨[], u, v, by simpa using hs, by simpa using hm⟩
    · rintro ⟨x, y, z, hs, hm⟩
      have hx : x = [] := by
        cases x with
        | nil => rfl
        | cons c t => simp at hs
      subst hx
      exact ⟨y, z, by simpa using hs, by simpa using hm, rfl⟩
  | c :: t, pre => by
    simp only [searchGo, Bool.or_eq_true, m_iff r hn, searchGo_iff r hn t (c :: pre)]
    constructor
    · rintro (⟨u, v, hs, hm, _⟩ | ⟨x, y, z, hs, hm⟩)
      · exact ⟨[], u, v, by simpa using hs, by simpa using hm⟩
      · exact ⟨c :: x, y, z, by simp [hs], by simpa [List.reverse_cons, List.append_assoc] using hm⟩
    · rintro ⟨x, y, z, hs, hm⟩
      cases x with
      | nil => exact Or.inl ⟨y, z, by simpa using hs, by simpa using hm, rfl⟩
      | cons d x' =>
        simp only [List.cons_append, List.cons.injEq] at hs
        obtain ⟨hd, hs'⟩ := hs
        subst hd
        exact Or.inr ⟨x', y, z, hs', by simpa [List.reverse_cons, List.append_assoc] using hm⟩

/-! ### anchor-free expressions ignore their context -/

theorem anchorFree_noCapture : ∀ (r : RE), anchorFree r = true → noCapture r = true
  | .eps, _ | .lit _, _ | .any, _ | .cls _ _, _ => rfl
  | .seq a b, h | .alt a b, h => by
    simp only [anchorFree, Bool.and_eq_true] at h
    simp [noCapture, anchorFree_noCapture a h.1, anchorFree_noCapture b h.2]
  | .star a, h => by
    simp only [anchorFree] at h
    simp [noCapture, anchorFree_noCapture a h]
  | .bol, h | .eol, h | .wordb, h | .group _, h | .backref, h => by simp [anchorFree] at h

theorem matches_context {r : RE} {pre w post : List Char} (h : Matches r pre w post) :
    anchorFree r = true → ∀ pre' post', Matches r pre' w post' := by
  induction h with
  | eps => intro _ p q; exact Matches.eps _ _
  | lit c => intro _ p q; exact Matches.lit _ _ _
  | any c _ _ hc => intro _ p q; exact Matches.any _ _ _ hc
  | cls neg items c _ _ hc => intro _ p q; exact Matches.cls _ _ _ _ _ hc
  | seq _ _ ih1 ih2 =>
    intro ha p q
    simp only [anchorFree, Bool.and_eq_true] at ha
    exact Matches.seq (ih1 ha.1 _ _) (ih2 ha.2 _ _)
  | altL _ ih => intro ha p q; simp only [anchorFree, Bool.and_eq_true] at ha; exact Matches.altL (ih ha.1 _ _)
  | altR _ ih => intro ha p q; simp only [anchorFree, Bool.and_eq_true] at ha; exact Matches.altR (ih ha.2 _ _)
  | starNil => intro _ p q; exact Matches.starNil _ _ _
  | @starCons a _ _ _ _ _ _ ih1 ih2 =>
    intro ha p q
    have ha' : anchorFree a = true := by simpa [anchorFree] using ha
    exact Matches.starCons (ih1 ha' _ _) (ih2 ha _ _)
  | bol => intro ha; simp [anchorFree] at ha
  | eol => intro ha; simp [anchorFree] at ha
  | wordb => intro ha; simp [anchorFree] at ha

end SymbolVerif.Lint.Regex

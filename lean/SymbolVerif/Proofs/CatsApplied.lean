/-
Member attributes applied (C04): what `AstPostProcessor.apply_attributes` (model: `Expand.applyAttribute`) makes of an array
member, and what its descriptor (`ArrayType.toLegacy`) and printed form (`ArrayType.render`) then say, for every combination
of array kind and attribute list.
-/
import SymbolVerif.Model.Cats.Expand
namespace SymbolVerif.Cats
set_option linter.unusedSimpArgs false

/-- one attribute on an array: the element type and the size stay, `is_byte_constrained` is switched on by the attribute
    of that name and otherwise kept -/
theorem applyAttribute_array (arr : ArrayType) (a : Attribute) (t : FieldType) (h : applyAttribute (.array arr) a = .ok t) :
    ∃ b, t = .array b ∧ b.elementType = arr.elementType ∧ b.rawSize = arr.rawSize ∧
      b.attrs.isByteConstrained = (arr.attrs.isByteConstrained || a.name == "is_byte_constrained") := by
  unfold applyAttribute at h
  split at h
  · rename_i heq _
    cases heq
  · rename_i arr' heq hname
    cases heq
    cases h
    exact ⟨_, rfl, rfl, rfl, by simp [hname]⟩
  · rename_i arr' heq hname
    cases heq
    split at h
    · cases h
      refine ⟨_, rfl, rfl, rfl, ?_⟩
      rw [hname]; simp
    · cases h
  · rename_i arr' heq hname
    cases heq
    split at h
    · cases h
      refine ⟨_, rfl, rfl, rfl, ?_⟩
      rw [hname]; simp
    · cases h
  · cases h

/-- a list of attributes on an array -/
theorem applyAttributes_array : ∀ (attrs : List Attribute) (arr : ArrayType) (t : FieldType),
    attrs.foldlM applyAttribute (.array arr) = .ok t →
    ∃ b, t = .array b ∧ b.elementType = arr.elementType ∧ b.rawSize = arr.rawSize ∧
      b.attrs.isByteConstrained = (arr.attrs.isByteConstrained || attrs.any (·.name == "is_byte_constrained")) := by
  intro attrs
  induction attrs with
  | nil =>
    intro arr t h
    simp only [List.foldlM_nil, pure, Except.pure] at h
    cases h
    exact ⟨arr, rfl, rfl, rfl, by simp⟩
  | cons a rest ih =>
    intro arr t h
    simp only [List.foldlM_cons, bind, Except.bind] at h
    cases h1 : applyAttribute (.array arr) a with
    | error e => rw [h1] at h; cases h
    | ok t1 =>
      rw [h1] at h
      obtain ⟨b1, rfl, he1, hs1, hb1⟩ := applyAttribute_array arr a t1 h1
      obtain ⟨b, rfl, he, hs, hb⟩ := ih b1 t h
      refine ⟨b, rfl, he.trans he1, hs.trans hs1, ?_⟩
      rw [hb, hb1]
      simp [Bool.or_assoc]

end SymbolVerif.Cats

/-
Every line the printer emits for a well-formed declaration is a clean code line: no line ends inside, starts with
a character that is neither white space nor `#`.
-/
import SymbolVerif.Proofs.CatsRoundTrip
import SymbolVerif.Proofs.CatsLines
namespace SymbolVerif.Cats.Parser
open SymbolVerif.Cats SymbolVerif.Cats.Lexer
set_option linter.unusedSimpArgs false

theorem lineChar_of_typeChar {c : Char} (h : isTypeChar c = true) : isLineChar c = true := by
  simp only [isLineChar, Bool.and_eq_true, bne_iff_ne, ne_eq]
  constructor <;> (intro hc; subst hc; revert h; decide)
theorem lineChar_of_propChar {c : Char} (h : isPropChar c = true) : isLineChar c = true := by
  simp only [isLineChar, Bool.and_eq_true, bne_iff_ne, ne_eq]
  constructor <;> (intro hc; subst hc; revert h; decide)
theorem lineChar_of_constChar {c : Char} (h : isConstChar c = true) : isLineChar c = true := by
  simp only [isLineChar, Bool.and_eq_true, bne_iff_ne, ne_eq]
  constructor <;> (intro hc; subst hc; revert h; decide)
theorem lineChar_of_digit {c : Char} (h : isDigit c = true) : isLineChar c = true := by
  simp only [isLineChar, Bool.and_eq_true, bne_iff_ne, ne_eq]
  constructor <;> (intro hc; subst hc; revert h; decide)

theorem all_imp {p q : Char → Bool} (h : ∀ c, p c = true → q c = true) (l : Chars) (hl : l.all p = true) : l.all q = true := by
  rw [List.all_eq_true] at *
  exact fun c hc => h c (hl c hc)

theorem all_line_typeName (s : String) (h : IsTypeName s) : s.toList.all isLineChar = true := by
  obtain ⟨a, b, rest, heq, ha, hb, hrest⟩ := h
  rw [heq]
  simp only [List.all_cons, Bool.and_eq_true]
  exact ⟨lineChar_of_typeChar (by simp [isTypeChar, ha]), lineChar_of_typeChar (by simp [isTypeChar, hb]),
    all_imp (fun c => lineChar_of_typeChar) rest hrest⟩

theorem all_line_propName (s : String) (h : IsPropName s) : s.toList.all isLineChar = true := by
  obtain ⟨a, b, rest, heq, ha, hb, hrest⟩ := h
  rw [heq]
  simp only [List.all_cons, Bool.and_eq_true]
  exact ⟨lineChar_of_propChar (by simp [isPropChar, ha]), lineChar_of_propChar hb, all_imp (fun c => lineChar_of_propChar) rest hrest⟩

theorem all_line_constName (s : String) (h : IsConstantName s) : s.toList.all isLineChar = true := by
  obtain ⟨a, b, rest, heq, ha, hb, hrest⟩ := h
  rw [heq]
  simp only [List.all_cons, Bool.and_eq_true]
  exact ⟨lineChar_of_constChar (by simp [isConstChar, ha]), lineChar_of_constChar hb, all_imp (fun c => lineChar_of_constChar) rest hrest⟩

theorem all_line_nat (n : Nat) : (toString n).toList.all isLineChar = true := by
  rw [toString_toList]
  exact all_imp (fun c => lineChar_of_digit) _ (all_isDigit_toDigits n)

theorem all_line_nat' (n : Nat) : ∀ x ∈ Nat.toDigits 10 n, ¬x = '\n' ∧ ¬x = '\r' := by
  intro x hx
  have := all_line_nat n
  rw [toString_toList, List.all_eq_true] at this
  have hx' := this x hx
  simpa [isLineChar] using hx'

theorem all_line_shortName (t : IntType) (h : WFInt t) : t.shortName.toList.all isLineChar = true := by
  obtain ⟨u, sz, sr⟩ := t
  obtain ⟨hsz, hsr⟩ := h
  simp only at hsz hsr
  subst hsr
  rw [shortName_cases u sz hsz]
  rcases hsz with rfl | rfl | rfl | rfl <;> cases u <;> decide

theorem all_line_op (op : String) (h : op ∈ conditionOperations) : op.toList.all isLineChar = true := by
  simp only [conditionOperations, List.mem_cons, List.not_mem_nil, or_false] at h
  rcases h with rfl | rfl | rfl | rfl <;> decide

theorem all_line_elem (e : ElemType) (h : WFElem e) : e.render.toList.all isLineChar = true := by
  cases h with
  | named n hn => exact all_line_typeName n hn
  | int t ht => exact all_line_shortName t ht

theorem all_line_array (a : ArrayType) (h : WFArray a) : a.render.toList.all isLineChar = true := by
  cases h with
  | counted e n he =>
    rw [array_counted_toList]
    simp [List.all_append, List.all_cons, isLineChar, all_line_elem e he, all_line_nat n]
    exact all_line_nat' n
  | sized e p he hp =>
    rw [array_sized_toList e p hp]
    simp [List.all_append, List.all_cons, isLineChar, all_line_elem e he, all_line_propName p hp]
  | fill e he =>
    rw [array_fill_toList]
    simp [List.all_append, List.all_cons, isLineChar, all_line_elem e he]

theorem all_line_type (t : FieldType) (h : WFType t) : t.render.toList.all isLineChar = true := by
  cases h with
  | named n hn => exact all_line_typeName n hn
  | int t ht => exact all_line_shortName t ht
  | array a ha => exact all_line_array a ha

theorem all_line_value (v : FieldValue) (h : WFValue v) : (valueText v).all isLineChar = true := by
  cases h with
  | none => rfl
  | cond c hc =>
    cases hc with
    | num n op p hop hp =>
      simp only [valueText, cond_num_toList]
      simp [List.all_append, List.all_cons, isLineChar, all_line_nat n, all_line_op op hop, all_line_propName p hp]
      exact all_line_nat' n
    | const cn op p hcn hop hp =>
      simp only [valueText, cond_const_toList]
      simp [List.all_append, List.all_cons, isLineChar, all_line_constName cn hcn, all_line_op op hop, all_line_propName p hp]

theorem all_line_constArg (t : FieldType) (v : Scalar) (h : WFConstArg t v) :
    t.render.toList.all isLineChar = true ∧ v.pyStr.toList.all isLineChar = true := by
  cases h with
  | int it n hit => exact ⟨all_line_shortName it hit, by rw [pyStr_nat]; exact all_line_nat n⟩
  | «enum» ty c hty hc => exact ⟨all_line_typeName ty hty, all_line_constName c hc⟩

/-- a text that starts with a letter or an underscore and has no line ends inside -/
theorem clean_of_head (c : Char) (r : Chars) (hws : isWs c = false) (hne : c ≠ '#') (hall : (c :: r).all isLineChar = true) :
    CleanText (c :: r) := ⟨hall, c, r, rfl, hws, hne⟩

theorem head_lower {c : Char} (h : isLower c = true) : isWs c = false ∧ c ≠ '#' :=
  ⟨not_ws_of_lower h, by intro hc; subst hc; revert h; decide⟩
theorem head_upper {c : Char} (h : isUpper c = true) : isWs c = false ∧ c ≠ '#' :=
  ⟨not_ws_of_upper h, by intro hc; subst hc; revert h; decide⟩

/-- a line `name …` whose name is in one of the three lexical classes -/
theorem clean_name_line (w rest : Chars) (hw : IsUserTypeName w ∨ IsPropertyName w ∨ IsConstName w)
    (hall : (w ++ rest).all isLineChar = true) : CleanText (w ++ rest) := by
  rcases hw with ⟨a, b, rs, rfl, ha, _, _⟩ | ⟨a, b, rs, rfl, ha, _, _⟩ | ⟨a, b, rs, rfl, ha, _, _⟩
  · exact clean_of_head a _ (head_upper ha).1 (head_upper ha).2 hall
  · exact clean_of_head a _ (head_lower ha).1 (head_lower ha).2 hall
  · exact clean_of_head a _ (head_upper ha).1 (head_upper ha).2 hall

theorem clean_enumValue (v : EnumValue) (h : WFEnumValue v) : CleanText v.render.toList := by
  obtain ⟨name, n, hn⟩ := h
  rw [enumValue_render_toList]
  apply clean_name_line _ _ (Or.inr (Or.inr hn))
  simp [List.all_append, List.all_cons, isLineChar, all_line_constName name hn, all_line_nat n]
  exact all_line_nat' n

/-- the line of a plain member -/
theorem clean_plain_line (name : String) (hn : IsPropName name) (t : FieldType) (v : FieldValue) (ht : WFType t) (hv : WFValue v) :
    CleanText (name.toList ++ ' ' :: '=' :: ' ' :: (t.render.toList ++ valueText v)) := by
  apply clean_name_line _ _ (Or.inr (Or.inl hn))
  simp [List.all_append, List.all_cons, isLineChar, all_line_propName name hn, all_line_type t ht, all_line_value v hv]

theorem clean_member (m : Member) (h : WFMember m) : CleanText m.render.toList := by
  cases h with
  | plain name t v hn ht hv =>
    simp only [Member.render]
    rw [plain_render_toList name t v hv]
    apply clean_name_line _ _ (Or.inr (Or.inl hn.1))
    simp [List.all_append, List.all_cons, isLineChar, all_line_propName name hn.1, all_line_type t ht, all_line_value v hv]
  | valuePlaceholder t v ht hv =>
    simp only [Member.render]
    rw [plain_render_toList "__value__" t v hv]
    have hv' : "__value__".toList = '_' :: '_' :: 'v' :: 'a' :: 'l' :: 'u' :: 'e' :: '_' :: '_' :: [] := by decide
    rw [hv']
    apply clean_of_head '_' _ (by decide) (by decide)
    simp [List.all_append, List.all_cons, isLineChar, all_line_type t ht, all_line_value v hv]
  | const name t v hn ha =>
    simp only [Member.render]
    rw [const_render_toList]
    apply clean_name_line _ _ (Or.inr (Or.inr hn))
    simp [List.all_append, List.all_cons, isLineChar, all_line_constName name hn, (all_line_constArg t v ha).1,
      (all_line_constArg t v ha).2]
  | reserved name t v hn ha =>
    simp only [Member.render]
    rw [reserved_render_toList]
    apply clean_name_line _ _ (Or.inr (Or.inl hn.1))
    simp [List.all_append, List.all_cons, isLineChar, all_line_propName name hn.1, (all_line_constArg t v ha).1,
      (all_line_constArg t v ha).2]
  | sizeof name t p hn ht hp =>
    simp only [Member.render]
    rw [sizeof_render_toList]
    apply clean_name_line _ _ (Or.inr (Or.inl hn.1))
    simp [List.all_append, List.all_cons, isLineChar, all_line_propName name hn.1, all_line_shortName t ht,
      all_line_propName p hp]
  | namedInline name ty hn hty =>
    simp only [Member.render]
    rw [namedInline_render_toList]
    apply clean_name_line _ _ (Or.inr (Or.inl hn.1))
    simp [List.all_append, List.all_cons, isLineChar, all_line_propName name hn.1, all_line_typeName ty hty]
  | unnamedInline ty hty =>
    have ht : (Member.render (.inlinePlaceholder ty none)).toList = 'i' :: 'n' :: 'l' :: 'i' :: 'n' :: 'e' :: ' ' :: ty.toList := by
      simp [Member.render, String.toList_append]
    rw [ht]
    apply clean_of_head 'i' _ (by decide) (by decide)
    simp [List.all_cons, isLineChar, all_line_typeName ty hty]

end SymbolVerif.Cats.Parser

/-
Line-local rejection lemmas for the corruption operators of C11: a line of the given shape is accepted by no line
parser in any context (`LineRejected`), so by `parse_fail_fast` every document that contains it is rejected.
-/
import SymbolVerif.Proofs.CatsReject
namespace SymbolVerif.Cats.Parser
open SymbolVerif.Cats SymbolVerif.Cats.Lexer
set_option linter.unusedSimpArgs false

theorem lit_eq_none_of_head (c : Char) (r : Chars) (hws : isWs c = false) (hne : c ≠ '=') : lit "=" (' ' :: c :: r) = none := by
  rw [lit_skip_blank]
  exact lit_none_of_head "=" '=' [] rfl c r hws (by simp only [beq_eq_false_iff_ne, ne_eq]; exact fun h => hne h.symm)

/-! ### unknown keyword at the start of a statement -/

/-- Operator `unknown-keyword` at the start of a line (`xusing Foo …`, `xstruct Foo`, `xenum Foo : …`,
    `ximport "…"`, `xabstract struct Foo`, `xinline Foo`): a word that starts with `x`, followed by a blank and
    anything but `=`, is no statement, no enum value and no member. -/
theorem unknown_statement_keyword (w : Chars) (c : Char) (w' : Chars) (hw : w = c :: w') (hall : w.all isPropChar = true)
    (a : Char) (rest : Chars) (ha : isWs a = false) (hne : a ≠ '=') :
    LineRejected ('x' :: w ++ ' ' :: a :: rest) := by
  have hx : isWs 'x' = false := by decide
  have hprop : IsPropertyName ('x' :: w) := by
    subst hw
    simp only [List.all_cons, Bool.and_eq_true] at hall
    exact ⟨'x', c, w', rfl, by decide, hall.1, hall.2⟩
  have h1 : constName ('x' :: w ++ ' ' :: a :: rest) = none := constName_none_of_head 'x' _ hx (by decide)
  have h2 := propertyName_append ('x' :: w) (' ' :: a :: rest) hprop (follows_blank_prop _)
  have h3 : lit "=" (' ' :: a :: rest) = none := lit_eq_none_of_head a rest ha hne
  have hne' : (String.ofList ('x' :: w) = "inline") = False := by
    simp only [eq_iff_iff, iff_false]
    intro h
    have := congrArg String.toList h
    simp only [String.toList_ofList] at this
    have h' : "inline".toList = 'i' :: 'n' :: 'l' :: 'i' :: 'n' :: 'e' :: [] := by decide
    rw [h'] at this
    simp only [List.cons.injEq] at this
    exact absurd this.1 (by decide)
  refine ⟨fun m => ?_, ?_, fun afterAttrs => ?_⟩
  · exact parseTopLine_none_of_head m 'x' _ hx (by decide) (by decide) (by decide) (by decide) (by decide) (by decide)
  · simp only [parseEnumLine, h1, bind, Option.bind]
  · cases afterAttrs <;>
      simp only [parseStructLine, plainMemberRest, h1, h2, h3, hne', bind, Option.bind, Bool.false_eq_true, ↓reduceIte]

/-! ### corruptions inside a member line `name = …` -/

/-- a member line `name = body` is rejected everywhere as soon as the struct-body reading of `= body` fails:
    it is no top-level statement and no enum value anyway -/
theorem member_line_rejected (name : String) (hn : IsMemberName name) (body : Chars)
    (h1 : memberAfterEquals name (' ' :: body) = none) (h2 : plainFieldRest name (' ' :: body) = none) :
    LineRejected (name.toList ++ ' ' :: '=' :: ' ' :: body) := by
  obtain ⟨a, w', heq, ha, hall⟩ := propChars_of_propName _ hn.1
  refine ⟨fun m => ?_, ?_, fun afterAttrs => ?_⟩
  · rw [heq]; exact parseTopLine_assignment_none m a w' (' ' :: body) ha hall
  · have : constName (name.toList ++ ' ' :: '=' :: ' ' :: body) = none := constName_none_of_property _ _ hn.1
    simp only [parseEnumLine, this, bind, Option.bind]
  · cases afterAttrs
    · rw [parseStructLine_memberName name hn, h1]
    · have hp := propertyName_append name.toList (' ' :: '=' :: ' ' :: body) hn.1 (follows_blank_prop _)
      simp only [parseStructLine, if_true, hp, plainMemberRest, lit_skip_blank, lit_eq, bind, Option.bind, h2,
        String.ofList_toList, Option.map]

/-- what follows `name =` starts with a character that begins no type and no member keyword -/
theorem plainFieldRest_none_of_head (name : String) (c : Char) (r : Chars) (hws : isWs c = false) (hup : isUpper c = false)
    (hu : c ≠ 'u') (hi : ('i' == c) = false) (ha : ('a' == c) = false) : plainFieldRest name (' ' :: c :: r) = none := by
  have e1 : fixedSizeInteger (c :: r) = none := fixedSizeInteger_none_of_head c r hws hu hi
  have e2 : userTypeName (c :: r) = none := userTypeName_none_of_head c r hws hup
  have e3 : lit "array" (c :: r) = none := lit_none_of_head "array" 'a' _ rfl c r hws ha
  simp only [plainFieldRest, plainFieldType, fixedSizeInteger_skip_blank, e1, userTypeName_skip_blank, e2, lit_skip_blank, e3,
    bind, Option.bind]

/-- Operator `unknown-keyword` on the keyword after `=` (`name = xarray(…)`, `xmake_reserved(…)`, `xsizeof(…)`,
    `xinline Foo`): rejected in every context. -/
theorem unknown_member_keyword (name : String) (hn : IsMemberName name) (rest : Chars) :
    LineRejected (name.toList ++ ' ' :: '=' :: ' ' :: 'x' :: rest) := by
  have hx : isWs 'x' = false := by decide
  have hplain := plainFieldRest_none_of_head name 'x' rest hx (by decide) (by decide) (by decide) (by decide)
  apply member_line_rejected name hn _ _ hplain
  have e1 : lit "make_reserved" ('x' :: rest) = none := lit_none_of_head "make_reserved" 'm' _ rfl 'x' rest hx (by decide)
  have e2 : lit "sizeof" ('x' :: rest) = none := lit_none_of_head "sizeof" 's' _ rfl 'x' rest hx (by decide)
  have e3 : lit "inline" ('x' :: rest) = none := lit_none_of_head "inline" 'i' _ rfl 'x' rest hx (by decide)
  simp only [memberAfterEquals, lit_skip_blank, e1, e2, e3, hplain, Option.map]

/-- a plain member whose type is followed by something that is neither the end of the line nor a condition -/
theorem plain_member_tail_rejected (name : String) (hn : IsMemberName name) (t : FieldType) (ht : WFType t) (tail : Chars)
    (hfollow : Follows isTypeChar tail) (hopt : optConditionalEol tail = none) :
    LineRejected (name.toList ++ ' ' :: '=' :: ' ' :: (t.render.toList ++ tail)) := by
  have hplain : plainFieldRest name (' ' :: (t.render.toList ++ tail)) = none := by
    cases ht with
    | named n hnm =>
      obtain ⟨a, b, rest, heq, ha, hb, hrest⟩ := id hnm
      have h1 : fixedSizeInteger (n.toList ++ tail) = none := by
        rw [heq]; exact fixedSizeInteger_none_of_upper a _ ha
      have h2 := userTypeName_append n.toList tail hnm hfollow
      simp only [plainFieldRest, plainFieldType, FieldType.render, fixedSizeInteger_skip_blank, h1, userTypeName_skip_blank, h2,
        bind, Option.bind, hopt]
    | int it hit =>
      obtain ⟨u, sz, sr⟩ := it
      obtain ⟨hsz, hsr⟩ := hit
      simp only at hsz hsr
      subst hsr
      have h1 := fixedSizeInteger_shortName u sz hsz tail
      simp only [plainFieldRest, plainFieldType, FieldType.render, IntType.render, fixedSizeInteger_skip_blank, h1, bind,
        Option.bind, hopt]
    | array a ha =>
      obtain ⟨body, hbody, harr⟩ := arrayArguments_render a ha tail
      have h1 : ∀ r, fixedSizeInteger ('a' :: r) = none := fun r =>
        fixedSizeInteger_none_of_head 'a' r (by decide) (by decide) (by decide)
      have h2 : ∀ r, userTypeName ('a' :: r) = none := fun r => userTypeName_none_of_head 'a' r (by decide) (by decide)
      simp only [plainFieldRest, plainFieldType, FieldType.render, hbody, List.cons_append, fixedSizeInteger_skip_blank, h1,
        userTypeName_skip_blank, h2, lit_skip_blank, lit_array, harr, bind, Option.bind, hopt]
  apply member_line_rejected name hn _ _ hplain
  rw [memberAfterEquals_plain name t ht tail, hplain]
  rfl

/-- Operator `unknown-keyword` on `if`: `name = T xif …`. -/
theorem unknown_if_keyword (name : String) (hn : IsMemberName name) (t : FieldType) (ht : WFType t) (rest : Chars) :
    LineRejected (name.toList ++ ' ' :: '=' :: ' ' :: (t.render.toList ++ ' ' :: 'x' :: rest)) := by
  apply plain_member_tail_rejected name hn t ht _ (follows_blank_type _)
  have h1 : atEol (' ' :: 'x' :: rest) = false := by rw [atEol_skip_blank]; exact atEol_cons _ _ (by decide)
  have h2 : lit "if" ('x' :: rest) = none := lit_none_of_head "if" 'i' _ rfl 'x' rest (by decide) (by decide)
  simp only [optConditionalEol, h1, conditionalExpression, lit_skip_blank, h2, bind, Option.bind, Bool.false_eq_true, if_false]

/-- Operator `unknown-cond-op`: `name = T if VALUE xOP …` (the operator words `equals`, `in`, `not` prefixed). -/
theorem unknown_condition_operator (name : String) (hn : IsMemberName name) (t : FieldType) (ht : WFType t)
    (valueText : Chars) (v : Scalar) (hv : ∀ r, conditionValue (' ' :: (valueText ++ ' ' :: r)) = some (v, ' ' :: r))
    (rest : Chars) :
    LineRejected (name.toList ++ ' ' :: '=' :: ' ' :: (t.render.toList ++ ' ' :: 'i' :: 'f' :: ' ' :: (valueText ++ ' ' :: 'x' :: rest))) := by
  apply plain_member_tail_rejected name hn t ht _ (follows_blank_type _)
  have h1 : atEol (' ' :: 'i' :: 'f' :: ' ' :: (valueText ++ ' ' :: 'x' :: rest)) = false := by
    rw [atEol_skip_blank]; exact atEol_cons _ _ (by decide)
  have h2 : conditionalOperation ('x' :: rest) = none := by
    simp [conditionalOperation, skipWs, isWs, litHere, List.isPrefixOf]
  simp only [optConditionalEol, h1, conditionalExpression, lit_skip_blank, lit_if, hv, conditionalOperation_skip_blank, h2, bind,
    Option.bind, Bool.false_eq_true, if_false]

/-- the two printed forms of a condition value are read as `unknown_condition_operator` requires -/
theorem conditionValue_num (n : Nat) (r : Chars) :
    conditionValue (' ' :: ((toString n).toList ++ ' ' :: r)) = some (.int n, ' ' :: r) := by
  have h1 : constName ((toString n).toList ++ ' ' :: r) = none := constName_toString_none n _
  simp only [conditionValue, constName_skip_blank, h1, number_skip_blank, number_repr_blank, Option.map]

theorem conditionValue_const (c : String) (hc : IsConstantName c) (r : Chars) :
    conditionValue (' ' :: (c.toList ++ ' ' :: r)) = some (.str c, ' ' :: r) := by
  have h1 := constName_append c.toList (' ' :: r) hc (follows_blank_const r)
  simp only [conditionValue, constName_skip_blank, h1, String.ofList_toList]

/-- Operator `missing-bracket` on the opening parenthesis of `array(`, `make_reserved(`, `sizeof(`: after the keyword
    comes something else than `(`. -/
theorem missing_open_bracket_array (name : String) (hn : IsMemberName name) (c : Char) (rest : Chars) (hws : isWs c = false)
    (hc : c ≠ '(') : LineRejected (name.toList ++ ' ' :: '=' :: ' ' :: 'a' :: 'r' :: 'r' :: 'a' :: 'y' :: c :: rest) := by
  have hlp : lit "(" (c :: rest) = none :=
    lit_none_of_head "(" '(' [] rfl c rest hws (by simp only [beq_eq_false_iff_ne, ne_eq]; exact fun h => hc h.symm)
  have h1 : ∀ r, fixedSizeInteger ('a' :: r) = none := fun r =>
    fixedSizeInteger_none_of_head 'a' r (by decide) (by decide) (by decide)
  have h2 : ∀ r, userTypeName ('a' :: r) = none := fun r => userTypeName_none_of_head 'a' r (by decide) (by decide)
  have hplain : plainFieldRest name (' ' :: 'a' :: 'r' :: 'r' :: 'a' :: 'y' :: c :: rest) = none := by
    simp only [plainFieldRest, plainFieldType, fixedSizeInteger_skip_blank, h1, userTypeName_skip_blank, h2, lit_skip_blank,
      lit_array, arrayArguments, hlp, bind, Option.bind]
  apply member_line_rejected name hn _ _ hplain
  have ha : isWs 'a' = false := by decide
  have e1 : ∀ r, lit "make_reserved" ('a' :: r) = none := fun r => lit_none_of_head "make_reserved" 'm' _ rfl 'a' r ha (by decide)
  have e2 : ∀ r, lit "sizeof" ('a' :: r) = none := fun r => lit_none_of_head "sizeof" 's' _ rfl 'a' r ha (by decide)
  have e3 : ∀ r, lit "inline" ('a' :: r) = none := fun r => lit_none_of_head "inline" 'i' _ rfl 'a' r ha (by decide)
  simp only [memberAfterEquals, lit_skip_blank, e1, e2, e3, hplain, Option.map]

theorem missing_open_bracket_sizeof (name : String) (hn : IsMemberName name) (c : Char) (rest : Chars) (hws : isWs c = false)
    (hc : c ≠ '(') : LineRejected (name.toList ++ ' ' :: '=' :: ' ' :: 's' :: 'i' :: 'z' :: 'e' :: 'o' :: 'f' :: c :: rest) := by
  have hlp : lit "(" (c :: rest) = none :=
    lit_none_of_head "(" '(' [] rfl c rest hws (by simp only [beq_eq_false_iff_ne, ne_eq]; exact fun h => hc h.symm)
  have hplain := plainFieldRest_none_of_head name 's' ('i' :: 'z' :: 'e' :: 'o' :: 'f' :: c :: rest) (by decide) (by decide)
    (by decide) (by decide) (by decide)
  apply member_line_rejected name hn _ _ hplain
  have e1 : ∀ r, lit "make_reserved" ('s' :: r) = none := fun r =>
    lit_none_of_head "make_reserved" 'm' _ rfl 's' r (by decide) (by decide)
  simp only [memberAfterEquals, lit_skip_blank, e1, lit_sizeof, hlp, bind, Option.bind]

theorem missing_open_bracket_reserved (name : String) (hn : IsMemberName name) (c : Char) (rest : Chars) (hws : isWs c = false)
    (hc : c ≠ '(') :
    LineRejected (name.toList ++ ' ' :: '=' :: ' ' :: 'm' :: 'a' :: 'k' :: 'e' :: '_' :: 'r' :: 'e' :: 's' :: 'e' :: 'r' :: 'v' :: 'e' :: 'd' :: c :: rest) := by
  have hlp : lit "(" (c :: rest) = none :=
    lit_none_of_head "(" '(' [] rfl c rest hws (by simp only [beq_eq_false_iff_ne, ne_eq]; exact fun h => hc h.symm)
  have hplain := plainFieldRest_none_of_head name 'm'
    ('a' :: 'k' :: 'e' :: '_' :: 'r' :: 'e' :: 's' :: 'e' :: 'r' :: 'v' :: 'e' :: 'd' :: c :: rest) (by decide) (by decide)
    (by decide) (by decide) (by decide)
  apply member_line_rejected name hn _ _ hplain
  simp only [memberAfterEquals, lit_skip_blank, lit_make_reserved, hlp, bind, Option.bind]

/-- Operator `missing-bracket` on the closing parenthesis of an array type: `name = array(T, size` -/
theorem missing_close_bracket_array (name : String) (hn : IsMemberName name) (a : ArrayType) (ha : WFArray a) :
    ∃ text, a.render.toList = text ++ [')'] ∧ LineRejected (name.toList ++ ' ' :: '=' :: ' ' :: text) := by
  have h1 : ∀ r, fixedSizeInteger ('a' :: r) = none := fun r =>
    fixedSizeInteger_none_of_head 'a' r (by decide) (by decide) (by decide)
  have h2 : ∀ r, userTypeName ('a' :: r) = none := fun r => userTypeName_none_of_head 'a' r (by decide) (by decide)
  have hA : isWs 'a' = false := by decide
  have e1 : ∀ r, lit "make_reserved" ('a' :: r) = none := fun r => lit_none_of_head "make_reserved" 'm' _ rfl 'a' r hA (by decide)
  have e2 : ∀ r, lit "sizeof" ('a' :: r) = none := fun r => lit_none_of_head "sizeof" 's' _ rfl 'a' r hA (by decide)
  have e3 : ∀ r, lit "inline" ('a' :: r) = none := fun r => lit_none_of_head "inline" 'i' _ rfl 'a' r hA (by decide)
  have hrp : lit ")" [] = none := by decide
  have finish : ∀ (args : Chars), arrayArguments args = none →
      LineRejected (name.toList ++ ' ' :: '=' :: ' ' :: 'a' :: 'r' :: 'r' :: 'a' :: 'y' :: args) := by
    intro args hargs
    have hplain : plainFieldRest name (' ' :: 'a' :: 'r' :: 'r' :: 'a' :: 'y' :: args) = none := by
      simp only [plainFieldRest, plainFieldType, fixedSizeInteger_skip_blank, h1, userTypeName_skip_blank, h2, lit_skip_blank,
        lit_array, hargs, bind, Option.bind]
    apply member_line_rejected name hn _ _ hplain
    simp only [memberAfterEquals, lit_skip_blank, e1, e2, e3, hplain, Option.map]
  cases ha with
  | counted e n he =>
    refine ⟨'a' :: 'r' :: 'r' :: 'a' :: 'y' :: '(' :: (e.render.toList ++ ',' :: ' ' :: (toString n).toList), ?_, ?_⟩
    · rw [array_counted_toList]; simp
    · apply finish
      have s1 := scanElem_render e he (' ' :: (toString n).toList)
      have s2 : propertyName (toString n).toList = none := by
        have := propertyName_toString_none n []; rwa [List.append_nil] at this
      simp only [arrayArguments, lit_lpar, s1, bind, Option.bind, lit_comma, scanSize, propertyName_skip_blank, s2,
        number_skip_blank, number_repr_nil, hrp]
  | sized e p he hp =>
    refine ⟨'a' :: 'r' :: 'r' :: 'a' :: 'y' :: '(' :: (e.render.toList ++ ',' :: ' ' :: p.toList), ?_, ?_⟩
    · rw [array_sized_toList e p hp]; simp
    · apply finish
      have s1 := scanElem_render e he (' ' :: p.toList)
      have s2 := propertyName_append p.toList [] hp (follows_nil _)
      rw [List.append_nil] at s2
      simp only [arrayArguments, lit_lpar, s1, bind, Option.bind, lit_comma, scanSize, propertyName_skip_blank, s2, hrp]
  | fill e he =>
    refine ⟨'a' :: 'r' :: 'r' :: 'a' :: 'y' :: '(' :: (e.render.toList ++ ',' :: ' ' :: '_' :: '_' :: 'F' :: 'I' :: 'L' :: 'L' :: '_' :: ['_']), ?_, ?_⟩
    · rw [array_fill_toList]; simp
    · apply finish
      have s1 := scanElem_render e he (' ' :: '_' :: '_' :: 'F' :: 'I' :: 'L' :: 'L' :: '_' :: ['_'])
      have s2 : ∀ r, propertyName ('_' :: r) = none := fun r => propertyName_none_of_head '_' r (by decide) (by decide)
      have s3 : (fillPlaceholder : String) = "__FILL__" := rfl
      simp only [arrayArguments, lit_lpar, s1, bind, Option.bind, lit_comma, scanSize, propertyName_skip_blank, s2,
        number_skip_blank, number_underscore_none, s3, lit_skip_blank, lit_fill, Option.map, hrp]

/-! ### attribute lines -/

/-- an attribute line `@text` is rejected everywhere as soon as no attribute scanner accepts `text` -/
theorem attribute_line_rejected (text : Chars) (h1 : structAttribute text = none) (h2 : enumAttribute text = none)
    (h3 : fieldAttribute text = none) : LineRejected ('@' :: text) := by
  have hat : isWs '@' = false := by decide
  have hlit : lit "@" ('@' :: text) = some text := lit_at text
  refine ⟨fun m => ?_, ?_, fun afterAttrs => ?_⟩
  · have e1 : structModifier ('@' :: text) = none := structModifier_none_of_head _ _ hat (by decide) (by decide)
    have e2 : lit "import" ('@' :: text) = none := lit_none_of_head "import" 'i' _ rfl _ _ hat (by decide)
    have e3 : lit "struct" ('@' :: text) = none := lit_none_of_head "struct" 's' _ rfl _ _ hat (by decide)
    have e4 : lit "using" ('@' :: text) = none := lit_none_of_head "using" 'u' _ rfl _ _ hat (by decide)
    have e5 : lit "enum" ('@' :: text) = none := lit_none_of_head "enum" 'e' _ rfl _ _ hat (by decide)
    cases m <;> simp only [parseTopLine, e1, e2, e3, e4, e5, hlit, h1, h2, bind, Option.bind, Option.map]
  · have e1 : constName ('@' :: text) = none := constName_none_of_head _ _ hat (by decide)
    simp only [parseEnumLine, e1, bind, Option.bind]
  · have e1 : constName ('@' :: text) = none := constName_none_of_head _ _ hat (by decide)
    have e2 : propertyName ('@' :: text) = none := propertyName_none_of_head _ _ hat (by decide)
    have e3 : lit "__value__" ('@' :: text) = none := lit_none_of_head "__value__" '_' _ rfl _ _ hat (by decide)
    cases afterAttrs <;>
      simp only [parseStructLine, e1, e2, e3, hlit, h3, bind, Option.bind, Option.map, Bool.false_eq_true, ↓reduceIte]

theorem follows_bang_prop (r : Chars) : Follows isPropChar ('!' :: r) := follows_cons _ _ _ (by decide)
theorem follows_comma_prop (r : Chars) : Follows isPropChar (',' :: r) := follows_cons _ _ _ (by decide)

/-- Operator `unknown-transform`: `@comparer(member!xtransform…` -/
theorem unknown_transform (p : String) (hp : IsPropName p) (rest : Chars) :
    LineRejected ('@' :: 'c' :: 'o' :: 'm' :: 'p' :: 'a' :: 'r' :: 'e' :: 'r' :: '(' :: (p.toList ++ '!' :: 'x' :: rest)) := by
  have hc : skipWs ('c' :: 'o' :: 'm' :: 'p' :: 'a' :: 'r' :: 'e' :: 'r' :: '(' :: (p.toList ++ '!' :: 'x' :: rest)) =
      'c' :: 'o' :: 'm' :: 'p' :: 'a' :: 'r' :: 'e' :: 'r' :: '(' :: (p.toList ++ '!' :: 'x' :: rest) :=
    skipWs_cons_of_not_ws _ _ (by decide)
  have hh : ∀ (s : String) (s0 : Char) (sr : Chars), s.toList = s0 :: sr → (s0 == 'c') = false → ∀ r,
      litHere s ('c' :: r) = none := fun s s0 sr hs hne r => litHere_none_of_head s s0 sr hs 'c' r hne
  have hcomp : ∀ r, litHere "comparer" ('c' :: 'o' :: 'm' :: 'p' :: 'a' :: 'r' :: 'e' :: 'r' :: r) = some r := by
    intro r; simp [litHere, List.isPrefixOf]
  have hprop := propertyName_append p.toList ('!' :: 'x' :: rest) hp (follows_bang_prop _)
  have hx : lit "ripemd_keccak_256" ('x' :: rest) = none :=
    lit_none_of_head "ripemd_keccak_256" 'r' _ rfl 'x' rest (by decide) (by decide)
  apply attribute_line_rejected
  · simp only [structAttribute, hc, hh "is_size_implicit" 'i' _ rfl (by decide), hh "is_aligned" 'i' _ rfl (by decide),
      hh "discriminator" 'd' _ rfl (by decide), hh "initializes" 'i' _ rfl (by decide), hcomp, lit_lpar, comparerEntry, hprop,
      lit_bang, hx, bind, Option.bind]
  · have : lit "is_bitwise" ('c' :: 'o' :: 'm' :: 'p' :: 'a' :: 'r' :: 'e' :: 'r' :: '(' :: (p.toList ++ '!' :: 'x' :: rest)) = none :=
      lit_none_of_head "is_bitwise" 'i' _ rfl 'c' _ (by decide) (by decide)
    simp only [enumAttribute, this, bind, Option.bind]
  · simp only [fieldAttribute, hc, hh "is_byte_constrained" 'i' _ rfl (by decide), hh "alignment" 'a' _ rfl (by decide),
      hh "sort_key" 's' _ rfl (by decide), hh "sizeref" 's' _ rfl (by decide)]

/-- Operator `wrong-arity` on the flag attributes: a flag with an argument list. -/
theorem wrong_arity_flags :
    LineRejected "@is_aligned(ab)".toList ∧ LineRejected "@is_size_implicit(ab)".toList ∧
    LineRejected "@is_bitwise(ab)".toList ∧ LineRejected "@is_byte_constrained(ab)".toList := by
  refine ⟨⟨fun m => ?_, ?_, fun b => ?_⟩, ⟨fun m => ?_, ?_, fun b => ?_⟩, ⟨fun m => ?_, ?_, fun b => ?_⟩,
    ⟨fun m => ?_, ?_, fun b => ?_⟩⟩ <;> first | (cases m <;> decide) | (cases b <;> decide) | decide

/-- Operator `wrong-arity` on the variadic attributes: an empty argument list. -/
theorem wrong_arity_empty : LineRejected "@discriminator()".toList ∧ LineRejected "@comparer()".toList := by
  refine ⟨⟨fun m => ?_, ?_, fun b => ?_⟩, ⟨fun m => ?_, ?_, fun b => ?_⟩⟩ <;>
    first | (cases m <;> decide) | (cases b <;> decide) | decide

/-- Operator `wrong-arity` on `@size(member)`: a second argument. -/
theorem wrong_arity_size (p : String) (hp : IsPropName p) (rest : Chars) :
    LineRejected ('@' :: 's' :: 'i' :: 'z' :: 'e' :: '(' :: (p.toList ++ ',' :: rest)) := by
  have hc : skipWs ('s' :: 'i' :: 'z' :: 'e' :: '(' :: (p.toList ++ ',' :: rest)) =
      's' :: 'i' :: 'z' :: 'e' :: '(' :: (p.toList ++ ',' :: rest) := skipWs_cons_of_not_ws _ _ (by decide)
  have hh : ∀ (s : String) (s0 : Char) (sr : Chars), s.toList = s0 :: sr → (s0 == 's') = false → ∀ r,
      litHere s ('s' :: r) = none := fun s s0 sr hs hne r => litHere_none_of_head s s0 sr hs 's' r hne
  have hsize : ∀ r, litHere "size" ('s' :: 'i' :: 'z' :: 'e' :: r) = some r := by
    intro r; simp [litHere, List.isPrefixOf]
  have hsort : ∀ r, litHere "sort_key" ('s' :: 'i' :: r) = none := by intro r; simp [litHere, List.isPrefixOf]
  have hsizeref : ∀ r, litHere "sizeref" ('s' :: 'i' :: 'z' :: 'e' :: '(' :: r) = none := by
    intro r; simp [litHere, List.isPrefixOf]
  have hprop := propertyName_append p.toList (',' :: rest) hp (follows_comma_prop _)
  have hrp : lit ")" (',' :: rest) = none := lit_none_of_head ")" ')' [] rfl ',' rest (by decide) (by decide)
  apply attribute_line_rejected
  · simp only [structAttribute, hc, hh "is_size_implicit" 'i' _ rfl (by decide), hh "is_aligned" 'i' _ rfl (by decide),
      hh "discriminator" 'd' _ rfl (by decide), hh "initializes" 'i' _ rfl (by decide), hh "comparer" 'c' _ rfl (by decide),
      hsize, lit_lpar, hprop, hrp, bind, Option.bind]
  · have : lit "is_bitwise" ('s' :: 'i' :: 'z' :: 'e' :: '(' :: (p.toList ++ ',' :: rest)) = none :=
      lit_none_of_head "is_bitwise" 'i' _ rfl 's' _ (by decide) (by decide)
    simp only [enumAttribute, this, bind, Option.bind]
  · simp only [fieldAttribute, hc, hh "is_byte_constrained" 'i' _ rfl (by decide), hh "alignment" 'a' _ rfl (by decide),
      hsort, hsizeref]

/-- Operator `unknown-keyword` on `make_const`: `NAME = xmake_const(…)`. -/
theorem unknown_const_keyword (name : String) (hn : IsConstantName name) (rest : Chars) :
    LineRejected (name.toList ++ ' ' :: '=' :: ' ' :: 'x' :: rest) := by
  obtain ⟨a, b, rs, heq, hup, hb, hrs⟩ := id hn
  have hc := constName_append name.toList (' ' :: '=' :: ' ' :: 'x' :: rest) hn (follows_blank_const _)
  have hnum : number ('x' :: rest) = none := by simp [number, hexNumber, decNumber, skipWs, isWs, isDigit]
  have hmk : lit "make_const" ('x' :: rest) = none := lit_none_of_head "make_const" 'm' _ rfl 'x' rest (by decide) (by decide)
  refine ⟨fun m => ?_, ?_, fun afterAttrs => ?_⟩
  · rw [heq]
    exact parseTopLine_none_of_head m a _ (not_ws_of_upper hup) (beq_false_of_upper _ (by decide) a hup)
      (beq_false_of_upper _ (by decide) a hup) (beq_false_of_upper _ (by decide) a hup) (beq_false_of_upper _ (by decide) a hup)
      (beq_false_of_upper _ (by decide) a hup) (beq_false_of_upper _ (by decide) a hup)
  · simp only [parseEnumLine, hc, bind, Option.bind, lit_skip_blank, lit_eq, number_skip_blank, hnum]
  · cases afterAttrs
    · simp only [parseStructLine, Bool.false_eq_true, if_false, hc, constMemberRest, lit_skip_blank, lit_eq, hmk, bind,
        Option.bind]
    · have e1 : propertyName (name.toList ++ ' ' :: '=' :: ' ' :: 'x' :: rest) = none := propertyName_none_of_const _ _ hn
      have e2 : lit "__value__" (name.toList ++ ' ' :: '=' :: ' ' :: 'x' :: rest) = none := by
        rw [heq]; exact lit_none_of_upper "__value__" '_' _ rfl (by decide) a _ hup
      have e3 : lit "@" (name.toList ++ ' ' :: '=' :: ' ' :: 'x' :: rest) = none := by
        rw [heq]; exact lit_none_of_upper "@" '@' _ rfl (by decide) a _ hup
      simp only [parseStructLine, if_true, e1, e2, e3, bind, Option.bind]

/-! ### more sites of the name and width operators -/

/-- Operator `bad-width` on the type of a member: `name = uint24…` / `name = int24…`. -/
theorem bad_width_member (name : String) (hn : IsMemberName name) (rest : Chars) :
    LineRejected (name.toList ++ ' ' :: '=' :: ' ' :: 'u' :: 'i' :: 'n' :: 't' :: '2' :: '4' :: rest) ∧
    LineRejected (name.toList ++ ' ' :: '=' :: ' ' :: 'i' :: 'n' :: 't' :: '2' :: '4' :: rest) := by
  have f1 : fixedSizeInteger ('u' :: 'i' :: 'n' :: 't' :: '2' :: '4' :: rest) = none := by
    simp [fixedSizeInteger, skipWs, isWs, litHere, List.isPrefixOf]
  have f2 : fixedSizeInteger ('i' :: 'n' :: 't' :: '2' :: '4' :: rest) = none := by
    simp [fixedSizeInteger, skipWs, isWs, litHere, List.isPrefixOf]
  have u1 : ∀ r, userTypeName ('u' :: r) = none := fun r => userTypeName_none_of_head 'u' r (by decide) (by decide)
  have u2 : ∀ r, userTypeName ('i' :: r) = none := fun r => userTypeName_none_of_head 'i' r (by decide) (by decide)
  have a1 : ∀ r, lit "array" ('u' :: r) = none := fun r => lit_none_of_head "array" 'a' _ rfl 'u' r (by decide) (by decide)
  have a2 : ∀ r, lit "array" ('i' :: r) = none := fun r => lit_none_of_head "array" 'a' _ rfl 'i' r (by decide) (by decide)
  have p1 : plainFieldRest name (' ' :: 'u' :: 'i' :: 'n' :: 't' :: '2' :: '4' :: rest) = none := by
    simp only [plainFieldRest, plainFieldType, fixedSizeInteger_skip_blank, f1, userTypeName_skip_blank, u1, lit_skip_blank, a1,
      bind, Option.bind]
  have p2 : plainFieldRest name (' ' :: 'i' :: 'n' :: 't' :: '2' :: '4' :: rest) = none := by
    simp only [plainFieldRest, plainFieldType, fixedSizeInteger_skip_blank, f2, userTypeName_skip_blank, u2, lit_skip_blank, a2,
      bind, Option.bind]
  constructor
  · apply member_line_rejected name hn _ _ p1
    have e1 : ∀ r, lit "make_reserved" ('u' :: r) = none := fun r => lit_none_of_head "make_reserved" 'm' _ rfl 'u' r (by decide) (by decide)
    have e2 : ∀ r, lit "sizeof" ('u' :: r) = none := fun r => lit_none_of_head "sizeof" 's' _ rfl 'u' r (by decide) (by decide)
    have e3 : ∀ r, lit "inline" ('u' :: r) = none := fun r => lit_none_of_head "inline" 'i' _ rfl 'u' r (by decide) (by decide)
    simp only [memberAfterEquals, lit_skip_blank, e1, e2, e3, p1, Option.map]
  · apply member_line_rejected name hn _ _ p2
    have e1 : ∀ r, lit "make_reserved" ('i' :: r) = none := fun r => lit_none_of_head "make_reserved" 'm' _ rfl 'i' r (by decide) (by decide)
    have e2 : ∀ r, lit "sizeof" ('i' :: r) = none := fun r => lit_none_of_head "sizeof" 's' _ rfl 'i' r (by decide) (by decide)
    simp only [memberAfterEquals, lit_skip_blank, e1, e2, lit_inline_int, p2, Option.map]

/-- Operators `one-char-name` and `wrong-case` on the name of a member or of an enum value: a line that starts
    with a single letter followed by a blank, or with an upper-case letter followed by a lower-case letter, and
    then `=`, is accepted nowhere. -/
theorem one_char_member_name (c : Char) (hc : isLower c = true ∨ isUpper c = true) (rest : Chars) :
    LineRejected (c :: ' ' :: '=' :: rest) := by
  have hws : isWs c = false := by rcases hc with h | h; exact not_ws_of_lower h; exact not_ws_of_upper h
  have hprop : propertyName (c :: ' ' :: '=' :: rest) = none := by
    unfold propertyName
    rw [skipWs_cons_of_not_ws c _ hws]
    simp [List.takeWhile, isLower, isDigit]
  have hconst : constName (c :: ' ' :: '=' :: rest) = none := by
    unfold constName
    rw [skipWs_cons_of_not_ws c _ hws]
    simp [List.takeWhile, isUpper, isDigit]
  have hval : lit "__value__" (c :: ' ' :: '=' :: rest) = none := by
    apply lit_none_of_head "__value__" '_' _ rfl c _ hws
    simp only [beq_eq_false_iff_ne, ne_eq]; intro h; subst h
    rcases hc with h | h <;> exact absurd h (by decide)
  have hat : lit "@" (c :: ' ' :: '=' :: rest) = none := by
    apply lit_none_of_head "@" '@' [] rfl c _ hws
    simp only [beq_eq_false_iff_ne, ne_eq]; intro h; subst h
    rcases hc with h | h <;> exact absurd h (by decide)
  refine ⟨fun m => ?_, ?_, fun b => ?_⟩
  · rcases hc with h | h
    · have := parseTopLine_assignment_none m c [] rest h (by simp [isPropChar, h])
      simpa using this
    · exact parseTopLine_none_of_head m c _ hws (beq_false_of_upper _ (by decide) c h) (beq_false_of_upper _ (by decide) c h)
        (beq_false_of_upper _ (by decide) c h) (beq_false_of_upper _ (by decide) c h) (beq_false_of_upper _ (by decide) c h)
        (beq_false_of_upper _ (by decide) c h)
  · simp only [parseEnumLine, hconst, bind, Option.bind]
  · cases b <;> simp only [parseStructLine, hconst, hprop, hval, hat, bind, Option.bind, Bool.false_eq_true, ↓reduceIte]

theorem wrong_case_member_name (a b : Char) (ha : isUpper a = true) (hb : isLower b = true) (rest : Chars) :
    LineRejected (a :: b :: rest) := by
  have hws := not_ws_of_upper ha
  have hprop : propertyName (a :: b :: rest) = none := propertyName_none_of_head a _ hws (not_lower_of_upper ha)
  have hconst : constName (a :: b :: rest) = none := by
    unfold constName
    rw [skipWs_cons_of_not_ws a _ hws]
    have hbc : isUpper b = false := not_upper_of_lower hb
    have hbd : isDigit b = false := by
      cases hd : isDigit b with
      | false => rfl
      | true => rw [not_lower_of_digit hd] at hb; cases hb
    have hbu : (b == '_') = false := by
      simp only [beq_eq_false_iff_ne, ne_eq]; intro h; subst h; exact absurd hb (by decide)
    simp [List.takeWhile, hbc, hbd, hbu]
  have hval : lit "__value__" (a :: b :: rest) = none := lit_none_of_upper "__value__" '_' _ rfl (by decide) a _ ha
  have hat : lit "@" (a :: b :: rest) = none := lit_none_of_upper "@" '@' _ rfl (by decide) a _ ha
  refine ⟨fun m => ?_, ?_, fun bb => ?_⟩
  · exact parseTopLine_none_of_head m a _ hws (beq_false_of_upper _ (by decide) a ha) (beq_false_of_upper _ (by decide) a ha)
      (beq_false_of_upper _ (by decide) a ha) (beq_false_of_upper _ (by decide) a ha) (beq_false_of_upper _ (by decide) a ha)
      (beq_false_of_upper _ (by decide) a ha)
  · simp only [parseEnumLine, hconst, bind, Option.bind]
  · cases bb <;> simp only [parseStructLine, hconst, hprop, hval, hat, bind, Option.bind, Bool.false_eq_true, ↓reduceIte]

end SymbolVerif.Cats.Parser

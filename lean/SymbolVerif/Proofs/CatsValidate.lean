/-
Helper lemmas for `Properties/C06.lean`.
-/
import SymbolVerif.Model.Cats.Validate
namespace SymbolVerif.Cats

/-! ## where errors come from -/

theorem mem_validate_of_decl {mode : Mode} {S : Schema} {d : Decl} {e : ErrorDescriptor} (hd : d ∈ S) (he : e ∈ declErrors mode S d) :
    e ∈ validate mode S := by
  unfold validate
  exact List.mem_flatMap.mpr ⟨d, hd, he⟩

theorem mem_validate_of_member {mode : Mode} {S : Schema} {M : Struct} {m : Member} {e : ErrorDescriptor}
    (hM : Decl.struct M ∈ S) (hm : m ∈ M.fields) (he : e ∈ memberErrors S M m) : e ∈ validate mode S := by
  apply mem_validate_of_decl hM
  simp only [declErrors, structErrors, List.mem_append, List.mem_flatMap]
  exact Or.inl (Or.inr ⟨m, hm, he⟩)

theorem mem_validate_of_attrs {S : Schema} {M : Struct} {e : ErrorDescriptor}
    (hM : Decl.struct M ∈ S) (he : e ∈ structAttributeErrors M) : e ∈ validate .post S := by
  apply mem_validate_of_decl hM
  simp only [declErrors, structErrors, List.mem_append]
  exact Or.inr (by simpa using he)

/-- all errors of a list name the given struct and members -/
def Named (tn : String) (fns : List String) (l : List ErrorDescriptor) : Prop := ∀ e ∈ l, e.typename = tn ∧ e.fieldNames = fns

theorem Named.nil {tn fns} : Named tn fns [] := fun _ h => by cases h
theorem Named.single {tn fns k m} : Named tn fns [mkErr tn fns k m] := by
  intro e he; simp [mkErr] at he; subst he; exact ⟨rfl, rfl⟩
theorem Named.append {tn fns a b} (ha : Named tn fns a) (hb : Named tn fns b) : Named tn fns (a ++ b) := by
  intro e he; rcases List.mem_append.mp he with h | h
  · exact ha e h
  · exact hb e h
theorem Named.flatMap {α : Type} {tn fns} {l : List α} {f : α → List ErrorDescriptor} (h : ∀ a ∈ l, Named tn fns (f a)) :
    Named tn fns (l.flatMap f) := by
  intro e he; obtain ⟨a, ha, hea⟩ := List.mem_flatMap.mp he; exact h a ha e hea

macro "named_tac" : tactic =>
  `(tactic| ((try dsimp only); repeat' split) <;> (first | exact Named.nil | exact Named.single | skip))

theorem inRangeErrors_named {S : Schema} {tn fn : String} {ft : FieldType} {v : Scalar} :
    Named tn [fn] (inRangeErrors S tn fn ft v) := by
  unfold inRangeErrors
  named_tac

theorem sizeofErrors_named {S : Schema} {M : Struct} {f : StructField} {v : Scalar} :
    Named M.name [f.name] (sizeofErrors S M f v) := by
  unfold sizeofErrors
  named_tac

theorem typeErrors_named {S : Schema} {M : Struct} {f : StructField} : Named M.name [f.name] (typeErrors S M.name f) := by
  unfold typeErrors
  named_tac

theorem integerErrors_named {M : Struct} {f : StructField} : Named M.name [f.name] (integerErrors M f) := by
  unfold integerErrors
  named_tac

theorem arrayErrors_named {S : Schema} {M : Struct} {f : StructField} : Named M.name [f.name] (arrayErrors S M f) := by
  unfold arrayErrors
  split
  · refine Named.append (Named.append ?_ ?_) ?_
    · unfold arrayElemErrors; named_tac
    · unfold arraySortErrors; named_tac
    · unfold arraySizeErrors; named_tac
  · exact Named.nil

theorem valueErrors_named {S : Schema} {M : Struct} {f : StructField} : Named M.name [f.name] (valueErrors S M f) := by
  unfold valueErrors
  ((try dsimp only); repeat' split) <;>
    (first | exact Named.nil | exact Named.single | exact sizeofErrors_named | exact inRangeErrors_named)

theorem attributeErrors_named {M : Struct} {f : StructField} : Named M.name [f.name] (attributeErrors M.name f) := by
  unfold attributeErrors
  apply Named.flatMap
  intro a _
  named_tac

/-- every error of a member check names the struct and exactly that member -/
theorem fieldErrors_names {S : Schema} {M : Struct} {f : StructField} {e : ErrorDescriptor} (he : e ∈ fieldErrors S M f) :
    e.typename = M.name ∧ e.fieldNames = [f.name] := by
  have : Named M.name [f.name] (fieldErrors S M f) := by
    unfold fieldErrors
    exact Named.append (Named.append (Named.append (Named.append typeErrors_named integerErrors_named) arrayErrors_named)
      valueErrors_named) attributeErrors_named
  exact this e he

macro "named_leaf" : tactic =>
  `(tactic| first | exact Named.nil | exact Named.single
                  | (apply Named.append <;> first | exact Named.nil | exact Named.single))

theorem knownFieldErrors_named {M : Struct} {p : String} {vs : List Scalar} : Named M.name [] (knownFieldErrors M p vs) := by
  unfold knownFieldErrors
  apply Named.flatMap; intro a _; split <;> named_leaf

theorem structAttributeErrors_named {M : Struct} : Named M.name [] (structAttributeErrors M) := by
  unfold structAttributeErrors
  refine Named.append (Named.append (Named.append ?_ ?_) ?_) ?_
  · unfold sizeAttributeErrors
    ((try dsimp only); repeat' split) <;> (first | exact knownFieldErrors_named | named_leaf)
  · exact knownFieldErrors_named
  · unfold comparerErrors
    apply Named.flatMap; intro a _
    ((try dsimp only); repeat' split) <;> named_leaf
  · unfold initializerErrors
    apply Named.flatMap; intro a _
    ((try dsimp only); repeat' split) <;> named_leaf

theorem knownField_complete {M : Struct} {p : String} {vs : List Scalar} {v : Scalar} (hv : v ∈ vs) (hbad : inFieldMap M v = false) :
    ∃ e ∈ knownFieldErrors M p vs, e.typename = M.name ∧ e.kind = .unknownAttributeProperty := by
  refine ⟨mkErr M.name [] .unknownAttributeProperty s!"reference to unknown \"{p}\" property \"{v.pyStr}\"", ?_, rfl, rfl⟩
  unfold knownFieldErrors
  exact List.mem_flatMap.mpr ⟨v, hv, by simp [hbad]⟩

theorem exists_mem_ite_nil {c : Prop} [Decidable c] {x : ErrorDescriptor} {P : ErrorDescriptor → Prop} (hc : ¬ c) (hp : P x) :
    ∃ e ∈ (if c then [] else [x]), P e := ⟨x, by simp [hc], hp⟩

theorem exists_mem_singleton {x : ErrorDescriptor} {P : ErrorDescriptor → Prop} (hp : P x) : ∃ e ∈ [x], P e :=
  ⟨x, List.mem_singleton_self x, hp⟩

/-! ## locality: the errors of a struct depend on the schema only through the types its members name -/

/-- the type names a struct's members mention: member types, array element types, inlined types -/
def typeRefs (M : Struct) : List String :=
  M.fields.flatMap fun
    | .inlinePlaceholder t _ => [t]
    | .field f =>
      match f.fieldType with
      | .named n => [n]
      | .array a => (match a.elementType with | .named n => [n] | _ => [])
      | .int _ => []

theorem flatMap_congr' {α β : Type} {l : List α} {f g : α → List β} (h : ∀ a ∈ l, f a = g a) : l.flatMap f = l.flatMap g := by
  induction l with
  | nil => rfl
  | cons a rest ih =>
    simp only [List.flatMap_cons, h a List.mem_cons_self, ih (fun b hb => h b (List.mem_cons_of_mem _ hb))]

theorem mem_typeRefs_named {M : Struct} {f : StructField} {n : String} (hf : Member.field f ∈ M.fields) (hft : f.fieldType = .named n) :
    n ∈ typeRefs M := by
  unfold typeRefs
  exact List.mem_flatMap.mpr ⟨.field f, hf, by simp [hft]⟩

theorem mem_typeRefs_elem {M : Struct} {f : StructField} {a : ArrayType} {n : String} (hf : Member.field f ∈ M.fields)
    (hft : f.fieldType = .array a) (he : a.elementType = .named n) : n ∈ typeRefs M := by
  unfold typeRefs
  exact List.mem_flatMap.mpr ⟨.field f, hf, by simp [hft, he]⟩

theorem mem_typeRefs_placeholder {M : Struct} {t : String} {c : Option Comment} (hf : Member.inlinePlaceholder t c ∈ M.fields) :
    t ∈ typeRefs M := by
  unfold typeRefs
  exact List.mem_flatMap.mpr ⟨.inlinePlaceholder t c, hf, by simp⟩

theorem mem_structFields {M : Struct} {f : StructField} (h : f ∈ M.structFields) : Member.field f ∈ M.fields := by
  unfold Struct.structFields at h
  obtain ⟨m, hm, hmf⟩ := List.mem_filterMap.mp h
  cases m with
  | field g => simp at hmf; subst hmf; exact hm
  | inlinePlaceholder t c => simp at hmf

theorem fieldMapGet_mem {M : Struct} {v : String} {t : StructField} (h : fieldMapGet M v = some t) : Member.field t ∈ M.fields := by
  unfold fieldMapGet at h
  exact mem_structFields (List.mem_reverse.mp (List.mem_of_find?_eq_some h))

theorem inRangeErrors_congr {S S' : Schema} {tn fn : String} {ft : FieldType} {v : Scalar}
    (h : ∀ n, ft = .named n → Schema.lookup S n = Schema.lookup S' n) : inRangeErrors S tn fn ft v = inRangeErrors S' tn fn ft v := by
  unfold inRangeErrors
  cases ft with
  | named n => simp only [h n rfl]
  | int t => rfl
  | array a => rfl

theorem fieldErrors_congr {S S' : Schema} {M : Struct} {f : StructField} (hf : Member.field f ∈ M.fields)
    (h : ∀ n ∈ typeRefs M, Schema.lookup S n = Schema.lookup S' n) : fieldErrors S M f = fieldErrors S' M f := by
  have h1 : typeErrors S M.name f = typeErrors S' M.name f := by
    unfold typeErrors
    cases hft : f.fieldType with
    | named n => simp only [h n (mem_typeRefs_named hf hft)]
    | int t => rfl
    | array a => rfl
  have h3 : arrayErrors S M f = arrayErrors S' M f := by
    unfold arrayErrors
    cases hft : f.fieldType with
    | named n => rfl
    | int t => rfl
    | array a =>
      simp only
      cases he : a.elementType with
      | int t => simp [arrayElemErrors, arraySortErrors, elemKnown, sortKeyOk, sortKeyValid, he]
      | named n =>
        have := h n (mem_typeRefs_elem hf hft he)
        simp [arrayElemErrors, arraySortErrors, elemKnown, sortKeyOk, sortKeyValid, isKnownType, he, this]
  have hsz : ∀ v, sizeofErrors S M f v = sizeofErrors S' M f v := by
    intro v
    unfold sizeofErrors
    cases hv : sizeofTarget M v with
    | none => rfl
    | some target =>
      have hmem : Member.field target ∈ M.fields := by
        cases v with
        | str s => exact fieldMapGet_mem hv
        | int i => simp [sizeofTarget] at hv
        | bool b => simp [sizeofTarget] at hv
        | none => simp [sizeofTarget] at hv
      simp only
      cases hft : target.fieldType with
      | named n => simp only [h n (mem_typeRefs_named hmem hft)]
      | int t => rfl
      | array a => rfl
  have h4 : valueErrors S M f = valueErrors S' M f := by
    unfold valueErrors
    cases hval : f.value with
    | scalar v =>
      cases v with
      | none => rfl
      | str s => simp only [hsz]; rw [inRangeErrors_congr (fun n hn => h n (mem_typeRefs_named hf hn))]
      | int i => simp only [hsz]; rw [inRangeErrors_congr (fun n hn => h n (mem_typeRefs_named hf hn))]
      | bool b => simp only [hsz]; rw [inRangeErrors_congr (fun n hn => h n (mem_typeRefs_named hf hn))]
    | cond c =>
      simp only [hsz]
      cases hl : fieldMapGet M c.linkedFieldName with
      | none => rfl
      | some linked =>
        simp only
        rw [inRangeErrors_congr (fun n hn => h n (mem_typeRefs_named (fieldMapGet_mem hl) hn))]
  unfold fieldErrors
  rw [h1, h3, h4]

theorem structErrors_congr {mode : Mode} {S S' : Schema} {M : Struct}
    (h : ∀ n ∈ typeRefs M, Schema.lookup S n = Schema.lookup S' n) : structErrors mode S M = structErrors mode S' M := by
  unfold structErrors
  have : M.fields.flatMap (memberErrors S M) = M.fields.flatMap (memberErrors S' M) := by
    apply flatMap_congr'
    intro m hm
    cases m with
    | inlinePlaceholder t c =>
      have hk : isKnownType S t = isKnownType S' t := by unfold isKnownType; rw [h t (mem_typeRefs_placeholder hm)]
      simp only [memberErrors, hk]
    | field f => exact fieldErrors_congr hm h
  rw [this]

/-! ## duplicate names -/

theorem findDuplicateNames_of_nodup : ∀ (l seen dups : List String), l.Nodup → (∀ x ∈ l, x ∉ seen) →
    findDuplicateNames l seen dups = dups := by
  intro l
  induction l with
  | nil => intro _ _ _ _; rfl
  | cons n rest ih =>
    intro seen dups hnd hdis
    have hn : n ∉ seen := hdis n List.mem_cons_self
    simp only [findDuplicateNames, hn, if_false]
    apply ih _ _ (List.nodup_cons.mp hnd).2
    intro x hx
    simp only [List.mem_append, List.mem_singleton, not_or]
    refine ⟨hdis x (List.mem_cons_of_mem _ hx), ?_⟩
    rintro rfl
    exact (List.nodup_cons.mp hnd).1 hx

theorem duplicateNames_of_nodup {l : List String} (h : l.Nodup) : duplicateNames l = [] :=
  findDuplicateNames_of_nodup l [] [] h (fun _ _ h => by cases h)

theorem mem_findDuplicateNames : ∀ (l seen dups : List String) (n : String),
    (n ∈ dups ∨ (n ∈ seen ∧ n ∈ l) ∨ 2 ≤ l.count n) → n ∈ findDuplicateNames l seen dups := by
  intro l
  induction l with
  | nil =>
    intro seen dups n h
    rcases h with h | h | h
    · exact h
    · cases h.2
    · simp at h
  | cons a rest ih =>
    intro seen dups n h
    unfold findDuplicateNames
    by_cases ha : a ∈ seen
    · simp only [ha, if_true]
      by_cases had : a ∈ dups
      · simp only [had, if_true]
        apply ih
        rcases h with h | h | h
        · exact Or.inl h
        · rcases List.mem_cons.mp h.2 with rfl | hr
          · exact Or.inl had
          · exact Or.inr (Or.inl ⟨h.1, hr⟩)
        · by_cases hna : n = a
          · subst hna; exact Or.inl had
          · have : rest.count n = (a :: rest).count n := by simp [List.count_cons, Ne.symm hna]
            exact Or.inr (Or.inr (by omega))
      · simp only [had, if_false]
        apply ih
        rcases h with h | h | h
        · exact Or.inl (List.mem_append_left _ h)
        · rcases List.mem_cons.mp h.2 with rfl | hr
          · exact Or.inl (List.mem_append_right _ (by simp))
          · exact Or.inr (Or.inl ⟨h.1, hr⟩)
        · by_cases hna : n = a
          · subst hna; exact Or.inl (List.mem_append_right _ (by simp))
          · have : rest.count n = (a :: rest).count n := by simp [List.count_cons, Ne.symm hna]
            exact Or.inr (Or.inr (by omega))
    · simp only [ha, if_false]
      apply ih
      rcases h with h | h | h
      · exact Or.inl h
      · rcases List.mem_cons.mp h.2 with rfl | hr
        · exact absurd h.1 ha
        · exact Or.inr (Or.inl ⟨List.mem_append_left _ h.1, hr⟩)
      · by_cases hna : n = a
        · subst hna
          have hc : 1 ≤ rest.count n := by
            have := h; rw [List.count_cons_self] at this; omega
          exact Or.inr (Or.inl ⟨List.mem_append_right _ (by simp), List.count_pos_iff.mp (by omega)⟩)
        · have : rest.count n = (a :: rest).count n := by simp [List.count_cons, Ne.symm hna]
          exact Or.inr (Or.inr (by omega))

theorem mem_duplicateNames {l : List String} {n : String} (h : 2 ≤ l.count n) : n ∈ duplicateNames l :=
  mem_findDuplicateNames l [] [] n (Or.inr (Or.inr h))

end SymbolVerif.Cats

/-
Scanner toolkit for the round-trip proofs: what each terminal scanner of `Model/Cats/Lexer.lean` does on a text that
starts with a rendered piece (a keyword, a well-formed name, a decimal numeral, an integer type name) followed by
the rest of the line.
-/
import SymbolVerif.Proofs.CatsScanLemmas
import SymbolVerif.Model.Cats.Syntax
namespace SymbolVerif.Cats.Lexer
open SymbolVerif.Cats

/-- the rest of the line cannot continue a token made of `P` characters -/
def Follows (P : Char → Bool) (r : Chars) : Prop := ∀ c, r.head? = some c → P c = false

theorem follows_nil (P : Char → Bool) : Follows P [] := by intro c h; cases h
theorem follows_cons (P : Char → Bool) (c : Char) (r : Chars) (h : P c = false) : Follows P (c :: r) := by
  intro d hd; cases hd; exact h

/-! ### leading blanks are skipped by every scanner -/

theorem skipWs_blank (cs : Chars) : skipWs (' ' :: cs) = skipWs cs := by simp [skipWs, List.dropWhile, isWs]
theorem skipWs_nil : skipWs [] = [] := rfl

theorem propertyName_skip_blank (cs : Chars) : propertyName (' ' :: cs) = propertyName cs := by
  simp only [propertyName, skipWs_blank]
theorem constName_skip_blank (cs : Chars) : constName (' ' :: cs) = constName cs := by
  simp only [constName, skipWs_blank]
theorem number_skip_blank (cs : Chars) : number (' ' :: cs) = number cs := by
  simp only [number, hexNumber, decNumber, skipWs_blank]
theorem fixedSizeInteger_skip_blank (cs : Chars) : fixedSizeInteger (' ' :: cs) = fixedSizeInteger cs := by
  simp only [fixedSizeInteger, skipWs_blank]
theorem conditionalOperation_skip_blank (cs : Chars) : conditionalOperation (' ' :: cs) = conditionalOperation cs := by
  simp only [conditionalOperation, skipWs_blank]
theorem structModifier_skip_blank (cs : Chars) : structModifier (' ' :: cs) = structModifier cs := by
  simp only [structModifier, skipWs_blank]
theorem atEol_nil : atEol [] = true := rfl

/-! ### names -/

theorem not_ws_of_propChar_lower {c : Char} (h : isLower c = true) : isWs c = false := not_ws_of_lower h

theorem propertyName_append (w r : Chars) (hw : IsPropertyName w) (hr : Follows isPropChar r) :
    propertyName (w ++ r) = some (String.ofList w, r) := by
  obtain ⟨a, b, rest, rfl, ha, hb, hrest⟩ := hw
  have hall : (b :: rest).all isPropChar = true := by simp [hb, hrest]
  obtain ⟨h1, h2⟩ := takeWhile_append_stop isPropChar (b :: rest) r hall hr
  unfold propertyName
  have hws : skipWs (a :: b :: rest ++ r) = a :: ((b :: rest) ++ r) := skipWs_cons_of_not_ws a _ (not_ws_of_lower ha)
  rw [hws]
  have hp : (fun c => isLower c || isDigit c || c == '_') = isPropChar := rfl
  simp only [hp, h1, h2, ha, List.isEmpty_cons, Bool.not_false, Bool.and_self, if_true]

theorem constName_append (w r : Chars) (hw : IsConstName w) (hr : Follows isConstChar r) :
    constName (w ++ r) = some (String.ofList w, r) := by
  obtain ⟨a, b, rest, rfl, ha, hb, hrest⟩ := hw
  have hall : (b :: rest).all isConstChar = true := by simp [hb, hrest]
  obtain ⟨h1, h2⟩ := takeWhile_append_stop isConstChar (b :: rest) r hall hr
  unfold constName
  have hws : skipWs (a :: b :: rest ++ r) = a :: ((b :: rest) ++ r) := skipWs_cons_of_not_ws a _ (not_ws_of_upper ha)
  rw [hws]
  have hp : (fun c => isUpper c || isDigit c || c == '_') = isConstChar := rfl
  simp only [hp, h1, h2, ha, List.isEmpty_cons, Bool.not_false, Bool.and_self, if_true]

/-- a name in the class `PROPERTY_NAME` does not start like a constant, and vice versa -/
theorem not_upper_of_lower {c : Char} (h : isLower c = true) : isUpper c = false := by
  simp only [isLower, isUpper, Bool.and_eq_true, decide_eq_true_eq, Bool.and_eq_false_iff, decide_eq_false_iff_not,
    Char.le_def, UInt32.le_iff_toNat_le] at *
  have e1 : ('a' : Char).val.toNat = 97 := by decide
  have e2 : ('Z' : Char).val.toNat = 90 := by decide
  omega

theorem not_lower_of_upper {c : Char} (h : isUpper c = true) : isLower c = false := by
  cases hl : isLower c with
  | false => rfl
  | true => rw [not_upper_of_lower hl] at h; cases h

theorem constName_none_of_property (w r : Chars) (hw : IsPropertyName w) : constName (w ++ r) = none := by
  obtain ⟨a, b, rest, rfl, ha, hb, hrest⟩ := hw
  exact constName_none_of_head a _ (not_ws_of_lower ha) (not_upper_of_lower ha)

theorem propertyName_none_of_const (w r : Chars) (hw : IsConstName w) : propertyName (w ++ r) = none := by
  obtain ⟨a, b, rest, rfl, ha, hb, hrest⟩ := hw
  exact propertyName_none_of_head a _ (not_ws_of_upper ha) (not_lower_of_upper ha)

/-! ### punctuation and keywords -/

theorem lit_eq (r : Chars) : lit "=" ('=' :: r) = some r := by simp [lit, skipWs, isWs, List.isPrefixOf]
theorem lit_colon (r : Chars) : lit ":" (':' :: r) = some r := by simp [lit, skipWs, isWs, List.isPrefixOf]
theorem lit_comma (r : Chars) : lit "," (',' :: r) = some r := by simp [lit, skipWs, isWs, List.isPrefixOf]
theorem lit_lpar (r : Chars) : lit "(" ('(' :: r) = some r := by simp [lit, skipWs, isWs, List.isPrefixOf]
theorem lit_rpar (r : Chars) : lit ")" (')' :: r) = some r := by simp [lit, skipWs, isWs, List.isPrefixOf]
theorem lit_bang (r : Chars) : lit "!" ('!' :: r) = some r := by simp [lit, skipWs, isWs, List.isPrefixOf]
theorem lit_at (r : Chars) : lit "@" ('@' :: r) = some r := by simp [lit, skipWs, isWs, List.isPrefixOf]

theorem lit_enum (r : Chars) : lit "enum" ('e' :: 'n' :: 'u' :: 'm' :: r) = some r := by
  simp [lit, skipWs, isWs, List.isPrefixOf]
theorem lit_struct (r : Chars) : lit "struct" ('s' :: 't' :: 'r' :: 'u' :: 'c' :: 't' :: r) = some r := by
  simp [lit, skipWs, isWs, List.isPrefixOf]
theorem lit_make_const (r : Chars) :
    lit "make_const" ('m' :: 'a' :: 'k' :: 'e' :: '_' :: 'c' :: 'o' :: 'n' :: 's' :: 't' :: r) = some r := by
  simp [lit, skipWs, isWs, List.isPrefixOf]
theorem lit_make_reserved (r : Chars) :
    lit "make_reserved" ('m' :: 'a' :: 'k' :: 'e' :: '_' :: 'r' :: 'e' :: 's' :: 'e' :: 'r' :: 'v' :: 'e' :: 'd' :: r) = some r := by
  simp [lit, skipWs, isWs, List.isPrefixOf]
theorem lit_sizeof (r : Chars) : lit "sizeof" ('s' :: 'i' :: 'z' :: 'e' :: 'o' :: 'f' :: r) = some r := by
  simp [lit, skipWs, isWs, List.isPrefixOf]
theorem lit_inline (r : Chars) : lit "inline" ('i' :: 'n' :: 'l' :: 'i' :: 'n' :: 'e' :: r) = some r := by
  simp [lit, skipWs, isWs, List.isPrefixOf]
theorem lit_array (r : Chars) : lit "array" ('a' :: 'r' :: 'r' :: 'a' :: 'y' :: r) = some r := by
  simp [lit, skipWs, isWs, List.isPrefixOf]
theorem lit_if (r : Chars) : lit "if" ('i' :: 'f' :: r) = some r := by
  simp [lit, skipWs, isWs, List.isPrefixOf]
theorem lit_fill (r : Chars) : lit "__FILL__" ('_' :: '_' :: 'F' :: 'I' :: 'L' :: 'L' :: '_' :: '_' :: r) = some r := by
  simp [lit, skipWs, isWs, List.isPrefixOf]
theorem lit_inline_int (r : Chars) : lit "inline" ('i' :: 'n' :: 't' :: r) = none := by
  simp [lit, skipWs, isWs, List.isPrefixOf]

/-- a keyword made of lower-case letters does not match a text that starts with an upper-case letter -/
theorem lit_none_of_upper (s : String) (s0 : Char) (srest : Chars) (hs : s.toList = s0 :: srest) (hs0 : isUpper s0 = false)
    (a : Char) (r : Chars) (ha : isUpper a = true) : lit s (a :: r) = none := by
  apply lit_none_of_head s s0 srest hs a r (not_ws_of_upper ha)
  simp only [beq_eq_false_iff_ne, ne_eq]
  intro h; subst h; rw [ha] at hs0; cases hs0

/-! ### integer types -/

theorem shortName_cases (u : Bool) (sz : Nat) (h : sz = 1 ∨ sz = 2 ∨ sz = 4 ∨ sz = 8) :
    (IntType.shortName ⟨u, sz, none⟩).toList = (if u then ['u'] else []) ++ ('i' :: 'n' :: 't' ::
      (if sz = 1 then ['8'] else if sz = 2 then ['1', '6'] else if sz = 4 then ['3', '2'] else ['6', '4'])) := by
  rcases h with rfl | rfl | rfl | rfl <;> cases u <;> decide

/-- the eight integer type names are scanned whatever follows them -/
theorem fixedSizeInteger_shortName (u : Bool) (sz : Nat) (h : sz = 1 ∨ sz = 2 ∨ sz = 4 ∨ sz = 8) (r : Chars) :
    fixedSizeInteger ((IntType.shortName ⟨u, sz, none⟩).toList ++ r) = some ((u, sz), r) := by
  rw [shortName_cases u sz h]
  rcases h with rfl | rfl | rfl | rfl <;> cases u <;>
    simp [fixedSizeInteger, skipWs, isWs, litHere, List.isPrefixOf]

/-- a type name in the class `USER_TYPE_NAME` is not an integer type -/
theorem fixedSizeInteger_none_of_upper (a : Char) (r : Chars) (ha : isUpper a = true) : fixedSizeInteger (a :: r) = none := by
  have hu : a ≠ 'u' := by intro h; subst h; revert ha; decide
  have hi : ('i' == a) = false := by
    simp only [beq_eq_false_iff_ne, ne_eq]; intro h; subst h; revert ha; decide
  unfold fixedSizeInteger
  rw [skipWs_cons_of_not_ws a r (not_ws_of_upper ha)]
  simp only []
  split
  · rfl
  · rename_i t2 heq
    exfalso
    split at heq
    · rename_i h2; simp only [List.cons.injEq] at h2; exact hu h2.1
    · simp only [litHere_none_of_head "int" 'i' _ rfl a r hi] at heq
      cases heq

/-! ### more negative and end-of-line facts -/

theorem userTypeName_none_of_head (c : Char) (cs : Chars) (hws : isWs c = false) (hu : isUpper c = false) :
    userTypeName (c :: cs) = none := by
  unfold userTypeName
  rw [skipWs_cons_of_not_ws c cs hws]
  cases cs with
  | nil => rfl
  | cons b rest => simp [hu]

theorem fixedSizeInteger_none_of_head (c : Char) (r : Chars) (hws : isWs c = false) (hu : c ≠ 'u') (hi : ('i' == c) = false) :
    fixedSizeInteger (c :: r) = none := by
  unfold fixedSizeInteger
  rw [skipWs_cons_of_not_ws c r hws]
  simp only []
  split
  · rfl
  · rename_i t2 heq
    exfalso
    split at heq
    · rename_i h2; simp only [List.cons.injEq] at h2; exact hu h2.1
    · simp only [litHere_none_of_head "int" 'i' _ rfl c r hi] at heq
      cases heq

theorem atEol_cons (c : Char) (cs : Chars) (hws : isWs c = false) : atEol (c :: cs) = false := by
  simp [atEol, skipWs_cons_of_not_ws c cs hws]

theorem atEol_skip_blank (cs : Chars) : atEol (' ' :: cs) = atEol cs := by simp only [atEol, skipWs_blank]

theorem head_toDigits (n : Nat) : ∃ c cs, Nat.toDigits 10 n = c :: cs ∧ isDigit c = true := by
  cases hd : Nat.toDigits 10 n with
  | nil => exact absurd hd Nat.toDigits_ne_nil
  | cons c cs =>
    have := all_isDigit_toDigits n
    rw [hd] at this
    simp only [List.all_cons, Bool.and_eq_true] at this
    exact ⟨c, cs, rfl, this.1⟩

theorem not_upper_of_digit {c : Char} (h : isDigit c = true) : isUpper c = false := by
  simp only [isDigit, isUpper, Bool.and_eq_true, decide_eq_true_eq, Bool.and_eq_false_iff, decide_eq_false_iff_not,
    Char.le_def, UInt32.le_iff_toNat_le] at *
  have e1 : ('9' : Char).val.toNat = 57 := by decide
  have e2 : ('A' : Char).val.toNat = 65 := by decide
  omega

theorem not_lower_of_digit {c : Char} (h : isDigit c = true) : isLower c = false := by
  simp only [isDigit, isLower, Bool.and_eq_true, decide_eq_true_eq, Bool.and_eq_false_iff, decide_eq_false_iff_not,
    Char.le_def, UInt32.le_iff_toNat_le] at *
  have e1 : ('9' : Char).val.toNat = 57 := by decide
  have e2 : ('a' : Char).val.toNat = 97 := by decide
  omega

/-- a decimal numeral is neither a constant name nor a property name -/
theorem constName_toString_none (n : Nat) (r : Chars) : constName ((toString n).toList ++ r) = none := by
  rw [toString_toList]
  obtain ⟨c, cs, hd, hc⟩ := head_toDigits n
  rw [hd]
  exact constName_none_of_head c _ (not_ws_of_digit hc) (not_upper_of_digit hc)

theorem propertyName_toString_none (n : Nat) (r : Chars) : propertyName ((toString n).toList ++ r) = none := by
  rw [toString_toList]
  obtain ⟨c, cs, hd, hc⟩ := head_toDigits n
  rw [hd]
  exact propertyName_none_of_head c _ (not_ws_of_digit hc) (not_lower_of_digit hc)

/-- `__FILL__` is not a number -/
theorem number_underscore_none (r : Chars) : number ('_' :: r) = none := by
  simp [number, hexNumber, decNumber, skipWs, isWs, isDigit]

theorem propertyName_inline_blank (r : Chars) :
    propertyName ('i' :: 'n' :: 'l' :: 'i' :: 'n' :: 'e' :: ' ' :: r) = some ("inline", ' ' :: r) := by
  simp [propertyName, skipWs, isWs, isLower, isDigit, List.takeWhile, List.dropWhile]

/-! ### condition operators (`not equals`, `equals`, `not in`, `in` are tried in this order) -/

theorem condOp_equals (r : Chars) :
    conditionalOperation ('e' :: 'q' :: 'u' :: 'a' :: 'l' :: 's' :: r) = some ("equals", r) := by
  simp [conditionalOperation, skipWs, isWs, litHere, List.isPrefixOf]
theorem condOp_not_equals (r : Chars) :
    conditionalOperation ('n' :: 'o' :: 't' :: ' ' :: 'e' :: 'q' :: 'u' :: 'a' :: 'l' :: 's' :: r) = some ("not equals", r) := by
  simp [conditionalOperation, skipWs, isWs, litHere, List.isPrefixOf]
theorem condOp_in (r : Chars) : conditionalOperation ('i' :: 'n' :: r) = some ("in", r) := by
  simp [conditionalOperation, skipWs, isWs, litHere, List.isPrefixOf]
theorem condOp_not_in (r : Chars) :
    conditionalOperation ('n' :: 'o' :: 't' :: ' ' :: 'i' :: 'n' :: r) = some ("not in", r) := by
  simp [conditionalOperation, skipWs, isWs, litHere, List.isPrefixOf]

end SymbolVerif.Cats.Lexer

/- Helper lemmas for the base32 model: positional digits, big-endian bytes, alphabet tables (core Lean only). -/
import SymbolVerif.Model.Sdk.Base32
import SymbolVerif.Proofs.BytesLemmas
namespace SymbolVerif.Sdk.Base32
open SymbolVerif SymbolVerif.Bytes

/-! ### positional digits -/

@[simp] theorem digitsLE_length (b k n : Nat) : (digitsLE b k n).length = k := by
  induction k generalizing n with
  | zero => rfl
  | succ k ih => simp [digitsLE, ih]

theorem digitsLE_lt {b : Nat} (hb : 0 < b) (k n : Nat) : ∀ d ∈ digitsLE b k n, d < b := by
  induction k generalizing n with
  | zero => simp [digitsLE]
  | succ k ih =>
    intro d hd
    simp only [digitsLE, List.mem_cons] at hd
    rcases hd with rfl | hd
    · exact Nat.mod_lt _ hb
    · exact ih _ d hd

theorem ofDigitsLE_digitsLE (b k n : Nat) : ofDigitsLE b (digitsLE b k n) = n % b ^ k := by
  induction k generalizing n with
  | zero => simp [digitsLE, ofDigitsLE, Nat.mod_one]
  | succ k ih =>
    simp only [digitsLE, ofDigitsLE, ih, Nat.pow_succ]
    rw [Nat.mul_comm (b ^ k) b, Nat.mod_mul]

theorem ofDigitsLE_lt {b : Nat} (ds : List Nat) (h : ∀ d ∈ ds, d < b) : ofDigitsLE b ds < b ^ ds.length := by
  induction ds with
  | nil => simp [ofDigitsLE]
  | cons d ds ih =>
    have hd : d < b := h d (by simp)
    have := ih (fun x hx => h x (by simp [hx]))
    simp only [ofDigitsLE, List.length_cons, Nat.pow_succ]
    calc d + b * ofDigitsLE b ds < b + b * ofDigitsLE b ds := by omega
      _ = b * (ofDigitsLE b ds + 1) := by rw [Nat.mul_add, Nat.mul_one, Nat.add_comm]
      _ ≤ b * b ^ ds.length := Nat.mul_le_mul_left _ this
      _ = b ^ ds.length * b := Nat.mul_comm _ _

theorem digitsLE_ofDigitsLE {b : Nat} (ds : List Nat) (h : ∀ d ∈ ds, d < b) :
    digitsLE b ds.length (ofDigitsLE b ds) = ds := by
  induction ds with
  | nil => rfl
  | cons d ds ih =>
    have hd : d < b := h d (by simp)
    have hb : 0 < b := by omega
    simp only [List.length_cons, digitsLE, ofDigitsLE]
    have h1 : (d + b * ofDigitsLE b ds) % b = d := by
      rw [Nat.add_mul_mod_self_left]; exact Nat.mod_eq_of_lt hd
    have h2 : (d + b * ofDigitsLE b ds) / b = ofDigitsLE b ds := by
      rw [Nat.add_mul_div_left _ _ hb, Nat.div_eq_of_lt hd, Nat.zero_add]
    rw [h1, h2, ih (fun x hx => h x (by simp [hx]))]

/-! ### bytes -/

theorem leBytes_leNat (bs : Bytes) : leBytes bs.length (leNat bs) = bs := by
  induction bs with
  | nil => rfl
  | cons x xs ih =>
    have hx := x.toNat_lt
    simp only [List.length_cons, leBytes, leNat]
    have h1 : (x.toNat + 256 * leNat xs) % 256 = x.toNat := by omega
    have h2 : (x.toNat + 256 * leNat xs) / 256 = leNat xs := by omega
    rw [h1, h2, ih]
    simp

@[simp] theorem beBytes_length (w n : Nat) : (beBytes w n).length = w := by simp [beBytes]

theorem beNat_lt (bs : Bytes) : beNat bs < 256 ^ bs.length := by
  have := leNat_lt bs.reverse
  simpa [beNat] using this

theorem beBytes_beNat (bs : Bytes) : beBytes bs.length (beNat bs) = bs := by
  have := leBytes_leNat bs.reverse
  simp only [List.length_reverse] at this
  simp [beBytes, beNat, this]

theorem beNat_beBytes {w n : Nat} (h : n < 256 ^ w) : beNat (beBytes w n) = n := by
  simp [beBytes, beNat, leNat_leBytes_of_lt h]

/-! ### alphabet -/

theorem alphabet_length : alphabet.length = 32 := by decide

theorem valOf_charOf : ∀ d, d < 32 → valOf (charOf d) = some d := by decide

theorem charOf_mem : ∀ d, d < 32 → charOf d ∈ alphabet := by decide

theorem valOf_some {c : Char} {d : Nat} (h : valOf c = some d) : d < 32 ∧ charOf d = c ∧ c ∈ alphabet := by
  unfold valOf at h
  simp only at h
  split at h
  · rename_i hlt
    cases h
    have hl : alphabet.idxOf c < alphabet.length := by rw [alphabet_length]; exact hlt
    refine ⟨hlt, ?_, List.idxOf_lt_length_iff.1 hl⟩
    unfold charOf
    rw [List.getD_eq_getElem?_getD, List.getElem?_eq_getElem hl]
    simp
  · cases h

theorem valOf_isSome_iff (c : Char) : (valOf c).isSome ↔ c ∈ alphabet := by
  constructor
  · intro h
    obtain ⟨d, hd⟩ := Option.isSome_iff_exists.1 h
    exact (valOf_some hd).2.2
  · intro h
    have hl : alphabet.idxOf c < 32 := by
      have := List.idxOf_lt_length_iff.2 h
      rwa [alphabet_length] at this
    simp [valOf, hl]

theorem valOf_none_of_not_mem {c : Char} (h : c ∉ alphabet) : valOf c = none := by
  cases hv : valOf c with
  | none => rfl
  | some d => exact absurd (valOf_some hv).2.2 h

theorem mapM_valOf_map_charOf (ds : List Nat) (h : ∀ d ∈ ds, d < 32) : (ds.map charOf).mapM valOf = some ds := by
  induction ds with
  | nil => rfl
  | cons d ds ih =>
    have hd := valOf_charOf d (h d (by simp))
    have := ih (fun x hx => h x (by simp [hx]))
    simp [List.mapM_cons, hd, this]

theorem mapM_valOf_some {cs : List Char} {ds : List Nat} (h : cs.mapM valOf = some ds) :
    ds.map charOf = cs ∧ (∀ d ∈ ds, d < 32) ∧ ds.length = cs.length ∧ ∀ c ∈ cs, c ∈ alphabet := by
  induction cs generalizing ds with
  | nil =>
    simp at h
    subst h; simp
  | cons c cs ih =>
    simp only [List.mapM_cons] at h
    cases hv : valOf c with
    | none => simp [hv] at h
    | some d =>
      cases hr : cs.mapM valOf with
      | none => simp [hv, hr] at h
      | some r =>
        simp [hv, hr] at h
        subst h
        obtain ⟨h1, h2, h3, h4⟩ := ih hr
        obtain ⟨g1, g2, g3⟩ := valOf_some hv
        refine ⟨by simp [g2, h1], ?_, by simp [h3], ?_⟩
        · intro x hx
          simp only [List.mem_cons] at hx
          rcases hx with rfl | hx
          · exact g1
          · exact h2 x hx
        · intro x hx
          simp only [List.mem_cons] at hx
          rcases hx with rfl | hx
          · exact g3
          · exact h4 x hx

theorem mapM_valOf_none_of_not_mem {cs : List Char} {c : Char} (hc : c ∈ cs) (h : c ∉ alphabet) :
    cs.mapM valOf = none := by
  cases hm : cs.mapM valOf with
  | none => rfl
  | some ds => exact absurd ((mapM_valOf_some hm).2.2.2 c hc) h

theorem mapM_valOf_isSome {cs : List Char} (h : ∀ c ∈ cs, c ∈ alphabet) : ∃ ds, cs.mapM valOf = some ds := by
  induction cs with
  | nil => exact ⟨[], rfl⟩
  | cons c cs ih =>
    obtain ⟨ds, hds⟩ := ih (fun x hx => h x (by simp [hx]))
    obtain ⟨d, hd⟩ := Option.isSome_iff_exists.1 ((valOf_isSome_iff c).2 (h c (by simp)))
    exact ⟨d :: ds, by simp [List.mapM_cons, hd, hds]⟩

/-! ### one quantum -/

@[simp] theorem encGroup_length (g : Bytes) : (encGroup g).length = 8 := by simp [encGroup]

theorem encGroup_mem (g : Bytes) : ∀ c ∈ encGroup g, c ∈ alphabet := by
  intro c hc
  simp only [encGroup, List.mem_map, List.mem_reverse] at hc
  obtain ⟨d, hd, rfl⟩ := hc
  exact charOf_mem d (digitsLE_lt (by decide) _ _ d hd)

theorem decGroup_encGroup (g : Bytes) (hg : g.length = 5) : decGroup (encGroup g) = some g := by
  unfold decGroup encGroup
  have hlt : ∀ d ∈ (digitsLE 32 8 (beNat g)).reverse, d < 32 := by
    intro d hd
    exact digitsLE_lt (by decide) _ _ d (by simpa using hd)
  rw [mapM_valOf_map_charOf _ hlt]
  simp only [List.reverse_reverse, ofDigitsLE_digitsLE]
  have hb : beNat g < 32 ^ 8 := by
    have := beNat_lt g
    rw [hg] at this
    have e : (256 : Nat) ^ 5 = 32 ^ 8 := by decide
    omega
  rw [Nat.mod_eq_of_lt hb]
  have := beBytes_beNat g
  rw [hg] at this
  rw [this]

theorem encGroup_decGroup {cs : List Char} {g : Bytes} (hc : cs.length = 8) (h : decGroup cs = some g) :
    encGroup g = cs ∧ g.length = 5 := by
  unfold decGroup at h
  cases hm : cs.mapM valOf with
  | none => simp [hm] at h
  | some ds =>
    simp only [hm, Option.some.injEq] at h
    subst h
    obtain ⟨h1, h2, h3, _⟩ := mapM_valOf_some hm
    refine ⟨?_, by simp⟩
    unfold encGroup
    have hl : ds.reverse.length = 8 := by simp [h3, hc]
    have hlt : ∀ d ∈ ds.reverse, d < 32 := fun d hd => h2 d (by simpa using hd)
    have hb : ofDigitsLE 32 ds.reverse < 256 ^ 5 := by
      have := ofDigitsLE_lt ds.reverse hlt
      rw [hl] at this
      have e : (256 : Nat) ^ 5 = 32 ^ 8 := by decide
      omega
    rw [beNat_beBytes hb]
    have := digitsLE_ofDigitsLE ds.reverse hlt
    rw [hl] at this
    rw [this, List.reverse_reverse, h1]

theorem decGroup_isSome {cs : List Char} (h : ∀ c ∈ cs, c ∈ alphabet) : ∃ g, decGroup cs = some g := by
  obtain ⟨ds, hds⟩ := mapM_valOf_isSome h
  exact ⟨beBytes 5 (ofDigitsLE 32 ds.reverse), by simp [decGroup, hds]⟩

theorem decGroup_none_of_not_mem {cs : List Char} {c : Char} (hc : c ∈ cs) (h : c ∉ alphabet) : decGroup cs = none := by
  simp [decGroup, mapM_valOf_none_of_not_mem hc h]

theorem decGroup_some_mem {cs : List Char} {g : Bytes} (h : decGroup cs = some g) : ∀ c ∈ cs, c ∈ alphabet := by
  intro c hc
  by_cases hm : c ∈ alphabet
  · exact hm
  · rw [decGroup_none_of_not_mem hc hm] at h; cases h

/-! ### whole strings -/

theorem encode32_cons5 (a b c d e : UInt8) (rest : Bytes) :
    encode32 (a :: b :: c :: d :: e :: rest) = encGroup [a, b, c, d, e] ++ encode32 rest := by
  simp [encode32]

theorem decode32_group (cs rest : List Char) (h : cs.length = 8) :
    decode32 (cs ++ rest) = (decGroup cs).bind fun g => (decode32 rest).map (g ++ ·) := by
  match cs, h with
  | [c0, c1, c2, c3, c4, c5, c6, c7], _ =>
    simp only [List.cons_append, List.nil_append, decode32]
    cases decGroup [c0, c1, c2, c3, c4, c5, c6, c7] <;> cases decode32 rest <;> rfl

theorem decode32_group_some {cs rest : List Char} {g r : Bytes} (h : cs.length = 8)
    (hg : decGroup cs = some g) (hr : decode32 rest = some r) : decode32 (cs ++ rest) = some (g ++ r) := by
  rw [decode32_group cs rest h, hg, hr]; rfl

theorem exists_cons5 {α : Type} (l : List α) (h : 5 ≤ l.length) :
    ∃ a b c d e rest, l = a :: b :: c :: d :: e :: rest := by
  rcases l with _ | ⟨a, _ | ⟨b, _ | ⟨c, _ | ⟨d, _ | ⟨e, rest⟩⟩⟩⟩⟩
  all_goals first
    | exact ⟨_, _, _, _, _, _, rfl⟩
    | (simp at h; try omega)

theorem exists_cons8 {α : Type} (l : List α) (h : 8 ≤ l.length) :
    ∃ a b c d e f g i rest, l = a :: b :: c :: d :: e :: f :: g :: i :: rest := by
  rcases l with _ | ⟨a, _ | ⟨b, _ | ⟨c, _ | ⟨d, _ | ⟨e, _ | ⟨f, _ | ⟨g, _ | ⟨i, rest⟩⟩⟩⟩⟩⟩⟩⟩
  all_goals first
    | exact ⟨_, _, _, _, _, _, _, _, _, rfl⟩
    | (simp at h; try omega)

theorem decode32_short (s : List Char) (h1 : s ≠ []) (h2 : s.length < 8) : decode32 s = none := by
  rcases s with _ | ⟨a, _ | ⟨b, _ | ⟨c, _ | ⟨d, _ | ⟨e, _ | ⟨f, _ | ⟨g, _ | ⟨i, rest⟩⟩⟩⟩⟩⟩⟩⟩
  all_goals first
    | exact absurd rfl h1
    | (simp at h2; done)
    | (simp at h2; omega)
    | simp [decode32]

theorem decode32_encode32_aux : ∀ (n : Nat) (bs : Bytes), bs.length = 5 * n → decode32 (encode32 bs) = some bs := by
  intro n
  induction n with
  | zero =>
    intro bs h
    have : bs = [] := List.eq_nil_of_length_eq_zero (by omega)
    subst this
    simp [encode32, decode32]
  | succ n ih =>
    intro bs h
    obtain ⟨a, b, c, d, e, rest, rfl⟩ := exists_cons5 bs (by omega)
    rw [encode32_cons5]
    have hr : rest.length = 5 * n := by simp at h; omega
    exact decode32_group_some (encGroup_length _) (decGroup_encGroup _ rfl) (ih rest hr)

theorem encode32_append_aux : ∀ (n : Nat) (a b : Bytes), a.length = 5 * n → encode32 (a ++ b) = encode32 a ++ encode32 b := by
  intro n
  induction n with
  | zero =>
    intro a b h
    have : a = [] := List.eq_nil_of_length_eq_zero (by omega)
    subst this
    simp [encode32]
  | succ n ih =>
    intro a b h
    obtain ⟨x0, x1, x2, x3, x4, rest, rfl⟩ := exists_cons5 a (by omega)
    have hr : rest.length = 5 * n := by simp at h; omega
    simp only [List.cons_append, encode32_cons5, ih rest b hr, List.append_assoc]

theorem encode32_length_aux : ∀ (n : Nat) (bs : Bytes), bs.length = 5 * n → (encode32 bs).length = 8 * n := by
  intro n
  induction n with
  | zero =>
    intro bs h
    have : bs = [] := List.eq_nil_of_length_eq_zero (by omega)
    subst this
    simp [encode32]
  | succ n ih =>
    intro bs h
    obtain ⟨a, b, c, d, e, rest, rfl⟩ := exists_cons5 bs (by omega)
    have hr : rest.length = 5 * n := by simp at h; omega
    rw [encode32_cons5, List.length_append, encGroup_length, ih rest hr]
    omega

theorem encode32_mem_aux : ∀ (n : Nat) (bs : Bytes), bs.length = 5 * n → ∀ c ∈ encode32 bs, c ∈ alphabet := by
  intro n
  induction n with
  | zero =>
    intro bs h
    have : bs = [] := List.eq_nil_of_length_eq_zero (by omega)
    subst this
    simp [encode32]
  | succ n ih =>
    intro bs h
    obtain ⟨a, b, c, d, e, rest, rfl⟩ := exists_cons5 bs (by omega)
    have hr : rest.length = 5 * n := by simp at h; omega
    intro ch hch
    rw [encode32_cons5, List.mem_append] at hch
    rcases hch with hch | hch
    · exact encGroup_mem _ ch hch
    · exact ih rest hr ch hch

/-- decoding succeeds only on whole quanta over the alphabet, and encoding the result gives the string back. -/
theorem encode32_decode32_aux : ∀ (n : Nat) (s : List Char) (bs : Bytes), s.length ≤ n → decode32 s = some bs →
    encode32 bs = s ∧ bs.length * 8 = s.length * 5 ∧ ∀ c ∈ s, c ∈ alphabet := by
  intro n
  induction n with
  | zero =>
    intro s bs hl h
    have : s = [] := List.eq_nil_of_length_eq_zero (by omega)
    subst this
    simp [decode32] at h
    subst h
    simp [encode32]
  | succ n ih =>
    intro s bs hl h
    by_cases hs : s = []
    · subst hs
      simp [decode32] at h
      subst h
      simp [encode32]
    · by_cases h8 : s.length < 8
      · rw [decode32_short s hs h8] at h; cases h
      · obtain ⟨c0, c1, c2, c3, c4, c5, c6, c7, rest, rfl⟩ := exists_cons8 s (by omega)
        have hsplit : c0 :: c1 :: c2 :: c3 :: c4 :: c5 :: c6 :: c7 :: rest = [c0, c1, c2, c3, c4, c5, c6, c7] ++ rest := rfl
        rw [hsplit, decode32_group _ _ rfl] at h
        cases hg : decGroup [c0, c1, c2, c3, c4, c5, c6, c7] with
        | none => simp [hg] at h
        | some g =>
          cases hr : decode32 rest with
          | none => simp [hg, hr] at h
          | some r =>
            simp [hg, hr] at h
            subst h
            obtain ⟨e1, e2⟩ := encGroup_decGroup rfl hg
            obtain ⟨i1, i2, i3⟩ := ih rest r (by simp at hl; omega) hr
            obtain ⟨a, b, c, d, e, tl, hgl⟩ := exists_cons5 g (by omega)
            have htl : tl = [] := by
              subst hgl
              simp at e2
              exact e2
            subst htl
            subst hgl
            refine ⟨?_, ?_, ?_⟩
            · simp only [List.cons_append, List.nil_append, encode32_cons5, e1, i1]
            · simp only [List.length_append, List.length_cons, List.length_nil] at i2 ⊢
              omega
            · intro ch hch
              rw [hsplit] at hch
              rcases List.mem_append.1 hch with hm | hm
              · exact decGroup_some_mem hg ch hm
              · exact i3 ch hm

theorem decode32_isSome_aux : ∀ (n : Nat) (s : List Char), s.length = 8 * n → (∀ c ∈ s, c ∈ alphabet) →
    ∃ bs, decode32 s = some bs := by
  intro n
  induction n with
  | zero =>
    intro s h _
    have : s = [] := List.eq_nil_of_length_eq_zero (by omega)
    subst this
    exact ⟨[], by simp [decode32]⟩
  | succ n ih =>
    intro s h hal
    obtain ⟨c0, c1, c2, c3, c4, c5, c6, c7, rest, rfl⟩ := exists_cons8 s (by omega)
    have hsplit : c0 :: c1 :: c2 :: c3 :: c4 :: c5 :: c6 :: c7 :: rest = [c0, c1, c2, c3, c4, c5, c6, c7] ++ rest := rfl
    obtain ⟨g, hg⟩ := decGroup_isSome (cs := [c0, c1, c2, c3, c4, c5, c6, c7]) (fun c hc => hal c (by
      simp only [List.mem_cons] at hc ⊢
      simp only [List.not_mem_nil, or_false] at hc
      rcases hc with h | h | h | h | h | h | h | h <;> simp [h]))
    obtain ⟨r, hr⟩ := ih rest (by simp at h; omega) (fun c hc => hal c (by simp [hc]))
    exact ⟨g ++ r, by rw [hsplit]; exact decode32_group_some rfl hg hr⟩

/-- the last character of a quantum whose fifth byte is zero is `A`. -/
theorem encGroup_zero_last (w x y z : UInt8) :
    encGroup [w, x, y, z, 0] = (encGroup [w, x, y, z, 0]).take 7 ++ ['A'] := by
  have hn : beNat [w, x, y, z, 0] % 32 = 0 := by
    simp [beNat, leNat]
    omega
  simp only [encGroup, digitsLE, hn, List.reverse_cons, List.map_append, List.map_cons, List.map_nil]
  have hA : charOf 0 = 'A' := by decide
  rw [hA]
  simp

/-! ### the two low digits of a quantum (used for the Symbol text form, whose last character is half filler) -/

theorem digits_two (N : Nat) : digitsLE 32 8 N = N % 32 :: N / 32 % 32 :: digitsLE 32 6 (N / 1024) := by
  have e : N / 32 / 32 = N / 1024 := by omega
  rw [show (8 : Nat) = 6 + 1 + 1 from rfl, digitsLE, digitsLE, e]

theorem encGroup_split (g : Bytes) :
    encGroup g = (digitsLE 32 6 (beNat g / 1024)).reverse.map charOf ++ [charOf (beNat g / 32 % 32), charOf (beNat g % 32)] := by
  unfold encGroup
  rw [digits_two]
  simp

theorem beNat_snoc (g : Bytes) (v : UInt8) : beNat (g ++ [v]) = 256 * beNat g + v.toNat := by
  simp [beNat, leNat]
  omega

theorem charOf_inj {d e : Nat} (hd : d < 32) (he : e < 32) (h : charOf d = charOf e) : d = e := by
  have h1 := valOf_charOf d hd
  have h2 := valOf_charOf e he
  rw [h] at h1
  rw [h1] at h2
  exact Option.some.inj h2

end SymbolVerif.Sdk.Base32

/-
Comments (C04): the `#` lines the printer emits for a comment are normalised by `Comment.ofString`
(= `Comment.__init__`) back to that comment, for every comment in normal form.
-/
import SymbolVerif.Model.Cats.Syntax
import SymbolVerif.Model.Cats.Printer
namespace SymbolVerif.Cats.Comment
open SymbolVerif.Cats
set_option linter.unusedSimpArgs false

/-- a piece of comment text as `Comment.__init__` leaves it: not empty, no line end inside, and neither its first nor
    its last character is one that `strip('# \t\r')` removes -/
def NormalSeg (seg : List Char) : Prop :=
  seg ≠ [] ∧ '\n' ∉ seg ∧ (∀ c, seg.head? = some c → isStripChar c = false) ∧ (∀ c, seg.getLast? = some c → isStripChar c = false)

/-- the character lists of the `#` lines for the pieces of a comment (`Printer.commentLinesOf`) -/
def clines : List (List Char) → List (List Char)
  | [] => []
  | [seg] => if seg.isEmpty then [] else [('#' :: ' ' :: seg)]
  | seg :: rest => (if seg.isEmpty then [] else [('#' :: ' ' :: seg)]) ++ ['#'] :: clines rest

theorem commentLinesOf_toList : ∀ (segs : List (List Char)),
    (Printer.commentLinesOf segs).map String.toList = clines segs := by
  intro segs
  induction segs with
  | nil => rfl
  | cons seg rest ih =>
    cases rest with
    | nil => cases hs : seg.isEmpty <;> simp [Printer.commentLinesOf, clines, hs, String.toList_append]
    | cons s2 r2 =>
      cases hs : seg.isEmpty <;> simp [Printer.commentLinesOf, clines, hs, String.toList_append, ← ih]

/-- lines joined by `\n` -/
def joinNL : List (List Char) → List Char
  | [] => []
  | [l] => l
  | l :: rest => l ++ '\n' :: joinNL rest

theorem splitLines_ne_nil : ∀ (cs : List Char), splitLines cs ≠ []
  | [] => by simp [splitLines]
  | c :: cs => by
    have ih := splitLines_ne_nil cs
    simp only [splitLines]
    cases hp : splitLines cs with
    | nil => exact absurd hp ih
    | cons a as => simp only []; split <;> simp

theorem splitLines_line (l rest : List Char) (h : '\n' ∉ l) : splitLines (l ++ '\n' :: rest) = l :: splitLines rest := by
  induction l with
  | nil =>
    simp only [List.nil_append, splitLines]
    cases hp : splitLines rest with
    | nil => exact absurd hp (splitLines_ne_nil rest)
    | cons a as => simp
  | cons c cs ih =>
    have hc : c ≠ '\n' := fun he => h (he ▸ List.mem_cons_self)
    have hcs : '\n' ∉ cs := fun hm => h (List.mem_cons_of_mem _ hm)
    simp only [List.cons_append, splitLines, ih hcs, hc, if_false]

theorem splitLines_single (l : List Char) (h : '\n' ∉ l) : splitLines l = [l] := by
  induction l with
  | nil => rfl
  | cons c cs ih =>
    have hc : c ≠ '\n' := fun he => h (he ▸ List.mem_cons_self)
    have hcs : '\n' ∉ cs := fun hm => h (List.mem_cons_of_mem _ hm)
    simp only [splitLines, ih hcs, hc, if_false]

theorem splitLines_joinNL : ∀ (ls : List (List Char)), ls ≠ [] → (∀ l ∈ ls, '\n' ∉ l) → splitLines (joinNL ls) = ls := by
  intro ls
  induction ls with
  | nil => intro h; exact absurd rfl h
  | cons l rest ih =>
    intro _ hall
    cases rest with
    | nil => exact splitLines_single l (hall l List.mem_cons_self)
    | cons l2 r2 =>
      simp only [joinNL]
      rw [splitLines_line l _ (hall l List.mem_cons_self), ih (by simp) (fun x hx => hall x (List.mem_cons_of_mem _ hx))]

/-! ### stripping -/

theorem dropWhile_of_head (p : Char → Bool) (seg : List Char) (h : ∀ c, seg.head? = some c → p c = false) :
    seg.dropWhile p = seg := by
  cases seg with
  | nil => rfl
  | cons a rest => simp [List.dropWhile, h a rfl]

theorem stripLine_normal (seg : List Char) (h : NormalSeg seg) : stripLine ('#' :: ' ' :: seg) = seg := by
  obtain ⟨_, _, hhead, hlast⟩ := h
  have h1 : ('#' :: ' ' :: seg).dropWhile isStripChar = seg := by
    have a1 : isStripChar '#' = true := by decide
    have a2 : isStripChar ' ' = true := by decide
    simp only [List.dropWhile, a1, a2]
    exact dropWhile_of_head _ seg hhead
  have h2 : seg.reverse.dropWhile isStripChar = seg.reverse := by
    apply dropWhile_of_head
    intro c hc
    rw [List.head?_reverse] at hc
    exact hlast c hc
  simp only [stripLine, h1, h2, List.reverse_reverse]

theorem stripLine_hash : stripLine ['#'] = [] := by decide

/-! ### the normalisation loop -/

theorem foldl_step_clines : ∀ (segs : List (List Char)) (acc : List Char), (∀ s ∈ segs, s = [] ∨ NormalSeg s) → segs ≠ [] →
    ((clines segs).foldl step (acc, false)).1 = acc ++ joinNL segs := by
  intro segs
  induction segs with
  | nil => intro _ _ h; exact absurd rfl h
  | cons seg rest ih =>
    intro acc hall _
    have hseg := hall seg List.mem_cons_self
    cases rest with
    | nil =>
      rcases hseg with rfl | hn
      · simp [clines, joinNL]
      · have hne : seg.isEmpty = false := by cases seg with | nil => exact absurd rfl hn.1 | cons a r => rfl
        simp only [clines, hne, Bool.false_eq_true, if_false, List.foldl_cons, List.foldl_nil, step, stripLine_normal seg hn,
          joinNL, List.append_nil]
    | cons s2 r2 =>
      have hrest := ih (acc ++ seg ++ ['\n']) (fun x hx => hall x (List.mem_cons_of_mem _ hx)) (by simp)
      rcases hseg with rfl | hn
      · simp only [clines, List.isEmpty_nil, if_true, List.nil_append, List.foldl_cons, step, stripLine_hash,
          List.append_nil] at hrest ⊢
        rw [hrest]
        simp [joinNL]
      · have hne : seg.isEmpty = false := by cases seg with | nil => exact absurd rfl hn.1 | cons a r => rfl
        simp only [clines, hne, Bool.false_eq_true, if_false, List.singleton_append, List.foldl_cons, step,
          stripLine_normal seg hn, stripLine_hash, List.append_nil, List.isEmpty_nil, if_true] at hrest ⊢
        rw [hrest]
        simp [joinNL, hne]

theorem joinNL_splitLines : ∀ (cs : List Char), joinNL (splitLines cs) = cs := by
  intro cs
  induction cs with
  | nil => rfl
  | cons c rest ih =>
    cases hp : splitLines rest with
    | nil => exact absurd hp (splitLines_ne_nil rest)
    | cons l ls =>
      rw [hp] at ih
      simp only [splitLines, hp]
      by_cases hc : c = '\n'
      · subst hc
        simp only [if_true]
        cases ls with
        | nil => simp only [joinNL] at ih ⊢; simp [ih]
        | cons l2 r2 => simp only [joinNL] at ih ⊢; simp [ih]
      · simp only [hc, if_false]
        cases ls with
        | nil => simp only [joinNL] at ih ⊢; rw [ih]
        | cons l2 r2 => simp only [joinNL] at ih ⊢; simp [← ih]

theorem no_nl_clines (segs : List (List Char)) (h : ∀ s ∈ segs, s = [] ∨ NormalSeg s) : ∀ l ∈ clines segs, '\n' ∉ l := by
  induction segs with
  | nil => intro l hl; cases hl
  | cons seg rest ih =>
    intro l hl
    have hseg := h seg List.mem_cons_self
    have hline : ∀ x, x ∈ (if seg.isEmpty then [] else [('#' :: ' ' :: seg)]) → '\n' ∉ x := by
      intro x hx
      split at hx
      · cases hx
      · simp only [List.mem_singleton] at hx
        subst hx
        rcases hseg with rfl | hn
        · simp
        · intro hm
          simp only [List.mem_cons] at hm
          rcases hm with hm | hm | hm
          · exact absurd hm (by decide)
          · exact absurd hm (by decide)
          · exact hn.2.1 hm
    cases rest with
    | nil => exact hline l (by simpa [clines] using hl)
    | cons s2 r2 =>
      simp only [clines, List.mem_append, List.mem_cons] at hl
      rcases hl with hl | rfl | hl
      · exact hline l hl
      · decide
      · exact ih (fun x hx => h x (List.mem_cons_of_mem _ hx)) l hl

/-- A comment in normal form (pieces separated by `\n`, each empty or without leading / trailing `#`, blank, tab,
    carriage return) is given back by `Comment.ofString` from the `#` lines the printer emits for it. -/
theorem normalise_commentLines (c : Comment) (hsegs : ∀ s ∈ splitLines c.parsed.toList, s = [] ∨ NormalSeg s)
    (hne : clines (splitLines c.parsed.toList) ≠ []) :
    Comment.ofString (String.ofList (joinNL ((Printer.commentLines (some c)).map String.toList))) = c := by
  have hlines : (Printer.commentLines (some c)).map String.toList = clines (splitLines c.parsed.toList) := by
    simp only [Printer.commentLines]; exact commentLinesOf_toList _
  rw [hlines]
  have hsplit := splitLines_joinNL (clines (splitLines c.parsed.toList)) hne (no_nl_clines _ hsegs)
  have hfold := foldl_step_clines (splitLines c.parsed.toList) [] hsegs (splitLines_ne_nil _)
  simp only [List.nil_append] at hfold
  obtain ⟨parsed⟩ := c
  simp only [ofString, normalise, String.toList_ofList, hsplit, hfold, joinNL_splitLines, String.ofList_toList]

end SymbolVerif.Cats.Comment

/-
Comments (C04): the `#` lines the printer emits for a comment are normalised by `Comment.ofString`
(= `Comment.__init__`) back to that comment, for every comment in normal form.
-/
import SymbolVerif.Model.Cats.Syntax
import SymbolVerif.Model.Cats.Printer
namespace SymbolVerif.Cats.Comment
open SymbolVerif.Cats
set_option linter.unusedSimpArgs false

/-- a piece of comment text as `Comment.__init__` leaves it: not empty, no line end inside, and neither its first nor
    its last character is one that `strip('# \t\r')` removes -/
def NormalSeg (seg : List Char) : Prop :=
  seg ≠ [] ∧ '\n' ∉ seg ∧ (∀ c, seg.head? = some c → isStripChar c = false) ∧ (∀ c, seg.getLast? = some c → isStripChar c = false)

/-- the character lists of the `#` lines for the pieces of a comment (`Printer.commentLinesOf`) -/
def clines : List (List Char) → List (List Char)
  | [] => []
  | [seg] => if seg.isEmpty then [] else [('#' :: ' ' :: seg)]
  | seg :: rest => (if seg.isEmpty then [] else [('#' :: ' ' :: seg)]) ++ ['#'] :: clines rest

theorem commentLinesOf_toList : ∀ (segs : List (List Char)),
    (Printer.commentLinesOf segs).map String.toList = clines segs := by
  intro segs
  induction segs with
  | nil => rfl
  | cons seg rest ih =>
    cases rest with
    | nil => cases hs : seg.isEmpty <;> simp [Printer.commentLinesOf, clines, hs, String.toList_append]
    | cons s2 r2 =>
      cases hs : seg.isEmpty <;> simp [Printer.commentLinesOf, clines, hs, String.toList_append, ← ih]

/-- lines joined by `\n` -/
def joinNL : List (List Char) → List Char
  | [] => []
  | [l] => l
  | l :: rest => l ++ '\n' :: joinNL rest

theorem splitLines_ne_nil : ∀ (cs : List Char), splitLines cs ≠ []
  | [] => by simp [splitLines]
  | c :: cs => by
    have ih := splitLines_ne_nil cs
    simp only [splitLines]
    cases hp : splitLines cs with
    | nil => exact absurd hp ih
    | cons a as => simp only []; split <;> simp

theorem splitLines_line (l rest : List Char) (h : '\n' ∉ l) : splitLines (l ++ '\n' :: rest) = l :: splitLines rest := by
  induction l with
  | nil =>
    simp only [List.nil_append, splitLines]
    cases hp : splitLines rest with
    | nil => exact absurd hp (splitLines_ne_nil rest)
    | cons a as => simp
  | cons c cs ih =>
    have hc : c ≠ '\n' := fun he => h (he ▸ List.mem_cons_self)
    have hcs : '\n' ∉ cs := fun hm => h (List.mem_cons_of_mem _ hm)
    simp only [List.cons_append, splitLines, ih hcs, hc, if_false]

theorem splitLines_single (l : List Char) (h : '\n' ∉ l) : splitLines l = [l] := by
  induction l with
  | nil => rfl
  | cons c cs ih =>
    have hc : c ≠ '\n' := fun he => h (he ▸ List.mem_cons_self)
    have hcs : '\n' ∉ cs := fun hm => h (List.mem_cons_of_mem _ hm)
    simp only [splitLines, ih hcs, hc, if_false]

theorem splitLines_joinNL : ∀ (ls : List (List Char)), ls ≠ [] → (∀ l ∈ ls, '\n' ∉ l) → splitLines (joinNL ls) = ls := by
  intro ls
  induction ls with
  | nil => intro h; exact absurd rfl h
  | cons l rest ih =>
    intro _ hall
    cases rest with
    | nil => exact splitLines_single l (hall l List.mem_cons_self)
    | cons l2 r2 =>
      simp only [joinNL]
      rw [splitLines_line l _ (hall l List.mem_cons_self), ih (by simp) (fun x hx => hall x (List.mem_cons_of_mem _ hx))]

/-! ### stripping -/

theorem dropWhile_of_head (p : Char → Bool) (seg : List Char) (h : ∀ c, seg.head? = some c → p c = false) :
    seg.dropWhile p = seg := by
  cases seg with
  | nil => rfl
  | cons a rest => simp [List.dropWhile, h a rfl]

theorem stripLine_normal (seg : List Char) (h : NormalSeg seg) : stripLine ('#' :: ' ' :: seg) = seg := by
  obtain ⟨_, _, hhead, hlast⟩ := h
  have h1 : ('#' :: ' ' :: seg).dropWhile isStripChar = seg := by
    have a1 : isStripChar '#' = true := by decide
    have a2 : isStripChar ' ' = true := by decide
    simp only [List.dropWhile, a1, a2]
    exact dropWhile_of_head _ seg hhead
  have h2 : seg.reverse.dropWhile isStripChar = seg.reverse := by
    apply dropWhile_of_head
    intro c hc
    rw [List.head?_reverse] at hc
    exact hlast c hc
  simp only [stripLine, h1, h2, List.reverse_reverse]

theorem stripLine_hash : stripLine ['#'] = [] := by decide

/-! ### the normalisation loop -/

theorem foldl_step_clines : ∀ (segs : List (List Char)) (acc : List Char), (∀ s ∈ segs, s = [] ∨ NormalSeg s) → segs ≠ [] →
    ((clines segs).foldl step (acc, false)).1 = acc ++ joinNL segs := by
  intro segs
  induction segs with
  | nil => intro _ _ h; exact absurd rfl h
  | cons seg rest ih =>
    intro acc hall _
    have hseg := hall seg List.mem_cons_self
    cases rest with
    | nil =>
      rcases hseg with rfl | hn
      · simp [clines, joinNL]
      · have hne : seg.isEmpty = false := by cases seg with | nil => exact absurd rfl hn.1 | cons a r => rfl
        simp only [clines, hne, Bool.false_eq_true, if_false, List.foldl_cons, List.foldl_nil, step, stripLine_normal seg hn,
          joinNL, List.append_nil]
    | cons s2 r2 =>
      have hrest := ih (acc ++ seg ++ ['\n']) (fun x hx => hall x (List.mem_cons_of_mem _ hx)) (by simp)
      rcases hseg with rfl | hn
      · simp only [clines, List.isEmpty_nil, if_true, List.nil_append, List.foldl_cons, step, stripLine_hash,
          List.append_nil] at hrest ⊢
        rw [hrest]
        simp [joinNL]
      · have hne : seg.isEmpty = false := by cases seg with | nil => exact absurd rfl hn.1 | cons a r => rfl
        simp only [clines, hne, Bool.false_eq_true, if_false, List.singleton_append, List.foldl_cons, step,
          stripLine_normal seg hn, stripLine_hash, List.append_nil, List.isEmpty_nil, if_true] at hrest ⊢
        rw [hrest]
        simp [joinNL, hne]

theorem joinNL_splitLines : ∀ (cs : List Char), joinNL (splitLines cs) = cs := by
  intro cs
  induction cs with
  | nil => rfl
  | cons c rest ih =>
    cases hp : splitLines rest with
    | nil => exact absurd hp (splitLines_ne_nil rest)
    | cons l ls =>
      rw [hp] at ih
      simp only [splitLines, hp]
      by_cases hc : c = '\n'
      · subst hc
        simp only [if_true]
        cases ls with
        | nil => simp only [joinNL] at ih ⊢; simp [ih]
        | cons l2 r2 => simp only [joinNL] at ih ⊢; simp [ih]
      · simp only [hc, if_false]
        cases ls with
        | nil => simp only [joinNL] at ih ⊢; rw [ih]
        | cons l2 r2 => simp only [joinNL] at ih ⊢; simp [← ih]

theorem no_nl_clines (segs : List (List Char)) (h : ∀ s ∈ segs, s = [] ∨ NormalSeg s) : ∀ l ∈ clines segs, '\n' ∉ l := by
  induction segs with
  | nil => intro l hl; cases hl
  | cons seg rest ih =>
    intro l hl
    have hseg := h seg List.mem_cons_self
    have hline : ∀ x, x ∈ (if seg.isEmpty then [] else [('#' :: ' ' :: seg)]) → '\n' ∉ x := by
      intro x hx
      split at hx
      · cases hx
      · simp only [List.mem_singleton] at hx
        subst hx
        rcases hseg with rfl | hn
        · simp
        · intro hm
          simp only [List.mem_cons] at hm
          rcases hm with hm | hm | hm
          · exact absurd hm (by decide)
          · exact absurd hm (by decide)
          · exact hn.2.1 hm
    cases rest with
    | nil => exact hline l (by simpa [clines] using hl)
    | cons s2 r2 =>
      simp only [clines, List.mem_append, List.mem_cons] at hl
      rcases hl with hl | rfl | hl
      · exact hline l hl
      · decide
      · exact ih (fun x hx => h x (List.mem_cons_of_mem _ hx)) l hl

/-- A comment in normal form (pieces separated by `\n`, each empty or without leading / trailing `#`, blank, tab,
    carriage return) is given back by `Comment.ofString` from the `#` lines the printer emits for it. -/
theorem normalise_commentLines (c : Comment) (hsegs : ∀ s ∈ splitLines c.parsed.toList, s = [] ∨ NormalSeg s)
    (hne : clines (splitLines c.parsed.toList) ≠ []) :
    Comment.ofString (String.ofList (joinNL ((Printer.commentLines (some c)).map String.toList))) = c := by
  have hlines : (Printer.commentLines (some c)).map String.toList = clines (splitLines c.parsed.toList) := by
    simp only [Printer.commentLines]; exact commentLinesOf_toList _
  rw [hlines]
  have hsplit := splitLines_joinNL (clines (splitLines c.parsed.toList)) hne (no_nl_clines _ hsegs)
  have hfold := foldl_step_clines (splitLines c.parsed.toList) [] hsegs (splitLines_ne_nil _)
  simp only [List.nil_append] at hfold
  obtain ⟨parsed⟩ := c
  simp only [ofString, normalise, String.toList_ofList, hsplit, hfold, joinNL_splitLines, String.ofList_toList]

/-! ### comments in normal form; continuation lines with an indentation -/

/-- a comment as `Comment.__init__` produces it: its pieces (separated by `\n`) are empty or normal, and it is not
    the empty text -/
def NormalComment (c : Comment) : Prop :=
  (∀ s ∈ splitLines c.parsed.toList, s = [] ∨ NormalSeg s) ∧ clines (splitLines c.parsed.toList) ≠ []

/-- the lines of a comment token: the first as it is, the following ones with the white space that precedes them -/
def deco (pre : List Char) : List (List Char) → List (List Char)
  | [] => []
  | l :: more => l :: more.map (pre ++ ·)

theorem dropWhile_strip_prefix : ∀ (pre x : List Char), pre.all isStripChar = true →
    (pre ++ x).dropWhile isStripChar = x.dropWhile isStripChar := by
  intro pre
  induction pre with
  | nil => intro _ _; rfl
  | cons a rest ih =>
    intro x h
    simp only [List.all_cons, Bool.and_eq_true] at h
    simp only [List.cons_append, List.dropWhile, h.1, ih x h.2]

theorem stripLine_prefix (pre x : List Char) (h : pre.all isStripChar = true) : stripLine (pre ++ x) = stripLine x := by
  simp only [stripLine, dropWhile_strip_prefix pre x h]

theorem step_prefix (st : List Char × Bool) (pre x : List Char) (h : pre.all isStripChar = true) :
    step st (pre ++ x) = step st x := by
  simp only [step, stripLine_prefix pre x h]

theorem foldl_step_map_prefix (pre : List Char) (h : pre.all isStripChar = true) : ∀ (ls : List (List Char)) (st : List Char × Bool),
    (ls.map (pre ++ ·)).foldl step st = ls.foldl step st := by
  intro ls
  induction ls with
  | nil => intro _; rfl
  | cons l rest ih => intro st; simp only [List.map_cons, List.foldl_cons, step_prefix st pre l h, ih]

theorem foldl_step_deco (pre : List Char) (h : pre.all isStripChar = true) (ls : List (List Char)) (st : List Char × Bool) :
    (deco pre ls).foldl step st = ls.foldl step st := by
  cases ls with
  | nil => rfl
  | cons l more => simp only [deco, List.foldl_cons, foldl_step_map_prefix pre h]

theorem deco_ne_nil (pre : List Char) (ls : List (List Char)) (h : ls ≠ []) : deco pre ls ≠ [] := by
  cases ls with
  | nil => exact absurd rfl h
  | cons l more => simp [deco]

theorem no_nl_deco (pre : List Char) (hpre : '\n' ∉ pre) (ls : List (List Char)) (h : ∀ l ∈ ls, '\n' ∉ l) :
    ∀ l ∈ deco pre ls, '\n' ∉ l := by
  cases ls with
  | nil => intro l hl; cases hl
  | cons l0 more =>
    intro l hl
    simp only [deco, List.mem_cons, List.mem_map] at hl
    rcases hl with rfl | ⟨x, hx, rfl⟩
    · exact h _ List.mem_cons_self
    · intro hm
      rcases List.mem_append.1 hm with hm | hm
      · exact hpre hm
      · exact h x (List.mem_cons_of_mem _ hx) hm

/-- the text of a comment token whose continuation lines are indented is normalised to the comment as well -/
theorem normalise_deco (c : Comment) (hc : NormalComment c) (pre : List Char) (hpre : pre.all isStripChar = true)
    (hnl : '\n' ∉ pre) :
    Comment.ofString (String.ofList (joinNL (deco pre (clines (splitLines c.parsed.toList))))) = c := by
  obtain ⟨hsegs, hne⟩ := hc
  have hsplit := splitLines_joinNL (deco pre (clines (splitLines c.parsed.toList))) (deco_ne_nil pre _ hne)
    (no_nl_deco pre hnl _ (no_nl_clines _ hsegs))
  have hfold := foldl_step_clines (splitLines c.parsed.toList) [] hsegs (splitLines_ne_nil _)
  simp only [List.nil_append] at hfold
  obtain ⟨parsed⟩ := c
  simp only [ofString, normalise, String.toList_ofList, hsplit, foldl_step_deco pre hpre, hfold, joinNL_splitLines,
    String.ofList_toList]

/-! ### every comment the parser builds is in normal form -/

theorem head_dropWhile_not (p : Char → Bool) : ∀ (l : List Char) (c : Char), (l.dropWhile p).head? = some c → p c = false := by
  intro l
  induction l with
  | nil => intro c h; cases h
  | cons a t ih =>
    intro c h
    simp only [List.dropWhile] at h
    cases hp : p a with
    | true => rw [hp] at h; exact ih c h
    | false => rw [hp] at h; simp only [List.head?_cons, Option.some.injEq] at h; subst h; exact hp

theorem getLast_dropWhile (p : Char → Bool) : ∀ (l : List Char), l.dropWhile p ≠ [] → (l.dropWhile p).getLast? = l.getLast? := by
  intro l
  induction l with
  | nil => intro h; exact absurd rfl h
  | cons a t ih =>
    intro h
    cases hp : p a with
    | true =>
      simp only [List.dropWhile, hp] at h ⊢
      have ht : t ≠ [] := by intro he; subst he; exact h rfl
      rw [ih h]
      cases t with
      | nil => exact absurd rfl ht
      | cons b r => rfl
    | false => simp only [List.dropWhile, hp]

/-- a stripped line that is not empty is a normal piece -/
theorem normalSeg_stripLine (line : List Char) (hnl : '\n' ∉ line) (hne : stripLine line ≠ []) : NormalSeg (stripLine line) := by
  unfold stripLine at hne ⊢
  have hy : (line.dropWhile isStripChar).reverse.dropWhile isStripChar ≠ [] := by
    intro h; rw [h] at hne; exact hne rfl
  refine ⟨hne, ?_, ?_, ?_⟩
  · intro hm
    rw [List.mem_reverse] at hm
    have h1 := (List.dropWhile_sublist isStripChar).subset hm
    rw [List.mem_reverse] at h1
    exact hnl ((List.dropWhile_sublist isStripChar).subset h1)
  · intro c hc
    rw [List.head?_reverse, getLast_dropWhile _ _ hy, List.getLast?_reverse] at hc
    exact head_dropWhile_not _ _ c hc
  · intro c hc
    rw [List.getLast?_reverse] at hc
    exact head_dropWhile_not _ _ c hc

/-- the lines of `a ++ b`: the last line of `a` continues with the first line of `b` -/
def glue : List (List Char) → List (List Char) → List (List Char)
  | [], B => B
  | [l], [] => [l]
  | [l], b :: bs => (l ++ b) :: bs
  | l :: l2 :: ls, B => l :: glue (l2 :: ls) B

theorem glue_head (l : List Char) (ls B : List (List Char)) (hB : B ≠ []) :
    ∃ h t, glue (l :: ls) B = h :: t ∧ ∀ c, glue ((c :: l) :: ls) B = (c :: h) :: t := by
  cases ls with
  | nil =>
    cases B with
    | nil => exact absurd rfl hB
    | cons b bs => exact ⟨l ++ b, bs, rfl, fun c => rfl⟩
  | cons l2 r => exact ⟨l, glue (l2 :: r) B, rfl, fun c => rfl⟩

theorem splitLines_append (a b : List Char) : splitLines (a ++ b) = glue (splitLines a) (splitLines b) := by
  induction a with
  | nil =>
    simp only [List.nil_append, splitLines]
    cases hb : splitLines b with
    | nil => exact absurd hb (splitLines_ne_nil b)
    | cons x xs => simp [glue]
  | cons c a' ih =>
    cases ha : splitLines a' with
    | nil => exact absurd ha (splitLines_ne_nil a')
    | cons l ls =>
      rw [ha] at ih
      obtain ⟨h, t, hg, hcons⟩ := glue_head l ls (splitLines b) (splitLines_ne_nil b)
      rw [hg] at ih
      simp only [List.cons_append, splitLines, ih, ha]
      by_cases hc : c = '\n'
      · subst hc
        simp only [if_true]
        rw [← hg]
        simp only [glue]
      · simp only [hc, if_false]
        exact (hcons c).symm

theorem glue_snoc_single : ∀ (init : List (List Char)) (last x : List Char), glue (init ++ [last]) [x] = init ++ [last ++ x] := by
  intro init
  induction init with
  | nil => intro last x; rfl
  | cons a rest ih =>
    intro last x
    cases rest with
    | nil => simp only [List.cons_append, List.nil_append, glue]
    | cons b r =>
      have := ih last x
      simp only [List.cons_append] at this ⊢
      simp only [glue, this]

theorem glue_snoc_newline : ∀ (init : List (List Char)) (last : List Char),
    glue (init ++ [last]) [[], []] = init ++ [last, []] := by
  intro init
  induction init with
  | nil => intro last; simp [glue]
  | cons a rest ih =>
    intro last
    cases rest with
    | nil => simp only [List.cons_append, List.nil_append, glue, List.append_nil]
    | cons b r =>
      have := ih last
      simp only [List.cons_append] at this ⊢
      simp only [glue, this]

/-- the state of the loop of `Comment.__init__`: the text so far ends in a normal piece when a separator is due, in an
    empty piece otherwise -/
def StepInv (st : List Char × Bool) : Prop :=
  ∃ init last, splitLines st.1 = init ++ [last] ∧ (∀ s ∈ init, s = [] ∨ NormalSeg s) ∧
    (st.2 = true → NormalSeg last) ∧ (st.2 = false → last = [])

theorem normalSeg_append_blank (a b : List Char) (ha : NormalSeg a) (hb : NormalSeg b) : NormalSeg (a ++ ' ' :: b) := by
  obtain ⟨ha1, ha2, ha3, _⟩ := ha
  obtain ⟨hb1, hb2, _, hb4⟩ := hb
  refine ⟨by simp, ?_, ?_, ?_⟩
  · intro hm
    simp only [List.mem_append, List.mem_cons] at hm
    rcases hm with hm | hm | hm
    · exact ha2 hm
    · exact absurd hm (by decide)
    · exact hb2 hm
  · intro c hc
    cases a with
    | nil => exact absurd rfl ha1
    | cons x xs => exact ha3 c (by simpa using hc)
  · intro c hc
    have : (a ++ ' ' :: b).getLast? = b.getLast? := by
      cases b with
      | nil => exact absurd rfl hb1
      | cons y ys =>
        have : a ++ ' ' :: y :: ys = (a ++ [' ']) ++ (y :: ys) := by simp
        rw [this, List.getLast?_append]
        cases hl : (y :: ys).getLast? with
        | none => simp at hl
        | some z => simp
    rw [this] at hc
    exact hb4 c hc

theorem step_inv (st : List Char × Bool) (line : List Char) (hnl : '\n' ∉ line) (h : StepInv st) :
    StepInv (step st line) ∧ (∃ init last, splitLines (step st line).1 = init ++ [last] ∧ (init ≠ [] ∨ last ≠ [])) := by
  obtain ⟨init, last, hsplit, hinit, hsep, hnosep⟩ := h
  obtain ⟨acc, sep⟩ := st
  simp only at hsplit hsep hnosep
  unfold step
  simp only
  cases hl : (stripLine line).isEmpty with
  | true =>
    have hs : splitLines (acc ++ ['\n']) = (init ++ [last]) ++ [[]] := by
      rw [splitLines_append, hsplit]
      have : splitLines ['\n'] = [[], []] := by decide
      rw [this, glue_snoc_newline]
      simp
    have hlast : last = [] ∨ NormalSeg last := by
      cases sep with
      | true => exact Or.inr (hsep rfl)
      | false => exact Or.inl (hnosep rfl)
    simp only [if_true]
    refine ⟨⟨init ++ [last], [], hs, ?_, by simp, by simp⟩, ⟨init ++ [last], [], hs, Or.inl (by simp)⟩⟩
    intro s hs'
    rcases List.mem_append.1 hs' with h1 | h1
    · exact hinit s h1
    · simp only [List.mem_singleton] at h1; subst h1; exact hlast
  | false =>
    have hne : stripLine line ≠ [] := by intro he; rw [he] at hl; cases hl
    have hnorm := normalSeg_stripLine line hnl hne
    simp only [Bool.false_eq_true, if_false]
    cases sep with
    | true =>
      have hx : '\n' ∉ ([' '] ++ stripLine line) := by
        intro hm
        simp only [List.singleton_append, List.mem_cons] at hm
        rcases hm with hm | hm
        · exact absurd hm (by decide)
        · exact hnorm.2.1 hm
      have hs : splitLines (acc ++ [' '] ++ stripLine line) = init ++ [last ++ ' ' :: stripLine line] := by
        rw [List.append_assoc, splitLines_append, hsplit, splitLines_single _ hx, glue_snoc_single]
        simp
      simp only [if_true]
      exact ⟨⟨init, _, hs, hinit, fun _ => normalSeg_append_blank last _ (hsep rfl) hnorm, by simp⟩,
        ⟨init, _, hs, Or.inr (by simp)⟩⟩
    | false =>
      have hlast := hnosep rfl
      subst hlast
      have hs : splitLines (acc ++ [] ++ stripLine line) = init ++ [stripLine line] := by
        rw [List.append_nil, splitLines_append, hsplit, splitLines_single _ hnorm.2.1, glue_snoc_single]
        simp
      simp only [Bool.false_eq_true, if_false]
      exact ⟨⟨init, _, hs, hinit, fun _ => hnorm, by simp⟩, ⟨init, _, hs, Or.inr hne⟩⟩

theorem clines_snoc_ne_nil (init : List (List Char)) (last : List Char) (h : init ≠ [] ∨ last ≠ []) :
    clines (init ++ [last]) ≠ [] := by
  cases init with
  | nil =>
    rcases h with h | h
    · exact absurd rfl h
    · cases last with
      | nil => exact absurd rfl h
      | cons a r => simp [clines]
  | cons a rest =>
    cases hr : rest ++ [last] with
    | nil => simp at hr
    | cons b r =>
      simp only [List.cons_append, hr, clines]
      simp

theorem mem_splitLines_no_nl : ∀ (cs : List Char), ∀ l ∈ splitLines cs, '\n' ∉ l := by
  intro cs
  induction cs with
  | nil => intro l hl; simp [splitLines] at hl; subst hl; simp
  | cons c rest ih =>
    intro l hl
    cases hp : splitLines rest with
    | nil => exact absurd hp (splitLines_ne_nil rest)
    | cons x xs =>
      rw [hp] at ih
      simp only [splitLines, hp] at hl
      by_cases hc : c = '\n'
      · simp only [hc, if_true, List.mem_cons] at hl
        rcases hl with rfl | rfl | hl
        · simp
        · exact ih _ List.mem_cons_self
        · exact ih l (List.mem_cons_of_mem _ hl)
      · simp only [hc, if_false, List.mem_cons] at hl
        rcases hl with rfl | hl
        · intro hm
          simp only [List.mem_cons] at hm
          rcases hm with hm | hm
          · exact hc hm.symm
          · exact ih _ List.mem_cons_self hm
        · exact ih l (List.mem_cons_of_mem _ hl)

theorem foldl_step_inv : ∀ (lines : List (List Char)) (st : List Char × Bool), (∀ l ∈ lines, '\n' ∉ l) → lines ≠ [] →
    StepInv st → StepInv (lines.foldl step st) ∧
      (∃ init last, splitLines (lines.foldl step st).1 = init ++ [last] ∧ (init ≠ [] ∨ last ≠ [])) := by
  intro lines
  induction lines with
  | nil => intro _ _ h; exact absurd rfl h
  | cons l rest ih =>
    intro st hnl _ hinv
    obtain ⟨h1, h2⟩ := step_inv st l (hnl l List.mem_cons_self) hinv
    cases rest with
    | nil => exact ⟨h1, h2⟩
    | cons l2 r => exact ih (step st l) (fun x hx => hnl x (List.mem_cons_of_mem _ hx)) (by simp) h1

/-- **Every comment `Comment.__init__` builds is in normal form**, whatever the text of the token. -/
theorem normalComment_ofString (s : String) : NormalComment (Comment.ofString s) := by
  have hstart : StepInv ([], false) := ⟨[], [], rfl, (by intro s hs; cases hs), by simp, by simp⟩
  obtain ⟨hinv, init', last', hs', hne'⟩ := foldl_step_inv (splitLines s.toList) ([], false) (mem_splitLines_no_nl _)
    (splitLines_ne_nil _) hstart
  obtain ⟨init, last, hsplit, hinit, hsep, hnosep⟩ := hinv
  rw [hsplit] at hs'
  have hlast : last = [] ∨ NormalSeg last := by
    cases hb : ((splitLines s.toList).foldl step ([], false)).2 with
    | true => exact Or.inr (hsep hb)
    | false => exact Or.inl (hnosep hb)
  unfold NormalComment
  simp only [ofString, normalise, String.toList_ofList, hsplit]
  refine ⟨?_, ?_⟩
  · intro x hx
    rcases List.mem_append.1 hx with h1 | h1
    · exact hinit x h1
    · simp only [List.mem_singleton] at h1; subst h1; exact hlast
  · rw [hs']
    exact clines_snoc_ne_nil init' last' hne'

/-- the second half of `NormalComment` in plain words: the text is not empty -/
theorem clines_splitLines_ne_nil (cs : List Char) : clines (splitLines cs) ≠ [] ↔ cs ≠ [] := by
  constructor
  · intro h he
    subst he
    exact h rfl
  · intro h
    have hj := joinNL_splitLines cs
    cases hs : splitLines cs with
    | nil => exact absurd hs (splitLines_ne_nil cs)
    | cons l ls =>
      rw [hs] at hj
      cases ls with
      | nil =>
        simp only [joinNL] at hj
        subst hj
        cases l with
        | nil => exact absurd rfl h
        | cons a r => simp [clines]
      | cons l2 r2 => simp [clines]

end SymbolVerif.Cats.Comment

/-
Helper lemmas for C20 about `Model/Lint/Indent.lean`: the assoc-list file system, whitespace
stripping, the regular-expression matchers under stripping, line-number bounds of the recorded fixes.
-/
import SymbolVerif.Model.Lint.Indent
namespace SymbolVerif.Lint.Indent

/-! ### the file system -/

theorem FS.get_remove_same (fs : FS) (p : Str) : (fs.remove p).get p = none := by
  induction fs with
  | nil => rfl
  | cons e fs ih =>
    obtain ⟨q, c⟩ := e
    simp only [FS.remove, FS.get] at *
    by_cases h : q = p
    · simp [h, ih]
    · have hb : (p == q) = false := by simpa using fun h' => h h'.symm
      simp [h, List.lookup_cons, hb, ih]

theorem FS.get_remove_other (fs : FS) {p q : Str} (h : q ≠ p) : (fs.remove p).get q = fs.get q := by
  induction fs with
  | nil => rfl
  | cons e fs ih =>
    obtain ⟨r, c⟩ := e
    simp only [FS.remove, FS.get] at *
    by_cases hr : r = p
    · have hb : (q == p) = false := by simpa using h
      simp [hr, List.lookup_cons, ih, hb]
    · by_cases hq : q = r
      · simp [hr, hq]
      · have hb : (q == r) = false := by simpa using hq
        simp [hr, List.lookup_cons, hb, ih]

theorem FS.get_put_same (fs : FS) (p c : Str) : (fs.put p c).get p = some c := by
  simp [FS.put, FS.get, List.lookup_cons]

theorem FS.get_put_other (fs : FS) {p q : Str} (c : Str) (h : q ≠ p) : (fs.put p c).get q = fs.get q := by
  have hb : (q == p) = false := by simpa using h
  simp only [FS.put, FS.get, List.lookup_cons, hb]
  exact FS.get_remove_other fs h

theorem tmpOf_ne (p : Str) : tmpOf p ≠ p := by
  intro h
  have := congrArg List.length h
  simp [tmpOf] at this

/-! ### stripping -/

def rstrip (s : Str) : Str := (s.reverse.dropWhile isSpace).reverse

theorem strip_eq (s : Str) : strip s = rstrip (dropSpaces s) := rfl

theorem dropWhile_cons_append {p : Char → Bool} {s r : Str} {c : Char} (t : Str)
    (h : s.dropWhile p = c :: r) : (s ++ t).dropWhile p = c :: (r ++ t) := by
  rw [List.dropWhile_append, h]; simp

theorem dropWhile_head_not {p : Char → Bool} {s r : Str} {c : Char} (h : s.dropWhile p = c :: r) :
    p c = false := by
  have := List.head?_dropWhile_not p s
  rw [h] at this
  simpa using this

theorem dropWhile_of_head_not {p : Char → Bool} {r : Str} {c : Char} (h : p c = false) :
    (c :: r).dropWhile p = c :: r := by
  simp [List.dropWhile_cons, h]

theorem mem_takeWhile_holds {p : Char → Bool} : ∀ {s : Str} {c : Char}, c ∈ s.takeWhile p → p c = true
  | [], _, h => by simp at h
  | d :: t, c, h => by
    rw [List.takeWhile_cons] at h
    split at h
    · next hd =>
      rcases List.mem_cons.mp h with rfl | h'
      · exact hd
      · exact mem_takeWhile_holds h'
    · simp at h

theorem all_of_dropWhile_nil {p : Char → Bool} : ∀ {s : Str}, s.dropWhile p = [] → ∀ c ∈ s, p c = true
  | [], _, c, hc => by simp at hc
  | d :: t, h, c, hc => by
    rw [List.dropWhile_cons] at h
    split at h
    · next hd =>
      rcases List.mem_cons.mp hc with rfl | h'
      · exact hd
      · exact all_of_dropWhile_nil h c h'
    · simp at h

theorem rstrip_decomp (s : Str) : ∃ ws, s = rstrip s ++ ws ∧ ∀ c ∈ ws, isSpace c = true := by
  refine ⟨(s.reverse.takeWhile isSpace).reverse, ?_, ?_⟩
  · have h := List.takeWhile_append_dropWhile (p := isSpace) (l := s.reverse)
    have h2 := congrArg List.reverse h
    simp only [List.reverse_append, List.reverse_reverse] at h2
    exact h2.symm
  · intro c hc
    have hc' : c ∈ s.reverse.takeWhile isSpace := by simpa using hc
    exact mem_takeWhile_holds hc'

theorem rstrip_of_last {s : Str} {c : Char} (h : s.getLast? = some c) (hc : isSpace c = false) :
    rstrip s = s := by
  unfold rstrip
  have hh : s.reverse.head? = some c := by simpa using h
  cases hr : s.reverse with
  | nil => simp [hr] at hh
  | cons d t =>
    rw [hr] at hh
    have : d = c := by simpa using hh
    subst this
    rw [dropWhile_of_head_not hc, ← hr, List.reverse_reverse]

/-- a stripped line does not start with whitespace -/
theorem strip_head_not_space (s : Str) : startsWithSpace (strip s) = false := by
  rw [strip_eq]
  obtain ⟨ws, hd, _⟩ := rstrip_decomp (dropSpaces s)
  cases hr : rstrip (dropSpaces s) with
  | nil => rfl
  | cons c r =>
    rw [hr] at hd
    exact dropWhile_head_not (p := isSpace) (s := s) (by simpa [dropSpaces] using hd)

theorem strip_of_clean {s : Str} (h1 : startsWithSpace s = false) (h2 : ∀ c, s.getLast? = some c → isSpace c = false) :
    strip s = s := by
  cases s with
  | nil => rfl
  | cons c r =>
    have hc : isSpace c = false := by simpa [startsWithSpace] using h1
    have hd : dropSpaces (c :: r) = c :: r := dropWhile_of_head_not hc
    rw [strip_eq, hd]
    cases hl : (c :: r).getLast? with
    | none => simp at hl
    | some d => exact rstrip_of_last hl (h2 d hl)

theorem rstrip_last_not_space (s : Str) (c : Char) (h : (rstrip s).getLast? = some c) : isSpace c = false := by
  unfold rstrip at h
  rw [List.getLast?_reverse] at h
  cases hd : s.reverse.dropWhile isSpace with
  | nil => simp [hd] at h
  | cons d t =>
    rw [hd] at h
    have : d = c := by simpa using h
    subst this
    exact dropWhile_head_not hd

theorem strip_idem (s : Str) : strip (strip s) = strip s :=
  strip_of_clean (strip_head_not_space s) (fun c h => by rw [strip_eq] at h; exact rstrip_last_not_space _ c h)

/-- a final backslash survives stripping -/
theorem endsBackslash_strip {s : Str} (h : endsBackslash s = true) : endsBackslash (strip s) = true := by
  have hl : s.getLast? = some '\\' := by simpa [endsBackslash] using h
  have hns : isSpace '\\' = false := by decide
  -- dropSpaces keeps a non-empty suffix, hence the last character
  have hsuf : dropSpaces s <:+ s := List.dropWhile_suffix _
  obtain ⟨pre, hpre⟩ := hsuf
  have hne : dropSpaces s ≠ [] := by
    intro he
    have hall : ∀ c ∈ s, isSpace c = true := all_of_dropWhile_nil he
    have hm : '\\' ∈ s := List.mem_of_getLast? hl
    have := hall _ hm
    rw [hns] at this; cases this
  have hl2 : (dropSpaces s).getLast? = some '\\' := by
    have := hl
    rw [← hpre, List.getLast?_append] at this
    cases hd : (dropSpaces s).getLast? with
    | none => exact absurd (List.getLast?_eq_none_iff.mp hd) hne
    | some d => rw [hd] at this; simpa using this
  rw [strip_eq, rstrip_of_last hl2 hns]
  simpa [endsBackslash] using hl2

/-! ### the matchers under appending and stripping -/

theorem dropSpaces_idem (s : Str) : dropSpaces (dropSpaces s) = dropSpaces s := by
  unfold dropSpaces
  cases h : s.dropWhile isSpace with
  | nil => rfl
  | cons c r => exact dropWhile_of_head_not (dropWhile_head_not h)

theorem matchInclude_dropSpaces (s : Str) : matchInclude (dropSpaces s) = matchInclude s := by
  unfold matchInclude
  rw [dropSpaces_idem]

theorem matchIncludeBody_append (o : Char) (s t : Str) (h : (matchIncludeBody o s).isSome = true) :
    (matchIncludeBody o (s ++ t)).isSome = true := by
  unfold matchIncludeBody at h ⊢
  cases h1 : s.dropWhile (fun c => !isCloser c) with
  | nil => simp [h1] at h
  | cons c r => rw [dropWhile_cons_append t h1]; rfl

theorem matchIncludeArg_append (s t : Str) (h : (matchIncludeArg s).isSome = true) :
    (matchIncludeArg (s ++ t)).isSome = true := by
  unfold matchIncludeArg at h ⊢
  cases h1 : s.dropWhile (fun c => c == ' ' || c == '\t') with
  | nil => simp [h1] at h
  | cons o r =>
    rw [h1] at h
    rw [dropWhile_cons_append t h1]
    simp only at h ⊢
    by_cases ho : (o == '"' || o == '<') = true
    · rw [if_pos ho] at h ⊢
      exact matchIncludeBody_append o r t h
    · rw [if_neg ho] at h; simp at h

theorem matchIncludeWord_append (s t : Str) (h : (matchIncludeWord s).isSome = true) :
    (matchIncludeWord (s ++ t)).isSome = true := by
  unfold matchIncludeWord at h ⊢
  by_cases hp : "include".toList.isPrefixOf (dropSpaces s) = true
  · rw [if_pos hp] at h
    cases h1 : dropSpaces s with
    | nil => rw [h1] at hp; simp at hp
    | cons c r =>
      have h1' : dropSpaces (s ++ t) = c :: r ++ t := dropWhile_cons_append t h1
      rw [h1] at hp h
      have hp' : "include".toList.isPrefixOf (c :: r ++ t) = true := by
        rw [List.isPrefixOf_iff_prefix] at hp ⊢
        exact hp.trans (List.prefix_append (c :: r) t)
      have hlen : 7 ≤ (c :: r).length := by
        have := (List.isPrefixOf_iff_prefix.mp hp).length_le
        simpa using this
      rw [h1', if_pos hp', List.drop_append_of_le_length hlen]
      exact matchIncludeArg_append _ t h
  · rw [if_neg hp] at h; simp at h

/-- a successful `PATTERN_INCLUDE.match` stays successful when the line is extended -/
theorem matchInclude_append (s t : Str) (h : (matchInclude s).isSome = true) :
    (matchInclude (s ++ t)).isSome = true := by
  unfold matchInclude at h ⊢
  cases h1 : dropSpaces s with
  | nil => simp [h1] at h
  | cons c r =>
    rw [h1] at h
    rw [show dropSpaces (s ++ t) = c :: (r ++ t) from dropWhile_cons_append t h1]
    by_cases hc : c = '#'
    · subst hc
      exact matchIncludeWord_append r t h
    · exfalso
      revert h
      split
      · next heq => cases heq; exact absurd rfl hc
      · simp

/-- `strip` cannot turn a line that is not an include line into one -/
theorem matchInclude_strip_none (s : Str) (h : matchInclude s = none) : matchInclude (strip s) = none := by
  cases hs : matchInclude (strip s) with
  | none => rfl
  | some v =>
    exfalso
    obtain ⟨ws, hd, _⟩ := rstrip_decomp (dropSpaces s)
    have h1 := matchInclude_append (strip s) ws (by simp [hs])
    rw [strip_eq, ← hd, matchInclude_dropSpaces, h] at h1
    simp at h1

/-- `strip` keeps a directive line a directive line -/
theorem matchDirective_strip (s : Str) (h : (matchDirective s).isSome = true) :
    (matchDirective (strip s)).isSome = true := by
  unfold matchDirective at h
  cases h1 : dropSpaces s with
  | nil => simp [h1] at h
  | cons c r =>
    rw [h1] at h
    have hc : c = '#' := by
      by_cases hc : c = '#'
      · exact hc
      · exfalso; revert h; split
        · next heq => cases heq; exact absurd rfl hc
        · simp
    subst hc
    obtain ⟨ws, hd, hws⟩ := rstrip_decomp (dropSpaces s)
    have hns : isSpace '#' = false := by decide
    cases hr : rstrip (dropSpaces s) with
    | nil =>
      rw [hr, h1] at hd
      have : '#' ∈ ws := by rw [← List.nil_append ws, ← hd]; simp
      have := hws _ this
      rw [hns] at this; cases this
    | cons d r' =>
      rw [hr, h1] at hd
      have hdd : d = '#' := by simp at hd; exact hd.1.symm
      subst hdd
      have : dropSpaces (strip s) = '#' :: r' := by
        rw [strip_eq, hr]; exact dropWhile_of_head_not hns
      unfold matchDirective
      rw [this]
      rfl

/-! ### the recorded fixes -/

theorem parseGo_true_inv {known : List Str} {n : Nat} {l : Str} {ls : List Str} {fs : List Fix}
    (h : parseGo known true n (l :: ls) = some fs) :
    ∃ fs1, parseGo known (endsBackslash l) (n + 1) ls = some fs1 ∧ fs = ⟨.continuation, n, l⟩ :: fs1 := by
  simp only [parseGo, Option.map_eq_some_iff] at h
  obtain ⟨fs1, h1, h2⟩ := h
  exact ⟨fs1, h1, h2.symm⟩

/-- what one step of the parse can do with a line -/
theorem parseGo_cons_inv {known : List Str} {m : Bool} {n : Nat} {l : Str} {ls : List Str} {fs : List Fix}
    (h : parseGo known m n (l :: ls) = some fs) :
    ∃ m' fs1, parseGo known m' (n + 1) ls = some fs1 ∧
      (fs = fs1 ∨ ∃ k, fs = ⟨k, n, l⟩ :: fs1 ∧
        (k = .ppline → m = false ∧ ((matchInclude l).isSome = true ∨ (matchDirective l).isSome = true))) ∧
      ((m = true ∨ (matchInclude l = none ∧ (matchDirective l).isSome = true)) → m' = endsBackslash l) := by
  cases m with
  | true =>
    obtain ⟨fs1, h1, h2⟩ := parseGo_true_inv h
    exact ⟨_, fs1, h1, Or.inr ⟨_, h2, by intro hk; cases hk⟩, fun _ => rfl⟩
  | false =>
    simp only [parseGo] at h
    split at h
    · next v hv =>
      simp only [Option.map_eq_some_iff] at h
      obtain ⟨fs1, h1, h2⟩ := h
      refine ⟨false, fs1, h1, Or.inr ⟨_, h2.symm, fun _ => ⟨rfl, Or.inl (by simp [hv])⟩⟩, ?_⟩
      rintro (h' | ⟨h', _⟩)
      · cases h'
      · rw [hv] at h'; cases h'
    · next hv =>
      split at h
      · next w hw =>
        split at h
        · split at h
          · exact ⟨_, fs, h, Or.inl rfl, fun _ => rfl⟩
          · simp only [Option.map_eq_some_iff] at h
            obtain ⟨fs1, h1, h2⟩ := h
            exact ⟨_, fs1, h1, Or.inr ⟨_, h2.symm, fun _ => ⟨rfl, Or.inr (by simp [hw])⟩⟩, fun _ => rfl⟩
        · cases h
      · next hw =>
        refine ⟨false, fs, h, Or.inl rfl, ?_⟩
        rintro (h' | ⟨_, h'⟩)
        · cases h'
        · rw [hw] at h'; simp at h'

/-- line numbers recorded from line `n` on are at least `n` -/
theorem parseGo_lineno_ge {known : List Str} : ∀ {ls : List Str} {m : Bool} {n : Nat} {fs : List Fix},
    parseGo known m n ls = some fs → ∀ f ∈ fs, n ≤ f.lineno
  | [], _, _, fs, h, f, hf => by
    simp only [parseGo] at h
    cases h
    simp at hf
  | l :: ls, m, n, fs, h, f, hf => by
    obtain ⟨m', fs1, h1, h2, _⟩ := parseGo_cons_inv h
    have ih := parseGo_lineno_ge h1
    rcases h2 with rfl | ⟨k, rfl, _⟩
    · exact Nat.le_of_succ_le (ih f hf)
    · rcases List.mem_cons.mp hf with rfl | hf'
      · exact Nat.le_refl _
      · exact Nat.le_of_succ_le (ih f hf')

/-- a line before every recorded line number is copied -/
theorem fixGo_skip (fs : List Fix) (fc : Bool) (n : Nat) (l : Str) (ls : List Str)
    (h : ∀ f ∈ fs, n + 1 ≤ f.lineno) : fixGo fs fc n (l :: ls) = l :: fixGo fs fc (n + 1) ls := by
  cases fs with
  | nil => cases ls <;> simp [fixGo]
  | cons f fs =>
    have : n ≠ f.lineno := by
      have := h f List.mem_cons_self
      omega
    simp [fixGo, this]

/-! ### trailing backslashes under `fix_tabs` -/

theorem getLast?_removeTabs {c : Char} (hc : c ≠ '\t') : ∀ (k : Nat) (s : Str),
    s.getLast? = some c → (removeTabs k s).getLast? = some c
  | 0, s, h => by simpa [removeTabs] using h
  | k + 1, [], h => by simp at h
  | k + 1, d :: t, h => by
    simp only [removeTabs]
    cases t with
    | nil =>
      have hd : d = c := by simpa using h
      subst hd
      have : (d == '\t') = false := by simpa using hc
      simp [this, removeTabs]
    | cons e t' =>
      have ht : (e :: t').getLast? = some c := by simpa using h
      split
      · exact getLast?_removeTabs hc k _ ht
      · have ih := getLast?_removeTabs hc (k + 1) (e :: t') ht
        cases hr : removeTabs (k + 1) (e :: t') with
        | nil => rw [hr] at ih; simp at ih
        | cons x y => rw [hr] at ih; simpa using ih

theorem endsBackslash_fixTabs {l : Str} (k : Nat) (h : endsBackslash l = true) :
    endsBackslash (fixTabs l k) = true := by
  have hl : l.getLast? = some '\\' := by simpa [endsBackslash] using h
  unfold fixTabs
  split
  · exact h
  · split
    · have := getLast?_removeTabs (c := '\\') (by decide) (k - 1) l hl
      simpa [endsBackslash] using this
    · cases l with
      | nil => simp at hl
      | cons c r => simpa [endsBackslash] using hl

/-! ### the fixed file: every recorded directive line is a stripped line -/

/-- every recorded directive line is the result of `strip` -/
def Stripped (fs : List Fix) : Prop := ∀ f ∈ fs, f.kind = .ppline → ∃ l0, f.line = strip l0

theorem pragmaOnce_strip : pragmaOnce = strip pragmaOnce := by decide
theorem pragmaOnce_ends : endsBackslash pragmaOnce = false := by decide

theorem stripped_of_tail {f : Fix} {fs : List Fix} (hf : f.kind = .ppline → ∃ l0, f.line = strip l0)
    (h : Stripped fs) : Stripped (f :: fs) := by
  intro g hg
  rcases List.mem_cons.mp hg with rfl | hg'
  · exact hf
  · exact h g hg'

/-- Re-parsing the fixed lines: the parse of the fixed file is "at least as multi-line" as the parse of
    the original (`m → m'`), and whatever it records as a directive line is a stripped line. -/
theorem parse_fix_stripped (known : List Str) : ∀ (ls : List Str) (m m' : Bool) (n : Nat)
    (fs : List Fix) (fc : Bool) (fs' : List Fix), (m = true → m' = true) →
    parseGo known m n ls = some fs → parseGo known m' n (fixGo fs fc n ls) = some fs' → Stripped fs'
  | [], m, m', n, fs, fc, fs', _, _, h2 => by
    have : fixGo fs fc n [] = [] := by cases fs <;> rfl
    rw [this] at h2
    simp only [parseGo] at h2
    cases h2
    intro f hf; simp at hf
  | l :: ls, true, m', n, fs, fc, fs', hm, h1, h2 => by
    have hm' : m' = true := hm rfl
    subst hm'
    obtain ⟨fs1, h1a, rfl⟩ := parseGo_true_inv h1
    have hfix : fixGo (⟨.continuation, n, l⟩ :: fs1) fc n (l :: ls)
        = (if fc then fixTabs l (leadingTabs l) else l) :: fixGo fs1 false (n + 1) ls := by
      simp [fixGo]
    rw [hfix] at h2
    obtain ⟨fs1', h2a, rfl⟩ := parseGo_true_inv h2
    have hends : endsBackslash l = true → endsBackslash (if fc then fixTabs l (leadingTabs l) else l) = true := by
      intro he
      cases fc with
      | true => exact endsBackslash_fixTabs _ he
      | false => exact he
    have ih := parse_fix_stripped known ls _ _ (n + 1) fs1 false fs1' hends h1a h2a
    exact stripped_of_tail (fun hk => by cases hk) ih
  | l :: ls, false, m', n, fs, fc, fs', _, h1, h2 => by
    simp only [parseGo] at h1
    split at h1
    · -- an include line: recorded, stripped
      next v hv =>
      simp only [Option.map_eq_some_iff] at h1
      obtain ⟨fs1, h1a, rfl⟩ := h1
      have hfix : fixGo (⟨.ppline, n, l⟩ :: fs1) fc n (l :: ls) = strip l :: fixGo fs1 true (n + 1) ls := by
        simp [fixGo]
      rw [hfix] at h2
      obtain ⟨m'', fs1', h2a, h2b, _⟩ := parseGo_cons_inv h2
      have ih := parse_fix_stripped known ls false m'' (n + 1) fs1 true fs1' (fun h => by cases h) h1a h2a
      rcases h2b with rfl | ⟨k, rfl, _⟩
      · exact ih
      · exact stripped_of_tail (fun _ => ⟨l, rfl⟩) ih
    · next hv =>
      split at h1
      · next w hw =>
        split at h1
        · split at h1
          · -- `#pragma once`: not recorded, copied
            next hpo =>
            subst hpo
            have hge := parseGo_lineno_ge h1
            rw [fixGo_skip fs fc n _ ls hge] at h2
            obtain ⟨m'', fs1', h2a, h2b, _⟩ := parseGo_cons_inv h2
            have ih := parse_fix_stripped known ls (endsBackslash pragmaOnce) m'' (n + 1) fs fc fs1'
              (fun h => by rw [pragmaOnce_ends] at h; cases h) h1 h2a
            rcases h2b with rfl | ⟨k, rfl, _⟩
            · exact ih
            · exact stripped_of_tail (fun _ => ⟨pragmaOnce, pragmaOnce_strip⟩) ih
          · -- a directive line: recorded, stripped; a multi-line directive stays multi-line
            simp only [Option.map_eq_some_iff] at h1
            obtain ⟨fs1, h1a, rfl⟩ := h1
            have hfix : fixGo (⟨.ppline, n, l⟩ :: fs1) fc n (l :: ls) = strip l :: fixGo fs1 true (n + 1) ls := by
              simp [fixGo]
            rw [hfix] at h2
            obtain ⟨m'', fs1', h2a, h2b, h2c⟩ := parseGo_cons_inv h2
            have hm'' : endsBackslash l = true → m'' = true := by
              intro he
              have : m'' = endsBackslash (strip l) := by
                apply h2c
                cases m' with
                | true => exact Or.inl rfl
                | false =>
                  exact Or.inr ⟨matchInclude_strip_none l hv, matchDirective_strip l (by simp [hw])⟩
              rw [this]; exact endsBackslash_strip he
            have ih := parse_fix_stripped known ls (endsBackslash l) m'' (n + 1) fs1 true fs1' hm'' h1a h2a
            rcases h2b with rfl | ⟨k, rfl, _⟩
            · exact ih
            · exact stripped_of_tail (fun _ => ⟨l, rfl⟩) ih
        · cases h1
      · -- neither an include nor a directive: not recorded, copied
        next hw =>
        have hge := parseGo_lineno_ge h1
        rw [fixGo_skip fs fc n l ls hge] at h2
        obtain ⟨m'', fs1', h2a, h2b, _⟩ := parseGo_cons_inv h2
        have ih := parse_fix_stripped known ls false m'' (n + 1) fs fc fs1' (fun h => by cases h) h1 h2a
        rcases h2b with rfl | ⟨k, rfl, hk⟩
        · exact ih
        · refine stripped_of_tail (fun hkp => ?_) ih
          obtain ⟨_, hor⟩ := hk hkp
          rcases hor with h' | h'
          · rw [hv] at h'; simp at h'
          · rw [hw] at h'; simp at h'

/-- no report about a list of fixes whose directive lines are all stripped -/
theorem reportGo_of_stripped : ∀ (fs : List Fix), Stripped fs → reportGo false fs = []
  | [], _ => rfl
  | f :: fs, h => by
    have ih := reportGo_of_stripped fs (fun g hg => h g (List.mem_cons_of_mem _ hg))
    unfold reportGo
    cases hk : f.kind with
    | ppline =>
      obtain ⟨l0, hl⟩ := h f List.mem_cons_self hk
      have : startsWithSpace f.line = false := by rw [hl]; exact strip_head_not_space l0
      simp [this, ih]
    | continuation => simp [ih]

/-! ### which lines the fixer can change -/

theorem fixGo_length : ∀ (ls : List Str) (fs : List Fix) (fc : Bool) (n : Nat),
    (fixGo fs fc n ls).length = ls.length
  | [], fs, fc, n => by cases fs <;> rfl
  | l :: ls, [], fc, n => by simp [fixGo]
  | l :: ls, f :: fs, fc, n => by
    simp only [fixGo]
    split
    · split <;> simp [fixGo_length ls]
    · simp [fixGo_length ls]

theorem fixGo_untouched : ∀ (ls : List Str) (fs : List Fix) (fc : Bool) (n i : Nat),
    (∀ f ∈ fs, f.lineno ≠ n + i) → (fixGo fs fc n ls)[i]? = ls[i]?
  | [], fs, fc, n, i, _ => by cases fs <;> rfl
  | l :: ls, [], fc, n, i, _ => by simp [fixGo]
  | l :: ls, f :: fs, fc, n, i, h => by
    simp only [fixGo]
    split
    · next hn =>
      cases i with
      | zero => exact absurd hn.symm (by simpa using h f List.mem_cons_self)
      | succ j =>
        have h' : ∀ g ∈ fs, g.lineno ≠ n + 1 + j := fun g hg => by
          have := h g (List.mem_cons_of_mem _ hg); omega
        split <;> simp [fixGo_untouched ls fs _ (n + 1) j h']
    · cases i with
      | zero => simp
      | succ j =>
        have h' : ∀ g ∈ f :: fs, g.lineno ≠ n + 1 + j := fun g hg => by
          have := h g hg; omega
        simp [fixGo_untouched ls (f :: fs) fc (n + 1) j h']

/-- a second inversion of one parse step, for the continuation bookkeeping -/
theorem parseGo_cons_inv' {known : List Str} {m : Bool} {n : Nat} {l : Str} {ls : List Str} {fs : List Fix}
    (h : parseGo known m n (l :: ls) = some fs) :
    ∃ m' fs1, parseGo known m' (n + 1) ls = some fs1 ∧
      (fs = fs1 ∨ ∃ k, fs = ⟨k, n, l⟩ :: fs1 ∧ (k = .continuation → m = true) ∧
        (k = .ppline → (matchInclude l).isSome = true ∨ (matchDirective l).isSome = true)) ∧
      (m' = true → endsBackslash l = true) := by
  cases m with
  | true =>
    obtain ⟨fs1, h1, h2⟩ := parseGo_true_inv h
    exact ⟨_, fs1, h1, Or.inr ⟨_, h2, fun _ => rfl, by intro hk; cases hk⟩, fun h => h⟩
  | false =>
    simp only [parseGo] at h
    split at h
    · next v hv =>
      simp only [Option.map_eq_some_iff] at h
      obtain ⟨fs1, h1, h2⟩ := h
      exact ⟨false, fs1, h1, Or.inr ⟨_, h2.symm, (by intro hk; cases hk), fun _ => Or.inl (by simp [hv])⟩,
        by intro h'; cases h'⟩
    · next hv =>
      split at h
      · next w hw =>
        split at h
        · split at h
          · exact ⟨_, fs, h, Or.inl rfl, fun h => h⟩
          · simp only [Option.map_eq_some_iff] at h
            obtain ⟨fs1, h1, h2⟩ := h
            exact ⟨_, fs1, h1, Or.inr ⟨_, h2.symm, (by intro hk; cases hk), fun _ => Or.inr (by simp [hw])⟩, fun h => h⟩
        · cases h
      · exact ⟨false, fs, h, Or.inl rfl, by intro h'; cases h'⟩

/-- what kind of line a recorded fix points at -/
def RecordedAt (ls : List Str) (m : Bool) (n : Nat) (f : Fix) : Prop :=
  ∃ i, f.lineno = n + i ∧ ls[i]? = some f.line ∧
    (f.kind = .ppline → (matchInclude f.line).isSome = true ∨ (matchDirective f.line).isSome = true) ∧
    (f.kind = .continuation →
      (i = 0 ∧ m = true) ∨ ∃ j prev, i = j + 1 ∧ ls[j]? = some prev ∧ endsBackslash prev = true)

theorem parseGo_records {known : List Str} : ∀ {ls : List Str} {m : Bool} {n : Nat} {fs : List Fix},
    parseGo known m n ls = some fs → ∀ f ∈ fs, RecordedAt ls m n f
  | [], _, _, fs, h, f, hf => by
    simp only [parseGo] at h
    cases h
    simp at hf
  | l :: ls, m, n, fs, h, f, hf => by
    obtain ⟨m', fs1, h1, h2, h3⟩ := parseGo_cons_inv' h
    have ih := parseGo_records h1
    have tail : ∀ g ∈ fs1, RecordedAt (l :: ls) m n g := by
      intro g hg
      obtain ⟨i, hi1, hi2, hi3, hi4⟩ := ih g hg
      refine ⟨i + 1, by omega, by simpa using hi2, hi3, fun hk => ?_⟩
      rcases hi4 hk with ⟨hi0, hm'⟩ | ⟨j, prev, hj, hp, he⟩
      · exact Or.inr ⟨0, l, by omega, by simp, h3 hm'⟩
      · exact Or.inr ⟨j + 1, prev, by omega, by simpa using hp, he⟩
    rcases h2 with rfl | ⟨k, rfl, hk1, hk2⟩
    · exact tail f hf
    · rcases List.mem_cons.mp hf with rfl | hf'
      · exact ⟨0, rfl, by simp, hk2, fun hk => Or.inl ⟨rfl, hk1 hk⟩⟩
      · exact tail f hf'

/-! ### a settled file is a fixed point of the fixer -/

/-- every recorded directive line is stripped, every first continuation line (the one directly after
    its directive line) carries exactly one tab; later continuation lines are free -/
def settledGo : Bool → List Fix → Prop
  | _, [] => True
  | fc, f :: fs =>
    match f.kind with
    | .ppline => strip f.line = f.line ∧ settledGo true fs
    | .continuation => (fc = true → leadingTabs f.line = 1) ∧ settledGo false fs

/-- the continuation half of `settledGo` -/
def contSettled : Bool → List Fix → Prop
  | _, [] => True
  | fc, f :: fs =>
    match f.kind with
    | .ppline => contSettled true fs
    | .continuation => (fc = true → leadingTabs f.line = 1) ∧ contSettled false fs

theorem settled_of_stripped : ∀ (fs : List Fix) (fc : Bool), Stripped fs → contSettled fc fs → settledGo fc fs
  | [], _, _, _ => trivial
  | f :: fs, fc, hs, hc => by
    have hs' : Stripped fs := fun g hg => hs g (List.mem_cons_of_mem _ hg)
    unfold settledGo
    unfold contSettled at hc
    cases hk : f.kind with
    | ppline =>
      rw [hk] at hc
      obtain ⟨l0, hl⟩ := hs f List.mem_cons_self hk
      exact ⟨by rw [hl]; exact strip_idem l0, settled_of_stripped fs true hs' hc⟩
    | continuation =>
      rw [hk] at hc
      exact ⟨hc.1, settled_of_stripped fs false hs' hc.2⟩

theorem fixGo_of_settled {known : List Str} : ∀ (ls : List Str) (m : Bool) (n : Nat) (fs : List Fix) (fc : Bool),
    parseGo known m n ls = some fs → settledGo fc fs → fixGo fs fc n ls = ls
  | [], _, _, fs, _, _, _ => by cases fs <;> rfl
  | l :: ls, m, n, fs, fc, h, hs => by
    obtain ⟨m', fs1, h1, h2, _⟩ := parseGo_cons_inv h
    rcases h2 with rfl | ⟨k, rfl, _⟩
    · rw [fixGo_skip fs fc n l ls (parseGo_lineno_ge h1), fixGo_of_settled ls m' (n + 1) fs fc h1 hs]
    · unfold settledGo at hs
      cases k with
      | ppline =>
        simp only at hs
        have : fixGo (⟨.ppline, n, l⟩ :: fs1) fc n (l :: ls) = strip l :: fixGo fs1 true (n + 1) ls := by
          simp [fixGo]
        rw [this, hs.1, fixGo_of_settled ls m' (n + 1) fs1 true h1 hs.2]
      | continuation =>
        simp only at hs
        obtain ⟨htabs, hrest⟩ := hs
        have : fixGo (⟨.continuation, n, l⟩ :: fs1) fc n (l :: ls)
            = (if fc then fixTabs l (leadingTabs l) else l) :: fixGo fs1 false (n + 1) ls := by
          simp [fixGo]
        rw [this, fixGo_of_settled ls m' (n + 1) fs1 false h1 hrest]
        cases fc with
        | false => rfl
        | true => simp [htabs rfl, fixTabs]

end SymbolVerif.Lint.Indent

/-
Helper lemmas for C20 about `Model/Lint/Indent.lean`.
-/
import SymbolVerif.Model.Lint.Indent
namespace SymbolVerif.Lint.Indent

end SymbolVerif.Lint.Indent

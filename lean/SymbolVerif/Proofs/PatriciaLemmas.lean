/- Helper lemmas for C09 (Patricia part): path encoding, wire format, the verifier's loop. Core Lean only. -/
import SymbolVerif.Model.Sdk.Patricia
import SymbolVerif.Proofs.BytesLemmas
namespace SymbolVerif.Sdk.Patricia
open SymbolVerif SymbolVerif.Bytes

/-! ### nibbles -/

theorem nibbles_cons (b : UInt8) (bs : Bytes) : nibbles (b :: bs) = b.toNat / 16 :: b.toNat % 16 :: nibbles bs := by
  simp [nibbles]

theorem nibbles_length (bs : Bytes) : (nibbles bs).length = 2 * bs.length := by
  induction bs with
  | nil => rfl
  | cons b bs ih => rw [nibbles_cons]; simp [ih]; omega

/-- `_get_nibble_at` is indexing into the hex digits -/
theorem nibbleAt_eq (p : Path) (i : Nat) : nibbleAt p i = (nibbles p.bytes)[i]? := by
  unfold nibbleAt
  generalize p.bytes = bs
  induction bs generalizing i with
  | nil => simp [nibbles]
  | cons b bs ih =>
    rw [nibbles_cons]
    match i with
    | 0 => simp
    | 1 => simp
    | i + 2 =>
      have h1 : (i + 2) / 2 = i / 2 + 1 := by omega
      have h2 : (i + 2) % 2 = i % 2 := by omega
      simp only [h1, h2, List.getElem?_cons_succ]
      exact ih i

theorem nibbles_lt (bs : Bytes) : ∀ n ∈ nibbles bs, n < 16 := by
  induction bs with
  | nil => simp [nibbles]
  | cons b bs ih =>
    rw [nibbles_cons]
    intro n hn
    simp only [List.mem_cons] at hn
    have := b.toNat_lt
    rcases hn with rfl | rfl | hn
    · omega
    · omega
    · exact ih n hn

theorem ofNat_pair (a b : Nat) (ha : a < 16) (hb : b < 16) :
    (UInt8.ofNat (a * 16 + b)).toNat / 16 = a ∧ (UInt8.ofNat (a * 16 + b)).toNat % 16 = b := by
  have : (UInt8.ofNat (a * 16 + b)).toNat = a * 16 + b := by
    simp; omega
  rw [this]; omega

/-- unpacking packed nibbles gives them back (plus a zero pad nibble for an odd count) -/
theorem nibbles_pack (ns : List Nat) (h : ∀ n ∈ ns, n < 16) :
    nibbles (packNibbles ns) = ns ++ (if ns.length % 2 = 1 then [0] else []) := by
  induction ns using packNibbles.induct with
  | case1 => rfl
  | case2 a =>
    have ha : a < 16 := h a (by simp)
    have := ofNat_pair a 0 ha (by omega)
    simp only [Nat.add_zero] at this
    rw [packNibbles, nibbles_cons, this.1, this.2]
    simp [nibbles]
  | case3 a b rest ih =>
    have ha : a < 16 := h a (by simp)
    have hb : b < 16 := h b (by simp)
    have := ofNat_pair a b ha hb
    rw [packNibbles, nibbles_cons, this.1, this.2, ih (fun n hn => h n (by simp [hn]))]
    have : (rest.length + 1 + 1) % 2 = rest.length % 2 := by omega
    simp [this]

theorem packNibbles_length (ns : List Nat) : (packNibbles ns).length = (ns.length + 1) / 2 := by
  induction ns using packNibbles.induct with
  | case1 => rfl
  | case2 a => simp [packNibbles]
  | case3 a b rest ih => simp only [packNibbles, List.length_cons, ih]; omega

theorem hexPath_toPath (ns : List Nat) (h : ∀ n ∈ ns, n < 16) : hexPath (toPath ns) = ns := by
  simp [hexPath, toPath, nibbles_pack ns h]

theorem nibbleAt_toPath (ns : List Nat) (h : ∀ n ∈ ns, n < 16) (i : Nat) (hi : i < ns.length) :
    nibbleAt (toPath ns) i = some ns[i] := by
  rw [nibbleAt_eq]
  simp only [toPath, nibbles_pack ns h]
  rw [List.getElem?_append_left hi]
  simp [hi]

theorem drop_two {α} (l : List α) (i : Nat) (h : i + 1 < l.length) :
    l.drop i = l[i] :: l[i + 1] :: l.drop (i + 2) := by
  rw [List.drop_eq_getElem_cons (by omega), List.drop_eq_getElem_cons (by omega)]

theorem encodePairs_toPath (ns : List Nat) (h : ∀ n ∈ ns, n < 16) (c : Nat) :
    ∀ i, i + 2 * c = ns.length → encodePairs (toPath ns) i c = some (packNibbles (ns.drop i)) := by
  induction c with
  | zero =>
    intro i hi
    have : ns.drop i = [] := List.drop_eq_nil_of_le (by omega)
    simp [encodePairs, this, packNibbles]
  | succ c ih =>
    intro i hi
    have h1 : i < ns.length := by omega
    have h2 : i + 1 < ns.length := by omega
    rw [encodePairs, nibbleAt_toPath ns h i h1, nibbleAt_toPath ns h (i + 1) h2, ih (i + 2) (by omega),
      drop_two ns i h2]
    simp [packNibbles, Nat.shiftLeft_eq]

/-- `_encode_path` on a well-formed path is the direct definition -/
theorem encodePath_toPath (ns : List Nat) (h : ∀ n ∈ ns, n < 16) (isLeaf : Bool) :
    encodePath (toPath ns) isLeaf = some (encodeNibbles ns isLeaf) := by
  unfold encodePath encodeNibbles
  have hsz : (toPath ns).size = ns.length := rfl
  simp only [hsz]
  by_cases hodd : ns.length % 2 = 1
  · rw [if_pos hodd, if_pos hodd]
    match ns, h, hodd with
    | [], _, hodd => simp at hodd
    | a :: rest, h, hodd =>
      have h0 := nibbleAt_toPath (a :: rest) h 0 (by simp)
      have hp := encodePairs_toPath (a :: rest) h ((a :: rest).length / 2) 1 (by omega)
      rw [h0, hp]
      simp
  · rw [if_neg hodd, if_neg hodd]
    have hp := encodePairs_toPath ns h (ns.length / 2) 0 (by omega)
    rw [hp]
    simp

/-! ### the wire format -/

theorem read_append (a tail : Bytes) : Reader.read ⟨a ++ tail, false⟩ a.length = (a, ⟨tail, false⟩) := by
  simp [Reader.read]

theorem read_cons (b : UInt8) (tail : Bytes) : Reader.read ⟨b :: tail, false⟩ 1 = ([b], ⟨tail, false⟩) := by
  simp [Reader.read]

theorem testBit_maskOf (ls : List (Option Bytes)) (i : Nat) :
    (maskOf ls).testBit i = (ls[i]?.bind id).isSome := by
  induction ls generalizing i with
  | nil => simp [maskOf]
  | cons l ls ih =>
    simp only [maskOf]
    cases i with
    | zero =>
      cases l <;> simp [Nat.testBit]
    | succ i =>
      rw [Nat.add_comm, Nat.testBit_succ]
      have : (2 * maskOf ls + if l.isSome = true then 1 else 0) / 2 = maskOf ls := by
        split <;> omega
      rw [this, ih]
      simp

theorem maskOf_lt (ls : List (Option Bytes)) : maskOf ls < 2 ^ ls.length := by
  induction ls with
  | nil => simp [maskOf]
  | cons l ls ih =>
    simp only [maskOf, List.length_cons, Nat.pow_succ]
    split <;> omega

theorem and_pow_ne_zero_iff_testBit (m i : Nat) : (m &&& 2 ^ i ≠ 0) ↔ m.testBit i = true := by
  constructor
  · intro h
    cases hb : m.testBit i with
    | true => rfl
    | false =>
      exfalso
      apply h
      apply Nat.eq_of_testBit_eq
      intro j
      simp only [Nat.testBit_and, Nat.testBit_two_pow, Nat.zero_testBit]
      by_cases hij : i = j
      · subst hij; simp [hb]
      · simp [hij]
  · intro h hz
    have := congrArg (fun x => x.testBit i) hz
    simp [Nat.testBit_and, Nat.testBit_two_pow_self, h] at this

theorem readHash_some {r : Reader} {b : Bytes} {r' : Reader} (h : readHash r = some (b, r')) :
    b = (r.read 32).1 ∧ r' = (r.read 32).2 ∧ b.length = 32 := by
  unfold readHash at h
  generalize r.read 32 = x at h
  obtain ⟨b', r''⟩ := x
  simp only at h
  split at h
  · simp only [Option.some.injEq, Prod.mk.injEq] at h
    obtain ⟨rfl, rfl⟩ := h
    exact ⟨rfl, rfl, ‹_›⟩
  · cases h

/-- reading the link slots `k, k+1, …` back from the concatenation of the present links -/
theorem readLinks_serialize (full : List (Option Bytes)) (tail : Bytes) :
    ∀ (suffix : List (Option Bytes)) (k : Nat), full.drop k = suffix →
      (∀ h, some h ∈ suffix → h.length = 32) →
      readLinks (maskOf full) k suffix.length ⟨(suffix.filterMap id).flatten ++ tail, false⟩ = some (suffix, ⟨tail, false⟩) := by
  intro suffix
  induction suffix with
  | nil => intro k _ _; simp [readLinks]
  | cons l ls ih =>
    intro k hk hlen
    have hget : full[k]? = some l := by
      have := congrArg (fun x => x[0]?) hk
      simpa using this
    have hdrop : full.drop (k + 1) = ls := by
      have := congrArg (List.drop 1) hk
      simpa using this
    have hbit : (maskOf full).testBit k = l.isSome := by
      rw [testBit_maskOf, hget]; cases l <;> simp
    simp only [List.length_cons, readLinks]
    cases l with
    | none =>
      have : ¬ (maskOf full &&& 2 ^ k ≠ 0) := by
        rw [and_pow_ne_zero_iff_testBit, hbit]; simp
      rw [if_neg this]
      have := ih (k + 1) hdrop (fun h hh => hlen h (by simp [hh]))
      simp only [List.filterMap_cons, id] at this ⊢
      rw [this]
      rfl
    | some hsh =>
      have : maskOf full &&& 2 ^ k ≠ 0 := by
        rw [and_pow_ne_zero_iff_testBit, hbit]; simp
      rw [if_pos this]
      have hl : hsh.length = 32 := hlen hsh (by simp)
      have hr : readHash ⟨((some hsh :: ls).filterMap id).flatten ++ tail, false⟩ =
          some (hsh, ⟨(ls.filterMap id).flatten ++ tail, false⟩) := by
        unfold readHash
        have := read_append hsh ((ls.filterMap id).flatten ++ tail)
        rw [hl] at this
        simp only [List.filterMap_cons, id, List.flatten_cons, List.append_assoc]
        rw [this]
        simp [hl]
      rw [hr]
      have := ih (k + 1) hdrop (fun h hh => hlen h (by simp [hh]))
      simp only [Option.bind_eq_bind, Option.bind_some]
      rw [this]
      rfl

theorem leNat_singleton (b : UInt8) : leNat [b] = b.toNat := by simp [leNat]

theorem parsePath_serialize (p : Path) (hs : p.size < 256) (hb : p.bytes.length = (p.size + 1) / 2) (tail : Bytes) :
    parsePath ⟨UInt8.ofNat p.size :: (p.bytes ++ tail), false⟩ = (p, ⟨tail, false⟩) := by
  unfold parsePath
  rw [read_cons]
  simp only [leNat_singleton]
  have : (UInt8.ofNat p.size).toNat = p.size := by simp; omega
  rw [this, ← hb, read_append]

theorem parseNode_serialize (node : Node) (h : node.WF) (tail : Bytes) :
    parseNode ⟨serializeNode node ++ tail, false⟩ = some (node, ⟨tail, false⟩) := by
  cases node with
  | leaf p v =>
    obtain ⟨hs, hb, hv⟩ := h
    unfold parseNode
    simp only [serializeNode, List.cons_append, read_cons, leNat_singleton]
    have : (0xFF : UInt8).toNat = 0xFF := rfl
    rw [this, if_pos rfl, List.append_assoc, parsePath_serialize p hs hb]
    unfold readHash
    have := read_append v tail
    rw [hv] at this
    simp only [this, hv, if_true, Option.map_some]
  | branch p links =>
    obtain ⟨hs, hb, hl, hh⟩ := h
    unfold parseNode
    simp only [serializeNode, List.cons_append, read_cons, leNat_singleton]
    have h0 : (0x00 : UInt8).toNat = 0 := rfl
    rw [h0, if_neg (by decide), if_pos rfl, List.append_assoc, parsePath_serialize p hs hb]
    have hm : maskOf links < 256 ^ 2 := by
      have := maskOf_lt links
      rw [hl] at this
      calc maskOf links < 2 ^ 16 := this
        _ = 256 ^ 2 := by decide
    have hr := read_append (leBytes 2 (maskOf links)) ((links.filterMap id).flatten ++ tail)
    rw [leBytes_length] at hr
    simp only [List.append_assoc, hr, leNat_leBytes_of_lt hm]
    have := readLinks_serialize links tail links 0 (by simp) hh
    rw [hl] at this
    rw [this]
    rfl

theorem serializeNode_length_pos (node : Node) : 0 < (serializeNode node).length := by
  cases node <;> simp [serializeNode]

theorem deserializeFrom_serialize (nodes : List Node) (h : ∀ n ∈ nodes, n.WF) :
    deserializeFrom ⟨serialize nodes, false⟩ = .ok nodes := by
  induction nodes with
  | nil => rw [deserializeFrom]; simp [serialize]
  | cons node rest ih =>
    have hne : ¬ (serialize (node :: rest)).isEmpty = true := by
      have := serializeNode_length_pos node
      simp only [serialize, List.map_cons, List.flatten_cons, List.isEmpty_iff]
      intro hc
      have := congrArg List.length hc
      simp only [List.length_append, List.length_nil] at this
      omega
    rw [deserializeFrom]
    simp only [Bool.false_eq_true, if_false, hne]
    have hp : parseNode ⟨serialize (node :: rest), false⟩ = some (node, ⟨serialize rest, false⟩) := by
      simpa [serialize] using parseNode_serialize node (h node (by simp)) (serialize rest)
    rw [hp]
    have hlt : (serialize rest).length < (serialize (node :: rest)).length := by
      have := serializeNode_length_pos node
      simp only [serialize, List.map_cons, List.flatten_cons, List.length_append]; omega
    simp only [hlt, dif_pos]
    rw [ih (fun n hn => h n (by simp [hn]))]

/-! ### every iteration of the reader loop consumes input (the guard in `deserializeFrom` never fires) -/

theorem read_rest_le (r : Reader) (n : Nat) : (r.read n).2.rest.length ≤ r.rest.length := by
  unfold Reader.read
  split
  · exact Nat.le_refl _
  · split <;> simp

theorem readLinks_rest_le (mask : Nat) : ∀ (c idx : Nat) (r : Reader) ls r', readLinks mask idx c r = some (ls, r') →
    r'.rest.length ≤ r.rest.length := by
  intro c
  induction c with
  | zero => intro idx r ls r' h; simp [readLinks] at h; rw [← h.2]; exact Nat.le_refl _
  | succ c ih =>
    intro idx r ls r' h
    simp only [readLinks] at h
    split at h
    · cases hr : readHash r with
      | none => simp [hr] at h
      | some x =>
        obtain ⟨hh, r1⟩ := x
        simp only [hr, Option.bind_eq_bind, Option.bind_some] at h
        cases hl : readLinks mask (idx + 1) c r1 with
        | none => simp [hl] at h
        | some y =>
          obtain ⟨ls2, r2⟩ := y
          simp only [hl, Option.bind_some, Option.pure_def, Option.some.injEq, Prod.mk.injEq] at h
          have h1 := ih (idx + 1) r1 ls2 r2 hl
          have h2 : r1.rest.length ≤ r.rest.length := by
            rw [(readHash_some hr).2.1]; exact read_rest_le r 32
          rw [← h.2]; omega
    · cases hl : readLinks mask (idx + 1) c r with
      | none => simp [hl] at h
      | some y =>
        obtain ⟨ls2, r2⟩ := y
        simp only [hl, Option.bind_eq_bind, Option.bind_some, Option.pure_def, Option.some.injEq, Prod.mk.injEq] at h
        have h1 := ih (idx + 1) r ls2 r2 hl
        rw [← h.2]; exact h1

theorem parseNode_consumes (r : Reader) (node : Node) (r' : Reader) (hover : r.over = false)
    (hne : r.rest ≠ []) (h : parseNode r = some (node, r')) : r'.rest.length < r.rest.length := by
  obtain ⟨rest, over⟩ := r
  simp only at hover hne
  subst hover
  match rest, hne with
  | b :: tail, _ =>
    unfold parseNode at h
    simp only [read_cons, leNat_singleton] at h
    have hpp : ∀ x : Reader, (parsePath x).2.rest.length ≤ x.rest.length := by
      intro x
      unfold parsePath
      exact Nat.le_trans (read_rest_le _ _) (read_rest_le _ _)
    split at h
    · cases hr : readHash (parsePath ⟨tail, false⟩).2 with
      | none => simp [hr] at h
      | some y =>
        obtain ⟨v, r3⟩ := y
        simp only [hr, Option.map_some, Option.some.injEq, Prod.mk.injEq] at h
        have h2 : r3.rest.length ≤ (parsePath ⟨tail, false⟩).2.rest.length := by
          rw [(readHash_some hr).2.1]; exact read_rest_le _ 32
        have := hpp ⟨tail, false⟩
        rw [← h.2]
        simp only [List.length_cons] at *
        omega
    · split at h
      · cases hl : readLinks (leNat ((parsePath ⟨tail, false⟩).2.read 2).1) 0 16 ((parsePath ⟨tail, false⟩).2.read 2).2 with
        | none => simp [hl] at h
        | some y =>
          obtain ⟨ls, r4⟩ := y
          simp only [hl, Option.map_some, Option.some.injEq, Prod.mk.injEq] at h
          have h1 := readLinks_rest_le _ _ _ _ _ _ hl
          have h2 := read_rest_le (parsePath ⟨tail, false⟩).2 2
          have h3 := hpp ⟨tail, false⟩
          rw [← h.2]
          simp only [List.length_cons] at *
          omega
      · cases h

end SymbolVerif.Sdk.Patricia

/- Helper lemmas for C07 about `Model/Sdk/Framing.lean` (core Lean only). -/
import SymbolVerif.Model.Sdk.Framing
import SymbolVerif.Proofs.BytesLemmas
namespace SymbolVerif.Sdk.Framing
open SymbolVerif SymbolVerif.Bytes SymbolVerif.Sdk.Ed25519

/-- the type code read from the bytes after the header. -/
def bodyType (body : Bytes) : Option Nat :=
  match body[2]?, body[3]? with
  | some lo, some hi => some (hi.toNat * 256 + lo.toNat)
  | _, _ => none

/-- what `dataBuffer` computes, stated on the bytes after the header alone. -/
def bodyWindow (body : Bytes) : Option Bytes :=
  (bodyType body).map fun t => if aggregateTypes.contains t then body.take aggregateHashedSize else body

theorem transactionType_append_header {hdr : Bytes} (h : hdr.length = 108) (body : Bytes) :
    transactionType (hdr ++ body) = bodyType body := by
  unfold transactionType bodyType transactionHeaderSize
  have e2 : (hdr ++ body)[108 + 2]? = body[2]? := by
    rw [List.getElem?_append_right (by omega)]; congr 1; omega
  have e3 : (hdr ++ body)[108 + 3]? = body[3]? := by
    rw [List.getElem?_append_right (by omega)]; congr 1; omega
  rw [e2, e3]
  cases body[2]? <;> cases body[3]? <;> rfl

theorem dataBuffer_append_header {hdr : Bytes} (h : hdr.length = 108) (body : Bytes) :
    dataBuffer (hdr ++ body) = bodyWindow body := by
  unfold dataBuffer isAggregate bodyWindow
  rw [transactionType_append_header h]
  have hd : (hdr ++ body).drop transactionHeaderSize = body := by
    rw [transactionHeaderSize, ← h]; exact List.drop_left
  rw [hd]
  cases bodyType body <;> simp

variable {G : Type}

/-- the entries the loop of `generate` writes: one per identifier, each the i-th generated child key followed by the root
    signature over (child public key ‖ identifier). -/
theorem votingEntries_spec (S : Scheme G) (rootSk : Bytes) (childKeys : Nat → Bytes) (ids : List Nat) (i : Nat)
    (es : List Bytes) (h : votingEntries S rootSk childKeys ids i = some es) :
    es.length = ids.length ∧
    ∀ j (hj : j < ids.length), ∃ sig,
      sign S rootSk (publicKey S (childKeys (i + j)) ++ leBytes 8 ids[j]) = some sig ∧
      es[j]? = some (childKeys (i + j) ++ sig) := by
  induction ids generalizing i es with
  | nil =>
    simp only [votingEntries, Option.some.injEq] at h
    subst h
    exact ⟨rfl, fun j hj => absurd hj (by simp)⟩
  | cons identifier ids ih =>
    simp only [votingEntries] at h
    cases he : votingEntry S rootSk (childKeys i) identifier with
    | none => simp [he] at h
    | some e =>
      simp only [he] at h
      cases hr : votingEntries S rootSk childKeys ids (i + 1) with
      | none => simp [hr] at h
      | some rest =>
        simp only [hr, Option.map_some, Option.some.injEq] at h
        subst h
        obtain ⟨hl, hrest⟩ := ih (i + 1) rest hr
        refine ⟨by simp [hl], ?_⟩
        intro j hj
        cases j with
        | zero =>
          unfold votingEntry at he
          cases hs : sign S rootSk (publicKey S (childKeys i) ++ leBytes 8 identifier) with
          | none => simp [hs] at he
          | some sig =>
            simp only [hs, Option.map_some, Option.some.injEq] at he
            exact ⟨sig, by simpa using hs, by simp [he]⟩
        | succ j =>
          obtain ⟨sig, h1, h2⟩ := hrest j (by simpa using hj)
          refine ⟨sig, ?_, ?_⟩
          · have : i + (j + 1) = i + 1 + j := by omega
            simpa [this] using h1
          · have : i + (j + 1) = i + 1 + j := by omega
            simpa [this] using h2

end SymbolVerif.Sdk.Framing

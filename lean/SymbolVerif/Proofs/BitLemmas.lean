/- Helper lemmas: setting / clearing / testing one bit of a natural number (core Lean only). -/
namespace SymbolVerif.Bits

theorem and_pow_of_lt {b n : Nat} (h : b < 2 ^ n) : b &&& 2 ^ n = 0 := by
  apply Nat.eq_of_testBit_eq
  intro i
  simp only [Nat.testBit_and, Nat.testBit_two_pow, Nat.zero_testBit]
  by_cases hi : n = i
  · subst hi; simp [Nat.testBit_lt_two_pow h]
  · simp [hi]

private theorem split_top {r k : Nat} (h : r < 2 ^ (k + 1)) (hr : 2 ^ k ≤ r) :
    r - 2 ^ k < 2 ^ k ∧ r = 2 ^ k ||| (r - 2 ^ k) := by
  have hb : r - 2 ^ k < 2 ^ k := by rw [Nat.pow_succ] at h; omega
  refine ⟨hb, ?_⟩
  have := Nat.two_pow_add_eq_or_of_lt hb 1
  simp only [Nat.mul_one] at this
  rw [← this]; omega

/-- testing bit `k` of a `(k+1)`-bit number is comparing with `2^k`. -/
theorem and_pow_ne_zero_iff {r k : Nat} (h : r < 2 ^ (k + 1)) : (r &&& 2 ^ k ≠ 0) ↔ 2 ^ k ≤ r := by
  by_cases hr : 2 ^ k ≤ r
  · obtain ⟨hb, e⟩ := split_top h hr
    have : r &&& 2 ^ k = 2 ^ k := by
      rw [e, Nat.and_or_distrib_right, and_pow_of_lt hb]; simp
    have hp : 2 ^ k ≠ 0 := Nat.ne_of_gt (Nat.two_pow_pos k)
    simp [this, hr, hp]
  · have : r &&& 2 ^ k = 0 := and_pow_of_lt (by omega)
    simp [this, hr]

/-- setting bit `k` of a `(k+1)`-bit number. -/
theorem or_pow_eq {r k : Nat} (h : r < 2 ^ (k + 1)) : r ||| 2 ^ k = r % 2 ^ k + 2 ^ k := by
  by_cases hr : 2 ^ k ≤ r
  · obtain ⟨hb, e⟩ := split_top h hr
    have : r ||| 2 ^ k = r := by
      rw [e, Nat.or_comm, ← Nat.or_assoc, Nat.or_self]
    have hm : r % 2 ^ k = r - 2 ^ k := by
      rw [Nat.mod_eq_sub_mod hr, Nat.mod_eq_of_lt hb]
    omega
  · rw [Nat.or_two_pow_eq_add_of_lt (by omega)]
    have : r % 2 ^ k = r := Nat.mod_eq_of_lt (by omega)
    omega

end SymbolVerif.Bits

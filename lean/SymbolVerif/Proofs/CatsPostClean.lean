/-
Lemmas that relate the two validation stages through expansion (used by `Properties/C06.lean`):
what a clean PRE_EXPANSION stage guarantees about the members of the expanded structs.

The member-level checks that do not read an attribute-introduced reference ("stable" checks: member type, named inline rule,
element type, array size member, sizeof, condition, constant/reserved value, applicability of attributes) are captured by
`StableOK S Γ f`, where `Γ : Env` is the member environment of the struct the field sits in (member name -> type key of the last
member of that name).  `StableOK` is equivalent to the corresponding error lists being empty and is transported along the three
post-processing phases.
-/
import SymbolVerif.Properties.C05
import SymbolVerif.Proofs.CatsValidate
namespace SymbolVerif.Cats
open SymbolVerif.C05

/-! ## type keys and member environments -/

/-- what the validator looks at in the type of a *referenced* member: the type name, when it has one -/
def tkey : FieldType → Option String
  | .named n => some n
  | _ => none

/-- member environment as a relation: "a member called `r` has type key `k`" -/
abbrev Env := String → Option String → Prop

/-- the validator's environment: member name -> type key of the LAST member of that name (`field_map`) -/
def envOf (M : Struct) : Env := fun r k => (fieldMapGet M r).map (fun h => tkey h.fieldType) = some k

/-- the environment of all members: some member called `r` has type key `k` -/
def memberEnv (M : Struct) : Env := fun r k => ∃ h ∈ M.structFields, h.name = r ∧ tkey h.fieldType = k

/-- a value is right for a type key: one of the enumeration's value names when the key names an enumeration, numeric otherwise -/
def InRangeK (S : Schema) (k : Option String) (v : Scalar) : Prop :=
  match k with
  | some n =>
    (match Schema.lookup S n with
     | some (.enum e) => ∃ ev ∈ e.values, v = .str ev.name
     | _ => v.isInt = true)
  | none => v.isInt = true

theorem inRangeErrors_nil_iff {S : Schema} {tn fn : String} {ft : FieldType} {v : Scalar} :
    inRangeErrors S tn fn ft v = [] ↔ InRangeK S (tkey ft) v := by
  unfold inRangeErrors InRangeK
  have hnum : (if v.isInt = true then ([] : List ErrorDescriptor)
      else [mkErr tn [fn] .notNumeric s!"field value \"{v.pyStr}\" is not a valid numeric value"]) = [] ↔ v.isInt = true := by
    by_cases h : v.isInt = true <;> simp [h]
  cases ft with
  | named n =>
    simp only [tkey]
    cases hl : Schema.lookup S n with
    | none => simpa using hnum
    | some d =>
      cases d with
      | enum e =>
        simp only
        constructor
        · intro h
          by_cases hany : (e.values.any fun x => decide (v = Scalar.str x.name)) = true
          · obtain ⟨ev, hev, heq⟩ := List.any_eq_true.mp hany
            exact ⟨ev, hev, by simpa using heq⟩
          · simp [hany] at h
        · rintro ⟨ev, hev, rfl⟩
          have : (e.values.any fun x => decide (Scalar.str ev.name = Scalar.str x.name)) = true :=
            List.any_eq_true.mpr ⟨ev, hev, by simp⟩
          rw [if_pos this]
      | alias a => simpa using hnum
      | struct s => simpa using hnum
  | int t => simpa [tkey] using hnum
  | array a => simpa [tkey] using hnum

/-- the value clause: sizeof target / condition member resolve in the environment and are well typed; constants are in range -/
def ValueOK (S : Schema) (Γ : Env) (f : StructField) : Prop :=
  match f.value with
  | .scalar .none => True
  | .scalar v =>
    if f.disposition = some "sizeof" then
      ∃ s n R, v = .str s ∧ Γ s (some n) ∧ Schema.lookup S n = some (.struct R) ∧ R.isSizeImplicit.truthy = true
    else InRangeK S (tkey f.fieldType) v
  | .cond c => f.disposition ≠ some "sizeof" ∧ ∃ k, Γ c.linkedFieldName k ∧ InRangeK S k c.value

/-- the member-level clauses that do not read an attribute-introduced reference -/
structure StableOK (S : Schema) (Γ : Env) (f : StructField) : Prop where
  type_ok : ∀ n, f.fieldType = .named n → ∃ d, Schema.lookup S n = some d ∧
    (f.disposition = some "inline" → d.disposition? = some (some "inline"))
  elem_ok : ∀ a n, f.fieldType = .array a → a.elementType = .named n → (Schema.lookup S n).isSome = true
  size_ok : ∀ a s, f.fieldType = .array a → a.size = .str s → ∃ k, Γ s k
  value_ok : ValueOK S Γ f
  attrs_ok : ∀ a ∈ attrList f.attributes, hasAttr f.fieldType a.name = true

theorem sizeofErrors_nil_iff {S : Schema} {M : Struct} {f : StructField} {v : Scalar} :
    sizeofErrors S M f v = [] ↔
      ∃ s n R, v = .str s ∧ envOf M s (some n) ∧ Schema.lookup S n = some (.struct R) ∧ R.isSizeImplicit.truthy = true := by
  unfold sizeofErrors
  constructor
  · intro h
    cases hv : sizeofTarget M v with
    | none => simp [hv] at h
    | some target =>
      simp only [hv] at h
      cases v with
      | str s =>
        have hget : fieldMapGet M s = some target := hv
        cases hft : target.fieldType with
        | named n =>
          simp only [hft] at h
          cases hl : Schema.lookup S n with
          | none => simp [hl] at h
          | some d =>
            cases d with
            | struct R =>
              simp only [hl] at h
              by_cases himp : R.isSizeImplicit.truthy = true
              · exact ⟨s, n, R, rfl, by simp [envOf, hget, hft, tkey], hl, himp⟩
              · simp [himp] at h
            | alias a => simp [hl] at h
            | enum e => simp [hl] at h
        | int t => simp [hft] at h
        | array a => simp [hft] at h
      | int i => simp [sizeofTarget] at hv
      | bool b => simp [sizeofTarget] at hv
      | none => simp [sizeofTarget] at hv
  · rintro ⟨s, n, R, rfl, henv, hl, himp⟩
    simp only [envOf] at henv
    cases hget : fieldMapGet M s with
    | none => simp [hget] at henv
    | some target =>
      simp only [hget, Option.map_some, Option.some.injEq] at henv
      have hft : target.fieldType = .named n := by
        cases hft : target.fieldType with
        | named m => simp [hft, tkey] at henv; rw [henv]
        | int t => simp [hft, tkey] at henv
        | array a => simp [hft, tkey] at henv
      simp [sizeofTarget, hget, hft, hl, himp]

theorem valueErrors_nil_iff {S : Schema} {M : Struct} {f : StructField} :
    valueErrors S M f = [] ↔ ValueOK S (envOf M) f := by
  unfold valueErrors ValueOK
  cases hval : f.value with
  | scalar v =>
    cases v with
    | none => simp
    | str s =>
      simp only
      by_cases hd : f.disposition = some "sizeof"
      · simp only [hd, if_true]; exact sizeofErrors_nil_iff
      · simp only [hd, if_false]; exact inRangeErrors_nil_iff
    | int i =>
      simp only
      by_cases hd : f.disposition = some "sizeof"
      · simp only [hd, if_true]; exact sizeofErrors_nil_iff
      · simp only [hd, if_false]; exact inRangeErrors_nil_iff
    | bool b =>
      simp only
      by_cases hd : f.disposition = some "sizeof"
      · simp only [hd, if_true]; exact sizeofErrors_nil_iff
      · simp only [hd, if_false]; exact inRangeErrors_nil_iff
  | cond c =>
    simp only
    by_cases hd : f.disposition = some "sizeof"
    · simp only [hd, if_true, ne_eq, not_true_eq_false, false_and, iff_false]
      simp [sizeofErrors, sizeofTarget]
    · simp only [hd, if_false, ne_eq, not_false_eq_true, true_and]
      cases hget : fieldMapGet M c.linkedFieldName with
      | none => simp [envOf, hget]
      | some linked =>
        simp only [envOf, hget, Option.map_some, Option.some.injEq, exists_eq_left']
        exact inRangeErrors_nil_iff

theorem typeErrors_nil_iff {S : Schema} {tn : String} {f : StructField} :
    typeErrors S tn f = [] ↔ ∀ n, f.fieldType = .named n → ∃ d, Schema.lookup S n = some d ∧
      (f.disposition = some "inline" → d.disposition? = some (some "inline")) := by
  unfold typeErrors
  cases hft : f.fieldType with
  | named n =>
    simp only
    cases hl : Schema.lookup S n with
    | none => simp [hl]
    | some d =>
      by_cases hd : f.disposition = some "inline"
      · by_cases hdd : d.disposition? = some (some "inline") <;> simp [hd, hdd, hl]
      · simp [hd, hl]
  | int t => simp
  | array a => simp

theorem attributeErrors_nil_iff {tn : String} {f : StructField} :
    attributeErrors tn f = [] ↔ ∀ a ∈ attrList f.attributes, hasAttr f.fieldType a.name = true := by
  unfold attributeErrors
  rw [List.flatMap_eq_nil_iff]
  constructor
  · intro h a ha
    have := h a ha
    by_cases hh : hasAttr f.fieldType a.name = true
    · exact hh
    · simp [hh] at this
  · intro h a ha
    simp [h a ha]

theorem arrayElemErrors_nil_iff {S : Schema} {tn fn : String} {a : ArrayType} :
    arrayElemErrors S tn fn a = [] ↔ ∀ n, a.elementType = .named n → (Schema.lookup S n).isSome = true := by
  unfold arrayElemErrors elemKnown
  cases he : a.elementType with
  | named n =>
    by_cases hk : isKnownType S n = true
    · simp [hk]; simpa [isKnownType] using hk
    · simp [hk]; simpa [isKnownType] using hk
  | int t => simp

theorem arraySizeErrors_nil_iff {M : Struct} {fn : String} {a : ArrayType} :
    arraySizeErrors M fn a = [] ↔ ∀ s, a.size = .str s → ∃ k, envOf M s k := by
  unfold arraySizeErrors
  cases hs : a.size with
  | str s =>
    cases hg : fieldMapGet M s with
    | some h => simp [envOf, hg]
    | none => simp [envOf, hg]
  | int i => simp
  | bool b => simp
  | none => simp

/-- the stable part of the member check: everything except the `sizeref` and `sort_key` references, which only exist once
    `apply_attributes` has run -/
def stableFieldErrors (S : Schema) (M : Struct) (f : StructField) : List ErrorDescriptor :=
  typeErrors S M.name f ++
  (match f.fieldType with
   | .array a => arrayElemErrors S M.name f.name a ++ arraySizeErrors M f.name a
   | _ => []) ++
  valueErrors S M f ++ attributeErrors M.name f

theorem stableFieldErrors_nil_iff {S : Schema} {M : Struct} {f : StructField} :
    stableFieldErrors S M f = [] ↔ StableOK S (envOf M) f := by
  unfold stableFieldErrors
  simp only [List.append_eq_nil_iff]
  constructor
  · rintro ⟨⟨⟨h1, h2⟩, h3⟩, h4⟩
    refine ⟨typeErrors_nil_iff.mp h1, ?_, ?_, valueErrors_nil_iff.mp h3, attributeErrors_nil_iff.mp h4⟩
    · intro a n hft he
      simp only [hft, List.append_eq_nil_iff] at h2
      exact arrayElemErrors_nil_iff.mp h2.1 n he
    · intro a s hft hs
      simp only [hft, List.append_eq_nil_iff] at h2
      exact arraySizeErrors_nil_iff.mp h2.2 s hs
  · intro h
    refine ⟨⟨⟨typeErrors_nil_iff.mpr h.type_ok, ?_⟩, valueErrors_nil_iff.mpr h.value_ok⟩, attributeErrors_nil_iff.mpr h.attrs_ok⟩
    cases hft : f.fieldType with
    | array a =>
      simp only [List.append_eq_nil_iff]
      exact ⟨arrayElemErrors_nil_iff.mpr (fun n he => h.elem_ok a n hft he), arraySizeErrors_nil_iff.mpr (fun s hs => h.size_ok a s hft hs)⟩
    | named n => rfl
    | int t => rfl

/-- a clean member check implies the stable part is clean -/
theorem stable_of_fieldErrors_nil {S : Schema} {M : Struct} {f : StructField} (h : fieldErrors S M f = []) :
    StableOK S (envOf M) f := by
  apply stableFieldErrors_nil_iff.mp
  unfold fieldErrors at h
  simp only [List.append_eq_nil_iff] at h
  obtain ⟨⟨⟨⟨h1, _⟩, h3⟩, h4⟩, h5⟩ := h
  unfold stableFieldErrors
  simp only [List.append_eq_nil_iff]
  refine ⟨⟨⟨h1, ?_⟩, h4⟩, h5⟩
  unfold arrayErrors at h3
  cases hft : f.fieldType with
  | array a =>
    simp only [hft, List.append_eq_nil_iff] at h3
    simp only [List.append_eq_nil_iff]
    exact ⟨h3.1.1, h3.2⟩
  | named n => rfl
  | int t => rfl

/-! ## transport of `StableOK` -/

/-- what the stable checks can see of a declaration does not get worse: same kind, same enumeration, same disposition,
    `is_size_implicit` kept -/
inductive DeclLe : Decl → Decl → Prop
  | alias (a a' : Alias) : DeclLe (.alias a) (.alias a')
  | enum (e : Enum) : DeclLe (.enum e) (.enum e)
  | struct (M M' : Struct) : M'.disposition = M.disposition →
      (M.isSizeImplicit.truthy = true → M'.isSizeImplicit.truthy = true) → DeclLe (.struct M) (.struct M')

structure SchemaLe (S S' : Schema) : Prop where
  some_le : ∀ n d, Schema.lookup S n = some d → ∃ d', Schema.lookup S' n = some d' ∧ DeclLe d d'
  none_eq : ∀ n, Schema.lookup S n = none → Schema.lookup S' n = none

theorem DeclLe.refl (d : Decl) : DeclLe d d := by
  cases d with
  | alias a => exact .alias a a
  | enum e => exact .enum e
  | struct M => exact .struct M M rfl id

theorem DeclLe.trans {a b c : Decl} (h1 : DeclLe a b) (h2 : DeclLe b c) : DeclLe a c := by
  cases h1 with
  | alias x y => cases h2 with | alias _ z => exact .alias x z
  | enum e => cases h2 with | enum _ => exact .enum e
  | struct M M' hd hi => cases h2 with | struct _ M'' hd' hi' => exact .struct M M'' (hd'.trans hd) (fun h => hi' (hi h))

theorem SchemaLe.refl (S : Schema) : SchemaLe S S := ⟨fun _ d h => ⟨d, h, DeclLe.refl d⟩, fun _ h => h⟩

theorem SchemaLe.trans {A B C : Schema} (h1 : SchemaLe A B) (h2 : SchemaLe B C) : SchemaLe A C := by
  refine ⟨?_, fun n h => h2.none_eq n (h1.none_eq n h)⟩
  intro n d hd
  obtain ⟨d', hd', hle⟩ := h1.some_le n d hd
  obtain ⟨d'', hd'', hle'⟩ := h2.some_le n d' hd'
  exact ⟨d'', hd'', hle.trans hle'⟩

theorem inRangeK_le {S S' : Schema} (hle : SchemaLe S S') {k : Option String} {v : Scalar} (h : InRangeK S k v) : InRangeK S' k v := by
  unfold InRangeK at *
  cases k with
  | none => exact h
  | some n =>
    simp only at h ⊢
    cases hl : Schema.lookup S n with
    | none => rw [hle.none_eq n hl]; simpa [hl] using h
    | some d =>
      obtain ⟨d', hd', hdle⟩ := hle.some_le n d hl
      rw [hd']
      cases hdle with
      | alias a a' => simpa [hl] using h
      | enum e => simpa [hl] using h
      | struct M M' _ _ => simpa [hl] using h

theorem stable_schema_le {S S' : Schema} (hle : SchemaLe S S') {Γ : Env} {f : StructField} (h : StableOK S Γ f) : StableOK S' Γ f := by
  refine ⟨?_, ?_, h.size_ok, ?_, h.attrs_ok⟩
  · intro n hn
    obtain ⟨d, hd, hin⟩ := h.type_ok n hn
    obtain ⟨d', hd', hdle⟩ := hle.some_le n d hd
    refine ⟨d', hd', fun hdisp => ?_⟩
    have := hin hdisp
    cases hdle with
    | alias a a' => simp [Decl.disposition?] at this
    | enum e => exact this
    | struct M M' hdm _ => simpa [Decl.disposition?, hdm] using this
  · intro a n hft he
    have := h.elem_ok a n hft he
    obtain ⟨d, hd⟩ := Option.isSome_iff_exists.mp this
    obtain ⟨d', hd', _⟩ := hle.some_le n d hd
    simp [hd']
  · have hv := h.value_ok
    unfold ValueOK at hv ⊢
    cases hval : f.value with
    | scalar v =>
      rw [hval] at hv
      cases v with
      | none => trivial
      | str s =>
        simp only at hv ⊢
        by_cases hd : f.disposition = some "sizeof"
        · simp only [hd, if_true] at hv ⊢
          obtain ⟨s', n, R, hs, hg, hl, himp⟩ := hv
          obtain ⟨d', hd', hdle⟩ := hle.some_le n _ hl
          cases hdle with
          | struct _ R' _ hi => exact ⟨s', n, R', hs, hg, hd', hi himp⟩
        · simp only [hd, if_false] at hv ⊢; exact inRangeK_le hle hv
      | int i =>
        simp only at hv ⊢
        by_cases hd : f.disposition = some "sizeof"
        · simp only [hd, if_true] at hv ⊢
          obtain ⟨s', n, R, hs, _⟩ := hv; cases hs
        · simp only [hd, if_false] at hv ⊢; exact inRangeK_le hle hv
      | bool b =>
        simp only at hv ⊢
        by_cases hd : f.disposition = some "sizeof"
        · simp only [hd, if_true] at hv ⊢
          obtain ⟨s', n, R, hs, _⟩ := hv; cases hs
        · simp only [hd, if_false] at hv ⊢; exact inRangeK_le hle hv
    | cond c =>
      rw [hval] at hv
      obtain ⟨hd, k, hk, hr⟩ := hv
      exact ⟨hd, k, hk, inRangeK_le hle hr⟩

/-- the member names the stable checks of a field resolve in the environment: array size member, condition member, sizeof target -/
def stableRefs (f : StructField) : List String :=
  (match f.fieldType with
   | .array a => (match a.size with | .str s => [s] | _ => [])
   | _ => []) ++
  (match f.value with
   | .cond c => [c.linkedFieldName]
   | .scalar (.str s) => if f.disposition = some "sizeof" then [s] else []
   | _ => [])

theorem stable_env_le {S : Schema} {Γ Γ' : Env} {f : StructField}
    (henv : ∀ r ∈ stableRefs f, ∀ k, Γ r k → Γ' r k) (h : StableOK S Γ f) : StableOK S Γ' f := by
  refine ⟨h.type_ok, h.elem_ok, ?_, ?_, h.attrs_ok⟩
  · intro a s hft hs
    obtain ⟨k, hk⟩ := h.size_ok a s hft hs
    have hr : s ∈ stableRefs f := by simp [stableRefs, hft, hs]
    exact ⟨k, henv s hr k hk⟩
  · have hv := h.value_ok
    unfold ValueOK at hv ⊢
    cases hval : f.value with
    | scalar v =>
      rw [hval] at hv
      cases v with
      | none => trivial
      | str s =>
        simp only at hv ⊢
        by_cases hd : f.disposition = some "sizeof"
        · simp only [hd, if_true] at hv ⊢
          obtain ⟨s', n, R, hs, hg, hl, himp⟩ := hv
          cases hs
          have hr : s ∈ stableRefs f := by simp [stableRefs, hval, hd]
          exact ⟨s, n, R, rfl, henv s hr _ hg, hl, himp⟩
        · simp only [hd, if_false] at hv ⊢; exact hv
      | int i =>
        simp only at hv ⊢
        by_cases hd : f.disposition = some "sizeof"
        · simp only [hd, if_true] at hv
          obtain ⟨_, _, _, hs, _⟩ := hv; cases hs
        · simp only [hd, if_false] at hv ⊢; exact hv
      | bool b =>
        simp only at hv ⊢
        by_cases hd : f.disposition = some "sizeof"
        · simp only [hd, if_true] at hv
          obtain ⟨_, _, _, hs, _⟩ := hv; cases hs
        · simp only [hd, if_false] at hv ⊢; exact hv
    | cond c =>
      rw [hval] at hv
      obtain ⟨hd, k, hk, hr⟩ := hv
      have hmem : c.linkedFieldName ∈ stableRefs f := by simp [stableRefs, hval]
      exact ⟨hd, k, henv _ hmem k hk, hr⟩

/-- two field types the stable checks cannot tell apart (attribute application changes `sizeref` and array attributes only) -/
def FtShape : FieldType → FieldType → Prop
  | .named n, .named n' => n = n'
  | .int _, .int _ => True
  | .array a, .array a' => a.elementType = a'.elementType ∧ a.rawSize = a'.rawSize
  | _, _ => False

theorem FtShape.refl (ft : FieldType) : FtShape ft ft := by
  cases ft <;> simp [FtShape]

theorem FtShape.trans {a b c : FieldType} (h1 : FtShape a b) (h2 : FtShape b c) : FtShape a c := by
  cases a <;> cases b <;> cases c <;> simp_all [FtShape]

theorem FtShape.tkey {a b : FieldType} (h : FtShape a b) : tkey a = tkey b := by
  cases a <;> cases b <;> simp_all [FtShape, Cats.tkey]

theorem FtShape.hasAttr {a b : FieldType} (h : FtShape a b) (n : String) : hasAttr a n = hasAttr b n := by
  cases a <;> cases b <;> simp_all [FtShape, Cats.hasAttr]

theorem stable_shape {S : Schema} {Γ : Env} {f f' : StructField} (hft : FtShape f.fieldType f'.fieldType)
    (hv : f'.value = f.value) (hd : f'.disposition = f.disposition) (ha : f'.attributes = f.attributes)
    (h : StableOK S Γ f) : StableOK S Γ f' := by
  refine ⟨?_, ?_, ?_, ?_, ?_⟩
  · intro n hn
    have : f.fieldType = .named n := by
      cases hf : f.fieldType with
      | named m => rw [hf, hn] at hft; simp [FtShape] at hft; rw [hft]
      | int t => rw [hf, hn] at hft; simp [FtShape] at hft
      | array a => rw [hf, hn] at hft; simp [FtShape] at hft
    rw [hd]; exact h.type_ok n this
  · intro a' n hfa he
    cases hf : f.fieldType with
    | named m => rw [hf, hfa] at hft; simp [FtShape] at hft
    | int t => rw [hf, hfa] at hft; simp [FtShape] at hft
    | array a =>
      rw [hf, hfa] at hft; simp only [FtShape] at hft
      exact h.elem_ok a n hf (by rw [hft.1]; exact he)
  · intro a' s hfa hs
    cases hf : f.fieldType with
    | named m => rw [hf, hfa] at hft; simp [FtShape] at hft
    | int t => rw [hf, hfa] at hft; simp [FtShape] at hft
    | array a =>
      rw [hf, hfa] at hft; simp only [FtShape] at hft
      have : a.size = .str s := by
        unfold ArrayType.size ArrayType.isExpandable at hs ⊢
        rw [hft.2]; exact hs
      exact h.size_ok a s hf this
  · have hvo := h.value_ok
    unfold ValueOK at hvo ⊢
    rw [hv, hd, ← hft.tkey]
    exact hvo
  · intro a ha'
    rw [ha] at ha'
    rw [← hft.hasAttr]
    exact h.attrs_ok a ha'

theorem stableRefs_shape {f f' : StructField} (hft : FtShape f.fieldType f'.fieldType)
    (hv : f'.value = f.value) (hd : f'.disposition = f.disposition) : stableRefs f' = stableRefs f := by
  unfold stableRefs
  rw [hv, hd]
  congr 1
  cases hf : f.fieldType <;> cases hf' : f'.fieldType <;> rw [hf, hf'] at hft <;> simp_all [FtShape, ArrayType.size, ArrayType.isExpandable]

/-! ### the prefixed copy -/

theorem copyFor_fieldType (site g : StructField) : (copyFor site g).fieldType = g.fieldType.copy site.name := rfl
theorem copyFor_value (site g : StructField) : (copyFor site g).value = g.value.copy site.name g.disposition := rfl
theorem copyFor_disposition (site g : StructField) : (copyFor site g).disposition = g.disposition := rfl
theorem copyFor_attributes (site g : StructField) : (copyFor site g).attributes = g.attributes := rfl
theorem copyFor_name (site g : StructField) : (copyFor site g).name = prefixName site.name g.name := rfl

theorem tkey_copy (p : String) (ft : FieldType) : tkey (ft.copy p) = tkey ft := by
  cases ft <;> rfl

theorem hasAttr_copy (p : String) (ft : FieldType) (n : String) : hasAttr (ft.copy p) n = hasAttr ft n := by
  cases ft <;> rfl

/-- the size of a copied array, when it still names a member, names the prefixed copy of the member the original named -/
theorem size_copy {p : String} {a : ArrayType} {s' : String} (h : (a.copy p).size = .str s') :
    ∃ s, a.size = .str s ∧ s' = prefixRef p s := by
  unfold ArrayType.size ArrayType.isExpandable ArrayType.copy at *
  cases hr : a.rawSize with
  | str s =>
    simp only [hr] at h ⊢
    by_cases hfill : s = fillPlaceholder
    · simp [hfill] at h
    · simp only [hfill, if_false] at h
      by_cases hp : prefixRef p s = fillPlaceholder
      · simp [hp] at h
      · simp [hp] at h
        exact ⟨s, by simp [hfill], h.symm⟩
  | int i => simp [hr] at h
  | bool b => simp [hr] at h
  | none => simp [hr] at h

theorem stable_copy {S : Schema} {Γ Γ' : Env} {site g : StructField} (h : StableOK S Γ g)
    (henv : ∀ r ∈ stableRefs g, ∀ k, Γ r k → Γ' (prefixRef site.name r) k) : StableOK S Γ' (copyFor site g) := by
  refine ⟨?_, ?_, ?_, ?_, ?_⟩
  · intro n hn
    rw [copyFor_fieldType] at hn
    have : g.fieldType = .named n := by
      cases hf : g.fieldType with
      | named m => rw [hf] at hn; simpa [FieldType.copy] using hn
      | int t => rw [hf] at hn; simp [FieldType.copy] at hn
      | array a => rw [hf] at hn; simp [FieldType.copy] at hn
    rw [copyFor_disposition]; exact h.type_ok n this
  · intro a' n hfa he
    rw [copyFor_fieldType] at hfa
    cases hf : g.fieldType with
    | named m => rw [hf] at hfa; simp [FieldType.copy] at hfa
    | int t => rw [hf] at hfa; simp [FieldType.copy] at hfa
    | array a =>
      rw [hf] at hfa; simp only [FieldType.copy, FieldType.array.injEq] at hfa
      subst hfa
      exact h.elem_ok a n hf he
  · intro a' s' hfa hs
    rw [copyFor_fieldType] at hfa
    cases hf : g.fieldType with
    | named m => rw [hf] at hfa; simp [FieldType.copy] at hfa
    | int t => rw [hf] at hfa; simp [FieldType.copy] at hfa
    | array a =>
      rw [hf] at hfa; simp only [FieldType.copy, FieldType.array.injEq] at hfa
      subst hfa
      obtain ⟨s, hsa, rfl⟩ := size_copy hs
      obtain ⟨k, hk⟩ := h.size_ok a s hf hsa
      have hr : s ∈ stableRefs g := by simp [stableRefs, hf, hsa]
      exact ⟨k, henv s hr k hk⟩
  · have hvo := h.value_ok
    unfold ValueOK at hvo ⊢
    rw [copyFor_value, copyFor_disposition, copyFor_fieldType, tkey_copy]
    cases hval : g.value with
    | scalar v =>
      rw [hval] at hvo
      cases v with
      | none => simp [FieldValue.copy]
      | str s =>
        simp only at hvo
        by_cases hd : g.disposition = some "sizeof"
        · simp only [hd, if_true] at hvo
          obtain ⟨s', n, R, hs, hg, hl, himp⟩ := hvo
          cases hs
          have hr : s ∈ stableRefs g := by simp [stableRefs, hval, hd]
          simp only [FieldValue.copy, hd, if_true]
          exact ⟨prefixRef site.name s, n, R, rfl, henv s hr _ hg, hl, himp⟩
        · simp only [hd, if_false] at hvo
          simp only [FieldValue.copy, hd, if_false]
          exact hvo
      | int i => simpa [FieldValue.copy] using hvo
      | bool b => simpa [FieldValue.copy] using hvo
    | cond c =>
      rw [hval] at hvo
      obtain ⟨hd, k, hk, hr⟩ := hvo
      have hmem : c.linkedFieldName ∈ stableRefs g := by simp [stableRefs, hval]
      simp only [FieldValue.copy, Conditional.copy]
      exact ⟨hd, k, henv _ hmem k hk, hr⟩
  · intro a ha
    rw [copyFor_attributes] at ha
    rw [copyFor_fieldType, hasAttr_copy]
    exact h.attrs_ok a ha

/-- the references of a copy are prefixed references of the original -/
theorem stableRefs_copy {site g : StructField} {r' : String} (h : r' ∈ stableRefs (copyFor site g)) :
    ∃ r ∈ stableRefs g, r' = prefixRef site.name r := by
  unfold stableRefs at h
  rw [copyFor_fieldType, copyFor_value, copyFor_disposition] at h
  rcases List.mem_append.mp h with h | h
  · cases hf : g.fieldType with
    | named m => simp [hf, FieldType.copy] at h
    | int t => simp [hf, FieldType.copy] at h
    | array a =>
      simp only [hf, FieldType.copy] at h
      cases hs : (a.copy site.name).size with
      | str s' =>
        simp only [hs, List.mem_singleton] at h
        obtain ⟨s, hsa, hs'⟩ := size_copy hs
        exact ⟨s, by simp [stableRefs, hf, hsa], by rw [h, hs']⟩
      | int i => simp [hs] at h
      | bool b => simp [hs] at h
      | none => simp [hs] at h
  · cases hval : g.value with
    | cond c =>
      simp only [hval, FieldValue.copy, Conditional.copy, List.mem_singleton] at h
      exact ⟨c.linkedFieldName, by simp [stableRefs, hval], h⟩
    | scalar v =>
      cases v with
      | str s =>
        by_cases hd : g.disposition = some "sizeof"
        · simp only [hval, FieldValue.copy, hd, if_true, List.mem_singleton] at h
          exact ⟨s, by simp [stableRefs, hval, hd], h⟩
        · simp [hval, FieldValue.copy, hd] at h
      | int i => simp [hval, FieldValue.copy] at h
      | bool b => simp [hval, FieldValue.copy] at h
      | none => simp [hval, FieldValue.copy] at h

/-! ## list plumbing -/

inductive Forall2 {α β : Type} (R : α → β → Prop) : List α → List β → Prop
  | nil : Forall2 R [] []
  | cons {a : α} {b : β} {as : List α} {bs : List β} : R a b → Forall2 R as bs → Forall2 R (a :: as) (b :: bs)

theorem Forall2.mem_left {α β : Type} {R : α → β → Prop} {l : List α} {l' : List β} (h : Forall2 R l l') {a : α} (ha : a ∈ l) :
    ∃ b ∈ l', R a b := by
  induction h with
  | nil => cases ha
  | cons hab _ ih =>
    rcases List.mem_cons.mp ha with rfl | hin
    · exact ⟨_, List.mem_cons_self, hab⟩
    · obtain ⟨b, hb, hr⟩ := ih hin
      exact ⟨b, List.mem_cons_of_mem _ hb, hr⟩

theorem Forall2.mem_right {α β : Type} {R : α → β → Prop} {l : List α} {l' : List β} (h : Forall2 R l l') {b : β} (hb : b ∈ l') :
    ∃ a ∈ l, R a b := by
  induction h with
  | nil => cases hb
  | cons hab _ ih =>
    rcases List.mem_cons.mp hb with rfl | hin
    · exact ⟨_, List.mem_cons_self, hab⟩
    · obtain ⟨a, ha, hr⟩ := ih hin
      exact ⟨a, List.mem_cons_of_mem _ ha, hr⟩

theorem Forall2.imp {α β : Type} {R R' : α → β → Prop} {l : List α} {l' : List β} (h : Forall2 R l l')
    (hRR : ∀ a b, R a b → R' a b) : Forall2 R' l l' := by
  induction h with
  | nil => exact .nil
  | cons hab _ ih => exact .cons (hRR _ _ hab) ih

theorem mapM_forall2 {α β : Type} {f : α → Except String β} : ∀ (l : List α) (l' : List β), l.mapM f = .ok l' →
    Forall2 (fun a b => f a = .ok b) l l' := by
  intro l
  induction l with
  | nil => intro l' h; simp [List.mapM_nil, pure, Except.pure] at h; subst h; exact .nil
  | cons a rest ih =>
    intro l' h
    rw [List.mapM_cons] at h
    obtain ⟨b, hb, h2⟩ := bind_eq_ok.mp h
    obtain ⟨bs, hbs, h3⟩ := bind_eq_ok.mp h2
    have := pure_eq_ok.mp h3
    subst this
    exact .cons hb (ih _ hbs)

theorem eq_of_nodup_map {α β : Type} (f : α → β) : ∀ (l : List α), (l.map f).Nodup → ∀ a ∈ l, ∀ b ∈ l, f a = f b → a = b := by
  intro l
  induction l with
  | nil => intro _ a ha; cases ha
  | cons x rest ih =>
    intro hnd a ha b hb hab
    simp only [List.map_cons, List.nodup_cons, List.mem_map, not_exists, not_and] at hnd
    rcases List.mem_cons.mp ha with rfl | ha'
    · rcases List.mem_cons.mp hb with rfl | hb'
      · rfl
      · exact absurd hab.symm (hnd.1 b hb')
    · rcases List.mem_cons.mp hb with rfl | hb'
      · exact absurd hab (hnd.1 a ha')
      · exact ih hnd.2 a ha' b hb' hab

theorem mem_structFields_iff {M : Struct} {f : StructField} : f ∈ M.structFields ↔ Member.field f ∈ M.fields := by
  constructor
  · exact mem_structFields
  · intro h
    unfold Struct.structFields
    exact List.mem_filterMap.mpr ⟨.field f, h, rfl⟩

/-! ## the validator's environment and the environment of all members -/

theorem envOf_sub_memberEnv {M : Struct} {r : String} {k : Option String} (h : envOf M r k) : memberEnv M r k := by
  unfold envOf at h
  cases hg : fieldMapGet M r with
  | none => simp [hg] at h
  | some x =>
    simp only [hg, Option.map_some, Option.some.injEq] at h
    unfold fieldMapGet at hg
    have hp := List.find?_some hg
    exact ⟨x, List.mem_reverse.mp (List.mem_of_find?_eq_some hg), by simpa using hp, h⟩

theorem memberEnv_sub_envOf {M : Struct} (hnd : (M.structFields.map (·.name)).Nodup) {r : String} {k : Option String}
    (h : memberEnv M r k) : envOf M r k := by
  obtain ⟨x, hx, hname, hk⟩ := h
  unfold envOf fieldMapGet
  cases hf : M.structFields.reverse.find? (fun y => decide (y.name = r)) with
  | none =>
    rw [List.find?_eq_none] at hf
    exact absurd (by simpa using hname) (hf x (List.mem_reverse.mpr hx))
  | some y =>
    have hy : y ∈ M.structFields := List.mem_reverse.mp (List.mem_of_find?_eq_some hf)
    have hyn : y.name = r := by simpa using List.find?_some hf
    have : y = x := eq_of_nodup_map (·.name) _ hnd y hy x hx (hyn.trans hname.symm)
    subst this
    simp [hk]

/-! ## apply_attributes keeps everything the stable checks look at -/

theorem applyAttribute_shape {ft ft' : FieldType} {a : Attribute} (h : applyAttribute ft a = .ok ft') : FtShape ft ft' := by
  unfold applyAttribute at h
  split at h
  · split at h
    · simp [pure, Except.pure] at h; subst h; simp [FtShape]
    · simp [pure, Except.pure] at h; subst h; simp [FtShape]
    · simp [throw, throwThe, MonadExceptOf.throw] at h
  · simp [pure, Except.pure] at h; subst h; simp [FtShape]
  · split at h
    · simp [pure, Except.pure] at h; subst h; simp [FtShape]
    · simp [throw, throwThe, MonadExceptOf.throw] at h
  · split at h
    · simp [pure, Except.pure] at h; subst h; simp [FtShape]
    · simp [throw, throwThe, MonadExceptOf.throw] at h
  · simp [throw, throwThe, MonadExceptOf.throw] at h

theorem foldlM_applyAttribute_shape : ∀ (as : List Attribute) (ft ft' : FieldType), as.foldlM applyAttribute ft = .ok ft' → FtShape ft ft' := by
  intro as
  induction as with
  | nil => intro ft ft' h; simp [List.foldlM, pure, Except.pure] at h; subst h; exact FtShape.refl _
  | cons a rest ih =>
    intro ft ft' h
    rw [List.foldlM_cons] at h
    obtain ⟨ft1, h1, h2⟩ := bind_eq_ok.mp h
    exact (applyAttribute_shape h1).trans (ih _ _ h2)

/-- a field after `apply_attributes`: same name, value, disposition, attributes; the type keeps its shape -/
structure AttrField (f f' : StructField) : Prop where
  name : f'.name = f.name
  value : f'.value = f.value
  disposition : f'.disposition = f.disposition
  attributes : f'.attributes = f.attributes
  shape : FtShape f.fieldType f'.fieldType

theorem applyFieldAttributes_spec {f f' : StructField} (h : applyFieldAttributes f = .ok f') : AttrField f f' := by
  unfold applyFieldAttributes at h
  obtain ⟨ft, hft, hp⟩ := bind_eq_ok.mp h
  have := pure_eq_ok.mp hp
  subst this
  exact ⟨rfl, rfl, rfl, rfl, foldlM_applyAttribute_shape _ _ _ hft⟩

theorem AttrField.isNamedInline {f f' : StructField} (h : AttrField f f') : f'.isNamedInline = f.isNamedInline := by
  unfold StructField.isNamedInline; rw [h.disposition]

theorem AttrField.stableRefs {f f' : StructField} (h : AttrField f f') : stableRefs f' = stableRefs f :=
  stableRefs_shape h.shape h.value h.disposition

theorem AttrField.tkey {f f' : StructField} (h : AttrField f f') : tkey f'.fieldType = tkey f.fieldType := h.shape.tkey.symm

/-- members before / after `apply_attributes` -/
def AttrMember (m m' : Member) : Prop :=
  match m with
  | .field f => ∃ f', m' = .field f' ∧ AttrField f f'
  | .inlinePlaceholder t c => m' = .inlinePlaceholder t c

theorem applyStructAttributes_spec {M M' : Struct} (h : applyStructAttributes M = .ok M') :
    M'.name = M.name ∧ M'.disposition = M.disposition ∧ M'.attributes = M.attributes ∧ M'.factoryType = M.factoryType ∧
    Forall2 AttrMember M.fields M'.fields := by
  unfold applyStructAttributes at h
  obtain ⟨fs, hfs, hp⟩ := bind_eq_ok.mp h
  have := pure_eq_ok.mp hp
  subst this
  refine ⟨rfl, rfl, rfl, rfl, ?_⟩
  refine (mapM_forall2 _ _ hfs).imp ?_
  intro m m' hm
  cases m with
  | inlinePlaceholder t c => simp [applyMemberAttributes, pure, Except.pure] at hm; subst hm; rfl
  | field f =>
    simp only [applyMemberAttributes] at hm
    obtain ⟨f', hf', rfl⟩ := map_eq_ok.mp hm
    exact ⟨f', rfl, applyFieldAttributes_spec hf'⟩

/-- declarations before / after `apply_attributes` -/
def AttrDecl (d d' : Decl) : Prop :=
  match d with
  | .struct M => ∃ M', d' = .struct M' ∧ applyStructAttributes M = .ok M'
  | _ => d' = d

theorem applyAttributes_pw {S S' : Schema} (h : applyAttributes S = .ok S') : Pw AttrDecl S S' := by
  unfold applyAttributes at h
  have hf2 := mapM_forall2 _ _ h
  have gen : ∀ (l l' : Schema), Forall2 (fun a b => applyDeclAttributes a = .ok b) l l' → Pw AttrDecl l l' := by
    intro l l' hl
    induction hl with
    | nil => exact .nil
    | @cons d d' ds ds' hd _ ih =>
      refine .cons ?_ ih
      cases d with
      | struct M =>
        simp only [applyDeclAttributes] at hd
        obtain ⟨M', hM', rfl⟩ := map_eq_ok.mp hd
        exact ⟨M', rfl, hM'⟩
      | alias a => simp [applyDeclAttributes, pure, Except.pure] at hd; subst hd; rfl
      | enum e => simp [applyDeclAttributes, pure, Except.pure] at hd; subst hd; rfl
  exact gen _ _ hf2

/-! ## schemas along the phases -/

theorem lookup_eq_none_iff {S : Schema} {n : String} : Schema.lookup S n = none ↔ n ∉ Schema.names S := by
  unfold Schema.lookup
  rw [List.find?_eq_none]
  simp only [Schema.names, List.mem_map, List.mem_reverse, decide_eq_true_eq, not_exists, not_and]

/-- a pointwise relation that keeps names and does not worsen declarations gives `SchemaLe` -/
theorem schemaLe_of_pw {R : Decl → Decl → Prop} {S S' : Schema} (hpw : Pw R S S')
    (hR : ∀ a b, R a b → b.name = a.name ∧ DeclLe a b) (hnd : (Schema.names S).Nodup) : SchemaLe S S' := by
  have hnames : Schema.names S' = Schema.names S := hpw.names_eq (fun a b h => (hR a b h).1)
  refine ⟨?_, ?_⟩
  · intro n d hd
    obtain ⟨b, hb, hr⟩ := hpw.mem_left (lookup_mem hd)
    have hbn : b.name = n := ((hR d b hr).1).trans (lookup_name hd)
    refine ⟨b, ?_, (hR d b hr).2⟩
    rw [← hbn]
    exact lookup_of_mem (by rw [hnames]; exact hnd) hb
  · intro n hn
    rw [lookup_eq_none_iff] at hn ⊢
    rw [hnames]; exact hn

theorem attrDecl_le {d d' : Decl} (h : AttrDecl d d') : d'.name = d.name ∧ DeclLe d d' := by
  cases d with
  | struct M =>
    obtain ⟨M', rfl, hM'⟩ := h
    obtain ⟨hn, hd, ha, _, _⟩ := applyStructAttributes_spec hM'
    exact ⟨hn, .struct M M' hd (by intro hi; simpa [Struct.isSizeImplicit, ha] using hi)⟩
  | alias a => simp [AttrDecl] at h; subst h; exact ⟨rfl, DeclLe.refl _⟩
  | enum e => simp [AttrDecl] at h; subst h; exact ⟨rfl, DeclLe.refl _⟩

theorem namedRel_le {F : Schema} {d d' : Decl} (h : FinalRel expandNamedStruct F d d') : d'.name = d.name ∧ DeclLe d d' := by
  cases d with
  | struct M =>
    obtain ⟨M', rfl, hs⟩ := h
    unfold expandNamedStruct at hs
    obtain ⟨fs, _, hp⟩ := bind_eq_ok.mp hs
    have := pure_eq_ok.mp hp
    subst this
    exact ⟨rfl, .struct _ _ rfl id⟩
  | alias a => simp [FinalRel] at h; subst h; exact ⟨rfl, DeclLe.refl _⟩
  | enum e => simp [FinalRel] at h; subst h; exact ⟨rfl, DeclLe.refl _⟩

/-- attributes are only ever appended: a value found before is still the value found -/
theorem lookupAttributeValue_append {attrs attrs' : Option (List Attribute)} {extra : List Attribute}
    (h : attrList attrs' = attrList attrs ++ extra) (name : String) (ht : (lookupAttributeValue attrs name).truthy = true) :
    lookupAttributeValue attrs' name = lookupAttributeValue attrs name := by
  unfold lookupAttributeValue findAttribute at *
  rw [h, List.find?_append]
  cases hf : (attrList attrs).find? (fun x => decide (x.name = name)) with
  | some a => simp
  | none => simp [hf, Scalar.truthy] at ht

theorem unnamedRel_le {F : Schema} {d d' : Decl} (h : FinalRel unnamedFinalStep F d d') : d'.name = d.name ∧ DeclLe d d' := by
  cases d with
  | struct M =>
    obtain ⟨M', rfl, hs⟩ := h
    have hsp := (unnamedFinalStep_ok.mp hs).1
    have hname := spliceOnce_name hsp
    unfold spliceOnce at hsp
    obtain ⟨fs, _, hp⟩ := bind_eq_ok.mp hsp
    have := pure_eq_ok.mp hp
    subst this
    refine ⟨rfl, .struct _ _ rfl ?_⟩
    intro hi
    unfold Struct.isSizeImplicit at hi ⊢
    simp only
    rw [lookupAttributeValue_append (attrList_spliceAttrs F M.fields M.attributes) _ hi]
    exact hi
  | alias a => simp [FinalRel] at h; subst h; exact ⟨rfl, DeclLe.refl _⟩
  | enum e => simp [FinalRel] at h; subst h; exact ⟨rfl, DeclLe.refl _⟩

/-! ## declared-before-use in terms of positions -/

theorem dbuFrom_ref_earlier {refs : List Member → List String} : ∀ (S : Schema) (seen : List String), dbuFrom refs seen S = true →
    ∀ (i : Nat) (M : Struct), S[i]? = some (.struct M) → ∀ t ∈ refs M.fields,
      t ∈ seen ∨ ∃ j, j < i ∧ ∃ d, S[j]? = some d ∧ d.name = t := by
  intro S
  induction S with
  | nil => intro _ _ i M h; simp at h
  | cons d rest ih =>
    intro seen hd i M hi t ht
    simp only [dbuFrom, Bool.and_eq_true] at hd
    cases i with
    | zero =>
      simp at hi; subst hi
      have := hd.1
      simp only [List.all_eq_true, decide_eq_true_eq] at this
      exact Or.inl (this t ht)
    | succ k =>
      simp at hi
      rcases ih _ hd.2 k M hi t ht with h | ⟨j, hj, d', hd', hn⟩
      · rcases List.mem_append.mp h with h | h
        · exact Or.inl h
        · simp at h
          exact Or.inr ⟨0, by omega, d, by simp, h.symm⟩
      · exact Or.inr ⟨j + 1, by omega, d', by simpa using hd', hn⟩

theorem mem_inlineRefs_of_placeholder {ms : List Member} {t : String} {c : Option Comment} (h : Member.inlinePlaceholder t c ∈ ms) :
    t ∈ inlineRefs ms := by
  unfold inlineRefs
  exact List.mem_flatMap.mpr ⟨_, h, by simp [Member.unnamedRef?]⟩

theorem mem_inlineRefs_of_named {ms : List Member} {f : StructField} {t : String} (h : Member.field f ∈ ms)
    (hin : f.isNamedInline = true) (hft : f.fieldType = .named t) : t ∈ inlineRefs ms := by
  unfold inlineRefs
  exact List.mem_flatMap.mpr ⟨_, h, by simp [Member.namedRef?, hin, hft]⟩

/-! ## what a substituted layout consists of -/

theorem substLayout_mem {F : Schema} {ms outs : List Member} (h : SubstLayout F ms outs) :
    ∀ x ∈ outs, ∃ m ∈ ms, ∃ out, SubstMember F m out ∧ x ∈ out ∧ ∀ y ∈ out, y ∈ outs := by
  induction h with
  | nil => intro x hx; cases hx
  | @cons m out ms outs hm _ ih =>
    intro x hx
    rcases List.mem_append.mp hx with h | h
    · exact ⟨m, List.mem_cons_self, out, hm, h, fun y hy => List.mem_append_left _ hy⟩
    · obtain ⟨m', hm', out', hs, hxo, hsub⟩ := ih x h
      exact ⟨m', List.mem_cons_of_mem _ hm', out', hs, hxo, fun y hy => List.mem_append_right _ (hsub y hy)⟩

theorem substLayout_plain_persists {F : Schema} {ms outs : List Member} (h : SubstLayout F ms outs) {f : StructField}
    (hf : Member.field f ∈ ms) (hplain : f.isNamedInline = false) : Member.field f ∈ outs := by
  induction h with
  | nil => cases hf
  | @cons m out ms outs hm _ ih =>
    rcases List.mem_cons.mp hf with rfl | hr
    · cases hm with
      | plain _ _ => exact List.mem_append_left _ (List.mem_singleton_self _)
      | named _ _ _ hin => rw [hplain] at hin; cases hin
    · exact List.mem_append_right _ (ih hr)

/-! ## prefixes -/

/-- a proper site name: it starts with something other than an underscore (every `PROPERTY_NAME` does) -/
def properPrefix (p : String) : Bool :=
  match p.toList with
  | c :: _ => c != '_'
  | [] => false

theorem prefixRef_ne_value {p : String} (hp : properPrefix p = true) (s : String) : prefixRef p s ≠ valuePlaceholder := by
  unfold properPrefix at hp
  cases hl : p.toList with
  | nil => simp [hl] at hp
  | cons c cs =>
    simp [hl] at hp
    intro h
    have := congrArg String.toList h
    simp [prefixRef, valuePlaceholder, hl] at this
    exact hp this.1

theorem prefixName_eq_ref {p n : String} (h : n ≠ valuePlaceholder) : prefixName p n = prefixRef p n := by
  simp [prefixName, prefixRef, h]

/-! ## the induction over the declaration order -/

theorem Pw.get_right {R} {S F : Schema} (h : Pw R S F) : ∀ (i : Nat) (d' : Decl), F[i]? = some d' → ∃ d, S[i]? = some d ∧ R d d' := by
  induction h with
  | nil => intro i d hd; simp at hd
  | cons hab _ ih =>
    intro i d hd
    cases i with
    | zero => simp at hd; subst hd; exact ⟨_, by simp, hab⟩
    | succ j => simp at hd; simpa using ih j d hd

theorem fieldMapGet_name {M : Struct} {r : String} {h : StructField} (hg : fieldMapGet M r = some h) : h.name = r := by
  unfold fieldMapGet at hg
  simpa using List.find?_some hg

theorem mem_of_getElem? {α : Type} {l : List α} {i : Nat} {a : α} (h : l[i]? = some a) : a ∈ l := by
  obtain ⟨hi, rfl⟩ := List.getElem?_eq_some_iff.mp h
  exact List.getElem_mem hi

/-- all members satisfy the stable clauses against the environment of all members, and no reference is the `__value__` keyword -/
def CleanS (F : Schema) (M : Struct) : Prop :=
  ∀ f ∈ M.structFields, StableOK F (memberEnv M) f ∧ ∀ r ∈ stableRefs f, r ≠ valuePlaceholder

/-- what the source has to provide for every member of every struct: a proper site name for a named inline; for any other member
    the stable clauses (that is what a clean PRE_EXPANSION stage establishes) and references that are neither `__value__` nor the
    name of a named inline site -/
def SourceOK (S0 : Schema) : Prop :=
  ∀ M0, Decl.struct M0 ∈ S0 → ∀ f0, Member.field f0 ∈ M0.fields →
    (f0.isNamedInline = true → properPrefix f0.name = true) ∧
    (f0.isNamedInline = false → StableOK S0 (envOf M0) f0 ∧
      ∀ r ∈ stableRefs f0, r ≠ valuePlaceholder ∧ ∀ h, fieldMapGet M0 r = some h → h.isNamedInline = false)

theorem attrMember_field_right {m : Member} {f : StructField} (h : AttrMember m (.field f)) : ∃ f0, m = .field f0 ∧ AttrField f0 f := by
  cases m with
  | field f0 => obtain ⟨f', hf', ha⟩ := h; cases hf'; exact ⟨f0, rfl, ha⟩
  | inlinePlaceholder t c => simp [AttrMember] at h

theorem attrMember_field_left {m' : Member} {f0 : StructField} (h : AttrMember (.field f0) m') : ∃ f, m' = .field f ∧ AttrField f0 f := h

/-- a struct of the final schema originates from a struct -/
theorem final_struct_origin {s1 s2 : Schema → Struct → Except String Struct} {X Y S1 S2 F : Schema}
    (h1 : Pw (FinalRel s1 X) S1 S2) (h2 : Pw (FinalRel s2 Y) S2 F) {j : Nat} {d : Decl} {R : Struct}
    (hd : S1[j]? = some d) (hF : F[j]? = some (.struct R)) : ∃ R1, d = .struct R1 := by
  obtain ⟨d2, hd2, hr1⟩ := h1.get j d hd
  obtain ⟨d3, hd3, hr2⟩ := h2.get j d2 hd2
  rw [hF] at hd3
  cases hd3
  cases d with
  | struct R1 => exact ⟨R1, rfl⟩
  | alias a => simp [FinalRel] at hr1; subst hr1; simp [FinalRel] at hr2
  | enum e => simp [FinalRel] at hr1; subst hr1; simp [FinalRel] at hr2

theorem clean_after_expansion {S0 S1 S2 F : Schema} (hA : Pw AttrDecl S0 S1) (hdbu : DeclaredBeforeUse S1)
    (hN : expandNamed S1 = .ok S2) (hU : expandUnnamed S2 = .ok F) (hle : SchemaLe S0 F) (hsrc : SourceOK S0) :
    ∀ (i : Nat) (M1 : Struct), S1[i]? = some (.struct M1) → ∀ M', F[i]? = some (.struct M') → CleanS F M' := by
  have hsub := (expand_layout_eq_subst hdbu hN hU).2
  have hpwN := expandNamed_final hdbu hN
  have hord := named_phase_keeps_order hdbu hN
  have hpwU := expandUnnamed_final hord hU
  have hnamesN : Schema.names S2 = Schema.names S1 :=
    hpwN.names_eq (fun a b h => FinalRel.name_eq (fun _ _ _ h => expandNamedStruct_name h) h)
  have hnamesU : Schema.names F = Schema.names S2 :=
    hpwU.names_eq (fun a b h => FinalRel.name_eq (fun S M M' h => spliceOnce_name (unnamedFinalStep_ok.mp h).1) h)
  have hndF : (Schema.names F).Nodup := by rw [hnamesU, hnamesN]; exact hdbu.1
  -- the struct an inline reference of struct `i` resolves to sits at an earlier position
  have hearlier : ∀ (i : Nat) (M1 : Struct), S1[i]? = some (.struct M1) → ∀ t ∈ inlineRefs M1.fields, ∀ R,
      Schema.lookup F t = some (.struct R) → ∃ j, j < i ∧ ∃ R1, S1[j]? = some (.struct R1) ∧ F[j]? = some (.struct R) := by
    intro i M1 hi t ht R hl
    rcases dbuFrom_ref_earlier S1 [] hdbu.2 i M1 hi t ht with h | ⟨j, hj, d, hd, hn⟩
    · cases h
    · obtain ⟨d2, hd2, hr1⟩ := hpwN.get j d hd
      obtain ⟨d3, hd3, hr2⟩ := hpwU.get j d2 hd2
      have hn3 : d3.name = t := by
        rw [FinalRel.name_eq (fun S M M' h => spliceOnce_name (unnamedFinalStep_ok.mp h).1) hr2,
          FinalRel.name_eq (fun _ _ _ h => expandNamedStruct_name h) hr1, hn]
      have hl3 := lookup_of_mem hndF (mem_of_getElem? hd3)
      rw [hn3, hl] at hl3
      cases hl3
      obtain ⟨R1, rfl⟩ := final_struct_origin hpwN hpwU hd hd3
      exact ⟨j, hj, R1, hd, hd3⟩
  intro i
  induction i using Nat.strongRecOn with
  | ind i ih =>
    intro M1 hi M' hF
    obtain ⟨M'', hF'', _, _, hlayout, _⟩ := hsub i M1 hi
    rw [hF] at hF''; cases hF''
    -- the raw struct
    obtain ⟨d0, hd0, hattr⟩ := hA.get_right i _ hi
    have hM0 : ∃ M0, d0 = .struct M0 ∧ applyStructAttributes M0 = .ok M1 := by
      cases d0 with
      | struct M0 => obtain ⟨M1', h1, h2⟩ := hattr; cases h1; exact ⟨M0, rfl, h2⟩
      | alias a => simp [AttrDecl] at hattr
      | enum e => simp [AttrDecl] at hattr
    obtain ⟨M0, rfl, hM01⟩ := hM0
    have hM0mem : Decl.struct M0 ∈ S0 := mem_of_getElem? hd0
    obtain ⟨_, _, _, _, hfields⟩ := applyStructAttributes_spec hM01
    intro f' hf'
    obtain ⟨m, hm, out, hsm, hxo, hsubset⟩ := substLayout_mem hlayout _ (mem_structFields hf')
    cases hsm with
    | plain f hplain =>
      simp only [List.mem_singleton, Member.field.injEq] at hxo
      subst hxo
      obtain ⟨m0, hm0, ham⟩ := hfields.mem_right hm
      obtain ⟨f0, rfl, haf⟩ := attrMember_field_right ham
      have hplain0 : f0.isNamedInline = false := by rw [← haf.isNamedInline]; exact hplain
      obtain ⟨hst, hrefs⟩ := (hsrc M0 hM0mem f0 hm0).2 hplain0
      refine ⟨?_, ?_⟩
      · apply stable_env_le ?_ (stable_schema_le hle (stable_shape haf.shape haf.value haf.disposition haf.attributes hst))
        intro r hr k henv
        rw [haf.stableRefs] at hr
        unfold envOf at henv
        cases hg : fieldMapGet M0 r with
        | none => simp [hg] at henv
        | some h0 =>
          simp only [hg, Option.map_some, Option.some.injEq] at henv
          have hh0 : h0.isNamedInline = false := (hrefs r hr).2 h0 hg
          obtain ⟨m1, hm1, ham1⟩ := hfields.mem_left (fieldMapGet_mem hg)
          obtain ⟨h1, rfl, hah⟩ := attrMember_field_left ham1
          have hh1 : h1.isNamedInline = false := by rw [hah.isNamedInline]; exact hh0
          have hpers := substLayout_plain_persists hlayout hm1 hh1
          exact ⟨h1, mem_structFields_iff.mpr hpers, by rw [hah.name]; exact fieldMapGet_name hg, by rw [hah.tkey]; exact henv⟩
      · intro r hr
        rw [haf.stableRefs] at hr
        exact (hrefs r hr).1
    | unnamed t c R hl =>
      obtain ⟨j, hj, R1, hS1j, hFj⟩ := hearlier i M1 hi t (mem_inlineRefs_of_placeholder hm) R hl
      have hclean := ih j hj R1 hS1j R hFj
      obtain ⟨hst, hrf⟩ := hclean f' (mem_structFields_iff.mpr hxo)
      refine ⟨stable_env_le ?_ hst, hrf⟩
      intro r _ k henv
      obtain ⟨h, hh, hname, hk⟩ := henv
      exact ⟨h, mem_structFields_iff.mpr (hsubset _ (mem_structFields hh)), hname, hk⟩
    | named f t T hin hft hl hinl =>
      obtain ⟨g, hg, hfg⟩ := List.mem_map.mp hxo
      simp only [Member.field.injEq] at hfg
      subst hfg
      obtain ⟨j, hj, T1, hS1j, hFj⟩ := hearlier i M1 hi t (mem_inlineRefs_of_named hm hin hft) T hl
      have hclean := ih j hj T1 hS1j T hFj
      obtain ⟨hst, hrf⟩ := hclean g hg
      -- the site is a raw member with a proper name
      obtain ⟨m0, hm0, ham⟩ := hfields.mem_right hm
      obtain ⟨f0, rfl, haf⟩ := attrMember_field_right ham
      have hproper : properPrefix f.name = true := by
        rw [haf.name]
        exact (hsrc M0 hM0mem f0 hm0).1 (by rw [← haf.isNamedInline]; exact hin)
      refine ⟨stable_copy hst ?_, ?_⟩
      · intro r hr k henv
        obtain ⟨h, hh, hname, hk⟩ := henv
        have hmem : Member.field (copyFor f h) ∈ T.structFields.map (fun g => Member.field (copyFor f g)) :=
          List.mem_map.mpr ⟨h, hh, rfl⟩
        refine ⟨copyFor f h, mem_structFields_iff.mpr (hsubset _ hmem), ?_, ?_⟩
        · rw [copyFor_name, hname, prefixName_eq_ref (hrf r hr)]
        · rw [copyFor_fieldType, tkey_copy]; exact hk
      · intro r' hr'
        obtain ⟨r, _, rfl⟩ := stableRefs_copy hr'
        exact prefixRef_ne_value hproper r

/-! ## assembling: from a clean PRE stage to the kinds of POST errors -/

/-- the error kinds that read a reference introduced by an attribute: `@sizeref`, `@sort_key` on members (set by
    `apply_attributes`, invisible before) and the struct attributes checked after expansion only -/
def attributeKinds : List MsgKind :=
  [.unknownSizerefProperty, .unknownSortKey, .sizeUnexpectedType, .unknownAttributeProperty, .unknownComparerProperty,
   .unknownComparerTransform, .unknownInitializerProperty, .initializerDifferentType]

def Kinded (ks : List MsgKind) (l : List ErrorDescriptor) : Prop := ∀ e ∈ l, e.kind ∈ ks

theorem Kinded.nil {ks} : Kinded ks [] := fun _ h => by cases h
theorem Kinded.single {ks tn fns k m} (hk : k ∈ ks) : Kinded ks [mkErr tn fns k m] := by
  intro e he; simp [mkErr] at he; subst he; exact hk
theorem Kinded.append {ks a b} (ha : Kinded ks a) (hb : Kinded ks b) : Kinded ks (a ++ b) := by
  intro e he; rcases List.mem_append.mp he with h | h
  · exact ha e h
  · exact hb e h
theorem Kinded.flatMap {α : Type} {ks} {l : List α} {f : α → List ErrorDescriptor} (h : ∀ a ∈ l, Kinded ks (f a)) :
    Kinded ks (l.flatMap f) := by
  intro e he; obtain ⟨a, ha, hea⟩ := List.mem_flatMap.mp he; exact h a ha e hea

macro "kinded_leaf" : tactic =>
  `(tactic| first | exact Kinded.nil | exact Kinded.single (by decide)
                  | (apply Kinded.append <;> first | exact Kinded.nil | exact Kinded.single (by decide)))

theorem integerErrors_kinded {M : Struct} {f : StructField} : Kinded attributeKinds (integerErrors M f) := by
  unfold integerErrors
  ((try dsimp only); repeat' split) <;> kinded_leaf

theorem arraySortErrors_kinded {S : Schema} {tn fn : String} {a : ArrayType} : Kinded attributeKinds (arraySortErrors S tn fn a) := by
  unfold arraySortErrors
  split <;> kinded_leaf

theorem knownFieldErrors_kinded {M : Struct} {p : String} {vs : List Scalar} : Kinded attributeKinds (knownFieldErrors M p vs) := by
  unfold knownFieldErrors
  apply Kinded.flatMap; intro a _; split <;> kinded_leaf

theorem structAttributeErrors_kinded {M : Struct} : Kinded attributeKinds (structAttributeErrors M) := by
  unfold structAttributeErrors
  refine Kinded.append (Kinded.append (Kinded.append ?_ ?_) ?_) ?_
  · unfold sizeAttributeErrors
    ((try dsimp only); repeat' split) <;> (first | exact knownFieldErrors_kinded | kinded_leaf)
  · exact knownFieldErrors_kinded
  · unfold comparerErrors
    apply Kinded.flatMap; intro a _
    ((try dsimp only); repeat' split) <;> kinded_leaf
  · unfold initializerErrors
    apply Kinded.flatMap; intro a _
    ((try dsimp only); repeat' split) <;> kinded_leaf

theorem mem_fieldErrors_split {S : Schema} {M : Struct} {f : StructField} {e : ErrorDescriptor} (he : e ∈ fieldErrors S M f) :
    e ∈ stableFieldErrors S M f ∨ e ∈ integerErrors M f ∨ ∃ a, f.fieldType = .array a ∧ e ∈ arraySortErrors S M.name f.name a := by
  unfold fieldErrors at he
  unfold stableFieldErrors
  simp only [List.mem_append] at he ⊢
  rcases he with (((h | h) | h) | h) | h
  · exact Or.inl (Or.inl (Or.inl (Or.inl h)))
  · exact Or.inr (Or.inl h)
  · unfold arrayErrors at h
    cases hft : f.fieldType with
    | array a =>
      simp only [hft, List.mem_append] at h
      rcases h with (h | h) | h
      · exact Or.inl (Or.inl (Or.inl (Or.inr (List.mem_append_left _ h))))
      · exact Or.inr (Or.inr ⟨a, rfl, h⟩)
      · exact Or.inl (Or.inl (Or.inl (Or.inr (List.mem_append_right _ h))))
    | named n => simp [hft] at h
    | int t => simp [hft] at h
  · exact Or.inl (Or.inl (Or.inr h))
  · exact Or.inl (Or.inr h)

theorem filterMap_name_eq (M : Struct) : M.fields.filterMap Member.name? = M.structFields.map (·.name) := by
  unfold Struct.structFields
  induction M.fields with
  | nil => rfl
  | cons m rest ih =>
    cases m with
    | field f => simp [List.filterMap_cons, Member.name?, ih]
    | inlinePlaceholder t c => simp [List.filterMap_cons, Member.name?, ih]

theorem duplicateNames_ne_nil_of_not_nodup {l : List String} (h : ¬ l.Nodup) : duplicateNames l ≠ [] := by
  rw [List.nodup_iff_count] at h
  have : ∃ a, ¬ l.count a ≤ 1 := Classical.not_forall.mp h
  obtain ⟨a, ha⟩ := this
  have hmem := mem_duplicateNames (l := l) (n := a) (by omega)
  intro hnil
  rw [hnil] at hmem
  cases hmem

/-- the decidable side conditions on the source: named inline sites have proper names; no stable reference is `__value__`
    or the name of a named inline site -/
def refsWellFormedStruct (M : Struct) : Bool :=
  M.structFields.all fun f =>
    (if f.isNamedInline then properPrefix f.name else true) &&
    (stableRefs f).all fun r =>
      r != valuePlaceholder && (match fieldMapGet M r with | some h => !h.isNamedInline | none => true)

def refsWellFormed (S : Schema) : Bool :=
  S.all fun d => match d with | .struct M => refsWellFormedStruct M | _ => true

theorem sourceOK_of_pre {S0 : Schema} (hwf : refsWellFormed S0 = true) (hpre : validate .pre S0 = []) : SourceOK S0 := by
  intro M0 hM0 f0 hf0
  have hwfM : refsWellFormedStruct M0 = true := by
    unfold refsWellFormed at hwf
    rw [List.all_eq_true] at hwf
    exact hwf _ hM0
  unfold refsWellFormedStruct at hwfM
  rw [List.all_eq_true] at hwfM
  have hf := hwfM f0 (mem_structFields_iff.mpr hf0)
  simp only [Bool.and_eq_true, List.all_eq_true, bne_iff_ne, ne_eq] at hf
  refine ⟨?_, ?_⟩
  · intro hin; simpa [hin] using hf.1
  · intro _
    have herr : fieldErrors S0 M0 f0 = [] := by
      unfold validate at hpre
      rw [List.flatMap_eq_nil_iff] at hpre
      have := hpre _ hM0
      simp only [declErrors, structErrors, List.append_eq_nil_iff, List.flatMap_eq_nil_iff] at this
      exact this.1.2 _ hf0
    refine ⟨stable_of_fieldErrors_nil herr, ?_⟩
    intro r hr
    have := hf.2 r hr
    refine ⟨this.1, ?_⟩
    intro h hg
    have h2 := this.2
    rw [hg] at h2
    simpa using h2

theorem attrField_namedRef {f f' : StructField} (h : AttrField f f') : (Member.field f').namedRef? = (Member.field f).namedRef? := by
  simp only [Member.namedRef?]
  rw [h.isNamedInline]
  have hs := h.shape
  cases hf : f.fieldType <;> cases hf' : f'.fieldType <;> rw [hf, hf'] at hs <;> simp_all [FtShape]

theorem inlineRefs_attr {ms ms' : List Member} (h : Forall2 AttrMember ms ms') : inlineRefs ms' = inlineRefs ms := by
  unfold inlineRefs
  induction h with
  | nil => rfl
  | @cons m m' _ _ hm _ ih =>
    simp only [List.flatMap_cons, ih]
    congr 1
    cases m with
    | field f => obtain ⟨f', rfl, haf⟩ := hm; rw [attrField_namedRef haf]; rfl
    | inlinePlaceholder t c => simp [AttrMember] at hm; subst hm; rfl

theorem dbu_after_attributes {S0 S1 : Schema} (h0 : DeclaredBeforeUse S0) (hA : Pw AttrDecl S0 S1) : DeclaredBeforeUse S1 := by
  have hnames : Schema.names S1 = Schema.names S0 := hA.names_eq (fun a b h => (attrDecl_le h).1)
  refine ⟨by rw [hnames]; exact h0.1, ?_⟩
  refine dbuFrom_transfer (R := AttrDecl) ?_ hA [] h0.2
  intro a b hab
  refine ⟨(attrDecl_le hab).1, ?_⟩
  intro M' hb
  cases a with
  | struct M =>
    obtain ⟨M'', hb', hs⟩ := hab
    rw [hb] at hb'; cases hb'
    exact ⟨M, rfl, inlineRefs_attr (applyStructAttributes_spec hs).2.2.2.2⟩
  | alias x => simp [AttrDecl] at hab; rw [hab] at hb; cases hb
  | enum x => simp [AttrDecl] at hab; rw [hab] at hb; cases hb

theorem postProcess_phases {S E : Schema} (h : postProcess S = .ok E) :
    ∃ S1 S2, applyAttributes S = .ok S1 ∧ expandNamed S1 = .ok S2 ∧ expandUnnamed S2 = .ok E := by
  unfold postProcess at h
  obtain ⟨S1, h1, h'⟩ := bind_eq_ok.mp h
  obtain ⟨S2, h2, h3⟩ := bind_eq_ok.mp h'
  exact ⟨S1, S2, h1, h2, h3⟩

/-- every struct of the expanded schema: no unnamed inline left, all members satisfy the stable clauses against the environment
    of all members; enumerations and aliases are untouched -/
theorem post_clean_decls {S E : Schema} (hdbu : DeclaredBeforeUse S) (hwf : refsWellFormed S = true)
    (hpre : validate .pre S = []) (hE : postProcess S = .ok E) :
    (∀ M', Decl.struct M' ∈ E → CleanS E M' ∧ noPlaceholders M'.fields = true) ∧
    (∀ e, Decl.enum e ∈ E → Decl.enum e ∈ S) := by
  obtain ⟨S1, S2, h1, hN, hU⟩ := postProcess_phases hE
  have hA := applyAttributes_pw h1
  have hdbu1 := dbu_after_attributes hdbu hA
  have hpwN := expandNamed_final hdbu1 hN
  have hord := named_phase_keeps_order hdbu1 hN
  have hpwU := expandUnnamed_final hord hU
  have hle : SchemaLe S E :=
    (schemaLe_of_pw hA (fun a b h => attrDecl_le h) hdbu.1).trans
      ((schemaLe_of_pw hpwN (fun a b h => namedRel_le h) hdbu1.1).trans (schemaLe_of_pw hpwU (fun a b h => unnamedRel_le h) hord.1))
  have hclean := clean_after_expansion hA hdbu1 hN hU hle (sourceOK_of_pre hwf hpre)
  have hsub := (expand_layout_eq_subst hdbu1 hN hU).2
  refine ⟨?_, ?_⟩
  · intro M' hM'
    obtain ⟨i, hi⟩ := List.mem_iff_getElem?.mp hM'
    obtain ⟨d2, hd2, hr2⟩ := hpwU.get_right i _ hi
    obtain ⟨d1, hd1, hr1⟩ := hpwN.get_right i _ hd2
    obtain ⟨M1, rfl⟩ := final_struct_origin hpwN hpwU hd1 hi
    refine ⟨hclean i M1 hd1 M' hi, ?_⟩
    obtain ⟨M'', hF'', _, _, _, hno⟩ := hsub i M1 hd1
    rw [hi] at hF''; cases hF''
    exact hno
  · intro e he
    obtain ⟨d2, hd2, hr2⟩ := hpwU.mem_right he
    cases d2 with
    | struct M => obtain ⟨M', h, _⟩ := hr2; cases h
    | alias a => simp [FinalRel] at hr2
    | enum e2 =>
      simp [FinalRel] at hr2; subst hr2
      obtain ⟨d1, hd1, hr1⟩ := hpwN.mem_right hd2
      cases d1 with
      | struct M => obtain ⟨M', h, _⟩ := hr1; cases h
      | alias a => simp [FinalRel] at hr1
      | enum e1 =>
        simp [FinalRel] at hr1; subst hr1
        obtain ⟨d0, hd0, hr0⟩ := hA.mem_right hd1
        cases d0 with
        | struct M => obtain ⟨M', h, _⟩ := hr0; cases h
        | alias a => simp [AttrDecl] at hr0
        | enum e0 => simp [AttrDecl] at hr0; subst hr0; exact hd0

end SymbolVerif.Cats

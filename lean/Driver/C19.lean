import Driver.Util
import SymbolVerif.Model.Lint.Regex
import SymbolVerif.Model.Lint.LineRules
import SymbolVerif.Model.Lint.Validators
import SymbolVerif.Model.Lint.Namespace
import SymbolVerif.Model.Lint.Deps
import SymbolVerif.Model.Hash.Sha1
import SymbolVerif.Generated.LintTables
namespace Driver.C19
open SymbolVerif SymbolVerif.Lint SymbolVerif.Lint.Regex SymbolVerif.Lint.Rules Driver

def allRegexes : Array RE :=
  ((SymbolVerif.Generated.Lint.typoTable ++ SymbolVerif.Generated.Lint.validatorTable).map (·.1)).toArray

def typoRegexes : List RE := SymbolVerif.Generated.Lint.typoTable.map (·.1)

def charsArg (s : String) : Option (List Char) := (strArg s).map String.toList

def bits (l : List Bool) : String := String.ofList (l.map fun b => if b then '1' else '0')

def copyrightOk (header : List Char) : Bool :=
  Bytes.toHex (Hash.sha1 (String.ofList header).toUTF8.toList) == SymbolVerif.Generated.Lint.copyrightSha1Hex

/-- the closed rules of the working tree's deps.config -/
def closedRules : List (List Char × List (List Char)) :=
  ((Deps.processDefines SymbolVerif.Generated.Lint.depsDefines SymbolVerif.Generated.Lint.depsLines).bind
    Deps.processRules).getD []

def ruleOut : Rule → String
  | .wsLineEnding => "wsLineEnding" | .wsSpacesStart => "wsSpacesStart" | .wsTabsEmpty => "wsTabsEmpty"
  | .wsSpaceOperator => "wsSpaceOperator" | .wsTabInside => "wsTabInside" | .wsCarriageReturns => "wsCarriageReturns"
  | .tooLong => "tooLong" | .consecutiveEmpty => "consecutiveEmpty" | .emptyNearEnd => "emptyNearEnd"
  | .missingLicense => "missingLicense" | .missingPragmaOnce => "missingPragmaOnce"
  | .emptyAfterPragmaOnce => "emptyAfterPragmaOnce" | .copyright => "copyright"
  | .regionInvalid => "regionInvalid" | .regionNested => "regionNested" | .regionOrphanEnd => "regionOrphanEnd"
  | .regionUnclosed => "regionUnclosed" | .typo i => s!"typo{i}"
  | .singleLine => "singleLine" | .multiCondition i => s!"mcc{i}"

def reportsOut (rs : List Report) : String :=
  if rs.isEmpty then "-" else ",".intercalate (rs.map fun r => s!"{ruleOut r.rule}:{r.lineno}")

/-- lines of a file as `HeaderParser.parse_file` sees them -/
def splitLines : List Char → List (List Char)
  | [] => []
  | c :: cs =>
    if c = '\n' then [] :: splitLines cs
    else match splitLines cs with
      | [] => [[c]]
      | l :: ls => (c :: l) :: ls

def handle : Handler
  -- searchall <line>: one character per table regex (`re.search`)
  | "searchall", [line] => do
    let l ← charsArg line
    pure (bits (allRegexes.toList.map fun r => search r l))
  | "matchall", [line] => do
    let l ← charsArg line
    pure (bits (allRegexes.toList.map fun r => matchStart r l))
  | "search", [id, line] => do
    let i ← natArg id; let l ← charsArg line
    let r ← allRegexes[i]?
    pure (toString (search r l))
  | "full", [id, w] => do
    let i ← natArg id; let w ← charsArg w
    let r ← allRegexes[i]?
    pure (toString (fullMatch r w))
  | "count", [] => pure (toString allRegexes.size)
  -- lint <path> <content>: the modelled reports of a file
  | "lint", [path, content] => do
    let p ← charsArg path
    let c ← charsArg content
    let cfg : Config := ⟨endsWithS p ".h", SymbolVerif.Generated.Lint.lineLengthLimit, copyrightOk, typoRegexes⟩
    pure (reportsOut (lintAll cfg SymbolVerif.Generated.Lint.mccPatterns p (splitLines c)))
  -- strip <line>: strip_comments_and_strings
  | "strip", [line] => do
    let l ← charsArg line
    pure (strOut (String.ofList (Strip.strip l)))
  -- captures <pattern> <search|match> <line>: the groups of the four patterns MultiConditionChecker reads groups of
  | "captures", [name, mode, line] => do
    let l ← charsArg line
    let P := SymbolVerif.Generated.Lint.mccPatterns
    let r ← (match name with
      | "validation_result" => some P.validation_result
      | "missing_explicit_ctor" => some P.missing_explicit_ctor
      | "coerce" => some P.coerce
      | "struct_assignment" => some P.struct_assignment
      | _ => none)
    let found := if mode = "match" then Capture.matchStart r l else Capture.search r l
    pure (match found with
      | none => "none"
      | some caps => "ok " ++ ";".intercalate ((List.range 6).filterMap fun i =>
          (Capture.group caps i).map fun g => s!"{i}={strOut (String.ofList g)}"))
  -- allowedrow <source directory> <dest,dest,...>: one character per destination (`DepsChecker.match`)
  | "allowedrow", [src, dests] => do
    let s ← charsArg src
    let ds ← listArg charsArg dests
    -- rules whose source matches the source directory, once per row
    let mine := closedRules.filter fun (p, _) => fullMatch (Deps.compileName p) s
    pure (bits (ds.map fun d => Deps.allowed Deps.compileName mine s d))
  -- nscheck <default|plugin|extension|tools> <unified namespace> <path>: `ruleset.namespace_check`
  | "nscheck", [rules, ns, path] => do
    let r ← (match rules with
      | "default" => some RuleSet.default | "plugin" => some RuleSet.plugin
      | "extension" => some RuleSet.extension | "tools" => some RuleSet.tools | _ => none)
    let n ← charsArg ns; let p ← charsArg path
    pure (toString (namespaceCheck r n p))
  | "closedcount", [] => pure (toString closedRules.length)
  | "spaces", [] =>
    pure (natsOut ((List.range 0x3100).filter fun n => isSpace (Char.ofNat n)))
  | _, _ => none

end Driver.C19

def main : IO Unit := Driver.run Driver.C19.handle

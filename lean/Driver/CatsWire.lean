/-
Wire format for whole CATS schemas between the Python harness (`harness/cats_json.py`: `to_wire`, `schema_to_wire`,
`from_wire`, `schema_from_wire`) and the Lean drivers.  One schema = one line = one S-expression.

    schema  := ( decl* )
    decl    := (alias C $name LT) | (enum C $name INT ATTRS ev*) | (struct C OSTR $name ATTRS OSTR BOOL member*)
                                                                     -- comment disposition name attrs factory_type requires_unaligned
    LT      := INT | (buf nat)
    INT     := (int BOOL nat SR)                 -- is_unsigned, size in bytes, sizeref
    SR      := _ | (sr $property_name scalar)
    ev      := (ev C $name scalar)
    ATTRS   := _ | (attrs attr*)                  -- `_` = Python None
    attr    := (attr $name scalar*)
    member  := (field C $name FT VAL OSTR ATTRS) | (inline C $typename)
    FT      := (named $typename) | INT | (array ET scalar OSC BOOL OSC OBOOL)
                                                   -- element type, raw size, sort_key, is_byte_constrained, alignment, is_last_element_padded
    ET      := (named $typename) | INT
    VAL     := scalar | (cond scalar $operation $linked_field_name)
    C       := _ | $parsed                         -- comment (its `parsed` text)
    scalar  := $hex-of-utf8 | -?digits | T | F | _   (str, int, True, False, None)
    OSTR    := _ | $..      OSC := _ | scalar      BOOL := T | F      OBOOL := _ | T | F

`Desc.toJson` prints a descriptor tree as JSON text (dict key order kept).
-/
import SymbolVerif.Model.Cats.Syntax
import SymbolVerif.Model.Bytes
namespace Driver.CatsWire
open SymbolVerif SymbolVerif.Cats

/-! ## S-expressions -/

inductive SExp where
  | atom (s : String)
  | list (xs : List SExp)
  deriving Repr, Inhabited

/-- tokens: parentheses are their own tokens, everything else is split at blanks -/
def tokenize (s : String) : List String :=
  let spaced := s.toList.foldr (fun c acc => if c = '(' || c = ')' then ' ' :: c :: ' ' :: acc else c :: acc) []
  ((String.ofList spaced).splitOn " ").filter (· ≠ "")

/-- stack machine: the head of the stack is the (reversed) list being read -/
def parseTokens : List String → List (List SExp) → Option SExp
  | [], [[x]] => some x
  | [], _ => none
  | "(" :: rest, stack => parseTokens rest ([] :: stack)
  | ")" :: rest, top :: next :: stack => parseTokens rest ((SExp.list top.reverse :: next) :: stack)
  | ")" :: _, _ => none
  | tok :: rest, top :: stack => parseTokens rest ((SExp.atom tok :: top) :: stack)
  | _ :: _, [] => none

def parseSExp (s : String) : Option SExp := parseTokens (tokenize s) [[]]

/-! ## decoding -/

def strOfHex (h : String) : Option String := do
  let b ← Bytes.ofHex h
  String.fromUTF8? (ByteArray.mk b.toArray)

def decStr : SExp → Option String
  | .atom a => if a.startsWith "$" then strOfHex (a.drop 1).toString else none
  | _ => none

def decScalar : SExp → Option Scalar
  | .atom "_" => some .none
  | .atom "T" => some (.bool true)
  | .atom "F" => some (.bool false)
  | .atom a => if a.startsWith "$" then (strOfHex (a.drop 1).toString).map .str else a.toInt?.map .int
  | _ => none

def decBool : SExp → Option Bool
  | .atom "T" => some true
  | .atom "F" => some false
  | _ => none

def decNat : SExp → Option Nat
  | .atom a => a.toNat?
  | _ => none

def decOpt (f : SExp → Option α) : SExp → Option (Option α)
  | .atom "_" => some none
  | x => (f x).map some

def decComment : SExp → Option (Option Comment) := decOpt fun x => (decStr x).map Comment.mk

def decSizeRef : SExp → Option SizeRef
  | .list [.atom "sr", n, d] => do pure ⟨← decStr n, ← decScalar d⟩
  | _ => none

def decInt : SExp → Option IntType
  | .list [.atom "int", u, n, sr] => do pure ⟨← decBool u, ← decNat n, ← decOpt decSizeRef sr⟩
  | _ => none

def decLinked : SExp → Option LinkedType
  | .list [.atom "buf", n] => (decNat n).map .buffer
  | x => (decInt x).map .int

def decAttr : SExp → Option Attribute
  | .list (.atom "attr" :: n :: vs) => do pure ⟨← decStr n, ← vs.mapM decScalar⟩
  | _ => none

def decAttrs : SExp → Option (Option (List Attribute))
  | .atom "_" => some none
  | .list (.atom "attrs" :: as) => (as.mapM decAttr).map some
  | _ => none

def decEnumValue : SExp → Option EnumValue
  | .list [.atom "ev", c, n, v] => do pure ⟨← decStr n, ← decScalar v, ← decComment c⟩
  | _ => none

def decElem : SExp → Option ElemType
  | .list [.atom "named", n] => (decStr n).map .named
  | x => (decInt x).map .int

def decFieldType : SExp → Option FieldType
  | .list [.atom "named", n] => (decStr n).map .named
  | .list [.atom "array", et, size, sk, bc, al, pl] => do
    pure (.array ⟨← decElem et, ← decScalar size,
      ⟨← decOpt decScalar sk, ← decBool bc, ← decOpt decScalar al, ← decOpt decBool pl⟩⟩)
  | x => (decInt x).map .int

def decValue : SExp → Option FieldValue
  | .list [.atom "cond", v, op, l] => do pure (.cond ⟨← decScalar v, ← decStr op, ← decStr l⟩)
  | x => (decScalar x).map .scalar

def decMember : SExp → Option Member
  | .list [.atom "field", c, n, ft, v, d, as] => do
    pure (.field ⟨← decStr n, ← decFieldType ft, ← decValue v, ← decOpt decStr d, ← decAttrs as, ← decComment c⟩)
  | .list [.atom "inline", c, t] => do pure (.inlinePlaceholder (← decStr t) (← decComment c))
  | _ => none

def decDecl : SExp → Option Decl
  | .list [.atom "alias", c, n, lt] => do pure (.alias ⟨← decStr n, ← decLinked lt, ← decComment c⟩)
  | .list (.atom "enum" :: c :: n :: base :: as :: vs) => do
    pure (.enum ⟨← decStr n, ← decInt base, ← vs.mapM decEnumValue, ← decAttrs as, ← decComment c⟩)
  | .list (.atom "struct" :: c :: d :: n :: as :: f :: ru :: ms) => do
    pure (.struct ⟨← decOpt decStr d, ← decStr n, ← ms.mapM decMember, ← decAttrs as, ← decOpt decStr f, ← decBool ru, ← decComment c⟩)
  | _ => none

def decSchema : SExp → Option Schema
  | .list ds => ds.mapM decDecl
  | _ => none

/-- a whole schema from its wire line -/
def parseSchema (s : String) : Option Schema := parseSExp s >>= decSchema

/-- a single declaration from its wire text -/
def parseDecl (s : String) : Option Decl := parseSExp s >>= decDecl

/-! ## encoding (Lean -> wire) -/

def encStr (s : String) : String := "$" ++ Bytes.toHex s.toUTF8.toList
def encScalar : Scalar → String
  | .str s => encStr s
  | .int i => toString i
  | .bool true => "T"
  | .bool false => "F"
  | .none => "_"
def encBool (b : Bool) : String := if b then "T" else "F"
def encOpt (f : α → String) : Option α → String
  | some a => f a
  | none => "_"
def par (xs : List String) : String := "(" ++ " ".intercalate xs ++ ")"
def encComment (c : Option Comment) : String := encOpt (fun c => encStr c.parsed) c
def encInt (t : IntType) : String :=
  par ["int", encBool t.isUnsigned, toString t.size, encOpt (fun r => par ["sr", encStr r.propertyName, encScalar r.delta]) t.sizeref]
def encLinked : LinkedType → String
  | .int t => encInt t
  | .buffer n => par ["buf", toString n]
def encAttrs : Option (List Attribute) → String
  | none => "_"
  | some as => par ("attrs" :: as.map fun a => par ("attr" :: encStr a.name :: a.values.map encScalar))
def encElem : ElemType → String
  | .named n => par ["named", encStr n]
  | .int t => encInt t
def encFieldType : FieldType → String
  | .named n => par ["named", encStr n]
  | .int t => encInt t
  | .array a => par ["array", encElem a.elementType, encScalar a.rawSize, encOpt encScalar a.attrs.sortKey,
      encBool a.attrs.isByteConstrained, encOpt encScalar a.attrs.alignment, encOpt encBool a.attrs.isLastElementPadded]
def encValue : FieldValue → String
  | .scalar v => encScalar v
  | .cond c => par ["cond", encScalar c.value, encStr c.operation, encStr c.linkedFieldName]
def encMember : Member → String
  | .field f => par ["field", encComment f.comment, encStr f.name, encFieldType f.fieldType, encValue f.value,
      encOpt encStr f.disposition, encAttrs f.attributes]
  | .inlinePlaceholder t c => par ["inline", encComment c, encStr t]
def encDecl : Decl → String
  | .alias a => par ["alias", encComment a.comment, encStr a.name, encLinked a.linkedType]
  | .enum e => par (["enum", encComment e.comment, encStr e.name, encInt e.base, encAttrs e.attributes] ++
      e.values.map fun v => par ["ev", encComment v.comment, encStr v.name, encScalar v.value])
  | .struct s => par (["struct", encComment s.comment, encOpt encStr s.disposition, encStr s.name, encAttrs s.attributes,
      encOpt encStr s.factoryType, encBool s.requiresUnaligned] ++ s.fields.map encMember)
def encSchema (s : Schema) : String := par (s.map encDecl)

/-! ## descriptor trees as JSON text -/

def jsonEscapeChar (c : Char) : String :=
  if c = '"' then "\\\"" else if c = '\\' then "\\\\" else if c = '\n' then "\\n" else if c = '\t' then "\\t"
  else if c = '\r' then "\\r"
  else if c.toNat < 32 then "\\u00" ++ String.ofList [Bytes.hexDigit (c.toNat / 16), Bytes.hexDigit (c.toNat % 16)]
  else String.singleton c

def jsonStr (s : String) : String := "\"" ++ String.join (s.toList.map jsonEscapeChar) ++ "\""

mutual
def descToJson : Desc → String
  | .dict kvs => "{" ++ ",".intercalate (kvsToJson kvs) ++ "}"
  | .list xs => "[" ++ ",".intercalate (listToJson xs) ++ "]"
  | .str s => jsonStr s
  | .int i => toString i
  | .bool b => if b then "true" else "false"
  | .null => "null"
def kvsToJson : List (String × Desc) → List String
  | [] => []
  | (k, v) :: rest => (jsonStr k ++ ":" ++ descToJson v) :: kvsToJson rest
def listToJson : List Desc → List String
  | [] => []
  | x :: rest => descToJson x :: listToJson rest
end

end Driver.CatsWire

/-- JSON text of a descriptor tree (dict keys in insertion order) -/
def SymbolVerif.Cats.Desc.toJson (d : SymbolVerif.Cats.Desc) : String := Driver.CatsWire.descToJson d

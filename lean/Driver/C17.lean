import Driver.Util
import SymbolVerif.Model.Cats.MultiFile
namespace Driver.C17
open SymbolVerif.Cats.MultiFile Driver

/-- `path=U` (unparsable) or `path=P:imp,imp:Decl,Decl` (`-` for an empty list). -/
def entryArg (s : String) : Option (Path × File) :=
  match s.splitOn "=" with
  | [p, "U"] => some (p, .unparsable)
  | [p, body] =>
    match body.splitOn ":" with
    | ["P", imps, decls] => do
      let i ← listArg some imps
      let d ← listArg some decls
      some (p, .parsed i d)
    | _ => none
  | _ => none

def fsArg (s : String) : Option FS :=
  if s = "-" then some [] else (s.splitOn ";").mapM entryArg

def strsOut (l : List String) : String := if l.isEmpty then "-" else ",".intercalate l

def boolArg (s : String) : Option Bool :=
  if s = "1" then some true else if s = "0" then some false else none

def exitStatus (parsed pre apply expand post gen : String) : Option String := do
  let parsed ← boolArg parsed
  let pre ← boolArg pre
  let apply ← boolArg apply
  let expand ← boolArg expand
  let post ← boolArg post
  let gen ← boolArg gen
  let st : Stages Unit := {
    validatePre := fun _ => pre, applyAttributes := fun ds => if apply then some ds else none,
    expandInlines := fun ds => if expand then some ds else none,
    validatePost := fun _ => post, generate := fun _ => gen }
  let r : Except Err (List Unit) := if parsed then .ok [] else .error (.missing "")
  pure s!"{mainExit st r} {if reachesOutput st r then 1 else 0}"

def handle : Handler
  | "parse", [root, fs] => do
    let fs ← fsArg fs
    match parseFilesFull fs root with
    | .ok (names, done) => pure s!"ok {strsOut names} {strsOut done}"
    | .error (.missing p) => pure s!"err missing {p}"
    | .error (.unparsable p) => pure s!"err unparsable {p}"
    | .error .outOfFuel => pure "err out-of-fuel"
  | "exit", [parsed, pre, expand, post, gen] => exitStatus parsed pre "1" expand post gen
  -- the same with the two halves of the post-processing apart: apply_attributes, then the expansion of inlines
  | "exit", [parsed, pre, apply, expand, post, gen] => exitStatus parsed pre apply expand post gen
  | _, _ => none

end Driver.C17

def main : IO Unit := Driver.run Driver.C17.handle

import Driver.Util
import SymbolVerif.Model.Sdk.Ed25519
import SymbolVerif.Model.Sdk.Ed25519Curves
import SymbolVerif.Model.Sdk.Framing
import SymbolVerif.Model.Hash.Sha2
import SymbolVerif.Model.Hash.Keccak
namespace Driver.C07
open SymbolVerif SymbolVerif.Sdk SymbolVerif.Sdk.Ed25519 SymbolVerif.Sdk.Framing Driver

def symbol : Scheme Ed25519Exec.Point := symbolScheme Ed25519Curves.symbolCurve Hash.sha512
def nem : Scheme Ed25519Exec.Point := nemScheme Ed25519Curves.nemCurve Hash.keccak_512

def scheme : String → Option (Scheme Ed25519Exec.Point)
  | "symbol" => some symbol
  | "nem" => some nem
  | _ => none

def verdictOut : Verdict → String
  | .accept => "accept"
  | .reject => "reject"
  | .zeroKey => "zeroKey"
  | .libraryError => "libraryError"

def boolArg : String → Option Bool
  | "1" => some true
  | "0" => some false
  | _ => none

def handle : Handler
  | "payload_symbol", [seed, tx] => do
    let s ← hexArg seed; let t ← hexArg tx
    pure (optOut hexOut (signingPayloadSymbol s t))
  | "payload_nem", [tx] => do
    let t ← hexArg tx
    pure (hexOut (signingPayloadNem t))
  | "is_aggregate", [tx] => do
    let t ← hexArg tx
    pure (optOut toString (isAggregate t))
  | "pubkey", [net, sk] => do
    let S ← scheme net; let k ← hexArg sk
    pure (hexOut (publicKey S k))
  | "sign", [net, sk, msg] => do
    let S ← scheme net; let k ← hexArg sk; let m ← hexArg msg
    pure (optOut hexOut (sign S k m))
  | "verify", [net, pk, msg, sig] => do
    let S ← scheme net; let p ← hexArg pk; let m ← hexArg msg; let g ← hexArg sig
    pure (verdictOut (verify S p m g))
  | "sign_tx_symbol", [seed, sk, tx] => do
    let s ← hexArg seed; let k ← hexArg sk; let t ← hexArg tx
    pure (match signTransactionSymbol symbol s k t with
      | none => "none"
      | some r => optOut hexOut r)
  | "verify_tx_symbol", [seed, tx, sig] => do
    let s ← hexArg seed; let t ← hexArg tx; let g ← hexArg sig
    pure (optOut verdictOut (verifyTransactionSymbol symbol s t g))
  | "sign_tx_nem", [sk, tx] => do
    let k ← hexArg sk; let t ← hexArg tx
    pure (optOut hexOut (signTransactionNem nem k t))
  | "verify_tx_nem", [tx, sig] => do
    let t ← hexArg tx; let g ← hexArg sig
    pure (verdictOut (verifyTransactionNem nem t g))
  | "cosign", [sk, hash, detached] => do
    let k ← hexArg sk; let h ← hexArg hash; let d ← boolArg detached
    pure (optOut hexOut (cosignature symbol k h d))
  | "voting", [sk, start, stop, keys] => do
    let k ← hexArg sk; let a ← natArg start; let b ← natArg stop
    let ks ← listArg hexArg keys
    pure (optOut hexOut (votingKeyTree symbol k a b (fun i => ks.getD i [])))
  | _, _ => none

end Driver.C07

def main : IO Unit := Driver.run Driver.C07.handle

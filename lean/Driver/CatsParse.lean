import Driver.Util
import Driver.CatsWire
import SymbolVerif.Model.Cats.Parser
import SymbolVerif.Model.Cats.Printer
import SymbolVerif.Model.Cats.Expand
namespace Driver.CatsParse
open SymbolVerif SymbolVerif.Cats SymbolVerif.Cats.Parser Driver Driver.CatsWire

def jsonList (xs : List String) : String := "[" ++ ",".intercalate xs ++ "]"

/-- `str()` of a declaration and of its children, as the nodes print themselves -/
def renderTree (d : Decl) : String :=
  let children : List String := match d with
    | .alias _ => []
    | .enum e => e.values.map EnumValue.render
    | .struct s => s.fields.map Member.render
  "{\"decl\":" ++ jsonStr d.render ++ ",\"children\":" ++ jsonList (children.map jsonStr) ++ "}"

/-- the declarations after `AstPostProcessor.apply_attributes` (what `catparser.__main__` describes and emits) -/
def appliedReport (ds : Schema) : String :=
  match applyAttributes ds with
  | .ok S =>
    "{\"ok\":true,\"wire\":" ++ jsonStr (encSchema S) ++
      ",\"legacy\":" ++ jsonList (S.map fun d => d.toLegacy.toJson) ++
      ",\"render\":" ++ jsonList (S.map renderTree) ++ "}"
  | .error e => "{\"ok\":false,\"msg\":" ++ jsonStr e ++ "}"

def report (items : List Item) : String :=
  let ds := declsOf items
  let kinds := items.map fun
    | .decl d => jsonStr ("decl:" ++ d.name)
    | .import p => jsonStr ("import:" ++ p)
    | .comment c => jsonStr ("comment:" ++ c.parsed)
  "{\"ok\":true,\"wire\":" ++ jsonStr (encSchema ds) ++
    ",\"legacy\":" ++ jsonList (ds.map fun d => d.toLegacy.toJson) ++
    ",\"render\":" ++ jsonList (ds.map renderTree) ++
    ",\"items\":" ++ jsonList kinds ++
    ",\"print\":" ++ jsonStr (Printer.print ds) ++
    ",\"applied\":" ++ appliedReport ds ++ "}"

def failure (e : ParseError) : String :=
  "{\"ok\":false,\"line\":" ++ toString e.line ++ ",\"msg\":" ++ jsonStr e.msg ++ "}"

def handle : Handler
  | "parse", [doc] => do
    let s ← strArg doc
    match parseItems s.toList with
    | .ok items => pure (report items)
    | .error e => pure (failure e)
  | "print", toks => do
    let S ← parseSchema (" ".intercalate toks)
    pure (jsonStr (Printer.print S))
  | "lines", [doc] => do
    let s ← strArg doc
    match Lexer.logicalLines s.toList with
    | .ok (ls, eof) =>
      pure (jsonList (ls.map fun l => jsonList [toString l.lineNo, toString l.indent,
        jsonStr (if l.kind == .comment then "comment" else "code"), jsonStr (String.ofList l.text)]) ++ " " ++ toString eof)
    | .error e => pure (failure ⟨e.line, e.msg⟩)
  | _, _ => none

end Driver.CatsParse

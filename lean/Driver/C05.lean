import Driver.Util
import Driver.CatsWire
import SymbolVerif.Model.Cats.Expand
import SymbolVerif.Proofs.CatsExpand
namespace Driver.C05
open SymbolVerif SymbolVerif.Cats Driver Driver.CatsWire

def descs (S : Schema) : String := "[" ++ ",".intercalate (S.map fun d => d.toLegacy.toJson) ++ "]"

def phase (name : String) (r : Except String Schema) : String × Option Schema :=
  match r with
  | .ok S => ("\"" ++ name ++ "\":" ++ descs S, some S)
  | .error e => ("\"" ++ name ++ "\":{\"error\":" ++ jsonStr e ++ "}", none)

/-- all phases of the post processor on one schema; a failed phase ends the report -/
def expandReport (S : Schema) : String :=
  let (a, sa) := phase "attributes" (applyAttributes S)
  match sa with
  | none => "{" ++ a ++ "}"
  | some S1 =>
    let (n, sn) := phase "named" (expandNamed S1)
    match sn with
    | none => "{" ++ a ++ "," ++ n ++ "}"
    | some S2 =>
      let (u, su) := phase "unnamed" (expandUnnamed S2)
      match su with
      | none => "{" ++ a ++ "," ++ n ++ "," ++ u ++ "}"
      | some S3 =>
        "{" ++ a ++ "," ++ n ++ "," ++ u ++ ",\"types\":" ++
          "[" ++ ",".intercalate ((typeDescriptors S3).map fun d => jsonStr d.name) ++ "]" ++
          ",\"wire\":" ++ jsonStr (encSchema S3) ++ "}"

def handle : Handler
  | "legacy", toks => do
    let S ← parseSchema (" ".intercalate toks)
    pure (descs S)
  | "roundtrip", toks => do
    let S ← parseSchema (" ".intercalate toks)
    pure (encSchema S)
  | "render", toks => do
    let S ← parseSchema (" ".intercalate toks)
    pure ("[" ++ ",".intercalate (S.map fun d => jsonStr d.render) ++ "]")
  | "comment", [text] => do
    let s ← strArg text
    pure (strOut (Comment.normalise s))
  | "dbu", toks => do
    let S ← parseSchema (" ".intercalate toks)
    pure (toString (decide (DeclaredBeforeUse S)))
  | "expand", toks => do
    let S ← parseSchema (" ".intercalate toks)
    pure (expandReport S)
  | _, _ => none

end Driver.C05

def main : IO Unit := Driver.run Driver.C05.handle

import Driver.Util
import SymbolVerif.Model.Lint.IncludeOrder
import SymbolVerif.Model.Lint.Indent
import SymbolVerif.Generated.C20Tables
namespace Driver.C20
open SymbolVerif SymbolVerif.Lint Driver

def T := SymbolVerif.Generated.C20.tables
def known := SymbolVerif.Generated.C20.ppDirectives

def charsArg (s : String) : Option (List Char) := (strArg s).map String.toList
def charsOut (s : List Char) : String := strOut (String.ofList s)
def listOut (l : List (List Char)) : String := if l.isEmpty then "-" else ",".intercalate (l.map charsOut)
def boolArg (s : String) : Option Bool := if s = "1" then some true else if s = "0" then some false else none

def kindOut : Indent.FixKind → String
  | .ppline => "P"
  | .continuation => "C"

def msgOut : Indent.Msg → String
  | .alignColumn0 => "A"
  | .firstContinuationSingleIndent => "F"

def fixesOut (fs : List Indent.Fix) : String :=
  if fs.isEmpty then "-" else ",".intercalate (fs.map fun f => s!"{kindOut f.kind}{f.lineno}")

def reportOut (r : List (Nat × Indent.Msg)) : String :=
  if r.isEmpty then "-" else ",".intercalate (r.map fun (n, m) => s!"{msgOut m}{n}")

def outcomeOut : Indent.Outcome → String
  | .untouched => "untouched"
  | .rewritten => "rewritten"
  | .writeFailed => "write-failed"
  | .parseFailed => "parse-failed"

def fsOut (fs : Indent.FS) : String :=
  let names := (fs.map fun (p, c) => s!"{charsOut p}={charsOut c}")
  if names.isEmpty then "-" else ",".intercalate names

def handle : Handler
  | "lt", [a, b] => do
    let a ← charsArg a; let b ← charsArg b
    pure (toString (lt T a b))
  | "sort", [l] => do
    let l ← listArg charsArg l
    pure (listOut (sort T l))
  | "fix_relative", [own, inc] => do
    let own ← charsArg own; let inc ← charsArg inc
    pure (charsOut (fixRelative own inc))
  -- propose <ownPath> <isCpp> <own header> <includes>: the rule set's own header is a constant here
  | "propose", [own, cpp, header, l] => do
    let own ← charsArg own; let cpp ← boolArg cpp; let header ← charsArg header
    let l ← listArg charsArg l
    let proposed := propose T own cpp (fun _ => header) l
    let order := orderComplaint T own cpp (fun _ => header) l
    let first := firstComplaint T own cpp (fun _ => header) l
    pure s!"{listOut proposed} order={order} first={first}"
  | "include", [line] => do
    let line ← charsArg line
    pure (match Indent.matchInclude line with
      | some (inc, rest) => s!"ok {charsOut inc} {charsOut rest}"
      | none => "none")
  | "parse", [content] => do
    let c ← charsArg content
    pure (optOut fixesOut (Indent.parse known (Indent.splitLines c)))
  | "report", [content] => do
    let c ← charsArg content
    pure (optOut reportOut (Indent.reportContent known c))
  | "fix", [content] => do
    let c ← charsArg content
    pure (optOut charsOut (Indent.fixContent known c))
  -- runfix <writeOk> <path> <content> <other files as path=content,...>
  | "runfix", [ok, path, content] => do
    let ok ← boolArg ok; let p ← charsArg path; let c ← charsArg content
    let (fs, outcome) := Indent.runFix known ok [(p, c)] p
    pure s!"{outcomeOut outcome} {fsOut fs}"
  | "spaces", [] =>
    pure (natsOut ((List.range 0x3100).filter fun n => Indent.isSpace (Char.ofNat n)))
  | _, _ => none

end Driver.C20

def main : IO Unit := Driver.run Driver.C20.handle

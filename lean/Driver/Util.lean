/- Line-protocol helpers shared by the per-property driver modules. -/
import SymbolVerif.Model.Bytes
namespace Driver
open SymbolVerif

/-- a handler takes the operation name and the argument tokens of one request line and returns the
    answer line; `none` is reported as `bad-request` (never a default value). -/
abbrev Handler := String → List String → Option String

def hexArg (s : String) : Option Bytes := if s = "-" then some [] else Bytes.ofHex s
def hexOut (b : Bytes) : String := if b.isEmpty then "-" else Bytes.toHex b

/-- string argument: hex of the UTF-8 encoding (`-` for empty). -/
def strArg (s : String) : Option String := do
  let b ← hexArg s
  String.fromUTF8? (ByteArray.mk b.toArray)

def strOut (s : String) : String := hexOut s.toUTF8.toList

def natArg (s : String) : Option Nat := s.toNat?
def intArg (s : String) : Option Int := s.toInt?

def optOut (f : α → String) : Option α → String
  | some a => "ok " ++ f a
  | none => "none"

def natsOut (l : List Nat) : String := if l.isEmpty then "-" else ",".intercalate (l.map toString)

/-- `a,b,c` (or `-` for the empty list) -/
def listArg (f : String → Option α) (s : String) : Option (List α) :=
  if s = "-" then some [] else (s.splitOn ",").mapM f

def dispatch (h : Handler) (line : String) : String :=
  match (line.trimAscii.toString.splitOn " ").filter (· ≠ "") with
  | [] => "bad-request"
  | cmd :: args =>
    if cmd = "ping" then "pong" else (h cmd args).getD "bad-request"

partial def loop (h : Handler) (hin hout : IO.FS.Stream) : IO Unit := do
  let line ← hin.getLine
  if line.isEmpty then return ()
  hout.putStrLn (dispatch h line)
  hout.flush
  loop h hin hout

/-- one request per line `<op> arg…`, one answer line per request. -/
def run (h : Handler) : IO Unit := do
  loop h (← IO.getStdin) (← IO.getStdout)

end Driver

/- Line-protocol helpers shared by the per-property driver modules. -/
import SymbolVerif.Model.Bytes
namespace Driver
open SymbolVerif

/-- a handler takes the argument tokens of one request line and returns the answer line. -/
abbrev Handler := List String → Option String

def hexArg (s : String) : Option Bytes := if s = "-" then some [] else Bytes.ofHex s
def hexOut (b : Bytes) : String := if b.isEmpty then "-" else Bytes.toHex b

/-- string argument: hex of the UTF-8 encoding (`-` for empty). -/
def strArg (s : String) : Option String := do
  let b ← hexArg s
  String.fromUTF8? (ByteArray.mk b.toArray)

def natArg (s : String) : Option Nat := s.toNat?
def intArg (s : String) : Option Int := s.toInt?

def optOut (f : α → String) : Option α → String
  | some a => "ok " ++ f a
  | none => "none"

def natsOut (l : List Nat) : String := if l.isEmpty then "-" else ",".intercalate (l.map toString)

end Driver

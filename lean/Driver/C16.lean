import Driver.Util
import SymbolVerif.Model.Sdk.Bip32
import SymbolVerif.Model.Sdk.Ed25519Exec
import SymbolVerif.Model.Hash.Hmac
import SymbolVerif.Model.Hash.Keccak
namespace Driver.C16
open SymbolVerif SymbolVerif.Sdk Driver

def hm := Hash.hmacSha512

/-- BIP39 seed for mnemonics/passphrases on which NFKD is the identity (the harness sends ASCII only). -/
def toSeed (mnemonic passphrase : String) : Bytes :=
  Hash.pbkdf2HmacSha512 (Bytes.ofString mnemonic) (Bytes.ofString ("mnemonic" ++ passphrase)) 2048 64

def scalarBase := Ed25519Exec.scalarBaseClamped

def nodeOut (n : Bip32Node) : String := hexOut n.privateKey ++ " " ++ hexOut n.chainCode
def keyPairOut (k : KeyPairModel) : String :=
  hexOut k.secret ++ " " ++ hexOut k.publicKey ++ " " ++ hexOut k.shownPrivateKey

def handle : Handler
  | "from_seed", [curve, seed] => do
    let c ← strArg curve; let s ← hexArg seed
    pure (optOut nodeOut (fromSeed hm c s))
  | "derive_path", [curve, seed, path] => do
    let c ← strArg curve; let s ← hexArg seed; let p ← listArg intArg path
    pure (optOut nodeOut ((fromSeed hm c s).bind fun n => n.derivePathInt hm p))
  | "derive_split", [curve, seed, p1, p2] => do
    let c ← strArg curve; let s ← hexArg seed; let p ← listArg intArg p1; let q ← listArg intArg p2
    pure (optOut nodeOut (((fromSeed hm c s).bind fun n => n.derivePathInt hm p).bind fun n => n.derivePathInt hm q))
  | "node_derive", [key, chain, path] => do
    let k ← hexArg key; let cc ← hexArg chain; let p ← listArg intArg path
    pure (optOut nodeOut ((Bip32Node.mk k cc).derivePathInt hm p))
  | "to_seed", [mnemonic, pass] => do
    let m ← strArg mnemonic; let p ← strArg pass
    pure (hexOut (toSeed m p))
  | "from_mnemonic", [curve, mnemonic, pass] => do
    let c ← strArg curve; let m ← strArg mnemonic; let p ← strArg pass
    pure (optOut nodeOut (fromMnemonic hm toSeed c m p))
  | "root_hmac_key", [curve] => do
    let c ← strArg curve
    pure (hexOut (rootHmacKey c))
  | "write_int", [order, buffer, value, count] => do
    let b ← hexArg buffer; let v ← natArg value; let n ← natArg count
    let big ← if order = "big" then some true else if order = "little" then some false else none
    pure (optOut (fun w => hexOut w.buffer) ((BufferWriter.mk big b).writeInt v n))
  | "symbol_path", [name, account] => do
    let n ← strArg name; let a ← natArg account
    pure (natsOut (symbolBip32Path n a))
  | "nem_path", [name, account] => do
    let n ← strArg name; let a ← natArg account
    pure (natsOut (nemBip32Path n a))
  | "symbol_keypair", [key] => do
    let k ← hexArg key
    pure (keyPairOut (symbolNodeToKeyPair Hash.sha512 scalarBase ⟨k, []⟩))
  | "nem_keypair", [key] => do
    let k ← hexArg key
    pure (optOut keyPairOut (nemNodeToKeyPair Hash.keccak_512 scalarBase ⟨k, []⟩))
  | "nem_keypair_raw", [key] => do
    let k ← hexArg key
    pure (keyPairOut (nemKeyPair Hash.keccak_512 scalarBase k))
  | "account", [facade, seed, path] => do
    let s ← hexArg seed; let p ← listArg intArg path
    if facade = "symbol" then
      pure (optOut keyPairOut (((fromSeed hm symbolCurveName s).bind fun n => n.derivePathInt hm p).map
        (symbolNodeToKeyPair Hash.sha512 scalarBase)))
    else if facade = "nem" then
      pure (optOut keyPairOut (((fromSeed hm nemCurveName s).bind fun n => n.derivePathInt hm p).bind
        (nemNodeToKeyPair Hash.keccak_512 scalarBase)))
    else none
  | "account_raw", [facade, seed, path] => do
    let s ← hexArg seed; let p ← listArg intArg path
    if facade = "symbol" then
      pure (optOut keyPairOut (((fromSeed hm symbolCurveName s).bind fun n => n.derivePathInt hm p).map
        fun n => symbolKeyPair Hash.sha512 scalarBase n.privateKey))
    else if facade = "nem" then
      pure (optOut keyPairOut (((fromSeed hm nemCurveName s).bind fun n => n.derivePathInt hm p).map
        fun n => nemKeyPair Hash.keccak_512 scalarBase n.privateKey))
    else none
  | "curve_names", [] => pure (strOut symbolCurveName ++ " " ++ strOut nemCurveName)
  | _, _ => none

end Driver.C16

def main : IO Unit := Driver.run Driver.C16.handle

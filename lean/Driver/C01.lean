/-
Driver for the codec interpreter (C01, C02, C12, C15 and the codec half of C10).
  schema <id> <json>            register a schema (IR JSON from translate/cats.py)
  enc|size|sort|json <id> <Type> <value-json>
  dec <id> <Type> <hex>
  adm <id> <Type> <value-json>  is the value admissible (`Codec.adm`)?  answers `ok true|false`
Answers: `ok <payload>` or `err <class>`.
-/
import Driver.Util
import Driver.CodecWire
import SymbolVerif.Model.Codec.WF
import SymbolVerif.Model.Hash.Keccak
import SymbolVerif.Model.Hash.Ripemd160
open SymbolVerif SymbolVerif.Codec Driver Driver.CodecWire

def transform (name : String) (b : Bytes) : Bytes :=
  if name == "ripemd_keccak_256" then Hash.ripemd160 (Hash.keccak_256 b) else b

def showR (f : α → String) : R α → String
  | .ok a => "ok " ++ f a
  | .error e => "err " ++ reprStr e

def handleReq (schemas : List (String × Schema)) (op : String) (args : List String) : Option String := do
  match op, args with
  | "enc", [sid, ty, vj] =>
    let S ← (schemas.find? (·.1 == sid)).map (·.2)
    match Lean.Json.parse vj >>= parseVal with
    | .ok v => some (showR hexOut (encode S transform ty v))
    | .error e => some ("bad-value " ++ e)
  | "size", [sid, ty, vj] =>
    let S ← (schemas.find? (·.1 == sid)).map (·.2)
    match Lean.Json.parse vj >>= parseVal with
    | .ok v => some (showR toString (size S transform ty v))
    | .error e => some ("bad-value " ++ e)
  | "sort", [sid, ty, vj] =>
    let S ← (schemas.find? (·.1 == sid)).map (·.2)
    match Lean.Json.parse vj >>= parseVal with
    | .ok v => some (showR renderVal (sort S transform ty v))
    | .error e => some ("bad-value " ++ e)
  | "json", [sid, ty, vj] =>
    let S ← (schemas.find? (·.1 == sid)).map (·.2)
    match Lean.Json.parse vj >>= parseVal with
    | .ok v => some (showR id (toJson S transform ty v))
    | .error e => some ("bad-value " ++ e)
  | "str", [sid, ty, vj] =>
    let S ← (schemas.find? (·.1 == sid)).map (·.2)
    match Lean.Json.parse vj >>= parseVal with
    | .ok v => some (showR Driver.strOut (toStr S transform ty v))
    | .error e => some ("bad-value " ++ e)
  | "layout", [sid, ty, vj] =>
    let S ← (schemas.find? (·.1 == sid)).map (·.2)
    match Lean.Json.parse vj >>= parseVal with
    | .ok v => some (showR (fun l => if l.isEmpty then "-" else ",".intercalate (l.map fun (n, k, o, len) => s!"{n}:{k}:{o}:{len}")) (layoutOf S transform ty v))
    | .error e => some ("bad-value " ++ e)
  | "adm", [sid, ty, vj] =>
    let S ← (schemas.find? (·.1 == sid)).map (·.2)
    match Lean.Json.parse vj >>= parseVal with
    | .ok v => some ("ok " ++ toString (adm S transform ty v))
    | .error e => some ("bad-value " ++ e)
  | "dec", [sid, ty, hex] =>
    let S ← (schemas.find? (·.1 == sid)).map (·.2)
    let b ← hexArg hex
    some (showR renderVal (decode S transform ty b))
  | _, _ => none

partial def loop (hin hout : IO.FS.Stream) (schemas : List (String × Schema)) : IO Unit := do
  let line ← hin.getLine
  if line.isEmpty then return ()
  let toks := (line.trimAscii.toString.splitOn " ").filter (· ≠ "")
  match toks with
  | ["ping"] => hout.putStrLn "pong"; hout.flush; loop hin hout schemas
  | ["schema", sid, json] =>
    match parseSchema json with
    | .ok S =>
      hout.putStrLn s!"ok {S.length}"; hout.flush
      loop hin hout ((sid, S) :: schemas.filter (·.1 != sid))
    | .error e => hout.putStrLn ("bad-schema " ++ e); hout.flush; loop hin hout schemas
  | op :: args =>
    hout.putStrLn ((handleReq schemas op args).getD "bad-request"); hout.flush
    loop hin hout schemas
  | [] => hout.putStrLn "bad-request"; hout.flush; loop hin hout schemas

def main : IO Unit := do
  loop (← IO.getStdin) (← IO.getStdout) []

/- Driver for C03: emission plan and TYPE_HINTS of a schema (IR JSON).  `plan <json>` / `hints <Type> <json>` -/
import Driver.Util
import Driver.CodecWire
import SymbolVerif.Model.Codec.Emission
open SymbolVerif SymbolVerif.Codec Driver Driver.CodecWire

def handle : Handler
  | "plan", [json] =>
    match parseSchema json with
    | .ok S => some (",".intercalate (emissionPlan S))
    | .error e => some ("bad-schema " ++ e)
  | "hints", [ty, json] =>
    match parseSchema json with
    | .ok S => match S.find ty with
      | some (.struct d) =>
        let hs := typeHints S d
        some (if hs.isEmpty then "-" else ",".intercalate (hs.map fun (n, h) => n ++ "=" ++ h))
      | _ => some "not-a-struct"
    | .error e => some ("bad-schema " ++ e)
  | "body", [which, ty, json] =>
    match parseSchema json with
    | .ok S => match S.find ty with
      | some (.struct d) =>
        let lines := match which with
          | "serialize" => serializeBody S d
          | "_serialize" => serializeFieldLines S d
          | "size" => sizeBody S d
          | "deserialize" => deserializeBody S ty d
          | "_deserialize" => deserializeBody S ty d
          | _ => []
        some (Driver.strOut ("\n".intercalate lines))
      | _ => some "not-a-struct"
    | .error e => some ("bad-schema " ++ e)
  | "module", [json] =>
    match parseSchema json with
    | .ok S => some (Driver.strOut ("\n".intercalate (moduleLines S)))
    | .error e => some ("bad-schema " ++ e)
  | "class", [ty, json] =>
    match parseSchema json with
    | .ok S => match S.find ty with
      | some t => some (Driver.strOut ("\n".intercalate (typeClass S ty t)))
      | none => some "unknown-type"
    | .error e => some ("bad-schema " ++ e)
  | _, _ => none

def main : IO Unit := Driver.run handle

import Driver.Util
import SymbolVerif.Model.Sdk.Merkle
import SymbolVerif.Model.Sdk.Patricia
import SymbolVerif.Model.Sdk.TxHash
import SymbolVerif.Model.Hash.Keccak
namespace Driver.C09
open SymbolVerif SymbolVerif.Sdk Driver

def H := Hash.sha3_256
def K := Hash.keccak_256

/-! ### wire syntax
  hex: upper-case hex, `-` for empty.  hash list: `h,h,h` or `-`.
  merkle path: `hash:L,hash:R,…` or `-`.
  patricia node: `L:<pathhex>:<size>:<valuehex>` | `B:<pathhex>:<size>:<link>/<link>/…` (`_` = None, `~` = no links at all);
  node list: `;`-separated or `-`.
  tree (prefix order, `,`-separated): `E` | `L:<nibbles>:<valuehex>` | `B:<nibbles>` followed by 16 subtrees;
  nibbles: hex characters, `-` for none. -/

def hashList (s : String) : Option (List Bytes) := listArg hexArg s

def hashListOut (l : List Bytes) : String := if l.isEmpty then "-" else ",".intercalate (l.map hexOut)

def partArg (s : String) : Option Merkle.Part :=
  match s.splitOn ":" with
  | [h, "L"] => (hexArg h).map fun b => ⟨b, true⟩
  | [h, "R"] => (hexArg h).map fun b => ⟨b, false⟩
  | _ => none

def partOut (p : Merkle.Part) : String := hexOut p.hash ++ ":" ++ (if p.isLeft then "L" else "R")

def pathOut (l : List Merkle.Part) : String := if l.isEmpty then "-" else ",".intercalate (l.map partOut)

def linkArg (s : String) : Option (Option Bytes) := if s = "_" then some none else (hexArg s).map some

def linkOut : Option Bytes → String
  | none => "_"
  | some b => hexOut b

def linksOut (l : List (Option Bytes)) : String := if l.isEmpty then "~" else "/".intercalate (l.map linkOut)

def nodeArg (s : String) : Option Patricia.Node :=
  match s.splitOn ":" with
  | ["L", p, n, v] => do
    let pb ← hexArg p; let size ← natArg n; let vb ← hexArg v
    pure (.leaf ⟨pb, size⟩ vb)
  | ["B", p, n, ls] => do
    let pb ← hexArg p; let size ← natArg n
    let links ← if ls = "~" then some [] else (ls.splitOn "/").mapM linkArg
    pure (.branch ⟨pb, size⟩ links)
  | _ => none

def nodeOut : Patricia.Node → String
  | .leaf p v => s!"L:{hexOut p.bytes}:{p.size}:{hexOut v}"
  | .branch p ls => s!"B:{hexOut p.bytes}:{p.size}:{linksOut ls}"

def nodesArg (s : String) : Option (List Patricia.Node) :=
  if s = "-" then some [] else (s.splitOn ";").mapM nodeArg

def nodesOut (l : List Patricia.Node) : String := if l.isEmpty then "-" else ";".intercalate (l.map nodeOut)

def nibbleChar (c : Char) : Option Nat := Bytes.hexVal c

def nibblesArg (s : String) : Option (List Nat) := if s = "-" then some [] else s.toList.mapM nibbleChar

def nibblesOut (l : List Nat) : String :=
  if l.isEmpty then "-" else String.ofList (l.map fun n => if n < 16 then Bytes.hexDigit n else '?')

/-- prefix-order tree parser; fuel bounds the number of tokens consumed -/
def parseTree : Nat → List String → Option (Patricia.PTree × List String)
  | 0, _ => none
  | _, [] => none
  | fuel + 1, tok :: rest =>
    match tok.splitOn ":" with
    | ["E"] => some (.empty, rest)
    | ["L", p, v] => do
      let ns ← nibblesArg p; let vb ← hexArg v
      pure (.leaf ns vb, rest)
    | ["B", p] => do
      let ns ← nibblesArg p
      let rec children (k : Nat) (toks : List String) (acc : List Patricia.PTree) : Option (List Patricia.PTree × List String) :=
        match k with
        | 0 => some (acc.reverse, toks)
        | k + 1 => do
          let (t, toks') ← parseTree fuel toks
          children k toks' (t :: acc)
      let (cs, rest') ← children 16 rest []
      pure (.branch ns (fun i => cs.getD i.val .empty), rest')
    | _ => none

def treeArg (s : String) : Option Patricia.PTree :=
  let toks := s.splitOn ","
  match parseTree (toks.length + 1) toks with
  | some (t, []) => some t
  | _ => none

def dresultOut : Patricia.DResult → String
  | .ok ns => "ok " ++ nodesOut ns
  | .valueError => "valueError"
  | .diverges => "diverges"

def boolOut (b : Bool) : String := if b then "true" else "false"

def handle : Handler
  /- Merkle -/
  | "merkle_build", [hs] => do          -- update per leaf, then final (the in-place loop)
    let l ← hashList hs
    pure (hexOut (Merkle.build H l))
  | "merkle_state", [hs] => do          -- self.hashes after final()
    let l ← hashList hs
    pure (hashListOut (Merkle.finalState H l))
  | "merkle_root", [hs] => do           -- the textbook definition
    let l ← hashList hs
    pure (hexOut (Merkle.root H l))
  | "audit_path", [hs, i] => do
    let l ← hashList hs; let k ← natArg i
    pure (pathOut (Merkle.auditPath H l k))
  | "prove_merkle", [leaf, path, root] => do
    let lf ← hexArg leaf; let p ← listArg partArg path; let r ← hexArg root
    pure (boolOut (Merkle.proveMerkle H lf p r))
  /- transaction hashes -/
  | "symbol_hash", [sig, signer, seed, tx] => do
    let a ← hexArg sig; let b ← hexArg signer; let c ← hexArg seed; let t ← hexArg tx
    pure (optOut hexOut (TxHash.hashSymbol H a b c t))
  | "symbol_hash_serialized", [seed, tx] => do
    let c ← hexArg seed; let t ← hexArg tx
    pure (optOut hexOut (TxHash.hashSymbolSerialized H c t))
  | "symbol_window", [tx] => do
    let t ← hexArg tx
    pure (optOut hexOut (TxHash.dataWindow t))
  | "signing_payload", [seed, tx] => do
    let c ← hexArg seed; let t ← hexArg tx
    pure (optOut hexOut (TxHash.signingPayload c t))
  | "embedded_hash", [txs] => do
    let l ← hashList txs
    pure (hexOut (TxHash.hashEmbedded H l))
  | "nem_hash", [nv] => do
    let t ← hexArg nv
    pure (hexOut (TxHash.hashNem K t))
  | "nem_hash_serialized", [tx] => do
    let t ← hexArg tx
    pure (hexOut (TxHash.hashNemSerialized K t))
  | "nem_non_verifiable", [tx] => do
    let t ← hexArg tx
    pure (hexOut (TxHash.nemNonVerifiable t))
  /- Patricia -/
  | "encode_path", [p, n, leaf] => do
    let pb ← hexArg p; let size ← natArg n; let l ← natArg leaf
    pure (optOut hexOut (Patricia.encodePath ⟨pb, size⟩ (l != 0)))
  | "hex_path", [p, n] => do
    let pb ← hexArg p; let size ← natArg n
    pure (nibblesOut (Patricia.hexPath ⟨pb, size⟩))
  | "node_hash", [node] => do
    let nd ← nodeArg node
    pure (optOut hexOut (Patricia.nodeHash H nd))
  | "deserialize", [buffer] => do
    let b ← hexArg buffer
    pure (dresultOut (Patricia.deserialize b))
  | "serialize", [nodes] => do
    let ns ← nodesArg nodes
    pure (hexOut (Patricia.serialize ns))
  | "prove_patricia", [key, value, nodes, stateHash, roots] => do
    let k ← hexArg key; let v ← hexArg value; let ns ← nodesArg nodes; let sh ← hexArg stateHash; let rs ← hashList roots
    pure (optOut (fun (v : Patricia.Verdict) => toString v.code) (Patricia.provePatricia H k v ns sh rs))
  | "tree", [tree, key] => do           -- the specification-side functions on a tree and a key
    let t ← treeArg tree; let k ← nibblesArg key
    pure (s!"hash={hexOut (t.hash H)} proof={nodesOut (t.proof H k)} trace={nibblesOut (t.trace k)} " ++
      s!"lookup={optOut hexOut (t.lookup k)} deadEnd={boolOut (t.deadEnd k)}")
  | _, _ => none

end Driver.C09

def main : IO Unit := Driver.run Driver.C09.handle

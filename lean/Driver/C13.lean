import Driver.Util
import SymbolVerif.Model.Sdk.Ids
import SymbolVerif.Model.Hash.Keccak
namespace Driver.C13
open SymbolVerif SymbolVerif.Sdk Driver

def H := Hash.sha3_256

def handle : Handler
  | "mosaic_id", [addr, nonce] => do
    let a ← hexArg addr; let n ← natArg nonce
    pure (optOut toString (mosaicId H a n))
  | "namespace_id", [name, parent] => do
    let s ← strArg name; let p ← natArg parent
    pure (optOut toString (namespaceId H (utf8 s.toList) p))
  | "is_valid_name", [name] => do
    let s ← strArg name
    pure (toString (isValidName s.toList))
  | "namespace_path", [name] => do
    let s ← strArg name
    pure (optOut natsOut (namespacePath H s.toList))
  | "mosaic_alias_id", [name] => do
    let s ← strArg name
    pure (optOut toString (mosaicAliasId H s.toList))
  | "metadata_key", [seed] => do
    let s ← strArg seed
    pure (optOut toString (metadataKey H (utf8 s.toList)))
  | "metadata_update", [old, new] => do
    let o ← hexArg old; let n ← hexArg new
    pure (hexOut (metadataUpdate o n))
  | "alias_address", [ns, id] => do
    let n ← natArg ns; let i ← natArg id
    pure (optOut hexOut (aliasAddress n i))
  | "alias_namespace_id", [addr] => do
    let a ← hexArg addr
    pure (optOut toString (aliasNamespaceId a))
  | _, _ => none

end Driver.C13

def main : IO Unit := Driver.run Driver.C13.handle

import Driver.Util
import SymbolVerif.Model.Sdk.Address
import SymbolVerif.Model.Hash.Keccak
import SymbolVerif.Model.Hash.Ripemd160
namespace Driver.C08
open SymbolVerif SymbolVerif.Sdk Driver

def kindArg (s : String) : Option (AddressKind × (Bytes → Bytes)) :=
  if s = "symbol" then some (symbolKind, Hash.sha3_256)
  else if s = "nem" then some (nemKind, Hash.keccak_256)
  else none

def R := Hash.ripemd160

def boolOut (b : Bool) : String := if b then "true" else "false"
def charsOut (cs : List Char) : String := strOut (String.ofList cs)

def handle : Handler
  | "address", [kind, id, pk] => do
    let (k, H) ← kindArg kind; let i ← natArg id; let p ← hexArg pk
    pure (optOut hexOut (publicKeyToAddress H R k i p))
  | "is_valid", [kind, id, addr] => do
    let (_, H) ← kindArg kind; let i ← natArg id; let a ← hexArg addr
    pure (optOut boolOut (isValidAddress H i a))
  | "is_valid_string", [kind, id, str] => do
    let (k, H) ← kindArg kind; let i ← natArg id; let s ← strArg str
    pure (optOut boolOut (isValidAddressString H k i s.toList))
  | "to_string", [kind, addr] => do
    let (k, _) ← kindArg kind; let a ← hexArg addr
    pure (charsOut (addressToString k a))
  | "of_string", [kind, str] => do
    let (k, _) ← kindArg kind; let s ← strArg str
    pure (optOut hexOut (addressOfString k s.toList))
  | "b32encode", [data] => do
    let b ← hexArg data
    pure (charsOut (Base32.encode32 b))
  | "b32decode", [str] => do
    let s ← strArg str
    pure (optOut hexOut (Base32.decode32 s.toList))
  | _, _ => none

end Driver.C08

def main : IO Unit := Driver.run Driver.C08.handle

/- JSON wire format of the codec IR and of values (driver side). -/
import Lean.Data.Json
import SymbolVerif.Model.Codec.Render
namespace Driver.CodecWire
open Lean SymbolVerif SymbolVerif.Codec

def optStr (j : Json) : Except String (Option String) :=
  if j.isNull then pure none else do pure (some (← j.getStr?))

def optInt (j : Json) : Except String (Option Int) :=
  if j.isNull then pure none else do pure (some (← j.getInt?))

def parseCond (j : Json) : Except String (Option Cond) :=
  if j.isNull then pure none else do
    let op ← match (← (← j.getObjVal? "op").getStr?) with
      | "eq" => pure CondOp.eq | "ne" => pure CondOp.ne | "isIn" => pure CondOp.isIn | "notIn" => pure CondOp.notIn
      | s => throw s!"cond op {s}"
    pure (some { field := ← (← j.getObjVal? "field").getStr?, op := op,
                 value := ← (← j.getObjVal? "value").getInt?, viaSelf := ← (← j.getObjVal? "viaSelf").getBool? })

def parseKind (j : Json) : Except String FK := do
  let k ← (← j.getObjVal? "k").getStr?
  let w := (j.getObjVal? "w" >>= Json.getNat?).toOption.getD 0
  let signed := (j.getObjVal? "signed" >>= Json.getBool?).toOption.getD false
  let str (n : String) : Except String String := do (← j.getObjVal? n).getStr?
  match k with
  | "int" => pure (.int w signed)
  | "reserved" => pure (.reserved w signed (← (← j.getObjVal? "value").getInt?))
  | "sizeF" => pure (.sizeF w)
  | "count" => pure (.count w signed (← str "target") (← optInt (← j.getObjVal? "absent")))
  | "byteSize" => pure (.byteSize w signed (← str "target"))
  | "sizeOf" => pure (.sizeOf w signed (← str "target"))
  | "sizeRef" => pure (.sizeRef w signed (← str "target") (← (← j.getObjVal? "delta").getInt?))
  | "ref" => pure (.ref (← str "ty") (← optStr (← j.getObjVal? "limit")))
  | "barray" => pure (.barray (← str "sizeField"))
  | "array" => do
    let m ← j.getObjVal? "mode"
    let mode ← match (← (← m.getObjVal? "m").getStr?) with
      | "fill" => pure ArrMode.fill
      | "count" => pure (ArrMode.count (← (← m.getObjVal? "field").getStr?))
      | "sized" => pure (ArrMode.sized (← (← m.getObjVal? "field").getStr?))
      | s => throw s!"array mode {s}"
    pure (.array (← str "elem") mode (← (← j.getObjVal? "align").getNat?) (← (← j.getObjVal? "padLast").getBool?)
      (← optStr (← j.getObjVal? "sortKey")))
  | s => throw s!"field kind {s}"

def parseField (j : Json) : Except String Field := do
  pure { name := ← (← j.getObjVal? "name").getStr?, kind := ← parseKind (← j.getObjVal? "kind"),
         cond := ← parseCond (← j.getObjVal? "cond") }

def parseTypeDef (j : Json) : Except String TypeDef := do
  let k ← (← j.getObjVal? "k").getStr?
  match k with
  | "int" => pure (.int (← (← j.getObjVal? "w").getNat?) (← (← j.getObjVal? "signed").getBool?))
  | "bytes" => pure (.bytes (← (← j.getObjVal? "n").getNat?))
  | "enum" => do
    let ms ← (← j.getObjVal? "members").getArr?
    let members ← ms.toList.mapM fun m => do
      let a ← m.getArr?
      match a.toList with
      | [n, v] => pure ((← n.getStr?), (← v.getInt?))
      | _ => throw "enum member"
    pure (.enum (← (← j.getObjVal? "w").getNat?) (← (← j.getObjVal? "signed").getBool?) (← (← j.getObjVal? "bitwise").getBool?) members)
  | "struct" => do
    let fs ← (← j.getObjVal? "fields").getArr?
    let fields ← fs.toList.mapM parseField
    let strs (n : String) : Except String (List String) := do
      (← (← j.getObjVal? n).getArr?).toList.mapM Json.getStr?
    let dv ← (← (← j.getObjVal? "discValues").getArr?).toList.mapM Json.getInt?
    let cmp ← (← (← j.getObjVal? "comparer").getArr?).toList.mapM fun c => do
      match (← c.getArr?).toList with
      | [n, t] => pure ((← n.getStr?), (← optStr t))
      | _ => throw "comparer"
    let consts ← match j.getObjVal? "consts" with
      | .ok a => (← a.getArr?).toList.mapM fun c => do
        match (← c.getArr?).toList with
        | [n, t, v] => pure ((← n.getStr?), (← t.getStr?), (match v.getStr? with | .ok s => s | .error _ => v.compress))
        | _ => throw "consts"
      | .error _ => pure []
    let inits ← match j.getObjVal? "initializers" with
      | .ok a => (← a.getArr?).toList.mapM fun c => do
        match (← c.getArr?).toList with
        | [k, v] => pure ((← k.getStr?), (← v.getStr?))
        | _ => throw "initializers"
      | .error _ => pure []
    pure (.struct { consts := consts, inits := inits, fields := fields, inherited := ← (← j.getObjVal? "inherited").getNat?,
                    base := ← optStr (← j.getObjVal? "base"), abstract := ← (← j.getObjVal? "abstract").getBool?,
                    disc := ← strs "disc", discValues := dv, comparer := cmp })
  | s => throw s!"typedef {s}"

def parseSchema (text : String) : Except String Schema := do
  let j ← Json.parse text
  (← j.getArr?).toList.mapM fun e => do
    match (← e.getArr?).toList with
    | [n, t] => pure ((← n.getStr?), (← parseTypeDef t))
    | _ => throw "schema entry"

partial def parseVal (j : Json) : Except String Val :=
  match j with
  | .null => pure .none
  | .num n => if n.exponent == 0 then pure (.int n.mantissa) else throw "non-integer number"
  | .str s => match s.toInt? with
    | some i => pure (.int i)
    | none => throw "bad int string"
  | .arr a => do pure (.arr (← a.toList.mapM parseVal))
  | .obj _ => do
    match j.getObjVal? "b" with
    | .ok b => match Bytes.ofHex (← b.getStr?) with
      | some bs => pure (.bytes bs)
      | none => throw "bad hex"
    | .error _ => do
      let ty ← (← j.getObjVal? "s").getStr?
      let fs ← (← j.getObjVal? "f").getArr?
      let fields ← fs.toList.mapM fun e => do
        match (← e.getArr?).toList with
        | [n, v] => pure ((← n.getStr?), (← parseVal v))
        | _ => throw "struct member"
      pure (.struct ty fields)
  | _ => throw "bad value"

/-- integers are written as strings so that no JSON reader loses precision -/
partial def renderVal : Val → String
  | .none => "null"
  | .int i => "\"" ++ toString i ++ "\""
  | .bytes b => "{\"b\":\"" ++ Bytes.toHex b ++ "\"}"
  | .arr l => "[" ++ ",".intercalate (l.map renderVal) ++ "]"
  | .struct ty fs =>
    "{\"s\":\"" ++ ty ++ "\",\"f\":[" ++ ",".intercalate (fs.map fun (n, v) => "[\"" ++ n ++ "\"," ++ renderVal v ++ "]") ++ "]}"

end Driver.CodecWire

/-
Line-protocol driver: one request per line `<prop>.<op> arg…`, one answer line per request.
`bad-request` is printed for anything a handler does not understand (never a default value).
-/
import Driver.Util
import Driver.C13

open Driver

def dispatch (line : String) : String :=
  match (line.trimAscii.toString.splitOn " ").filter (· ≠ "") with
  | [] => "bad-request"
  | cmd :: args =>
    match cmd.splitOn "." with
    | [prop, op] =>
      let r : Option String :=
        match prop with
        | "c13" => C13.handle op args
        | "ping" => some "pong"
        | _ => none
      r.getD "bad-request"
    | _ => "bad-request"

partial def loop (hin hout : IO.FS.Stream) : IO Unit := do
  let line ← hin.getLine
  if line.isEmpty then return ()
  hout.putStrLn (dispatch line)
  hout.flush
  loop hin hout

def main : IO Unit := do
  loop (← IO.getStdin) (← IO.getStdout)

import Driver.Util
import Driver.CatsWire
import SymbolVerif.Model.Cats.Derive
namespace Driver.C18
open SymbolVerif SymbolVerif.Cats Driver Driver.CatsWire

def scalarJson : Scalar → String
  | .str s => jsonStr s
  | .int i => toString i
  | .bool b => if b then "true" else "false"
  | .none => "null"

def listJson (xs : List String) : String := "[" ++ ",".intercalate xs ++ "]"

def factoryJson (m : FactoryMap) : String :=
  listJson (m.map fun (k, fd) => listJson [jsonStr k, listJson (fd.discriminatorNames.map scalarJson),
    listJson (fd.discriminatorValues.map scalarJson), listJson (fd.discriminatorTypes.map fun t => jsonStr t.render),
    listJson (fd.children.map jsonStr)])

def optJson (f : α → String) : Option α → String
  | some a => f a
  | none => "null"

def extJson (e : FieldExt) : String :=
  listJson [optJson jsonStr e.typeModel, if e.isPod then "true" else "false", if e.isContentsAbstract then "true" else "false",
    optJson toString e.boundField, listJson (e.sizeFields.map toString)]

def extendReport (S : Schema) (order : List String) : String :=
  let per := S.structs.map fun M =>
    match processStruct S M with
    | .ok (exts, _) => jsonStr M.name ++ ":" ++ listJson (exts.map extJson)
    | .error e => jsonStr M.name ++ ":{\"error\":" ++ jsonStr e ++ "}"
  let un := match requiresUnaligned S order with
    | .ok l => listJson (l.map jsonStr)
    | .error e => "{\"error\":" ++ jsonStr e ++ "}"
  "{\"exts\":{" ++ ",".intercalate per ++ "},\"unaligned\":" ++ un ++ "}"

def handle : Handler
  | "factory", toks => do
    let S ← parseSchema (" ".intercalate toks)
    match buildFactoryMap S with
    | .ok m => pure (factoryJson m)
    | .error e => pure ("{\"error\":" ++ jsonStr e ++ "}")
  | "extend", order :: toks => do
    let names ← listArg strArg order
    let S ← parseSchema (" ".intercalate toks)
    pure (extendReport S names)
  | _, _ => none

end Driver.C18

def main : IO Unit := Driver.run Driver.C18.handle

import Driver.CatsParse

def main : IO Unit := Driver.run Driver.CatsParse.handle

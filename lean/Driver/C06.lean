import Driver.Util
import Driver.CatsWire
import SymbolVerif.Model.Cats.Expand
import SymbolVerif.Model.Cats.Validate
import SymbolVerif.Proofs.CatsPostClean
namespace Driver.C06
open SymbolVerif SymbolVerif.Cats Driver Driver.CatsWire

def kindName (k : MsgKind) : String := (reprStr k).replace "SymbolVerif.Cats.MsgKind." ""

def errJson (e : ErrorDescriptor) : String :=
  "[" ++ jsonStr e.typename ++ ",[" ++ ",".intercalate (e.fieldNames.map jsonStr) ++ "]," ++ jsonStr (kindName e.kind) ++ "," ++
    jsonStr e.message ++ "," ++ jsonStr e.render ++ "]"

def errsJson (es : List ErrorDescriptor) : String := "[" ++ ",".intercalate (es.map errJson) ++ "]"

def handle : Handler
  | "validate", "pre" :: toks => do
    let S ← parseSchema (" ".intercalate toks)
    pure (errsJson (validate .pre S))
  | "validate", "post" :: toks => do
    let S ← parseSchema (" ".intercalate toks)
    pure (errsJson (validate .post S))
  | "hyps", toks => do
    -- the decidable side conditions of `post_errors_after_clean_pre`
    let S ← parseSchema (" ".intercalate toks)
    pure (toString (decide (DeclaredBeforeUse S)) ++ " " ++ toString (refsWellFormed S))
  | "pipeline", toks => do
    let S ← parseSchema (" ".intercalate toks)
    let pre := validate .pre S
    match postProcess S with
    | .ok E => pure ("{\"pre\":" ++ errsJson pre ++ ",\"post\":" ++ errsJson (validate .post E) ++ "}")
    | .error e => pure ("{\"pre\":" ++ errsJson pre ++ ",\"error\":" ++ jsonStr e ++ "}")
  | _, _ => none

end Driver.C06

def main : IO Unit := Driver.run Driver.C06.handle

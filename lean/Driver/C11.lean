import Driver.Util
import Driver.CatsParse
import SymbolVerif.Model.Cats.Corrupt
namespace Driver.C11
open SymbolVerif SymbolVerif.Cats SymbolVerif.Cats.Parser SymbolVerif.Cats.Corrupt Driver Driver.CatsWire

/-- `variants <op> <doc>`: every corrupted version (hex), with the model's verdict on it:
    `<hex>:<ok|line>` separated by blanks; `-` when the operator has no site -/
def handle : Handler
  | "variants", [op, doc] => do
    let op ← Op.ofName op
    let s ← strArg doc
    let vs := variants op s.toList
    if vs.isEmpty then pure "-" else
    pure (" ".intercalate (vs.map fun v =>
      strOut (String.ofList v) ++ ":" ++ (match parseItems v with | .ok _ => "ok" | .error e => toString e.line)))
  | "ops", [] => pure (",".intercalate (Op.all.map Op.name))
  | "parse", [doc] => Driver.CatsParse.handle "parse" [doc]
  | _, _ => none

end Driver.C11

def main : IO Unit := Driver.run Driver.C11.handle

import Driver.Util
import Driver.CatsParse
import SymbolVerif.Model.Cats.Corrupt
namespace Driver.C11
open SymbolVerif SymbolVerif.Cats SymbolVerif.Cats.Parser SymbolVerif.Cats.Corrupt Driver Driver.CatsWire

/-- `variants <op> <doc>`: every corrupted version (hex), with the model's verdict on it:
    `<hex>:<ok|line>` separated by blanks; `-` when the operator has no site -/
def handle : Handler
  | "variants", [op, doc] => do
    let op ← Op.ofName op
    let s ← strArg doc
    let vs := variants op s.toList
    if vs.isEmpty then pure "-" else
    pure (" ".intercalate (vs.map fun v =>
      strOut (String.ofList v) ++ ":" ++ (match parseItems v with | .ok _ => "ok" | .error e => toString e.line)))
  | "ops", [] => pure (",".intercalate ((Op.all.filter fun o => !o.arbitrated).map Op.name))
  | "arbitrated-ops", [] => pure (",".intercalate ((Op.all.filter Op.arbitrated).map Op.name))
  -- `count <op> <doc>`: number of sites; `variant <op> <k> <doc>`: the document corrupted at site k with the model's verdict
  | "sweep-widths", [] => pure (",".intercalate sweepWidths)
  | "count", [op, doc] => do
    let op ← Op.ofName op
    let s ← strArg doc
    pure (toString (siteCount op s.toList))
  | "variant", [op, k, doc] => do
    let op ← Op.ofName op
    let k ← k.toNat?
    let s ← strArg doc
    match corrupt op k s.toList with
    | none => pure "-"
    | some v => pure (strOut (String.ofList v) ++ ":" ++ (match parseItems v with | .ok _ => "ok" | .error e => toString e.line))
  | "parse", [doc] => Driver.CatsParse.handle "parse" [doc]
  | _, _ => none

end Driver.C11

def main : IO Unit := Driver.run Driver.C11.handle

import Driver.Util
import SymbolVerif.Model.Sdk.Ed25519
import SymbolVerif.Model.Sdk.Ed25519Curves
import SymbolVerif.Model.Sdk.SharedKey
import SymbolVerif.Model.Sdk.Message
import SymbolVerif.Model.Hash.Sha2
import SymbolVerif.Model.Hash.Keccak
import SymbolVerif.Model.Hash.Hmac
namespace Driver.C14
open SymbolVerif SymbolVerif.Sdk SymbolVerif.Sdk.Ed25519 SymbolVerif.Sdk.SharedKey SymbolVerif.Sdk.Message Driver

abbrev Pt := Ed25519Exec.Point

def symbolS : Scheme Pt := symbolScheme Ed25519Curves.symbolCurve Hash.sha512
def nemS : Scheme Pt := nemScheme Ed25519Curves.nemCurve Hash.keccak_512

/-- `iscanonical` / `decodepoint` / `isinmainsubgroup` of external/ed25519.py -/
def checks : KeyChecks Pt := ⟨Ed25519Exec.isCanonical, Ed25519Exec.decodePoint, Ed25519Exec.isInMainSubgroup⟩

/-- marker returned when the model asks the cipher about arguments the harness did not anticipate -/
def miss : Bytes := "MISS".toUTF8.toList

/-- AES is not modelled: the cipher is the one-entry table the request carries (what the real AES answers for exactly the
    key/iv/data the model is expected to present). -/
structure GcmTable where
  key : Bytes
  iv : Bytes
  clear : Bytes      -- enc side
  ct : Bytes
  tag : Bytes
  answer : Except CipherError Bytes   -- dec side: answer for (key, iv, tag, ct)

def GcmTable.aead (t : GcmTable) : Aead where
  enc := fun k iv m => if k = t.key ∧ iv = t.iv ∧ m = t.clear then (t.ct, t.tag) else (miss, miss)
  dec := fun k iv tag ct => if k = t.key ∧ iv = t.iv ∧ tag = t.tag ∧ ct = t.ct then t.answer else .ok miss

structure CbcTable where
  key : Bytes
  iv : Bytes
  padded : Bytes
  ct : Bytes

def CbcTable.block (t : CbcTable) : BlockCipher where
  enc := fun k iv p => if k = t.key ∧ iv = t.iv ∧ p = t.padded then t.ct else miss
  dec := fun k iv c => if k = t.key ∧ iv = t.iv ∧ c = t.ct then t.padded else miss

def env (net : String) (A : Aead) : Option (Env Pt) :=
  match net with
  | "symbol" => some ⟨symbolS, checks, Hash.hkdfSha256, labelSymbol, A⟩
  | "nem" => some ⟨nemS, checks, Hash.hkdfSha256, labelNem, A⟩
  | _ => none

def noAead : Aead := ⟨fun _ _ _ => (miss, miss), fun _ _ _ _ => .ok miss⟩

def errOut : DeriveError → String
  | .notCanonical => "err notCanonical"
  | .notOnCurve => "err notOnCurve"
  | .notInMainSubgroup => "err notInMainSubgroup"

def answerArg (s : String) : Option (Except CipherError Bytes) :=
  if s = "invalidTag" then some (.error .invalidTag)
  else if s = "refused" then some (.error .refused)
  else if s.startsWith "ok:" then (hexArg (s.drop 3).toString).map .ok
  else none

def decodedOut : Option (Bool × Bytes) → String
  | none => "none"
  | some (ok, bs) => s!"ok {if ok then 1 else 0} {hexOut bs}"

def gcmTable (key iv clear ct tag answer : String) : Option GcmTable := do
  pure ⟨← hexArg key, ← hexArg iv, ← hexArg clear, ← hexArg ct, ← hexArg tag, ← answerArg answer⟩

def cbcTable (key iv padded ct : String) : Option CbcTable := do
  pure ⟨← hexArg key, ← hexArg iv, ← hexArg padded, ← hexArg ct⟩

def handle : Handler
  | "shared_key", [net, sk, pk] => do
    let E ← env net noAead; let k ← hexArg sk; let p ← hexArg pk
    pure (match E.sharedKey p k with
      | .ok key => "ok " ++ hexOut key
      | .error e => errOut e)
  | "shared_key_deprecated", [sk, pk, salt] => do
    let E ← env "nem" noAead; let k ← hexArg sk; let p ← hexArg pk; let s ← hexArg salt
    pure (match sharedKeyDeprecated E.scheme E.checks Hash.keccak_256 p k s with
      | .ok (some key) => "ok " ++ hexOut key
      | .ok none => "ok none"
      | .error e => errOut e)
  | "public_key", [net, sk] => do
    let E ← env net noAead; let k ← hexArg sk
    pure (hexOut (publicKey E.scheme k))
  -- encode: sk pk iv clear | enc table: key ct tag
  | "encode", [net, variant, sk, pk, iv, clear, tKey, tCt, tTag] => do
    let t ← gcmTable tKey iv clear tCt tTag "refused"
    let E ← env net t.aead
    let k ← hexArg sk; let p ← hexArg pk; let i ← hexArg iv; let m ← hexArg clear
    match net, variant with
    | "symbol", "current" => pure (optOut hexOut (encodeSymbol E k p i m))
    | "symbol", "deprecated" => pure (optOut hexOut (encodeSymbolDeprecated E k p i m))
    | "nem", "current" => pure (optOut hexOut (encodeNem E k p i m))
    | _, _ => none
  -- delegation: ephemeral sk, node pk, iv, remote sk, vrf sk | enc table: key ct tag
  | "encode_delegation", [eph, node, iv, remote, vrf, tKey, tCt, tTag] => do
    let r ← hexArg remote; let v ← hexArg vrf
    let t ← gcmTable tKey iv (hexOut (r ++ v)) tCt tTag "refused"
    let E ← env "symbol" t.aead
    pure (optOut hexOut (encodeDelegation E (← hexArg eph) (← hexArg node) (← hexArg iv) r v))
  | "encode_nem_deprecated", [sk, pk, salt, iv, clear, tKey, tCt] => do
    let m ← hexArg clear
    let t ← cbcTable tKey iv (hexOut (pkcs7Pad m)) tCt
    let E ← env "nem" noAead
    pure (optOut hexOut (encodeNemDeprecated E ⟨Hash.keccak_256, t.block⟩ (← hexArg sk) (← hexArg pk) (← hexArg salt) (← hexArg iv) m))
  -- try_decode: sk pk message | dec table: key iv tag ct answer
  | "try_decode", [variant, sk, pk, msg, tKey, tIv, tTag, tCt, tAnswer] => do
    let t ← gcmTable tKey tIv "-" tCt tTag tAnswer
    let E ← env "symbol" t.aead
    let k ← hexArg sk; let p ← hexArg pk; let m ← hexArg msg
    match variant with
    | "current" => pure (decodedOut (tryDecodeSymbol E k p m))
    | "deprecated" => pure (decodedOut (tryDecodeSymbolDeprecated E k p m))
    | _ => none
  | "try_decode_nem", [sk, pk, ty, msg, tKey, tIv, tTag, tCt, tAnswer, cKey, cIv, cCt, cPadded] => do
    let t ← gcmTable tKey tIv "-" tCt tTag tAnswer
    let c ← cbcTable cKey cIv cPadded cCt
    let E ← env "nem" t.aead
    pure (decodedOut (tryDecodeNem E ⟨Hash.keccak_256, c.block⟩ (← hexArg sk) (← hexArg pk) (← natArg ty) (← hexArg msg)))
  | "pkcs7_pad", [clear] => do pure (hexOut (pkcs7Pad (← hexArg clear)))
  | "pkcs7_unpad", [padded] => do pure (optOut hexOut (pkcs7Unpad (← hexArg padded)))
  | "hexlify", [bs] => do pure (hexOut (hexlify (← hexArg bs)))
  | "unhexlify_utf8", [bs] => do
    pure (match unhexlifyUtf8 (← hexArg bs) with
      | .ok r => "ok " ++ hexOut r
      | .caught => "caught"
      | .escapes => "escapes")
  | _, _ => none

end Driver.C14

def main : IO Unit := Driver.run Driver.C14.handle

/-
Driver for the descriptor model (C10).
  schema <id> <json>                         register a schema (IR JSON from translate/cats.py)
  config <id> <schema-id> <json>             register a factory configuration (rule lists, network, optional
                                             "overrides": [["module"|"sdk", Class, {"k":"identity"|"const"|"raise"|"list"|"int2str"|"wrap",…}],…])
  create <id> <autosort 0|1> <embedded 0|1> <descriptor-json>
        -> `ok <value-json> <enc>`   (enc = `ok:<hex>` | `err:<class>`: Codec.encode of the created value)
         | `err <class>`
  default <id> <Type>                        -> `ok <value-json>`   (state of `Type()`)
  attrs <id> <Type>                          -> `ok a,b,c`           (the properties of the class)
  classify <id> <Type> <key-hex>             -> member|readonly|unknown
  enc <id> <Type> <value-json>               -> as driver_c01
Descriptor wire format (no blanks anywhere: strings and keys travel as hex of their UTF-8):
  {"i":"123"} {"s":HEX} {"b":HEX} {"l":[..]} {"d":[[KEYHEX,v],..]} {"sdk":Class,"b":HEX} {"codec":Class,"v":VALUE} null
-/
import Driver.Util
import Driver.CodecWire
import SymbolVerif.Model.Sdk.Descriptor
import SymbolVerif.Model.Hash.Keccak
import SymbolVerif.Model.Hash.Ripemd160
open Lean SymbolVerif SymbolVerif.Codec SymbolVerif.Sdk SymbolVerif.Sdk.Descriptor Driver Driver.CodecWire

namespace Driver.C10

def transform (name : String) (b : Bytes) : Bytes :=
  if name == "ripemd_keccak_256" then Hash.ripemd160 (Hash.keccak_256 b) else b

def validUtf8 (b : Bytes) : Bool := (String.fromUTF8? (ByteArray.mk b.toArray)).isSome

def prims : Prims :=
  { sha3_256 := Hash.sha3_256, ripemd160 := Hash.ripemd160, transform := transform, validUtf8 := validUtf8 }

def hexStr (s : String) : Except String String :=
  match strArg (if s.isEmpty then "-" else s) with
  | some r => pure r
  | none => throw "bad hex string"

def hexBytes (s : String) : Except String Bytes :=
  match hexArg (if s.isEmpty then "-" else s) with
  | some r => pure r
  | none => throw "bad hex"

partial def parseDVal (j : Json) : Except String DVal :=
  match j with
  | .null => pure .none
  | .obj _ =>
    match j.getObjVal? "i" with
    | .ok i => do
      match (← i.getStr?).toInt? with
      | some n => pure (.int n)
      | none => throw "bad int"
    | .error _ =>
    match j.getObjVal? "s" with
    | .ok s => do pure (.str (← hexStr (← s.getStr?)))
    | .error _ =>
    match j.getObjVal? "sdk" with
    | .ok c => do pure (.sdk (← c.getStr?) (← hexBytes (← (← j.getObjVal? "b").getStr?)))
    | .error _ =>
    match j.getObjVal? "codec" with
    | .ok c => do pure (.codec (← c.getStr?) (← parseVal (← j.getObjVal? "v")))
    | .error _ =>
    match j.getObjVal? "b" with
    | .ok b => do pure (.bytes (← hexBytes (← b.getStr?)))
    | .error _ =>
    match j.getObjVal? "l" with
    | .ok l => do pure (.list (← (← l.getArr?).toList.mapM parseDVal))
    | .error _ =>
    match j.getObjVal? "d" with
    | .ok d => do
      let entries ← (← d.getArr?).toList.mapM fun e => do
        match (← e.getArr?).toList with
        | [k, v] => pure ((← hexStr (← k.getStr?)), (← parseDVal v))
        | _ => throw "dict entry"
      pure (.dict entries)
    | .error _ => throw "bad descriptor value"
  | _ => throw "bad descriptor value"

/-- the converters the harness can ask for (the model's theorems are about arbitrary functions) -/
def parseConv (S : Schema) (j : Json) : Except String Conv := do
  match (← (← j.getObjVal? "k").getStr?) with
  | "identity" => pure fun dv => .ok dv
  | "const" => do
    let v ← parseDVal (← j.getObjVal? "v")
    pure fun _ => .ok v
  | "raise" => pure fun _ => .error (.overrideRaised "raise")
  | "list" => pure fun dv => .ok (.list [dv])
  | "int2str" => pure fun dv => match dv with
    | .int i => .ok (.str (toString i))
    | other => .ok other
  | "wrap" => do
    -- `lambda v: ModuleClass(v)` for a named integer type: BaseValue's range check, TypeError for anything but an int
    let cls ← (← j.getObjVal? "cls").getStr?
    pure fun dv => match dv, S.find cls with
      | .int i, some (.int w sg) => if inRange w sg i then .ok (.codec cls (.int i)) else .error (.overrideRaised "range")
      | _, _ => .error (.overrideRaised "type")
  | other => throw s!"converter {other}"

def parseOverrides (S : Schema) (j : Json) : Except String (ClassRef → Option Conv) := do
  let entries ← (← j.getArr?).toList.mapM fun e => do
    match (← e.getArr?).toList with
    | [kind, name, spec] =>
      let n ← name.getStr?
      let c ← match (← kind.getStr?) with
        | "module" => pure (ClassRef.module n)
        | "sdk" => pure (ClassRef.sdk n)
        | other => throw s!"class kind {other}"
      pure (c, (← parseConv S spec))
    | _ => throw "override entry"
  pure fun c => (entries.find? (·.1 == c)).map (·.2)

def strList (j : Json) (n : String) : Except String (List String) := do
  (← (← j.getObjVal? n).getArr?).toList.mapM Json.getStr?

def parseConfig (S : Schema) (text : String) : Except String Config := do
  let j ← Json.parse text
  let pairs (n : String) : Except String (List (String × String)) := do
    (← (← j.getObjVal? n).getArr?).toList.mapM fun e => do
      match (← e.getArr?).toList with
      | [a, b] => pure ((← a.getStr?), (← b.getStr?))
      | _ => throw "pair"
  let sdkClasses ← (← (← j.getObjVal? "sdkClasses").getArr?).toList.mapM fun e => do
    match (← e.getArr?).toList with
    | [a, b] => pure ((← a.getStr?), (← b.getNat?))
    | _ => throw "sdk class"
  let kind ← match (← (← j.getObjVal? "addressKind").getStr?) with
    | "symbol" => pure symbolKind
    | "nem" => pure nemKind
    | s => throw s!"address kind {s}"
  pure {
    schema := S
    networkId := ← (← j.getObjVal? "networkId").getInt?
    txBase := ← (← j.getObjVal? "txBase").getStr?
    embBase := ← optStr (← j.getObjVal? "embBase")
    structRules := ← strList j "structRules"
    sdkMapping := ← pairs "sdkMapping"
    arrayRules := ← strList j "arrayRules"
    sdkClasses := sdkClasses
    addressClass := ← (← j.getObjVal? "addressClass").getStr?
    addressKind := kind
    addressTarget := ← (← j.getObjVal? "addressTarget").getStr?
    addressAsText := ← (← j.getObjVal? "addressAsText").getBool?
    idAutofill := ← (← j.getObjVal? "idAutofill").getBool?
    messageHack := ← (← j.getObjVal? "messageHack").getBool?
    flagsRejectNegative := (j.getObjVal? "flagsRejectNegative" >>= Json.getBool?).toOption.getD false
    overrides := ← (match j.getObjVal? "overrides" with
      | .ok ov => parseOverrides S ov
      | .error _ => pure fun _ => none) }

def showE (e : E) : String :=
  (reprStr e).replace " " "_" |>.replace "\n" "_"

def boolArg : String → Option Bool
  | "0" => some false
  | "1" => some true
  | _ => none

def structOf (S : Schema) (ty : String) : Option StructDef :=
  match S.find ty with
  | some (.struct d) => some d
  | _ => none

def handleReq (schemas : List (String × Schema)) (configs : List (String × Config)) (op : String) (args : List String) :
    Option String := do
  match op, args with
  | "create", [sid, autosort, embedded, dj] =>
    let cfg ← (configs.find? (·.1 == sid)).map (·.2)
    let a ← boolArg autosort
    let e ← boolArg embedded
    match Json.parse dj >>= parseDVal with
    | .ok (.dict kvs) =>
      match create prims cfg a e kvs with
      | .ok v =>
        let enc := match v with
          | .struct ty _ =>
            (match encode cfg.schema transform ty v with
             | .ok b => "ok:" ++ hexOut b
             | .error err => "err:" ++ reprStr err)
          | _ => "err:shape"
        some ("ok " ++ renderVal v ++ " " ++ enc)
      | .error err => some ("err " ++ showE err)
    | .ok _ => some "bad-descriptor not a dict"
    | .error err => some ("bad-descriptor " ++ err)
  | "default", [sid, ty] =>
    let S ← (schemas.find? (·.1 == sid)).map (·.2)
    some ("ok " ++ renderVal (defaultOf S ty))
  | "attrs", [sid, ty] =>
    let cfg ← (configs.find? (·.1 == sid)).map (·.2)
    let d ← structOf cfg.schema ty
    some ("ok " ++ ",".intercalate (propertyNames d))
  | "classify", [sid, ty, key] =>
    let cfg ← (configs.find? (·.1 == sid)).map (·.2)
    let d ← structOf cfg.schema ty
    let k ← strArg key
    some (match classify d k with
      | .member _ => "member"
      | .readOnly => "readonly"
      | .unknown => "unknown")
  | "enc", [sid, ty, vj] =>
    let S ← (schemas.find? (·.1 == sid)).map (·.2)
    match Json.parse vj >>= parseVal with
    | .ok v => some (match encode S transform ty v with
      | .ok b => "ok " ++ hexOut b
      | .error err => "err " ++ reprStr err)
    | .error e => some ("bad-value " ++ e)
  | _, _ => none

partial def loop (hin hout : IO.FS.Stream) (schemas : List (String × Schema)) (configs : List (String × Config)) : IO Unit := do
  let line ← hin.getLine
  if line.isEmpty then return ()
  let toks := (line.trimAscii.toString.splitOn " ").filter (· ≠ "")
  match toks with
  | ["ping"] => hout.putStrLn "pong"; hout.flush; loop hin hout schemas configs
  | ["schema", sid, json] =>
    match parseSchema json with
    | .ok S =>
      hout.putStrLn s!"ok {S.length}"; hout.flush
      loop hin hout ((sid, S) :: schemas.filter (·.1 != sid)) configs
    | .error e => hout.putStrLn ("bad-schema " ++ e); hout.flush; loop hin hout schemas configs
  | ["config", cid, sid, json] =>
    match (schemas.find? (·.1 == sid)).map (·.2) with
    | none => hout.putStrLn "bad-config unknown schema"; hout.flush; loop hin hout schemas configs
    | some S =>
      match parseConfig S json with
      | .ok cfg =>
        hout.putStrLn "ok"; hout.flush
        loop hin hout schemas ((cid, cfg) :: configs.filter (·.1 != cid))
      | .error e => hout.putStrLn ("bad-config " ++ e); hout.flush; loop hin hout schemas configs
  | op :: args =>
    hout.putStrLn ((handleReq schemas configs op args).getD "bad-request"); hout.flush
    loop hin hout schemas configs
  | [] => hout.putStrLn "bad-request"; hout.flush; loop hin hout schemas configs

end Driver.C10

def main : IO Unit := do
  Driver.C10.loop (← IO.getStdin) (← IO.getStdout) [] []

-- Root of the `SymbolVerif` library: the property theorem files (models and helper lemmas come with them).
import SymbolVerif.Properties.C13

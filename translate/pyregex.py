"""Parser for the subset of Python `re` syntax used by linters/cpp/validation.py, witness generation, and Lean rendering.

AST (tuples): ('lit', ch) ('any',) ('cls', negated, [items]) ('seq', [nodes]) ('alt', [nodes]) ('star', node) ('plus', node)
('opt', node) ('rep', node, low, high|None) ('bol',) ('eol',) ('wordb',) ('group', name|None, node) ('backref', name)
class items: ('ch', c) ('range', lo, hi) ('space',) ('nspace',) ('word',) ('nword',) ('digit',) ('ndigit',)
Lazy quantifiers are parsed and treated like greedy ones (the set of strings with a match is the same).
"""
import re

ESCAPE_CLASSES = {'s': ('space',), 'S': ('nspace',), 'w': ('word',), 'W': ('nword',), 'd': ('digit',), 'D': ('ndigit',)}
ESCAPE_CHARS = {'t': '\t', 'n': '\n', 'r': '\r', 'f': '\f', 'v': '\v', 'a': '\a', '0': '\0'}
QUANTIFIER_BRACES = re.compile(r'\{(\d*)(,(\d*))?\}')


class Unsupported(ValueError):
	pass


class _Parser:
	def __init__(self, source):
		self.source = source
		self.pos = 0
		self.groups = 0

	def peek(self):
		return self.source[self.pos] if self.pos < len(self.source) else None

	def take(self):
		char = self.source[self.pos]
		self.pos += 1
		return char

	def parse(self):
		node = self.alt()
		if self.pos != len(self.source):
			raise Unsupported(f'unbalanced ) at {self.pos} in {self.source!r}')
		return node

	def alt(self):
		branches = [self.seq()]
		while '|' == self.peek():
			self.take()
			branches.append(self.seq())
		return branches[0] if 1 == len(branches) else ('alt', branches)

	def seq(self):
		items = []
		while self.peek() is not None and self.peek() not in '|)':
			items.append(self.quantified())
		return items[0] if 1 == len(items) else ('seq', items)

	def quantified(self):
		node = self.atom()
		while True:
			char = self.peek()
			if char in ('*', '+', '?'):
				if node[0] in ('bol', 'eol', 'wordb'):
					raise Unsupported('quantified anchor')
				self.take()
				node = ({'*': 'star', '+': 'plus', '?': 'opt'}[char], node)
			elif '{' == char:
				match = QUANTIFIER_BRACES.match(self.source, self.pos)
				if not match or (not match.group(1) and not match.group(2)) or ('' == match.group(1) and match.group(2)):
					return node  # a literal brace follows
				self.pos = match.end()
				low = int(match.group(1))
				high = low if match.group(2) is None else (int(match.group(3)) if match.group(3) else None)
				node = ('rep', node, low, high)
			else:
				return node
			if '?' == self.peek():
				self.take()  # lazy: same language (only the capturing matcher looks at the marker)
				node = ('lazy', node)
			elif '+' == self.peek():
				raise Unsupported('possessive quantifier')

	def atom(self):
		char = self.take()
		if '(' == char:
			name = None
			if '?' == self.peek():
				self.take()
				kind = self.take()
				if ':' == kind:
					node = self.alt()
					self.expect(')')
					return node
				if 'P' == kind and '<' == self.peek():
					self.take()
					name = ''
					while '>' != self.peek():
						name += self.take()
					self.take()
				elif 'P' == kind and '=' == self.peek():
					self.take()
					name = ''
					while ')' != self.peek():
						name += self.take()
					self.take()
					return ('backref', name)
				else:
					raise Unsupported(f'group extension (?{kind}')
			self.groups += 1
			index = self.groups
			node = self.alt()
			self.expect(')')
			return ('group', name, node, index)
		if '[' == char:
			return self.char_class()
		if '.' == char:
			return ('any',)
		if '^' == char:
			return ('bol',)
		if '$' == char:
			return ('eol',)
		if '\\' == char:
			return self.escape(False)
		if char in '*+?':
			raise Unsupported('nothing to repeat')
		return ('lit', char)

	def expect(self, char):
		if self.peek() != char:
			raise Unsupported(f'expected {char} at {self.pos} in {self.source!r}')
		self.take()

	def escape(self, in_class):
		char = self.take()
		if char in ESCAPE_CLASSES:
			return ('cls', False, [ESCAPE_CLASSES[char]]) if not in_class else ESCAPE_CLASSES[char]
		if 'b' == char and not in_class:
			return ('wordb',)
		if 'b' == char:
			return ('ch', '\b')
		if char in ('B', 'A', 'Z') or char.isdigit() and '0' != char:
			raise Unsupported(f'escape \\{char}')
		if char in ESCAPE_CHARS:
			return ('ch', ESCAPE_CHARS[char]) if in_class else ('lit', ESCAPE_CHARS[char])
		if char.isalnum():
			raise Unsupported(f'escape \\{char}')
		return ('ch', char) if in_class else ('lit', char)

	def char_class(self):
		negated = False
		if '^' == self.peek():
			self.take()
			negated = True
		items = []
		first = True
		while True:
			char = self.take()
			if ']' == char and not first:
				break
			first = False
			if '\\' == char:
				item = self.escape(True)
			else:
				item = ('ch', char)
			if 'ch' == item[0] and '-' == self.peek() and self.pos + 1 < len(self.source) and ']' != self.source[self.pos + 1]:
				self.take()
				high = self.take()
				if '\\' == high:
					high_item = self.escape(True)
					if 'ch' != high_item[0]:
						raise Unsupported('class range to a class escape')
					high = high_item[1]
				item = ('range', item[1], high)
			items.append(item)
		return ('cls', negated, items)


def parse(source):
	return _Parser(source).parse()


# region facts about a pattern


def walk(node):
	yield node
	kind = node[0]
	if kind in ('seq', 'alt'):
		for child in node[1]:
			yield from walk(child)
	elif kind in ('star', 'plus', 'opt', 'rep', 'lazy'):
		yield from walk(node[1])
	elif 'group' == kind:
		yield from walk(node[2])


def features(node):
	kinds = {item[0] for item in walk(node)}
	return {'bol': 'bol' in kinds, 'eol': 'eol' in kinds, 'wordb': 'wordb' in kinds, 'backref': 'backref' in kinds}


# endregion

# region witnesses

CANDIDATES = 'aA0bZ9 _-:;,.!()[]{}<>=&*\t"\'/\\+#%~|^$?@\r\n'


def item_matches(item, char):
	kind = item[0]
	if 'ch' == kind:
		return char == item[1]
	if 'range' == kind:
		return item[1] <= char <= item[2]
	ascii_word = char.isascii() and (char.isalnum() or '_' == char)
	ascii_digit = char.isascii() and char.isdigit()
	return {
		'space': char.isspace(), 'nspace': not char.isspace(), 'word': ascii_word, 'nword': not ascii_word, 'digit': ascii_digit, 'ndigit': not ascii_digit
	}[kind]


def class_matches(node, char):
	return any(item_matches(item, char) for item in node[2]) != node[1]


def pick(node, avoid=''):
	own = ''.join(item[1] if 'ch' == item[0] else item[1] + item[2] if 'range' == item[0] else '' for item in node[2])
	for char in own + CANDIDATES:
		if char not in avoid and class_matches(node, char):
			return char
	raise Unsupported('no candidate character for class')


def witnesses(node, groups=None):
	"""A few short strings of the pattern's language (anchors and boundaries contribute the empty string), best first."""
	groups = {} if groups is None else groups
	kind = node[0]
	if 'lazy' == kind:
		return witnesses(node[1], groups)
	if 'lit' == kind:
		return [node[1]]
	if 'any' == kind:
		return ['x']
	if 'cls' == kind:
		first = pick(node)
		try:
			return [first, pick(node, first)]
		except Unsupported:
			return [first]
	if kind in ('bol', 'eol', 'wordb'):
		return ['']
	if 'seq' == kind:
		out = ['']
		for child in node[1]:
			options = witnesses(child, groups)
			out = [prefix + option for prefix in out[:2] for option in options[:2]][:4]
		return out
	if 'alt' == kind:
		out = []
		for child in node[1]:
			out.extend(witnesses(child, groups)[:1])
		return out
	if 'star' == kind:
		return ['', witnesses(node[1], groups)[0]]
	if 'opt' == kind:
		return ['', witnesses(node[1], groups)[0]]
	if 'plus' == kind:
		return witnesses(node[1], groups)[:2]
	if 'rep' == kind:
		return [witnesses(node[1], groups)[0] * max(node[2], 0)]
	if 'group' == kind:
		options = witnesses(node[2], groups)
		if node[1] is not None:
			groups[node[1]] = options[0]
			return options[:1]
		return options
	if 'backref' == kind:
		return [groups[node[1]]]
	raise Unsupported(kind)


def witness(source, node=None):
	"""A string the whole of which matches the pattern (checked with `re.fullmatch`)."""
	node = parse(source) if node is None else node
	compiled = re.compile(source)
	for option in witnesses(node):
		if compiled.fullmatch(option):
			return option
	raise Unsupported(f'no witness found for {source!r}')


# endregion

# region Lean rendering


def lean_char(char):
	if char in "'\\":
		return "'\\" + char + "'"
	if 32 <= ord(char) < 127:
		return f"'{char}'"
	return f'(Char.ofNat {ord(char)})'


def lean_chars(text):
	return '[' + ', '.join(lean_char(char) for char in text) + ']'


def lean_item(item):
	kind = item[0]
	if 'ch' == kind:
		return f'.ch {lean_char(item[1])}'
	if 'range' == kind:
		return f'.range {lean_char(item[1])} {lean_char(item[2])}'
	return '.' + kind


def lean_re(node):
	kind = node[0]
	if 'lazy' == kind:
		return lean_re(node[1])
	if 'lit' == kind:
		return f'.lit {lean_char(node[1])}'
	if 'any' == kind:
		return '.any'
	if 'cls' == kind:
		return f'.cls {"true" if node[1] else "false"} [{", ".join(lean_item(item) for item in node[2])}]'
	if kind in ('bol', 'eol', 'wordb'):
		return '.' + kind
	if kind in ('seq', 'alt'):
		children = node[1]
		if not children:
			return '.eps'
		text = f'({lean_re(children[-1])})'
		for child in reversed(children[:-1]):
			text = f'(.{kind} ({lean_re(child)}) {text})'
		return text[1:-1] if text.startswith('(') else text
	if 'star' == kind:
		return f'.star ({lean_re(node[1])})'
	if 'plus' == kind:
		return f'.seq ({lean_re(node[1])}) (.star ({lean_re(node[1])}))'
	if 'opt' == kind:
		return f'.alt ({lean_re(node[1])}) .eps'
	if 'rep' == kind:
		inner = lean_re(node[1])
		low, high = node[2], node[3]
		parts = [f'({inner})'] * low
		if high is None:
			parts.append(f'(.star ({inner}))')
		else:
			parts.extend([f'(.alt ({inner}) .eps)'] * (high - low))
		if not parts:
			return '.eps'
		text = parts[-1]
		for part in reversed(parts[:-1]):
			text = f'(.seq {part} {text})'
		return text[1:-1] if text.startswith('(') else text
	if 'group' == kind:
		return f'.group ({lean_re(node[2])})' if node[1] is not None else lean_re(node[2])
	if 'backref' == kind:
		return '.backref'
	raise Unsupported(kind)


def lean_cre(node, lazy=False):
	"""Lean term of type Capture.CRE: numbered groups, greedy / lazy repetition (`re`'s order of alternatives)."""
	kind = node[0]
	if 'lazy' == kind:
		return lean_cre(node[1], True)
	if 'lit' == kind:
		return f'.lit {lean_char(node[1])}'
	if 'any' == kind:
		return '.any'
	if 'cls' == kind:
		return f'.cls {"true" if node[1] else "false"} [{", ".join(lean_item(item) for item in node[2])}]'
	if kind in ('bol', 'eol', 'wordb'):
		return '.' + kind
	if kind in ('seq', 'alt'):
		children = node[1]
		if not children:
			return '.eps'
		text = f'({lean_cre(children[-1])})'
		for child in reversed(children[:-1]):
			text = f'(.{kind} ({lean_cre(child)}) {text})'
		return text[1:-1] if text.startswith('(') else text
	greedy = 'false' if lazy else 'true'
	if 'star' == kind:
		return f'.star {greedy} ({lean_cre(node[1])})'
	if 'plus' == kind:
		return f'.seq ({lean_cre(node[1])}) (.star {greedy} ({lean_cre(node[1])}))'

	def optional(inner):
		return f'.alt .eps ({inner})' if lazy else f'.alt ({inner}) .eps'

	if 'opt' == kind:
		return optional(lean_cre(node[1]))
	if 'rep' == kind:
		inner = lean_cre(node[1])
		low, high = node[2], node[3]
		parts = [f'({inner})'] * low
		if high is None:
			parts.append(f'(.star {greedy} ({inner}))')
		else:
			parts.extend([f'({optional(inner)})'] * (high - low))
		if not parts:
			return '.eps'
		text = parts[-1]
		for part in reversed(parts[:-1]):
			text = f'(.seq {part} {text})'
		return text[1:-1] if text.startswith('(') else text
	if 'group' == kind:
		return f'.group {node[3]} ({lean_cre(node[2])})'
	raise Unsupported(kind)


# endregion

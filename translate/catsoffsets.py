"""Minimal independent reader of CATS text: fixed-size prefix layouts of structs (field name -> (offset, size)).

Used by the C07/C14 translators to cross-check the header constants of the facades against the schemas. It understands
only what those structs use: `using X = uintN|binary_fixed(N)`, `enum X : uintN`, `[inline|abstract] struct`, fields
`name = Type`, `name = make_reserved(Type, v)`, `name = make_const(...)` (no storage), `name = sizeof(Type, x)`,
`inline Struct`, `name = inline Struct`; the walk stops at the first field whose size is not fixed (arrays, conditionals).
It does not call catparser.
"""
import os
import re


class Schema:
	def __init__(self):
		self.sizes = {}  # type name -> byte size
		self.structs = {}  # struct name -> list of field lines
		self.enums = {}  # enum name -> {member: value}

	def load(self, path, seen=None):
		seen = seen if seen is not None else set()
		path = os.path.normpath(path)
		if path in seen:
			return self
		seen.add(path)
		with open(path, 'rt', encoding='utf8') as infile:
			lines = infile.read().split('\n')
		current = None
		kind = None
		for raw in lines:
			line = raw.split('#')[0].rstrip()
			if not line.strip() or line.strip().startswith('@'):
				continue
			match = re.match(r'import "(.+)"', line)
			if match:
				# imports are relative to the schema root (the directory given first) or the file's directory
				for base in (os.path.dirname(path), self.root):
					candidate = os.path.join(base, match.group(1))
					if os.path.exists(candidate):
						self.load(candidate, seen)
						break
				continue
			if not line[0].isspace():
				current = None
				match = re.match(r'using (\w+) = (\w+)(?:\((\d+)\))?', line)
				if match:
					self.sizes[match.group(1)] = self.primitive_size(match.group(2), match.group(3))
					continue
				match = re.match(r'enum (\w+) : (\w+)', line)
				if match:
					current, kind = match.group(1), 'enum'
					self.sizes[current] = self.primitive_size(match.group(2), None)
					self.enums[current] = {}
					continue
				match = re.match(r'(?:inline |abstract )?struct (\w+)', line)
				if match:
					current, kind = match.group(1), 'struct'
					self.structs[current] = []
					continue
				continue
			if current is None:
				continue
			body = line.strip()
			if 'enum' == kind:
				match = re.match(r'(\w+) = (\w+)', body)
				if match:
					self.enums[current][match.group(1)] = int(match.group(2), 0)
			else:
				self.structs[current].append(body)
		return self

	root = ''

	@staticmethod
	def primitive_size(name, argument):
		match = re.fullmatch(r'u?int(\d+)', name)
		if match:
			return int(match.group(1)) // 8
		if 'binary_fixed' == name:
			return int(argument)
		raise ValueError(f'unsupported primitive {name}')

	def type_size(self, name):
		match = re.fullmatch(r'u?int(\d+)', name)
		if match:
			return int(match.group(1)) // 8
		if name in self.sizes:
			return self.sizes[name]
		return None

	def layout(self, struct_name, prefix=''):
		"""Ordered [(field name, offset, size)] of the fixed-size prefix of a struct; second value = True when complete."""
		fields = []
		offset = 0

		def walk(name, qualifier):
			nonlocal offset
			for body in self.structs[name]:
				match = re.fullmatch(r'inline (\w+)', body)
				if match:
					if not walk(match.group(1), qualifier):
						return False
					continue
				match = re.fullmatch(r'(\w+) = inline (\w+)', body)
				if match:
					if not walk(match.group(2), qualifier + match.group(1) + '.'):
						return False
					continue
				match = re.fullmatch(r'(\w+) = make_const\(.*\)', body)
				if match:
					continue
				match = re.fullmatch(r'(\w+) = (?:make_reserved|sizeof)\((\w+), .*\)', body)
				if not match:
					match = re.fullmatch(r'(\w+) = (\w+)', body)
				if not match:
					return False
				size = self.type_size(match.group(2))
				if size is None:
					return False
				fields.append((qualifier + match.group(1), offset, size))
				offset += size
			return True

		complete = walk(struct_name, prefix)
		return fields, complete


def load(root, *relative_paths):
	schema = Schema()
	schema.root = root
	for relative in relative_paths:
		schema.load(os.path.join(root, relative))
	return schema


def offsets(fields):
	return {name: (offset, size) for name, offset, size in fields}

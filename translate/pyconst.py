"""Reads constants out of /repo's Python sources with `ast` (no execution)."""
import ast
import operator

_BIN = {
	ast.LShift: operator.lshift, ast.RShift: operator.rshift, ast.BitOr: operator.or_, ast.BitAnd: operator.and_,
	ast.Add: operator.add, ast.Sub: operator.sub, ast.Mult: operator.mul, ast.FloorDiv: operator.floordiv, ast.Pow: operator.pow,
}


def const_eval(node, env=None):
	"""Evaluates a constant expression (ints, strings, lists/tuples, arithmetic, names bound in env)."""
	env = env or {}
	if isinstance(node, ast.Constant):
		return node.value
	if isinstance(node, ast.Name) and node.id in env:
		return env[node.id]
	if isinstance(node, ast.BinOp) and type(node.op) in _BIN:
		return _BIN[type(node.op)](const_eval(node.left, env), const_eval(node.right, env))
	if isinstance(node, ast.UnaryOp) and isinstance(node.op, ast.USub):
		return -const_eval(node.operand, env)
	if isinstance(node, (ast.List, ast.Tuple)):
		return [const_eval(item, env) for item in node.elts]
	if isinstance(node, ast.Dict):
		return {const_eval(key, env): const_eval(value, env) for key, value in zip(node.keys, node.values)}
	raise ValueError(f'not a constant expression: {ast.dump(node)[:120]}')


def parse(path):
	with open(path, 'rt', encoding='utf8') as infile:
		return ast.parse(infile.read(), path)


def module_constants(path):
	"""All module-level `NAME = <constant expression>` bindings, in order."""
	env = {}
	for node in parse(path).body:
		if isinstance(node, ast.Assign) and 1 == len(node.targets) and isinstance(node.targets[0], ast.Name):
			try:
				env[node.targets[0].id] = const_eval(node.value, env)
			except ValueError:
				pass
	return env


def class_constants(path, class_name):
	env = {}
	for node in parse(path).body:
		if isinstance(node, ast.ClassDef) and node.name == class_name:
			for item in node.body:
				if isinstance(item, ast.Assign) and 1 == len(item.targets) and isinstance(item.targets[0], ast.Name):
					try:
						env[item.targets[0].id] = const_eval(item.value, env)
					except ValueError:
						pass
	return env


def attribute_call_args(path, owner, attribute):
	"""Arguments of `owner.attribute = Callee(args...)` at module level (constant ones; others None)."""
	for node in parse(path).body:
		if isinstance(node, ast.Assign) and 1 == len(node.targets):
			target = node.targets[0]
			if isinstance(target, ast.Attribute) and isinstance(target.value, ast.Name) and target.value.id == owner and target.attr == attribute:
				if isinstance(node.value, ast.Call):
					result = []
					for arg in node.value.args:
						try:
							result.append(const_eval(arg))
						except ValueError:
							result.append(None)
					return result
	raise ValueError(f'{owner}.{attribute} not found in {path}')


def lean_nat_list(values):
	return '[' + ', '.join(str(value) for value in values) + ']'


def lean_string(text):
	out = []
	for ch in text:
		if ch in '"\\':
			out.append('\\' + ch)
		elif '\n' == ch:
			out.append('\\n')
		elif '\t' == ch:
			out.append('\\t')
		elif ord(ch) < 32 or ord(ch) > 126:
			out.append('\\u{%x}' % ord(ch))
		else:
			out.append(ch)
	return '"' + ''.join(out) + '"'

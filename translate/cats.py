"""Independent reader of CATS schema text -> codec IR (does not use catparser).

Reads `.cats` files (imports resolved depth first, each file once), expands named and unnamed inlines
the way the DSL document (catbuffer/parser/docs/cats_dsl.md) prescribes, and classifies every member
into the field kinds of lean/SymbolVerif/Model/Codec/Schema.lean. The result is emitted as JSON (for
the driver and the harness) and as a Lean term (for kernel-checked instance theorems).

Anything outside the dialect the shipped schemas use raises `Unsupported`.
"""
import json
import os
import re


class Unsupported(Exception):
	pass


INT_RE = re.compile(r'^(u?)int(8|16|32|64)$')
NAME = r'[A-Za-z_][A-Za-z0-9_]*'


def parse_number(text):
	return int(text, 16) if text.startswith('0x') else int(text)


def parse_scalar(text):
	text = text.strip()
	if re.fullmatch(r'0x[0-9A-F]+|\d+', text):
		return parse_number(text)
	return text


def builtin(text):
	match = INT_RE.match(text)
	if match:
		return {'k': 'int', 'w': int(match.group(2)) // 8, 'signed': '' == match.group(1)}
	match = re.fullmatch(r'binary_fixed\((\w+)\)', text)
	if match:
		return {'k': 'bytes', 'n': parse_number(match.group(1))}
	return None


# region reading


def read_files(root, include):
	"""Declarations of every file reachable from root (imports first, each file once)."""
	seen = []
	decls = []

	def visit(path):
		path = os.path.normpath(path)
		if path in seen:
			return
		seen.append(path)
		with open(path, 'rt', encoding='utf8') as infile:
			text = infile.read()
		lines = text.replace('\r\n', '\n').split('\n')
		for line in lines:
			match = re.fullmatch(r'import "([^"]+)"', line.strip())
			if match and not line.startswith(('\t', ' ')):
				visit(os.path.join(include, match.group(1)))
		decls.extend(parse_decls(lines))

	visit(root)
	return decls, seen


def split_args(text):
	return [part.strip() for part in text.split(',')]


def parse_attribute(line):
	match = re.fullmatch(rf'@({NAME})(?:\((.*)\))?', line)
	if not match:
		raise Unsupported(f'attribute: {line}')
	return (match.group(1), [] if match.group(2) is None else split_args(match.group(2)))


def parse_decls(lines):
	decls = []
	current = None
	attributes = []
	member_attributes = []
	for raw in lines:
		line = raw.rstrip()
		stripped = line.strip()
		if not stripped or stripped.startswith('#') or stripped.startswith('import '):
			continue
		indented = line[0] in '\t '
		if stripped.startswith('@'):
			(member_attributes if indented else attributes).append(parse_attribute(stripped))
			continue
		if not indented:
			match = re.fullmatch(rf'using ({NAME}) = (.+)', stripped)
			if match:
				current = None
				decls.append({'decl': 'alias', 'name': match.group(1), 'type': builtin(match.group(2))})
				continue
			match = re.fullmatch(rf'enum ({NAME}) : (\w+)', stripped)
			if match:
				current = {'decl': 'enum', 'name': match.group(1), 'base': builtin(match.group(2)), 'attributes': attributes, 'members': []}
				attributes = []
				decls.append(current)
				continue
			match = re.fullmatch(rf'(?:(abstract|inline) )?struct ({NAME})', stripped)
			if match:
				current = {'decl': 'struct', 'name': match.group(2), 'disposition': match.group(1), 'attributes': attributes, 'members': []}
				attributes = []
				decls.append(current)
				continue
			raise Unsupported(f'declaration: {stripped}')
		if current is None:
			raise Unsupported(f'member outside declaration: {stripped}')
		if 'enum' == current['decl']:
			match = re.fullmatch(rf'({NAME}) = (\w+)', stripped)
			current['members'].append((match.group(1), parse_number(match.group(2))))
			continue
		current['members'].append(parse_member(stripped, member_attributes))
		member_attributes = []
	return decls


def parse_member(text, attributes):
	match = re.fullmatch(rf'inline ({NAME})', text)
	if match:
		return {'m': 'inline', 'type': match.group(1)}
	match = re.fullmatch(rf'({NAME}) = (.+)', text)
	if not match:
		raise Unsupported(f'member: {text}')
	name, rhs = match.group(1), match.group(2)
	member = {'m': 'field', 'name': name, 'attributes': attributes, 'cond': None}
	cond = re.fullmatch(r'(.+?) if (\w+) (equals|not equals|in|not in) (\w+)', rhs)
	if cond:
		rhs = cond.group(1)
		member['cond'] = {'value': parse_scalar(cond.group(2)), 'op': cond.group(3), 'field': cond.group(4)}
	match = re.fullmatch(rf'inline ({NAME})', rhs)
	if match:
		member.update({'m': 'named_inline', 'type': match.group(1)})
		return member
	match = re.fullmatch(r'make_(const|reserved)\((\w+), (\w+)\)', rhs)
	if match:
		member.update({'disposition': match.group(1), 'type': match.group(2), 'value': parse_scalar(match.group(3))})
		return member
	match = re.fullmatch(r'sizeof\((\w+), (\w+)\)', rhs)
	if match:
		member.update({'disposition': 'sizeof', 'type': match.group(1), 'value': match.group(2)})
		return member
	match = re.fullmatch(r'array\((\w+), ?(\w+)\)', rhs)
	if match:
		member.update({'disposition': 'array', 'type': match.group(1), 'size': parse_scalar(match.group(2))})
		return member
	if not re.fullmatch(r'\w+(\(\w+\))?', rhs):
		raise Unsupported(f'member type: {rhs}')
	member.update({'disposition': None, 'type': rhs})
	return member


# endregion

# region expansion


def rename_member(member, prefix, names):
	"""A named inline copies the member with prefixed name and re-pointed references among the copied members."""
	copy = json.loads(json.dumps(member))
	copy['name'] = prefix if '__value__' == member['name'] else f'{prefix}_{member["name"]}'

	def repoint(name):
		return (prefix if '__value__' == name else f'{prefix}_{name}') if name in names else name

	if copy.get('cond'):
		copy['cond']['field'] = repoint(copy['cond']['field'])
	if 'array' == copy.get('disposition') and isinstance(copy['size'], str) and '__FILL__' != copy['size']:
		copy['size'] = repoint(copy['size'])
	if 'sizeof' == copy.get('disposition'):
		copy['value'] = repoint(copy['value'])
	copy['attributes'] = [
		(name, [repoint(values[0])] + values[1:]) if 'sizeref' == name else (name, values) for (name, values) in copy['attributes']
	]
	return copy


def expand(decls):
	structs = {decl['name']: decl for decl in decls if 'struct' == decl['decl']}
	expanded = {}

	def expand_struct(name, stack=()):
		if name in expanded:
			return expanded[name]
		if name in stack:
			raise Unsupported(f'inline cycle through {name}')
		decl = structs[name]
		members = []
		attributes = list(decl['attributes'])
		factory = None
		for member in decl['members']:
			if 'inline' == member['m']:
				template = expand_struct(member['type'], stack + (name,))
				members.extend(json.loads(json.dumps(template['members'])))
				attributes = attributes + [attribute for attribute in template['attributes'] if attribute not in attributes]
				if template['abstract']:
					factory = template['name']
				elif template['factory'] and factory is None:
					factory = template['factory']
			elif 'named_inline' == member['m']:
				template = expand_struct(member['type'], stack + (name,))
				names = {inner['name'] for inner in template['members']}
				for inner in template['members']:
					members.append(rename_member(inner, member['name'], names))
			else:
				members.append(member)
		expanded[name] = {
			'name': name, 'abstract': 'abstract' == decl['disposition'], 'inline': 'inline' == decl['disposition'],
			'members': members, 'attributes': attributes, 'factory': factory,
		}
		return expanded[name]

	for name in structs:
		expand_struct(name)
	return expanded


# endregion

# region classification


def attribute_values(attributes, name, multi=False):
	found = [values for (attribute_name, values) in attributes if attribute_name == name]
	if multi:
		return found
	return found[0] if found else None


def classify(decls):
	"""-> ordered list of (name, typedef dict) in IR form."""
	expanded = expand(decls)
	kinds = {}
	for decl in decls:
		if 'alias' == decl['decl']:
			kinds[decl['name']] = decl['type']['k']
		elif 'enum' == decl['decl']:
			kinds[decl['name']] = 'enum'
		else:
			kinds[decl['name']] = 'struct'
	enums = {decl['name']: dict(decl['members']) for decl in decls if 'enum' == decl['decl']}

	result = []
	for decl in decls:
		if 'alias' == decl['decl']:
			result.append((decl['name'], dict(decl['type'])))
		elif 'enum' == decl['decl']:
			bitwise = any('is_bitwise' == name for (name, _) in decl['attributes'])
			result.append((decl['name'], {
				'k': 'enum', 'w': decl['base']['w'], 'signed': decl['base']['signed'], 'bitwise': bitwise,
				'members': [[name, value] for (name, value) in decl['members']]}))
		else:
			struct = expanded[decl['name']]
			if struct['inline']:
				continue
			result.append((decl['name'], classify_struct(struct, expanded, kinds, enums)))
	return result


def classify_struct(struct, expanded, kinds, enums):
	# pylint: disable=too-many-locals,too-many-branches,too-many-statements
	members = [member for member in struct['members'] if 'const' != member.get('disposition')]
	consts = {member['name']: member for member in struct['members'] if 'const' == member.get('disposition')}
	by_name = {member['name']: member for member in members}
	size_attribute = attribute_values(struct['attributes'], 'size')
	size_member = size_attribute[0] if size_attribute else None

	# which member measures which
	counts = {}
	for member in members:
		if 'array' == member.get('disposition') and isinstance(member['size'], str) and '__FILL__' != member['size']:
			counts[member['size']] = member['name']
	sizeof_limits = {member['value']: member['name'] for member in members if 'sizeof' == member.get('disposition')}

	def value_of(type_name, raw):
		if isinstance(raw, int):
			return raw
		if type_name in enums:
			return enums[type_name][raw]
		raise Unsupported(f'value {raw} of {type_name}')

	fields = []
	for member in members:
		name = member['name']
		type_name = member['type']
		base = builtin(type_name)
		attributes = dict(member['attributes'])
		cond = None
		if member.get('cond'):
			raw = member['cond']
			cond_member = by_name[raw['field']]
			cond_type = cond_member['type']
			via_self = 'array' == member.get('disposition') or base is not None
			cond = {
				'field': raw['field'], 'op': {'equals': 'eq', 'not equals': 'ne', 'in': 'isIn', 'not in': 'notIn'}[raw['op']],
				'value': value_of(cond_type, raw['value']), 'viaSelf': via_self}
		disposition = member.get('disposition')
		if 'reserved' == disposition:
			if base is None or 'int' != base['k']:
				raise Unsupported(f'reserved member {name} of non-integer type')
			kind = {'k': 'reserved', 'w': base['w'], 'signed': base['signed'], 'value': member['value']}
		elif 'sizeof' == disposition:
			kind = {'k': 'sizeOf', 'w': base['w'], 'signed': base['signed'], 'target': member['value']}
		elif 'array' == disposition:
			element = builtin(type_name)
			if element is not None:
				if 'int' != element['k'] or 1 != element['w'] or not isinstance(member['size'], str) or '__FILL__' == member['size']:
					raise Unsupported(f'array {name} of builtin elements other than bytes sized by a member')
				kind = {'k': 'barray', 'sizeField': member['size']}
			else:
				alignment = attributes.get('alignment')
				align = parse_number(alignment[0]) if alignment else 0
				pad_last = True
				if alignment is not None and len(alignment) > 1:
					qualifier = alignment[1].split()
					pad_last = not ('not' == qualifier[0])
				abstract_elements = 'struct' == kinds.get(type_name) and expanded[type_name]['abstract']
				byte_constrained = 'is_byte_constrained' in attributes
				if '__FILL__' == member['size']:
					mode = {'m': 'fill'}
				elif byte_constrained:
					mode = {'m': 'sized', 'field': member['size']}
				elif isinstance(member['size'], str):
					mode = {'m': 'count', 'field': member['size']}
				else:
					raise Unsupported(f'array {name} with literal count')
				variable = (byte_constrained or abstract_elements) and 0 != align
				if (0 != align) != bool(variable) or (byte_constrained and not variable):
					raise Unsupported(f'array {name}: alignment/byte-constraint combination the generator does not handle')
				sort_key = attributes.get('sort_key')
				kind = {'k': 'array', 'elem': type_name, 'mode': mode, 'align': align, 'padLast': pad_last, 'sortKey': sort_key[0] if sort_key else None}
		elif base is not None and 'int' == base['k']:
			if name == size_member:
				kind = {'k': 'sizeF', 'w': base['w']}
			elif 'sizeref' in attributes:
				values = attributes['sizeref']
				kind = {'k': 'sizeRef', 'w': base['w'], 'signed': base['signed'], 'target': values[0], 'delta': parse_number(values[1]) if len(values) > 1 else 0}
			elif name in counts:
				target = by_name[counts[name]]
				target_is_bytes = builtin(target['type']) is not None
				byte_constrained = 'is_byte_constrained' in dict(target['attributes'])
				if byte_constrained and not name.endswith('_count') and not target_is_bytes:
					kind = {'k': 'byteSize', 'w': base['w'], 'signed': base['signed'], 'target': target['name']}
				else:
					absent = None
					if target.get('cond'):
						absent = value_of(type_name, target['cond']['value'])
					kind = {'k': 'count', 'w': base['w'], 'signed': base['signed'], 'target': target['name'], 'absent': absent}
			else:
				kind = {'k': 'int', 'w': base['w'], 'signed': base['signed']}
		elif base is not None:
			raise Unsupported(f'member {name} of builtin type {type_name}')
		else:
			if type_name not in kinds:
				raise Unsupported(f'member {name} of unknown type {type_name}')
			kind = {'k': 'ref', 'ty': type_name, 'limit': sizeof_limits.get(name)}
		fields.append({'name': name, 'kind': kind, 'cond': cond})

	discriminator = attribute_values(struct['attributes'], 'discriminator') or []
	initializers = dict((values[0], values[1]) for values in attribute_values(struct['attributes'], 'initializes', True))
	disc_values = []
	if struct['factory'] and not struct['abstract']:
		for disc_name in discriminator:
			const = consts.get(initializers.get(disc_name))
			if const is None:
				raise Unsupported(f'{struct["name"]}: discriminator {disc_name} has no initializing constant')
			disc_values.append(value_of(const['type'], const['value']))
	comparer = []
	for values in attribute_values(struct['attributes'], 'comparer', True):
		for value in values:
			parts = value.split('!')
			comparer.append([parts[0], parts[1] if len(parts) > 1 else None])

	inherited = 0
	if struct['factory'] and not struct['abstract']:
		base_names = {member['name'] for member in expanded[struct['factory']]['members'] if 'const' != member.get('disposition')}
		flags = [field['name'] in base_names for field in fields]
		inherited = sum(flags)
		if flags != [True] * inherited + [False] * (len(flags) - inherited):
			raise Unsupported(f'{struct["name"]}: inherited members are not a prefix of the layout')

	return {
		'k': 'struct', 'fields': fields, 'inherited': inherited, 'base': struct['factory'] if not struct['abstract'] else None,
		'abstract': struct['abstract'], 'disc': discriminator if struct['abstract'] else [], 'discValues': disc_values, 'comparer': comparer,
		'consts': [[name, const['type'], const['value']] for name, const in consts.items()],
		'initializers': [[key, value] for key, value in initializers.items()],
	}


# endregion

# region output


def load_schema(root, include):
	decls, files = read_files(root, include)
	return classify(decls), files


def to_json(schema):
	return json.dumps([[name, typedef] for name, typedef in schema], separators=(',', ':'))


def lean_string(text):
	return '"' + text + '"'


def lean_bool(value):
	return 'true' if value else 'false'


def lean_int(value):
	return f'({value})' if value < 0 else str(value)


def lean_option(value, render):
	return 'none' if value is None else f'(some {render(value)})'


def lean_cond(cond):
	if cond is None:
		return 'none'
	return f'(some {{ field := {lean_string(cond["field"])}, op := .{cond["op"]}, value := {lean_int(cond["value"])}, viaSelf := {lean_bool(cond["viaSelf"])} }})'


def lean_kind(kind):
	tag = kind['k']
	if 'int' == tag:
		return f'.int {kind["w"]} {lean_bool(kind["signed"])}'
	if 'reserved' == tag:
		return f'.reserved {kind["w"]} {lean_bool(kind["signed"])} {lean_int(kind["value"])}'
	if 'sizeF' == tag:
		return f'.sizeF {kind["w"]}'
	if 'count' == tag:
		return f'.count {kind["w"]} {lean_bool(kind["signed"])} {lean_string(kind["target"])} {lean_option(kind["absent"], lean_int)}'
	if tag in ('byteSize', 'sizeOf'):
		return f'.{tag} {kind["w"]} {lean_bool(kind["signed"])} {lean_string(kind["target"])}'
	if 'sizeRef' == tag:
		return f'.sizeRef {kind["w"]} {lean_bool(kind["signed"])} {lean_string(kind["target"])} {lean_int(kind["delta"])}'
	if 'ref' == tag:
		return f'.ref {lean_string(kind["ty"])} {lean_option(kind["limit"], lean_string)}'
	if 'barray' == tag:
		return f'.barray {lean_string(kind["sizeField"])}'
	if 'array' == tag:
		mode = kind['mode']
		mode_text = '.fill' if 'fill' == mode['m'] else f'(.{mode["m"]} {lean_string(mode["field"])})'
		return (
			f'.array {lean_string(kind["elem"])} {mode_text} {kind["align"]} {lean_bool(kind["padLast"])} '
			f'{lean_option(kind["sortKey"], lean_string)}')
	raise ValueError(tag)


def lean_typedef(typedef):
	tag = typedef['k']
	if 'int' == tag:
		return f'.int {typedef["w"]} {lean_bool(typedef["signed"])}'
	if 'bytes' == tag:
		return f'.bytes {typedef["n"]}'
	if 'enum' == tag:
		members = ', '.join(f'({lean_string(name)}, {lean_int(value)})' for name, value in typedef['members'])
		return f'.enum {typedef["w"]} {lean_bool(typedef["signed"])} {lean_bool(typedef["bitwise"])} [{members}]'
	fields = ',\n      '.join(
		f'{{ name := {lean_string(field["name"])}, kind := {lean_kind(field["kind"])}, cond := {lean_cond(field["cond"])} }}' for field in typedef['fields'])
	comparer = ', '.join(f'({lean_string(name)}, {lean_option(transform, lean_string)})' for name, transform in typedef['comparer'])
	consts = ', '.join(f'({lean_string(name)}, {lean_string(type_name)}, {lean_string(str(value))})' for name, type_name, value in typedef.get('consts', []))
	inits = ', '.join(f'({lean_string(key)}, {lean_string(value)})' for key, value in typedef.get('initializers', []))
	return (
		f'.struct {{\n    fields := [\n      {fields}],\n    inherited := {typedef["inherited"]}, base := {lean_option(typedef["base"], lean_string)}, '
		f'abstract := {lean_bool(typedef["abstract"])},\n    disc := [{", ".join(lean_string(name) for name in typedef["disc"])}], '
		f'discValues := [{", ".join(lean_int(value) for value in typedef["discValues"])}], comparer := [{comparer}],\n    '
		f'consts := [{consts}], inits := [{inits}] }}')


def to_lean(schema, namespace, definition):
	lines = [
		'/- generated from the CATS schema text by translate/cats.py; do not edit -/', 'import SymbolVerif.Model.Codec.Schema',
		f'namespace {namespace}', 'open SymbolVerif.Codec', '']
	names = []
	for index, (name, typedef) in enumerate(schema):
		names.append(f't{index}')
		lines.append(f'def t{index} : String × TypeDef := ({lean_string(name)}, {lean_typedef(typedef)})')
	lines.append('')
	lines.append(f'def {definition} : Schema := [{", ".join(names)}]')
	lines.append(f'end {namespace}')
	return '\n'.join(lines) + '\n'


# endregion

"""Values of names of the implementation, obtained by importing the module from the working tree in a fresh interpreter.

The translators that feed constants of /repo into `Generated/*.lean` use this rather than the shape of the source text: a
constant keeps its value when it is re-spelled (`1 << 63` / `0x8000000000000000`), computed from other constants, moved to
module level or renamed locally, and the tie to the model should not break on that. Only public, importable names are asked
for; each expression is evaluated in the namespace of the imported module.
"""
import json
import os
import subprocess

ROOT = os.path.dirname(os.path.dirname(os.path.abspath(__file__)))

_PROGRAM = r'''
import importlib, json, sys
module = importlib.import_module(sys.argv[1])
namespace = dict(vars(module))
namespace['module'] = module


def plain(value):
	if isinstance(value, (bytes, bytearray)):
		return {'hex': bytes(value).hex()}
	if isinstance(value, (list, tuple, set, frozenset)):
		items = [plain(item) for item in value]
		return sorted(items, key=json.dumps) if isinstance(value, (set, frozenset)) else items
	if isinstance(value, dict):
		return {str(key): plain(item) for key, item in value.items()}
	if isinstance(value, (bool, int, str)) or value is None:
		return value
	if hasattr(value, 'value') and isinstance(getattr(value, 'value'), int):
		return value.value
	if hasattr(value, 'pattern') and isinstance(value.pattern, str):
		return {'pattern': value.pattern, 'flags': int(value.flags)}
	return {'repr': repr(value)}


result = {}
for expression in sys.argv[2:]:
	try:
		result[expression] = {'ok': plain(eval(expression, namespace))}  # pylint: disable=eval-used
	except Exception as ex:  # pylint: disable=broad-except
		result[expression] = {'error': f'{type(ex).__name__}: {ex}'}
print(json.dumps(result))
'''


def values(repo, module, expressions, extra_paths=()):
	"""{expression: value} for expressions evaluated in the namespace of `module` imported from `repo` (ValueError when one fails)."""
	paths = [os.path.join(repo, 'sdk/python'), os.path.join(repo, 'catbuffer/parser'), os.path.join(repo, 'linters/cpp'), os.path.join(ROOT, 'shims')]
	env = dict(os.environ)
	env.update({'PYTHONPATH': os.pathsep.join(list(extra_paths) + paths), 'PYTHONDONTWRITEBYTECODE': '1', 'PYTHONHASHSEED': '0'})
	proc = subprocess.run(['/venv/bin/python', '-c', _PROGRAM, module] + list(expressions), env=env, capture_output=True, text=True, timeout=120, check=False)
	if 0 != proc.returncode:
		raise ValueError(f'cannot import {module} from {repo}: {proc.stderr.strip()[-400:]}')
	answers = json.loads(proc.stdout.strip().split('\n')[-1])
	failed = {expression: answer['error'] for expression, answer in answers.items() if 'error' in answer}
	if failed:
		raise ValueError(f'{module}: {failed}')
	return {expression: answer['ok'] for expression, answer in answers.items()}

"""C10 - a transaction built from a descriptor carries exactly the described values.

Correspondence: Model/Sdk/Descriptor.lean (`create`, then `Codec.encode`) over the IR regenerated from the CATS text and the
rule lists re-read from the two TransactionFactory.py, against `facade.transaction_factory.create / create_embedded`.
Direct evaluation on the implementation with an oracle that is independent of the model: every described member reads back as the
value the generator started from, every other member as in a fresh instance, network / type / version, serialize -> deserialize,
factory deserialize, canonical order, id definitions (hashlib), and rejection of the malformed stream.
"""
import hashlib
import json
import os

from . import c01, codec
from .common import LEAN, REPO, write_if_changed

RULE = (
	'for every transaction name of both networks (children of Transaction / EmbeddedTransaction in the schema IR; the lists must match the '
	'create_by_name tables) x entry point (create, create_embedded; nem has create only) x autosort on/off: descriptors generated from VERIF_SEED '
	'in which each member is absent or given in one of its accepted forms (int / object of the generated class for integers; hex or base32 str, '
	'bytes, SDK object for byte arrays; lower-case name, int, enum object for enums; space separated names, int, flag object for flags; dict for '
	'structs with a parser, objects otherwise; list for arrays of length 0-8 in random order; bytes or str for byte strings; conditional members '
	'present/absent), keys in random order; then one corruption per category of the malformed stream applied to such a descriptor; factories built '
	'with random type_rule_overrides tables (which converter is asked what, what the member holds, members of other types untouched); one '
	'descriptor object handed to the factories of two networks in both orders; the caller\'s descriptor compared before/after every call. distinct = '
	'distinct (network, entry point, autosort, descriptor); all non-trivial (each reaches the real factory).')
TRUSTED_BASE = [
	'Lean 4.33 kernel; axioms of the property theorems: subset of {propext, Classical.choice, Quot.sound}',
	'hand-written model SymbolVerif/Model/Sdk/Descriptor.lean on top of the codec interpreter Model/Codec/{Schema,Interp,Render}.lean, tied to '
	'the factories by this differential run',
	'translator translate/cats.py (CATS text -> IR) and the ast reader of _build_rules / type converters / network identifiers in harness/c10.py',
	'SHA3-256, RIPEMD-160, Keccak-256 and UTF-8 validity are parameters of the theorems; the driver instantiates them with '
	'Model/Hash/*.lean and String.fromUTF8? (compared with the implementation on every case)',
	'harness conversion between Python objects and wire values (harness/codec.py, state_wire in harness/c10.py)',
]
ASSUMPTIONS = [
	'type_rule_overrides are exercised by building TransactionFactory(network, table) directly with generated tables (identity, constant, raising, '
	'list-returning, int->str and class-wrapping converters keyed by module or SDK classes); the AccountDescriptorRepository that the facades '
	'use to produce such a table is out of scope',
	'a descriptor is a dict with str keys; array members are given as lists (str / dict / tuple / bytes iterate in Python and are not modelled)',
	'a list or dict whose len() equals the size of a byte-array pod is not generated (ByteArray.__init__ only checks len())',
	'members are compared by state (int value, bytes, member tree); the Python class of a byte-array object of the right size is not compared '
	'(the type converter stores sc.UnresolvedAddress in `address: Address` members and sc.PublicKey in VotingPublicKey members)',
	'a byte string whose emptiness decides its own presence (nem parent_name) is generated non-empty',
	'a member whose content create itself reads (the discriminant of a conditional member, the nem transfer message) is not given an ill-typed '
	'value (wrong shape); ill-typed values are truthy (a falsy one can switch a condition off in Python)',
	'overrides are tried with autosort off on types one of whose members is present or absent depending on a measured size (nem message, levy): '
	'sort() measures such members, Python raises when it measures an ill-typed value an override left behind, the codec model does not measure pods',
	'an override that returns a list for an array element is not generated; overrides that reach the sort key of a keyed array are tried with '
	'autosort off (Python orders whatever the override left as key, ints or strs; the codec model only orders well-typed keys)',
	'a member of abstract type (nem inner_transaction) is always described: its constructor default is an instance of the abstract class',
]

MASK63 = (1 << 63) - 1
RAW = {'s': '<raw>', 'f': []}


def raw_of(value):
	"""a member holding a value of the wrong class, as the model renders it (an int or a byte string keeps its content)"""
	if isinstance(value, int) and not isinstance(value, bool):
		return {'s': '<raw>', 'f': [['int', str(value)]]}
	if isinstance(value, (bytes, bytearray, memoryview)):
		return {'s': '<raw>', 'f': [['bytes', {'b': bytes(value).hex().upper()}]]}
	return RAW
# private-attribute, method-name and class-attribute keys were known findings (copy_to tested keys with hasattr alone) until the key test was
# repaired; they are plain members of the malformed stream now: accepted = VIOLATION
KNOWN = {
	'flag-int-negative': 'C10:flags-parser:negative-int-accepted-as-complement',
}
DEFERRED_OK = ('out-of-range-plain',)


# region translator: what the two factories register, recorded from the running code


_PROBE = r"""
import importlib, json, sys, types
from enum import Flag

chain = sys.argv[1]
rule_based = importlib.import_module('symbolchain.RuleBasedTransactionFactory')
factory_module = importlib.import_module(f'symbolchain.{chain}.TransactionFactory')
network_module = importlib.import_module(f'symbolchain.{chain}.Network')
crypto = importlib.import_module('symbolchain.CryptoTypes')
from symbolchain.ByteArray import ByteArray
Factory = rule_based.RuleBasedTransactionFactory

calls = []
constructed = []


def recorder(method_name):
	original = getattr(Factory, method_name)

	def wrapper(self, *args, **kwargs):
		entry = {'call': method_name, 'args': []}
		for arg in args:
			if isinstance(arg, type):
				entry['args'].append({
					'class': arg.__name__, 'module': arg.__module__,
					'size': getattr(arg, 'SIZE', None) if issubclass(arg, ByteArray) else None})
			else:
				entry['args'].append(arg if isinstance(arg, (str, int)) or arg is None else repr(arg))
		calls.append(entry)
		return original(self, *args, **kwargs)
	return wrapper


for name in dir(Factory):
	if name.startswith('add_') or 'autodetect' == name:
		setattr(Factory, name, recorder(name))

original_init = Factory.__init__


def init(self, module, type_converter=None, type_rule_overrides=None):
	constructed.append({'module': module, 'type_converter': type_converter})
	original_init(self, module, type_converter, type_rule_overrides)


Factory.__init__ = init

network = network_module.Network.TESTNET
factory = factory_module.TransactionFactory(network)
module = constructed[-1]['module']
custom = constructed[-1]['type_converter']

# the custom type converter: which SDK value classes it takes over, what it builds from them
sdk_classes = {cls.__name__: cls for cls in vars(crypto).values() if isinstance(cls, type) and issubclass(cls, ByteArray) and cls is not ByteArray}
sdk_classes[network_module.Address.__name__] = network_module.Address
recognised = []
for class_name, cls in sorted(sdk_classes.items()):
	raw = bytes((index * 7 + 3) % 256 for index in range(cls.SIZE))
	value = cls(raw)
	result = custom(value) if custom else None
	if result:
		recognised.append({
			'class': class_name, 'target': type(result).__name__, 'target_module': type(result).__module__,
			'as_text': bytes(result.bytes) != raw, 'text_ok': bytes(result.bytes) == str(value).encode('utf8')})

# which classes of a type_rule_overrides table end up as rules (the override path)
sentinels = {}
candidates = [cls for cls in vars(module).values() if isinstance(cls, type) and cls.__module__ == module.__name__] + list(sdk_classes.values())
for cls in candidates:
	sentinels[cls] = (lambda tag: (lambda value: ('override', tag)))(f'{"module" if cls.__module__ == module.__name__ else "sdk"}:{cls.__name__}')
del calls[:]
overridden = factory_module.TransactionFactory(network, sentinels)
consulted = {}
for rule_name, rule in overridden.factory.rules.items():
	try:
		outcome = rule(0)
	except Exception:  # pylint: disable=broad-except
		continue
	if isinstance(outcome, tuple) and 2 == len(outcome) and 'override' == outcome[0]:
		consulted[rule_name] = outcome[1]
	elif isinstance(outcome, list) and outcome and isinstance(outcome[0], tuple) and 'override' == outcome[0][0]:
		consulted[rule_name] = outcome[0][1]

# the flags parser and negative numbers (Python's Flag class alone takes -1 as "all declared bits")
class Probe(Flag):
	ONE = 1


probe_factory = Factory(types.SimpleNamespace(Probe=Probe))
probe_factory.add_flags_parser('Probe')
try:
	probe_factory.rules['Probe'](-1)
	rejects_negative = False
except ValueError:
	rejects_negative = True

# the first construction again, for the call list in registration order
del calls[:]
factory_module.TransactionFactory(network)
print(json.dumps({
	'calls': calls, 'module': module.__name__, 'recognised': recognised, 'consulted': consulted, 'rejects_negative': rejects_negative,
	'has_create_embedded': hasattr(factory, 'create_embedded'),
	'identifiers': {'mainnet': network_module.Network.MAINNET.identifier, 'testnet': network_module.Network.TESTNET.identifier}}))
"""

_PROBED = {}


def probe_factory(name):
	"""what constructing the real <chain>.TransactionFactory registers, recorded in a fresh interpreter (no reading of source text)"""
	import subprocess
	if (REPO, name) in _PROBED:
		return _PROBED[(REPO, name)]
	root = os.path.dirname(os.path.dirname(os.path.abspath(__file__)))
	env = dict(os.environ)
	env.update({
		'PYTHONPATH': os.pathsep.join([os.path.join(REPO, 'sdk/python'), os.path.join(root, 'shims')]),
		'PYTHONDONTWRITEBYTECODE': '1', 'PYTHONHASHSEED': '0'})
	proc = subprocess.run(['/venv/bin/python', '-c', _PROBE, name], env=env, capture_output=True, text=True, timeout=120, check=False)
	if 0 != proc.returncode:
		raise ValueError(f'cannot construct the {name} TransactionFactory of {REPO}: {proc.stderr.strip()[-500:]}')
	_PROBED[(REPO, name)] = json.loads(proc.stdout.strip().split('\n')[-1])
	return _PROBED[(REPO, name)]


def network_facts(name):
	"""Everything of Config except schema and networkId, as a JSON-able dict (single source for driver and Generated/C10Consts.lean)."""
	probed = probe_factory(name)
	structs, pods, arrays, sdk_classes = [], [], [], {}
	autodetect = False
	for entry in probed['calls']:
		call, args = entry['call'], entry['args']
		if 'autodetect' == call:
			autodetect = True
		elif 'add_struct_parser' == call:
			structs.append(args[0])
		elif 'add_array_parser' == call:
			arrays.append(args[0][len('struct:'):] if args[0].startswith('struct:') else args[0])
		elif 'add_pod_parser' == call:
			# a class of the generated module is what autodetect registers for every named integer type; the others are SDK value classes
			if args[1]['module'] != probed['module']:
				if args[1]['size'] is None:
					raise ValueError(f'{name}: add_pod_parser({args[0]!r}, {args[1]["class"]}) with a class that is neither of the module nor a byte array')
				pods = [pair for pair in pods if pair[0] != args[0]] + [[args[0], args[1]['class']]]
				sdk_classes[args[1]['class']] = args[1]['size']
		elif call not in ('add_enum_parser', 'add_flags_parser'):
			raise ValueError(f'{name}: registration {call} is unknown to the model')
	if not autodetect:
		raise ValueError(f'the {name} factory does not call autodetect')
	if 1 != len(probed['recognised']):
		raise ValueError(f'{name}: the custom type converter takes over {[entry["class"] for entry in probed["recognised"]]}, the model expects one class')
	converter = probed['recognised'][0]
	if converter['target_module'] != probed['module'] or (converter['as_text'] and not converter['text_ok']):
		raise ValueError(f'{name}: the custom type converter builds {converter}')
	return {
		'txBase': 'Transaction', 'embBase': 'EmbeddedTransaction' if probed['has_create_embedded'] else None,
		'structRules': structs, 'sdkMapping': pods, 'arrayRules': arrays,
		'sdkClasses': [[key, value] for key, value in sdk_classes.items()],
		'addressClass': converter['class'], 'addressKind': name, 'addressTarget': converter['target'], 'addressAsText': converter['as_text'],
		'idAutofill': 'symbol' == name, 'messageHack': 'nem' == name,
		'flagsRejectNegative': probed['rejects_negative'],
	}, probed['identifiers']


def lean_str(text):
	return '"' + text.replace('\\', '\\\\').replace('"', '\\"') + '"'


def lean_list(items, render=lean_str):
	return '[' + ', '.join(render(item) for item in items) + ']'


def translate(ctx):
	"""Generated/C10Consts.lean (+ the schema terms of C01): rule lists and constants of the anchored files, re-read on every run."""
	failures = list(c01.translate(ctx) or [])
	parts = [
		'/- generated by harness/c10.py from sdk/python/symbolchain/{symbol,nem}/{TransactionFactory,Network}.py, CryptoTypes.py and the schema IR; do not edit -/',
		'import SymbolVerif.Model.Sdk.Descriptor',
		'import SymbolVerif.Generated.SymbolSchema',
		'import SymbolVerif.Generated.NemSchema',
		'namespace SymbolVerif.Generated.C10',
		'open SymbolVerif.Sdk SymbolVerif.Sdk.Descriptor',
	]
	for name in ('symbol', 'nem'):
		try:
			facts, identifiers = network_facts(name)
			net = codec.Network(name)
		except Exception as ex:  # pylint: disable=broad-except
			failures.append(f'cannot read the {name} factory rules: {type(ex).__name__}: {ex}')
			continue
		pair = lambda item: f'({lean_str(item[0])}, {lean_str(item[1])})'  # noqa: E731 pylint: disable=unnecessary-lambda-assignment
		sized = lambda item: f'({lean_str(item[0])}, {item[1]})'  # noqa: E731 pylint: disable=unnecessary-lambda-assignment
		emb = f'some {lean_str(facts["embBase"])}' if facts['embBase'] else 'none'
		parts += [
			f'def {name}Config (networkId : Int) : Config where',
			f'  schema := SymbolVerif.Generated.{name.capitalize()}.schema',
			'  networkId := networkId',
			f'  txBase := {lean_str(facts["txBase"])}',
			f'  embBase := {emb}',
			f'  structRules := {lean_list(facts["structRules"])}',
			f'  sdkMapping := {lean_list(facts["sdkMapping"], pair)}',
			f'  arrayRules := {lean_list(facts["arrayRules"])}',
			f'  sdkClasses := {lean_list(facts["sdkClasses"], sized)}',
			f'  addressClass := {lean_str(facts["addressClass"])}',
			f'  addressKind := {name}Kind',
			f'  addressTarget := {lean_str(facts["addressTarget"])}',
			f'  addressAsText := {"true" if facts["addressAsText"] else "false"}',
			f'  idAutofill := {"true" if facts["idAutofill"] else "false"}',
			f'  messageHack := {"true" if facts["messageHack"] else "false"}',
			f'  flagsRejectNegative := {"true" if facts["flagsRejectNegative"] else "false"}',
			f'def {name}NetworkIdentifiers : List Int := [{", ".join(str(value) for value in identifiers.values())}]',
		]
	parts.append('end SymbolVerif.Generated.C10\n')
	write_if_changed(os.path.join(LEAN, 'SymbolVerif', 'Generated', 'C10Consts.lean'), '\n'.join(parts))
	return failures


# endregion

# region descriptor wire format


def w_int(value):
	return {'i': str(value)}


def w_str(text):
	return {'s': text.encode('utf8').hex().upper()}


def w_bytes(data):
	return {'b': bytes(data).hex().upper()}


def w_list(items):
	return {'l': list(items)}


def w_dict(pairs):
	return {'d': [[key.encode('utf8').hex().upper(), value] for key, value in pairs]}


def w_sdk(class_name, data):
	return {'sdk': class_name, 'b': bytes(data).hex().upper()}


def w_codec(class_name, value):
	return {'codec': class_name, 'v': value}


def dict_pairs(wire):
	return [(bytes.fromhex(key).decode('utf8'), value) for key, value in wire['d']]


def show(wire):
	"""Readable rendering of a descriptor (for messages and replay files)."""
	if wire is None:
		return 'None'
	if 'i' in wire:
		return wire['i']
	if 's' in wire:
		return repr(bytes.fromhex(wire['s']).decode('utf8'))
	if 'sdk' in wire:
		return f'{wire["sdk"]}({wire["b"]})'
	if 'codec' in wire:
		return f'<{wire["codec"]} object>'
	if 'b' in wire:
		return f'bytes.fromhex({wire["b"]!r})'
	if 'l' in wire:
		return '[' + ', '.join(show(item) for item in wire['l']) + ']'
	return '{' + ', '.join(f'{key!r}: {show(value)}' for key, value in dict_pairs(wire)) + '}'


# endregion


class Side:
	"""One network: IR, facade, configuration, generator and checks."""

	def __init__(self, ctx, name, network_name):
		from symbolchain import CryptoTypes
		self.ctx = ctx
		self.rng = ctx.rng
		self.name = name
		self.network_name = network_name
		self.net = codec.Network(name)
		if 'symbol' == name:
			from symbolchain.facade.SymbolFacade import SymbolFacade as Facade
			from symbolchain.symbol.Network import Address
		else:
			from symbolchain.facade.NemFacade import NemFacade as Facade
			from symbolchain.nem.Network import Address
		self.facade = Facade(network_name)
		self.factory_class = type(self.facade.transaction_factory)
		self.address_class = Address
		self.sdk = {key: getattr(CryptoTypes, key) for key in ('Hash256', 'PublicKey', 'Signature', 'PrivateKey', 'SharedKey256')}
		self.sdk['Address'] = Address
		self.facts, identifiers = network_facts(name)
		self.network_id = identifiers[network_name]
		self.cid = f'{name}-{network_name}'
		self.sdk_mapping = dict((key, value) for key, value in self.facts['sdkMapping'])
		self.values = codec.ValueGen(self.net, ctx.rng, transform=c01.python_transform)
		self.defaults = {}
		self.config = dict(self.facts, networkId=self.network_id)
		if ctx.driver:
			answer = ctx.driver.ask(f'schema {name} {self.net.json}')
			config = self.config
			answer2 = ctx.driver.ask(f'config {self.cid} {name} {codec.dumps(config)}')
			if not answer.startswith('ok') or 'ok' != answer2:
				ctx.fail('corr', f'driver rejected the {name} schema or configuration: {answer} / {answer2}', {'network': name})

	# region objects <-> wire

	def materialize(self, wire):
		"""Descriptor wire -> the Python value handed to the factory."""
		if wire is None:
			return None
		if 'i' in wire:
			return int(wire['i'])
		if 's' in wire:
			return bytes.fromhex(wire['s']).decode('utf8')
		if 'sdk' in wire:
			return self.sdk[wire['sdk']](bytes.fromhex(wire['b']))
		if 'codec' in wire:
			return self.net.to_obj(wire['codec'], wire['v'])
		if 'b' in wire:
			return bytes.fromhex(wire['b'])
		if 'l' in wire:
			return [self.materialize(item) for item in wire['l']]
		return {key: self.materialize(value) for key, value in dict_pairs(wire)}

	def state_wire(self, type_name, obj):
		"""Member state of an object of the generated module, tolerant of ill-typed members (RAW / <str> markers as in the model)."""
		members = []
		for field in self.net.carrying(type_name):
			value = getattr(obj, '_' + codec.fix_name(field['name']))
			members.append([field['name'], self.member_wire(field['kind'], value)])
		return {'s': type_name, 'f': members}

	def member_wire(self, kind, value):
		# pylint: disable=too-many-return-statements
		if value is None:
			return None
		if isinstance(value, str):
			return {'s': '<str>', 'f': [['utf8', {'b': value.encode('utf8').hex().upper()}]]}
		if 'int' == kind['k']:
			return str(value) if isinstance(value, int) and not isinstance(value, bool) else raw_of(value)
		if 'barray' == kind['k']:
			return {'b': bytes(value).hex().upper()} if isinstance(value, (bytes, bytearray, memoryview)) else raw_of(value)
		if 'array' == kind['k']:
			if not isinstance(value, list):
				return raw_of(value)
			return [self.type_wire(kind['elem'], item) for item in value]
		return self.type_wire(kind['ty'], value)

	def type_wire(self, type_name, value):
		# pylint: disable=too-many-return-statements
		if value is None:
			return None
		if isinstance(value, str):
			return {'s': '<str>', 'f': [['utf8', {'b': value.encode('utf8').hex().upper()}]]}
		typedef = self.net.types[type_name]
		class_name = type(value).__name__
		if type(value).__module__ != self.net.module.__name__ or class_name not in self.net.types:
			return raw_of(value)
		actual = self.net.types[class_name]
		if class_name != type_name:
			if 'bytes' == typedef['k'] and 'bytes' == actual['k'] and typedef['n'] == actual['n']:
				return {'b': bytes(value.bytes).hex().upper()}
			if 'struct' == typedef['k'] and typedef['abstract'] and 'struct' == actual['k'] and actual['base'] == type_name:
				return self.state_wire(class_name, value)
			return RAW
		if typedef['k'] in ('int', 'enum'):
			return str(value.value)
		if 'bytes' == typedef['k']:
			return {'b': bytes(value.bytes).hex().upper()}
		return self.state_wire(type_name, value)

	def default_wire(self, type_name):
		if type_name not in self.defaults:
			self.defaults[type_name] = self.state_wire(type_name, self.net.cls(type_name)())
		return self.defaults[type_name]

	# endregion

	# region generation of accepted forms: each returns (descriptor wire, expected member wire, form label)

	def sdk_address_payload(self, raw):
		if self.facts['addressAsText']:
			return str(self.address_class(raw)).encode('utf8')
		return raw

	def gen_type(self, type_name, str_ok=False):
		# pylint: disable=too-many-return-statements,too-many-branches,too-many-locals
		rng = self.rng
		typedef = self.net.types[type_name]
		kind = typedef['k']
		if 'int' == kind:
			value = rng.boundary_int(8 * typedef['w'], typedef['signed'])
			if rng.random() < 0.7:
				return w_int(value), str(value), 'pod:int'
			return w_codec(type_name, str(value)), str(value), 'pod:object'
		if 'bytes' == kind:
			sdk_class = self.sdk_mapping.get(type_name)
			if sdk_class is None:
				data = rng.bytes_(typedef['n'])
				if type_name in self.sdk and self.sdk[type_name].SIZE == typedef['n'] and rng.random() < 0.5:
					return w_sdk(type_name, data), {'b': data.hex().upper()}, 'bytes-without-parser:sdk-object'
				return w_codec(type_name, {'b': data.hex().upper()}), {'b': data.hex().upper()}, 'bytes-without-parser:object'
			if sdk_class == self.facts['addressClass']:
				raw = rng.bytes_(self.address_class.SIZE)
				expected = {'b': self.sdk_address_payload(raw).hex().upper()}
				form = rng.choice(['base32', 'bytes', 'sdk-object'])
				if 'base32' == form:
					return w_str(str(self.address_class(raw))), expected, 'address:base32'
				if 'bytes' == form:
					return w_bytes(raw), expected, 'address:bytes'
				return w_sdk(sdk_class, raw), expected, 'address:sdk-object'
			data = rng.bytes_(typedef['n'])
			expected = {'b': data.hex().upper()}
			form = rng.choice(['hex', 'hex-lower', 'bytes', 'sdk-object'])
			if 'hex' == form:
				return w_str(data.hex().upper()), expected, 'bytes:hex'
			if 'hex-lower' == form:
				text = ''.join(ch.lower() if rng.random() < 0.6 else ch for ch in data.hex().upper())
				return w_str(text), expected, 'bytes:hex-lower'
			if 'bytes' == form:
				return w_bytes(data), expected, 'bytes:bytes'
			return w_sdk(sdk_class, data), expected, 'bytes:sdk-object'
		if 'enum' == kind:
			members = typedef['members']
			if typedef['bitwise']:
				singles = [(name, value) for name, value in members if value > 0 and 0 == value & (value - 1)]
				chosen = [member for member in singles if rng.random() < 0.5]
				value = 0
				for _, bit in chosen:
					value |= bit
				form = rng.choice(['names', 'names', 'names-repeated', 'names-repeated', 'names-all', 'int', 'object'])
				if form.startswith('names'):
					# a flags string names a *set*: every order, every multiplicity and any number of `none` describe the same value
					if 'names-all' == form:
						chosen = list(singles)
						value = 0
						for _, bit in chosen:
							value |= bit
					names = [name.lower() for name, _ in chosen]
					if 'names' != form and names:
						names = [name for name in names for _ in range(rng.choice([1, 1, 2, 2, 3]))]
						if len(set(names)) == len(names):
							names.append(rng.choice(names))
					rng.shuffle(names)
					if not names or rng.random() < (0.15 if 'names' == form else 0.5):
						for _ in range(rng.choice([1, 1, 2])):
							names.insert(rng.randrange(len(names) + 1), 'none')
					return w_str(' '.join(names)), str(value), f'flags:{form}'
				if 'int' == form:
					return w_int(value), str(value), 'flags:int'
				return w_codec(type_name, str(value)), str(value), 'flags:object'
			canonical = {}
			for name, value in members:
				canonical.setdefault(value, name)
			value = rng.choice(sorted(canonical))
			form = rng.choice(['name', 'name', 'int', 'object'])
			if 'name' == form:
				return w_str(canonical[value].lower()), str(value), 'enum:name'
			if 'int' == form:
				return w_int(value), str(value), 'enum:int'
			return w_codec(type_name, str(value)), str(value), 'enum:object'
		if type_name in self.facts['structRules']:
			wire, expected = self.gen_struct(type_name, top=False, str_ok=str_ok)
			return wire, expected, 'struct:dict'
		value = self.values.value(type_name, depth=2)
		return w_codec(value['s'], value), value, 'struct:object'

	def gen_field(self, field, top, str_ok=False, full=False):
		# pylint: disable=too-many-return-statements
		rng = self.rng
		kind = field['kind']
		if 'int' == kind['k']:
			value = rng.boundary_int(8 * kind['w'], kind['signed'])
			return w_int(value), str(value), 'int'
		if 'barray' == kind['k']:
			via_self = bool(field['cond'] and field['cond']['viaSelf'])
			if (top or str_ok) and rng.random() < 0.5:
				text = ''.join(rng.choice(['a', 'Z', ' ', '0', '%', 'é', 'ß', '中', '€', '\U0001F600', '_']) for _ in range(rng.choice([1 if via_self else 0, 1, 3, 12, 40])))
				return w_str(text), {'b': text.encode('utf8').hex().upper()}, 'bytes-array:str'
			data = rng.bytes_(rng.choice([1 if via_self else 0, 1, 2, 16, 33, 200]))
			return w_bytes(data), {'b': data.hex().upper()}, 'bytes-array:bytes'
		if 'ref' == kind['k']:
			return self.gen_type(kind['ty'], str_ok=str_ok)
		length = rng.choice([3, 5, 8]) if full else rng.choice([0, 1, 1, 2, 2, 3, 5, 8])
		items = []
		expected = []
		seen = set()
		for _ in range(length):
			wire, value, _ = self.gen_type(kind['elem'])
			if kind['sortKey']:
				key = self.values.sort_key(kind['elem'], kind['sortKey'], value)
				if key in seen:
					continue
				seen.add(key)
			items.append(wire)
			expected.append(value)
		repeated = False
		if items and rng.random() < (0.08 if kind['sortKey'] else 0.3):
			# the same element again (a keyed array with a repeated key is created, and refused by serialize)
			for _ in range(rng.choice([1, 1, 2])):
				source = rng.randrange(len(items))
				position = rng.randrange(len(items) + 1)
				items.insert(position, items[source])
				expected.insert(position, expected[source])
			repeated = True
		label = 'array:' + ('empty' if not items else 'one' if 1 == len(items) else 'many') + (':keyed' if kind['sortKey'] else '') + (':repeated-elements' if repeated else '')
		return w_list(items), expected, label

	def is_abstract_ref(self, field):
		kind = field['kind']
		return 'ref' == kind['k'] and 'struct' == self.net.types[kind['ty']]['k'] and self.net.types[kind['ty']]['abstract']

	def gen_struct(self, type_name, top, str_ok=False, forms=None, full=False):
		"""A dict for struct `type_name`: (descriptor wire, expected member state). Top level: `type` is added by the caller."""
		# pylint: disable=too-many-locals,too-many-branches
		rng = self.rng
		typedef = self.net.types[type_name]
		fields = self.net.carrying(type_name)
		by_name = {field['name']: field for field in typedef['fields']}
		expected = dict((name, value) for name, value in self.default_wire(type_name)['f'])
		described = {}
		pairs = []

		def describe(field, force_str_ok=False):
			wire, value, form = self.gen_field(field, top, str_ok=force_str_ok or (str_ok and 'message' == field['name']), full=full)
			if top and 'symbol' == self.name and 'name' == field['name'] and 'NamespaceRegistration' in type_name and rng.random() < 0.9:
				# the name of a namespace is text (create decodes it to derive the id)
				text = ''.join(rng.choice('abcxyz019_-') if rng.random() < 0.9 else rng.choice(['é', 'Z', '中', ' ', '.']) for _ in range(rng.choice([0, 1, 3, 8, 20, 64])))
				wire, value = (w_str(text) if rng.random() < 0.5 else w_bytes(text.encode('utf8'))), {'b': text.encode('utf8').hex().upper()}
			pairs.append((codec.fix_name(field['name']), wire))
			expected[field['name']] = value
			described[field['name']] = form
			if forms is not None:
				forms.append(form)

		skip = {'type', 'version', 'network'} if top else {'type', 'version'}
		plain = [field for field in fields if field['cond'] is None and field['name'] not in skip]
		for field in plain:
			# a member of abstract type has no usable default (an instance of the abstract class): always described
			if full or rng.random() < 0.7 or self.is_abstract_ref(field):
				describe(field)
		for field in fields:
			cond = field['cond']
			if cond is None or field['name'] in skip:
				continue
			discriminant = by_name[cond['field']]
			if discriminant['kind']['k'] in codec.CARRYING:
				actual = int(expected[cond['field']])
				active = (cond['value'] == actual) if 'eq' == cond['op'] else (cond['value'] != actual)
				if active and (full or expected[field['name']] is None or rng.random() < 0.7):
					describe(field)
				elif not active and rng.random() < 0.3:
					# a stray value for the arm that is switched off (e.g. parent_id on a ROOT registration): it must not leak into
					# anything derived from the active members (ids, bytes)
					describe(field)
			elif full or rng.random() < 0.6:
				describe(field, force_str_ok=top and 'nem' == self.name and 'message' == field['name'] and type_name.startswith('TransferTransaction'))
		rng.shuffle(pairs)
		return w_dict(pairs), {'s': type_name, 'f': [[field['name'], expected[field['name']]] for field in fields]}

	# endregion

	# region oracles

	def sorted_expected(self, type_name, expected):
		"""Independent statement of autosort: keyed arrays ascending by the declared comparer (stable)."""
		result = []
		kinds = {field['name']: field['kind'] for field in self.net.carrying(type_name)}
		for name, value in expected['f']:
			kind = kinds[name]
			if 'array' == kind['k'] and kind['sortKey'] and isinstance(value, list):
				value = sorted(value, key=lambda element: self.values.sort_key(kind['elem'], kind['sortKey'], element))
			result.append([name, value])
		return {'s': expected['s'], 'f': result}

	def spec_namespace_id(self, name, parent):
		digest = hashlib.sha3_256(parent.to_bytes(8, 'little') + name).digest()
		return (int.from_bytes(digest[:8], 'little') & MASK63) | (1 << 63)

	def spec_mosaic_id(self, signer, nonce):
		part = hashlib.new('ripemd160', hashlib.sha3_256(signer).digest()).digest()
		version = bytes([self.network_id]) + part
		address = version + hashlib.sha3_256(version).digest()[:3]
		digest = hashlib.sha3_256(nonce.to_bytes(4, 'little') + address).digest()
		return int.from_bytes(digest[:8], 'little') & MASK63

	def expected_ids(self, type_name, expected):
		"""symbol: the id member of namespace registrations and mosaic definitions is a function of the other members."""
		members = dict((name, value) for name, value in expected['f'])
		enum = dict(self.net.types['TransactionType']['members']) if 'TransactionType' in self.net.types else {}
		if 'symbol' != self.name:
			return None
		if int(members['type']) == enum.get('NAMESPACE_REGISTRATION'):
			child = dict(self.net.types['NamespaceRegistrationType']['members'])['CHILD']
			parent = int(members['parent_id']) if int(members['registration_type']) == child else 0
			return str(self.spec_namespace_id(bytes.fromhex(members['name']['b']), parent))
		if int(members['type']) == enum.get('MOSAIC_DEFINITION'):
			return str(self.spec_mosaic_id(bytes.fromhex(members['signer_public_key']['b']), int(members['nonce'])))
		return None

	# endregion

	# region running one descriptor on both sides

	def transaction_names(self, embedded):
		base = self.facts['embBase'] if embedded else self.facts['txBase']
		return [(child, snake(child[len('Embedded'):] if embedded else child)) for child in self.net.children(base)]

	def fingerprint(self, value):
		"""structural identity of a descriptor value (to see whether create touched the caller's objects)"""
		# pylint: disable=too-many-return-statements
		from enum import Enum

		from symbolchain.BaseValue import BaseValue
		from symbolchain.ByteArray import ByteArray
		if isinstance(value, dict):
			return ('dict', [(key, self.fingerprint(item)) for key, item in value.items()])
		if isinstance(value, (list, tuple)):
			return (type(value).__name__, [self.fingerprint(item) for item in value])
		if value is None or isinstance(value, (int, str, bytes, bytearray, float)):
			return (type(value).__name__, bytes(value) if isinstance(value, bytearray) else value)
		if isinstance(value, ByteArray):
			return (type(value).__module__, type(value).__name__, bytes(value.bytes))
		if isinstance(value, BaseValue):
			return (type(value).__module__, type(value).__name__, value.value)
		if isinstance(value, Enum):
			return (type(value).__module__, type(value).__name__, value.value)
		if type(value).__module__ == self.net.module.__name__:
			return (type(value).__name__, [(name, self.fingerprint(item)) for name, item in vars(value).items()])
		return ('object', repr(value))

	def run_impl(self, entry, autosort, wire, descriptor=None, factory=None):
		"""-> ('ok', transaction) | ('err', exception class name); also checks that the caller's descriptor is left as it was"""
		if descriptor is None:
			descriptor = self.materialize(wire)
		factory = factory or self.facade.transaction_factory
		before = self.fingerprint(descriptor)
		try:
			function = factory.create_embedded if 'create_embedded' == entry else factory.create
			result = 'ok', codec.guarded(function, descriptor, autosort)
		except codec.Timeout:
			return 'timeout', None
		except Exception as ex:  # pylint: disable=broad-except
			result = 'err', f'{type(ex).__name__}: {ex}'
		after = self.fingerprint(descriptor)
		self.ctx.count('descriptor-unchanged-checks')
		if before != after:
			case = self.case_of(entry, autosort, wire, category='descriptor-mutated')
			self.ctx.fail(
				'property', f'{self.label(case)}: {entry} modifies the caller\'s descriptor: {first_difference_plain(before, after)}',
				dict(case, after=repr(after)[:2000]))
		return result

	def request(self, entry, autosort, wire):
		return f'create {self.cid} {1 if autosort else 0} {1 if "create_embedded" == entry else 0} {codec.dumps(wire)}'

	def serialize(self, transaction):
		try:
			return 'ok', bytes(codec.guarded(transaction.serialize))
		except codec.Timeout:
			return 'timeout', None
		except Exception as ex:  # pylint: disable=broad-except
			return 'err', f'{type(ex).__name__}: {ex}'

	def compare_with_model(self, case, answer, status, transaction, skip_bytes=False):
		"""model `create` (+ encode) against the implementation: accept/reject, member state, bytes"""
		ctx = self.ctx
		if answer is None or 'timeout' == status:
			return
		info = dict(case, model=answer[:600])
		if answer.startswith('err '):
			if 'ok' == status:
				self.corr_fail(f'{self.label(case)}: the implementation accepts a descriptor the model rejects ({answer})', info)
			return
		if not answer.startswith('ok '):
			self.corr_fail(f'{self.label(case)}: driver answer {answer[:200]}', info)
			return
		if 'ok' != status:
			self.corr_fail(f'{self.label(case)}: the model accepts a descriptor the implementation rejects ({transaction})', dict(info, implementation=transaction))
			return
		_, value_text, encoded = answer.split(' ')
		model_state = json.loads(value_text)
		impl_state = self.state_wire(type(transaction).__name__, transaction)
		if model_state != impl_state:
			self.corr_fail(f'{self.label(case)}: member state differs between model and implementation: {first_difference(model_state, impl_state)}', dict(
				info, implementation=impl_state))
			return
		if skip_bytes:
			return
		ser_status, data = self.serialize(transaction)
		if 'timeout' == ser_status:
			return
		if encoded.startswith('ok:'):
			expected = bytes.fromhex('' if '-' == encoded[3:] else encoded[3:])
			if 'ok' != ser_status or data != expected:
				self.corr_fail(f'{self.label(case)}: model encoding differs from serialize() ({ser_status})', dict(info, implementation=data.hex().upper() if data else data))
		elif 'ok' == ser_status:
			self.corr_fail(f'{self.label(case)}: serialize() succeeds where the model encoder fails ({encoded})', dict(info, implementation=data.hex().upper()))

	def corr_fail(self, what, case):
		"""a few correspondence failures are enough; the failure slots are kept for failures of the property itself"""
		if self.ctx.counters.get('fail:corr', 0) < 8:
			self.ctx.fail('corr', what, case)
		else:
			self.ctx.count('fail:corr')

	def label(self, case):
		return f'{case["network"]}/{case["network_name"]} {case["entry"]}(autosort={case["autosort"]}) {show(case["descriptor"])[:300]}'

	def case_of(self, entry, autosort, wire, **extra):
		return dict({'network': self.name, 'network_name': self.network_name, 'entry': entry, 'autosort': autosort, 'descriptor': wire}, **extra)

	# endregion

	# region the valid stream

	def gen_valid(self, type_name, friendly, embedded, full=False):
		"""-> (descriptor wire, expected state before sorting / id autofill, forms)"""
		rng = self.rng
		forms = []
		wire, expected = self.gen_struct(type_name, top=True, forms=forms, full=full)
		pairs = dict_pairs(wire)
		members = dict((name, value) for name, value in expected['f'])
		typedef = self.net.types[type_name]
		base = self.net.types[typedef['base']]
		constants = dict(zip(base['disc'], typedef['discValues']))
		members['type'] = str(constants['type'])
		members['version'] = str(constants['version'])
		members['network'] = str(self.network_id)
		pick = rng.random()
		if pick < 0.1:
			other = [value for value in self.net.types['NetworkType']['members'] if value[1] != self.network_id]
			pairs.append(('network', rng.choice([w_str(other[0][0].lower()), w_int(other[0][1]), w_str('no such network'), w_int(7), None])))
			forms.append('network:overridden')
		elif pick < 0.15:
			pairs.append(('network', w_int(self.network_id)))
		if rng.random() < 0.08:
			own = [name for name, value in self.net.types['TransactionType']['members'] if value == constants['type']][0]
			pairs.append(('type_', rng.choice([w_str(own.lower()), w_int(constants['type'])])))
			forms.append('type_:own-constant')
		if rng.random() < 0.08:
			pairs.append(('version', w_int(constants['version'])))
			forms.append('version:own-constant')
		rng.shuffle(pairs)
		pairs.insert(rng.randrange(len(pairs) + 1), ('type', w_str(friendly)))
		fields = self.net.carrying(type_name)
		return w_dict(pairs), {'s': type_name, 'f': [[field['name'], members[field['name']]] for field in fields]}, forms

	def check_valid(self, entry, autosort, type_name, wire, expected, forms, answer, descriptor=None):
		# pylint: disable=too-many-locals,too-many-branches,too-many-statements
		ctx = self.ctx
		case = self.case_of(entry, autosort, wire, type=type_name, expected=expected)
		ctx.case((self.cid, entry, autosort, codec.dumps(wire)), {'case': self.label(case), 'forms': forms} if ctx.rng.random() < 0.02 else None)
		for form in forms:
			ctx.count(f'form:{form}')
		ctx.count(f'valid:{self.name}:{entry}')
		status, transaction = self.run_impl(entry, autosort, wire, descriptor=descriptor)
		if 'timeout' == status:
			return
		described = {codec_unfix(key) for key, _ in dict_pairs(wire)}

		# direct evaluation of the property on the implementation
		if 'ok' != status:
			if self.legitimately_refused(type_name, expected):
				ctx.count('valid:refused-namespace-without-parent-or-text-name')
			else:
				ctx.fail('property', f'{self.label(case)}: a descriptor in accepted forms is refused ({transaction})', dict(case, implementation=transaction))
		else:
			want = self.sorted_expected(type_name, expected) if autosort else expected
			expected_id = self.expected_ids(type_name, want)
			if expected_id is not None:
				want = {'s': want['s'], 'f': [[name, expected_id if 'id' == name else value] for name, value in want['f']]}
			if type(transaction).__name__ != type_name:
				ctx.fail('property', f'{self.label(case)}: created a {type(transaction).__name__}, not a {type_name}', case)
			else:
				state = self.state_wire(type_name, transaction)
				for (name, have), (_, wanted) in zip(state['f'], want['f']):
					if have == wanted:
						continue
					if name in ('network', 'type', 'version'):
						what = f'member {name} is {have}, not the facade network / type constant {wanted}'
					elif 'id' == name and expected_id is not None:
						what = f'id is {have}, not the id defined by the other members ({wanted})'
					elif name in described:
						what = f'described member {name} reads back as {str(have)[:200]} instead of {str(wanted)[:200]}'
					else:
						what = f'member {name} that the descriptor does not mention is {str(have)[:200]} instead of its default {str(wanted)[:200]}'
					ctx.fail('property', f'{self.label(case)}: {what}', dict(case, member=name, have=have, want=wanted))
					break
				ser_status, data = self.serialize(transaction)
				if 'ok' == ser_status:
					ctx.count('valid:serialized')
					if len(data) != transaction.size:
						ctx.fail('property', f'{self.label(case)}: size {transaction.size} != {len(data)} bytes', case)
					self.check_decodes_back(case, entry, type_name, transaction, state, data)
				elif 'err' == ser_status:
					if self.has_repeated_key(type_name, expected):
						ctx.count('valid:repeated-key-refused-by-serialize')
					elif not autosort and self.has_unsorted(type_name, expected):
						ctx.count('valid:unsorted-refused-by-serialize')
					else:
						ctx.fail('property', f'{self.label(case)}: the created transaction does not serialize ({data})', dict(case, implementation=data))
		self.compare_with_model(case, answer, status, transaction)

	def legitimately_refused(self, type_name, expected):
		"""a child namespace registration needs its parent (the only member a valid descriptor cannot leave out)"""
		if 'symbol' != self.name or 'NamespaceRegistration' not in type_name:
			return False
		members = dict((name, value) for name, value in expected['f'])
		child = dict(self.net.types['NamespaceRegistrationType']['members'])['CHILD']
		try:
			bytes.fromhex(members['name']['b']).decode('utf8')
		except UnicodeDecodeError:
			return True
		return int(members['registration_type']) == child and members['parent_id'] is None

	def has_repeated_key(self, type_name, expected):
		"""a keyed array must be strictly ascending: two elements with one key cannot be serialized, sorted or not"""
		kinds = {field['name']: field['kind'] for field in self.net.carrying(type_name)}
		for name, value in expected['f']:
			kind = kinds[name]
			if 'array' == kind['k'] and kind['sortKey'] and isinstance(value, list):
				keys = [self.values.sort_key(kind['elem'], kind['sortKey'], element) for element in value]
				if len(set(keys)) != len(keys):
					return True
		return False

	def has_unsorted(self, type_name, expected):
		return self.sorted_expected(type_name, expected) != expected

	def active_state(self, type_name, state):
		"""member state without the arms of an implicit union that the discriminating member switches off (they are not encoded)"""
		members = dict((name, value) for name, value in state['f'])
		result = []
		for field in self.net.carrying(type_name):
			value = members[field['name']]
			cond = field['cond']
			if cond is not None and cond['field'] in members and isinstance(members[cond['field']], str):
				actual = int(members[cond['field']])
				active = (cond['value'] == actual) if 'eq' == cond['op'] else (cond['value'] != actual)
				if not active:
					value = None
			result.append([field['name'], value])
		return {'s': state['s'], 'f': result}

	def check_decodes_back(self, case, entry, type_name, transaction, state, data):
		ctx = self.ctx
		factory = self.facade.transaction_factory
		try:
			again = self.net.cls(type_name).deserialize(data)
			via_factory = (factory.deserialize_embedded if 'create_embedded' == entry else factory.deserialize)(data)
		except Exception as ex:  # pylint: disable=broad-except
			ctx.fail('property', f'{self.label(case)}: the encoding does not decode ({type(ex).__name__}: {ex})', dict(case, bytes=data.hex().upper()))
			return
		state = self.active_state(type_name, state)
		if self.active_state(type_name, self.state_wire(type_name, again)) != state:
			ctx.fail('property', f'{self.label(case)}: serialize -> deserialize changes the values: {first_difference(state, self.state_wire(type_name, again))}', dict(
				case, bytes=data.hex().upper()))
		if type(via_factory).__name__ != type_name or self.active_state(type_name, self.state_wire(type_name, via_factory)) != state:
			ctx.fail('property', f'{self.label(case)}: TransactionFactory.deserialize returns a {type(via_factory).__name__} / other values', dict(
				case, bytes=data.hex().upper()))
		if bytes(again.serialize()) != data:
			ctx.fail('property', f'{self.label(case)}: re-encoding the decoded transaction gives other bytes', dict(case, bytes=data.hex().upper()))
		_ = transaction

	# endregion

	# region the malformed stream

	def corruptions(self, type_name, wire):
		"""One corruption per applicable category: (category, corrupted descriptor wire, note)."""
		# pylint: disable=too-many-locals,too-many-branches,too-many-statements
		rng = self.rng
		pairs = dict_pairs(wire)
		fields = self.net.carrying(type_name)
		typedef = self.net.types[type_name]
		keys = [key for key, _ in pairs if key not in ('type', 'network', 'type_', 'version')]
		result = []

		def with_pair(key, value, replace=None):
			updated = [(k, v) for k, v in pairs if k != (replace if replace is not None else key)]
			updated.insert(rng.randrange(len(updated) + 1), (key, value))
			return w_dict(updated)

		def field_types(kind_name, predicate=lambda typedef_: True):
			found = []
			for field in fields:
				if field['name'] in ('type', 'network'):
					continue
				if 'ref' == field['kind']['k'] and self.net.types[field['kind']['ty']]['k'] == kind_name and predicate(self.net.types[field['kind']['ty']]):
					found.append(field)
			return found

		# unknown members
		if keys:
			key = rng.choice(keys)
			bad = rng.choice([key + 'x', key[:-1], key.upper(), key.replace('_', '-') if '_' in key else key + '_', key + '_', 'x' + key])
		else:
			key, bad = None, 'no_such_member'
		if rng.random() < 0.3:
			key, bad = None, rng.choice(['foo', 'Fee', 'signerPublicKey', 'mosaic', 'property', 'type ', ''])
		if bad not in [existing for existing, _ in pairs] and not hasattr(self.net.cls(type_name)(), bad) and not bad.endswith('_computed'):
			value = dict(pairs)[key] if key else w_int(1)
			result.append(('misspelt-key', with_pair(bad, value, replace=key), bad))

		# computed members
		computed = [field['name'] for field in typedef['fields'] if 'sizeRef' == field['kind']['k']]
		name = rng.choice(computed + [rng.choice(fields)['name'], 'size'])
		result.append(('computed-key', with_pair(name + '_computed', w_int(rng.choice([0, 1, 40]))), name + '_computed'))

		# keys that name something other than a public data member (private attributes, methods, class constants, dunder names)
		# members whose ill-typed content is *read* by create itself (conditions of sort(), the nem message hack) are left alone
		special = {entry['cond']['field'] for entry in typedef['fields'] if entry['cond']} | {'type', 'network'}
		if 'nem' == self.name and type_name.startswith('TransferTransaction'):
			special.add('message')
		field = rng.choice([entry for entry in fields if entry['name'] not in special])
		private = '_' + codec.fix_name(field['name'])
		if rng.random() < 0.5:
			raw, _, _ = self.gen_field(field, True)
		else:
			raw = rng.choice([w_int(5), w_bytes(b'\x01\x02'), w_str('text'), None])
		result.append(('private-key', with_pair(private, raw), private))
		reserved = [entry['name'] for entry in typedef['fields'] if 'reserved' == entry['kind']['k']]
		if reserved and rng.random() < 0.4:
			name = '_' + rng.choice(reserved)
			result.append(('reserved-key', with_pair(name, w_int(rng.choice([0, 5]))), name))
		method = rng.choice(['serialize', 'deserialize', 'to_json', 'sort', '_serialize', '_deserialize'])
		result.append(('method-key', with_pair(method, rng.choice([w_int(1), w_str('x'), w_dict([]), None])), method))
		attribute = rng.choice(['TYPE_HINTS', 'TRANSACTION_VERSION', 'TRANSACTION_TYPE', '__doc__', '__module__'])
		result.append(('class-attr-key', with_pair(attribute, rng.choice([w_dict([]), w_int(2), w_str('x')])), attribute))
		result.append(('readonly-key', with_pair('size', w_int(rng.choice([0, 200]))), 'size'))

		# type names
		friendly = bytes.fromhex(dict(pairs)['type']['s']).decode('utf8')
		bad_type = rng.choice([
			'x' + friendly, friendly + '1', friendly[:-1], friendly.upper(), type_name, 'embedded_' + friendly, friendly.replace('_v', '_V'), '',
			friendly.replace('_transaction', ''), ' ' + friendly])
		known_names = {name for _, name in self.transaction_names(False)} | ({name for _, name in self.transaction_names(True)} if self.facts['embBase'] else set())
		if bad_type not in known_names:
			result.append(('unknown-type', with_pair('type', w_str(bad_type)), bad_type))
		if rng.random() < 0.5:
			result.append(('unknown-type', with_pair('type', rng.choice([w_int(typedef['discValues'][0]), None, w_list([w_str(friendly)]), w_bytes(friendly.encode('utf8'))])), 'not a str'))
		result.append(('missing-type', w_dict([(k, v) for k, v in pairs if 'type' != k]), 'no type key'))

		# enum and flag names
		enums = field_types('enum', lambda typedef_: not typedef_['bitwise'])
		if enums:
			field = rng.choice(enums)
			members = self.net.types[field['kind']['ty']]['members']
			good = rng.choice(members)[0].lower()
			lowered = [member[0].lower() for member in members]
			candidates = [good.upper(), good.capitalize(), good + 'x', good[:-1], good[:3], '', ' ' + good, good + ' ', 'none', good + ' ' + good]
			bad = rng.choice([candidate for candidate in candidates if candidate not in lowered])
			result.append(('unknown-enum-name', with_pair(codec.fix_name(field['name']), w_str(bad)), f'{field["name"]}={bad!r}'))
			values = [value for _, value in members]
			bad_value = rng.choice([value for value in [max(values) + 1, -1, min(values) - 1, 1 << 40, 77] if value not in values])
			result.append(('enum-int-not-member', with_pair(codec.fix_name(field['name']), w_int(bad_value)), f'{field["name"]}={bad_value}'))
		flags = field_types('enum', lambda typedef_: typedef_['bitwise'])
		if flags:
			field = rng.choice(flags)
			flag_type = self.net.types[field['kind']['ty']]
			names = [member[0].lower() for member in flag_type['members'] if member[1] > 0]
			good = rng.choice(names)
			other = rng.choice(names)
			candidates = [
				f'{good} foo', f'{good}  {other}', good.upper(), f'{good} ', f' {good}', '', f'{good},{other}', f'{good} {other}x', good[:-1], f'{good} NONE',
				f'{good} {good.upper()}', f'{good} {good.capitalize()}', f'{good}\t{other}', f'{good} {good}  {good}', f'{good}\n']
			bad = rng.choice(candidates)
			result.append(('unknown-flag-name', with_pair(codec.fix_name(field['name']), w_str(bad)), f'{field["name"]}={bad!r}'))
			mask = 0
			for _, value in flag_type['members']:
				mask |= value
			extra = [bit for bit in (1 << index for index in range(8 * flag_type['w'])) if not bit & mask]
			bad_value = rng.choice(([mask | rng.choice(extra)] if extra else []) + [1 << (8 * flag_type['w']), (1 << (8 * flag_type['w'])) + 1])
			result.append(('flag-int-out-of-range', with_pair(codec.fix_name(field['name']), w_int(bad_value)), f'{field["name"]}={bad_value}'))
			negative = rng.choice([-1, -2, -(mask + 1), -3])
			result.append(('flag-int-negative', with_pair(codec.fix_name(field['name']), w_int(negative)), f'{field["name"]}={negative}'))

		# numbers out of range
		pods = field_types('int')
		if pods:
			field = rng.choice(pods)
			pod = self.net.types[field['kind']['ty']]
			bits = 8 * pod['w']
			bad_value = rng.choice([1 << bits, (1 << bits) + 5, -1, -(1 << bits), 1 << (bits + 8)] if not pod['signed'] else [1 << (bits - 1), -(1 << (bits - 1)) - 1, 1 << bits])
			result.append(('out-of-range-pod', with_pair(codec.fix_name(field['name']), w_int(bad_value)), f'{field["name"]}={bad_value}'))
		plain = [entry for entry in fields if 'int' == entry['kind']['k']]
		if plain:
			field = rng.choice(plain)
			bits = 8 * field['kind']['w']
			if field['kind']['signed']:
				bad_value = rng.choice([1 << (bits - 1), -(1 << (bits - 1)) - 1, 1 << bits])
			else:
				bad_value = rng.choice([1 << bits, (1 << bits) + 44, -1, 300 if 8 == bits else 1 << (bits + 3)])
			result.append(('out-of-range-plain', with_pair(codec.fix_name(field['name']), w_int(bad_value)), f'{field["name"]}={bad_value}'))

		# byte strings of the wrong length
		ruled = [entry for entry in field_types('bytes') if entry['kind']['ty'] in self.sdk_mapping]
		if ruled:
			field = rng.choice(ruled)
			size = self.net.types[field['kind']['ty']]['n']
			sdk_class = self.sdk_mapping[field['kind']['ty']]
			if sdk_class == self.facts['addressClass']:
				size = self.address_class.SIZE
				text = str(self.address_class(rng.bytes_(size)))
				bad = rng.choice([
					w_str(text[:-1]), w_str(text + 'A'), w_str(text.lower()), w_str(text[:-1] + '1'), w_str(text[:-1] + '='), w_bytes(rng.bytes_(size - 1)),
					w_bytes(rng.bytes_(size + 1)), w_str(rng.bytes_(size).hex().upper()), w_str('')])
			else:
				data = rng.bytes_(size)
				bad = rng.choice([
					w_str(data.hex().upper()[:-2]), w_str(data.hex().upper() + '00'), w_str(data.hex().upper()[:-1]), w_str('G' + data.hex().upper()[1:]),
					w_str(data.hex().upper()[:-1] + ' '), w_bytes(data[:-1]), w_bytes(data + b'\x00'), w_bytes(b''), w_str('')])
			result.append(('wrong-length-bytes', with_pair(codec.fix_name(field['name']), bad), f'{field["name"]}={show(bad)[:60]}'))
			others = [name for name in ('Hash256', 'PublicKey', 'Signature', 'Address') if name != sdk_class]
			other = rng.choice(others)
			other_size = self.address_class.SIZE if 'Address' == other else self.sdk[other].SIZE
			result.append(('sdk-object-of-another-class', with_pair(codec.fix_name(field['name']), w_sdk(other, rng.bytes_(other_size))), f'{field["name"]}={other}(...)'))

		# values of the wrong shape
		field = rng.choice([entry for entry in fields if entry['name'] not in special])
		kind = field['kind']
		if 'array' == kind['k']:
			bad = rng.choice([w_int(3), None, w_codec('Amount', '5') if 'Amount' in self.net.types else w_int(1)])
		elif 'ref' == kind['k'] and 'struct' == self.net.types[kind['ty']]['k']:
			bad = rng.choice([w_int(3), w_str('text'), w_list([]), None]) if kind['ty'] in self.facts['structRules'] else w_list([])
		else:
			bad = rng.choice([w_list([]), w_list([w_int(1)]), w_dict([('a', w_int(1))]), None])
		result.append(('wrong-shape', with_pair(codec.fix_name(field['name']), bad), f'{field["name"]}={show(bad)[:40]}'))

		# inside nested dictionaries
		nested = [(key, value) for key, value in pairs if value is not None and ('d' in value or ('l' in value and value['l'] and value['l'][0] is not None and 'd' in value['l'][0]))]
		if nested:
			key, value = rng.choice(nested)
			inner = value if 'd' in value else value['l'][0]
			inner_pairs = dict_pairs(inner)
			choice = rng.random()
			if inner_pairs and choice < 0.4:
				position = rng.randrange(len(inner_pairs))
				inner_key = inner_pairs[position][0]
				inner_pairs[position] = (rng.choice([inner_key + 'x', inner_key.upper(), inner_key[:-1] or 'q']), inner_pairs[position][1])
				category = 'nested-misspelt-key'
			elif choice < 0.6:
				inner_pairs.append((rng.choice(['type', 'foo', 'network_'] ), w_int(1)))
				category = 'nested-misspelt-key'
			elif choice < 0.8:
				inner_pairs.append((rng.choice(['size_computed', 'levy_size_computed', 'amount_computed']), w_int(1)))
				category = 'nested-computed-key'
			else:
				inner_pairs.append((rng.choice(['serialize', 'to_json', 'deserialize']), w_int(1)))
				category = 'method-key'
			updated = w_dict(inner_pairs)
			replaced = updated if 'd' in value else w_list([updated] + value['l'][1:])
			result.append((category, with_pair(key, replaced), f'inside {key}'))
		return result

	def check_malformed(self, entry, autosort, type_name, category, wire, note, answer):
		ctx = self.ctx
		case = self.case_of(entry, autosort, wire, type=type_name, category=category, note=note)
		ctx.case((self.cid, entry, autosort, codec.dumps(wire)), {'case': self.label(case), 'category': category} if ctx.rng.random() < 0.01 else None)
		status, transaction = self.run_impl(entry, autosort, wire)
		if 'timeout' == status:
			return
		verdict = 'rejected'
		if 'ok' == status:
			ser_status, data = self.serialize(transaction)
			verdict = 'deferred' if 'err' == ser_status and category in DEFERRED_OK else 'accepted'
			if 'accepted' == verdict and category not in ('wrong-shape', 'sdk-object-of-another-class'):
				outcome = f'serialize() then fails with {data}' if 'err' == ser_status else 'and the transaction serializes'
				signature = KNOWN.get(category)
				if signature is not None and ctx.counters.get(f'known-finding:{signature}'):
					ctx.count(f'known-finding:{signature}')  # one report per signature; the 50 failure slots are for anything else
				else:
					if signature is not None:
						ctx.count(f'known-finding:{signature}')
					ctx.fail(
						'property', f'{self.label(case)}: malformed descriptor ({category}: {note}) is not rejected by {entry}; {outcome}',
						dict(case, serialize=ser_status), signature=signature)
		ctx.count(f'malformed:{category}:{verdict}')
		self.compare_with_model(case, answer, status, transaction)

	# endregion

	# region type-rule overrides

	def override_class(self, type_name):
		"""the class whose entry in type_rule_overrides replaces the parser of members of this type (independent statement of add_pod_parser)"""
		typedef = self.net.types[type_name]
		if 'int' == typedef['k']:
			return ('module', type_name)
		if 'bytes' == typedef['k'] and type_name in self.sdk_mapping:
			return ('sdk', self.sdk_mapping[type_name])
		return None

	def slot_calls(self, type_name, value, table):
		"""the override invocations converting `value` (descriptor wire) for a member or element of type `type_name` must make, in order"""
		key = self.override_class(type_name)
		if key in table:
			return [(key, value)]
		typedef = self.net.types[type_name]
		if 'struct' == typedef['k'] and type_name in self.facts['structRules'] and value is not None and 'd' in value:
			return self.descriptor_calls(type_name, dict_pairs(value), table, top=False)
		return []

	def descriptor_calls(self, type_name, pairs, table, top=True):
		fields = {codec.fix_name(field['name']): field for field in self.net.carrying(type_name)}
		calls = []
		for key, value in pairs:
			if top and 'type' == key:
				continue
			kind = fields[key]['kind']
			if 'ref' == kind['k']:
				calls += self.slot_calls(kind['ty'], value, table)
			elif 'array' == kind['k'] and kind['elem'] in self.facts['arrayRules'] and value is not None and 'l' in value:
				for item in value['l']:
					calls += self.slot_calls(kind['elem'], item, table)
		return calls

	def used_types(self, type_name, seen=None):
		"""types of members, array elements and members of nested dictionaries of a transaction type"""
		seen = seen if seen is not None else []
		for field in self.net.carrying(type_name):
			kind = field['kind']
			target = kind.get('ty') or kind.get('elem')
			if target and target not in seen:
				seen.append(target)
				if 'struct' == self.net.types[target]['k'] and target in self.facts['structRules']:
					self.used_types(target, seen)
		return seen

	def gen_override_table(self, type_name):
		"""-> list of ((kind, class name), spec); consulted classes used by the type, plus classes no rule consults"""
		rng = self.rng
		used = self.used_types(type_name)
		consulted = sorted({self.override_class(name) for name in used if self.override_class(name)})
		ignored = [('module', name) for name in used if self.net.types[name]['k'] in ('enum', 'struct')]
		ignored += [('module', name) for name in used if 'bytes' == self.net.types[name]['k']] + [('sdk', 'Signature'), ('sdk', 'PrivateKey')]
		chosen = rng.sample(consulted, min(len(consulted), rng.choice([1, 1, 2, 3]))) if consulted else []
		if ignored and rng.random() < 0.6:
			chosen.append(rng.choice(ignored))
		table = []
		for key in chosen:
			if key in [entry[0] for entry in table]:
				continue
			kind, name = key
			options = ['identity', 'const', 'const', 'raise', 'list', 'int2str']
			if 'module' == kind and name in self.net.types and 'int' == self.net.types[name]['k']:
				options += ['wrap', 'wrap']
			choice = rng.choice(options)
			spec = {'k': choice}
			if 'wrap' == choice:
				spec['cls'] = name
			if 'const' == choice:
				values = [w_int(654321), w_str('fake value'), w_bytes(b'\x01\x02'), None]
				if 'module' == kind and name in self.net.types and 'int' == self.net.types[name]['k']:
					typedef = self.net.types[name]
					values += [w_codec(name, str(rng.boundary_int(8 * typedef['w'], typedef['signed'])))] * 3
				if 'sdk' == kind and name in self.sdk:
					size = self.address_class.SIZE if 'Address' == name else self.sdk[name].SIZE
					values += [w_sdk(name, rng.bytes_(size))] * 3
				spec['v'] = rng.choice(values)
			table.append((key, spec))
		return table

	def make_converter(self, key, spec, log):
		constant = self.materialize(spec['v']) if 'const' == spec['k'] else None
		module_class = getattr(self.net.module, spec['cls']) if 'wrap' == spec['k'] else None

		def converter(value):
			log.append((key, value))
			if 'identity' == spec['k']:
				return value
			if 'const' == spec['k']:
				return constant
			if 'raise' == spec['k']:
				raise ValueError('this override refuses every value')
			if 'list' == spec['k']:
				return [value]
			if 'int2str' == spec['k']:
				return str(value) if isinstance(value, int) and not isinstance(value, bool) else value
			return module_class(value)
		return converter

	def check_overrides(self, entry, autosort, type_name, friendly, sequence):
		"""one factory built with a random type_rule_overrides table, one descriptor: who is asked to convert what, and what comes out"""
		# pylint: disable=too-many-locals,too-many-branches
		ctx = self.ctx
		embedded = 'create_embedded' == entry
		if autosort and any(
			'sizeRef' == field['kind']['k'] for name in [type_name] + self.used_types(type_name) if 'struct' == self.net.types[name]['k']
			for field in self.net.types[name]['fields']):
			autosort = False  # see ASSUMPTIONS: sort() measures such structs, and measuring an ill-typed member raises in Python only
		wire, expected, forms = self.gen_valid(type_name, friendly, embedded, full=ctx.rng.random() < 0.5)
		table = self.gen_override_table(type_name)
		keys = [key for key, _ in table]
		for field in self.net.carrying(type_name):
			if autosort and 'array' == field['kind']['k'] and field['kind']['sortKey']:
				inside = [field['kind']['elem']] + self.used_types(field['kind']['elem'])
				if any(self.override_class(name) in keys for name in inside):
					autosort = False  # see ASSUMPTIONS: Python can order ill-typed keys (equal ints, strs), the codec model has no order for them
		log = []
		overrides = {}
		for key, spec in table:
			kind, name = key
			cls = getattr(self.net.module, name, None) if 'module' == kind else self.sdk.get(name)
			if cls is not None:
				overrides[cls] = self.make_converter(key, spec, log)
		factory = self.factory_class(self.facade.network, overrides)
		case = self.case_of(entry, autosort, wire, type=type_name, overrides=[[key[0], key[1], spec] for key, spec in table])
		ctx.case((self.cid, 'overrides', entry, autosort, codec.dumps(wire), codec.dumps(case['overrides'])), None)
		ctx.count(f'overrides:{self.name}')
		for _, spec in table:
			ctx.count(f'override-kind:{spec["k"]}')

		answer = None
		if ctx.driver:
			config = dict(self.config, overrides=case['overrides'])
			cid = f'{self.cid}#ov{sequence}'
			registered, answer = ctx.driver.ask_many([
				f'config {cid} {self.name} {codec.dumps(config)}',
				f'create {cid} {1 if autosort else 0} {1 if embedded else 0} {codec.dumps(wire)}'])
			if 'ok' != registered:
				self.corr_fail(f'driver rejected an override table: {registered}', case)
				answer = None

		status, transaction = self.run_impl(entry, autosort, wire, factory=factory)
		if 'timeout' == status:
			return

		# who was asked: exactly the described values of the overridden types, in descriptor order, each as the caller wrote it
		consulted = {self.override_class(name) for name in self.net.types if self.override_class(name)}
		wanted = self.descriptor_calls(type_name, dict_pairs(wire), [key for key in keys if key in consulted])
		seen = [(key, self.fingerprint(value)) for key, value in log]
		wanted_prints = [(key, self.fingerprint(self.materialize(value))) for key, value in wanted]
		if 'ok' == status and seen != wanted_prints or seen != wanted_prints[:len(seen)]:
			ctx.fail('property', f'{self.label(case)} with overrides {case["overrides"]}: the overrides were asked to convert {len(seen)} values '
				f'{[key for key, _ in seen][:12]}, the descriptor holds {len(wanted_prints)} values of the overridden types {[key for key, _ in wanted_prints][:12]} '
				f'(or they were not handed the values as written)', case)
		if any(key not in consulted for key, _ in log):
			ctx.fail('property', f'{self.label(case)}: an override for a class that has no pod parser was invoked', case)

		# members no override can reach read back as without overrides
		affected = set()
		fields = {codec.fix_name(field['name']): field for field in self.net.carrying(type_name)}
		for key, value in dict_pairs(wire):
			if 'type' != key and self.descriptor_calls(type_name, [(key, value)], keys):
				affected.add(fields[key]['name'])
		if 'ok' != status:
			if not wanted and not self.legitimately_refused(type_name, expected):
				ctx.fail('property', f'{self.label(case)}: refused although no described value is of an overridden type ({transaction})', case)
			ctx.count('overrides:refused')
		elif type(transaction).__name__ == type_name:
			want = self.sorted_expected(type_name, expected) if autosort else expected
			expected_id = self.expected_ids(type_name, want) if not affected else None
			state = self.state_wire(type_name, transaction)
			for (name, have), (_, wanted_value) in zip(state['f'], want['f']):
				if name in affected or ('id' == name and (affected or expected_id is not None)):
					if 'id' == name and not affected and have != expected_id:
						ctx.fail('property', f'{self.label(case)}: id is {have}, not {expected_id}', case)
					continue
				if have != wanted_value:
					ctx.fail('property', f'{self.label(case)} with overrides {case["overrides"]}: member {name}, which no override can reach, is '
						f'{str(have)[:150]} instead of {str(wanted_value)[:150]}', dict(case, member=name))
					break
			# an override that returns an object of the member's own class: the member holds that object
			for key, value in dict_pairs(wire):
				if 'type' == key or 'ref' != fields[key]['kind']['k']:
					continue
				slot_type = fields[key]['kind']['ty']
				spec = dict(table).get(self.override_class(slot_type))
				if spec and 'const' == spec['k'] and spec['v'] is not None and spec['v'].get('codec') == slot_type:
					have = dict((name, item) for name, item in state['f'])[fields[key]['name']]
					if have != spec['v']['v'] and fields[key]['name'] != 'id':
						ctx.fail('property', f'{self.label(case)}: member {key} is {have}, the override returns {spec["v"]["v"]}', case)
			ctx.count('overrides:accepted')
		self.compare_with_model(case, answer, status, transaction)

	def check_one_descriptor_two_networks(self, other, entry, autosort, type_name, friendly):
		"""the same descriptor object handed to the factories of two networks, in both orders: each transaction carries its own factory's network"""
		ctx = self.ctx
		embedded = 'create_embedded' == entry
		wire, expected, forms = self.gen_valid(type_name, friendly, embedded, full=ctx.rng.random() < 0.3)
		for order in ((self, other), (other, self)):
			descriptor = self.materialize(wire)
			for side in order:
				own = {'s': expected['s'], 'f': [[name, str(side.network_id) if 'network' == name else value] for name, value in expected['f']]}
				answer = ctx.driver.ask(side.request(entry, autosort, wire)) if ctx.driver else None
				ctx.count('one-descriptor-two-networks')
				side.check_valid(entry, autosort, type_name, wire, own, forms, answer, descriptor=descriptor)

	# endregion

	def check_reflection(self):
		"""names the model takes for properties (the keys copy_to lets through) and constructor defaults, against the generated classes"""
		ctx = self.ctx
		if not ctx.driver:
			return
		names = self.reachable_structs()
		lines = []
		for name in names:
			lines += [f'attrs {self.cid} {name}', f'default {self.name} {name}']
		answers = ctx.driver.ask_many(lines)
		for index, name in enumerate(names):
			instance = self.net.cls(name)()
			model_attrs = set(answers[2 * index][3:].split(',')) if answers[2 * index].startswith('ok ') else None
			properties = {attribute for attribute in dir(type(instance)) if isinstance(getattr(type(instance), attribute, None), property)}
			if model_attrs != properties:
				ctx.fail('corr', f'{self.name}.{name}: the property names of the model differ from the properties of the class', {
					'network': self.name, 'type': name, 'only_model': sorted((model_attrs or set()) - properties),
					'only_implementation': sorted(properties - (model_attrs or set()))})
			public_instance = {attribute for attribute in vars(instance) if not attribute.startswith('_')}
			if public_instance:
				ctx.fail('corr', f'{self.name}.{name}: the class has public instance attributes the model does not know: {sorted(public_instance)}', {
					'network': self.name, 'type': name})
			try:
				state = self.state_wire(name, instance)
			except RecursionError:
				continue
			if not answers[2 * index + 1].startswith('ok ') or json.loads(answers[2 * index + 1][3:]) != state:
				ctx.fail('corr', f'{self.name}.{name}: constructor defaults of the model differ from {name}()', {
					'network': self.name, 'type': name, 'model': answers[2 * index + 1][:500], 'implementation': state})
			ctx.count('reflection:classes')

	def reachable_structs(self):
		"""struct classes a transaction can hold (the classes whose constructor defaults and attribute names matter here)"""
		pending = [child for base in (self.facts['txBase'], self.facts['embBase']) if base for child in self.net.children(base)]
		seen = []
		while pending:
			name = pending.pop()
			if name in seen or 'struct' != self.net.types[name]['k']:
				continue
			seen.append(name)
			if self.net.types[name]['abstract']:
				pending += self.net.children(name)
			for field in self.net.types[name]['fields']:
				target = field['kind'].get('ty') or field['kind'].get('elem')
				if target:
					pending.append(target)
		return sorted(seen)

	def check_tables(self):
		"""the model resolves a friendly name exactly when create_by_name does, to the same class; and a type_rule_overrides table is consulted
		for exactly the classes the model says (named integer types by their module class, mapped byte arrays by their SDK class)"""
		ctx = self.ctx
		consulted = probe_factory(self.name)['consulted']
		for type_name in self.net.order:
			key = self.override_class(type_name)
			wanted = f'{key[0]}:{key[1]}' if key else None
			if consulted.get(type_name) != wanted:
				ctx.fail('corr', f'{self.name}: a factory built with an override for every class uses {consulted.get(type_name)} for {type_name}, the model {wanted}', {
					'network': self.name, 'type': type_name})
		for embedded in (False, True):
			base = self.facts['embBase'] if embedded else self.facts['txBase']
			if base is None:
				continue
			factory_class = self.net.factory(base)
			for type_name, friendly in self.transaction_names(embedded):
				try:
					created = type(factory_class.create_by_name(friendly)).__name__
				except Exception as ex:  # pylint: disable=broad-except
					created = f'{type(ex).__name__}'
				if created != type_name:
					ctx.fail('property', f'{self.name}: {base}Factory.create_by_name({friendly!r}) gives {created}, the schema says {type_name}', {
						'network': self.name, 'name': friendly})


def snake(name):
	result = ''
	for index, char in enumerate(name):
		if index and 'A' <= char <= 'Z':
			result += '_'
		result += char.lower()
	return result


def codec_unfix(key):
	return key[:-1] if key in ('type_', 'property_') else key


def first_difference_plain(left, right, path=''):
	if isinstance(left, (tuple, list)) and isinstance(right, (tuple, list)) and len(left) == len(right) and type(left) is type(right):
		for index, (a, b) in enumerate(zip(left, right)):
			if a != b:
				return first_difference_plain(a, b, f'{path}[{index}]')
	return f'{path or "descriptor"}: {str(left)[:150]} became {str(right)[:150]}'


def first_difference(left, right, path=''):
	if isinstance(left, dict) and isinstance(right, dict) and 'f' in left and 'f' in right and left.get('s') == right.get('s'):
		for (name, a), (_, b) in zip(left['f'], right['f']):
			if a != b:
				return first_difference(a, b, f'{path}.{name}')
	if isinstance(left, list) and isinstance(right, list) and len(left) == len(right):
		for index, (a, b) in enumerate(zip(left, right)):
			if a != b:
				return first_difference(a, b, f'{path}[{index}]')
	return f'{path or "value"}: {str(left)[:120]} != {str(right)[:120]}'


def run(ctx):
	# pylint: disable=too-many-locals
	per_combo = ctx.scale(5, 400)
	corrupt_from = ctx.scale(2, 60)
	sides = []
	others = {}
	for index, name in enumerate(('symbol', 'nem')):
		quick_choice = ['testnet', 'mainnet'][(ctx.seed + index) % 2]
		for current in (['testnet', 'mainnet'] if ctx.thorough else [quick_choice]):
			try:
				sides.append(Side(ctx, name, current))
			except Exception as ex:  # pylint: disable=broad-except
				ctx.fail('corr', f'cannot set up the {name} side: {type(ex).__name__}: {ex}', {'network': name})
	for side in sides:
		side.check_reflection()
		side.check_tables()
		entries = ['create'] + (['create_embedded'] if side.facts['embBase'] else [])
		for entry in entries:
			embedded = 'create_embedded' == entry
			for type_name, friendly in side.transaction_names(embedded):
				for autosort in (True, False):
					valid = []
					for index in range(per_combo):
						# the first descriptor of every combination mentions every member, with arrays of three or more elements
						wire, expected, forms = side.gen_valid(type_name, friendly, embedded, full=0 == index)
						valid.append((wire, expected, forms))
					malformed = []
					for wire, _, _ in valid[:corrupt_from]:
						for category, corrupted, note in side.corruptions(type_name, wire):
							malformed.append((category, corrupted, note))
					lines = [side.request(entry, autosort, wire) for wire, _, _ in valid] + [side.request(entry, autosort, wire) for _, wire, _ in malformed]
					answers = ctx.driver.ask_many(lines) if ctx.driver else [None] * len(lines)
					for (wire, expected, forms), answer in zip(valid, answers):
						side.check_valid(entry, autosort, type_name, wire, expected, forms, answer)
					for (category, wire, note), answer in zip(malformed, answers[len(valid):]):
						side.check_malformed(entry, autosort, type_name, category, wire, note, answer)
		if side.facts['embBase']:
			# histories on ONE factory: the same type name requested through the two entry points in both orders (state kept by the
			# factory between calls - caches, registered rules - must not leak from one creation into the next)
			top_names = dict((friendly, type_name) for type_name, friendly in side.transaction_names(False))
			embedded_names = dict((friendly, type_name) for type_name, friendly in side.transaction_names(True))
			shared = sorted(set(top_names) & set(embedded_names))
			for order in (('create_embedded', 'create'), ('create', 'create_embedded', 'create')):
				side.facade = type(side.facade)(side.facade.network.name)
				history = []
				for friendly in shared:
					for entry in order:
						embedded = 'create_embedded' == entry
						type_name = (embedded_names if embedded else top_names)[friendly]
						wire, expected, forms = side.gen_valid(type_name, friendly, embedded, full=True)
						history.append((entry, type_name, wire, expected, forms))
				answers = ctx.driver.ask_many([side.request(entry, True, wire) for entry, _, wire, _, _ in history]) if ctx.driver else [None] * len(history)
				for (entry, type_name, wire, expected, forms), answer in zip(history, answers):
					ctx.count(f'history:{"-".join(part.replace("create_", "") for part in order)}')
					side.check_valid(entry, True, type_name, wire, expected, forms, answer)
		# factories built with type_rule_overrides
		sequence = 0
		for entry in entries:
			names = side.transaction_names('create_embedded' == entry)
			for _ in range(ctx.scale(2, 60)):
				for type_name, friendly in names:
					sequence += 1
					side.check_overrides(entry, ctx.rng.random() < 0.5, type_name, friendly, sequence % 4)
		# one descriptor object, two networks, both orders
		other = others.get((side.name, side.network_name))
		if other is None:
			other = Side(ctx, side.name, 'mainnet' if 'testnet' == side.network_name else 'testnet')
			others[(other.name, other.network_name)] = side
		for entry in entries:
			for type_name, friendly in side.transaction_names('create_embedded' == entry):
				for _ in range(ctx.scale(1, 10)):
					side.check_one_descriptor_two_networks(other, entry, ctx.rng.random() < 0.5, type_name, friendly)
		if not side.facts['embBase']:
			# the nem factory has no create_embedded
			if hasattr(side.facade.transaction_factory, 'create_embedded'):
				ctx.fail('corr', 'the nem factory has a create_embedded entry point the model does not know', {'network': side.name})
		ctx.notes.append(f'{side.cid}: {len(side.transaction_names(False))} transaction names')


def replay(ctx, payload):
	case = payload['case']
	print(payload['what'])
	if 'descriptor' not in case:
		run(ctx)
		return
	side = Side(ctx, case['network'], case.get('network_name', 'testnet'))
	wire = case['descriptor']
	print('descriptor:', show(wire))
	status, transaction = side.run_impl(case['entry'], case['autosort'], wire)
	print('implementation:', status, transaction if 'ok' != status else side.state_wire(type(transaction).__name__, transaction))
	if 'ok' == status:
		print('serialize():', *[part if not isinstance(part, bytes) else part.hex().upper() for part in side.serialize(transaction)])
	if ctx.driver:
		print('model:', ctx.driver.ask(side.request(case['entry'], case['autosort'], wire))[:2000])
	answer = ctx.driver.ask(side.request(case['entry'], case['autosort'], wire)) if ctx.driver else None
	if 'category' in case:
		side.check_malformed(case['entry'], case['autosort'], case['type'], case['category'], wire, case.get('note', ''), answer)
	elif 'expected' in case:
		side.check_valid(case['entry'], case['autosort'], case['type'], wire, case['expected'], [], answer)


MANIFEST = {
	'level_text': (
		'Theorems over the descriptor model for all descriptors, types and configurations: create_holds_described (every described member holds '
		'its coerced value, every other member its constructor default, network forced, type/version constants), rejection theorems for unknown '
		'non-member (private, method, class-constant) and computed keys, unknown type / enum / flag names and out-of-range pod integers, override_takes_precedence / override_only_affects_named_type / create_holds_override for type_rule_overrides, create_ignores_described_network, autosort_canonical and ids_autofilled; the model is tied '
		'to the two factories by a differential run over every transaction name x entry point x autosort and by rule lists re-read from the sources.'),
	'level_note': (
		'partial: the AccountDescriptorRepository that builds override tables for the facades is not modelled (the override mechanism of the '
		'factories is); duck-typed inputs outside the documented forms are excluded; '
		'hashes and UTF-8 validity are parameters; the model is hand-written and tied by differential execution; known finding: negative flag '
		'integers are accepted as complements (the hasattr-based key test of copy_to, which let private-attribute, method-name and class-attribute '
		'keys through, was repaired: such keys are rejected and the check reports them as violations if they are accepted again).'),
	'technique': 'Lean 4 theorems over a hand-written model + differential correspondence with the Python implementation',
}
